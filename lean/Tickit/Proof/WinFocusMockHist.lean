import Tickit.Proof.WinFocusRestack
import Tickit.Proof.WinFocusMock
/-
  C15 over histories on the library's mock terminal (the engine's second configuration).

  The mock terminal has a size; it clamps every goto to it.  The root window is created with the terminal's size and
  only the terminal's resize event changes it (no operation of a plain history touches the root window's rectangle), so
  the root window always covers exactly the screen and the clamp never bites: after every flush the mock reports
  `cursorSpec`.
-/
namespace Tickit
namespace WinFocus
open WinTree WinSpec WinFlush

/-- The root window's rectangle. -/
def rootRect (t : Tree) : Option Rect := (t.wins[0]?).map (·.rect)

theorem rootRect_wins {t t' : Tree} (h : t'.wins = t.wins) : rootRect t' = rootRect t := by
  unfold rootRect; rw [h]

theorem rootRect_set {t : Tree} {i : Nat} {w w' : Win} (hw : t.wins[i]? = some w) (hr : w'.rect = w.rect) :
    rootRect (WinTree.set t i w') = rootRect t := by
  unfold rootRect
  rw [set_lookup hw]
  by_cases hi : i = 0
  · subst hi; simp [hw, hr]
  · simp [hi]

theorem rootRect_lookup {t t' : Tree} (h : (t'.wins[0]?).map (·.rect) = (t.wins[0]?).map (·.rect)) :
    rootRect t' = rootRect t := h

theorem rootRect_of_cn {t t' : Tree} (h : ∀ i : Nat, (t'.wins[i]?).map cn = (t.wins[i]?).map cn) :
    rootRect t' = rootRect t := by
  unfold rootRect
  have h0 := h 0
  cases ha : t'.wins[0]? with
  | none =>
    cases hb : t.wins[0]? with
    | none => rfl
    | some b => rw [ha, hb] at h0; cases h0
  | some a =>
    cases hb : t.wins[0]? with
    | none => rw [ha, hb] at h0; cases h0
    | some b =>
      rw [ha, hb] at h0
      simp only [Option.map_some, Option.some.injEq, cn, coreNoVis, Prod.mk.injEq] at h0
      simp [h0.2.1]

theorem rootRect_modify {t t' : Tree} {win : Nat} {f : Win → Win} (hf : ∀ w, (f w).rect = w.rect)
    (h : WinTree.modify t win f = .ok t') : rootRect t' = rootRect t := by
  unfold WinTree.modify at h
  simp only [bind_ok, pure_ok] at h
  obtain ⟨w, hg, h⟩ := h
  subst h
  exact rootRect_set (get_ok.mp hg).1 (hf w)

theorem rootRect_restoreIfFocused {t t' : Tree} {win : Nat} (h : restoreIfFocused t win = .ok t') :
    rootRect t' = rootRect t :=
  rootRect_wins (restoreIfFocused_rootStep h).1

theorem rootRect_setter {t t' : Tree} {win : Nat} (f : Cursor → Cursor)
    (hh : (WinTree.modify t win (fun w => { w with cursor := f w.cursor }) >>= fun t1 => restoreIfFocused t1 win) = .ok t') :
    rootRect t' = rootRect t := by
  simp only [bind_ok] at hh
  obtain ⟨t1, hm, hr⟩ := hh
  exact (rootRect_restoreIfFocused hr).trans
    (rootRect_modify (f := fun w => { w with cursor := f w.cursor }) (fun _ => rfl) hm)

theorem rootRect_expose {t t' : Tree} {fuel win : Nat} {r : Option Rect} (h : expose t fuel win r = .ok t') :
    rootRect t' = rootRect t :=
  rootRect_wins (expose_frame _ _ _ _ _ h).1

theorem rootRect_hideWin {fx : Fixes} {t t' : Tree} {win : Nat} (hh : hideWin fx t win = .ok t') :
    rootRect t' = rootRect t := by
  unfold hideWin at hh
  simp only [bind_ok] at hh
  obtain ⟨w, hgw, t'', h2, hh⟩ := hh
  have hw := get_ok.mp hgw
  have h1 : rootRect t'' = rootRect t := by
    rcases hide_struct h2 hw with ⟨_, ht⟩ | ⟨p, pw, _, hpw, ht⟩
    · rw [ht]; exact rootRect_set hw.1 rfl
    · refine (rootRect_wins ht).trans ?_
      split
      · exact (rootRect_set hpw.1 (by rfl)).trans (rootRect_set hw.1 (by rfl))
      · exact rootRect_set hw.1 (by rfl)
  split at hh
  · simp only [pure_ok] at hh; subst hh; exact h1
  · simp only [pure_ok] at hh; subst hh
    exact (rootRect_wins (chainRestoreAfter_wins _ _ _ _)).trans h1

theorem rootRect_showWin {fx : Fixes} {t t' : Tree} {win : Nat} (hh : showWin fx t win = .ok t') :
    rootRect t' = rootRect t := by
  unfold showWin at hh
  simp only [bind_ok, pure_ok] at hh
  obtain ⟨w, hgw, t'', h2, hh⟩ := hh
  have hw := get_ok.mp hgw
  subst hh
  refine (rootRect_wins (chainRestoreAfter_wins _ _ _ _)).trans ?_
  rcases show_struct h2 hw with ⟨_, ht⟩ | ⟨p, pw, _, hpw, ht⟩
  · exact (rootRect_wins ht).trans (rootRect_set hw.1 rfl)
  · refine (rootRect_wins ht).trans ?_
    split
    · exact (rootRect_set hpw.1 (by rfl)).trans (rootRect_set hw.1 (by rfl))
    · exact rootRect_set hw.1 (by rfl)

theorem rootRect_closeWin {fx : Fixes} {t t' : Tree} {win : Nat} (hg : Good15 t) (hh : closeWin fx t win = .ok t') :
    rootRect t' = rootRect t := by
  unfold closeWin at hh
  simp only [bind_ok, pure_ok] at hh
  obtain ⟨w, hgw, t'', h2, hh⟩ := hh
  have hw := get_ok.mp hgw
  subst hh
  refine (rootRect_wins (chainRestoreAfter_wins _ _ _ _)).trans ?_
  have hne : ∀ p, w.parent = some p → p ≠ win := fun p hp hc => by
    have := (wf_parent hg.wf hw hp).1
    exact absurd (hc ▸ this) (Nat.lt_irrefl _)
  obtain ⟨_, hcase⟩ := close_struct h2 hw hne
  rcases hcase with ⟨_, ht, _⟩ | ⟨p, pw, hp, hpw, _, hst⟩
  · exact (rootRect_wins ht).trans (rootRect_set hw.1 rfl)
  · have hplt := (wf_parent hg.wf hw hp).1
    have h0 : win ≠ 0 := fun h => by subst h; omega
    unfold rootRect
    rw [hst 0]
    unfold closedStore
    simp only [Ne.symm h0, if_false]
    by_cases hp0 : 0 = p
    · subst hp0; simp only [if_true]; rw [hpw.1]; rfl
    · simp only [hp0, if_false]

theorem rootRect_newWindow {t t' : Tree} {F par0 : Nat} {rect0 : Rect} {rp hid low st : Bool} {id : Nat}
    (h : newWindow t F par0 rect0 rp hid low st = .ok (t', id)) (h0 : ∃ r, t.wins[0]? = some r) :
    rootRect t' = rootRect t := by
  obtain ⟨_, par, rect, pw, tb, hpw, hst, _, _, hexp⟩ := newWindow_pieces h
  have hb : rootRect tb = rootRect t := by
    unfold rootRect
    rw [hst 0]
    unfold insertedStore
    obtain ⟨r, hr⟩ := h0
    have hsz : 0 ≠ t.wins.size := by
      intro he
      have := (Array.getElem?_eq_some_iff.mp hr).1
      omega
    simp only [hsz, if_false]
    by_cases hp0 : 0 = par
    · subst hp0; simp only [if_true]; rw [hpw.1]; rfl
    · simp only [hp0, if_false]
  split at hexp
  · exact (rootRect_expose hexp).trans hb
  · simp only [pure_ok] at hexp; subst hexp; exact hb

theorem rootRect_move {t t' : Tree} {fuel win : Nat} {r : Rect} (h0 : win ≠ 0)
    (h : setGeometryExposed t fuel win r = .ok t') : rootRect t' = rootRect t := by
  have hw : ∃ w, Live t win w := by
    unfold setGeometryExposed at h
    simp only [bind_ok] at h
    obtain ⟨w0, hg0, _⟩ := h
    exact ⟨w0, get_ok.mp hg0⟩
  obtain ⟨w, hw⟩ := hw
  rcases setGeometryExposed_wins h hw with hws | hws
  · exact rootRect_wins hws
  · refine (rootRect_wins hws).trans ?_
    unfold rootRect
    rw [set_lookup hw.1]
    simp [h0]

theorem rootRect_restack_apply {t t' : Tree} {F p c : Nat} {ch : Change} (hch : ch.isRestack = true)
    (hd : doHierarchyChange t F ch p c = .ok t') : rootRect t' = rootRect t := by
  obtain ⟨pw, cw, cs', hpw, _, _, _, hexp⟩ := restack_pieces hch hd
  split at hexp
  · exact (rootRect_expose hexp).trans (rootRect_set hpw.1 rfl)
  · simp only [pure_ok] at hexp; subst hexp; exact rootRect_set hpw.1 rfl

theorem rootRect_applyChanges : ∀ (reqs : List Req) (t t' : Tree), (∀ r ∈ reqs, r.change.isRestack = true) →
    applyChanges t reqs = .ok t' → rootRect t' = rootRect t := by
  intro reqs
  induction reqs with
  | nil => intro t t' _ h; simp only [applyChanges, pure_ok] at h; subst h; rfl
  | cons r rest ih =>
    intro t t' hq h
    simp only [applyChanges, bind_ok] at h
    obtain ⟨t1, h1, h2⟩ := h
    exact (ih t1 t' (fun r' hr' => hq r' (by simp [hr'])) h2).trans (rootRect_restack_apply (hq r (by simp)) h1)

theorem rootRect_flush {fx : Fixes} {t : Tree} {out : FlushOut} (hq : ∀ r ∈ t.root.changes, r.change.isRestack = true)
    (hf : flush fx t = .ok out) : rootRect out.tree = rootRect t := by
  by_cases hl : t.root.needsLater = true
  · obtain ⟨t1, h1, hw, _⟩ := flush_pieces hf hl
    have h2 := rootRect_applyChanges _ _ _ hq h1
    exact (rootRect_wins hw).trans h2
  · have hl' : t.root.needsLater = false := by simpa using hl
    unfold flush at hf
    simp only [hl', Bool.not_false, if_true, pure_ok] at hf
    subst hf; rfl

/-- The resize event gives the root window the terminal's size. -/
theorem rootRect_termResize {fx : Fixes} {t t' : Tree} {l c : Int} (hg : Good15 t)
    (h : termResize fx t l c = .ok t') : rootRect t' = some ⟨0, 0, l, c⟩ := by
  unfold termResize at h
  simp only [bind_ok, pure_ok] at h
  obtain ⟨w, hgw, t1, h1, t2, h2, t3, h3, h⟩ := h
  have hw := get_ok.mp hgw
  obtain ⟨r, hr, _, _, _, htop, hleft⟩ := hg.rootWin.ex
  rw [hw.1] at hr; cases hr
  have e1 : rootRect t1 = some ⟨0, 0, l, c⟩ := by
    unfold resize at h1
    simp only [bind_ok] at h1
    obtain ⟨w2, hg2, x, hx, h1⟩ := h1
    have := live_unique (get_ok.mp hg2) hw; subst this
    obtain ⟨ta, b⟩ := x
    simp only [pure_ok] at h1
    subst h1
    unfold setGeometry at hx
    simp only [bind_ok] at hx
    obtain ⟨w3, hg3, hx⟩ := hx
    have := live_unique (get_ok.mp hg3) hw; subst this
    split at hx
    · simp only [pure_ok, Prod.mk.injEq] at hx
      rw [← hx.1]
      unfold rootRect
      rw [set_lookup hw.1]
      simp [htop, hleft]
    · next heq =>
      simp only [pure_ok, Prod.mk.injEq] at hx
      rw [← hx.1]
      have heq' : w3.rect = ⟨w3.rect.top, w3.rect.left, l, c⟩ := by simpa using heq
      unfold rootRect
      rw [hw.1]
      simp only [Option.map_some, Option.some.injEq]
      rw [heq', htop, hleft]
  have e2 : rootRect t2 = rootRect t1 := by
    unfold resizeExposeLines at h2
    split at h2
    · exact rootRect_expose h2
    · simp only [pure_ok] at h2; subst h2; rfl
  have e3 : rootRect t3 = rootRect t2 := by
    unfold resizeExposeCols at h3
    split at h3
    · exact rootRect_expose h3
    · simp only [pure_ok] at h3; subst h3; rfl
  subst h
  split
  · exact (e3.trans e2).trans e1
  · exact (e3.trans e2).trans e1

/-! ### histories on the mock terminal -/

/-- Tree, the mock terminal's cursor as it reports it, and the mock terminal's size. -/
structure MSt where
  tree : Tree
  term : TermCursor := TermCursor.mockInit
  lines : Int
  cols : Int

/-- One operation on the mock terminal: the flush's calls are executed by the mock (clamped goto, `!!value` controls), a
    resize is `tickit_mockterm_resize` (the terminal's size changes, the resize event fires, the stored position is
    clamped); everything else does not touch the terminal. -/
def stepOpMock (fx : Fixes) (s : MSt) : Op → Res MSt
  | .flush => do
    let o ← WinFocus.flush fx s.tree
    pure { s with tree := o.tree, term := s.term.applyAllMock s.lines s.cols o.calls }
  | .termResize l c => do
    let t ← termResize fx s.tree l c
    pure { tree := t, term := s.term.mockResize l c, lines := l, cols := c }
  | op => do
    let s' ← stepOp fx { tree := s.tree, term := s.term } op
    pure { s with tree := s'.tree }

def runOpsMock (fx : Fixes) (s : MSt) : List Op → Res MSt
  | [] => pure s
  | op :: rest => do
    let s' ← stepOpMock fx s op
    runOpsMock fx s' rest

/-- The invariant of a history on the mock terminal: that of any history, and the root window covers the screen. -/
structure MInv (s : MSt) : Prop where
  hinv : HInv { tree := s.tree, term := s.term }
  fits : rootRect s.tree = some ⟨0, 0, s.lines, s.cols⟩

/-- No operation but the resize event touches the root window's rectangle. -/
theorem rootRect_stepOp {fx : Fixes} {s s' : HSt} {op : Op} (hop : op.plain) (hi : HInv s)
    (hs : stepOp fx s op = .ok s') : rootRect s'.tree = rootRect s.tree := by
  cases op with
  | termResize l c => exact absurd hop id
  | flush =>
    simp only [stepOp, bind_ok, pure_ok] at hs
    obtain ⟨o, ho, hs⟩ := hs; subst hs
    exact rootRect_flush hi.queue ho
  | newWin p r a b c d =>
    simp only [stepOp, bind_ok, pure_ok] at hs
    obtain ⟨x, hx, hs⟩ := hs; subst hs
    obtain ⟨t', id⟩ := x
    obtain ⟨r0, hr0, _⟩ := hi.good.rootWin.ex
    exact rootRect_newWindow hx ⟨r0, hr0⟩
  | focus w =>
    simp only [stepOp, bind_ok, pure_ok] at hs
    obtain ⟨x, hx, hs⟩ := hs; subst hs
    exact rootRect_of_cn (focusGained_cnw fx _ _ _ _ _ hx)
  | curpos w l c =>
    simp only [stepOp, bind_ok, pure_ok] at hs
    obtain ⟨x, hx, hs⟩ := hs; subst hs
    exact rootRect_setter (fun cu => { cu with line := l, col := c }) hx
  | curvis w v =>
    simp only [stepOp, bind_ok, pure_ok] at hs
    obtain ⟨x, hx, hs⟩ := hs; subst hs
    exact rootRect_setter (fun cu => { cu with visible := bit1 v }) hx
  | curshape w v =>
    simp only [stepOp, bind_ok, pure_ok] at hs
    obtain ⟨x, hx, hs⟩ := hs; subst hs
    exact rootRect_setter (fun cu => { cu with shape := v }) hx
  | curblink w v =>
    simp only [stepOp, bind_ok, pure_ok] at hs
    obtain ⟨x, hx, hs⟩ := hs; subst hs
    exact rootRect_setter (fun cu => { cu with blink := if v ≠ 0 then 1 else 0 }) hx
  | notify w v =>
    simp only [stepOp, bind_ok, pure_ok] at hs
    obtain ⟨x, hx, hs⟩ := hs; subst hs
    unfold setFocusChildNotify at hx
    exact rootRect_modify (f := fun w => { w with focusChildNotify := bit1 v }) (fun _ => rfl) hx
  | showW w =>
    simp only [stepOp, bind_ok, pure_ok] at hs
    obtain ⟨x, hx, hs⟩ := hs; subst hs
    exact rootRect_showWin hx
  | hideW w =>
    simp only [stepOp, bind_ok, pure_ok] at hs
    obtain ⟨x, hx, hs⟩ := hs; subst hs
    exact rootRect_hideWin hx
  | closeW w =>
    simp only [stepOp, bind_ok, pure_ok] at hs
    obtain ⟨x, hx, hs⟩ := hs; subst hs
    exact rootRect_closeWin hi.good hx
  | restack ch w =>
    simp only [stepOp, bind_ok, pure_ok] at hs
    obtain ⟨x, hx, hs⟩ := hs; subst hs
    apply rootRect_wins
    unfold requestHierarchyChange at hx
    simp only [bind_ok] at hx
    obtain ⟨w0, _, hx⟩ := hx
    split at hx
    · simp only [pure_ok] at hx; subst hx; rfl
    · simp only [bind_ok, pure_ok] at hx
      obtain ⟨_, _, hx⟩ := hx
      subst hx; rfl
  | move w r =>
    simp only [stepOp, bind_ok, pure_ok] at hs
    obtain ⟨x, hx, hs⟩ := hs; subst hs
    exact rootRect_move hop hx
  | exposeW w r =>
    simp only [stepOp, bind_ok, pure_ok] at hs
    obtain ⟨x, hx, hs⟩ := hs; subst hs
    exact rootRect_expose hx

/-- The flush on the mock terminal: the invariant is kept and the mock reports `cursorSpec`. -/
theorem flush_step_mock {fx : Fixes} (hfx : fx.hiddenRoot = true) {s s' : MSt} (hi : MInv s)
    (hs : stepOpMock fx s .flush = .ok s') : MInv s' ∧ s'.term.matches (cursorSpec s'.tree) = true := by
  simp only [stepOpMock, bind_ok, pure_ok] at hs
  obtain ⟨o, ho, hs⟩ := hs
  subst hs
  -- the same flush on a recording terminal
  have hrec : stepOp fx { tree := s.tree, term := s.term } .flush =
      .ok { tree := o.tree, term := s.term.applyAll o.calls } := by
    simp only [stepOp, ho]; rfl
  obtain ⟨hi', _⟩ := flush_step hfx hi.hinv hrec
  have hfit : rootRect o.tree = some ⟨0, 0, s.lines, s.cols⟩ := (rootRect_flush hi.hinv.queue ho).trans hi.fits
  have hmrec : (s.term.applyAll o.calls).matches (cursorSpec o.tree) = true := (flush_step hfx hi.hinv hrec).2
  have hmatch : (s.term.applyAllMock s.lines s.cols o.calls).matches (cursorSpec o.tree) = true := by
    rcases flush_calls_cases fx ho with hc | ⟨c1, c2, hc, hd⟩
    · -- no call was made: the cursor was in order already (as on any terminal)
      rw [hc] at hmrec ⊢
      exact hmrec
    · -- `_do_restore` ran; the root window covers the screen
      have hr0 : ∃ r, o.tree.wins[0]? = some r ∧ r.rect = ⟨0, 0, s.lines, s.cols⟩ := by
        unfold rootRect at hfit
        cases h0 : o.tree.wins[0]? with
        | none => rw [h0] at hfit; cases hfit
        | some r => rw [h0] at hfit; exact ⟨r, rfl, by simpa using hfit⟩
      obtain ⟨r, hr0, hrr⟩ := hr0
      rw [hc, applyAllMock_append]
      exact doRestore_spec_mock hi'.good.wf fx (.inl hfx) hd hr0 (by rw [hrr]) (by rw [hrr])
        (by rw [hrr]; exact Int.le_refl _) (by rw [hrr]; exact Int.le_refl _) _
  exact ⟨⟨⟨hi'.good, hi'.queue, hi'.qlater, .inr hmatch⟩, hfit⟩, hmatch⟩

/-- Every operation of a history on the mock terminal keeps the invariant (source with the three repairs). -/
theorem step_mock {fx : Fixes} (hfx1 : fx.hiddenRoot = true) (hfx2 : fx.chainRestore = true)
    (hfx3 : fx.resizeRestore = true) {s s' : MSt} {op : Op}
    (hop : op.plainR) (hi : MInv s) (hs : stepOpMock fx s op = .ok s') : MInv s' := by
  by_cases hr : ∃ l c, op = .termResize l c
  · obtain ⟨l, c, rfl⟩ := hr
    have hlc : 0 < l ∧ 0 < c := hop
    simp only [stepOpMock, bind_ok, pure_ok] at hs
    obtain ⟨x, hx, hs⟩ := hs; subst hs
    refine ⟨?_, rootRect_termResize hi.hinv.good hx⟩
    have hk := termResize_keeps hi.hinv.good hlc.1 hlc.2 hx
    exact ⟨termResize_good hi.hinv.good hlc.1 hlc.2 hx, fun q hq => hi.hinv.queue q (hk.2.2.2 q hq),
      qlater_keeps hi.hinv hk, .inl (termResize_pending hfx3 hi.hinv.good hlc.1 hlc.2 hx)⟩
  · by_cases hf : op = .flush
    · subst hf; exact (flush_step_mock hfx1 hi hs).1
    · have hp : op.plain := by
        cases op <;> first | exact hop | exact absurd ⟨_, _, rfl⟩ hr
      have hstep : ∃ r, stepOp fx { tree := s.tree, term := s.term } op = .ok r ∧
          s' = { s with tree := r.tree } ∧ r.term = s.term := by
        cases op with
        | flush => exact absurd rfl hf
        | termResize l c => exact absurd ⟨_, _, rfl⟩ hr
        | _ =>
          simp only [stepOpMock, bind_ok, pure_ok] at hs
          obtain ⟨r, hr1, hs⟩ := hs
          refine ⟨r, hr1, hs.symm, ?_⟩
          simp only [stepOp, bind_ok, pure_ok] at hr1
          obtain ⟨_, _, hr1⟩ := hr1
          rw [← hr1]
      obtain ⟨r, hr1, hs', hterm⟩ := hstep
      subst hs'
      have hi' := plain_step hfx1 hfx2 hp hi.hinv hr1
      have hrr := rootRect_stepOp hp hi.hinv hr1
      refine ⟨?_, hrr.trans hi.fits⟩
      have : r = { tree := r.tree, term := s.term } := by rw [← hterm]
      rw [this] at hi'; exact hi'

theorem runOpsMock_inv {fx : Fixes} (hfx1 : fx.hiddenRoot = true) (hfx2 : fx.chainRestore = true)
    (hfx3 : fx.resizeRestore = true) :
    ∀ (ops : List Op) (s s' : MSt), (∀ op ∈ ops, op.plainR) → MInv s → runOpsMock fx s ops = .ok s' → MInv s' := by
  intro ops
  induction ops with
  | nil => intro s s' _ hi h; simp only [runOpsMock, pure_ok] at h; subst h; exact hi
  | cons op rest ih =>
    intro s s' hp hi h
    simp only [runOpsMock, bind_ok] at h
    obtain ⟨s1, h1, h2⟩ := h
    exact ih s1 s' (fun o ho => hp o (by simp [ho])) (step_mock hfx1 hfx2 hfx3 (hp op (by simp)) hi h1) h2

theorem runOpsMock_append (fx : Fixes) : ∀ (a b : List Op) (s s' : MSt), runOpsMock fx s (a ++ b) = .ok s' →
    ∃ s1, runOpsMock fx s a = .ok s1 ∧ runOpsMock fx s1 b = .ok s' := by
  intro a
  induction a with
  | nil => intro b s s' h; exact ⟨s, rfl, h⟩
  | cons op rest ih =>
    intro b s s' h
    simp only [List.cons_append, runOpsMock, bind_ok] at h ⊢
    obtain ⟨s0, h0, h⟩ := h
    obtain ⟨s1, h1, h2⟩ := ih b s0 s' h
    exact ⟨s1, ⟨s0, h0, h1⟩, h2⟩

/-- A fresh root window on a mock terminal of `l × c` cells. -/
theorem minv_newRoot (l c : Int) (hl : 0 < l) (hc : 0 < c) : MInv { tree := newRoot l c, lines := l, cols := c } := by
  refine ⟨?_, rfl⟩
  have h := hinv_newRoot l c hl hc
  exact ⟨h.good, h.queue, h.qlater, .inl (by
    rcases h.sync with hp | hm
    · exact hp
    · -- the fresh tree has its first flush pending whatever the terminal shows
      have := (hinv_newRoot l c hl hc).good.later
      unfold newRoot at this ⊢
      simp only [hl, hc, and_self, if_true] at this ⊢
      exact ⟨.inr rfl, rfl⟩)⟩

/-- **C15 over histories on the library's mock terminal** (source with the three repairs): from `tickit_mockterm_new(l, c)`
    and a fresh root window, after any history of the library's operations and terminal resizes that ends in a flush,
    the cursor the mock terminal reports is what `cursorSpec` says of the tree. -/
theorem history_cursor_mock {fx : Fixes} (hfx1 : fx.hiddenRoot = true) (hfx2 : fx.chainRestore = true)
    (hfx3 : fx.resizeRestore = true)
    (l c : Int) (hl : 0 < l) (hc : 0 < c) (ops : List Op) (hplain : ∀ op ∈ ops, op.plainR) (s : MSt)
    (h : runOpsMock fx { tree := newRoot l c, lines := l, cols := c } (ops ++ [.flush]) = .ok s) :
    s.term.matches (cursorSpec s.tree) = true := by
  obtain ⟨s1, h1, h2⟩ := runOpsMock_append fx ops [.flush] _ s h
  have hi1 := runOpsMock_inv hfx1 hfx2 hfx3 ops _ s1 hplain (minv_newRoot l c hl hc) h1
  simp only [runOpsMock, bind_ok, pure_ok] at h2
  obtain ⟨s2, h2, h3⟩ := h2
  subst h3
  exact (flush_step_mock hfx1 hi1 h2).2

end WinFocus
end Tickit
