import Tickit.Proof.WinResize
/-
  Engine `win` (C01), second configuration: the library's mock terminal resized by `tickit_mockterm_resize`
  (src/mockterm.c).  The function is modelled on the cell grid it keeps (`NULL` cell pointer = `none`) in the order of its
  statements; `mockResize_screen` proves that what the terminal then displays is `WinFlush.resizedScreen` — the grid
  `WinFlush.termResize` continues with, on which `goodQ_resize` / `C01_full` are proved: every cell of the area both sizes
  share shows what it showed, every gained cell is a blank in the pen in force (the harness sets the default pen before it
  resizes).  So the clause "no stale or misplaced cell survives a flush" after "resizing the terminal" is proved about the
  mock terminal's own cells, not only about the harness's grid driver.
-/
namespace Tickit
namespace WinFlush
open WinRB

/-- The mock terminal driver's grid: `cells l c = none` is a cell pointer that is `NULL` (or outside the arrays);
    `blank`: a space in `mtd->pen`. -/
structure Mock where
  lines : Int
  cols : Int
  cells : Int → Int → Option Cell
  blank : Cell

/-- `for(line …) mtd_clear_cells(mtd, line, startcol, stopcol)` over the lines `l0 ≤ line < l1`: the cells are vivified
    and become blanks in the pen in force. -/
def Mock.clearLines (m : Mock) (l0 l1 startcol stopcol : Int) : Mock :=
  { m with cells := fun l c => if l0 ≤ l ∧ l < l1 ∧ startcol ≤ c ∧ c < stopcol then some m.blank else m.cells l c }

/-- `tickit_mockterm_resize(mt, newlines, newcols)`. -/
def Mock.resize (m : Mock) (newlines newcols : Int) : Mock :=
  let oldlines := m.lines
  let oldcols := m.cols
  -- the lines beyond `newlines` are freed; every line kept gets a new array of `newcols` pointers: the cells of the
  -- columns both widths share are carried over, the others are NULL; the lines gained are NULL
  let m1 : Mock :=
    { m with lines := newlines, cols := newcols,
             cells := fun l c => if 0 ≤ l ∧ l < min newlines oldlines ∧ 0 ≤ c ∧ c < min newcols oldcols then m.cells l c else none }
  -- if(newcols > oldcols) for(line = 0; line < newlines && line < oldlines; line++) mtd_clear_cells(mtd, line, oldcols, newcols);
  let m2 := if newcols > oldcols then m1.clearLines 0 (min newlines oldlines) oldcols newcols else m1
  -- for(line = oldlines; line < newlines; line++) mtd_clear_cells(mtd, line, 0, newcols);
  m2.clearLines oldlines newlines 0 newcols

/-- What the mock terminal displays at `(l, c)` (`tickit_mockterm_get_display_text` / `_pen`). -/
def Mock.display (m : Mock) (l c : Int) : Cell := (m.cells l c).getD Cell.never

/-- Every cell of the terminal is allocated (true of a new mock terminal, and kept by every operation). -/
def Mock.Full (m : Mock) : Prop :=
  ∀ l c, 0 ≤ l → l < m.lines → 0 ≤ c → c < m.cols → (m.cells l c).isSome = true

/-- **The mock terminal's resize, cell by cell**: inside the new size a cell of the area both sizes share is the very
    cell it was, every other cell is a fresh blank; no cell pointer is left `NULL`. -/
theorem mockResize_cells (m : Mock) (hf : m.Full) (hl0 : 0 ≤ m.lines) (hc0 : 0 ≤ m.cols) (nl nc : Int) (l c : Int)
    (h0 : 0 ≤ l) (h1 : l < nl) (h2 : 0 ≤ c) (h3 : c < nc) :
    (m.resize nl nc).cells l c =
      if l < min m.lines nl ∧ c < min m.cols nc then m.cells l c else some m.blank := by
  unfold Mock.resize Mock.clearLines
  by_cases hw : nc > m.cols
  · simp only [hw, if_true]
    by_cases hA : l < m.lines
    · by_cases hB : c < m.cols
      · rw [if_neg (by omega), if_neg (by omega), if_pos ⟨h0, by omega, h2, by omega⟩, if_pos ⟨by omega, by omega⟩]
      · rw [if_neg (by omega), if_pos ⟨by omega, by omega, by omega, h3⟩, if_neg (by omega)]
    · rw [if_pos ⟨by omega, h1, h2, h3⟩, if_neg (by omega)]
  · simp only [hw, if_false]
    by_cases hA : l < m.lines
    · rw [if_neg (by omega), if_pos ⟨h0, by omega, h2, by omega⟩, if_pos ⟨by omega, by omega⟩]
    · rw [if_pos ⟨by omega, h1, h2, h3⟩, if_neg (by omega)]

theorem mockResize_full (m : Mock) (hf : m.Full) (hl0 : 0 ≤ m.lines) (hc0 : 0 ≤ m.cols) (nl nc : Int) :
    (m.resize nl nc).Full := by
  intro l c h0 h1 h2 h3
  have hl : (m.resize nl nc).lines = nl := by
    by_cases hw : nc > m.cols <;> simp [Mock.resize, Mock.clearLines, hw]
  have hc : (m.resize nl nc).cols = nc := by
    by_cases hw : nc > m.cols <;> simp [Mock.resize, Mock.clearLines, hw]
  rw [hl] at h1; rw [hc] at h3
  rw [mockResize_cells m hf hl0 hc0 nl nc l c h0 h1 h2 h3]
  split
  · rename_i h; exact hf l c h0 (by omega) h2 (by omega)
  · rfl

/-- **`tickit_mockterm_resize` is the resize `termResize` models** (`resizedScreen`): when the mock terminal displays the
    model's screen and the pen in force is the default one, then after the resize it displays the model's resized screen
    at every cell of the new size — in particular every cell of the area both sizes share is untouched, whatever the
    shape of the terminal (more columns than lines or not) and whichever of the two dimensions grows or shrinks. -/
theorem mockResize_screen (st : St) (m : Mock) (hf : m.Full) (hml : m.lines = st.tlines) (hmc : m.cols = st.tcols)
    (hl0 : 0 ≤ st.tlines) (hc0 : 0 ≤ st.tcols) (hb : m.blank = Cell.never)
    (hs : ∀ l c, 0 ≤ l → l < st.tlines → 0 ≤ c → c < st.tcols → m.display l c = st.screen l c)
    (nl nc : Int) (l c : Int) (h0 : 0 ≤ l) (h1 : l < nl) (h2 : 0 ≤ c) (h3 : c < nc) :
    (m.resize nl nc).display l c = resizedScreen st nl nc l c := by
  unfold Mock.display
  rw [mockResize_cells m hf (by omega) (by omega) nl nc l c h0 h1 h2 h3]
  unfold resizedScreen
  by_cases h : l < min m.lines nl ∧ c < min m.cols nc
  · rw [if_pos h, if_pos ⟨h0, by omega, h2, by omega⟩]
    exact hs l c h0 (by omega) h2 (by omega)
  · rw [if_neg h, if_neg (by omega), hb]; rfl

/-- The clause as the property words it: a cell that showed the right thing before the terminal was made wider, taller,
    narrower or shorter and that lies inside both sizes still shows it. -/
theorem mockResize_keeps_shared (m : Mock) (hf : m.Full) (hl0 : 0 ≤ m.lines) (hc0 : 0 ≤ m.cols) (nl nc : Int) (l c : Int)
    (h0 : 0 ≤ l) (h1 : l < min m.lines nl) (h2 : 0 ≤ c) (h3 : c < min m.cols nc) :
    (m.resize nl nc).display l c = m.display l c := by
  unfold Mock.display
  rw [mockResize_cells m hf hl0 hc0 nl nc l c h0 (by omega) h2 (by omega), if_pos ⟨h1, h3⟩]

/-! Non-vacuity: a landscape terminal (2 lines of 5 columns) showing `'A' + column` made wider and taller. -/
def demoMock : Mock :=
  { lines := 2, cols := 5, blank := Cell.never,
    cells := fun l c => if 0 ≤ l ∧ l < 2 ∧ 0 ≤ c ∧ c < 5 then some ⟨65 + c.toNat, 1, -1, false, false⟩ else none }

example : ((List.range 7).map fun (c : Nat) => ((demoMock.resize 3 7).display 1 (c : Int)).glyph) = [65, 66, 67, 68, 69, 32, 32] := by
  decide
example : ((List.range 7).map fun (c : Nat) => ((demoMock.resize 3 7).display 2 (c : Int)).glyph) = [32, 32, 32, 32, 32, 32, 32] := by
  decide
example : ((List.range 3).map fun (c : Nat) => ((demoMock.resize 1 3).display 0 (c : Int)).glyph) = [65, 66, 67] := by decide

end WinFlush
end Tickit
