import Tickit.Model.XTermDrv
import Tickit.Proof.VT
import Tickit.Proof.Utf8
/-
  Helper lemmas about the driver model: `%d` (`showNat` / `showInt`) and its round trip through the VT's decimal
  reader; the driver's control sequences as dispatched commands.
-/
namespace Tickit.XTermDrv
open Tickit Tickit.VT

/-! ### `%d` -/

theorem showNatF_fuel (n : Nat) : ∀ f g, n < f → n < g → showNatF f n = showNatF g n := by
  induction n using Nat.strongRecOn with
  | _ n ih =>
    intro f g hf hg
    cases f with
    | zero => omega
    | succ f =>
      cases g with
      | zero => omega
      | succ g =>
        simp only [showNatF]
        by_cases h : n < 10
        · simp [h]
        · simp only [h, if_false]
          rw [ih (n / 10) (by omega) f g (by omega) (by omega)]

/-- The defining equation of `%u`. -/
theorem showNat_eq (n : Nat) :
    showNat n = if n < 10 then [UInt8.ofNat (48 + n)] else showNat (n / 10) ++ [UInt8.ofNat (48 + n % 10)] := by
  have e : ∀ m, showNat m = showNatF (m + 1) m := fun _ => rfl
  rw [e n, showNatF]
  by_cases h : n < 10
  · simp only [h, if_true]
  · simp only [h, if_false]
    rw [e (n / 10), showNatF_fuel (n / 10) n (n / 10 + 1) (by omega) (by omega)]

theorem digit_isDigit : ∀ k, k < 10 → isDigit (UInt8.ofNat (48 + k)) = true := by decide

theorem digit_toNat : ∀ k, k < 10 → (UInt8.ofNat (48 + k)).toNat - 48 = k := by decide

theorem showNat_ne_nil (n : Nat) : showNat n ≠ [] := by
  rw [showNat_eq]; by_cases h : n < 10 <;> simp [h]

theorem showNat_digits (n : Nat) : ∀ b ∈ showNat n, isDigit b = true := by
  induction n using Nat.strongRecOn with
  | _ n ih =>
    intro b hb
    rw [showNat_eq] at hb
    by_cases h : n < 10
    · simp only [h, if_true, List.mem_singleton] at hb; subst hb; exact digit_isDigit n h
    · simp only [h, if_false, List.mem_append, List.mem_singleton] at hb
      cases hb with
      | inl hb => exact ih (n / 10) (by omega) b hb
      | inr hb => subst hb; exact digit_isDigit (n % 10) (by omega)

theorem digitsValue_showNat (n : Nat) : digitsValue (showNat n) 0 = n := by
  induction n using Nat.strongRecOn with
  | _ n ih =>
    rw [showNat_eq]
    by_cases h : n < 10
    · simp only [h, if_true, digitsValue, List.foldl_cons, List.foldl_nil, digit_toNat n h]; omega
    · simp only [h, if_false]
      rw [digitsValue_append, ih (n / 10) (by omega)]
      simp only [digitsValue, List.foldl_cons, List.foldl_nil, digit_toNat (n % 10) (by omega)]
      omega

theorem paramVal_showNat (n : Nat) : paramVal (showNat n) = some n := by
  simp [paramVal, showNat_ne_nil, digitsValue_showNat]

theorem readNat_showNat (n : Nat) : readNat (showNat n) = some n := by
  have hd := showNat_digits n
  simp [readNat, showNat_ne_nil, digitsValue_showNat]
  exact hd

theorem showNat_head_ne_minus (n : Nat) : ∀ b rest, showNat n = b :: rest → b ≠ 0x2d := by
  intro b rest h
  have : isDigit b = true := showNat_digits n b (by rw [h]; simp)
  intro hb; subst hb; revert this; decide

theorem showInt_of_nonneg {i : Int} (h : 0 ≤ i) : showInt i = showNat i.toNat := by
  simp [showInt, Int.not_lt.mpr h]

/-! ### The driver's control sequences, as dispatched commands -/

/-- A parameter on the wire. -/
def wire : Option Nat → List UInt8
  | none => []
  | some n => showNat n

theorem paramVal_wire (p : Option Nat) : paramVal (wire p) = p := by
  cases p with
  | none => rfl
  | some n => exact paramVal_showNat n

theorem wire_digits (p : Option Nat) : ∀ b ∈ wire p, isDigit b = true := by
  cases p with
  | none => intro b hb; cases hb
  | some n => exact showNat_digits n

/-- `ESC [ p1 ; … ; pn I… F` with `%d`-rendered parameters is dispatched with exactly those parameters. -/
theorem run_csi_params (vt : VTState) (hg : vt.ps = .ground) (ps : List (Option Nat)) (hne : ps ≠ [])
    (inter : List UInt8) (hi : ∀ b ∈ inter, classify b = .inter) (f : UInt8) (hf : classify f = .final) :
    run (csi (joinParams (ps.map wire) ++ inter ++ [f])) vt = vt.dispatch 0 (ps.map fun p => [p]) inter f := by
  unfold csi
  rw [run_csi vt hg (ps.map wire) (by simpa using hne) (by
    intro p hp b hb
    obtain ⟨q, _, rfl⟩ := List.mem_map.mp hp
    exact wire_digits q b hb) inter hi f hf]
  congr 1
  simp [paramVal_wire]

theorem run_csi_0_i (vt : VTState) (hg : vt.ps = .ground) (inter : List UInt8) (hi : ∀ b ∈ inter, classify b = .inter)
    (f : UInt8) (hf : classify f = .final) :
    run (csi (inter ++ [f])) vt = vt.dispatch 0 [[none]] inter f := by
  have := run_csi_params vt hg [none] (by simp) inter hi f hf
  simpa [joinParams, wire] using this

theorem run_csi_n_i (vt : VTState) (hg : vt.ps = .ground) (n : Int) (hn : 0 ≤ n) (inter : List UInt8)
    (hi : ∀ b ∈ inter, classify b = .inter) (f : UInt8) (hf : classify f = .final) :
    run (csi (showInt n ++ inter ++ [f])) vt = vt.dispatch 0 [[some n.toNat]] inter f := by
  have := run_csi_params vt hg [some n.toNat] (by simp) inter hi f hf
  simpa [joinParams, wire, showInt_of_nonneg hn] using this

theorem run_csi_0 (vt : VTState) (hg : vt.ps = .ground) (f : UInt8) (hf : classify f = .final) :
    run (csi [f]) vt = vt.dispatch 0 [[none]] [] f := by
  have := run_csi_0_i vt hg [] (by simp) f hf
  simpa using this

theorem run_csi_n (vt : VTState) (hg : vt.ps = .ground) (n : Int) (hn : 0 ≤ n) (f : UInt8) (hf : classify f = .final) :
    run (csi (showInt n ++ [f])) vt = vt.dispatch 0 [[some n.toNat]] [] f := by
  have := run_csi_n_i vt hg n hn [] (by simp) f hf
  simpa using this

theorem run_csi_nn (vt : VTState) (hg : vt.ps = .ground) (a b : Int) (ha : 0 ≤ a) (hb : 0 ≤ b)
    (f : UInt8) (hf : classify f = .final) :
    run (csi (showInt a ++ [0x3b] ++ showInt b ++ [f])) vt = vt.dispatch 0 [[some a.toNat], [some b.toNat]] [] f := by
  have := run_csi_params vt hg [some a.toNat, some b.toNat] (by simp) [] (by simp) f hf
  simpa [joinParams, wire, showInt_of_nonneg ha, showInt_of_nonneg hb] using this

theorem run_csi_0n (vt : VTState) (hg : vt.ps = .ground) (b : Int) (hb : 0 ≤ b)
    (f : UInt8) (hf : classify f = .final) :
    run (csi ([0x3b] ++ showInt b ++ [f])) vt = vt.dispatch 0 [[none], [some b.toNat]] [] f := by
  have := run_csi_params vt hg [none, some b.toNat] (by simp) [] (by simp) f hf
  simpa [joinParams, wire, showInt_of_nonneg hb] using this

/-! ### `goto_abs`, and the signed `n / 1 / -1 / -n` ladder -/

theorem fin_H : classify 0x48 = .final := by decide
theorem fin_d : classify 0x64 = .final := by decide
theorem fin_G : classify 0x47 = .final := by decide
theorem fin_A : classify 0x41 = .final := by decide
theorem fin_B : classify 0x42 = .final := by decide
theorem fin_C : classify 0x43 = .final := by decide
theorem fin_D : classify 0x44 = .final := by decide
theorem fin_X : classify 0x58 = .final := by decide
theorem fin_J : classify 0x4a = .final := by decide
theorem fin_r : classify 0x72 = .final := by decide
theorem fin_s : classify 0x73 = .final := by decide
theorem fin_L : classify 0x4c = .final := by decide
theorem fin_M : classify 0x4d = .final := by decide
theorem fin_at : classify 0x40 = .final := by decide
theorem fin_P : classify 0x50 = .final := by decide
theorem fin_rb : classify 0x7d = .final := by decide
theorem fin_tl : classify 0x7e = .final := by decide
theorem inter_quote : ∀ b ∈ [(0x27 : UInt8)], classify b = .inter := by decide

/-- `goto_abs` with both coordinates given is CUP to that position (clamped by the terminal). -/
theorem run_gotoAbs_pos (vt : VTState) (hg : vt.ps = .ground) (line col : Int) (hl : 0 ≤ line) (hc : 0 ≤ col) :
    run (gotoAbs line col) vt = vt.moveTo line col := by
  unfold gotoAbs
  have h1 : line ≠ -1 := by omega
  by_cases h2 : col > 0
  · simp only [h1, h2, ne_eq, not_false_eq_true, and_self, if_true]
    rw [run_csi_nn vt hg (line + 1) (col + 1) (by omega) (by omega) 0x48 fin_H, dispatch_cup,
      cnt_toNat0 _ (by omega), cnt_toNat1 _ (by omega)]
    congr 1 <;> omega
  · have h3 : col = 0 := by omega
    subst h3
    simp only [h1, ne_eq, not_false_eq_true, Int.lt_irrefl, and_false, and_self, if_true, if_false, gt_iff_lt]
    rw [run_csi_n vt hg (line + 1) (by omega) 0x48 fin_H, dispatch_cup, cnt_toNat0 _ (by omega), cnt_missing1]
    congr 1 <;> omega

/-- The count parameter of the ladder: omitted for 1. -/
def cntParams (n : Int) : List (List (Option Nat)) := if n = 1 then [[none]] else [[some n.toNat]]

theorem cnt_cntParams (n : Int) (h : 1 ≤ n) : cnt (cntParams n) 0 = n := by
  unfold cntParams
  by_cases h1 : n = 1
  · subst h1; simp [cnt_none0]
  · simp only [h1, if_false]; exact cnt_toNat0 n h []

theorem run_signedSeq (vt : VTState) (hg : vt.ps = .ground) (n : Int) (inter : List UInt8)
    (hi : ∀ b ∈ inter, classify b = .inter) (pos neg : UInt8) (hp : classify pos = .final) (hn : classify neg = .final) :
    run (signedSeq n inter pos neg) vt =
      if n > 0 then vt.dispatch 0 (cntParams n) inter pos
      else if n < 0 then vt.dispatch 0 (cntParams (-n)) inter neg
      else vt := by
  unfold signedSeq cntParams
  by_cases h1 : n > 1
  · have a : n > 0 := by omega
    have b : n ≠ 1 := by omega
    simp only [h1, a, b, if_true, if_false]
    exact run_csi_n_i vt hg n (by omega) inter hi pos hp
  · by_cases h2 : n = 1
    · subst h2
      simp only [if_true, if_false, gt_iff_lt, Int.lt_irrefl]
      simp only [(by decide : (0 : Int) < 1), if_true]
      exact run_csi_0_i vt hg inter hi pos hp
    · by_cases h3 : n = -1
      · subst h3
        simp only [(by decide : ¬ (-1 : Int) > 1), (by decide : ¬ (-1 : Int) = 1), (by decide : ¬ (-1 : Int) > 0),
          (by decide : (-1 : Int) < 0), (by decide : (-(-1) : Int) = 1), if_true, if_false]
        exact run_csi_0_i vt hg inter hi neg hn
      · by_cases h4 : n < -1
        · have a : ¬ n > 0 := by omega
          have b : n < 0 := by omega
          have c : ¬ (-n = 1) := by omega
          simp only [h1, h2, h3, h4, a, b, c, if_true, if_false]
          exact run_csi_n_i vt hg (-n) (by omega) inter hi neg hn
        · have a : n = 0 := by omega
          subst a
          simp

theorem run_signedSeq_vshift (vt : VTState) (hg : vt.ps = .ground) (d : Int) :
    run (signedSeq d [] 0x4d 0x4c) vt = vshift vt d := by
  rw [run_signedSeq vt hg d [] (by simp) 0x4d 0x4c fin_M fin_L]
  unfold vshift
  by_cases h1 : d > 0
  · simp only [h1, if_true, dispatch_dl, cnt_cntParams d (by omega)]
  · by_cases h2 : d < 0
    · simp only [h1, h2, if_true, if_false, dispatch_il, cnt_cntParams (-d) (by omega)]
    · simp only [h1, h2, if_false]

theorem run_signedSeq_hshift (vt : VTState) (hg : vt.ps = .ground) (r : Int) :
    run (signedSeq r [0x27] 0x7e 0x7d) vt = hshift vt r := by
  rw [run_signedSeq vt hg r [0x27] inter_quote 0x7e 0x7d fin_tl fin_rb]
  unfold hshift
  by_cases h1 : r > 0
  · simp only [h1, if_true, dispatch_decdc, cnt_cntParams r (by omega)]
  · by_cases h2 : r < 0
    · simp only [h1, h2, if_true, if_false, dispatch_decic, cnt_cntParams (-r) (by omega)]
    · simp only [h1, h2, if_false]

theorem run_signedSeq_rshift (vt : VTState) (hg : vt.ps = .ground) (r : Int) :
    run (signedSeq r [] 0x50 0x40) vt = rshift vt r := by
  rw [run_signedSeq vt hg r [] (by simp) 0x50 0x40 fin_P fin_at]
  unfold rshift
  by_cases h1 : r > 0
  · simp only [h1, if_true, dispatch_dch, cnt_cntParams r (by omega)]
  · by_cases h2 : r < 0
    · simp only [h1, h2, if_true, if_false, dispatch_ich, cnt_cntParams (-r) (by omega)]
    · simp only [h1, h2, if_false]

/-- CUD/CUU ladder: the row moves by `d` (clamped), or nothing is sent. -/
theorem run_signedSeq_vmove (vt : VTState) (hg : vt.ps = .ground) (d : Int) :
    run (signedSeq d [] 0x42 0x41) vt = if d = 0 then vt else vt.moveTo (vt.row + d) vt.col := by
  rw [run_signedSeq vt hg d [] (by simp) 0x42 0x41 fin_B fin_A]
  by_cases h1 : d > 0
  · have : d ≠ 0 := by omega
    simp only [h1, this, if_true, if_false, dispatch_cud, cnt_cntParams d (by omega)]
  · by_cases h2 : d < 0
    · have : d ≠ 0 := by omega
      simp only [h1, h2, this, if_true, if_false, dispatch_cuu, cnt_cntParams (-d) (by omega)]
      congr 1; omega
    · have : d = 0 := by omega
      subst this; simp

/-- CUF/CUB ladder. -/
theorem run_signedSeq_hmove (vt : VTState) (hg : vt.ps = .ground) (r : Int) :
    run (signedSeq r [] 0x43 0x44) vt = if r = 0 then vt else vt.moveTo vt.row (vt.col + r) := by
  rw [run_signedSeq vt hg r [] (by simp) 0x43 0x44 fin_C fin_D]
  by_cases h1 : r > 0
  · have : r ≠ 0 := by omega
    simp only [h1, this, if_true, if_false, dispatch_cuf, cnt_cntParams r (by omega)]
  · by_cases h2 : r < 0
    · have : r ≠ 0 := by omega
      simp only [h1, h2, this, if_true, if_false, dispatch_cub, cnt_cntParams (-r) (by omega)]
      congr 1; omega
    · have : r = 0 := by omega
      subst this; simp

/-! ### Printable ASCII text -/

/-- Below U+0300 neither width table is consulted with success: the width is 1 unless the code point is a control. -/
theorem combining_first : (Width.Table.at Gen.Width.combining 0).1 = 0x300 := by decide +kernel
theorem fullwidth_first : 0x300 ≤ (Width.Table.at Gen.Width.fullwidth 0).1 := by decide +kernel

theorem bisearch_below (t : Width.Table) (c : Nat) (h : c < (t.at 0).1) : Width.bisearch t c = false := by
  unfold Width.bisearch
  by_cases hs : t.size = 0
  · simp [hs]
  · simp [hs, h]

theorem width_latin (c : Nat) (h0 : 0x20 ≤ c) (h1 : ¬ (0x7f ≤ c ∧ c < 0xa0)) (h2 : c < 0x300) : width c = 1 := by
  have hf := bisearch_below Gen.Width.fullwidth c (by have := fullwidth_first; omega)
  have hc := bisearch_below Gen.Width.combining c (by rw [combining_first]; exact h2)
  have hw : Width.isWideRange c = false := by
    unfold Width.isWideRange
    have : ¬ (c ≥ 0x1100) := by omega
    simp [this]
  have hz : c ≠ 0 := by omega
  have hctl : ¬ (c < 32 ∨ (c ≥ 0x7f ∧ c < 0xa0)) := by omega
  simp [width, Width.wcwidth, Width.mkWcwidth, hf, hc, hw, hz, hctl]

/-- What the ground state does with a printable ASCII byte. -/
theorem step_ascii (vt : VTState) (hg : vt.ps = .ground) (b : UInt8) (h1 : 0x20 ≤ b) (h2 : b < 0x7f) :
    step vt b = vt.put1 b.toNat := by
  have n1 : 0x20 ≤ b.toNat := UInt8.le_iff_toNat_le.mp h1
  have n2 : b.toNat < 0x7f := UInt8.lt_iff_toNat_lt.mp h2
  have hwd := width_latin b.toNat n1 (by omega) (by omega)
  have a1 : b.toNat ≠ 0x1b := by omega
  have a2 : b.toNat ≠ 0x0d := by omega
  have a3 : ¬ (b.toNat = 0x0a ∨ b.toNat = 0x0b ∨ b.toNat = 0x0c) := by omega
  have a4 : b.toNat ≠ 0x08 := by omega
  have a5 : ¬ (b.toNat < 0x20 ∨ b.toNat = 0x7f) := by omega
  have a6 : b.toNat < 0x80 := by omega
  simp only [step, hg, VTState.groundByte, a1, a2, a3, a4, a5, a6, if_true, if_false, VTState.putGlyph, hwd]

/-- The cell written by `put1`. -/
def put1Grid (vt : VTState) (cp : Nat) : Int → Int → Cell :=
  fun l c => if l = vt.row ∧ c = vt.col then ⟨cp, vt.bg, vt.rv⟩ else vt.grid l c

theorem put1_last (vt : VTState) (cp : Nat) (hpw : vt.pendingWrap = false) (h : vt.col + 1 ≥ vt.cols) :
    vt.put1 cp = { vt with grid := put1Grid vt cp, pendingWrap := true } := by
  simp [VTState.put1, hpw, h]; rfl

theorem put1_inner (vt : VTState) (cp : Nat) (hpw : vt.pendingWrap = false) (h : ¬ vt.col + 1 ≥ vt.cols) :
    vt.put1 cp = { vt with grid := put1Grid vt cp, col := vt.col + 1 } := by
  simp [VTState.put1, hpw, h]; rfl

/-- Grid after writing the bytes `bs` from the cursor with the current attributes. -/
def textGrid (bs : List UInt8) (vt : VTState) : Int → Int → Cell := fun l c =>
  if l = vt.row ∧ vt.col ≤ c ∧ c < vt.col + bs.length then ⟨(bs.getD (c - vt.col).toNat 32).toNat, vt.bg, vt.rv⟩
  else vt.grid l c

/-- Printable ASCII text that fits in the row: one cell per byte with the current attributes; the cursor ends after
    the text, or on the last column with the wrap pending when the text ends exactly at the right edge. -/
theorem run_ascii (bs : List UInt8) (hb : ∀ b ∈ bs, 0x20 ≤ b ∧ b < 0x7f) (hne : bs ≠ []) (vt : VTState)
    (hg : vt.ps = .ground) (hpw : vt.pendingWrap = false) (hfit : vt.col + bs.length ≤ vt.cols) :
    run bs vt =
    { vt with
      grid := textGrid bs vt,
      col := if vt.col + bs.length < vt.cols then vt.col + bs.length else vt.cols - 1,
      pendingWrap := decide (vt.col + bs.length = vt.cols) } := by
  induction bs generalizing vt with
  | nil => exact absurd rfl hne
  | cons b rest ih =>
    have hb0 := hb b (by simp)
    rw [run_cons, step_ascii vt hg b hb0.1 hb0.2]
    simp only [List.length_cons] at hfit
    by_cases hlast : vt.col + 1 ≥ vt.cols
    · -- the byte lands on the last column: nothing can follow
      have hr : rest = [] := by
        cases rest with
        | nil => rfl
        | cons _ _ => simp only [List.length_cons] at hfit; omega
      subst hr
      rw [put1_last vt _ hpw hlast, run_nil]
      apply VTState.ext <;> try rfl
      · funext l c
        simp only [put1Grid, textGrid, List.length_cons, List.length_nil]
        by_cases hc : l = vt.row ∧ c = vt.col
        · have h2 : l = vt.row ∧ vt.col ≤ c ∧ c < vt.col + ((0 + 1 : Nat) : Int) := by omega
          have e : (c - vt.col).toNat = 0 := by omega
          rw [if_pos hc, if_pos h2, e]; rfl
        · have h2 : ¬ (l = vt.row ∧ vt.col ≤ c ∧ c < vt.col + ((0 + 1 : Nat) : Int)) := by omega
          rw [if_neg hc, if_neg h2]
      · simp only [List.length_cons, List.length_nil]
        rw [if_neg (by omega)]; omega
      · simp only [List.length_cons, List.length_nil]
        symm; apply decide_eq_true; omega
    · rw [put1_inner vt _ hpw hlast]
      by_cases hr : rest = []
      · subst hr
        rw [run_nil]
        apply VTState.ext <;> try rfl
        · funext l c
          simp only [put1Grid, textGrid, List.length_cons, List.length_nil]
          by_cases hc : l = vt.row ∧ c = vt.col
          · have h2 : l = vt.row ∧ vt.col ≤ c ∧ c < vt.col + ((0 + 1 : Nat) : Int) := by omega
            have e : (c - vt.col).toNat = 0 := by omega
            rw [if_pos hc, if_pos h2, e]; rfl
          · have h2 : ¬ (l = vt.row ∧ vt.col ≤ c ∧ c < vt.col + ((0 + 1 : Nat) : Int)) := by omega
            rw [if_neg hc, if_neg h2]
        · simp only [List.length_cons, List.length_nil]
          rw [if_pos (by omega)]; omega
        · simp only [List.length_cons, List.length_nil]
          rw [hpw]; symm; apply decide_eq_false; omega
      · have hlen : 1 ≤ rest.length := by
          cases rest with
          | nil => exact absurd rfl hr
          | cons _ _ => simp
        rw [ih (fun x hx => hb x (by simp [hx])) hr { vt with grid := put1Grid vt b.toNat, col := vt.col + 1 } hg hpw
          (by simp only []; omega)]
        apply VTState.ext <;> try rfl
        · funext l c
          simp only [put1Grid, textGrid, List.length_cons]
          by_cases h1 : l = vt.row ∧ vt.col + 1 ≤ c ∧ c < vt.col + 1 + (rest.length : Int)
          · have h2 : l = vt.row ∧ vt.col ≤ c ∧ c < vt.col + ((rest.length + 1 : Nat) : Int) := by omega
            have e : (c - vt.col).toNat = (c - (vt.col + 1)).toNat + 1 := by omega
            rw [if_pos h1, if_pos h2, e, List.getD_cons_succ]
          · rw [if_neg h1]
            by_cases h3 : l = vt.row ∧ c = vt.col
            · have h2 : l = vt.row ∧ vt.col ≤ c ∧ c < vt.col + ((rest.length + 1 : Nat) : Int) := by omega
              have e : (c - vt.col).toNat = 0 := by omega
              rw [if_pos h3, if_pos h2, e]; rfl
            · have h2 : ¬ (l = vt.row ∧ vt.col ≤ c ∧ c < vt.col + ((rest.length + 1 : Nat) : Int)) := by omega
              rw [if_neg h3, if_neg h2]
        · simp only [List.length_cons]
          split <;> split <;> omega
        · simp only [List.length_cons]
          congr 1
          apply propext; constructor <;> intro h <;> omega

/-! ### `scrollrect`: one line of the ICH/DCH strategy, and the goto + IL/DL + DECIC/DECDC core -/

/-- One iteration of the ICH/DCH loop on a screen whose margins contain the cursor target. -/
theorem run_scrollLine (vt : VTState) (hg : vt.ps = .ground) (line left r : Int)
    (hl : 0 ≤ line ∧ line < vt.lines) (hc : 0 ≤ left ∧ left < vt.cols)
    (hm : vt.top ≤ line ∧ line ≤ vt.bottom ∧ vt.left ≤ left ∧ left ≤ vt.right) :
    run (scrollLine line left r) vt =
    { vt with
      grid := fun l c =>
        if l = line ∧ left ≤ c ∧ c ≤ vt.right then
          (if left ≤ c + r ∧ c + r ≤ vt.right then vt.grid l (c + r) else vt.blank)
        else vt.grid l c,
      row := line, col := left, pendingWrap := false } := by
  unfold scrollLine
  rw [run_append, run_gotoAbs_pos vt hg line left hl.1 hc.1, moveTo_in vt line left hl hc, run_signedSeq_rshift]
  · rw [rshift_eq _ r (by unfold VTState.inMargins; simpa using hm)]
    rfl
  · exact hg

/-- The core of the margin strategy: with the margins set to the rectangle, goto its origin, IL/DL, DECIC/DECDC. -/
theorem run_scrollCore (vt : VTState) (hg : vt.ps = .ground) (rect : Rect) (d r : Int)
    (hl : 0 ≤ rect.top ∧ rect.top < vt.lines) (hc : 0 ≤ rect.left ∧ rect.left < vt.cols)
    (hsz : 1 ≤ rect.lines ∧ 1 ≤ rect.cols)
    (hm : vt.top = rect.top ∧ vt.bottom = rect.bottom - 1 ∧ vt.left = rect.left ∧ vt.right = rect.right - 1) :
    run (gotoAbs rect.top rect.left ++ signedSeq d [] 0x4d 0x4c ++ signedSeq r [0x27] 0x7e 0x7d) vt =
    { vt with grid := Spec.scrollGrid rect d r vt, row := rect.top, col := rect.left, pendingWrap := false } := by
  obtain ⟨m1, m2, m3, m4⟩ := hm
  have hb : rect.bottom = rect.top + rect.lines := rfl
  have hrt : rect.right = rect.left + rect.cols := rfl
  rw [run_append, run_append, run_gotoAbs_pos vt hg rect.top rect.left hl.1 hc.1, moveTo_in vt _ _ hl hc,
    run_signedSeq_vshift]
  · rw [vshift_eq _ d (by simp only []; omega) (by unfold VTState.inMargins; simp only []; omega),
      run_signedSeq_hshift]
    · rw [hshift_eq _ r (by simp only []; omega) (by unfold VTState.inMargins; simp only []; omega)]
      apply VTState.ext <;> try rfl
      funext l c
      simp only [Spec.scrollGrid, VTState.blank, Cell.blank, m1, m2, m3, m4]
      cells_omega
    · exact hg
  · exact hg

/-- The ICH/DCH loop over `k + 1` lines. -/
theorem run_scrollLines (vt : VTState) (hg : vt.ps = .ground) (rect : Rect) (r : Int)
    (hscr : 0 ≤ rect.top ∧ rect.top + rect.lines ≤ vt.lines ∧ 0 ≤ rect.left ∧ rect.left < vt.cols)
    (hm : vt.top ≤ rect.top ∧ rect.top + rect.lines - 1 ≤ vt.bottom ∧ vt.left ≤ rect.left ∧ rect.left ≤ vt.right)
    (k : Nat) (hk : (k : Int) + 1 ≤ rect.lines) :
    run ((List.range (k + 1)).flatMap fun (i : Nat) => scrollLine (rect.top + (i : Int)) rect.left r) vt =
    { vt with
      grid := fun l c =>
        if rect.top ≤ l ∧ l ≤ rect.top + (k : Int) ∧ rect.left ≤ c ∧ c ≤ vt.right then
          (if rect.left ≤ c + r ∧ c + r ≤ vt.right then vt.grid l (c + r) else vt.blank)
        else vt.grid l c,
      row := rect.top + (k : Int), col := rect.left, pendingWrap := false } := by
  induction k with
  | zero =>
    simp only [Nat.zero_add, List.range_one, List.flatMap_cons, List.flatMap_nil, List.append_nil]
    rw [run_scrollLine vt hg _ _ r (by omega) (by omega) (by omega)]
    apply VTState.ext <;> try rfl
    · funext l c
      simp only []
      cells_omega
  | succ k ih =>
    rw [List.range_succ, List.flatMap_append, run_append, ih (by omega)]
    simp only [List.flatMap_cons, List.flatMap_nil, List.append_nil]
    rw [run_scrollLine]
    · apply VTState.ext <;> try rfl
      funext l c
      simp only [VTState.blank]
      cells_omega
    · exact hg
    · simp only []; omega
    · simp only []; omega
    · simp only []; omega

theorem param_nn0 (a b : Nat) : param [[some a], [some b]] 0 = some a := rfl
theorem param_nn1 (a b : Nat) : param [[some a], [some b]] 1 = some b := rfl
theorem param_0n0 (b : Nat) : param [[none], [some b]] 0 = none := rfl
theorem param_0n1 (b : Nat) : param [[none], [some b]] 1 = some b := rfl
theorem param_00 : param [[none]] 0 = none := rfl
theorem param_01 : param [[none]] 1 = none := rfl

/-! ### Small list facts, and the shapes of `scrollrect`'s output -/

theorem getD_map_toNat (bs : List UInt8) (i : Nat) : (bs.map UInt8.toNat).getD i 32 = (bs.getD i 32).toNat := by
  induction bs generalizing i with
  | nil => rfl
  | cons b rest ih => cases i with
    | zero => rfl
    | succ i => simpa using ih i

theorem getD_replicate_space (n i : Nat) : (List.replicate n (0x20 : UInt8)).getD i 32 = 32 := by
  simp only [List.getD_eq_getElem?_getD, List.getElem?_replicate]
  split <;> rfl

/-- The four shapes of a successful scroll's output. -/
theorem scrollrect_ichdch_margin (fx : Fixes) (caps : Caps) (tc : Int) (rect : Rect) (r : Int) (hr0 : r ≠ 0)
    (hs : caps.slrm = true ∧ rect.lines = 1) (hlt : rect.right < tc)
    (hcg : ¬ (fx.scrollCellGuard = true ∧ rect.right < tc ∧ rect.right < 2)) :
    scrollrect fx caps tc rect 0 r =
      (true, csi ([0x3b] ++ showInt rect.right ++ [0x73]) ++ (scrollLine rect.top rect.left r ++ csi [0x73])) := by
  unfold scrollrect
  rw [if_neg (by intro h; exact hr0 h.2)]
  simp only []
  rw [if_pos ⟨Or.inl hs, trivial⟩, if_neg hcg, if_pos hlt, if_pos hlt]
  have hl : rect.lines.toNat = 1 := by omega
  simp [hl]

theorem scrollrect_ichdch_full (fx : Fixes) (caps : Caps) (tc : Int) (rect : Rect) (r : Int) (hr0 : r ≠ 0)
    (hre : rect.right = tc) :
    scrollrect fx caps tc rect 0 r =
      (true, (List.range rect.lines.toNat).flatMap fun (i : Nat) => scrollLine (rect.top + (i : Int)) rect.left r) := by
  unfold scrollrect
  rw [if_neg (by intro h; exact hr0 h.2)]
  simp only []
  rw [if_pos ⟨Or.inr hre, trivial⟩, if_neg (by omega), if_neg (by omega), if_neg (by omega)]
  simp

theorem scrollrect_margins_lr (fx : Fixes) (caps : Caps) (tc : Int) (rect : Rect) (d r : Int) (h0 : ¬ (d = 0 ∧ r = 0))
    (hB1 : ¬ (((caps.slrm = true ∧ rect.lines = 1) ∨ rect.right = tc) ∧ d = 0))
    (hB2 : caps.slrm = true ∨ (rect.left = 0 ∧ rect.cols = tc ∧ r = 0))
    (hgd : ¬ (fx.scrollGuard = true ∧ (rect.lines < 2 ∨ ((rect.left > 0 ∨ rect.right < tc) ∧ rect.cols < 2))))
    (hneed : rect.left > 0 ∨ rect.right < tc) :
    scrollrect fx caps tc rect d r =
      (true, csi (showInt (rect.top + 1) ++ [0x3b] ++ showInt rect.bottom ++ [0x72]) ++
        (csi (showInt (rect.left + 1) ++ [0x3b] ++ showInt rect.right ++ [0x73]) ++
          ((gotoAbs rect.top rect.left ++ signedSeq d [] 0x4d 0x4c ++ signedSeq r [0x27] 0x7e 0x7d) ++
            (csi [0x72] ++ csi [0x73])))) := by
  unfold scrollrect
  rw [if_neg h0]
  simp only []
  rw [if_neg hB1, if_pos hB2, if_neg hgd, if_pos hneed, if_pos hneed]
  simp [List.append_assoc]

theorem scrollrect_margins_tb (fx : Fixes) (caps : Caps) (tc : Int) (rect : Rect) (d r : Int) (h0 : ¬ (d = 0 ∧ r = 0))
    (hB1 : ¬ (((caps.slrm = true ∧ rect.lines = 1) ∨ rect.right = tc) ∧ d = 0))
    (hB2 : caps.slrm = true ∨ (rect.left = 0 ∧ rect.cols = tc ∧ r = 0))
    (hgd : ¬ (fx.scrollGuard = true ∧ (rect.lines < 2 ∨ ((rect.left > 0 ∨ rect.right < tc) ∧ rect.cols < 2))))
    (hneed : ¬ (rect.left > 0 ∨ rect.right < tc)) :
    scrollrect fx caps tc rect d r =
      (true, csi (showInt (rect.top + 1) ++ [0x3b] ++ showInt rect.bottom ++ [0x72]) ++
          ((gotoAbs rect.top rect.left ++ signedSeq d [] 0x4d 0x4c ++ signedSeq r [0x27] 0x7e 0x7d) ++
            csi [0x72])) := by
  unfold scrollrect
  rw [if_neg h0]
  simp only []
  rw [if_neg hB1, if_pos hB2, if_neg hgd, if_neg hneed, if_neg hneed]
  simp [List.append_assoc]


/-! ### Concrete screens for examples and counterexamples -/

/-- A screen with a distinct glyph in every cell (for the non-vacuity examples and the counterexamples). -/
def cexScreen (lines cols : Int) : VTState :=
  VTState.init lines cols (fun l c => ⟨(l * cols + c).toNat + 0x100000, -1, false⟩)

/-- A 4x6 screen, cursor at (1,2), background 3, reverse video, DECLRMM set. -/
def exScreen : VTState := { cexScreen 4 6 with row := 1, col := 2, declrmm := true, rv := true, bg := 3 }

theorem exScreen_wf : Spec.WF exScreen := by constructor <;> decide

/-! ### UTF-8 text: the tokenizer's decoder undoes the library's encoder, and glyphs land cell by cell -/

theorem toNat_ofNat_lt {n : Nat} (h : n < 256) : (UInt8.ofNat n).toNat = n := by
  rw [UInt8.toNat_ofNat']; omega

theorem width_le_two (cp : Nat) : width cp = 0 ∨ width cp = 1 ∨ width cp = 2 := by
  unfold width Width.wcwidth Width.mkWcwidth
  (repeat' split) <;> simp

@[simp] theorem lineFeed_ps (vt : VTState) : vt.lineFeed.ps = vt.ps := by
  unfold VTState.lineFeed VTState.scrollUp; split
  · rfl
  · split <;> rfl
@[simp] theorem wrap_ps (vt : VTState) : vt.wrap.ps = vt.ps := by
  show vt.lineFeed.ps = vt.ps; exact lineFeed_ps vt
@[simp] theorem put1_ps (vt : VTState) (cp : Nat) : (vt.put1 cp).ps = vt.ps := by
  unfold VTState.put1
  simp only []
  (repeat' split) <;> simp
@[simp] theorem put2_ps (vt : VTState) (cp : Nat) : (vt.put2 cp).ps = vt.ps := by
  unfold VTState.put2
  simp only []
  (repeat' split) <;> simp
@[simp] theorem putGlyph_ps (vt : VTState) (cp : Nat) : (vt.putGlyph cp).ps = vt.ps := by
  unfold VTState.putGlyph; split <;> simp

theorem step_ground_glyph (vt : VTState) (hg : vt.ps = .ground) (b : UInt8) (h1 : 0x20 ≤ b.toNat) (h2 : b.toNat < 0x7f) :
    step vt b = vt.putGlyph b.toNat := by
  have a1 : b.toNat ≠ 0x1b := by omega
  have a2 : b.toNat ≠ 0x0d := by omega
  have a3 : ¬ (b.toNat = 0x0a ∨ b.toNat = 0x0b ∨ b.toNat = 0x0c) := by omega
  have a4 : b.toNat ≠ 0x08 := by omega
  have a5 : ¬ (b.toNat < 0x20 ∨ b.toNat = 0x7f) := by omega
  have a6 : b.toNat < 0x80 := by omega
  simp only [step, hg, VTState.groundByte, a1, a2, a3, a4, a5, a6, if_true, if_false]

theorem step_ground_lead (vt : VTState) (hg : vt.ps = .ground) (b : UInt8) (h1 : 0xc2 ≤ b.toNat) (h2 : b.toNat ≤ 0xf4) :
    step vt b =
      if b.toNat ≤ 0xdf then { vt with ps := .utf8 1 (b.toNat - 0xc0) }
      else if b.toNat ≤ 0xef then { vt with ps := .utf8 2 (b.toNat - 0xe0) }
      else { vt with ps := .utf8 3 (b.toNat - 0xf0) } := by
  have a1 : b.toNat ≠ 0x1b := by omega
  have a2 : b.toNat ≠ 0x0d := by omega
  have a3 : ¬ (b.toNat = 0x0a ∨ b.toNat = 0x0b ∨ b.toNat = 0x0c) := by omega
  have a4 : b.toNat ≠ 0x08 := by omega
  have a5 : ¬ (b.toNat < 0x20 ∨ b.toNat = 0x7f) := by omega
  have a6 : ¬ b.toNat < 0x80 := by omega
  simp only [step, hg, VTState.groundByte, a1, a2, a3, a4, a5, a6, if_false]
  by_cases c1 : b.toNat ≤ 0xdf
  · rw [if_pos ⟨h1, c1⟩, if_pos c1]
  · by_cases c2 : b.toNat ≤ 0xef
    · rw [if_neg (by omega), if_pos (by omega), if_neg c1, if_pos c2]
    · rw [if_neg (by omega), if_neg (by omega), if_pos (by omega), if_neg c1, if_neg c2]

theorem step_utf8_cont (vt : VTState) (need acc : Nat) (b : UInt8) (h1 : 0x80 ≤ b.toNat) (h2 : b.toNat ≤ 0xbf) :
    step { vt with ps := .utf8 need acc } b =
      if need ≤ 1 then ({ vt with ps := .ground } : VTState).putGlyph (acc * 64 + (b.toNat - 0x80))
      else { vt with ps := .utf8 (need - 1) (acc * 64 + (b.toNat - 0x80)) } := by
  simp only [step, h1, h2, and_self, if_true]

theorem decode2 (vt : VTState) (hg : vt.ps = .ground) (b1 b2 : UInt8)
    (h1 : 0xc2 ≤ b1.toNat ∧ b1.toNat ≤ 0xdf) (h2 : 0x80 ≤ b2.toNat ∧ b2.toNat ≤ 0xbf) :
    run [b1, b2] vt = vt.putGlyph ((b1.toNat - 0xc0) * 64 + (b2.toNat - 0x80)) := by
  simp only [run_cons, run_nil]
  rw [step_ground_lead vt hg b1 (by omega) (by omega), if_pos (by omega),
    step_utf8_cont vt _ _ b2 h2.1 h2.2, if_pos (by omega), set_ps_self vt _ hg]

theorem decode3 (vt : VTState) (hg : vt.ps = .ground) (b1 b2 b3 : UInt8)
    (h1 : 0xe0 ≤ b1.toNat ∧ b1.toNat ≤ 0xef) (h2 : 0x80 ≤ b2.toNat ∧ b2.toNat ≤ 0xbf)
    (h3 : 0x80 ≤ b3.toNat ∧ b3.toNat ≤ 0xbf) :
    run [b1, b2, b3] vt =
      vt.putGlyph (((b1.toNat - 0xe0) * 64 + (b2.toNat - 0x80)) * 64 + (b3.toNat - 0x80)) := by
  simp only [run_cons, run_nil]
  rw [step_ground_lead vt hg b1 (by omega) (by omega), if_neg (by omega), if_pos (by omega),
    step_utf8_cont vt _ _ b2 h2.1 h2.2, if_neg (by omega),
    step_utf8_cont vt _ _ b3 h3.1 h3.2, if_pos (by omega), set_ps_self vt _ hg]

theorem decode4 (vt : VTState) (hg : vt.ps = .ground) (b1 b2 b3 b4 : UInt8)
    (h1 : 0xf0 ≤ b1.toNat ∧ b1.toNat ≤ 0xf4) (h2 : 0x80 ≤ b2.toNat ∧ b2.toNat ≤ 0xbf)
    (h3 : 0x80 ≤ b3.toNat ∧ b3.toNat ≤ 0xbf) (h4 : 0x80 ≤ b4.toNat ∧ b4.toNat ≤ 0xbf) :
    run [b1, b2, b3, b4] vt =
      vt.putGlyph ((((b1.toNat - 0xf0) * 64 + (b2.toNat - 0x80)) * 64 + (b3.toNat - 0x80)) * 64 + (b4.toNat - 0x80)) := by
  simp only [run_cons, run_nil]
  rw [step_ground_lead vt hg b1 (by omega) (by omega), if_neg (by omega), if_neg (by omega),
    step_utf8_cont vt _ _ b2 h2.1 h2.2, if_neg (by omega),
    step_utf8_cont vt _ _ b3 h3.1 h3.2, if_neg (by omega),
    step_utf8_cont vt _ _ b4 h4.1 h4.2, if_pos (by omega), set_ps_self vt _ hg]

/-- The tokenizer decodes what `tickit_utf8_put` encodes: one glyph, the code point itself. -/
theorem run_putBytes (vt : VTState) (hg : vt.ps = .ground) (cp : Nat) (hp : Spec.Printable cp) :
    run ((Utf8.putBytes cp).map UInt8.ofNat) vt = vt.putGlyph cp := by
  obtain ⟨p1, p2, p3⟩ := hp
  rcases Nat.lt_or_ge cp 0x80 with hA | hA
  · rw [Utf8.putBytes_1 cp hA]
    simp only [List.map_cons, List.map_nil, run_cons, run_nil]
    have e := toNat_ofNat_lt (n := cp) (by omega)
    rw [step_ground_glyph vt hg _ (by rw [e]; omega) (by rw [e]; omega), e]
  · rcases Nat.lt_or_ge cp 0x800 with hB | hB
    · rw [Utf8.putBytes_2 cp hA hB]
      simp only [List.map_cons, List.map_nil]
      have e1 := toNat_ofNat_lt (n := 192 + cp / 64) (by omega)
      have e2 := toNat_ofNat_lt (n := 128 + cp % 64) (by omega)
      have g1 : 0xc2 ≤ (UInt8.ofNat (192 + cp / 64)).toNat ∧ (UInt8.ofNat (192 + cp / 64)).toNat ≤ 0xdf := by
        rw [e1]; omega
      have g2 : 0x80 ≤ (UInt8.ofNat (128 + cp % 64)).toNat ∧ (UInt8.ofNat (128 + cp % 64)).toNat ≤ 0xbf := by
        rw [e2]; omega
      rw [decode2 vt hg (UInt8.ofNat (192 + cp / 64)) (UInt8.ofNat (128 + cp % 64)) g1 g2, e1, e2]
      have : (192 + cp / 64 - 0xc0) * 64 + (128 + cp % 64 - 0x80) = cp := by omega
      rw [this]
    · rcases Nat.lt_or_ge cp 0x10000 with hC | hC
      · rw [Utf8.putBytes_3 cp hB hC]
        simp only [List.map_cons, List.map_nil]
        have e1 := toNat_ofNat_lt (n := 224 + cp / 4096) (by omega)
        have e2 := toNat_ofNat_lt (n := 128 + cp / 64 % 64) (by omega)
        have e3 := toNat_ofNat_lt (n := 128 + cp % 64) (by omega)
        have g1 : 0xe0 ≤ (UInt8.ofNat (224 + cp / 4096)).toNat ∧ (UInt8.ofNat (224 + cp / 4096)).toNat ≤ 0xef := by
          rw [e1]; omega
        have g2 : 0x80 ≤ (UInt8.ofNat (128 + cp / 64 % 64)).toNat ∧ (UInt8.ofNat (128 + cp / 64 % 64)).toNat ≤ 0xbf := by
          rw [e2]; omega
        have g3 : 0x80 ≤ (UInt8.ofNat (128 + cp % 64)).toNat ∧ (UInt8.ofNat (128 + cp % 64)).toNat ≤ 0xbf := by
          rw [e3]; omega
        rw [decode3 vt hg (UInt8.ofNat (224 + cp / 4096)) (UInt8.ofNat (128 + cp / 64 % 64)) (UInt8.ofNat (128 + cp % 64))
          g1 g2 g3, e1, e2, e3]
        have : ((224 + cp / 4096 - 0xe0) * 64 + (128 + cp / 64 % 64 - 0x80)) * 64 + (128 + cp % 64 - 0x80) = cp := by omega
        rw [this]
      · rw [Utf8.putBytes_4 cp hC (by omega)]
        simp only [List.map_cons, List.map_nil]
        have e1 := toNat_ofNat_lt (n := 240 + cp / 262144) (by omega)
        have e2 := toNat_ofNat_lt (n := 128 + cp / 4096 % 64) (by omega)
        have e3 := toNat_ofNat_lt (n := 128 + cp / 64 % 64) (by omega)
        have e4 := toNat_ofNat_lt (n := 128 + cp % 64) (by omega)
        have g1 : 0xf0 ≤ (UInt8.ofNat (240 + cp / 262144)).toNat ∧ (UInt8.ofNat (240 + cp / 262144)).toNat ≤ 0xf4 := by
          rw [e1]; omega
        have g2 : 0x80 ≤ (UInt8.ofNat (128 + cp / 4096 % 64)).toNat ∧ (UInt8.ofNat (128 + cp / 4096 % 64)).toNat ≤ 0xbf := by
          rw [e2]; omega
        have g3 : 0x80 ≤ (UInt8.ofNat (128 + cp / 64 % 64)).toNat ∧ (UInt8.ofNat (128 + cp / 64 % 64)).toNat ≤ 0xbf := by
          rw [e3]; omega
        have g4 : 0x80 ≤ (UInt8.ofNat (128 + cp % 64)).toNat ∧ (UInt8.ofNat (128 + cp % 64)).toNat ≤ 0xbf := by
          rw [e4]; omega
        rw [decode4 vt hg (UInt8.ofNat (240 + cp / 262144)) (UInt8.ofNat (128 + cp / 4096 % 64))
          (UInt8.ofNat (128 + cp / 64 % 64)) (UInt8.ofNat (128 + cp % 64)) g1 g2 g3 g4, e1, e2, e3, e4]
        have : (((240 + cp / 262144 - 0xf0) * 64 + (128 + cp / 4096 % 64 - 0x80)) * 64 + (128 + cp / 64 % 64 - 0x80)) * 64
            + (128 + cp % 64 - 0x80) = cp := by omega
        rw [this]

/-- A whole text: the glyphs are put one after the other. -/
theorem run_utf8 (cps : List Nat) (hp : ∀ cp ∈ cps, Spec.Printable cp) (vt : VTState) (hg : vt.ps = .ground) :
    run (Spec.utf8 cps) vt = cps.foldl VTState.putGlyph vt := by
  induction cps generalizing vt with
  | nil => rfl
  | cons cp rest ih =>
    simp only [Spec.utf8, List.flatMap_cons, run_append, List.foldl_cons]
    rw [run_putBytes vt hg cp (hp cp (by simp))]
    exact ih (fun x hx => hp x (by simp [hx])) _ (by simpa using hg)

/-! ### Cells: every glyph of a text lands where the widths say -/

theorem getD_append_lt (a b : List Nat) (i : Nat) (h : i < a.length) : (a ++ b).getD i 32 = a.getD i 32 := by
  induction a generalizing i with
  | nil => simp at h
  | cons x xs ih => cases i with
    | zero => rfl
    | succ i => simp only [List.cons_append, List.getD_cons_succ]; exact ih i (by simpa using h)

theorem getD_append_ge (a b : List Nat) (i : Nat) (h : a.length ≤ i) : (a ++ b).getD i 32 = b.getD (i - a.length) 32 := by
  induction a generalizing i with
  | nil => simp
  | cons x xs ih => cases i with
    | zero => simp at h
    | succ i =>
      simp only [List.cons_append, List.getD_cons_succ, List.length_cons]
      rw [ih i (by simpa using h)]; congr 1; omega

theorem put1_place (vt : VTState) (cp : Nat) (hpw : vt.pendingWrap = false) (hfit : vt.col + 1 ≤ vt.cols) :
    vt.put1 cp = Spec.placeCells [cp] vt := by
  by_cases hlast : vt.col + 1 ≥ vt.cols
  · rw [put1_last vt cp hpw hlast]
    apply VTState.ext <;> try rfl
    · funext l c
      simp only [put1Grid, Spec.placeCells, Spec.cellsGrid, List.length_cons, List.length_nil]
      by_cases hc : l = vt.row ∧ c = vt.col
      · have h2 : l = vt.row ∧ vt.col ≤ c ∧ c < vt.col + ((0 + 1 : Nat) : Int) := by omega
        have e : (c - vt.col).toNat = 0 := by omega
        rw [if_pos hc, if_pos h2, e]; rfl
      · have h2 : ¬ (l = vt.row ∧ vt.col ≤ c ∧ c < vt.col + ((0 + 1 : Nat) : Int)) := by omega
        rw [if_neg hc, if_neg h2]
    · simp only [Spec.placeCells, List.length_cons, List.length_nil]
      rw [if_neg (by omega)]; omega
    · simp only [Spec.placeCells, List.length_cons, List.length_nil]
      symm; apply decide_eq_true; omega
  · rw [put1_inner vt cp hpw hlast]
    apply VTState.ext <;> try rfl
    · funext l c
      simp only [put1Grid, Spec.placeCells, Spec.cellsGrid, List.length_cons, List.length_nil]
      by_cases hc : l = vt.row ∧ c = vt.col
      · have h2 : l = vt.row ∧ vt.col ≤ c ∧ c < vt.col + ((0 + 1 : Nat) : Int) := by omega
        have e : (c - vt.col).toNat = 0 := by omega
        rw [if_pos hc, if_pos h2, e]; rfl
      · have h2 : ¬ (l = vt.row ∧ vt.col ≤ c ∧ c < vt.col + ((0 + 1 : Nat) : Int)) := by omega
        rw [if_neg hc, if_neg h2]
    · simp only [Spec.placeCells, List.length_cons, List.length_nil]
      rw [if_pos (by omega)]; omega
    · simp only [Spec.placeCells, List.length_cons, List.length_nil]
      rw [hpw]; symm; apply decide_eq_false; omega

theorem put2_place (vt : VTState) (cp : Nat) (hpw : vt.pendingWrap = false) (hfit : vt.col + 2 ≤ vt.cols) :
    vt.put2 cp = Spec.placeCells [cp, 0] vt := by
  have hnw : ¬ (vt.pendingWrap = true ∨ vt.col + 2 > vt.cols) := by rw [hpw]; simp; omega
  unfold VTState.put2
  simp only [hnw, if_false]
  by_cases hlast : vt.col + 2 ≥ vt.cols
  · rw [if_pos hlast]
    apply VTState.ext <;> try rfl
    · funext l c
      simp only [Spec.placeCells, Spec.cellsGrid, List.length_cons, List.length_nil]
      by_cases hc : l = vt.row ∧ c = vt.col
      · have h2 : l = vt.row ∧ vt.col ≤ c ∧ c < vt.col + ((0 + 1 + 1 : Nat) : Int) := by omega
        have e : (c - vt.col).toNat = 0 := by omega
        rw [if_pos hc, if_pos h2, e]; rfl
      · rw [if_neg hc]
        by_cases hc2 : l = vt.row ∧ c = vt.col + 1 ∧ c < vt.cols
        · have h2 : l = vt.row ∧ vt.col ≤ c ∧ c < vt.col + ((0 + 1 + 1 : Nat) : Int) := by omega
          have e : (c - vt.col).toNat = 1 := by omega
          rw [if_pos hc2, if_pos h2, e]; rfl
        · have h2 : ¬ (l = vt.row ∧ vt.col ≤ c ∧ c < vt.col + ((0 + 1 + 1 : Nat) : Int)) := by omega
          rw [if_neg hc2, if_neg h2]
    · simp only [Spec.placeCells, List.length_cons, List.length_nil]
      rw [if_neg (by omega)]
    · simp only [Spec.placeCells, List.length_cons, List.length_nil]
      symm; apply decide_eq_true; omega
  · rw [if_neg hlast]
    apply VTState.ext <;> try rfl
    · funext l c
      simp only [Spec.placeCells, Spec.cellsGrid, List.length_cons, List.length_nil]
      by_cases hc : l = vt.row ∧ c = vt.col
      · have h2 : l = vt.row ∧ vt.col ≤ c ∧ c < vt.col + ((0 + 1 + 1 : Nat) : Int) := by omega
        have e : (c - vt.col).toNat = 0 := by omega
        rw [if_pos hc, if_pos h2, e]; rfl
      · rw [if_neg hc]
        by_cases hc2 : l = vt.row ∧ c = vt.col + 1 ∧ c < vt.cols
        · have h2 : l = vt.row ∧ vt.col ≤ c ∧ c < vt.col + ((0 + 1 + 1 : Nat) : Int) := by omega
          have e : (c - vt.col).toNat = 1 := by omega
          rw [if_pos hc2, if_pos h2, e]; rfl
        · have h2 : ¬ (l = vt.row ∧ vt.col ≤ c ∧ c < vt.col + ((0 + 1 + 1 : Nat) : Int)) := by omega
          rw [if_neg hc2, if_neg h2]
    · simp only [Spec.placeCells, List.length_cons, List.length_nil]
      rw [if_pos (by omega)]; omega
    · simp only [Spec.placeCells, List.length_cons, List.length_nil]
      rw [hpw]; symm; apply decide_eq_false; omega

/-- Placing `a` and then `b` is placing `a ++ b`, as long as `a` stops short of the right edge. -/
theorem placeCells_append (vt : VTState) (a b : List Nat) (hroom : vt.col + a.length < vt.cols) :
    Spec.placeCells b (Spec.placeCells a vt) = Spec.placeCells (a ++ b) vt := by
  have hcol : (Spec.placeCells a vt).col = vt.col + a.length := by
    simp only [Spec.placeCells]; rw [if_pos hroom]
  apply VTState.ext <;> try rfl
  · funext l c
    simp only [Spec.placeCells, Spec.cellsGrid, List.length_append, if_pos hroom]
    by_cases h1 : l = vt.row ∧ vt.col + ↑a.length ≤ c ∧ c < vt.col + ↑a.length + ↑b.length
    · have h2 : l = vt.row ∧ vt.col ≤ c ∧ c < vt.col + ((a.length + b.length : Nat) : Int) := by omega
      rw [if_pos h1, if_pos h2, getD_append_ge a b _ (by omega)]
      congr 2; omega
    · rw [if_neg h1]
      by_cases h3 : l = vt.row ∧ vt.col ≤ c ∧ c < vt.col + ↑a.length
      · have h2 : l = vt.row ∧ vt.col ≤ c ∧ c < vt.col + ((a.length + b.length : Nat) : Int) := by omega
        rw [if_pos h3, if_pos h2, getD_append_lt a b _ (by omega)]
      · have h2 : ¬ (l = vt.row ∧ vt.col ≤ c ∧ c < vt.col + ((a.length + b.length : Nat) : Int)) := by omega
        rw [if_neg h3, if_neg h2]
  · simp only [Spec.placeCells, List.length_append, if_pos hroom]
    split <;> split <;> omega
  · simp only [Spec.placeCells, List.length_append, if_pos hroom]
    congr 1; apply propext; constructor <;> intro h <;> omega

theorem cellsOf_cases (cp : Nat) :
    (width cp = 0 ∧ Spec.cellsOf cp = []) ∨ (width cp = 1 ∧ Spec.cellsOf cp = [cp]) ∨
    (width cp = 2 ∧ Spec.cellsOf cp = [cp, 0]) := by
  unfold Spec.cellsOf
  rcases width_le_two cp with h | h | h <;> simp [h]

/-- Zero-width characters change nothing. -/
theorem foldl_zero_width (cps : List Nat) (h : Spec.textCells cps = []) (vt : VTState) :
    cps.foldl VTState.putGlyph vt = vt := by
  induction cps generalizing vt with
  | nil => rfl
  | cons cp rest ih =>
    simp only [Spec.textCells, List.flatMap_cons, List.append_eq_nil_iff] at h
    rcases cellsOf_cases cp with ⟨hw, _⟩ | ⟨_, hc⟩ | ⟨_, hc⟩
    · simp only [List.foldl_cons, VTState.putGlyph, hw]
      exact ih h.2 vt
    · rw [hc] at h; exact absurd h.1 (by simp)
    · rw [hc] at h; exact absurd h.1 (by simp)

/-- Putting the glyphs of a text that fits in the row, one after the other, places exactly its cells. -/
theorem foldl_putGlyph (cps : List Nat) (vt : VTState) (hpw : vt.pendingWrap = false) (hcol : vt.col < vt.cols)
    (hfit : vt.col + (Spec.textCells cps).length ≤ vt.cols) :
    cps.foldl VTState.putGlyph vt = Spec.placeCells (Spec.textCells cps) vt := by
  induction cps generalizing vt with
  | nil =>
    simp only [List.foldl_nil, Spec.textCells, List.flatMap_nil]
    apply VTState.ext <;> try rfl
    · funext l c
      simp only [Spec.placeCells, Spec.cellsGrid, List.length_nil]
      rw [if_neg (by omega)]
    · simp only [Spec.placeCells, List.length_nil]; rw [if_pos (by omega)]; omega
    · simp only [Spec.placeCells, List.length_nil]; rw [hpw]; symm; apply decide_eq_false; omega
  | cons cp rest ih =>
    have htc : Spec.textCells (cp :: rest) = Spec.cellsOf cp ++ Spec.textCells rest := by
      simp [Spec.textCells]
    rw [htc] at hfit ⊢
    simp only [List.length_append] at hfit
    simp only [List.foldl_cons]
    have key : ∀ a : List Nat, a ≠ [] → vt.putGlyph cp = Spec.placeCells a vt → Spec.cellsOf cp = a →
        rest.foldl VTState.putGlyph (vt.putGlyph cp) = Spec.placeCells (a ++ Spec.textCells rest) vt := by
      intro a hne hput hca
      rw [hca] at hfit
      rw [hput]
      by_cases hroom : vt.col + a.length < vt.cols
      · rw [ih (Spec.placeCells a vt)
          (by simp only [Spec.placeCells]; apply decide_eq_false; omega)
          (by simp only [Spec.placeCells]; rw [if_pos hroom]; exact hroom)
          (by simp only [Spec.placeCells]; rw [if_pos hroom]; omega)]
        exact placeCells_append vt a _ hroom
      · have hz : Spec.textCells rest = [] := by
          cases hr : Spec.textCells rest with
          | nil => rfl
          | cons _ _ => rw [hr] at hfit; simp only [List.length_cons] at hfit; omega
        rw [foldl_zero_width rest hz, hz, List.append_nil]
    rcases cellsOf_cases cp with ⟨hw, hc⟩ | ⟨hw, hc⟩ | ⟨hw, hc⟩
    · rw [hc, List.nil_append]
      have : vt.putGlyph cp = vt := by simp only [VTState.putGlyph, hw]
      rw [this]
      rw [hc] at hfit
      exact ih vt hpw hcol (by simpa using hfit)
    · rw [hc]
      refine key [cp] (by simp) ?_ hc
      have : vt.putGlyph cp = vt.put1 cp := by simp only [VTState.putGlyph, hw]
      rw [this]
      rw [hc] at hfit
      exact put1_place vt cp hpw (by simp only [List.length_cons, List.length_nil] at hfit; omega)
    · rw [hc]
      refine key [cp, 0] (by simp) ?_ hc
      have : vt.putGlyph cp = vt.put2 cp := by simp only [VTState.putGlyph, hw]
      rw [this]
      rw [hc] at hfit
      exact put2_place vt cp hpw (by simp only [List.length_cons, List.length_nil] at hfit; omega)

/-! ### SGR: the bytes of `chpen` as a fold over the parameter list -/

/-- One driver parameter fed to the SGR interpreter: a parameter marked `CSI_MORE_SUBPARAM` joins the next one
    in the same group when the terminal takes colons, otherwise it is a parameter of its own. -/
def pstep (colon : Bool) (s : SgrAcc × List (Option Nat)) (p : SgrParam) : SgrAcc × List (Option Nat) :=
  if (p.more && colon) = true then (s.1, s.2 ++ [some p.val.toNat])
  else (sgrStep s.1 (s.2 ++ [some p.val.toNat]), [])

/-- The last parameter closes its group whatever its mark says. -/
def pfinish (s : SgrAcc × List (Option Nat)) : SgrAcc := if s.2 = [] then s.1 else sgrStep s.1 s.2

/-- The wire form of a parameter list. -/
def sepOf (colon : Bool) (ps : List SgrParam) : List (List UInt8 × Bool) :=
  ps.map fun p => (showInt p.val, p.more && colon)

theorem renderSgr_eq (colon : Bool) (ps : List SgrParam) : renderSgr colon ps = joinSep (sepOf colon ps) ++ [0x6d] := by
  induction ps with
  | nil => rfl
  | cons p rest ih =>
    cases rest with
    | nil => simp [renderSgr, sepOf, joinSep]
    | cons q rest =>
      simp only [renderSgr, sepOf, List.map_cons, joinSep, List.append_assoc]
      simp only [sepOf, List.map_cons] at ih
      rw [ih]
      simp [Bool.and_eq_true]

theorem groups_fold (colon : Bool) (ps : List SgrParam) (hne : ps ≠ []) (hnn : ∀ p ∈ ps, 0 ≤ p.val)
    (acc : SgrAcc) (sub : List (Option Nat)) :
    (groupsOf sub (sepOf colon ps)).foldl sgrStep acc = pfinish (ps.foldl (pstep colon) (acc, sub)) := by
  induction ps generalizing acc sub with
  | nil => exact absurd rfl hne
  | cons p rest ih =>
    have hv : paramVal (showInt p.val) = some p.val.toNat := by
      rw [showInt_of_nonneg (hnn p (by simp)), paramVal_showNat]
    cases rest with
    | nil =>
      simp only [sepOf, List.map_cons, List.map_nil, groupsOf, List.foldl_cons, List.foldl_nil, hv, pstep, pfinish]
      by_cases hf : (p.more && colon) = true
      · simp [hf]
      · simp [hf]
    | cons q rest =>
      have ih' := ih (by simp) (fun x hx => hnn x (by simp [hx]))
      simp only [sepOf, List.map_cons, groupsOf, hv] at ih' ⊢
      rw [List.foldl_cons (f := pstep colon)]
      by_cases hf : (p.more && colon) = true
      · simp only [hf, if_true, pstep]
        exact ih' acc (sub ++ [some p.val.toNat])
      · simp only [hf, if_false, pstep, List.foldl_cons]
        exact ih' (sgrStep acc (sub ++ [some p.val.toNat])) []

/-- `ESC [ … m` as the driver renders it acts on background and reverse video as the fold says. -/
theorem run_renderSgr (vt : VTState) (hg : vt.ps = .ground) (colon : Bool) (ps : List SgrParam) (hne : ps ≠ [])
    (hnn : ∀ p ∈ ps, 0 ≤ p.val) :
    run (csi (renderSgr colon ps)) vt =
      { vt with bg := (pfinish (ps.foldl (pstep colon) (⟨vt.bg, vt.rv, .none⟩, []))).bg,
                rv := (pfinish (ps.foldl (pstep colon) (⟨vt.bg, vt.rv, .none⟩, []))).rv } := by
  have hm : classify 0x6d = .final := by decide
  rw [renderSgr_eq]
  unfold csi
  rw [run_csi_sep vt hg (sepOf colon ps) (by simpa [sepOf] using hne) (by
        intro x hx b hb
        obtain ⟨q, hq, rfl⟩ := List.mem_map.mp hx
        simp only at hb
        rw [showInt_of_nonneg (hnn q hq)] at hb
        exact showNat_digits _ b hb) 0x6d hm, dispatch_sgr]
  simp only [VTState.sgr, groups_fold colon ps hne hnn]

/-- `ESC [ m`. -/
theorem run_sgr_reset (vt : VTState) (hg : vt.ps = .ground) :
    run (csi [0x6d]) vt = { vt with bg := -1, rv := false } := by
  rw [run_csi_0 vt hg 0x6d (by decide), dispatch_sgr]
  simp [VTState.sgr, sgrStep]

/-! The pieces the pen model assembles its parameter list from. -/

abbrev PS := SgrAcc × List (Option Nat)

theorem fold_ite {α β : Type} (f : β → α → β) (c : Bool) (l : List α) (s : β) :
    (if c = true then l else []).foldl f s = if c = true then l.foldl f s else s := by
  cases c <;> simp

theorem piece_fg (colon : Bool) (bg : Int) (rv : Bool) :
    ([⟨39, false⟩] : List SgrParam).foldl (pstep colon) (⟨bg, rv, .none⟩, []) = (⟨bg, rv, .none⟩, []) := by
  simp [pstep, sgrStep]

theorem piece_bui (colon : Bool) (bg : Int) (rv : Bool) :
    ([⟨22, false⟩, ⟨24, false⟩, ⟨23, false⟩] : List SgrParam).foldl (pstep colon) (⟨bg, rv, .none⟩, []) =
      (⟨bg, rv, .none⟩, []) := by
  simp [pstep, sgrStep]

theorem piece_tail (colon : Bool) (bg : Int) (rv : Bool) :
    ([⟨29, false⟩, ⟨10, false⟩, ⟨25, false⟩, ⟨75, false⟩] : List SgrParam).foldl (pstep colon) (⟨bg, rv, .none⟩, []) =
      (⟨bg, rv, .none⟩, []) := by
  simp [pstep, sgrStep]

theorem piece_rv (colon : Bool) (bg : Int) (rv v : Bool) :
    ([⟨if v = true then 7 else 27, false⟩] : List SgrParam).foldl (pstep colon) (⟨bg, rv, .none⟩, []) =
      (⟨bg, v, .none⟩, []) := by
  cases v <;> simp [pstep, sgrStep]

theorem piece_bg (colon : Bool) (bg : Int) (rv : Bool) (v : Int) (h0 : -1 ≤ v) (h1 : v ≤ 255) :
    (bgParams v).foldl (pstep colon) (⟨bg, rv, .none⟩, []) = (⟨v, rv, .none⟩, []) := by
  unfold bgParams
  by_cases c0 : v < 0
  · have : v = -1 := by omega
    subst this
    simp [pstep, sgrStep]
  · by_cases c1 : v < 8
    · simp only [c0, c1, if_true, if_false, List.foldl_cons, List.foldl_nil, pstep, Bool.false_and, Bool.false_eq_true,
        List.nil_append]
      have e : (40 + v).toNat = 40 + v.toNat := by omega
      have a1 : ¬ (40 + v.toNat = 0) := by omega
      have a2 : ¬ (40 + v.toNat = 7) := by omega
      have a3 : ¬ (40 + v.toNat = 27) := by omega
      have a4 : 40 ≤ 40 + v.toNat ∧ 40 + v.toNat ≤ 47 := by omega
      have e2 : ((40 + v.toNat - 40 : Nat) : Int) = v := by omega
      simp only [sgrStep, Option.getD_some, e, a1, a2, a3, if_false, ne_eq, not_true_eq_false]
      rw [if_pos a4, e2]
    · by_cases c2 : v < 16
      · simp only [c0, c1, c2, if_true, if_false, List.foldl_cons, List.foldl_nil, pstep, Bool.false_and,
          Bool.false_eq_true, List.nil_append]
        have e : (40 + 60 + v - 8).toNat = 92 + v.toNat := by omega
        have a1 : ¬ (92 + v.toNat = 0) := by omega
        have a2 : ¬ (92 + v.toNat = 7) := by omega
        have a3 : ¬ (92 + v.toNat = 27) := by omega
        have a4 : ¬ (40 ≤ 92 + v.toNat ∧ 92 + v.toNat ≤ 47) := by omega
        have a5 : 100 ≤ 92 + v.toNat ∧ 92 + v.toNat ≤ 107 := by omega
        have e2 : ((92 + v.toNat - 100 + 8 : Nat) : Int) = v := by omega
        simp only [sgrStep, Option.getD_some, e, a1, a2, a3, if_false, ne_eq, not_true_eq_false]
        rw [if_neg a4, if_pos a5, e2]
      · simp only [c0, c1, c2, if_false, List.foldl_cons, List.foldl_nil, pstep]
        have hv : ((v.toNat : Nat) : Int) = v := by omega
        cases colon
        · simp [sgrStep, hv]
        · simp [sgrStep, sgrExtBgColon, hv]

theorem bgParams_nonneg (v : Int) (h0 : -1 ≤ v) : ∀ p ∈ bgParams v, 0 ≤ p.val := by
  unfold bgParams
  intro p hp
  (repeat' split at hp) <;> simp at hp <;> (try rcases hp with hp | hp | hp) <;> subst_vars <;> simp <;> omega

theorem setpenParams_nonneg (o cb cr : Bool) (bgv : Int) (rvv : Bool) (h0 : -1 ≤ bgv) :
    ∀ p ∈ setpenParams o cb cr bgv rvv, 0 ≤ p.val := by
  intro p hp
  unfold setpenParams at hp
  simp only [List.mem_append] at hp
  rcases hp with (((hp | hp) | hp) | hp) | hp
  · cases o <;> simp at hp; subst hp; decide
  · cases cb <;> simp at hp; exact bgParams_nonneg bgv h0 p hp
  · cases o <;> simp at hp; rcases hp with hp | hp | hp <;> subst hp <;> decide
  · cases cr <;> simp at hp; subst hp; cases rvv <;> decide
  · cases o <;> simp at hp; rcases hp with hp | hp | hp | hp <;> subst hp <;> decide

/-- What the parameter list of a pen change does to background and reverse video. -/
theorem setpenParams_fold (colon o cb cr : Bool) (bgv : Int) (rvv : Bool) (h0 : -1 ≤ bgv) (h1 : bgv ≤ 255)
    (bg : Int) (rv : Bool) :
    (setpenParams o cb cr bgv rvv).foldl (pstep colon) (⟨bg, rv, .none⟩, []) =
      (⟨if cb = true then bgv else bg, if cr = true then rvv else rv, .none⟩, []) := by
  unfold setpenParams
  simp only [List.foldl_append, fold_ite, piece_fg, piece_bui, piece_tail, ite_self]
  cases cb
  · cases cr
    · simp only [Bool.false_eq_true, if_false, piece_bui, piece_tail, ite_self]
    · simp only [Bool.false_eq_true, if_false, if_true, piece_bui, piece_rv, piece_tail, ite_self]
  · cases cr
    · simp only [Bool.false_eq_true, if_false, if_true, piece_bg colon bg rv bgv h0 h1, piece_bui, piece_tail, ite_self]
    · simp only [if_true, piece_bg colon bg rv bgv h0 h1, piece_bui, piece_rv, piece_tail, ite_self]

theorem setpenParams_eq_nil (o cb cr : Bool) (bgv : Int) (rvv : Bool) :
    setpenParams o cb cr bgv rvv = [] ↔ (o = false ∧ cb = false ∧ cr = false) := by
  unfold setpenParams bgParams
  cases o <;> cases cb <;> cases cr <;> simp <;> (repeat' split) <;> simp

/-- The bytes of a pen change, interpreted. -/
theorem run_chpenBytes (vt : VTState) (hg : vt.ps = .ground) (colon o cb cr : Bool) (bgv : Int) (rvv : Bool)
    (h0 : -1 ≤ bgv) (h1 : bgv ≤ 255) (final : PenCache) :
    run (chpenBytes colon (setpenParams o cb cr bgv rvv) final) vt =
      if o = false ∧ cb = false ∧ cr = false then vt
      else if final.nondefault = false then { vt with bg := -1, rv := false }
      else { vt with bg := if cb = true then bgv else vt.bg, rv := if cr = true then rvv else vt.rv } := by
  unfold chpenBytes
  by_cases hnil : setpenParams o cb cr bgv rvv = []
  · rw [if_pos hnil, if_pos ((setpenParams_eq_nil o cb cr bgv rvv).mp hnil)]; rfl
  · rw [if_neg hnil, if_neg (fun h => hnil ((setpenParams_eq_nil o cb cr bgv rvv).mpr h))]
    cases hnd : final.nondefault
    · simp only [Bool.not_false, if_true]
      exact run_sgr_reset vt hg
    · simp only [Bool.not_true, Bool.false_eq_true, if_false]
      rw [run_renderSgr vt hg colon _ hnil (setpenParams_nonneg o cb cr bgv rvv h0),
        setpenParams_fold colon o cb cr bgv rvv h0 h1]
      rfl

theorem nondefault_false (o : Bool) (b : Option Int) (r : Option Bool) (h : (PenCache.mk o b r).nondefault = false) :
    (∀ v, b = some v → v = -1) ∧ r.getD false = false := by
  simp only [PenCache.nondefault, Bool.or_eq_false_iff] at h
  refine ⟨?_, h.2⟩
  intro v hv
  subst hv
  have := h.1
  simp only [ne_eq, decide_not, Bool.not_eq_false', decide_eq_true_eq] at this
  exact this

end Tickit.XTermDrv
