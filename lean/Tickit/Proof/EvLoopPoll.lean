import Tickit.Proof.EvLoopPend
/-
  The poll-slot table between the wait and the descriptor loop (C18, repaired `evloop_io`).

  `PStep st st'` (under `reventsCleared`): every entry of `st.pfd` is, in `st'.pfd`, unchanged, cancelled
  (`fd == -1`) or re-issued with nothing reported (`revents = 0`); entries beyond are cancelled or report
  nothing.  Everything that runs between the wait and the end of the descriptor loop is a `PStep`
  (family `ps_*`, mirroring `grow_*`/`pres_*`).  Result: `ioLoopT_exact`, `io_exact_end_to_end`.
-/
namespace Tickit.EvLoop

def slotOk (old new : PollSlot) : Prop := new = old ∨ new.fd = -1 ∨ new.revents = some 0

structure PFacts (st st' : St) : Prop where
  cfg : st'.cfg = st.cfg
  len : st.pfd.length ≤ st'.pfd.length
  old : ∀ i, i < st.pfd.length → slotOk (st.pfd.getD i default) (st'.pfd.getD i default)
  new : ∀ i, st.pfd.length ≤ i → i < st'.pfd.length → (st'.pfd.getD i default).fd = -1 ∨ (st'.pfd.getD i default).revents = some 0

def PStep (st st' : St) : Prop := st.cfg.reventsCleared = true → PFacts st st'

theorem PStep.refl (st : St) : PStep st st :=
  fun _ => ⟨rfl, Nat.le_refl _, fun _ _ => Or.inl rfl, fun i h1 h2 => by omega⟩

theorem PStep.trans {a b c : St} (h1 : PStep a b) (h2 : PStep b c) : PStep a c := by
  intro hc
  have f1 := h1 hc
  have f2 := h2 (by rw [f1.cfg]; exact hc)
  refine ⟨f2.cfg.trans f1.cfg, Nat.le_trans f1.len f2.len, ?_, ?_⟩
  · intro i hi
    have hb := f1.old i hi
    have hcc := f2.old i (Nat.lt_of_lt_of_le hi f1.len)
    rcases hcc with h | h | h
    · rw [h]; exact hb
    · exact Or.inr (Or.inl h)
    · exact Or.inr (Or.inr h)
  · intro i hi hic
    by_cases hib : i < b.pfd.length
    · have hb := f1.new i hi hib
      have hcc := f2.old i hib
      rcases hcc with h | h | h
      · rw [h]; exact hb
      · exact Or.inl h
      · exact Or.inr h
    · exact f2.new i (by omega) hic

theorem PStep.of_eq {st st' : St} (hc : st'.cfg = st.cfg) (hp : st'.pfd = st.pfd) : PStep st st' :=
  fun _ => ⟨hc, by rw [hp]; exact Nat.le_refl _, fun i _ => by rw [hp]; exact Or.inl rfl, fun i h1 h2 => by rw [hp] at h2; omega⟩

theorem ps_emit (st : St) (e : Ev) : PStep st (st.emit e) := PStep.of_eq rfl rfl
theorem ps_fail (st : St) (w : Ub) : PStep st (st.fail w) := by unfold St.fail; split <;> exact PStep.of_eq rfl rfl
theorem ps_alloc (st : St) (w : Watch) : PStep st (st.alloc w).1 := PStep.of_eq rfl rfl
theorem ps_setW (st : St) (a : Nat) (w : Watch) : PStep st (st.setW a w) := PStep.of_eq rfl rfl
theorem ps_free (st : St) (a : Nat) : PStep st (st.free a) := by
  unfold St.free; split
  · exact ps_setW _ _ _
  · exact ps_fail _ _
theorem ps_setEvi (st : St) (a idx : Nat) : PStep st (st.setW a { st.getW a with evi := idx }) := ps_setW _ _ _
theorem ps_setWstatus (st : St) (a : Nat) (ws : Int) : PStep st (st.setW a { st.getW a with wstatus := ws }) := ps_setW _ _ _
theorem ps_with_timers (st : St) (l : List Nat) : PStep st { st with timers := l } := PStep.of_eq rfl rfl
theorem ps_setListOf (st : St) (t : WType) (l : List Nat) : PStep st (setListOf st t l) := by
  cases t <;> exact PStep.of_eq rfl rfl

theorem findFreeSlot_lt : ∀ (l : List PollSlot) (i j : Nat), findFreeSlot l i = some j → i ≤ j ∧ j < i + l.length := by
  intro l
  induction l with
  | nil => intro i j hh; simp [findFreeSlot] at hh
  | cons x xs ih =>
    intro i j hh
    simp only [findFreeSlot] at hh
    split at hh
    · cases hh; simp
    · have := ih (i + 1) j hh
      simp only [List.length_cons]; omega

theorem getD_set_slot (l : List PollSlot) (i j : Nat) (v : PollSlot) :
    (l.set i v).getD j default = if i = j ∧ i < l.length then v else l.getD j default := by
  simp only [List.getD_eq_getElem?_getD, List.getElem?_set]
  by_cases h : i = j
  · subst h
    by_cases h2 : i < l.length
    · simp [h2]
    · simp [h2]
  · simp [h]

/-- `evloop_io` (repaired): the entry it hands out reports nothing. -/
theorem ps_evloopIo (st : St) (fd : Int) (cond : Nat) (w : Nat) : PStep st (evloopIo st fd cond w).1 := by
  intro hc
  unfold evloopIo
  split
  · rename_i idx hfree
    have hlt : idx < st.pfd.length := by have := findFreeSlot_lt st.pfd 0 idx hfree; omega
    refine ⟨rfl, by simp, ?_, ?_⟩
    · intro i hi
      show slotOk _ ((st.pfd.set idx _).getD i default)
      rw [getD_set_slot]
      split
      · exact Or.inr (Or.inr (by simp [hc]))
      · exact Or.inl rfl
    · intro i h1 h2
      simp only [List.length_set] at h2
      omega
  · refine ⟨rfl, by simp, ?_, ?_⟩
    · intro i hi
      show slotOk _ ((st.pfd ++ _).getD i default)
      simp only [List.getD_eq_getElem?_getD, List.getElem?_append_left hi]
      exact Or.inl rfl
    · intro i h1 h2
      simp only [List.length_append, List.length_singleton] at h2
      have : i = st.pfd.length := by omega
      subst this
      right
      show ((st.pfd ++ _).getD st.pfd.length default).revents = some 0
      simp only [List.getD_eq_getElem?_getD]
      rw [List.getElem?_append_right (Nat.le_refl _)]
      simp [hc]

/-- `evloop_cancel_io`: the entry becomes `fd == -1`. -/
theorem ps_evloopCancelIo (st : St) (idx : Nat) : PStep st (evloopCancelIo st idx) := by
  intro _
  unfold evloopCancelIo
  refine ⟨rfl, by simp, ?_, ?_⟩
  · intro i hi
    show slotOk _ ((st.pfd.set idx _).getD i default)
    rw [getD_set_slot]
    split
    · exact Or.inr (Or.inl rfl)
    · exact Or.inl rfl
  · intro i h1 h2
    simp only [List.length_set] at h2
    omega

theorem ps_raiseSig (st : St) (s : Int) : PStep st (raiseSig st s) := by
  unfold raiseSig
  split
  · exact PStep.refl st
  · split
    · exact PStep.of_eq rfl rfl
    · split
      · unfold sigRecord; split <;> first | exact PStep.of_eq rfl rfl | exact PStep.refl _
      · split
        · exact PStep.of_eq rfl rfl
        · exact PStep.refl st


theorem ps_evloopSignal (st : St) (s : Int) : PStep st (evloopSignal st s).1 := by
  unfold evloopSignal
  simp only []
  split <;> exact PStep.of_eq rfl rfl


theorem ps_evloopCancelSignal (st : St) (idx : Nat) : PStep st (evloopCancelSignal st idx) := by
  unfold evloopCancelSignal
  simp only []
  split
  · exact PStep.of_eq rfl rfl
  · split
    · split <;> exact PStep.of_eq rfl rfl
    · exact PStep.of_eq rfl rfl


theorem ps_insertWatch (st : St) (l : List Nat) (flags new : Nat) : PStep st (insertWatch st l flags new).1 := by
  unfold insertWatch
  split
  · exact PStep.refl st
  · split
    · exact PStep.refl st
    · exact ps_fail st _


theorem ps_notify (st : St) (a flags : Nat) : PStep st (notify st a flags) := by
  unfold notify
  simp only []
  split
  · exact ps_emit st _
  · exact PStep.refl st


theorem ps_with_laters (st : St) (l : List Nat) : PStep st { st with laters := l } := PStep.of_eq rfl rfl

theorem ps_with_iow (st : St) (l : List Nat) : PStep st { st with iow := l } := PStep.of_eq rfl rfl

theorem ps_with_signals (st : St) (l : List Nat) : PStep st { st with signals := l } := PStep.of_eq rfl rfl

theorem ps_with_procs (st : St) (l : List Nat) : PStep st { st with procs := l } := PStep.of_eq rfl rfl


theorem ps_watchLater (st : St) (flags : Nat) (slot : Int) (puser : Nat) :
    PStep st (watchLater st flags slot puser).1 := by
  unfold watchLater
  exact ((ps_alloc st _).trans (ps_insertWatch _ _ _ _)).trans (ps_with_laters _ _)


theorem ps_watchIo (st : St) (fd : Int) (cond flags : Nat) (slot : Int) : PStep st (watchIo st fd cond flags slot).1 := by
  unfold watchIo
  exact ((((ps_alloc st _).trans (ps_evloopIo _ _ _ _)).trans (ps_setEvi _ _ _)).trans
    (ps_insertWatch _ _ _ _)).trans (ps_with_iow _ _)


theorem ps_watchSignalPre (st : St) (signum : Int) (flags : Nat) (slot : Int) :
    PStep st (watchSignalPre st signum flags slot) := by
  unfold watchSignalPre
  exact ((ps_alloc st _).trans (ps_evloopSignal _ _)).trans (ps_setEvi _ _ _)


theorem ps_watchSignal (st : St) (signum : Int) (flags : Nat) (slot : Int) :
    PStep st (watchSignal st signum flags slot).1 := by
  unfold watchSignal
  exact ((ps_watchSignalPre st _ _ _).trans (ps_insertWatch _ _ _ _)).trans (ps_with_signals _ _)


theorem ps_waitpid (st : St) (pid : Int) : PStep st (waitpid st pid).st := by
  unfold waitpid
  split
  · split
    · exact PStep.of_eq rfl rfl
    · split <;> exact PStep.of_eq rfl rfl
  · exact PStep.refl st


theorem ps_ensureSigchld (st : St) : PStep st (ensureSigchld st) := by
  unfold ensureSigchld
  split
  · exact PStep.refl _
  · exact (ps_watchSignal _ _ _ _).trans (PStep.of_eq rfl rfl)


theorem ps_setNotify (st : St) (a : Nat) (n : Option Nat) : PStep st (setNotify st a n) := by
  unfold setNotify
  exact ps_setW st a { st.getW a with notify := n }

theorem ps_linkNotified (r : St × Nat) (a : Nat) (flags : Nat) : PStep r.1 (linkNotified r a flags) := by
  unfold linkNotified
  exact ((ps_setNotify r.1 a (some r.2)).trans (ps_insertWatch _ _ _ _)).trans (ps_with_procs _ _)

theorem ps_clearNotify (st : St) (a : Nat) : PStep st (clearNotify st a) := by
  unfold clearNotify
  split
  · exact ps_setNotify st a none
  · exact PStep.refl _

theorem ps_linkProcess (st : St) (a : Nat) (pid : Int) (flags : Nat) : PStep st (linkProcess st a pid flags) := by
  unfold linkProcess
  simp only []
  split
  · split
    · exact (((ps_waitpid _ _).trans (ps_setWstatus _ _ _)).trans (ps_watchLater _ _ _ _)).trans (ps_linkNotified _ _ _)
    · exact ((ps_waitpid _ _).trans (ps_setWstatus _ _ _)).trans (ps_watchLater _ _ _ _)
  · exact ((ps_waitpid _ _).trans (ps_insertWatch _ _ _ _)).trans (ps_with_procs _ _)


theorem ps_watchProcess (st : St) (pid : Int) (flags : Nat) (slot : Int) :
    PStep st (watchProcess st pid flags slot).1 := by
  unfold watchProcess
  exact ((ps_alloc st _).trans (ps_ensureSigchld _)).trans (ps_linkProcess _ _ _ _)


theorem ps_watchTimerAt (st : St) (due : TV) (flags : Nat) (slot : Int) : PStep st (watchTimerAt st due flags slot).1 := by
  unfold watchTimerAt
  simp only []
  split
  · exact (ps_alloc st _).trans (ps_with_timers _ _)
  · exact (ps_alloc st _).trans (ps_fail _ _)

theorem ps_watchTimerAfterMsec (st : St) (msec : Int) (flags : Nat) (slot : Int) :
    PStep st (watchTimerAfterMsec st msec flags slot).1 := by
  unfold watchTimerAfterMsec
  exact (ps_emit st _).trans (ps_watchTimerAt _ _ _ _)


theorem ps_cancelHook (st : St) (t : WType) (evi : Nat) : PStep st (cancelHook st t evi) := by
  unfold cancelHook
  split
  · exact ps_evloopCancelIo _ _
  · exact ps_evloopCancelSignal _ _
  · exact PStep.refl _


theorem ps_cancelNotify (st : St) (a : Nat) (w : Watch) : PStep st (cancelNotify st a w) := by
  unfold cancelNotify
  split
  · exact ps_notify _ _ _
  · exact PStep.refl _


theorem ps_cancelRest (st : St) (rest : List Nat) : PStep st (cancelRest st rest) := by
  unfold cancelRest
  split
  · exact PStep.refl _
  · split
    · exact ps_fail _ _
    · exact PStep.refl _


theorem ps_cancelFound (st : St) (a : Nat) (w : Watch) (l : List Nat) : PStep st (cancelFound st a w l) := by
  unfold cancelFound
  exact ((((ps_setListOf st _ _).trans (ps_cancelNotify _ a w)).trans (ps_cancelHook _ w.type w.evi)).trans (ps_free _ a)).trans
    (ps_cancelRest _ _)

theorem ps_cancelDetached (st : St) (a : Nat) : PStep st (cancelDetached st a) := by
  unfold cancelDetached
  exact (ps_cancelNotify st a _).trans (ps_setW _ _ _)

theorem ps_laterPre (st : St) (a : Nat) : PStep st (laterPre st a) := by
  unfold laterPre
  split
  · exact (ps_setW _ _ _)
  · exact PStep.refl _

theorem ps_watchCancel0 (st : St) (a : Nat) : PStep st (watchCancel0 st a) := by
  unfold watchCancel0
  split
  · exact PStep.refl st
  · split
    · exact (ps_fail st _)
    · split
      · exact PStep.refl st
      · split
        · exact (ps_fail st _)
        · split
          · split
            · exact ps_cancelDetached st a
            · exact PStep.refl st
          · exact ps_cancelFound st a _ _


theorem ps_watchCancel (st : St) (a : Nat) : PStep st (watchCancel st a) := by
  unfold watchCancel
  split
  · split
    · exact (ps_watchCancel0 st a).trans (ps_watchCancel0 _ _)
    · exact ps_watchCancel0 st a
  · exact ps_watchCancel0 st a

theorem ps_with_slots (st : St) (l : List SlotRec) : PStep st { st with slots := l } := PStep.of_eq rfl rfl

theorem ps_with_errno (st : St) (e : Int) : PStep st { st with errno := e } := PStep.of_eq rfl rfl

theorem ps_with_children (st : St) (l : List Proc) : PStep st { st with children := l } := PStep.of_eq rfl rfl

theorem ps_with_stillRunning (st : St) (b : Bool) : PStep st { st with stillRunning := b } := PStep.of_eq rfl rfl

theorem ps_with_inRun (st : St) (b : Bool) : PStep st { st with inRun := b } := PStep.of_eq rfl rfl


theorem ps_doRegister (st : St) (k : Int) (reg : St → St × Nat) (h : ∀ s, PStep s (reg s).1) :
    PStep st (doRegister st k reg) := by
  unfold doRegister
  split
  · exact (ps_emit _ _)
  · split
    · exact (ps_emit _ _)
    · exact (h st).trans (ps_with_slots _ _)


theorem ps_with_cancelReq (st : St) (l : List Int) : PStep st { st with cancelReq := l } := PStep.of_eq rfl rfl

theorem ps_doCancel (st : St) (k : Int) : PStep st (doCancel st k) := by
  unfold doCancel
  split
  · exact (ps_emit _ _)
  · exact (ps_with_cancelReq _ _).trans (ps_watchCancel _ _)


theorem ps_runAct (st : St) (act : Act) : PStep st (runAct st act) := by
  unfold runAct
  split
  · exact PStep.refl _
  · split
    · split
      · exact ps_doRegister _ _ _ (fun s => ps_watchTimerAfterMsec s _ _ _)
      · exact PStep.refl _
    · split
      · exact ps_doRegister _ _ _ (fun s => ps_watchTimerAt s _ _ _)
      · exact PStep.refl _
    · exact ps_doRegister _ _ _ (fun s => (ps_watchLater s _ _ _))
    · exact ps_doRegister _ _ _ (fun s => (ps_watchIo s _ _ _ _))
    · split
      · exact ps_doRegister _ _ _ (fun s => (ps_watchSignal s _ _ _))
      · exact PStep.refl _
    · split
      · exact ps_doRegister _ _ _ (fun s => (ps_watchProcess s _ _ _))
      · exact PStep.refl _
    · exact ps_doCancel _ _
    · exact (ps_with_errno _ _)
    · split
      · exact (ps_raiseSig _ _)
      · exact PStep.refl _
    · split
      · split
        · exact PStep.refl _
        · exact (ps_with_children _ _)
      · exact PStep.refl _
    · exact (ps_with_stillRunning _ _)
    · exact PStep.refl _


theorem ps_runActs (acts : List Act) : ∀ st : St,
    PStep st (acts.foldl (fun st act => if st.isOk then runAct (st.emit .a) act else st) st) := by
  induction acts with
  | nil => intro st; exact PStep.refl st
  | cons a rest ih =>
    intro st
    simp only [List.foldl_cons]
    refine PStep.trans ?_ (ih _)
    split
    · exact (ps_emit _ _).trans (ps_runAct _ _)
    · exact PStep.refl _


theorem ps_fireUser (st : St) (k : Int) (flags : Nat) (info : Info) : PStep st (fireUser st k flags info) := by
  unfold fireUser
  simp only []
  split
  · exact (ps_emit _ _)
  · split
    · exact (ps_emit _ _).trans (ps_with_slots _ _)
    · exact ((ps_emit _ _).trans (ps_with_slots _ _)).trans (ps_runActs _ _)


theorem ps_with_status (st : St) (x : Status) : PStep st { st with status := x } := PStep.of_eq rfl rfl


theorem ps_unlinkOneshot (st : St) (a : Nat) : PStep st (unlinkOneshot st a) := by
  unfold unlinkOneshot
  split
  · exact ps_fail _ _
  · split
    · exact PStep.refl _
    · split
      · exact ps_fail _ _
      · split
        · exact PStep.refl _
        · exact ((ps_setListOf st _ _).trans (ps_setW _ _ _)).trans (ps_free _ a)

theorem ps_unlinkOneshotSaved (st : St) (a : Nat) (t : WType) : PStep st (unlinkOneshotSaved st a t) := by
  unfold unlinkOneshotSaved
  split
  · exact PStep.refl _
  · split
    · exact ps_fail _ _
    · split
      · exact PStep.refl _
      · exact ((ps_setListOf st _ _).trans (ps_setW _ _ _)).trans (ps_free _ a)

theorem ps_fireIf (st : St) (c : Prop) [Decidable c] (k : Int) (flags : Nat) (info : Info) :
    PStep st (if c then fireUser st k flags info else st) := by
  split
  · exact ps_fireUser _ _ _ _
  · exact PStep.refl _


theorem ps_invokeWatch (st : St) (a : Nat) (flags : Nat) (info : Info) : PStep st (invokeWatch st a flags info) := by
  unfold invokeWatch
  have hf := ps_fireIf st ((st.getW a).slot ≥ 0) (st.getW a).slot flags info
  generalize (if (st.getW a).slot ≥ 0 then fireUser st (st.getW a).slot flags info else st) = s1 at hf ⊢
  split
  · exact PStep.refl _
  · split
    · exact (ps_fail _ _)
    · split
      · exact hf
      · split
        · exact hf.trans (ps_unlinkOneshotSaved _ a _)
        · exact hf.trans (ps_unlinkOneshot _ a)


theorem ps_waitpidV (st : St) (pid : Int) : PStep st (waitpidV st pid).st := by
  unfold waitpidV
  split
  · exact ps_waitpid _ _
  · exact PStep.refl _


theorem ps_procStep (st : St) (a : Nat) : PStep st (procStep st a) := by
  unfold procStep
  split
  · exact (ps_waitpidV _ _)
  · exact (ps_waitpidV _ _).trans (ps_invokeWatch _ _ _ _)


theorem ps_outOfFuel (st : St) : PStep st (if st.isOk then { st with status := .outOfFuel } else st) := by
  split
  · exact (ps_with_status _ _)
  · exact PStep.refl _


theorem ps_onSigchld (fuel : Nat) : ∀ (st : St) (this : Option Nat), PStep st (onSigchld fuel st this) := by
  induction fuel with
  | zero => intro st this; unfold onSigchld; exact ps_outOfFuel st
  | succ n ih =>
    intro st this
    unfold onSigchld
    split
    · exact PStep.refl _
    · split
      · exact PStep.refl _
      · split
        · exact (ps_fail _ _)
        · exact (ps_procStep _ _).trans (ih _ _)


theorem ps_procSnapLoop (l : List Nat) : ∀ st : St, PStep st (procSnapLoop st l) := by
  induction l with
  | nil => intro st; exact PStep.refl st
  | cons a rest ih =>
    intro st
    unfold procSnapLoop
    split
    · exact PStep.refl _
    · split
      · exact (ps_fail _ _)
      · split
        · exact ih _
        · split
          · exact (ps_fail _ _)
          · exact (ps_procStep _ _).trans (ih _)


theorem ps_onSigchldAny (fuel : Nat) (st : St) : PStep st (onSigchldAny fuel st) := by
  unfold onSigchldAny
  split
  · split
    · exact (ps_fail _ _)
    · exact ps_procSnapLoop _ _
  · exact ps_onSigchld _ _ _


theorem ps_processNotify (st : St) (a : Nat) : PStep st (processNotify st a) := by
  unfold processNotify
  split
  · exact (ps_fail _ _)
  · exact (ps_clearNotify _ _).trans (ps_invokeWatch _ _ _ _)


theorem ps_laterCb (st : St) (a : Nat) : PStep st (laterCb st a) := by
  unfold laterCb
  split
  · exact ps_fireUser _ _ _ _
  · split
    · exact ps_processNotify _ _
    · exact PStep.refl _


theorem ps_laterLoopT (l : List Nat) : ∀ st : St, PStep st (laterLoopT st l).1 := by
  induction l with
  | nil => intro st; exact PStep.refl st
  | cons a rest ih =>
    intro st
    unfold laterLoopT
    split
    · exact PStep.refl _
    · split
      · exact (ps_fail _ _)
      · split
        · exact (ps_free _ a).trans (ih _)
        · split
          · exact ((ps_laterPre st a).trans (ps_laterCb _ a))
          · split
            · exact (((ps_laterPre st a).trans (ps_laterCb _ a))).trans (ps_fail _ _)
            · exact ((((ps_laterPre st a).trans (ps_laterCb _ a))).trans (ps_free _ a)).trans (ih _)


theorem ps_laterLoop (l : List Nat) (st : St) : PStep st (laterLoop st l) := ps_laterLoopT l st


theorem ps_timerLoopT (fuel : Nat) : ∀ (st : St) (now : TV) (this : Option Nat), PStep st (timerLoopT fuel st now this).1 := by
  induction fuel with
  | zero => intro st now this; unfold timerLoopT; exact ps_outOfFuel st
  | succ n ih =>
    intro st now this
    unfold timerLoopT
    split
    · exact PStep.refl _
    · split
      · exact PStep.refl _
      · rename_i a
        split
        · exact (ps_fail _ _)
        · split
          · exact PStep.refl _
          · simp only []
            split
            · exact ps_fireUser _ _ _ _
            · split
              · exact (ps_fireUser _ _ _ _).trans (ps_fail _ _)
              · exact ((ps_fireUser _ _ _ _).trans (ps_free _ a)).trans (ih _ _ _)


theorem ps_timerLoopPopT (fuel : Nat) : ∀ (st : St) (now : TV), PStep st (timerLoopPopT fuel st now).1 := by
  induction fuel with
  | zero => intro st now; unfold timerLoopPopT; exact ps_outOfFuel st
  | succ n ih =>
    intro st now
    unfold timerLoopPopT
    split
    · exact PStep.refl _
    · split
      · exact PStep.refl _
      · rename_i a rest hq
        split
        · exact ps_fail _ _
        · split
          · exact PStep.refl _
          · have h1 := (ps_with_timers st rest).trans (ps_fireUser { st with timers := rest } (st.getW a).slot (EV_FIRE ||| EV_UNBIND) .none)
            simp only []
            split
            · exact h1
            · split
              · exact h1.trans (ps_fail _ _)
              · exact (h1.trans (ps_free _ a)).trans (ih _ _)

theorem ps_timerPhaseShipped (fuel : Nat) (st : St) (now : TV) : PStep st (timerPhaseShipped fuel st now) := by
  unfold timerPhaseShipped timerLoop
  simp only []
  split
  · exact (ps_timerLoopT _ _ _ _).trans (ps_with_timers _ _)
  · exact ps_timerLoopT _ _ _ _

theorem ps_timerPhase (fuel : Nat) (st : St) : PStep st (timerPhase fuel st) := by
  unfold timerPhase
  split
  · exact PStep.refl _
  · split
    · exact (ps_emit _ _).trans (ps_timerLoopPopT _ _ _)
    · exact (ps_emit _ _).trans (ps_timerPhaseShipped _ _ _)


theorem ps_invokeTimers (fuel : Nat) (st : St) : PStep st (invokeTimers fuel st) := by
  unfold invokeTimers
  split
  · exact PStep.refl _
  · exact ((ps_with_laters st []).trans (ps_timerPhase _ _)).trans (ps_laterLoop _ _)


theorem ps_sigCb (fuel : Nat) (st : St) (a : Nat) (s : Int) : PStep st (sigCb fuel st a s) := by
  unfold sigCb
  split
  · split
    · exact ps_fireUser _ _ _ _
    · split
      · exact ps_onSigchldAny _ _
      · split
        · exact (ps_with_stillRunning _ _)
        · exact PStep.refl _
  · exact PStep.refl _


theorem ps_sigwatchLoopT (fuel : Nat) : ∀ (st : St) (s : Int) (this : Option Nat), PStep st (sigwatchLoopT fuel st s this).1 := by
  induction fuel with
  | zero => intro st s this; unfold sigwatchLoopT; exact ps_outOfFuel st
  | succ n ih =>
    intro st s this
    unfold sigwatchLoopT
    split
    · exact PStep.refl _
    · split
      · exact PStep.refl _
      · split
        · exact (ps_fail _ _)
        · split
          · exact ps_sigCb _ _ _ _
          · split
            · exact (ps_sigCb _ _ _ _).trans (ps_fail _ _)
            · exact (ps_sigCb _ _ _ _).trans (ih _ _ _)


theorem ps_sigwatchLoop (fuel : Nat) (st : St) (s : Int) (this : Option Nat) : PStep st (sigwatchLoop fuel st s this) :=
  ps_sigwatchLoopT fuel st s this


theorem ps_sigSnapLoopT (fuel : Nat) (s : Int) (l : List Nat) : ∀ st : St, PStep st (sigSnapLoopT fuel st s l).1 := by
  induction l with
  | nil => intro st; exact PStep.refl st
  | cons a rest ih =>
    intro st
    unfold sigSnapLoopT
    split
    · exact PStep.refl _
    · split
      · exact (ps_fail _ _)
      · split
        · exact ih _
        · split
          · exact (ps_fail _ _)
          · exact (ps_sigCb _ _ _ _).trans (ih _)


theorem ps_sigDispatch (fuel : Nat) (st : St) (s : Int) : PStep st (sigDispatch fuel st s) := by
  unfold sigDispatch
  split
  · split
    · exact (ps_fail _ _)
    · exact ps_sigSnapLoopT _ _ _ _
  · exact ps_sigwatchLoop _ _ _ _


theorem ps_dispatchLoop (fuel : Nat) (pending : List Int) (l : List Int) : ∀ st : St, PStep st (dispatchLoop fuel st pending l) := by
  induction l with
  | nil => intro st; exact PStep.refl st
  | cons s rest ih =>
    intro st
    unfold dispatchLoop
    refine PStep.trans ?_ (ih _)
    split
    · exact ps_sigDispatch _ _ _
    · exact PStep.refl _


theorem ps_with_pendingSig (st : St) (l : List Int) : PStep st { st with pendingSig := l } := PStep.of_eq rfl rfl


theorem ps_dispatchSignals (fuel : Nat) (st : St) : PStep st (dispatchSignals fuel st) := by
  unfold dispatchSignals
  exact (ps_with_pendingSig st []).trans (ps_dispatchLoop _ _ _ _)


theorem ps_ioCb (st : St) (s : PollSlot) : PStep st (ioCb st s) := by
  unfold ioCb
  split
  · split
    · exact (ps_fail _ _)
    · exact ps_invokeWatch _ _ _ _
  · exact PStep.refl _


theorem ps_ioLoopT (fuel : Nat) : ∀ (st : St) (idx : Nat), PStep st (ioLoopT fuel st idx).1 := by
  induction fuel with
  | zero => intro st idx; unfold ioLoopT; exact ps_outOfFuel st
  | succ n ih =>
    intro st idx
    unfold ioLoopT
    split
    · exact PStep.refl _
    · split
      · exact PStep.refl _
      · split
        · exact ih _ _
        · split
          · exact ih _ _
          · exact (ps_ioCb _ _).trans (ih _ _)


/-! ### the descriptor loop invokes exactly what the wait reported -/

/-- Every `tickit_evloop_invoke_iowatch` the descriptor loop makes, relative to a state `s0` from which the
    current state descends by `PStep`s (think: the state right after the wait): it is for an entry of `s0`'s
    table that is still the same entry — same watch, a real descriptor — and carries exactly the translation
    of the `revents` stored in `s0`; entries are taken in index order, each at most once. -/
theorem ioLoopT_exact (fuel : Nat) : ∀ (st : St) (idx : Nat) (s0 : St), s0.cfg.reventsCleared = true → PFacts s0 st →
    (∀ e ∈ (ioLoopT fuel st idx).2, idx ≤ e.1 ∧ e.1 < s0.pfd.length ∧ (s0.pfd.getD e.1 default).fd ≠ -1 ∧
        e.2.1 = (s0.pfd.getD e.1 default).watch ∧ e.2.2 = condOfRevents (slotRevents (s0.pfd.getD e.1 default))) ∧
    (ioLoopT fuel st idx).2.Pairwise (fun x y => x.1 < y.1) := by
  induction fuel with
  | zero => intro st idx s0 _ _; simp [ioLoopT]
  | succ n ih =>
    intro st idx s0 hc f
    unfold ioLoopT
    split
    · simp
    · split
      · simp
      · split
        · obtain ⟨h1, h2⟩ := ih st (idx + 1) s0 hc f
          exact ⟨fun e he => by have := h1 e he; exact ⟨by omega, this.2⟩, h2⟩
        · split
          · obtain ⟨h1, h2⟩ := ih st (idx + 1) s0 hc f
            exact ⟨fun e he => by have := h1 e he; exact ⟨by omega, this.2⟩, h2⟩
          · rename_i hok hlen hfd hrev
            -- the entry is the one `s0` had
            have hsame : idx < s0.pfd.length ∧ st.pfd.getD idx default = s0.pfd.getD idx default := by
              by_cases hi : idx < s0.pfd.length
              · refine ⟨hi, ?_⟩
                rcases f.old idx hi with h | h | h
                · exact h
                · exact absurd h hfd
                · exfalso; apply hrev; unfold slotRevents; rw [h]
              · exfalso
                rcases f.new idx (by omega) (by omega) with h | h
                · exact hfd h
                · apply hrev; unfold slotRevents; rw [h]
            have hc' : st.cfg.reventsCleared = true := by rw [f.cfg]; exact hc
            have f' : PFacts s0 (ioCb st (st.pfd.getD idx default)) :=
              (PStep.trans (fun _ => f) (ps_ioCb st _)) hc
            obtain ⟨h1, h2⟩ := ih (ioCb st (st.pfd.getD idx default)) (idx + 1) s0 hc f'
            refine ⟨?_, ?_⟩
            · intro e he
              simp only [List.mem_cons] at he
              cases he with
              | inl h =>
                subst h
                refine ⟨Nat.le_refl _, hsame.1, ?_, ?_, ?_⟩
                · rw [← hsame.2]; exact hfd
                · show (st.pfd.getD idx default).watch = _; rw [hsame.2]
                · show condOfRevents (slotRevents (st.pfd.getD idx default)) = _; rw [hsame.2]
              | inr h => have := h1 e h; exact ⟨by omega, this.2⟩
            · rw [List.pairwise_cons]
              refine ⟨?_, h2⟩
              intro e he
              have := (h1 e he).1
              show idx < e.1
              omega

theorem pfd_raiseSig (st : St) (s : Int) : (raiseSig st s).pfd = st.pfd ∧ (raiseSig st s).cfg = st.cfg := by
  unfold raiseSig
  split
  · exact ⟨rfl, rfl⟩
  · split
    · exact ⟨rfl, rfl⟩
    · split
      · unfold sigRecord; split <;> exact ⟨rfl, rfl⟩
      · split <;> exact ⟨rfl, rfl⟩

theorem pfd_foldl_raiseSig (l : List Int) : ∀ st : St, (l.foldl raiseSig st).pfd = st.pfd ∧ (l.foldl raiseSig st).cfg = st.cfg := by
  induction l with
  | nil => intro st; exact ⟨rfl, rfl⟩
  | cons s rest ih =>
    intro st
    simp only [List.foldl_cons]
    have h1 := ih (raiseSig st s)
    have h2 := pfd_raiseSig st s
    exact ⟨h1.1.trans h2.1, h1.2.trans h2.2⟩

/-- What the wait leaves in the table is the kernel's report, entry by entry. -/
theorem pfd_ppoll (st : St) (t : Option Int) : (ppoll st t).1.pfd = (pollScan st).pfd ∧ (ppoll st t).1.cfg = st.cfg := by
  have hr : (pollRaise (pollScan st)).pfd = (pollScan st).pfd ∧ (pollRaise (pollScan st)).cfg = st.cfg := by
    unfold pollRaise
    have := pfd_foldl_raiseSig (pollScan st).inpoll { pollScan st with inpoll := [] }
    exact ⟨this.1, this.2⟩
  unfold ppoll
  split
  · exact hr
  · split
    · exact hr
    · split
      · have hd : (deliverPending (pollRaise (pollScan st))).pfd = (pollRaise (pollScan st)).pfd ∧
            (deliverPending (pollRaise (pollScan st))).cfg = (pollRaise (pollScan st)).cfg := by
          unfold deliverPending; split <;> exact ⟨rfl, rfl⟩
        exact ⟨hd.1.trans hr.1, hd.2.trans hr.2⟩
      · unfold pollTimeout
        split <;> exact hr

/-- One iteration under the repaired `evloop_io`, from the wait to the callbacks: every io watch the iteration
    invokes is the watch of an entry the wait scanned, is invoked at most once, and with exactly
    `condOfRevents (pollRevents …)` of *that* entry — whatever timers, deferred callbacks and the io
    callbacks before it registered or cancelled. -/
theorem io_exact_end_to_end (fuel : Nat) (st : St) (t : Option Int) (hc : st.cfg.reventsCleared = true) :
    (∀ e ∈ (ioLoopT fuel (invokeTimers fuel (ppoll st t).1) 0).2,
        e.1 < st.pfd.length ∧ (st.pfd.getD e.1 default).fd ≠ -1 ∧ e.2.1 = (st.pfd.getD e.1 default).watch ∧
        e.2.2 = condOfRevents (pollRevents st (st.pfd.getD e.1 default))) ∧
    (ioLoopT fuel (invokeTimers fuel (ppoll st t).1) 0).2.Pairwise (fun x y => x.1 < y.1) := by
  have hp := pfd_ppoll st t
  have hc1 : (ppoll st t).1.cfg.reventsCleared = true := by rw [hp.2]; exact hc
  have f : PFacts (ppoll st t).1 (invokeTimers fuel (ppoll st t).1) := ps_invokeTimers fuel _ hc1
  obtain ⟨h1, h2⟩ := ioLoopT_exact fuel (invokeTimers fuel (ppoll st t).1) 0 (ppoll st t).1 hc1 f
  refine ⟨?_, h2⟩
  intro e he
  obtain ⟨_, hlt, hfd, hw, hcnd⟩ := h1 e he
  rw [hp.1] at hlt hfd hw hcnd
  have hlen : (pollScan st).pfd.length = st.pfd.length := by unfold pollScan; simp
  rw [hlen] at hlt
  have hentry : (pollScan st).pfd.getD e.1 default =
      { st.pfd.getD e.1 default with revents := some (pollRevents st (st.pfd.getD e.1 default)) } := by
    unfold pollScan
    simp only [List.getD_eq_getElem?_getD, List.getElem?_map]
    have : st.pfd[e.1]? = some st.pfd[e.1] := List.getElem?_eq_getElem hlt
    rw [this]; simp
  rw [hentry] at hfd hw hcnd
  exact ⟨hlt, hfd, hw, by rw [hcnd]; rfl⟩

end Tickit.EvLoop
