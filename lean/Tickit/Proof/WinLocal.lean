import Tickit.Proof.WinDamage
import Tickit.Proof.WinFlush
/-
  Locality of the painter's model: when two trees differ only in the visibility of one window `id`, the owner of a
  terminal cell can differ only for cells inside `id`'s rectangle, reached from the root through visible windows
  (`ownerLoc_local`, top-down).  In a tree whose parent pointers agree with its child lists (`WFp`) such a cell is
  exactly one that `tickit_window_expose` of that rectangle reports as damage (`under_ctx`: the bottom-up `ExposedAt`
  of `Proof/WinDamage.lean`).
-/
namespace Tickit
namespace WinFlush
open WinTree WinRB WinSpec

/-- What the composition and `tickit_window_expose` read of a window. -/
def core (w : Win) : Bool × Bool × Rect × List Id × Option Id × Bool :=
  (w.isVisible, w.freed, w.rect, w.children, w.parent, w.isRoot)

/-- The same without the visibility. -/
def coreNoVis (w : Win) : Bool × Rect × List Id × Option Id × Bool :=
  (w.freed, w.rect, w.children, w.parent, w.isRoot)

/-- `t'` is `t` except possibly for the visibility of window `id` (and attributes nothing here reads). -/
structure SameBut (t t' : Tree) (id : Id) : Prop where
  other : ∀ x, x ≠ id → (t'.wins[x]?).map core = (t.wins[x]?).map core
  self : (t'.wins[id]?).map coreNoVis = (t.wins[id]?).map coreNoVis
  size : t'.wins.size = t.wins.size

/-- Cell `(l, c)` (in the coordinates of `cur`'s parent) lies in `cur` and, going down through visible windows other
    than `id`, in window `id`. -/
def Under (t : Tree) (id : Id) : Nat → Id → Int → Int → Prop
  | 0, _, _, _ => False
  | fuel + 1, cur, l, c =>
    ∃ w : Win, t.wins[cur]? = some w ∧ w.freed = false ∧ w.rect.memb l c = true ∧
      (cur = id ∨ (cur ≠ id ∧ w.isVisible = true ∧
        ∃ ch ∈ w.children, Under t id fuel ch (l - w.rect.top) (c - w.rect.left)))

theorem map_core_some {a b : Option Win} (h : a.map core = b.map core) {w : Win} (hb : b = some w) :
    ∃ w', a = some w' ∧ core w' = core w := by
  subst hb
  cases a with
  | none => simp at h
  | some w' => exact ⟨w', rfl, by simpa using h⟩

theorem map_core_none {a b : Option Win} (h : a.map core = b.map core) (hb : b = none) : a = none := by
  subst hb
  cases a with
  | none => rfl
  | some w' => simp at h

theorem findSome?_congr_mem {α β : Type} (f g : α → Option β) : ∀ (l : List α), (∀ a ∈ l, f a = g a) →
    l.findSome? f = l.findSome? g := by
  intro l
  induction l with
  | nil => intro _; rfl
  | cons a rest ih =>
    intro h
    simp only [List.findSome?_cons]
    rw [h a List.mem_cons_self]
    cases g a with
    | some o => rfl
    | none => exact ih (fun x hx => h x (List.mem_cons_of_mem _ hx))

/-- **Locality** (top-down): the owner of a cell can change only under the window whose visibility changed. -/
theorem ownerLoc_local {t t' : Tree} {id : Id} (h : SameBut t t' id) :
    ∀ (fuel : Nat) (cur : Id) (l c : Int), ownerLoc t' fuel cur l c ≠ ownerLoc t fuel cur l c → Under t' id fuel cur l c := by
  intro fuel
  induction fuel with
  | zero => intro cur l c hne; exact absurd rfl hne
  | succ n ih =>
    intro cur l c hne
    by_cases hid : cur = id
    · subst hid
      -- same freed / rect in both trees
      cases ht' : t'.wins[cur]? with
      | none =>
        have : t.wins[cur]? = none := by
          have := h.self; rw [ht'] at this
          cases hh : t.wins[cur]? with
          | none => rfl
          | some w => rw [hh] at this; simp at this
        simp only [ownerLoc, ht', this] at hne
        exact absurd rfl hne
      | some w' =>
        have := h.self; rw [ht'] at this
        cases ht : t.wins[cur]? with
        | none => rw [ht] at this; simp at this
        | some w =>
          rw [ht] at this
          simp only [Option.map_some, Option.some.injEq, coreNoVis, Prod.mk.injEq] at this
          obtain ⟨hf, hr, _, _, _⟩ := this
          unfold Under
          refine ⟨w', ht', ?_, ?_, Or.inl rfl⟩
          · cases hfr : w'.freed with
            | false => rfl
            | true =>
              simp only [ownerLoc, ht', ht, hfr, ← hf, Bool.or_true, if_true] at hne
              exact absurd rfl hne
          · cases hm : w'.rect.memb l c with
            | true => rfl
            | false =>
              have hm2 : w.rect.memb l c = false := by rw [← hr]; exact hm
              simp only [ownerLoc, ht', ht, hm, hm2] at hne
              simp at hne
    · cases ht : t.wins[cur]? with
      | none =>
        have := map_core_none (h.other cur hid) ht
        simp only [ownerLoc, ht, this] at hne
        exact absurd rfl hne
      | some w =>
        obtain ⟨w', ht', hc⟩ := map_core_some (h.other cur hid) ht
        simp only [core, Prod.mk.injEq] at hc
        obtain ⟨hv, hf, hr, hch, _, _⟩ := hc
        simp only [ownerLoc, ht', ht, hv, hf, hr, hch] at hne
        cases hvis : w.isVisible with
        | false => simp [hvis] at hne
        | true =>
          cases hfr : w.freed with
          | true => simp [hvis, hfr] at hne
          | false =>
            cases hm : w.rect.memb l c with
            | false => simp [hvis, hfr, hm] at hne
            | true =>
              simp only [hvis, hfr, hm] at hne
              simp only [Under]
              refine ⟨w', ht', by rw [hf]; exact hfr, by rw [hr]; exact hm, Or.inr ⟨hid, by rw [hv]; exact hvis, ?_⟩⟩
              rw [hch, hr]
              apply Classical.byContradiction
              intro hno
              have hall : ∀ ch ∈ w.children,
                  ownerLoc t' n ch (l - w.rect.top) (c - w.rect.left) = ownerLoc t n ch (l - w.rect.top) (c - w.rect.left) := by
                intro ch hch'
                apply Classical.byContradiction
                intro hd
                exact hno ⟨ch, hch', ih ch _ _ hd⟩
              have hfs : w.children.findSome? (fun ch => ownerLoc t' n ch (l - w.rect.top) (c - w.rect.left)) =
                  w.children.findSome? (fun ch => ownerLoc t n ch (l - w.rect.top) (c - w.rect.left)) :=
                findSome?_congr_mem _ _ _ hall
              rw [hfs] at hne
              simp at hne

/-- Parent pointers agree with the child lists: a child's parent is the window that lists it, and a child is never a
    root window. -/
structure WFp (t : Tree) : Prop where
  child : ∀ (cur : Id) (w : Win), t.wins[cur]? = some w → ∀ ch ∈ w.children,
    ∃ cw : Win, t.wins[ch]? = some cw ∧ cw.parent = some cur ∧ cw.isRoot = false

theorem exposedAt_mono (t : Tree) : ∀ (k : Nat) (id : Id) (l c L C : Int),
    ExposedAt t k id l c L C → ExposedAt t (k + 1) id l c L C := by
  intro k
  induction k with
  | zero => intro id l c L C h; simp [ExposedAt] at h
  | succ n ih =>
    intro id l c L C h
    simp only [ExposedAt] at h ⊢
    obtain ⟨w, hw, hf, h1, h2, h3, h4, hv, hrest⟩ := h
    refine ⟨w, hw, hf, h1, h2, h3, h4, hv, ?_⟩
    rcases hrest with hr | ⟨hr, p, hp, hx⟩
    · exact Or.inl hr
    · exact Or.inr ⟨hr, p, hp, ih p _ _ L C hx⟩

theorem exposedAt_mono_le (t : Tree) {k k' : Nat} (hk : k ≤ k') {id : Id} {l c L C : Int}
    (h : ExposedAt t k id l c L C) : ExposedAt t k' id l c L C := by
  induction hk with
  | refl => exact h
  | step _ ih => exact exposedAt_mono t _ id l c L C ih

/-- The context of a window on a path from the root: the cell `(l, c)`, in the coordinates of the window's parent
    `po`, is exposed up to the root where it is `(L, C)`; for the root window itself the coordinates are the terminal's. -/
def Ctx (t : Tree) (k : Nat) (po : Option Id) (l c L C : Int) : Prop :=
  match po with
  | none => l = L ∧ c = C
  | some p => ExposedAt t k p l c L C

/-- **From the top-down path to the bottom-up exposed region**: a cell under `id` comes with the context of `id`. -/
theorem under_ctx (t : Tree) (hwf : WFp t) (id : Id) : ∀ (fuel : Nat) (cur : Id) (l c : Int) (k : Nat) (L C : Int) (w : Win),
    t.wins[cur]? = some w → w.isRoot = w.parent.isNone → (w.parent = none → w.rect.top = 0 ∧ w.rect.left = 0) →
    Ctx t k w.parent l c L C → Under t id fuel cur l c →
    ∃ (idw : Win) (l' c' : Int) (k' : Nat), t.wins[id]? = some idw ∧ idw.freed = false ∧ idw.isRoot = idw.parent.isNone ∧
      idw.rect.memb l' c' = true ∧ k' + 1 ≤ k + fuel ∧ Ctx t k' idw.parent l' c' L C ∧
      (idw.parent = none → idw.rect.top = 0 ∧ idw.rect.left = 0 ∧ cur = id) := by
  intro fuel
  induction fuel with
  | zero => intro cur l c k L C w _ _ _ _ hu; simp [Under] at hu
  | succ n ih =>
    intro cur l c k L C w hw hroot hz hctx hu
    simp only [Under] at hu
    obtain ⟨w2, hw2, hf, hm, hcase⟩ := hu
    rw [hw] at hw2
    cases hw2
    rcases hcase with rfl | ⟨_, hv, ch, hch, hunder⟩
    · exact ⟨w, l, c, k, hw, hf, hroot, hm, by omega, hctx, fun hp => ⟨(hz hp).1, (hz hp).2, rfl⟩⟩
    · obtain ⟨cw, hcw, hcp, hcr⟩ := hwf.child cur w hw ch hch
      -- the context of the child: the cell in `cur`'s own coordinates is exposed through `cur`
      have hmm := (memb_true_iff _ _ _).1 hm
      have hctx' : Ctx t (k + 1) cw.parent (l - w.rect.top) (c - w.rect.left) L C := by
        rw [hcp]
        simp only [Ctx, ExposedAt]
        refine ⟨w, hw, hf, ?_, ?_, ?_, ?_, hv, ?_⟩
        · simp only [Rect.Mem] at hmm; omega
        · simp only [Rect.Mem, Rect.bottom] at hmm; omega
        · simp only [Rect.Mem] at hmm; omega
        · simp only [Rect.Mem, Rect.right] at hmm; omega
        · cases hp : w.parent with
          | none =>
            rw [hp] at hroot hctx
            simp only [Ctx] at hctx
            left
            have := hz hp
            refine ⟨by simpa using hroot, ?_, ?_⟩ <;> omega
          | some p =>
            rw [hp] at hroot hctx
            simp only [Ctx] at hctx
            right
            refine ⟨by simpa using hroot, p, rfl, ?_⟩
            have e1 : l - w.rect.top + w.rect.top = l := by omega
            have e2 : c - w.rect.left + w.rect.left = c := by omega
            rw [e1, e2]
            exact hctx
      have hcroot : cw.isRoot = cw.parent.isNone := by rw [hcr, hcp]; rfl
      obtain ⟨idw, l', c', k', h1, h2, h3, h4, h5, h6, h7⟩ := ih ch _ _ (k + 1) L C cw hcw hcroot
        (by intro hx; rw [hcp] at hx; cases hx) hctx' hunder
      refine ⟨idw, l', c', k', h1, h2, h3, h4, by omega, h6, fun hp => ?_⟩
      -- a window without a parent cannot be reached through a child list
      obtain ⟨_, _, hchid⟩ := h7 hp
      subst hchid
      rw [hcw] at h1
      cases h1
      rw [hcp] at hp
      cases hp

end WinFlush
end Tickit
