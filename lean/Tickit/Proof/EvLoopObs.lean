import Tickit.Proof.EvLoopPend
/-
  `signal_observer` (the file-scope pointer of evloop-default.c, `St.observer` relative to the instance the
  state describes) is moved by nothing but `evloop_init` and `evloop_destroy`: every other step of the model
  — registrations, cancels, whole iterations with whatever their callbacks do, `tickit_run` — leaves it alone
  (`ObsEq`), and `tickit_destroy` changes it exactly as `observerAfterDestroy` says.
  The lemma family mirrors `LogExt` of Proof/EvLoopLog.lean (same compositional proofs).
-/
namespace Tickit.EvLoop

def ObsEq (st st' : St) : Prop := st'.observer = st.observer

theorem ObsEq.refl (st : St) : ObsEq st st := rfl
theorem ObsEq.trans {a b c : St} (h1 : ObsEq a b) (h2 : ObsEq b c) : ObsEq a c := by
  unfold ObsEq at *; rw [h2, h1]
theorem ObsEq.of_eq {st st' : St} (h : st'.observer = st.observer) : ObsEq st st' := h

theorem ob_emit (st : St) (e : Ev) : ObsEq st (st.emit e) := rfl
theorem ob_fail (st : St) (w : Ub) : ObsEq st (st.fail w) := by unfold St.fail; split <;> rfl
theorem ob_alloc (st : St) (w : Watch) : ObsEq st (st.alloc w).1 := ObsEq.of_eq rfl
theorem ob_setW (st : St) (a : Nat) (w : Watch) : ObsEq st (st.setW a w) := ObsEq.of_eq rfl
theorem ob_free (st : St) (a : Nat) : ObsEq st (st.free a) := by
  unfold St.free; split
  · exact ob_setW _ _ _
  · exact ob_fail _ _
theorem ob_setEvi (st : St) (a idx : Nat) : ObsEq st (st.setW a { st.getW a with evi := idx }) := ob_setW _ _ _
theorem ob_setWstatus (st : St) (a : Nat) (ws : Int) : ObsEq st (st.setW a { st.getW a with wstatus := ws }) := ob_setW _ _ _
theorem ob_with_timers (st : St) (l : List Nat) : ObsEq st { st with timers := l } := ObsEq.of_eq rfl

theorem ob_setListOf (st : St) (t : WType) (l : List Nat) : ObsEq st (setListOf st t l) := by
  cases t <;> exact ObsEq.of_eq rfl

theorem ob_watchTimerAt (st : St) (due : TV) (flags : Nat) (slot : Int) : ObsEq st (watchTimerAt st due flags slot).1 := by
  unfold watchTimerAt
  simp only []
  split
  · exact (ob_alloc st _).trans (ob_with_timers _ _)
  · exact (ob_alloc st _).trans (ob_fail _ _)

theorem ob_raiseSig (st : St) (s : Int) : ObsEq st (raiseSig st s) := by
  unfold raiseSig
  split
  · exact ObsEq.refl st
  · split
    · exact ObsEq.of_eq rfl
    · split
      · unfold sigRecord; split <;> first | exact ObsEq.of_eq rfl | exact ObsEq.refl _
      · split
        · exact ObsEq.of_eq rfl
        · exact ObsEq.refl st


theorem ob_evloopIo (st : St) (fd : Int) (cond : Nat) (w : Nat) : ObsEq st (evloopIo st fd cond w).1 := by
  unfold evloopIo
  split <;> exact ObsEq.of_eq rfl


theorem ob_evloopCancelIo (st : St) (idx : Nat) : ObsEq st (evloopCancelIo st idx) := ObsEq.of_eq rfl


theorem ob_evloopSignal (st : St) (s : Int) : ObsEq st (evloopSignal st s).1 := by
  unfold evloopSignal
  simp only []
  split <;> exact ObsEq.of_eq rfl


theorem ob_evloopCancelSignal (st : St) (idx : Nat) : ObsEq st (evloopCancelSignal st idx) := by
  unfold evloopCancelSignal
  simp only []
  split
  · exact ObsEq.of_eq rfl
  · split
    · split <;> exact ObsEq.of_eq rfl
    · exact ObsEq.of_eq rfl


theorem ob_insertWatch (st : St) (l : List Nat) (flags new : Nat) : ObsEq st (insertWatch st l flags new).1 := by
  unfold insertWatch
  split
  · exact ObsEq.refl st
  · split
    · exact ObsEq.refl st
    · exact ob_fail st _


theorem ob_notify (st : St) (a flags : Nat) : ObsEq st (notify st a flags) := by
  unfold notify
  simp only []
  split
  · exact ob_emit st _
  · exact ObsEq.refl st


theorem ob_with_laters (st : St) (l : List Nat) : ObsEq st { st with laters := l } := ObsEq.of_eq rfl

theorem ob_with_iow (st : St) (l : List Nat) : ObsEq st { st with iow := l } := ObsEq.of_eq rfl

theorem ob_with_signals (st : St) (l : List Nat) : ObsEq st { st with signals := l } := ObsEq.of_eq rfl

theorem ob_with_procs (st : St) (l : List Nat) : ObsEq st { st with procs := l } := ObsEq.of_eq rfl


theorem ob_watchLater (st : St) (flags : Nat) (slot : Int) (puser : Nat) :
    ObsEq st (watchLater st flags slot puser).1 := by
  unfold watchLater
  exact ((ob_alloc st _).trans (ob_insertWatch _ _ _ _)).trans (ob_with_laters _ _)


theorem ob_watchIo (st : St) (fd : Int) (cond flags : Nat) (slot : Int) : ObsEq st (watchIo st fd cond flags slot).1 := by
  unfold watchIo
  exact ((((ob_alloc st _).trans (ob_evloopIo _ _ _ _)).trans (ob_setEvi _ _ _)).trans
    (ob_insertWatch _ _ _ _)).trans (ob_with_iow _ _)


theorem ob_watchSignalPre (st : St) (signum : Int) (flags : Nat) (slot : Int) :
    ObsEq st (watchSignalPre st signum flags slot) := by
  unfold watchSignalPre
  exact ((ob_alloc st _).trans (ob_evloopSignal _ _)).trans (ob_setEvi _ _ _)


theorem ob_watchSignal (st : St) (signum : Int) (flags : Nat) (slot : Int) :
    ObsEq st (watchSignal st signum flags slot).1 := by
  unfold watchSignal
  exact ((ob_watchSignalPre st _ _ _).trans (ob_insertWatch _ _ _ _)).trans (ob_with_signals _ _)


theorem ob_waitpid (st : St) (pid : Int) : ObsEq st (waitpid st pid).st := by
  unfold waitpid
  split
  · split
    · exact ObsEq.of_eq rfl
    · split <;> exact ObsEq.of_eq rfl
  · exact ObsEq.refl st


theorem ob_ensureSigchld (st : St) : ObsEq st (ensureSigchld st) := by
  unfold ensureSigchld
  split
  · exact ObsEq.refl _
  · exact (ob_watchSignal _ _ _ _).trans (ObsEq.of_eq rfl)


theorem ob_setNotify (st : St) (a : Nat) (n : Option Nat) : ObsEq st (setNotify st a n) := by
  unfold setNotify
  exact ob_setW st a { st.getW a with notify := n }

theorem ob_linkNotified (r : St × Nat) (a : Nat) (flags : Nat) : ObsEq r.1 (linkNotified r a flags) := by
  unfold linkNotified
  exact ((ob_setNotify r.1 a (some r.2)).trans (ob_insertWatch _ _ _ _)).trans (ob_with_procs _ _)

theorem ob_clearNotify (st : St) (a : Nat) : ObsEq st (clearNotify st a) := by
  unfold clearNotify
  split
  · exact ob_setNotify st a none
  · exact ObsEq.refl _

theorem ob_linkProcess (st : St) (a : Nat) (pid : Int) (flags : Nat) : ObsEq st (linkProcess st a pid flags) := by
  unfold linkProcess
  simp only []
  split
  · split
    · exact (((ob_waitpid _ _).trans (ob_setWstatus _ _ _)).trans (ob_watchLater _ _ _ _)).trans (ob_linkNotified _ _ _)
    · exact ((ob_waitpid _ _).trans (ob_setWstatus _ _ _)).trans (ob_watchLater _ _ _ _)
  · exact ((ob_waitpid _ _).trans (ob_insertWatch _ _ _ _)).trans (ob_with_procs _ _)


theorem ob_watchProcess (st : St) (pid : Int) (flags : Nat) (slot : Int) :
    ObsEq st (watchProcess st pid flags slot).1 := by
  unfold watchProcess
  exact ((ob_alloc st _).trans (ob_ensureSigchld _)).trans (ob_linkProcess _ _ _ _)


theorem ob_watchTimerAfterMsec (st : St) (msec : Int) (flags : Nat) (slot : Int) :
    ObsEq st (watchTimerAfterMsec st msec flags slot).1 := by
  unfold watchTimerAfterMsec
  exact (ob_emit st _).trans (ob_watchTimerAt _ _ _ _)


theorem ob_cancelHook (st : St) (t : WType) (evi : Nat) : ObsEq st (cancelHook st t evi) := by
  unfold cancelHook
  split
  · exact ob_evloopCancelIo _ _
  · exact ob_evloopCancelSignal _ _
  · exact ObsEq.refl _


theorem ob_cancelNotify (st : St) (a : Nat) (w : Watch) : ObsEq st (cancelNotify st a w) := by
  unfold cancelNotify
  split
  · exact ob_notify _ _ _
  · exact ObsEq.refl _


theorem ob_cancelRest (st : St) (rest : List Nat) : ObsEq st (cancelRest st rest) := by
  unfold cancelRest
  split
  · exact ObsEq.refl _
  · split
    · exact ob_fail _ _
    · exact ObsEq.refl _


theorem ob_cancelFound (st : St) (a : Nat) (w : Watch) (l : List Nat) : ObsEq st (cancelFound st a w l) := by
  unfold cancelFound
  exact ((((ob_setListOf st _ _).trans (ob_cancelNotify _ a w)).trans (ob_cancelHook _ w.type w.evi)).trans (ob_free _ a)).trans
    (ob_cancelRest _ _)

theorem ob_cancelDetached (st : St) (a : Nat) : ObsEq st (cancelDetached st a) := by
  unfold cancelDetached
  exact (ob_cancelNotify st a _).trans (ob_setW _ _ _)

theorem ob_laterPre (st : St) (a : Nat) : ObsEq st (laterPre st a) := by
  unfold laterPre
  split
  · exact (ob_setW _ _ _)
  · exact ObsEq.refl _

theorem ob_watchCancel0 (st : St) (a : Nat) : ObsEq st (watchCancel0 st a) := by
  unfold watchCancel0
  split
  · exact ObsEq.refl st
  · split
    · exact (ob_fail st _)
    · split
      · exact ObsEq.refl st
      · split
        · exact (ob_fail st _)
        · split
          · split
            · exact ob_cancelDetached st a
            · exact ObsEq.refl st
          · exact ob_cancelFound st a _ _


theorem ob_watchCancel (st : St) (a : Nat) : ObsEq st (watchCancel st a) := by
  unfold watchCancel
  split
  · split
    · exact (ob_watchCancel0 st a).trans (ob_watchCancel0 _ _)
    · exact ob_watchCancel0 st a
  · exact ob_watchCancel0 st a

theorem ob_with_slots (st : St) (l : List SlotRec) : ObsEq st { st with slots := l } := ObsEq.of_eq rfl

theorem ob_with_errno (st : St) (e : Int) : ObsEq st { st with errno := e } := ObsEq.of_eq rfl

theorem ob_with_children (st : St) (l : List Proc) : ObsEq st { st with children := l } := ObsEq.of_eq rfl

theorem ob_with_stillRunning (st : St) (b : Bool) : ObsEq st { st with stillRunning := b } := ObsEq.of_eq rfl

theorem ob_with_inRun (st : St) (b : Bool) : ObsEq st { st with inRun := b } := ObsEq.of_eq rfl


theorem ob_doRegister (st : St) (k : Int) (reg : St → St × Nat) (h : ∀ s, ObsEq s (reg s).1) :
    ObsEq st (doRegister st k reg) := by
  unfold doRegister
  split
  · exact (ob_emit _ _)
  · split
    · exact (ob_emit _ _)
    · exact (h st).trans (ob_with_slots _ _)


theorem ob_with_cancelReq (st : St) (l : List Int) : ObsEq st { st with cancelReq := l } := ObsEq.of_eq rfl

theorem ob_doCancel (st : St) (k : Int) : ObsEq st (doCancel st k) := by
  unfold doCancel
  split
  · exact (ob_emit _ _)
  · exact (ob_with_cancelReq _ _).trans (ob_watchCancel _ _)


theorem ob_runAct (st : St) (act : Act) : ObsEq st (runAct st act) := by
  unfold runAct
  split
  · exact ObsEq.refl _
  · split
    · split
      · exact ob_doRegister _ _ _ (fun s => ob_watchTimerAfterMsec s _ _ _)
      · exact ObsEq.refl _
    · split
      · exact ob_doRegister _ _ _ (fun s => ob_watchTimerAt s _ _ _)
      · exact ObsEq.refl _
    · exact ob_doRegister _ _ _ (fun s => (ob_watchLater s _ _ _))
    · exact ob_doRegister _ _ _ (fun s => (ob_watchIo s _ _ _ _))
    · split
      · exact ob_doRegister _ _ _ (fun s => (ob_watchSignal s _ _ _))
      · exact ObsEq.refl _
    · split
      · exact ob_doRegister _ _ _ (fun s => (ob_watchProcess s _ _ _))
      · exact ObsEq.refl _
    · exact ob_doCancel _ _
    · exact (ob_with_errno _ _)
    · split
      · exact (ob_raiseSig _ _)
      · exact ObsEq.refl _
    · split
      · split
        · exact ObsEq.refl _
        · exact (ob_with_children _ _)
      · exact ObsEq.refl _
    · exact (ob_with_stillRunning _ _)
    · exact ObsEq.refl _


theorem ob_runActs (acts : List Act) : ∀ st : St,
    ObsEq st (acts.foldl (fun st act => if st.isOk then runAct (st.emit .a) act else st) st) := by
  induction acts with
  | nil => intro st; exact ObsEq.refl st
  | cons a rest ih =>
    intro st
    simp only [List.foldl_cons]
    refine ObsEq.trans ?_ (ih _)
    split
    · exact (ob_emit _ _).trans (ob_runAct _ _)
    · exact ObsEq.refl _


theorem ob_fireUser (st : St) (k : Int) (flags : Nat) (info : Info) : ObsEq st (fireUser st k flags info) := by
  unfold fireUser
  simp only []
  split
  · exact (ob_emit _ _)
  · split
    · exact (ob_emit _ _).trans (ob_with_slots _ _)
    · exact ((ob_emit _ _).trans (ob_with_slots _ _)).trans (ob_runActs _ _)


theorem ob_with_status (st : St) (x : Status) : ObsEq st { st with status := x } := ObsEq.of_eq rfl


theorem ob_fireIf (st : St) (c : Prop) [Decidable c] (k : Int) (flags : Nat) (info : Info) :
    ObsEq st (if c then fireUser st k flags info else st) := by
  split
  · exact ob_fireUser _ _ _ _
  · exact ObsEq.refl _


theorem ob_unlinkOneshot (st : St) (a : Nat) : ObsEq st (unlinkOneshot st a) := by
  unfold unlinkOneshot
  split
  · exact ob_fail _ _
  · split
    · exact ObsEq.refl _
    · split
      · exact ob_fail _ _
      · split
        · exact ObsEq.refl _
        · exact ((ob_setListOf st _ _).trans (ob_setW _ _ _)).trans (ob_free _ a)

theorem ob_unlinkOneshotSaved (st : St) (a : Nat) (t : WType) : ObsEq st (unlinkOneshotSaved st a t) := by
  unfold unlinkOneshotSaved
  split
  · exact ObsEq.refl _
  · split
    · exact ob_fail _ _
    · split
      · exact ObsEq.refl _
      · exact ((ob_setListOf st _ _).trans (ob_setW _ _ _)).trans (ob_free _ a)

theorem ob_invokeWatch (st : St) (a : Nat) (flags : Nat) (info : Info) : ObsEq st (invokeWatch st a flags info) := by
  unfold invokeWatch
  have hf := ob_fireIf st ((st.getW a).slot ≥ 0) (st.getW a).slot flags info
  generalize (if (st.getW a).slot ≥ 0 then fireUser st (st.getW a).slot flags info else st) = s1 at hf ⊢
  split
  · exact ObsEq.refl _
  · split
    · exact (ob_fail _ _)
    · split
      · exact hf
      · split
        · exact hf.trans (ob_unlinkOneshotSaved _ a _)
        · exact hf.trans (ob_unlinkOneshot _ a)


theorem ob_waitpidV (st : St) (pid : Int) : ObsEq st (waitpidV st pid).st := by
  unfold waitpidV
  split
  · exact ob_waitpid _ _
  · exact ObsEq.refl _


theorem ob_procStep (st : St) (a : Nat) : ObsEq st (procStep st a) := by
  unfold procStep
  split
  · exact (ob_waitpidV _ _)
  · exact (ob_waitpidV _ _).trans (ob_invokeWatch _ _ _ _)


theorem ob_outOfFuel (st : St) : ObsEq st (if st.isOk then { st with status := .outOfFuel } else st) := by
  split
  · exact (ob_with_status _ _)
  · exact ObsEq.refl _


theorem ob_onSigchld (fuel : Nat) : ∀ (st : St) (this : Option Nat), ObsEq st (onSigchld fuel st this) := by
  induction fuel with
  | zero => intro st this; unfold onSigchld; exact ob_outOfFuel st
  | succ n ih =>
    intro st this
    unfold onSigchld
    split
    · exact ObsEq.refl _
    · split
      · exact ObsEq.refl _
      · split
        · exact (ob_fail _ _)
        · exact (ob_procStep _ _).trans (ih _ _)


theorem ob_procSnapLoop (l : List Nat) : ∀ st : St, ObsEq st (procSnapLoop st l) := by
  induction l with
  | nil => intro st; exact ObsEq.refl st
  | cons a rest ih =>
    intro st
    unfold procSnapLoop
    split
    · exact ObsEq.refl _
    · split
      · exact (ob_fail _ _)
      · split
        · exact ih _
        · split
          · exact (ob_fail _ _)
          · exact (ob_procStep _ _).trans (ih _)


theorem ob_onSigchldAny (fuel : Nat) (st : St) : ObsEq st (onSigchldAny fuel st) := by
  unfold onSigchldAny
  split
  · split
    · exact (ob_fail _ _)
    · exact ob_procSnapLoop _ _
  · exact ob_onSigchld _ _ _


theorem ob_processNotify (st : St) (a : Nat) : ObsEq st (processNotify st a) := by
  unfold processNotify
  split
  · exact (ob_fail _ _)
  · exact (ob_clearNotify _ _).trans (ob_invokeWatch _ _ _ _)


theorem ob_laterCb (st : St) (a : Nat) : ObsEq st (laterCb st a) := by
  unfold laterCb
  split
  · exact ob_fireUser _ _ _ _
  · split
    · exact ob_processNotify _ _
    · exact ObsEq.refl _


theorem ob_laterLoopT (l : List Nat) : ∀ st : St, ObsEq st (laterLoopT st l).1 := by
  induction l with
  | nil => intro st; exact ObsEq.refl st
  | cons a rest ih =>
    intro st
    unfold laterLoopT
    split
    · exact ObsEq.refl _
    · split
      · exact (ob_fail _ _)
      · split
        · exact (ob_free _ a).trans (ih _)
        · split
          · exact ((ob_laterPre st a).trans (ob_laterCb _ a))
          · split
            · exact (((ob_laterPre st a).trans (ob_laterCb _ a))).trans (ob_fail _ _)
            · exact ((((ob_laterPre st a).trans (ob_laterCb _ a))).trans (ob_free _ a)).trans (ih _)


theorem ob_laterLoop (l : List Nat) (st : St) : ObsEq st (laterLoop st l) := ob_laterLoopT l st


theorem ob_timerLoopT (fuel : Nat) : ∀ (st : St) (now : TV) (this : Option Nat), ObsEq st (timerLoopT fuel st now this).1 := by
  induction fuel with
  | zero => intro st now this; unfold timerLoopT; exact ob_outOfFuel st
  | succ n ih =>
    intro st now this
    unfold timerLoopT
    split
    · exact ObsEq.refl _
    · split
      · exact ObsEq.refl _
      · rename_i a
        split
        · exact (ob_fail _ _)
        · split
          · exact ObsEq.refl _
          · simp only []
            split
            · exact ob_fireUser _ _ _ _
            · split
              · exact (ob_fireUser _ _ _ _).trans (ob_fail _ _)
              · exact ((ob_fireUser _ _ _ _).trans (ob_free _ a)).trans (ih _ _ _)


theorem ob_timerLoopPopT (fuel : Nat) : ∀ (st : St) (now : TV), ObsEq st (timerLoopPopT fuel st now).1 := by
  induction fuel with
  | zero => intro st now; unfold timerLoopPopT; exact ob_outOfFuel st
  | succ n ih =>
    intro st now
    unfold timerLoopPopT
    split
    · exact ObsEq.refl _
    · split
      · exact ObsEq.refl _
      · rename_i a rest hq
        split
        · exact ob_fail _ _
        · split
          · exact ObsEq.refl _
          · have h1 := (ob_with_timers st rest).trans (ob_fireUser { st with timers := rest } (st.getW a).slot (EV_FIRE ||| EV_UNBIND) .none)
            simp only []
            split
            · exact h1
            · split
              · exact h1.trans (ob_fail _ _)
              · exact (h1.trans (ob_free _ a)).trans (ih _ _)

theorem ob_timerPhaseShipped (fuel : Nat) (st : St) (now : TV) : ObsEq st (timerPhaseShipped fuel st now) := by
  unfold timerPhaseShipped timerLoop
  simp only []
  split
  · exact (ob_timerLoopT _ _ _ _).trans (ob_with_timers _ _)
  · exact ob_timerLoopT _ _ _ _

theorem ob_timerPhase (fuel : Nat) (st : St) : ObsEq st (timerPhase fuel st) := by
  unfold timerPhase
  split
  · exact ObsEq.refl _
  · split
    · exact (ob_emit _ _).trans (ob_timerLoopPopT _ _ _)
    · exact (ob_emit _ _).trans (ob_timerPhaseShipped _ _ _)


theorem ob_invokeTimers (fuel : Nat) (st : St) : ObsEq st (invokeTimers fuel st) := by
  unfold invokeTimers
  split
  · exact ObsEq.refl _
  · exact ((ob_with_laters st []).trans (ob_timerPhase _ _)).trans (ob_laterLoop _ _)


theorem ob_sigCb (fuel : Nat) (st : St) (a : Nat) (s : Int) : ObsEq st (sigCb fuel st a s) := by
  unfold sigCb
  split
  · split
    · exact ob_fireUser _ _ _ _
    · split
      · exact ob_onSigchldAny _ _
      · split
        · exact (ob_with_stillRunning _ _)
        · exact ObsEq.refl _
  · exact ObsEq.refl _


theorem ob_sigwatchLoopT (fuel : Nat) : ∀ (st : St) (s : Int) (this : Option Nat), ObsEq st (sigwatchLoopT fuel st s this).1 := by
  induction fuel with
  | zero => intro st s this; unfold sigwatchLoopT; exact ob_outOfFuel st
  | succ n ih =>
    intro st s this
    unfold sigwatchLoopT
    split
    · exact ObsEq.refl _
    · split
      · exact ObsEq.refl _
      · split
        · exact (ob_fail _ _)
        · split
          · exact ob_sigCb _ _ _ _
          · split
            · exact (ob_sigCb _ _ _ _).trans (ob_fail _ _)
            · exact (ob_sigCb _ _ _ _).trans (ih _ _ _)


theorem ob_sigwatchLoop (fuel : Nat) (st : St) (s : Int) (this : Option Nat) : ObsEq st (sigwatchLoop fuel st s this) :=
  ob_sigwatchLoopT fuel st s this


theorem ob_sigSnapLoopT (fuel : Nat) (s : Int) (l : List Nat) : ∀ st : St, ObsEq st (sigSnapLoopT fuel st s l).1 := by
  induction l with
  | nil => intro st; exact ObsEq.refl st
  | cons a rest ih =>
    intro st
    unfold sigSnapLoopT
    split
    · exact ObsEq.refl _
    · split
      · exact (ob_fail _ _)
      · split
        · exact ih _
        · split
          · exact (ob_fail _ _)
          · exact (ob_sigCb _ _ _ _).trans (ih _)


theorem ob_sigDispatch (fuel : Nat) (st : St) (s : Int) : ObsEq st (sigDispatch fuel st s) := by
  unfold sigDispatch
  split
  · split
    · exact (ob_fail _ _)
    · exact ob_sigSnapLoopT _ _ _ _
  · exact ob_sigwatchLoop _ _ _ _


theorem ob_dispatchLoop (fuel : Nat) (pending : List Int) (l : List Int) : ∀ st : St, ObsEq st (dispatchLoop fuel st pending l) := by
  induction l with
  | nil => intro st; exact ObsEq.refl st
  | cons s rest ih =>
    intro st
    unfold dispatchLoop
    refine ObsEq.trans ?_ (ih _)
    split
    · exact ob_sigDispatch _ _ _
    · exact ObsEq.refl _


theorem ob_with_pendingSig (st : St) (l : List Int) : ObsEq st { st with pendingSig := l } := ObsEq.of_eq rfl


theorem ob_dispatchSignals (fuel : Nat) (st : St) : ObsEq st (dispatchSignals fuel st) := by
  unfold dispatchSignals
  exact (ob_with_pendingSig st []).trans (ob_dispatchLoop _ _ _ _)


theorem ob_ioCb (st : St) (s : PollSlot) : ObsEq st (ioCb st s) := by
  unfold ioCb
  split
  · split
    · exact (ob_fail _ _)
    · exact ob_invokeWatch _ _ _ _
  · exact ObsEq.refl _


theorem ob_ioLoopT (fuel : Nat) : ∀ (st : St) (idx : Nat), ObsEq st (ioLoopT fuel st idx).1 := by
  induction fuel with
  | zero => intro st idx; unfold ioLoopT; exact ob_outOfFuel st
  | succ n ih =>
    intro st idx
    unfold ioLoopT
    split
    · exact ObsEq.refl _
    · split
      · exact ObsEq.refl _
      · split
        · exact ih _ _
        · split
          · exact ih _ _
          · exact (ob_ioCb _ _).trans (ih _ _)


theorem ob_ioLoop (fuel : Nat) (st : St) (idx : Nat) : ObsEq st (ioLoop fuel st idx) := ob_ioLoopT fuel st idx

theorem ob_foldl_raiseSig (l : List Int) : ∀ st : St, ObsEq st (l.foldl raiseSig st) := by
  induction l with
  | nil => intro st; exact ObsEq.refl st
  | cons s rest ih => intro st; exact (ob_raiseSig st s).trans (ih _)


theorem ob_pollScan (st : St) : ObsEq st (pollScan st) := ObsEq.of_eq rfl

theorem ob_with_inpoll (st : St) (l : List Int) : ObsEq st { st with inpoll := l } := ObsEq.of_eq rfl


theorem ob_pollRaise (st : St) : ObsEq st (pollRaise st) := by
  unfold pollRaise
  exact (ob_with_inpoll st []).trans (ob_foldl_raiseSig _ _)


theorem ob_pollTimeout (st : St) (t : Option Int) : ObsEq st (pollTimeout st t) := by
  unfold pollTimeout
  split
  · exact ObsEq.of_eq rfl
  · exact ObsEq.refl _


theorem ob_deliverPending (st : St) : ObsEq st (deliverPending st) := by
  unfold deliverPending
  split <;> exact ObsEq.of_eq rfl


theorem ob_ppoll (st : St) (t : Option Int) : ObsEq st (ppoll st t).1 := by
  unfold ppoll
  split
  · exact (ob_pollScan st).trans (ob_pollRaise _)
  · split
    · exact ((ob_pollScan st).trans (ob_pollRaise _)).trans (ob_emit _ _)
    · split
      · exact ((((ob_pollScan st).trans (ob_pollRaise _)).trans (ob_deliverPending _)).trans (ob_with_errno _ _)).trans (ob_emit _ _)
      · exact (((ob_pollScan st).trans (ob_pollRaise _)).trans (ob_pollTimeout _ _)).trans (ob_emit _ _)


theorem ob_nextTimerMsec (st : St) : ObsEq st (nextTimerMsec st).1 := by
  unfold nextTimerMsec
  split
  · exact ObsEq.refl _
  · split
    · exact ObsEq.refl _
    · split
      · exact (ob_emit _ _).trans (ob_fail _ _)
      · exact ob_emit _ _


theorem ob_tickAfterPoll (fuel : Nat) (st : St) (ret : Option Nat) : ObsEq st (tickAfterPoll fuel st ret) := by
  unfold tickAfterPoll
  split
  · exact ob_invokeTimers _ _
  · split
    · split
      · exact (ob_invokeTimers _ _).trans (ob_ioLoop _ _ _)
      · exact ob_invokeTimers _ _
    · split
      · exact (ob_invokeTimers _ _).trans (ob_dispatchSignals _ _)
      · exact ob_invokeTimers _ _


theorem ob_tick (fuel : Nat) (st : St) (nohang : Bool) : ObsEq st (tick fuel st nohang) := by
  unfold tick
  split
  · exact ObsEq.refl _
  · split
    · exact (ob_nextTimerMsec _)
    · split
      · exact ((ob_nextTimerMsec _).trans (ob_ppoll _ _))
      · exact ((ob_nextTimerMsec _).trans (ob_ppoll _ _)).trans (ob_tickAfterPoll _ _ _)


theorem ob_ppollRun (st : St) (t : Option Int) : ObsEq st (ppollRun st t).1 := by
  unfold ppollRun
  split
  · exact ob_ppoll _ _
  · split
    · exact ((ob_ppoll st t).trans (ObsEq.of_eq rfl : ObsEq (ppoll st t).1
        { (ppoll st t).1 with runPolls := (ppoll st t).1.runPolls + 1, stillRunning := false })).trans (ob_emit _ _)
    · exact (ob_ppoll st t).trans (ObsEq.of_eq rfl : ObsEq (ppoll st t).1
        { (ppoll st t).1 with runPolls := (ppoll st t).1.runPolls + 1 })


theorem ob_runIter (fuel : Nat) (st : St) : ObsEq st (runIter fuel st) := by
  unfold runIter
  split
  · exact ObsEq.refl _
  · split
    · exact (ob_nextTimerMsec _)
    · split
      · exact ((ob_nextTimerMsec _).trans (ob_ppollRun _ _))
      · exact ((ob_nextTimerMsec _).trans (ob_ppollRun _ _)).trans (ob_tickAfterPoll _ _ _)


theorem ob_runLoop (fuel : Nat) (n : Nat) : ∀ st : St, ObsEq st (runLoop fuel n st) := by
  induction n with
  | zero => intro st; unfold runLoop; exact ob_outOfFuel st
  | succ k ih =>
    intro st
    unfold runLoop
    split
    · exact ObsEq.refl _
    · split
      · exact ObsEq.refl _
      · exact (ob_runIter _ _).trans (ih _)


theorem ob_run_flags (st : St) : ObsEq st { st with stillRunning := true, inRun := true, runPolls := 0 } := ObsEq.of_eq rfl
theorem ob_run_start (st : St) : ObsEq st { (watchSignal st 2 0 (-5)).1 with stillRunning := true, inRun := true, runPolls := 0 } :=
  (ob_watchSignal st 2 0 (-5)).trans (ob_run_flags _)

theorem ob_run (fuel : Nat) (st : St) : ObsEq st (run fuel st) := by
  unfold run
  split
  · exact ObsEq.refl _
  · split
    · exact (ob_run_start st).trans (ob_runLoop _ _ _)
    · exact (((ob_run_start st).trans (ob_runLoop _ _ _)).trans (ob_with_inRun _ _)).trans
        (ob_watchCancel _ _)


theorem ob_destroyNotify (st : St) (a : Nat) : ObsEq st (destroyNotify st a) := by
  unfold destroyNotify
  split
  · exact ob_notify _ _ _
  · exact ObsEq.refl _


theorem ob_destroyList (t : WType) (l : List Nat) : ∀ st : St, ObsEq st (destroyList st t l) := by
  induction l with
  | nil => intro st; exact ObsEq.refl st
  | cons a rest ih =>
    intro st
    unfold destroyList
    split
    · exact ObsEq.refl _
    · split
      · exact ob_fail _ _
      · exact (((ob_destroyNotify _ _).trans (ob_cancelHook _ _ _)).trans (ob_free _ a)).trans (ih _)




/-! ### destruction, and whole operations -/

theorem ob_destroyOf (t : WType) (st : St) : ObsEq st (destroyOf t st) := ob_destroyList _ _ _

theorem ob_cancelSigchld (st : St) : ObsEq st (cancelSigchld st) := by
  unfold cancelSigchld
  split
  · exact ob_watchCancel _ _
  · exact ObsEq.refl _

/-- Everything `tickit_destroy` does before `evloop_destroy`. -/
theorem ob_destroyBody (st : St) :
    ObsEq st (destroyOf .process (destroyOf .signal (destroyOf .later (destroyOf .timer (destroyOf .io (cancelSigchld st)))))) :=
  (((((ob_cancelSigchld st).trans (ob_destroyOf _ _)).trans (ob_destroyOf _ _)).trans (ob_destroyOf _ _)).trans
    (ob_destroyOf _ _)).trans (ob_destroyOf _ _)

/-- `tickit_destroy` that completes: `signal_observer` is cleared exactly when it pointed at this loop. -/
theorem observer_destroy (st : St) (hok : (destroy st).isOk = true) :
    (destroy st).observer = observerAfterDestroy st.observer := by
  unfold destroy at hok ⊢
  split
  · rename_i h; rw [if_pos h] at hok; rw [hok] at h; cases h
  · rename_i h
    rw [if_neg h] at hok
    unfold destroyFinish at hok ⊢
    split
    · show observerAfterDestroy _ = _
      rw [ob_destroyBody st]
    · rename_i h2; rw [if_neg h2] at hok; exact absurd hok h2

/-- `tickit_destroy` in any case: the pointer keeps its value or goes from this loop to NULL. -/
theorem observer_destroy_cases (st : St) :
    (destroy st).observer = st.observer ∨ ((destroy st).observer = .none ∧ st.observer = .self) := by
  unfold destroy
  split
  · exact Or.inl rfl
  · unfold destroyFinish
    split
    · have h := ob_destroyBody st
      unfold ObsEq at h
      show observerAfterDestroy _ = _ ∨ (observerAfterDestroy _ = _ ∧ _)
      rw [h]
      cases st.observer
      · exact Or.inr ⟨rfl, rfl⟩
      · exact Or.inl rfl
      · exact Or.inl rfl
    · exact Or.inl (ob_destroyBody st)

/-- Every operation of the harness other than `destroy` leaves `signal_observer` alone. -/
theorem ob_applyOp (st : St) (op : Op) (h : op ≠ .destroy) : ObsEq st (applyOp st op) := by
  unfold applyOp
  have h0 : ObsEq st { st with log := [] } := ObsEq.of_eq rfl
  refine h0.trans ?_
  generalize ({ st with log := [] } : St) = s
  unfold applyOp'
  split
  · exact ObsEq.refl _
  · cases op with
    | new p => exact ObsEq.refl _
    | finish => exact ObsEq.refl _
    | bad => exact ObsEq.refl _
    | destroy => exact absurd rfl h
    | beh b => simp only []; split <;> first | exact ObsEq.refl _ | exact ObsEq.of_eq rfl
    | act a => simp only []; split <;> first | exact ObsEq.refl _ | exact ob_runAct _ _
    | clock us => simp only []; split <;> first | exact ObsEq.refl _ | exact ObsEq.of_eq rfl
    | ready fd bits => simp only []; split <;> first | exact ObsEq.refl _ | exact ObsEq.of_eq rfl
    | inpoll sg => simp only []; split <;> first | exact ObsEq.refl _ | exact ObsEq.of_eq rfl
    | tick => simp only []; split <;> first | exact ObsEq.refl _ | exact (ob_with_stillRunning _ _).trans (ob_tick _ _ _)
    | tickhang => simp only []; split <;> first | exact ObsEq.refl _ | exact (ob_with_stillRunning _ _).trans (ob_tick _ _ _)
    | run => simp only []; split <;> first | exact ObsEq.refl _ | exact ob_run _ _

/-- Every operation: the pointer keeps its value, or `destroy` took it from this loop to NULL. -/
theorem observer_applyOp_cases (st : St) (op : Op) :
    (applyOp st op).observer = st.observer ∨ ((applyOp st op).observer = .none ∧ st.observer = .self) := by
  by_cases h : op = .destroy
  · subst h
    unfold applyOp applyOp'
    split
    · exact Or.inl rfl
    · simp only []
      split
      · exact Or.inl rfl
      · exact observer_destroy_cases _
  · exact Or.inl (ob_applyOp st op h)

end Tickit.EvLoop
