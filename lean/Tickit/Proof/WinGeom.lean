import Tickit.Proof.WinSteps
/-
  `tickit_window_set_geometry` followed by the exposes the property's proviso demands (old and new area, in the
  parent): the generalisation of the locality lemma to a window whose rectangle (and visibility) changes, and the
  invariant step.
-/
namespace Tickit
namespace WinFlush
open WinTree WinRB WinSpec

/-- What stays of the changed window itself. -/
def coreSelf (w : Win) : Bool × List Id × Option Id × Bool := (w.freed, w.children, w.parent, w.isRoot)

/-- `t'` is `t` except possibly for the rectangle and visibility of window `id`. -/
structure SameButG (t t' : Tree) (id : Id) : Prop where
  other : ∀ x, x ≠ id → (t'.wins[x]?).map core = (t.wins[x]?).map core
  self : (t'.wins[id]?).map coreSelf = (t.wins[id]?).map coreSelf
  size : t'.wins.size = t.wins.size

/-- Going down from `cur` through visible windows other than `id`, the cell reaches `id`, in whose parent's coordinates
    it satisfies `P`. -/
def UnderP (t : Tree) (id : Id) (P : Int → Int → Prop) : Nat → Id → Int → Int → Prop
  | 0, _, _, _ => False
  | fuel + 1, cur, l, c =>
    (cur = id ∧ ∃ w : Win, t.wins[cur]? = some w ∧ w.freed = false ∧ P l c) ∨
    (cur ≠ id ∧ ∃ w : Win, t.wins[cur]? = some w ∧ w.freed = false ∧ w.rect.memb l c = true ∧ w.isVisible = true ∧
      ∃ ch ∈ w.children, UnderP t id P fuel ch (l - w.rect.top) (c - w.rect.left))

theorem ownerLoc_localG {t t' : Tree} {id : Id} (h : SameButG t t' id) (r r' : Rect)
    (hr : ∀ w, t.wins[id]? = some w → w.rect = r) (hr' : ∀ w, t'.wins[id]? = some w → w.rect = r') :
    ∀ (fuel : Nat) (cur : Id) (l c : Int), ownerLoc t' fuel cur l c ≠ ownerLoc t fuel cur l c →
      UnderP t' id (fun l c => r.memb l c = true ∨ r'.memb l c = true) fuel cur l c := by
  intro fuel
  induction fuel with
  | zero => intro cur l c hne; exact absurd rfl hne
  | succ n ih =>
    intro cur l c hne
    by_cases hid : cur = id
    · subst hid
      cases ht' : t'.wins[cur]? with
      | none =>
        have : t.wins[cur]? = none := by
          have := h.self; rw [ht'] at this
          cases hh : t.wins[cur]? with
          | none => rfl
          | some w => rw [hh] at this; simp at this
        simp only [ownerLoc, ht', this] at hne
        exact absurd rfl hne
      | some w' =>
        have := h.self; rw [ht'] at this
        cases ht : t.wins[cur]? with
        | none => rw [ht] at this; simp at this
        | some w =>
          rw [ht] at this
          simp only [Option.map_some, Option.some.injEq, coreSelf, Prod.mk.injEq] at this
          obtain ⟨hf, _, _, _⟩ := this
          unfold UnderP
          left
          refine ⟨rfl, w', ht', ?_, ?_⟩
          · cases hfr : w'.freed with
            | false => rfl
            | true =>
              simp only [ownerLoc, ht', ht, hfr, ← hf, Bool.or_true, if_true] at hne
              exact absurd rfl hne
          · apply Classical.byContradiction
            intro hno
            have h1 : w.rect.memb l c = false := by
              rw [hr w ht]
              cases hh : r.memb l c with
              | false => rfl
              | true => exact absurd (Or.inl hh) hno
            have h2 : w'.rect.memb l c = false := by
              rw [hr' w' ht']
              cases hh : r'.memb l c with
              | false => rfl
              | true => exact absurd (Or.inr hh) hno
            simp only [ownerLoc, ht', ht, h1, h2] at hne
            simp at hne
    · cases ht : t.wins[cur]? with
      | none =>
        have := map_core_none (h.other cur hid) ht
        simp only [ownerLoc, ht, this] at hne
        exact absurd rfl hne
      | some w =>
        obtain ⟨w', ht', hc⟩ := map_core_some (h.other cur hid) ht
        simp only [core, Prod.mk.injEq] at hc
        obtain ⟨hv, hf, hrr, hch, _, _⟩ := hc
        simp only [ownerLoc, ht', ht, hv, hf, hrr, hch] at hne
        cases hvis : w.isVisible with
        | false => simp [hvis] at hne
        | true =>
          cases hfr : w.freed with
          | true => simp [hvis, hfr] at hne
          | false =>
            cases hm : w.rect.memb l c with
            | false => simp [hvis, hfr, hm] at hne
            | true =>
              simp only [hvis, hfr, hm] at hne
              unfold UnderP
              right
              refine ⟨hid, w', ht', by rw [hf]; exact hfr, by rw [hrr]; exact hm, by rw [hv]; exact hvis, ?_⟩
              rw [hch, hrr]
              apply Classical.byContradiction
              intro hno
              have hall : ∀ ch ∈ w.children,
                  ownerLoc t' n ch (l - w.rect.top) (c - w.rect.left) = ownerLoc t n ch (l - w.rect.top) (c - w.rect.left) := by
                intro ch hch'
                apply Classical.byContradiction
                intro hd
                exact hno ⟨ch, hch', ih ch _ _ hd⟩
              rw [findSome?_congr_mem _ _ _ hall] at hne
              simp at hne

theorem under_ctxP (t : Tree) (hwf : WFp t) (id : Id) (P : Int → Int → Prop) :
    ∀ (fuel : Nat) (cur : Id) (l c : Int) (k : Nat) (L C : Int) (w : Win),
    t.wins[cur]? = some w → w.isRoot = w.parent.isNone → (w.parent = none → w.rect.top = 0 ∧ w.rect.left = 0) →
    Ctx t k w.parent l c L C → UnderP t id P fuel cur l c →
    ∃ (idw : Win) (l' c' : Int) (k' : Nat), t.wins[id]? = some idw ∧ idw.freed = false ∧ idw.isRoot = idw.parent.isNone ∧
      P l' c' ∧ k' + 1 ≤ k + fuel ∧ Ctx t k' idw.parent l' c' L C ∧ (idw.parent = none → cur = id) := by
  intro fuel
  induction fuel with
  | zero => intro cur l c k L C w _ _ _ _ hu; simp [UnderP] at hu
  | succ n ih =>
    intro cur l c k L C w hw hroot hz hctx hu
    unfold UnderP at hu
    rcases hu with ⟨rfl, w2, hw2, hf, hP⟩ | ⟨_, w2, hw2, hf, hm, hv, ch, hch, hunder⟩
    · rw [hw] at hw2; cases hw2
      exact ⟨w, l, c, k, hw, hf, hroot, hP, by omega, hctx, fun _ => rfl⟩
    · rw [hw] at hw2; cases hw2
      obtain ⟨cw, hcw, hcp, hcr⟩ := hwf.child cur w hw ch hch
      have hmm := (memb_true_iff _ _ _).1 hm
      have hctx' : Ctx t (k + 1) cw.parent (l - w.rect.top) (c - w.rect.left) L C := by
        rw [hcp]
        simp only [Ctx, ExposedAt]
        refine ⟨w, hw, hf, ?_, ?_, ?_, ?_, hv, ?_⟩
        · simp only [Rect.Mem] at hmm; omega
        · simp only [Rect.Mem, Rect.bottom] at hmm; omega
        · simp only [Rect.Mem] at hmm; omega
        · simp only [Rect.Mem, Rect.right] at hmm; omega
        · cases hp : w.parent with
          | none =>
            rw [hp] at hroot hctx
            simp only [Ctx] at hctx
            left
            have := hz hp
            refine ⟨by simpa using hroot, ?_, ?_⟩ <;> omega
          | some p =>
            rw [hp] at hroot hctx
            simp only [Ctx] at hctx
            right
            refine ⟨by simpa using hroot, p, rfl, ?_⟩
            have e1 : l - w.rect.top + w.rect.top = l := by omega
            have e2 : c - w.rect.left + w.rect.left = c := by omega
            rw [e1, e2]
            exact hctx
      have hcroot : cw.isRoot = cw.parent.isNone := by rw [hcr, hcp]; rfl
      obtain ⟨idw, l', c', k', h1, h2, h3, h4, h5, h6, h7⟩ := ih ch _ _ (k + 1) L C cw hcw hcroot
        (by intro hx; rw [hcp] at hx; cases hx) hctx' hunder
      refine ⟨idw, l', c', k', h1, h2, h3, h4, by omega, h6, fun hp => ?_⟩
      have hchid := h7 hp
      subst hchid
      rw [hcw] at h1
      cases h1
      rw [hcp] at hp
      cases hp

theorem exposedAt_congr {t t' : Tree} (h : t'.wins = t.wins) : ∀ (k : Nat) (id : Id) (l c L C : Int),
    ExposedAt t k id l c L C → ExposedAt t' k id l c L C := by
  intro k
  induction k with
  | zero => intro id l c L C hx; simp [ExposedAt] at hx
  | succ n ih =>
    intro id l c L C hx
    simp only [ExposedAt] at hx ⊢
    obtain ⟨w, hw, hf, h1, h2, h3, h4, hv, hrest⟩ := hx
    refine ⟨w, by rw [h]; exact hw, hf, h1, h2, h3, h4, hv, ?_⟩
    rcases hrest with hr | ⟨hr, p, hp, hy⟩
    · exact Or.inl hr
    · exact Or.inr ⟨hr, p, hp, ih p _ _ L C hy⟩

end WinFlush
end Tickit
