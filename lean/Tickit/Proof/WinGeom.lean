import Tickit.Proof.WinSteps
/-
  `tickit_window_set_geometry` followed by the exposes the property's proviso demands (old and new area, in the
  parent): the generalisation of the locality lemma to a window whose rectangle (and visibility) changes, and the
  invariant step.
-/
namespace Tickit
namespace WinFlush
open WinTree WinRB WinSpec

/-- What stays of the changed window itself. -/
def coreSelf (w : Win) : Bool × List Id × Option Id × Bool := (w.freed, w.children, w.parent, w.isRoot)

/-- `t'` is `t` except possibly for the rectangle and visibility of window `id`. -/
structure SameButG (t t' : Tree) (id : Id) : Prop where
  other : ∀ x, x ≠ id → (t'.wins[x]?).map core = (t.wins[x]?).map core
  self : (t'.wins[id]?).map coreSelf = (t.wins[id]?).map coreSelf
  size : t'.wins.size = t.wins.size

/-- Going down from `cur` through visible windows other than `id`, the cell reaches `id`, in whose parent's coordinates
    it satisfies `P`. -/
def UnderP (t : Tree) (id : Id) (P : Int → Int → Prop) : Nat → Id → Int → Int → Prop
  | 0, _, _, _ => False
  | fuel + 1, cur, l, c =>
    (cur = id ∧ ∃ w : Win, t.wins[cur]? = some w ∧ w.freed = false ∧ P l c) ∨
    (cur ≠ id ∧ ∃ w : Win, t.wins[cur]? = some w ∧ w.freed = false ∧ w.rect.memb l c = true ∧ w.isVisible = true ∧
      ∃ ch ∈ w.children, UnderP t id P fuel ch (l - w.rect.top) (c - w.rect.left))

theorem ownerLoc_localG {t t' : Tree} {id : Id} (h : SameButG t t' id) (r r' : Rect)
    (hr : ∀ w, t.wins[id]? = some w → w.rect = r) (hr' : ∀ w, t'.wins[id]? = some w → w.rect = r') :
    ∀ (fuel : Nat) (cur : Id) (l c : Int), ownerLoc t' fuel cur l c ≠ ownerLoc t fuel cur l c →
      UnderP t' id (fun l c => r.memb l c = true ∨ r'.memb l c = true) fuel cur l c := by
  intro fuel
  induction fuel with
  | zero => intro cur l c hne; exact absurd rfl hne
  | succ n ih =>
    intro cur l c hne
    by_cases hid : cur = id
    · subst hid
      cases ht' : t'.wins[cur]? with
      | none =>
        have : t.wins[cur]? = none := by
          have := h.self; rw [ht'] at this
          cases hh : t.wins[cur]? with
          | none => rfl
          | some w => rw [hh] at this; simp at this
        simp only [ownerLoc, ht', this] at hne
        exact absurd rfl hne
      | some w' =>
        have := h.self; rw [ht'] at this
        cases ht : t.wins[cur]? with
        | none => rw [ht] at this; simp at this
        | some w =>
          rw [ht] at this
          simp only [Option.map_some, Option.some.injEq, coreSelf, Prod.mk.injEq] at this
          obtain ⟨hf, _, _, _⟩ := this
          unfold UnderP
          left
          refine ⟨rfl, w', ht', ?_, ?_⟩
          · cases hfr : w'.freed with
            | false => rfl
            | true =>
              simp only [ownerLoc, ht', ht, hfr, ← hf, Bool.or_true, if_true] at hne
              exact absurd rfl hne
          · apply Classical.byContradiction
            intro hno
            have h1 : w.rect.memb l c = false := by
              rw [hr w ht]
              cases hh : r.memb l c with
              | false => rfl
              | true => exact absurd (Or.inl hh) hno
            have h2 : w'.rect.memb l c = false := by
              rw [hr' w' ht']
              cases hh : r'.memb l c with
              | false => rfl
              | true => exact absurd (Or.inr hh) hno
            simp only [ownerLoc, ht', ht, h1, h2] at hne
            simp at hne
    · cases ht : t.wins[cur]? with
      | none =>
        have := map_core_none (h.other cur hid) ht
        simp only [ownerLoc, ht, this] at hne
        exact absurd rfl hne
      | some w =>
        obtain ⟨w', ht', hc⟩ := map_core_some (h.other cur hid) ht
        simp only [core, Prod.mk.injEq] at hc
        obtain ⟨hv, hf, hrr, hch, _, _⟩ := hc
        simp only [ownerLoc, ht', ht, hv, hf, hrr, hch] at hne
        cases hvis : w.isVisible with
        | false => simp [hvis] at hne
        | true =>
          cases hfr : w.freed with
          | true => simp [hvis, hfr] at hne
          | false =>
            cases hm : w.rect.memb l c with
            | false => simp [hvis, hfr, hm] at hne
            | true =>
              simp only [hvis, hfr, hm] at hne
              unfold UnderP
              right
              refine ⟨hid, w', ht', by rw [hf]; exact hfr, by rw [hrr]; exact hm, by rw [hv]; exact hvis, ?_⟩
              rw [hch, hrr]
              apply Classical.byContradiction
              intro hno
              have hall : ∀ ch ∈ w.children,
                  ownerLoc t' n ch (l - w.rect.top) (c - w.rect.left) = ownerLoc t n ch (l - w.rect.top) (c - w.rect.left) := by
                intro ch hch'
                apply Classical.byContradiction
                intro hd
                exact hno ⟨ch, hch', ih ch _ _ hd⟩
              rw [findSome?_congr_mem _ _ _ hall] at hne
              simp at hne

theorem under_ctxP (t : Tree) (hwf : WFp t) (id : Id) (P : Int → Int → Prop) :
    ∀ (fuel : Nat) (cur : Id) (l c : Int) (k : Nat) (L C : Int) (w : Win),
    t.wins[cur]? = some w → w.isRoot = w.parent.isNone → (w.parent = none → w.rect.top = 0 ∧ w.rect.left = 0) →
    Ctx t k w.parent l c L C → UnderP t id P fuel cur l c →
    ∃ (idw : Win) (l' c' : Int) (k' : Nat), t.wins[id]? = some idw ∧ idw.freed = false ∧ idw.isRoot = idw.parent.isNone ∧
      P l' c' ∧ k' + 1 ≤ k + fuel ∧ Ctx t k' idw.parent l' c' L C ∧ (idw.parent = none → cur = id) := by
  intro fuel
  induction fuel with
  | zero => intro cur l c k L C w _ _ _ _ hu; simp [UnderP] at hu
  | succ n ih =>
    intro cur l c k L C w hw hroot hz hctx hu
    unfold UnderP at hu
    rcases hu with ⟨rfl, w2, hw2, hf, hP⟩ | ⟨_, w2, hw2, hf, hm, hv, ch, hch, hunder⟩
    · rw [hw] at hw2; cases hw2
      exact ⟨w, l, c, k, hw, hf, hroot, hP, by omega, hctx, fun _ => rfl⟩
    · rw [hw] at hw2; cases hw2
      obtain ⟨cw, hcw, hcp, hcr⟩ := hwf.child cur w hw ch hch
      have hmm := (memb_true_iff _ _ _).1 hm
      have hctx' : Ctx t (k + 1) cw.parent (l - w.rect.top) (c - w.rect.left) L C := by
        rw [hcp]
        simp only [Ctx, ExposedAt]
        refine ⟨w, hw, hf, ?_, ?_, ?_, ?_, hv, ?_⟩
        · simp only [Rect.Mem] at hmm; omega
        · simp only [Rect.Mem, Rect.bottom] at hmm; omega
        · simp only [Rect.Mem] at hmm; omega
        · simp only [Rect.Mem, Rect.right] at hmm; omega
        · cases hp : w.parent with
          | none =>
            rw [hp] at hroot hctx
            simp only [Ctx] at hctx
            left
            have := hz hp
            refine ⟨by simpa using hroot, ?_, ?_⟩ <;> omega
          | some p =>
            rw [hp] at hroot hctx
            simp only [Ctx] at hctx
            right
            refine ⟨by simpa using hroot, p, rfl, ?_⟩
            have e1 : l - w.rect.top + w.rect.top = l := by omega
            have e2 : c - w.rect.left + w.rect.left = c := by omega
            rw [e1, e2]
            exact hctx
      have hcroot : cw.isRoot = cw.parent.isNone := by rw [hcr, hcp]; rfl
      obtain ⟨idw, l', c', k', h1, h2, h3, h4, h5, h6, h7⟩ := ih ch _ _ (k + 1) L C cw hcw hcroot
        (by intro hx; rw [hcp] at hx; cases hx) hctx' hunder
      refine ⟨idw, l', c', k', h1, h2, h3, h4, by omega, h6, fun hp => ?_⟩
      have hchid := h7 hp
      subst hchid
      rw [hcw] at h1
      cases h1
      rw [hcp] at hp
      cases hp

theorem exposedAt_congr {t t' : Tree} (h : t'.wins = t.wins) : ∀ (k : Nat) (id : Id) (l c L C : Int),
    ExposedAt t k id l c L C → ExposedAt t' k id l c L C := by
  intro k
  induction k with
  | zero => intro id l c L C hx; simp [ExposedAt] at hx
  | succ n ih =>
    intro id l c L C hx
    simp only [ExposedAt] at hx ⊢
    obtain ⟨w, hw, hf, h1, h2, h3, h4, hv, hrest⟩ := hx
    refine ⟨w, by rw [h]; exact hw, hf, h1, h2, h3, h4, hv, ?_⟩
    rcases hrest with hr | ⟨hr, p, hp, hy⟩
    · exact Or.inl hr
    · exact Or.inr ⟨hr, p, hp, ih p _ _ L C hy⟩

/-! ### what `SameButG` keeps -/

theorem sameButG_self_some {t t' : Tree} {id : Id} (h : SameButG t t' id) {w : Win} (hw : t.wins[id]? = some w) :
    ∃ w', t'.wins[id]? = some w' ∧ coreSelf w' = coreSelf w := by
  have := h.self
  rw [hw] at this
  cases h1 : t'.wins[id]? with
  | none => rw [h1] at this; simp at this
  | some w' => rw [h1] at this; exact ⟨w', rfl, by simpa using this⟩

/-- Children, parent, root flag and liveness of every window are kept. -/
theorem sameButG_struct {t t' : Tree} {id : Id} (h : SameButG t t' id) (x : Id) {w : Win} (hw : t.wins[x]? = some w) :
    ∃ w', t'.wins[x]? = some w' ∧ coreSelf w' = coreSelf w ∧ (x ≠ id → core w' = core w) := by
  by_cases hx : x = id
  · subst hx
    obtain ⟨w', h1, h2⟩ := sameButG_self_some h hw
    exact ⟨w', h1, h2, fun hne => absurd rfl hne⟩
  · obtain ⟨w', h1, h2⟩ := map_core_some (h.other x hx) hw
    refine ⟨w', h1, ?_, fun _ => h2⟩
    simp only [core, coreSelf, Prod.mk.injEq] at h2 ⊢
    exact ⟨h2.2.1, h2.2.2.2.1, h2.2.2.2.2.1, h2.2.2.2.2.2⟩

theorem sameButG_symm {t t' : Tree} {id : Id} (h : SameButG t t' id) : SameButG t' t id :=
  ⟨fun x hx => (h.other x hx).symm, h.self.symm, h.size.symm⟩

theorem wfp_sameButG {t t' : Tree} {id : Id} (h : SameButG t t' id) (hwf : WFp t) : WFp t' := by
  constructor
  intro cur w' hw' ch hch
  obtain ⟨w, hw, hc, _⟩ := sameButG_struct (sameButG_symm h) cur hw'
  simp only [coreSelf, Prod.mk.injEq] at hc
  obtain ⟨cw, hcw, hcp, hcr⟩ := hwf.child cur w hw ch (by rw [hc.2.1]; exact hch)
  obtain ⟨cw', hcw', hcc, _⟩ := sameButG_struct h ch hcw
  simp only [coreSelf, Prod.mk.injEq] at hcc
  exact ⟨cw', hcw', by rw [hcc.2.2.1]; exact hcp, by rw [hcc.2.2.2]; exact hcr⟩

theorem rootWin_sameButG {t t' : Tree} {id : Id} (h : SameButG t t' id) (hid : id ≠ 0) (hr : RootWin t) : RootWin t' := by
  obtain ⟨w, hw, hf, hroot, hp, htop, hleft⟩ := hr.ex
  obtain ⟨w', hw', _, hc⟩ := sameButG_struct h 0 hw
  have hc := hc (Ne.symm hid)
  simp only [core, Prod.mk.injEq] at hc
  exact ⟨⟨w', hw', by rw [hc.2.1]; exact hf, by rw [hc.2.2.2.2.2]; exact hroot, by rw [hc.2.2.2.2.1]; exact hp,
    by rw [hc.2.2.1]; exact htop, by rw [hc.2.2.1]; exact hleft⟩⟩

theorem rootOk_sameButG {t t' : Tree} {id : Id} (h : SameButG t t' id) (hid : id ≠ 0) (hr : RootOk t) : RootOk t' := by
  obtain ⟨w, hw, hf, hv, htop, hleft⟩ := hr.ex
  obtain ⟨w', hw', _, hc⟩ := sameButG_struct h 0 hw
  have hc := hc (Ne.symm hid)
  simp only [core, Prod.mk.injEq] at hc
  exact ⟨⟨w', hw', by rw [hc.2.1]; exact hf, by rw [hc.1]; exact hv, by rw [hc.2.2.1]; exact htop, by rw [hc.2.2.1]; exact hleft⟩⟩

/-- Window 0 is the only root window. -/
def OnlyRoot (t : Tree) : Prop := ∀ (x : Id) (w : Win), t.wins[x]? = some w → w.isRoot = true → x = 0

theorem onlyRoot_sameButG {t t' : Tree} {id : Id} (h : SameButG t t' id) (ho : OnlyRoot t) : OnlyRoot t' := by
  intro x w' hw' hr
  obtain ⟨w, hw, hc, _⟩ := sameButG_struct (sameButG_symm h) x hw'
  simp only [coreSelf, Prod.mk.injEq] at hc
  exact ho x w hw (by rw [hc.2.2.2]; exact hr)

theorem onlyRoot_congr {t t' : Tree} (h : t'.wins = t.wins) (ho : OnlyRoot t) : OnlyRoot t' := by
  intro x w hw hr; rw [h] at hw; exact ho x w hw hr

theorem onlyRoot_sameBut {t t' : Tree} {id : Id} (h : SameBut t t' id) (ho : OnlyRoot t) : OnlyRoot t' := by
  intro x w' hw' hr
  obtain ⟨w, hw, hc⟩ := noVis_some (sameBut_noVis h x).symm hw'
  simp only [coreNoVis, Prod.mk.injEq] at hc
  exact ho x w hw (by rw [hc.2.2.2.2]; exact hr)

theorem rootsPositive_sameButG {t t' : Tree} {id : Id} (h : SameButG t t' id) (hid : id ≠ 0) (ho : OnlyRoot t)
    (hpos : RootsPositive t) : RootsPositive t' := by
  intro x w' hw' hr
  have hx := onlyRoot_sameButG h ho x w' hw' hr
  subst hx
  obtain ⟨w, hw, _, hc⟩ := sameButG_struct (sameButG_symm h) 0 hw'
  have hc := hc (Ne.symm hid)
  simp only [core, Prod.mk.injEq] at hc
  have := hpos 0 w hw (by rw [hc.2.2.2.2.2]; exact hr)
  rw [hc.2.2.1] at this
  exact this

/-! ### `tickit_window_set_geometry` + expose(parent, old) + expose(parent, new) -/

/-- The operation `geom` of the engine: the geometry change with the exposes the property's proviso demands. -/
def setGeometryExposed (t : Tree) (fuel : Nat) (id : Id) (rect : Rect) : Res Tree := do
  let w ← WinTree.get t id
  let (t1, _) ← WinTree.setGeometry t id rect
  match w.parent with
  | some p => do
    let t2 ← expose t1 fuel p (some w.rect)
    expose t2 fuel p (some rect)
  | none => pure t1

theorem geom_step (content : Id → Int → Int → Cell) (screen : Int → Int → Cell) (t t' : Tree) (id : Id) (rect : Rect)
    (h : setGeometryExposed t (t.wins.size + 1) id rect = .ok t') (hid : id ≠ 0)
    (hwf : WFp t) (hr : RootWin t) (hor : OnlyRoot t) (hne : ∀ x ∈ t.root.damage, x.Nonempty) (hpos : RootsPositive t)
    (hinv : InvC content t screen) :
    InvC content t' screen ∧ WFp t' ∧ RootWin t' ∧ OnlyRoot t' ∧ (∀ x ∈ t'.root.damage, x.Nonempty) ∧
    (RectSet.Inv t.root.damage → RectSet.Inv t'.root.damage) ∧ RootsPositive t' ∧
    (t'.root = t.root ∨ (t'.root.needsExpose = true ∧ t'.root.needsLater = true ∧ t'.root.changes = t.root.changes)) ∧
    (∃ t1, SameButG t t1 id ∧ t'.wins = t1.wins) := by
  unfold setGeometryExposed at h
  simp only [bind, Bind.bind] at h
  cases hg : WinTree.get t id with
  | ub e => rw [hg] at h; cases h
  | ok w0 =>
    rw [hg] at h
    have hw0 := get_ok hg
    simp only at h
    -- the tree after `setGeometry`
    obtain ⟨t1, hsg, hsb, hroot1, hrect1⟩ : ∃ t1, (∃ b, WinTree.setGeometry t id rect = .ok (t1, b)) ∧ SameButG t t1 id ∧
        t1.root = t.root ∧ (∀ w, t1.wins[id]? = some w → w.rect = rect) := by
      unfold WinTree.setGeometry
      rw [hg]
      simp only [bind, Bind.bind]
      by_cases hrr : w0.rect = rect
      · refine ⟨t, ⟨false, by simp [hrr, pure, Pure.pure]⟩, ⟨fun _ _ => rfl, rfl, rfl⟩, rfl, ?_⟩
        intro w hw; rw [hw0.1] at hw; cases hw; exact hrr
      · refine ⟨WinTree.set t id { w0 with rect := rect }, ⟨true, by simp [hrr, pure, Pure.pure]⟩, ?_, rfl, ?_⟩
        · refine ⟨fun x hx => by rw [set_wins_other t id x _ hx], ?_, set_size _ _ _⟩
          rw [set_wins_self t id w0 _ hw0.1, hw0.1]
          rfl
        · intro w hw
          rw [set_wins_self t id w0 _ hw0.1] at hw
          cases hw; rfl
    obtain ⟨b, hsg⟩ := hsg
    rw [hsg] at h
    simp only at h
    have hwf1 := wfp_sameButG hsb hwf
    have hr1 := rootWin_sameButG hsb hid hr
    have hor1 := onlyRoot_sameButG hsb hor
    have hpos1 := rootsPositive_sameButG hsb hid hor hpos
    have hsz1 : t1.wins.size = t.wins.size := hsb.size
    -- owner changes only under the old or the new rectangle
    have hlocal : ∀ L C, ownerAt t1 L C ≠ ownerAt t L C →
        UnderP t1 id (fun l c => w0.rect.memb l c = true ∨ rect.memb l c = true) (t1.wins.size + 1) 0 L C := by
      intro L C hne'
      unfold ownerAt at hne'
      rw [hsz1] at hne' ⊢
      exact ownerLoc_localG hsb w0.rect rect (fun w hw => by rw [hw0.1] at hw; cases hw; rfl) hrect1 _ 0 L C hne'
    obtain ⟨rw1, hrw1, hrf1, hrr1, hrp1, hrt1, hrl1⟩ := hr1.ex
    have hctx : ∀ L C, UnderP t1 id (fun l c => w0.rect.memb l c = true ∨ rect.memb l c = true) (t1.wins.size + 1) 0 L C →
        ∃ (idw : Win) (l' c' : Int) (k' : Nat), t1.wins[id]? = some idw ∧
          (w0.rect.memb l' c' = true ∨ rect.memb l' c' = true) ∧ k' ≤ t1.wins.size ∧ Ctx t1 k' idw.parent l' c' L C ∧
          (idw.parent = none → False) := by
      intro L C hu
      obtain ⟨idw, l', c', k', h1, _, _, h4, h5, h6, h7⟩ :=
        under_ctxP t1 hwf1 id _ (t1.wins.size + 1) 0 L C 0 L C rw1 hrw1 (by rw [hrr1, hrp1]; rfl) (fun _ => ⟨hrt1, hrl1⟩)
          (by rw [hrp1]; exact ⟨rfl, rfl⟩) hu
      exact ⟨idw, l', c', k', h1, h4, by omega, h6, fun hp => hid (h7 hp).symm⟩
    -- parent of `id` in `t1`
    obtain ⟨w1, hw1, hc1⟩ := sameButG_self_some hsb hw0.1
    simp only [coreSelf, Prod.mk.injEq] at hc1
    cases hp : w0.parent with
    | none =>
      simp only [hp, pure, Pure.pure] at h
      cases h
      refine ⟨?_, hwf1, hr1, hor1, by rw [hroot1]; exact hne, by rw [hroot1]; exact fun hi => hi, hpos1, Or.inl hroot1, ⟨t', hsb, rfl⟩⟩
      intro L C w l c ho
      by_cases heq : ownerAt t' L C = ownerAt t L C
      · rw [heq] at ho
        rw [hroot1]
        exact hinv L C w l c ho
      · obtain ⟨idw, _, _, _, h1, _, _, _, h7⟩ := hctx L C (hlocal L C heq)
        rw [hw1] at h1; cases h1
        exact absurd (by rw [hc1.2.2.1]; exact hp) h7
    | some p =>
      simp only [hp] at h
      cases he1 : expose t1 (t.wins.size + 1) p (some w0.rect) with
      | ub e => rw [he1] at h; cases h
      | ok t2 =>
        rw [he1] at h
        simp only at h
        obtain ⟨hwins2, hne2, hdi2, hfl2, hcov2⟩ := expose_spec _ t1 p _ t2 he1 (by rw [hroot1]; exact hne) hpos1
        have hpos2 : RootsPositive t2 := by intro x w hx hxr; rw [hwins2] at hx; exact hpos1 x w hx hxr
        obtain ⟨hwins3, hne3, hdi3, hfl3, hcov3⟩ := expose_spec _ t2 p _ t' h hne2 hpos2
        have hwins : t'.wins = t1.wins := by rw [hwins3, hwins2]
        refine ⟨?_, wfp_congr hwins hwf1, rootWin_congr hwins hr1, ?_, hne3, ?_, ?_, ?_, ⟨t1, hsb, hwins⟩⟩
        · intro L C w l c ho
          rw [ownerAt_congr t' t1 hwins] at ho
          by_cases heq : ownerAt t1 L C = ownerAt t L C
          · rw [heq] at ho
            rcases hinv L C w l c ho with hc | hc
            · exact Or.inl ((hcov3 L C).2 (Or.inl ((hcov2 L C).2 (Or.inl (by rw [hroot1]; exact hc)))))
            · exact Or.inr hc
          · left
            obtain ⟨idw, l', c', k', h1, h4, h5, h6, _⟩ := hctx L C (hlocal L C heq)
            rw [hw1] at h1; cases h1
            rw [hc1.2.2.1, hp] at h6
            simp only [Ctx] at h6
            have h6' : ExposedAt t1 (t.wins.size + 1) p l' c' L C := exposedAt_mono_le t1 (by omega) h6
            rcases h4 with hold | hnew
            · apply (hcov3 L C).2; left
              apply (hcov2 L C).2; right
              exact ⟨l', c', fun r hr' => by cases hr'; exact (memb_true_iff _ _ _).1 hold, h6'⟩
            · apply (hcov3 L C).2; right
              exact ⟨l', c', fun r hr' => by cases hr'; exact (memb_true_iff _ _ _).1 hnew,
                exposedAt_congr hwins2 _ _ _ _ _ _ h6'⟩
        · intro x w hx hxr; rw [hwins] at hx; exact hor1 x w hx hxr
        · intro hi; exact hdi3 (hdi2 (by rw [hroot1]; exact hi))
        · intro x w hx hxr; rw [hwins] at hx; exact hpos1 x w hx hxr
        · rcases hfl3 with rfl | ⟨a, b', c⟩
          · rcases hfl2 with rfl | ⟨a2, b2, c2⟩
            · exact Or.inl hroot1
            · exact Or.inr ⟨a2, b2, by rw [c2, hroot1]⟩
          · refine Or.inr ⟨a, b', ?_⟩
            rw [c]
            rcases hfl2 with rfl | ⟨_, _, c2⟩
            · rw [hroot1]
            · rw [c2, hroot1]

end WinFlush
end Tickit
