import Tickit.Proof.WinInputDeliver
/-
  C14, "with the position made relative to the receiving window" when handlers move windows from inside the dispatch
  (`tickit_window_set_geometry`, `Act.geom`): every window outside the set `A` of windows the handlers act on is given
  the event at the position of the terminal cell relative to *itself* — whatever the windows offered the event before
  it did to windows of `A` (moved them, resized them, closed them, …).

  The dispatch invariant `DInv` (Proof/WinInputDeliver.lean) says that the store is the initial one up to `A`; the
  induction below uses `handleMouse_sim` for its preservation and adds the positions.
-/
namespace Tickit
namespace WinInput
open WinTree

/-- `(e.line, e.col)` is the cell `(L, C)` seen from window `x` as it lies in `t0`: the cell minus the sum of the
    offsets along `x`'s parent chain. -/
def RelTo (t0 : Tree) (L C : Int) (x : WinTree.Id) (e : Ev) : Prop :=
  ∃ a b, OriginSum t0 (some x) a b ∧ e.line = L - a ∧ e.col = C - b

/-- An offer to / a handler call of a window outside `A` carries the position relative to that window. -/
def PosItem (A : Aff) (t0 : Tree) (L C : Int) : LogItem → Prop
  | .offer _ x e _ => A x = false → RelTo t0 L C x e
  | .call _ x _ _ _ e => A x = false → RelTo t0 L C x e
  | _ => True

theorem posItem_quiet (A : Aff) (t0 : Tree) (L C : Int) : Quiet (PosItem A t0 L C) :=
  ⟨fun _ => trivial, fun _ => trivial⟩

def MouseRecPos (A : Aff) (t0 : Tree) (L C : Int) (rec : MouseRec) : Prop :=
  ∀ (st : St) (win : WinTree.Id) (ev : Ev) (held : List WinTree.Id) (st' : St) (r : Option WinTree.Id),
    DInv A t0 held st → Alive st.tree win → (A win = false → RelTo t0 L C win ev) →
    rec st win ev = Out.ok (st', r) → Ext (PosItem A t0 L C) st st'

/-- The event handed to a child outside `A` is relative to the child: its rectangle and parent are those of `t0`. -/
theorem relTo_child {A : Aff} {t0 : Tree} {L C : Int} {st : St} {held : List WinTree.Id} (h : DInv A t0 held st)
    {win c : WinTree.Id} {cw : Win} {ev : Ev} (hcw : st.tree.wins[c]? = some cw) (hcf : cw.freed = false)
    (hpar : cw.parent = some win) (hpos : A win = false → RelTo t0 L C win ev) :
    A c = false → RelTo t0 L C c (ev.toChild cw) := by
  intro hAc
  obtain ⟨pw, hpw, _, hmem⟩ := h.good.1.tree.parent c win cw hcw hcf hpar
  have hAw : A win = false := by
    cases hA : A win with
    | false => rfl
    | true => rw [h.sim.down win pw hA hpw c hmem] at hAc; cases hAc
  obtain ⟨a, b, ho, hl, hc⟩ := hpos hAw
  obtain ⟨c0, hc0⟩ := h.sim.back hcw
  have rel := h.sim.rel hAc hc0 hcw
  have ho' : OriginSum t0 c0.parent a b := by rw [← rel.parent, hpar]; exact ho
  refine ⟨a + c0.rect.top, b + c0.rect.left, OriginSum.step hc0 ho', ?_, ?_⟩
  · show ev.line - cw.rect.top = L - (a + c0.rect.top)
    rw [rel.rect, hl]; omega
  · show ev.col - cw.rect.left = C - (b + c0.rect.left)
    rw [rel.rect, hc]; omega

theorem mouseSnap_pos {A : Aff} {t0 : Tree} {L C : Int} {rec : MouseRec} (hsim : MouseRecSim A t0 rec)
    (hrec : MouseRecPos A t0 L C rec) (win : WinTree.Id) (ev : Ev) (held : List WinTree.Id)
    (hpos : A win = false → RelTo t0 L C win ev) :
    ∀ (cs : List WinTree.Id) (st st' : St) (r : Option WinTree.Id), DInv A t0 held st →
      mouseSnap rec st win cs ev = Out.ok (st', r) → Ext (PosItem A t0 L C) st st' := by
  intro cs
  induction cs with
  | nil =>
    intro st st' r _ h
    simp only [mouseSnap, out_pure, Out.ok.injEq, Prod.mk.injEq] at h
    rw [← h.1]; exact Ext.refl _ _
  | cons c rest ih =>
    intro st st' r g h
    simp only [mouseSnap] at h
    obtain ⟨cw, hcw, h⟩ := lift_bind_eq_ok.1 h
    obtain ⟨hcww, hcwf⟩ := get_eq_ok.1 hcw
    by_cases hp : cw.parent ≠ some win
    · rw [if_pos hp] at h; exact ih _ _ _ g h
    · rw [if_neg hp] at h
      have hpar : cw.parent = some win := Classical.not_not.1 hp
      by_cases hskip : (!cw.stealInput && outsideChild cw ev.line ev.col) = true
      · simp only [hskip, if_true] at h; exact ih _ _ _ g h
      · simp only [hskip, if_false] at h
        obtain ⟨⟨st1, r1⟩, hr, h⟩ := out_bind_eq_ok.1 h
        have hal : Alive st.tree c := ⟨cw, hcww, hcwf⟩
        have e1 := hrec _ _ _ held _ _ g hal (relTo_child g hcww hcwf hpar hpos) hr
        obtain ⟨g1, _⟩ := hsim st c _ held st1 r1 g hal hr
        cases r1 with
        | some hh => simp only [out_pure, Out.ok.injEq, Prod.mk.injEq] at h; rw [← h.1]; exact e1
        | none => simp only at h; exact e1.trans (ih _ _ _ g1 h)

theorem handleMouseBody_pos {A : Aff} {t0 : Tree} (hb : Base A t0) {L C : Int} {rec : MouseRec}
    (hsim : MouseRecSim A t0 rec) (hrec : MouseRecPos A t0 L C rec) (fuel : Nat) :
    MouseRecPos A t0 L C (handleMouseBody Cfg.repaired rec fuel) := by
  intro st win ev held st' r g hal hpos h
  have hq := posItem_quiet A t0 L C
  unfold handleMouseBody at h
  obtain ⟨vis, _, h⟩ := lift_bind_eq_ok.1 h
  cases vis with
  | false => simp only [Bool.not_false, if_true, out_pure, Out.ok.injEq, Prod.mk.injEq] at h; rw [← h.1]; exact Ext.refl _ _
  | true =>
    simp only [Bool.not_true, Bool.false_eq_true, if_false] at h
    obtain ⟨st1, h1, h⟩ := lift_bind_eq_ok.1 h
    obtain ⟨⟨st2, r2⟩, h2, h⟩ := out_bind_eq_ok.1 h
    obtain ⟨⟨st3, r3⟩, h3, h⟩ := out_bind_eq_ok.1 h
    unfold mouseDone at h
    obtain ⟨w3, _, h⟩ := lift_bind_eq_ok.1 h
    obtain ⟨st4, hu, h⟩ := lift_bind_eq_ok.1 h
    simp only [out_pure, Out.ok.injEq, Prod.mk.injEq] at h
    rw [← h.1]
    obtain ⟨g1, _⟩ := g.ref h1
    have hal1 : Alive st1.tree win := g1.good.1.held win (List.mem_cons_self ..)
    obtain ⟨w, hg, hw, hf⟩ := hal1.get
    obtain ⟨w0, hw0⟩ := g1.sim.back hw
    -- the children
    have e2 : Ext (PosItem A t0 L C) st1 st2 := by
      have h2' := h2
      unfold mouseChildren at h2'
      simp only [hg, lift_ok, out_bind_ok, Cfg.repaired, if_true] at h2'
      obtain ⟨st4', h4, h2'⟩ := lift_bind_eq_ok.1 h2'
      obtain ⟨⟨st5, r5⟩, h5, h2'⟩ := out_bind_eq_ok.1 h2'
      obtain ⟨st6, h6, h2'⟩ := lift_bind_eq_ok.1 h2'
      simp only [out_pure, Out.ok.injEq, Prod.mk.injEq] at h2'
      rw [← h2'.1]
      obtain ⟨g4, _⟩ := DInv.refAll _ _ _ _ g1 h4
      exact ((refAll_ext _ _ _ h4).trans (mouseSnap_pos hsim hrec win ev _ hpos _ _ _ _ g4 h5)).trans
        (unrefAll_ext hq _ _ _ h6)
    obtain ⟨g2, _⟩ := mouseChildren_sim hb hsim g1 hal1 hw0 h2
    -- the window itself
    have e3 : Ext (PosItem A t0 L C) st2 st3 := by
      unfold mouseSelf at h3
      cases r2 with
      | some hh => simp only [out_pure, Out.ok.injEq, Prod.mk.injEq] at h3; rw [← h3.1]; exact Ext.refl _ _
      | none =>
        simp only at h3
        unfold mouseOwn at h3
        obtain ⟨own, _, h3⟩ := lift_bind_eq_ok.1 h3
        cases own with
        | false => simp only [Bool.not_false, if_true, out_pure, Out.ok.injEq, Prod.mk.injEq] at h3; rw [← h3.1]; exact Ext.refl _ _
        | true =>
          simp only [Bool.not_true, Bool.false_eq_true, if_false] at h3
          obtain ⟨⟨st1', d1⟩, hh1, h3⟩ := lift_bind_eq_ok.1 h3
          have e1 : Ext (PosItem A t0 L C) st2 st1' :=
            runHandlers_ext hq .mouse win ev (fun _ _ _ => hpos) hpos hh1
          cases d1 with
          | false => simp only [Bool.not_false, if_true, out_pure, Out.ok.injEq, Prod.mk.injEq] at h3; rw [← h3.1]; exact e1
          | true =>
            simp only [Bool.not_true, Bool.false_eq_true, if_false] at h3
            obtain ⟨st2', hh2, h3⟩ := lift_bind_eq_ok.1 h3
            simp only [out_pure, Out.ok.injEq, Prod.mk.injEq] at h3
            rw [← h3.1]
            simp only [Cfg.repaired, if_true] at hh2
            exact e1.trans (refWin_ext hh2)
    exact (((refWin_ext h1).trans e2).trans e3).trans (unrefLogged_ext hq hu)

/-- `_handle_mouse` (repaired code): whatever the handlers do to windows of `A`, the windows outside `A` are given the
    position relative to themselves. -/
theorem handleMouse_pos {A : Aff} {t0 : Tree} (hb : Base A t0) (L C : Int) :
    ∀ (f : Nat), MouseRecPos A t0 L C (handleMouse Cfg.repaired f) := by
  intro f
  induction f with
  | zero => intro st win ev held st' r _ _ _ hr; simp [handleMouse] at hr
  | succ f ih => exact handleMouseBody_pos hb (handleMouse_sim hb f) ih f

end WinInput
end Tickit
