import Tickit.Proof.WinInput
/-
  Towards `mutation_safe` (C14): the repaired routing reaches no undefined behaviour of the C code when handlers
  close, unref, ref, hide, show or change steal-input on windows from inside a dispatch.

  * `FuelMsg`: the `ub` outcomes that are artefacts of the model's fuel (parent chain / focus chain / destroy
    recursion / damage set), not behaviours of the C code.  `SafeR` / `SafeO`: an outcome is a value with a property,
    or such an artefact (or `Out.fuel`).
  * `TInv`: consistency of the window store (children ↔ parent, focus pointers, no duplicates, no queued restack
    request, live drag source).  `AInv st held`: plus the reference accounting — `refcount = owned + held` where
    `held` lists the references the dispatcher holds at this point — and the application's leaf-first rule.
-/
namespace Tickit
namespace WinInput
open WinTree

/-- `ub` outcomes that are artefacts of the model's fuel. -/
def FuelMsg (w : String) : Prop :=
  w = "parent chain too long" ∨ w = "focus chain too long" ∨ w = "destroy recursion too deep" ∨
  w = "rectset_contains out of fuel" ∨ w = "rectset_add out of fuel"

/-- Not an undefined behaviour of the C code: a value satisfying `Q`, or a fuel artefact. -/
def SafeR {α : Type} (r : Res α) (Q : α → Prop) : Prop :=
  match r with
  | .ok a => Q a
  | .ub w => FuelMsg w

def SafeO {α : Type} (r : Out α) (Q : α → Prop) : Prop :=
  match r with
  | .ok a => Q a
  | .ub w => FuelMsg w
  | .fuel => True

theorem SafeR.ok {α : Type} {a : α} {Q : α → Prop} (h : Q a) : SafeR (Res.ok a) Q := h
theorem SafeR.pure {α : Type} {a : α} {Q : α → Prop} (h : Q a) : SafeR (pure a : Res α) Q := h

theorem SafeR.bind {α β : Type} {x : Res α} {f : α → Res β} {Q : α → Prop} {R : β → Prop}
    (hx : SafeR x Q) (hf : ∀ a, Q a → SafeR (f a) R) : SafeR (x >>= f) R := by
  cases x with
  | ok a => exact hf a hx
  | ub w => exact hx

theorem SafeR.mono {α : Type} {x : Res α} {Q Q' : α → Prop} (hx : SafeR x Q) (h : ∀ a, Q a → Q' a) : SafeR x Q' := by
  cases x with
  | ok a => exact h a hx
  | ub w => exact hx

theorem SafeO.pure {α : Type} {a : α} {Q : α → Prop} (h : Q a) : SafeO (pure a : Out α) Q := h

theorem SafeO.bind {α β : Type} {x : Out α} {f : α → Out β} {Q : α → Prop} {R : β → Prop}
    (hx : SafeO x Q) (hf : ∀ a, Q a → SafeO (f a) R) : SafeO (x >>= f) R := by
  cases x with
  | ok a => exact hf a hx
  | ub w => exact hx
  | fuel => trivial

theorem SafeO.mono {α : Type} {x : Out α} {Q Q' : α → Prop} (hx : SafeO x Q) (h : ∀ a, Q a → Q' a) : SafeO x Q' := by
  cases x with
  | ok a => exact h a hx
  | ub w => exact hx
  | fuel => trivial

theorem SafeO.lift {α : Type} {x : Res α} {Q : α → Prop} (hx : SafeR x Q) : SafeO (liftM x : Out α) Q := by
  cases x with
  | ok a => exact hx
  | ub w => exact hx

/-- `let a ← liftM x; f a` in `Out`. -/
theorem SafeO.lbind {α β : Type} {x : Res α} {f : α → Out β} {Q : α → Prop} {R : β → Prop}
    (hx : SafeR x Q) (hf : ∀ a, Q a → SafeO (f a) R) : SafeO ((liftM x : Out α) >>= f) R :=
  SafeO.bind (SafeO.lift hx) hf

/-- A live window. -/
def Alive (t : Tree) (i : WinTree.Id) : Prop := ∃ w, t.wins[i]? = some w ∧ w.freed = false

theorem Alive.get {t : Tree} {i : WinTree.Id} (h : Alive t i) : ∃ w, WinTree.get t i = Res.ok w ∧ t.wins[i]? = some w ∧ w.freed = false := by
  obtain ⟨w, hw, hf⟩ := h
  exact ⟨w, get_eq_ok.2 ⟨hw, hf⟩, hw, hf⟩

theorem safeR_get {t : Tree} {i : WinTree.Id} (h : Alive t i) :
    SafeR (WinTree.get t i) (fun w => t.wins[i]? = some w ∧ w.freed = false) := by
  obtain ⟨w, hg, hw, hf⟩ := h.get
  rw [hg]; exact ⟨hw, hf⟩

/-- `x` hangs below the root window through live parents. -/
inductive Att (t : Tree) : WinTree.Id → Prop where
  | root : Att t 0
  | step {x p : WinTree.Id} {w : Win} : t.wins[x]? = some w → w.freed = false → w.parent = some p → Att t p → Att t x

/-- `x` is `a` or lies below it (following `parent`). -/
inductive Within (t : Tree) (a : WinTree.Id) : WinTree.Id → Prop where
  | self : Within t a a
  | step {x p : WinTree.Id} {w : Win} : t.wins[x]? = some w → w.parent = some p → Within t a p → Within t a x

theorem isWithin_sound {t : Tree} {a : WinTree.Id} : ∀ (f : Nat) (x : WinTree.Id), isWithin t f a x = true → Within t a x := by
  intro f
  induction f with
  | zero => intro x h; simp [isWithin] at h
  | succ f ih =>
    intro x h
    unfold isWithin at h
    by_cases hx : x = a
    · subst hx; exact Within.self
    · simp only [hx, if_false] at h
      cases hw : t.wins[x]? with
      | none => simp [hw] at h
      | some w =>
        simp only [hw] at h
        cases hp : w.parent with
        | none => simp [hp] at h
        | some p => simp only [hp] at h; exact Within.step hw hp (ih p h)

theorem Within.of_wins {t t' : Tree} {a x : WinTree.Id} (h : Within t' a x) (e : t'.wins = t.wins) : Within t a x := by
  induction h with
  | self => exact Within.self
  | step hw hp _ ih => exact Within.step (by rw [← e]; exact hw) hp ih

/-- Everything alive keeps its liveness and its parent, except possibly `e`. -/
def KeepParents (e : Option WinTree.Id) (t t' : Tree) : Prop :=
  ∀ (x : WinTree.Id) (w : Win), t.wins[x]? = some w → w.freed = false → some x ≠ e →
    ∃ w', t'.wins[x]? = some w' ∧ w'.freed = false ∧ w'.parent = w.parent

theorem Att.keep {t t' : Tree} (h : KeepParents none t t') {x : WinTree.Id} (ha : Att t x) : Att t' x := by
  induction ha with
  | root => exact Att.root
  | step hw hf hp _ ih =>
    obtain ⟨w', hw', hf', hp'⟩ := h _ _ hw hf (by simp)
    exact Att.step hw' hf' (by rw [hp']; exact hp) ih

/-- … when `e` is unlinked: whatever was not below `e` stays attached. -/
theorem Att.keep_outside {t t' : Tree} {e : WinTree.Id} (h : KeepParents (some e) t t') {x : WinTree.Id} (ha : Att t x)
    (hn : ¬ Within t e x) : Att t' x := by
  induction ha with
  | root => exact Att.root
  | @step x p w hw hf hp _ ih =>
    have hxe : x ≠ e := fun he => hn (he ▸ Within.self)
    obtain ⟨w', hw', hf', hp'⟩ := h _ _ hw hf (by simpa using hxe)
    exact Att.step hw' hf' (by rw [hp']; exact hp) (ih (fun hw2 => hn (Within.step hw hp hw2)))

/-- … when `e`, which nobody has as parent, goes away. -/
theorem Att.keep_leaf {t t' : Tree} {e : WinTree.Id} (h : KeepParents (some e) t t')
    (hleaf : ∀ (x : WinTree.Id) (w : Win), t.wins[x]? = some w → w.freed = false → w.parent ≠ some e)
    {x : WinTree.Id} (ha : Att t x) (hxe : x ≠ e) : Att t' x := by
  induction ha with
  | root => exact Att.root
  | @step x p w hw hf hp _ ih =>
    obtain ⟨w', hw', hf', hp'⟩ := h _ _ hw hf (by simpa using hxe)
    have hpe : p ≠ e := fun he => hleaf x w hw hf (by rw [hp, he])
    exact Att.step hw' hf' (by rw [hp']; exact hp) (ih hpe)

/-- The requests `_request_hierarchy_change` is asked to queue by the public API: raise, lower, to front, to back. -/
def Restack (c : Change) : Prop := c = .raise ∨ c = .raiseFront ∨ c = .lower ∨ c = .lowerBack

/-- Consistency of the window store. -/
structure TInv (t : Tree) : Prop where
  root : ∃ w0, t.wins[0]? = some w0 ∧ w0.freed = false ∧ w0.parent = none
  child : ∀ (i c : WinTree.Id) (w : Win), t.wins[i]? = some w → w.freed = false → c ∈ w.children →
    ∃ cw, t.wins[c]? = some cw ∧ cw.freed = false ∧ cw.parent = some i
  parent : ∀ (c p : WinTree.Id) (cw : Win), t.wins[c]? = some cw → cw.freed = false → cw.parent = some p →
    ∃ pw, t.wins[p]? = some pw ∧ pw.freed = false ∧ c ∈ pw.children
  focus : ∀ (i f : WinTree.Id) (w : Win), t.wins[i]? = some w → w.freed = false → w.focusedChild = some f →
    f ∈ w.children
  nodup : ∀ (i : WinTree.Id) (w : Win), t.wins[i]? = some w → w.freed = false → w.children.Nodup
  noself : ∀ (i : WinTree.Id) (w : Win), t.wins[i]? = some w → w.freed = false → w.parent ≠ some i
  closed : ∀ (i : WinTree.Id) (w : Win), t.wins[i]? = some w → w.freed = false → w.isClosed = true → w.parent = none
  /-- parents were created before their children: no cycles, and chains are shorter than the store -/
  lt : ∀ (c p : WinTree.Id) (cw : Win), t.wins[c]? = some cw → cw.freed = false → cw.parent = some p → p < c
  /-- window 0 is the one root window -/
  rootflag : ∀ (i : WinTree.Id) (w : Win), t.wins[i]? = some w → w.freed = false → (w.isRoot = true ↔ i = 0)
  /-- a queued restack request names a live window, its parent, and the window still hangs below the root -/
  queue : ∀ r ∈ t.root.changes, ∃ w, t.wins[r.win]? = some w ∧ w.freed = false ∧ w.parent = some r.parent ∧ Att t r.win
  /-- only restack requests are ever queued -/
  qkind : ∀ r ∈ t.root.changes, Restack r.change

/-- The root's drag source, if any, is a live window. -/
def DragOK (t : Tree) : Prop := ∀ d, t.root.dragSource = some d → Alive t d

/-- Same store up to reference counts and the damage bookkeeping of the root. -/
structure Shape (t t' : Tree) : Prop where
  changes : t'.root.changes = t.root.changes
  win : ∀ (i : WinTree.Id), (t'.wins[i]?).map noRc = (t.wins[i]?).map noRc

theorem Shape.refl (t : Tree) : Shape t t := ⟨rfl, fun _ => rfl⟩
theorem Shape.symm {t t' : Tree} (h : Shape t t') : Shape t' t := ⟨h.changes.symm, fun i => (h.win i).symm⟩
theorem Shape.trans {a b c : Tree} (h1 : Shape a b) (h2 : Shape b c) : Shape a c :=
  ⟨h2.changes.trans h1.changes, fun i => (h2.win i).trans (h1.win i)⟩

theorem Shape.some {t t' : Tree} (h : Shape t t') {i : WinTree.Id} {w : Win} (hw : t.wins[i]? = some w) :
    ∃ w', t'.wins[i]? = some w' ∧ noRc w' = noRc w := by
  have := h.win i
  rw [hw] at this
  cases hw' : t'.wins[i]? with
  | none => rw [hw'] at this; simp at this
  | some w' => rw [hw'] at this; simp only [Option.map_some, Option.some.injEq] at this; exact ⟨w', rfl, this⟩

theorem Shape.alive {t t' : Tree} (h : Shape t t') {i : WinTree.Id} (ha : Alive t i) : Alive t' i := by
  obtain ⟨w, hw, hf⟩ := ha
  obtain ⟨w', hw', e⟩ := h.some hw
  exact ⟨w', hw', by rw [(noRc_fields e).2.2.2.2.2.2.2.2]; exact hf⟩

theorem Shape.keepParents {t t' : Tree} (h : Shape t t') : KeepParents none t t' := by
  intro x w hw hf _
  obtain ⟨w', hw', e⟩ := h.some hw
  obtain ⟨e1, _, _, _, _, _, _, _, e9⟩ := noRc_fields e
  exact ⟨w', hw', by rw [e9]; exact hf, e1⟩

theorem TInv.shape {t t' : Tree} (hi : TInv t) (h : Shape t t') : TInv t' := by
  have hs := h.symm
  constructor
  · obtain ⟨w0, hw0, hf, hp⟩ := hi.root
    obtain ⟨w', hw', e⟩ := h.some hw0
    obtain ⟨e1, _, _, _, _, _, _, _, e9⟩ := noRc_fields e
    exact ⟨w', hw', by rw [e9]; exact hf, by rw [e1]; exact hp⟩
  · intro i c w' hw' hf hc
    obtain ⟨w, hw, e⟩ := hs.some hw'
    obtain ⟨_, e2, _, _, _, _, _, _, e9⟩ := noRc_fields e
    obtain ⟨cw, hcw, hcf, hcp⟩ := hi.child i c w hw (by rw [e9]; exact hf) (by rw [e2]; exact hc)
    obtain ⟨cw', hcw', ec⟩ := h.some hcw
    obtain ⟨c1, _, _, _, _, _, _, _, c9⟩ := noRc_fields ec
    exact ⟨cw', hcw', by rw [c9]; exact hcf, by rw [c1]; exact hcp⟩
  · intro c p cw' hcw' hf hp
    obtain ⟨cw, hcw, e⟩ := hs.some hcw'
    obtain ⟨e1, _, _, _, _, _, _, _, e9⟩ := noRc_fields e
    obtain ⟨pw, hpw, hpf, hpc⟩ := hi.parent c p cw hcw (by rw [e9]; exact hf) (by rw [e1]; exact hp)
    obtain ⟨pw', hpw', ep⟩ := h.some hpw
    obtain ⟨_, p2, _, _, _, _, _, _, p9⟩ := noRc_fields ep
    exact ⟨pw', hpw', by rw [p9]; exact hpf, by rw [p2]; exact hpc⟩
  · intro i f w' hw' hf hfc
    obtain ⟨w, hw, e⟩ := hs.some hw'
    obtain ⟨_, e2, e3, _, _, _, _, _, e9⟩ := noRc_fields e
    have := hi.focus i f w hw (by rw [e9]; exact hf) (by rw [e3]; exact hfc)
    rw [← e2]; exact this
  · intro i w' hw' hf
    obtain ⟨w, hw, e⟩ := hs.some hw'
    obtain ⟨_, e2, _, _, _, _, _, _, e9⟩ := noRc_fields e
    have := hi.nodup i w hw (by rw [e9]; exact hf)
    rw [← e2]; exact this
  · intro i w' hw' hf
    obtain ⟨w, hw, e⟩ := hs.some hw'
    obtain ⟨e1, _, _, _, _, _, _, _, e9⟩ := noRc_fields e
    have := hi.noself i w hw (by rw [e9]; exact hf)
    rw [← e1]; exact this
  · intro i w' hw' hf hcl
    obtain ⟨w, hw, e⟩ := hs.some hw'
    obtain ⟨e1, _, _, _, _, _, e7, _, e9⟩ := noRc_fields e
    have := hi.closed i w hw (by rw [e9]; exact hf) (by rw [e7]; exact hcl)
    rw [← e1]; exact this
  · intro c p cw' hcw' hf hp
    obtain ⟨cw, hcw, e⟩ := hs.some hcw'
    obtain ⟨e1, _, _, _, _, _, _, _, e9⟩ := noRc_fields e
    exact hi.lt c p cw hcw (by rw [e9]; exact hf) (by rw [e1]; exact hp)
  · intro i w' hw' hf
    obtain ⟨w, hw, e⟩ := hs.some hw'
    obtain ⟨_, _, _, _, e5, _, _, _, e9⟩ := noRc_fields e
    rw [← e5]; exact hi.rootflag i w hw (by rw [e9]; exact hf)
  · intro r hr
    rw [h.changes] at hr
    obtain ⟨w, hw, hf, hp, ha⟩ := hi.queue r hr
    obtain ⟨w', hw', e⟩ := h.some hw
    obtain ⟨e1, _, _, _, _, _, _, _, e9⟩ := noRc_fields e
    exact ⟨w', hw', by rw [e9]; exact hf, by rw [e1]; exact hp, ha.keep h.keepParents⟩
  · intro r hr
    rw [h.changes] at hr
    exact hi.qkind r hr

theorem DragOK.shape {t t' : Tree} (hd : DragOK t) (h : Shape t t') (hs : t'.root.dragSource = t.root.dragSource) :
    DragOK t' := by
  intro d hdd
  rw [hs] at hdd
  exact h.alive (hd d hdd)

/-- The store moved on without touching reference counts or liveness and without giving a childless window
    children. -/
structure Evolve (t t' : Tree) : Prop where
  size : t'.wins.size = t.wins.size
  win : ∀ (i : WinTree.Id) (w : Win), t.wins[i]? = some w →
    ∃ w', t'.wins[i]? = some w' ∧ w'.freed = w.freed ∧ w'.refcount = w.refcount ∧ (w.children = [] → w'.children = [])

theorem Evolve.refl (t : Tree) : Evolve t t := ⟨rfl, fun _ w h => ⟨w, h, rfl, rfl, id⟩⟩

theorem Evolve.trans {a b c : Tree} (h1 : Evolve a b) (h2 : Evolve b c) : Evolve a c := by
  refine ⟨by rw [h2.size, h1.size], ?_⟩
  intro i w hw
  obtain ⟨w1, hw1, f1, r1, c1⟩ := h1.win i w hw
  obtain ⟨w2, hw2, f2, r2, c2⟩ := h2.win i w1 hw1
  exact ⟨w2, hw2, f2.trans f1, r2.trans r1, fun h => c2 (c1 h)⟩

theorem Evolve.of_wins {t t' : Tree} (h : t'.wins = t.wins) : Evolve t t' :=
  ⟨by rw [h], fun i w hw => ⟨w, by rw [h]; exact hw, rfl, rfl, id⟩⟩

theorem Evolve.alive {t t' : Tree} (h : Evolve t t') {i : WinTree.Id} (ha : Alive t i) : Alive t' i := by
  obtain ⟨w, hw, hf⟩ := ha
  obtain ⟨w', hw', f, _, _⟩ := h.win i w hw
  exact ⟨w', hw', by rw [f]; exact hf⟩

/-- Changing one live window in everything but liveness, count and (non-)emptiness of children. -/
theorem Evolve.set {t : Tree} {i : WinTree.Id} {w w' : Win} (hw : t.wins[i]? = some w) (hf : w'.freed = w.freed)
    (hr : w'.refcount = w.refcount) (hc : w.children = [] → w'.children = []) : Evolve t (WinTree.set t i w') := by
  refine ⟨by simp, ?_⟩
  intro j x hx
  by_cases hij : i = j
  · subst hij
    rw [hw] at hx; cases hx
    exact ⟨w', wins_set_self hw, hf, hr, hc⟩
  · exact ⟨x, by rw [wins_set_ne hij]; exact hx, rfl, rfl, id⟩

/-- `TInv` looks at the windows, the restack queue and the drag source only. -/
theorem TInv.root_frame {t t' : Tree} (hi : TInv t) (hw : t'.wins = t.wins) (hc : t'.root.changes = t.root.changes)
    (_hd : t'.root.dragSource = t.root.dragSource) : TInv t' := by
  apply hi.shape
  exact ⟨hc, fun i => by rw [hw]⟩

theorem DragOK.root_frame {t t' : Tree} (hi : DragOK t) (hw : t'.wins = t.wins) (hc : t'.root.changes = t.root.changes)
    (hd : t'.root.dragSource = t.root.dragSource) : DragOK t' :=
  hi.shape ⟨hc, fun i => by rw [hw]⟩ hd

theorem DragOK.evolve {t t' : Tree} (hd : DragOK t) (h : Evolve t t') (hs : t'.root.dragSource = t.root.dragSource) :
    DragOK t' := by
  intro d hdd
  rw [hs] at hdd
  exact h.alive (hd d hdd)

/-- `tickit_window_expose` on a consistent store: it only touches the root's damage bookkeeping. -/
theorem expose_safe {t : Tree} (hi : TInv t) : ∀ (f : Nat) (i : WinTree.Id) (r : Option Rect), Alive t i →
    SafeR (expose t f i r) (fun t' => t'.wins = t.wins ∧ t'.root.changes = t.root.changes ∧
      t'.root.dragSource = t.root.dragSource) := by
  intro f
  induction f with
  | zero => intro i r _; exact Or.inl rfl
  | succ f ih =>
    intro i r ha
    obtain ⟨w, hg, hw, hf⟩ := ha.get
    unfold expose
    simp only [hg, res_bind_ok]
    split
    · exact ⟨rfl, rfl, rfl⟩
    · by_cases hv : w.isVisible = true
      · simp only [hv, Bool.not_true, Bool.false_eq_true, if_false]
        by_cases hr : w.isRoot = true
        · simp only [hr, Bool.not_true, Bool.false_eq_true, if_false]
          split
          · exact Or.inr (Or.inr (Or.inr (Or.inl rfl)))
          · exact ⟨rfl, rfl, rfl⟩
          · split
            · exact Or.inr (Or.inr (Or.inr (Or.inr rfl)))
            · exact ⟨rfl, rfl, rfl⟩
        · have hr' : w.isRoot = false := by simpa using hr
          simp only [hr', Bool.not_false, if_true]
          cases hp : w.parent with
          | none => exact ⟨rfl, rfl, rfl⟩
          | some p =>
            obtain ⟨pw, hpw, hpf, _⟩ := hi.parent i p w hw hf hp
            exact ih p _ ⟨pw, hpw, hpf⟩
      · have hv' : w.isVisible = false := by simpa using hv
        simp only [hv', Bool.not_false, if_true]
        exact ⟨rfl, rfl, rfl⟩

theorem wins_set_cases {t : Tree} {i : WinTree.Id} {w w' : Win} (hw : t.wins[i]? = some w) (j : WinTree.Id) (x : Win)
    (hx : (WinTree.set t i w').wins[j]? = some x) : (j = i ∧ x = w') ∨ (j ≠ i ∧ t.wins[j]? = some x) := by
  by_cases hij : i = j
  · subst hij
    rw [wins_set_self hw] at hx
    cases hx; exact Or.inl ⟨rfl, rfl⟩
  · rw [wins_set_ne hij] at hx
    exact Or.inr ⟨fun h => hij h.symm, hx⟩

/-- Changing a live window without touching its place in the tree keeps the store consistent. -/
theorem TInv.set_fields {t : Tree} (hi : TInv t) {i : WinTree.Id} {w w' : Win} (hw : t.wins[i]? = some w)
    (hfr : w.freed = false) (hp : w'.parent = w.parent) (hc : w'.children = w.children) (hf' : w'.freed = false)
    (hfo : ∀ f, w'.focusedChild = some f → f ∈ w'.children) (hcl : w'.isClosed = true → w'.parent = none)
    (hro : w'.isRoot = w.isRoot) : TInv (WinTree.set t i w') := by
  have hget : ∀ (j : WinTree.Id) (x : Win), t.wins[j]? = some x → x.freed = false →
      ∃ x', (WinTree.set t i w').wins[j]? = some x' ∧ x'.freed = false ∧ x'.parent = x.parent ∧ x'.children = x.children := by
    intro j x hx hxf
    by_cases hij : i = j
    · subst hij
      rw [hw] at hx; cases hx
      exact ⟨w', wins_set_self hw, hf', hp, hc⟩
    · exact ⟨x, by rw [wins_set_ne hij]; exact hx, hxf, rfl, rfl⟩
  have hback : ∀ (j : WinTree.Id) (x' : Win), (WinTree.set t i w').wins[j]? = some x' → x'.freed = false →
      ∃ x, t.wins[j]? = some x ∧ x.freed = false ∧ x'.parent = x.parent ∧ x'.children = x.children := by
    intro j x' hx' hxf
    rcases wins_set_cases hw j x' hx' with ⟨rfl, rfl⟩ | ⟨_, h⟩
    · exact ⟨w, hw, hfr, hp, hc⟩
    · exact ⟨x', h, hxf, rfl, rfl⟩
  constructor
  · obtain ⟨w0, hw0, hf0, hp0⟩ := hi.root
    obtain ⟨x', hx', hxf, hxp, _⟩ := hget 0 w0 hw0 hf0
    exact ⟨x', hx', hxf, by rw [hxp]; exact hp0⟩
  · intro j c x' hx' hxf hcm
    obtain ⟨x, hx, hxf0, _, hxc⟩ := hback j x' hx' hxf
    obtain ⟨cw, hcw, hcf, hcp⟩ := hi.child j c x hx hxf0 (by rw [← hxc]; exact hcm)
    obtain ⟨cw', hcw', hcf', hcp', _⟩ := hget c cw hcw hcf
    exact ⟨cw', hcw', hcf', by rw [hcp']; exact hcp⟩
  · intro c p cw' hcw' hcf hcp
    obtain ⟨cw, hcw, hcf0, hpp, _⟩ := hback c cw' hcw' hcf
    obtain ⟨pw, hpw, hpf, hpm⟩ := hi.parent c p cw hcw hcf0 (by rw [← hpp]; exact hcp)
    obtain ⟨pw', hpw', hpf', _, hpc'⟩ := hget p pw hpw hpf
    exact ⟨pw', hpw', hpf', by rw [hpc']; exact hpm⟩
  · intro j f x' hx' hxf hfc
    rcases wins_set_cases hw j x' hx' with ⟨rfl, rfl⟩ | ⟨_, h⟩
    · exact hfo f hfc
    · exact hi.focus j f x' h hxf hfc
  · intro j x' hx' hxf
    obtain ⟨x, hx, hxf0, _, hxc⟩ := hback j x' hx' hxf
    rw [hxc]; exact hi.nodup j x hx hxf0
  · intro j x' hx' hxf
    obtain ⟨x, hx, hxf0, hxp, _⟩ := hback j x' hx' hxf
    rw [hxp]; exact hi.noself j x hx hxf0
  · intro j x' hx' hxf hcl'
    rcases wins_set_cases hw j x' hx' with ⟨rfl, rfl⟩ | ⟨_, h⟩
    · exact hcl hcl'
    · exact hi.closed j x' h hxf hcl'
  · intro c p x' hx' hxf hpp
    obtain ⟨x, hx, hxf0, hxp, _⟩ := hback c x' hx' hxf
    exact hi.lt c p x hx hxf0 (by rw [← hxp]; exact hpp)
  · intro j x' hx' hxf
    rcases wins_set_cases hw j x' hx' with ⟨rfl, rfl⟩ | ⟨_, h⟩
    · rw [hro]; exact hi.rootflag j w hw hfr
    · exact hi.rootflag j x' h hxf
  · intro r hr
    obtain ⟨x, hx, hxf, hxp, ha⟩ := hi.queue r hr
    obtain ⟨x', hx', hxf', hxp', _⟩ := hget r.win x hx hxf
    refine ⟨x', hx', hxf', by rw [hxp']; exact hxp, ha.keep ?_⟩
    intro y yw hy hyf _
    obtain ⟨y', hy', hyf', hyp', _⟩ := hget y yw hy hyf
    exact ⟨y', hy', hyf', hyp'⟩
  · exact hi.qkind

theorem alive_set {t : Tree} {i : WinTree.Id} {w w' : Win} (hw : t.wins[i]? = some w) (hf' : w'.freed = w.freed)
    {j : WinTree.Id} (ha : Alive t j) : Alive (WinTree.set t i w') j := by
  obtain ⟨x, hx, hxf⟩ := ha
  by_cases hij : i = j
  · subst hij
    rw [hw] at hx; cases hx
    exact ⟨w', wins_set_self hw, by rw [hf']; exact hxf⟩
  · exact ⟨x, by rw [wins_set_ne hij]; exact hx, hxf⟩

theorem DragOK.set {t : Tree} (hd : DragOK t) {i : WinTree.Id} {w w' : Win} (hw : t.wins[i]? = some w)
    (hf' : w'.freed = w.freed) : DragOK (WinTree.set t i w') :=
  fun d hdd => alive_set hw hf' (hd d hdd)

/-- `modify` of a live window. -/
theorem modify_ok {t : Tree} {i : WinTree.Id} {w : Win} (hw : t.wins[i]? = some w) (hf : w.freed = false) (g : Win → Win) :
    WinTree.modify t i g = Res.ok (WinTree.set t i (g w)) := by
  unfold WinTree.modify
  rw [get_eq_ok.2 ⟨hw, hf⟩]; rfl

/-- What a store operation must deliver: a consistent store, a live drag source, nothing changed in liveness and
    reference counts. -/
structure StepOK (t t' : Tree) : Prop where
  inv : TInv t'
  drag : DragOK t'
  ev : Evolve t t'

theorem StepOK.refl {t : Tree} (hi : TInv t) (hd : DragOK t) : StepOK t t := ⟨hi, hd, Evolve.refl t⟩

theorem StepOK.trans {a b c : Tree} (h1 : StepOK a b) (h2 : StepOK b c) : StepOK a c :=
  ⟨h2.inv, h2.drag, h1.ev.trans h2.ev⟩

/-- `expose` as a step. -/
theorem expose_step {t : Tree} (hi : TInv t) (hd : DragOK t) (f : Nat) (i : WinTree.Id) (r : Option Rect) (ha : Alive t i) :
    SafeR (expose t f i r) (StepOK t) :=
  (expose_safe hi f i r ha).mono fun t' ⟨hw, hc, hdr⟩ =>
    ⟨hi.root_frame hw hc hdr, hd.root_frame hw hc hdr, Evolve.of_wins hw⟩

/-- A plain field update (visibility, steal-input, closed flag on a detached window …) as a step. -/
theorem set_step {t : Tree} (hi : TInv t) (hd : DragOK t) {i : WinTree.Id} {w w' : Win} (hw : t.wins[i]? = some w)
    (hfr : w.freed = false) (hp : w'.parent = w.parent) (hc : w'.children = w.children) (hf' : w'.freed = false)
    (hr : w'.refcount = w.refcount) (hfo : ∀ f, w'.focusedChild = some f → f ∈ w'.children)
    (hcl : w'.isClosed = true → w'.parent = none) (hro : w'.isRoot = w.isRoot := by rfl) :
    StepOK t (WinTree.set t i w') :=
  ⟨hi.set_fields hw hfr hp hc hf' hfo hcl hro, hd.set hw (by rw [hf', hfr]),
   Evolve.set hw (by rw [hf', hfr]) hr (fun h => by rw [hc]; exact h)⟩

theorem hide_safe {t : Tree} (hi : TInv t) (hd : DragOK t) (f : Nat) {win : WinTree.Id} (ha : Alive t win) :
    SafeR (WinTree.hide t f win) (StepOK t) := by
  obtain ⟨w, hw, hf⟩ := ha
  unfold WinTree.hide
  rw [modify_ok hw hf]
  simp only [res_bind_ok]
  have s1 : StepOK t (WinTree.set t win { w with isVisible := false }) :=
    set_step hi hd hw hf rfl rfl hf rfl (fun f hfc => hi.focus win f w hw hf hfc) (fun hc => hi.closed win w hw hf hc)
  have hw1 : (WinTree.set t win { w with isVisible := false }).wins[win]? = some { w with isVisible := false } :=
    wins_set_self hw
  generalize WinTree.set t win { w with isVisible := false } = t1 at s1 hw1 ⊢
  generalize hw1e : ({ w with isVisible := false } : Win) = w1 at hw1
  have hf1 : w1.freed = false := by rw [← hw1e]; exact hf
  have hp1 : w1.parent = w.parent := by rw [← hw1e]
  rw [get_eq_ok.2 ⟨hw1, hf1⟩]
  simp only [res_bind_ok]
  cases hp : w1.parent with
  | none => exact s1
  | some p =>
    simp only
    obtain ⟨pw, hpw, hpf, hpm⟩ := s1.inv.parent win p _ hw1 hf1 hp
    rw [get_eq_ok.2 ⟨hpw, hpf⟩]
    simp only [res_bind_ok]
    by_cases hfc : pw.focusedChild = some win
    · simp only [hfc, if_true]
      have s2 := set_step s1.inv s1.drag (w' := { pw with focusedChild := none }) hpw hpf rfl rfl hpf rfl
        (fun f h => by simp at h) (fun hc => s1.inv.closed p pw hpw hpf hc)
      exact (expose_step s2.inv s2.drag f p _ ⟨_, wins_set_self hpw, hpf⟩).mono fun t' h3 => (s1.trans s2).trans h3
    · simp only [hfc, if_false]
      exact (expose_step s1.inv s1.drag f p _ ⟨pw, hpw, hpf⟩).mono fun t' h3 => s1.trans h3

theorem show_safe {t : Tree} (hi : TInv t) (hd : DragOK t) (f : Nat) {win : WinTree.Id} (ha : Alive t win) :
    SafeR (WinTree.show t f win) (StepOK t) := by
  obtain ⟨w, hw, hf⟩ := ha
  unfold WinTree.show
  rw [modify_ok hw hf]
  simp only [res_bind_ok]
  have s1 : StepOK t (WinTree.set t win { w with isVisible := true }) :=
    set_step hi hd hw hf rfl rfl hf rfl (fun f hfc => hi.focus win f w hw hf hfc) (fun hc => hi.closed win w hw hf hc)
  have hw1 : (WinTree.set t win { w with isVisible := true }).wins[win]? = some { w with isVisible := true } :=
    wins_set_self hw
  generalize WinTree.set t win { w with isVisible := true } = t1 at s1 hw1 ⊢
  generalize hw1e : ({ w with isVisible := true } : Win) = w1 at hw1
  have hf1 : w1.freed = false := by rw [← hw1e]; exact hf
  rw [get_eq_ok.2 ⟨hw1, hf1⟩]
  simp only [res_bind_ok]
  have fin : ∀ t2, StepOK t t2 → Alive t2 win → SafeR (expose t2 f win none) (StepOK t) :=
    fun t2 s2 ha2 => (expose_step s2.inv s2.drag f win none ha2).mono fun t' h3 => s2.trans h3
  cases hp : w1.parent with
  | none => simp only [res_pure, res_bind_ok]; exact fin t1 s1 ⟨w1, hw1, hf1⟩
  | some p =>
    simp only
    obtain ⟨pw, hpw, hpf, hpm⟩ := s1.inv.parent win p _ hw1 hf1 hp
    rw [get_eq_ok.2 ⟨hpw, hpf⟩]
    simp only [res_bind_ok]
    split
    · simp only [res_pure, res_bind_ok]
      have s2 := set_step s1.inv s1.drag (w' := { pw with focusedChild := some win }) hpw hpf rfl rfl hpf rfl
        (fun f h => by simp only [Option.some.injEq] at h; subst h; exact hpm) (fun hc => s1.inv.closed p pw hpw hpf hc)
      exact fin _ (s1.trans s2) (alive_set (w' := { pw with focusedChild := some win }) hpw rfl ⟨w1, hw1, hf1⟩)
    · simp only [res_pure, res_bind_ok]; exact fin t1 s1 ⟨w1, hw1, hf1⟩

/-- `tickit_window_set_steal_input` and the like: one flag of one live window. -/
theorem modify_flag_safe {t : Tree} (hi : TInv t) (hd : DragOK t) {win : WinTree.Id} (ha : Alive t win) (g : Win → Win)
    (hg : ∀ w, (g w).parent = w.parent ∧ (g w).children = w.children ∧ (g w).focusedChild = w.focusedChild ∧
      (g w).freed = w.freed ∧ (g w).refcount = w.refcount ∧ (g w).isClosed = w.isClosed ∧ (g w).isRoot = w.isRoot) :
    SafeR (WinTree.modify t win g) (StepOK t) := by
  obtain ⟨w, hw, hf⟩ := ha
  rw [modify_ok hw hf]
  obtain ⟨g1, g2, g3, g4, g5, g6, g7⟩ := hg w
  exact set_step hi hd hw hf g1 g2 (by rw [g4]; exact hf) g5
    (fun f h => by rw [g2]; rw [g3] at h; exact hi.focus win f w hw hf h)
    (fun hc => by rw [g1]; rw [g6] at hc; exact hi.closed win w hw hf hc) g7

/-! ### close -/

theorem topOf_safe {t : Tree} (hi : TInv t) : ∀ (f : Nat) (i : WinTree.Id), Alive t i →
    SafeR (topOf t f i) (fun top => Alive t top) := by
  intro f
  induction f with
  | zero => intro i _; exact Or.inl rfl
  | succ f ih =>
    intro i ha
    obtain ⟨w, hg, hw, hf⟩ := ha.get
    unfold topOf
    simp only [hg, res_bind_ok]
    cases hp : w.parent with
    | none => exact ⟨w, hw, hf⟩
    | some p =>
      obtain ⟨pw, hpw, hpf, _⟩ := hi.parent i p w hw hf hp
      exact ih p ⟨pw, hpw, hpf⟩

/-- Same windows, fewer (or the same) queued requests. -/
theorem TInv.queue_sub {t t' : Tree} (hi : TInv t) (hw : t'.wins = t.wins)
    (hq : ∀ r ∈ t'.root.changes, r ∈ t.root.changes) : TInv t' := by
  have e : ∀ (i : WinTree.Id), t'.wins[i]? = t.wins[i]? := fun i => by rw [hw]
  have kp : KeepParents none t t' := fun x w hx hf _ => ⟨w, by rw [e]; exact hx, hf, rfl⟩
  constructor
  · obtain ⟨w0, h0, h1, h2⟩ := hi.root; exact ⟨w0, by rw [e]; exact h0, h1, h2⟩
  · intro i c w h1 h2 h3
    rw [e] at h1
    obtain ⟨cw, a, b, c'⟩ := hi.child i c w h1 h2 h3
    exact ⟨cw, by rw [e]; exact a, b, c'⟩
  · intro c p cw h1 h2 h3
    rw [e] at h1
    obtain ⟨pw, a, b, c'⟩ := hi.parent c p cw h1 h2 h3
    exact ⟨pw, by rw [e]; exact a, b, c'⟩
  · intro i f w h1 h2 h3; rw [e] at h1; exact hi.focus i f w h1 h2 h3
  · intro i w h1 h2; rw [e] at h1; exact hi.nodup i w h1 h2
  · intro i w h1 h2; rw [e] at h1; exact hi.noself i w h1 h2
  · intro i w h1 h2 h3; rw [e] at h1; exact hi.closed i w h1 h2 h3
  · intro c p cw h1 h2 h3; rw [e] at h1; exact hi.lt c p cw h1 h2 h3
  · intro i w h1 h2; rw [e] at h1; exact hi.rootflag i w h1 h2
  · intro r hr
    obtain ⟨w, a, b, c, d⟩ := hi.queue r (hq r hr)
    exact ⟨w, by rw [e]; exact a, b, c, d.keep kp⟩
  · intro r hr
    exact hi.qkind r (hq r hr)

/-- A window with no parent that hangs below the root is the root. -/
theorem Att.top {t : Tree} {x : WinTree.Id} {w : Win} (ha : Att t x) (hw : t.wins[x]? = some w) (hp : w.parent = none) : x = 0 := by
  cases ha with
  | root => rfl
  | step hw' _ hp' _ => rw [hw] at hw'; cases hw'; rw [hp] at hp'; cases hp'

theorem Att.parent {t : Tree} {x p : WinTree.Id} {w : Win} (hi : TInv t) (ha : Att t x) (hw : t.wins[x]? = some w)
    (hp : w.parent = some p) : Att t p := by
  cases ha with
  | root =>
    obtain ⟨w0, h0, _, hp0⟩ := hi.root
    rw [hw] at h0; cases h0; rw [hp] at hp0; cases hp0
  | step hw' _ hp' ha' => rw [hw] at hw'; cases hw'; rw [hp] at hp'; cases hp'; exact ha'

/-- What lies below `a` and hangs below the root: then so does `a`. -/
theorem Att.of_within {t : Tree} (hi : TInv t) {a x : WinTree.Id} (hwi : Within t a x) (ha : Att t x) : Att t a := by
  induction hwi with
  | self => exact ha
  | step hw hp _ ih => exact ih (ha.parent hi hw hp)

theorem topOf_att {t : Tree} (hi : TInv t) : ∀ (f : Nat) (x top : WinTree.Id), topOf t f x = Res.ok top → Att t x → top = 0 := by
  intro f
  induction f with
  | zero => intro x top h; simp [topOf] at h
  | succ f ih =>
    intro x top h ha
    unfold topOf at h
    obtain ⟨w, hg, h⟩ := res_bind_eq_ok.1 h
    obtain ⟨hw, _⟩ := get_eq_ok.1 hg
    cases hp : w.parent with
    | none => simp only [hp, res_pure, Res.ok.injEq] at h; subst h; exact ha.top hw hp
    | some p => simp only [hp] at h; exact ih p top h (ha.parent hi hw hp)

theorem isWithin_complete {t : Tree} (hi : TInv t) {a : WinTree.Id} : ∀ {x : WinTree.Id}, Within t a x → ∀ (f : Nat),
    Alive t x → x < f → isWithin t f a x = true := by
  intro x hwi
  induction hwi with
  | self => intro f _ hlt; cases f with
    | zero => cases hlt
    | succ f => simp [isWithin]
  | @step x p w hw hp _ ih =>
    intro f hal hlt
    cases f with
    | zero => cases hlt
    | succ f =>
      unfold isWithin
      by_cases hxa : x = a
      · simp [hxa]
      · obtain ⟨w2, hw2, hf2⟩ := hal
        rw [hw] at hw2; cases hw2
        simp only [hxa, if_false, hw, hp]
        obtain ⟨pw, hpw, hpf, _⟩ := hi.parent x p w hw hf2 hp
        have hlt' := hi.lt x p w hw hf2 hp
        exact ih f ⟨pw, hpw, hpf⟩ (Nat.lt_of_lt_of_le hlt' (Nat.le_of_lt_succ hlt))

theorem chk_ok {t : Tree} : ∀ (l : List Req), (∀ r ∈ l, Alive t r.win) → purgeHierarchyChanges.chk t l = Res.ok () := by
  intro l
  induction l with
  | nil => intro _; rfl
  | cons r rest ih =>
    intro h
    obtain ⟨w, hg, _, _⟩ := (h r (List.mem_cons_self ..)).get
    simp only [purgeHierarchyChanges.chk, hg, res_bind_ok]
    exact ih (fun r' hr' => h r' (List.mem_cons_of_mem _ hr'))

/-- `_purge_hierarchy_changes`: afterwards no queued request names `win` or a window below it. -/
theorem purge_safe {t : Tree} (hi : TInv t) (hd : DragOK t) (f : Nat) (hfu : t.wins.size ≤ f) {win : WinTree.Id}
    (ha : Alive t win) :
    SafeR (purgeHierarchyChanges t f win) (fun t' => StepOK t t' ∧ t'.wins = t.wins ∧
      ∀ r ∈ t'.root.changes, ¬ Within t win r.win) := by
  unfold purgeHierarchyChanges
  have hsafe := topOf_safe hi f win ha
  cases htop : topOf t f win with
  | ub w => rw [htop] at hsafe; exact hsafe
  | ok top =>
    rw [htop] at hsafe
    simp only [res_bind_ok]
    obtain ⟨tw, hg, htw, htf⟩ := (hsafe : Alive t top).get
    simp only [hg, res_bind_ok]
    by_cases hr : tw.isRoot = true
    · simp only [hr, Bool.not_true, Bool.false_eq_true, if_false]
      rw [chk_ok _ (fun r hr' => by obtain ⟨w, a, b, _, _⟩ := hi.queue r hr'; exact ⟨w, a, b⟩)]
      simp only [res_bind_ok, res_pure]
      refine ⟨⟨hi.queue_sub rfl (fun r hr' => (List.mem_filter.1 hr').1), fun d hd' => hd d hd', Evolve.of_wins rfl⟩, rfl, ?_⟩
      intro r hrq hwi
      obtain ⟨hmem, hnot⟩ := List.mem_filter.1 hrq
      obtain ⟨w, hw, hf, _, _⟩ := hi.queue r hmem
      have hlt : r.win < f := Nat.lt_of_lt_of_le (Array.getElem?_eq_some_iff.1 hw).1 hfu
      have := isWithin_complete hi hwi f ⟨w, hw, hf⟩ hlt
      rw [this] at hnot; cases hnot
    · have hr' : tw.isRoot = false := by simpa using hr
      simp only [hr', Bool.not_false, if_true]
      refine ⟨StepOK.refl hi hd, rfl, ?_⟩
      intro r hrq hwi
      obtain ⟨w, _, _, _, hatt⟩ := hi.queue r hrq
      have := topOf_att hi f win top htop (Att.of_within hi hwi hatt)
      subst this
      have := (hi.rootflag 0 tw htw htf).2 rfl
      rw [hr'] at this; cases this

/-- The parent's record after `_do_hierarchy_remove` and the focus-pointer reset of REMOVE. -/
def unlinkChild (pw : Win) (win : WinTree.Id) : Win :=
  { pw with children := pw.children.erase win, focusedChild := if pw.focusedChild = some win then none else pw.focusedChild }

/-- Unlinking `win` from its parent `p` (`_do_hierarchy_remove` + `win->parent = NULL` + the focus pointer). -/
theorem remove_step {t : Tree} (hi : TInv t) (hd : DragOK t) {win p : WinTree.Id} {w pw : Win}
    (hw : t.wins[win]? = some w) (hf : w.freed = false) (hp : w.parent = some p)
    (hpw : t.wins[p]? = some pw) (hpf : pw.freed = false) (hqw : ∀ r ∈ t.root.changes, ¬ Within t win r.win) :
    StepOK t (WinTree.set (WinTree.set t p (unlinkChild pw win)) win { w with parent := none }) := by
  have hne : p ≠ win := fun h => hi.noself win w hw hf (by rw [hp, h])
  generalize hPW : unlinkChild pw win = PW
  unfold unlinkChild at hPW
  generalize hW2 : ({ w with parent := none } : Win) = W2
  have hw1 : (WinTree.set t p PW).wins[win]? = some w := by rw [wins_set_ne hne]; exact hw
  -- lookups in the new store
  have look : ∀ (j : WinTree.Id) (x : Win), (WinTree.set (WinTree.set t p PW) win W2).wins[j]? = some x →
      (j = win ∧ x = W2) ∨ (j = p ∧ x = PW) ∨ (j ≠ win ∧ j ≠ p ∧ t.wins[j]? = some x) := by
    intro j x hx
    rcases wins_set_cases hw1 j x hx with ⟨rfl, rfl⟩ | ⟨h1, h2⟩
    · exact Or.inl ⟨rfl, rfl⟩
    · rcases wins_set_cases hpw j x h2 with ⟨rfl, rfl⟩ | ⟨h3, h4⟩
      · exact Or.inr (Or.inl ⟨rfl, rfl⟩)
      · exact Or.inr (Or.inr ⟨h1, h3, h4⟩)
  have atWin : (WinTree.set (WinTree.set t p PW) win W2).wins[win]? = some W2 := wins_set_self hw1
  have atP : (WinTree.set (WinTree.set t p PW) win W2).wins[p]? = some PW := by
    rw [wins_set_ne (fun h => hne h.symm)]; exact wins_set_self hpw
  have atOther : ∀ j, j ≠ win → j ≠ p → (WinTree.set (WinTree.set t p PW) win W2).wins[j]? = t.wins[j]? := by
    intro j h1 h2
    rw [wins_set_ne (fun h => h1 h.symm), wins_set_ne (fun h => h2 h.symm)]
  have W2f : W2.freed = false := by rw [← hW2]; exact hf
  have W2p : W2.parent = none := by rw [← hW2]
  have W2c : W2.children = w.children := by rw [← hW2]
  have W2fo : W2.focusedChild = w.focusedChild := by rw [← hW2]
  have PWf : PW.freed = false := by rw [← hPW]; exact hpf
  have PWp : PW.parent = pw.parent := by rw [← hPW]
  have PWc : PW.children = pw.children.erase win := by rw [← hPW]
  have PWcl : PW.isClosed = pw.isClosed := by rw [← hPW]
  have PWr : PW.isRoot = pw.isRoot := by rw [← hPW]
  have W2r : W2.isRoot = w.isRoot := by rw [← hW2]
  have hnd := hi.nodup p pw hpw hpf
  -- every window that was alive still is, with the same parent unless it is `win`
  have alive' : ∀ (j : WinTree.Id) (x : Win), t.wins[j]? = some x → x.freed = false →
      ∃ x', (WinTree.set (WinTree.set t p PW) win W2).wins[j]? = some x' ∧ x'.freed = false ∧
        (j ≠ win → x'.parent = x.parent) ∧ (j ≠ p → x'.children = x.children) := by
    intro j x hx hxf
    by_cases h1 : j = win
    · subst h1; rw [hw] at hx; cases hx
      exact ⟨W2, atWin, W2f, fun h => absurd rfl h, fun _ => W2c⟩
    · by_cases h2 : j = p
      · subst h2; rw [hpw] at hx; cases hx
        exact ⟨PW, atP, PWf, fun _ => PWp, fun h => absurd rfl h⟩
      · exact ⟨x, by rw [atOther j h1 h2]; exact hx, hxf, fun _ => rfl, fun _ => rfl⟩
  refine ⟨?_, ?_, ?_⟩
  · constructor
    · obtain ⟨w0, hw0, hf0, hp0⟩ := hi.root
      have h0 : (0 : WinTree.Id) ≠ win := by
        intro h; rw [← h] at hw; rw [hw0] at hw; cases hw; rw [hp0] at hp; cases hp
      obtain ⟨x', hx', hxf, hxp, _⟩ := alive' 0 w0 hw0 hf0
      exact ⟨x', hx', hxf, by rw [hxp h0]; exact hp0⟩
    · intro i c x hx hxf hc
      rcases look i x hx with ⟨rfl, rfl⟩ | ⟨rfl, rfl⟩ | ⟨h1, h2, h3⟩
      · rw [W2c] at hc
        obtain ⟨cw, hcw, hcf, hcp⟩ := hi.child i c w hw hf hc
        have hci : c ≠ i := by
          intro h; subst h
          rw [hw] at hcw; cases hcw
          exact hi.noself c w hw hf hcp
        obtain ⟨x', hx', hxf', hxp, _⟩ := alive' c cw hcw hcf
        exact ⟨x', hx', hxf', by rw [hxp hci]; exact hcp⟩
      · rw [PWc] at hc
        obtain ⟨hcne, hcm⟩ := (List.Nodup.mem_erase_iff hnd).1 hc
        obtain ⟨cw, hcw, hcf, hcp⟩ := hi.child i c pw hpw hpf hcm
        obtain ⟨x', hx', hxf', hxp, _⟩ := alive' c cw hcw hcf
        exact ⟨x', hx', hxf', by rw [hxp hcne]; exact hcp⟩
      · obtain ⟨cw, hcw, hcf, hcp⟩ := hi.child i c x h3 hxf hc
        have hcne : c ≠ win := by
          intro h; rw [h] at hcw; rw [hw] at hcw; cases hcw; rw [hp] at hcp; cases hcp; exact h2 rfl
        obtain ⟨x', hx', hxf', hxp, _⟩ := alive' c cw hcw hcf
        exact ⟨x', hx', hxf', by rw [hxp hcne]; exact hcp⟩
    · intro c q x hx hxf hq
      rcases look c x hx with ⟨rfl, rfl⟩ | ⟨rfl, rfl⟩ | ⟨h1, h2, h3⟩
      · rw [W2p] at hq; cases hq
      · rw [PWp] at hq
        obtain ⟨qw, hqw, hqf, hqm⟩ := hi.parent c q pw hpw hpf hq
        have hqc : q ≠ c := fun h => hi.noself c pw hpw hpf (by rw [hq, h])
        obtain ⟨x', hx', hxf', _, hxc⟩ := alive' q qw hqw hqf
        exact ⟨x', hx', hxf', by rw [hxc hqc]; exact hqm⟩
      · obtain ⟨qw, hqw, hqf, hqm⟩ := hi.parent c q x h3 hxf hq
        by_cases hqp : q = p
        · subst hqp; rw [hpw] at hqw; cases hqw
          exact ⟨PW, atP, PWf, by rw [PWc]; exact (List.mem_erase_of_ne h1).2 hqm⟩
        · obtain ⟨x', hx', hxf', _, hxc⟩ := alive' q qw hqw hqf
          exact ⟨x', hx', hxf', by rw [hxc hqp]; exact hqm⟩
    · intro i f x hx hxf hfc
      rcases look i x hx with ⟨rfl, rfl⟩ | ⟨rfl, rfl⟩ | ⟨h1, h2, h3⟩
      · rw [W2c]; rw [W2fo] at hfc; exact hi.focus i f w hw hf hfc
      · rw [PWc]
        have : (if pw.focusedChild = some win then none else pw.focusedChild) = some f := by rw [← hPW] at hfc; exact hfc
        by_cases hfw : pw.focusedChild = some win
        · simp [hfw] at this
        · simp only [hfw, if_false] at this
          have hfne : f ≠ win := fun h => hfw (by rw [this, h])
          exact (List.mem_erase_of_ne hfne).2 (hi.focus i f pw hpw hpf this)
      · exact hi.focus i f x h3 hxf hfc
    · intro i x hx hxf
      rcases look i x hx with ⟨rfl, rfl⟩ | ⟨rfl, rfl⟩ | ⟨h1, h2, h3⟩
      · rw [W2c]; exact hi.nodup i w hw hf
      · rw [PWc]; exact hnd.erase win
      · exact hi.nodup i x h3 hxf
    · intro i x hx hxf
      rcases look i x hx with ⟨rfl, rfl⟩ | ⟨rfl, rfl⟩ | ⟨h1, h2, h3⟩
      · rw [W2p]; simp
      · rw [PWp]; exact hi.noself i pw hpw hpf
      · exact hi.noself i x h3 hxf
    · intro i x hx hxf hcl
      rcases look i x hx with ⟨rfl, rfl⟩ | ⟨rfl, rfl⟩ | ⟨h1, h2, h3⟩
      · exact W2p
      · rw [PWp]; rw [PWcl] at hcl; exact hi.closed i pw hpw hpf hcl
      · exact hi.closed i x h3 hxf hcl
    · intro c q x hx hxf hq'
      rcases look c x hx with ⟨rfl, rfl⟩ | ⟨rfl, rfl⟩ | ⟨h1, h2, h3⟩
      · rw [W2p] at hq'; cases hq'
      · rw [PWp] at hq'; exact hi.lt c q pw hpw hpf hq'
      · exact hi.lt c q x h3 hxf hq'
    · intro i x hx hxf
      rcases look i x hx with ⟨rfl, rfl⟩ | ⟨rfl, rfl⟩ | ⟨h1, h2, h3⟩
      · rw [W2r]; exact hi.rootflag i w hw hf
      · rw [PWr]; exact hi.rootflag i pw hpw hpf
      · exact hi.rootflag i x h3 hxf
    · intro r hr
      have hr0 : r ∈ t.root.changes := hr
      obtain ⟨x, hx, hxf, hxp, ha⟩ := hi.queue r hr0
      have hrw : r.win ≠ win := fun h => hqw r hr0 (h ▸ Within.self)
      obtain ⟨x', hx', hxf', hxp', _⟩ := alive' r.win x hx hxf
      refine ⟨x', hx', hxf', by rw [hxp' hrw]; exact hxp, ha.keep_outside ?_ (hqw r hr0)⟩
      intro y yw hy hyf hne
      obtain ⟨y', a, b, c, _⟩ := alive' y yw hy hyf
      exact ⟨y', a, b, c (by simpa using hne)⟩
    · exact hi.qkind
  · intro d hdd
    obtain ⟨x, hx, hxf⟩ := hd d hdd
    obtain ⟨x', hx', hxf', _, _⟩ := alive' d x hx hxf
    exact ⟨x', hx', hxf'⟩
  · have e1 : Evolve t (WinTree.set t p PW) :=
      Evolve.set hpw (by rw [PWf, hpf]) (by rw [← hPW]) (fun h => by rw [PWc, h]; rfl)
    have e2 : Evolve (WinTree.set t p PW) (WinTree.set (WinTree.set t p PW) win W2) :=
      Evolve.set hw1 (by rw [W2f, hf]) (by rw [← hW2]) (fun h => by rw [W2c]; exact h)
    exact e1.trans e2

/-- What `close` leaves of the window itself: alive, detached, same children. -/
def Detached (t : Tree) (win : WinTree.Id) (w : Win) : Prop :=
  ∃ w', t.wins[win]? = some w' ∧ w'.freed = false ∧ w'.parent = none ∧ w'.children = w.children ∧ w'.refcount = w.refcount

theorem doRemove_safe {t : Tree} (hi : TInv t) (hd : DragOK t) (f : Nat) {win p : WinTree.Id} {w : Win}
    (hw : t.wins[win]? = some w) (hf : w.freed = false) (hp : w.parent = some p)
    (hq : ∀ r ∈ t.root.changes, ¬ Within t win r.win) :
    SafeR (doHierarchyChange t f .remove p win) (fun t' => StepOK t t' ∧
      t'.wins[win]? = some { w with parent := none }) := by
  obtain ⟨pw, hpw, hpf, hpm⟩ := hi.parent win p w hw hf hp
  have hne : p ≠ win := fun h => hi.noself win w hw hf (by rw [hp, h])
  unfold doHierarchyChange
  simp only [get_eq_ok.2 ⟨hpw, hpf⟩, get_eq_ok.2 ⟨hw, hf⟩, res_bind_ok]
  have hcont : pw.children.contains win = true := by simpa using hpm
  simp only [listRemove, hcont, if_true, res_bind_ok]
  have hw1 : (WinTree.set t p (unlinkChild pw win)).wins[win]? = some w := by rw [wins_set_ne hne]; exact hw
  have hg1 : WinTree.get (WinTree.set t p (unlinkChild pw win)) win = Res.ok w := get_eq_ok.2 ⟨hw1, hf⟩
  unfold unlinkChild at hg1
  simp only [hg1, res_bind_ok, res_pure]
  have st := remove_step hi hd hw hf hp hpw hpf hq
  have hfin : (WinTree.set (WinTree.set t p (unlinkChild pw win)) win { w with parent := none }).wins[win]? =
      some { w with parent := none } := wins_set_self hw1
  have hap : Alive (WinTree.set (WinTree.set t p (unlinkChild pw win)) win { w with parent := none }) p :=
    st.ev.alive ⟨pw, hpw, hpf⟩
  unfold unlinkChild at st hfin hap
  by_cases hv : w.isVisible = true
  · rw [if_pos hv]
    refine (expose_safe st.inv f p _ hap).mono ?_
    intro t' ⟨e1, e2, e3⟩
    exact ⟨st.trans ⟨st.inv.root_frame e1 e2 e3, st.drag.root_frame e1 e2 e3, Evolve.of_wins e1⟩, by rw [e1]; exact hfin⟩
  · rw [if_neg hv]
    exact ⟨st, hfin⟩

/-- `tickit_window_close`. -/
theorem close_safe {t : Tree} (hi : TInv t) (hd : DragOK t) (f : Nat) (hfu : t.wins.size ≤ f) {win : WinTree.Id} {w : Win}
    (hw : t.wins[win]? = some w) (hf : w.freed = false) :
    SafeR (WinTree.close t f win) (fun t' => StepOK t t' ∧ Detached t' win w) := by
  unfold WinTree.close
  simp only [get_eq_ok.2 ⟨hw, hf⟩, res_bind_ok]
  cases hp : w.parent with
  | none =>
    simp only [res_pure, res_bind_ok]
    rw [modify_ok hw hf]
    refine ⟨set_step hi hd hw hf rfl rfl hf rfl (fun f h => hi.focus win f w hw hf h) (fun _ => hp), ?_⟩
    exact ⟨_, wins_set_self hw, hf, hp, rfl, rfl⟩
  | some p =>
    simp only
    apply SafeR.bind (purge_safe hi hd f hfu ⟨w, hw, hf⟩)
    intro t1 ⟨s1, e1, hq1⟩
    have hq1' : ∀ r ∈ t1.root.changes, ¬ Within t1 win r.win := fun r hr hwi => hq1 r hr (hwi.of_wins e1)
    apply SafeR.bind (doRemove_safe s1.inv s1.drag f (by rw [e1]; exact hw) hf hp hq1')
    intro t2 ⟨s2, hw2⟩
    generalize hW2 : ({ w with parent := none } : Win) = W2 at hw2
    have W2f : W2.freed = false := by rw [← hW2]; exact hf
    have W2p : W2.parent = none := by rw [← hW2]
    have W2c : W2.children = w.children := by rw [← hW2]
    have W2r : W2.refcount = w.refcount := by rw [← hW2]
    rw [modify_ok hw2 W2f]
    refine ⟨(s1.trans s2).trans (set_step s2.inv s2.drag hw2 W2f rfl rfl W2f rfl
      (fun f h => s2.inv.focus win f W2 hw2 W2f h) (fun _ => W2p)), ?_⟩
    exact ⟨_, wins_set_self hw2, W2f, W2p, W2c, W2r⟩

/-! ### unref and destroy -/

theorem shape_set_rc {t : Tree} {i : WinTree.Id} {w : Win} (hw : t.wins[i]? = some w) (k : Int) :
    Shape t (WinTree.set t i { w with refcount := k }) := by
  refine ⟨rfl, ?_⟩
  intro j
  by_cases hij : i = j
  · subst hij; rw [wins_set_self hw, hw]; rfl
  · rw [wins_set_ne hij]

/-- Freeing a detached, childless window other than the root. -/
theorem TInv.free {t : Tree} (hi : TInv t) {c : WinTree.Id} {w w' : Win} (hw : t.wins[c]? = some w) (hf : w.freed = false)
    (hp : w.parent = none) (hch : w.children = []) (hc0 : c ≠ 0) (hf' : w'.freed = true) :
    TInv (WinTree.set t c w') := by
  have other : ∀ (j : WinTree.Id) (x : Win), (WinTree.set t c w').wins[j]? = some x → x.freed = false →
      j ≠ c ∧ t.wins[j]? = some x := by
    intro j x hx hxf
    rcases wins_set_cases hw j x hx with ⟨rfl, rfl⟩ | ⟨h1, h2⟩
    · rw [hf'] at hxf; cases hxf
    · exact ⟨h1, h2⟩
  have keep : ∀ (j : WinTree.Id) (x : Win), j ≠ c → t.wins[j]? = some x → (WinTree.set t c w').wins[j]? = some x :=
    fun j x hj hx => by rw [wins_set_ne (fun h => hj h.symm)]; exact hx
  constructor
  · obtain ⟨w0, hw0, hf0, hp0⟩ := hi.root
    exact ⟨w0, keep 0 w0 (fun h => hc0 h.symm) hw0, hf0, hp0⟩
  · intro i k x hx hxf hk
    obtain ⟨_, hx0⟩ := other i x hx hxf
    obtain ⟨cw, hcw, hcf, hcp⟩ := hi.child i k x hx0 hxf hk
    have hkc : k ≠ c := by
      intro h; subst h; rw [hw] at hcw; cases hcw; rw [hp] at hcp; cases hcp
    exact ⟨cw, keep k cw hkc hcw, hcf, hcp⟩
  · intro k q x hx hxf hq
    obtain ⟨_, hx0⟩ := other k x hx hxf
    obtain ⟨qw, hqw, hqf, hqm⟩ := hi.parent k q x hx0 hxf hq
    have hqc : q ≠ c := by
      intro h; subst h; rw [hw] at hqw; cases hqw; rw [hch] at hqm; cases hqm
    exact ⟨qw, keep q qw hqc hqw, hqf, hqm⟩
  · intro i f x hx hxf hfc
    exact hi.focus i f x (other i x hx hxf).2 hxf hfc
  · intro i x hx hxf
    exact hi.nodup i x (other i x hx hxf).2 hxf
  · intro i x hx hxf
    exact hi.noself i x (other i x hx hxf).2 hxf
  · intro i x hx hxf hcl
    exact hi.closed i x (other i x hx hxf).2 hxf hcl
  · intro k q x hx hxf hq
    exact hi.lt k q x (other k x hx hxf).2 hxf hq
  · intro i x hx hxf
    exact hi.rootflag i x (other i x hx hxf).2 hxf
  · intro r hr
    have hr0 : r ∈ t.root.changes := hr
    obtain ⟨x, hx, hxf, hxp, ha⟩ := hi.queue r hr0
    have hrc : r.win ≠ c := by
      intro h; rw [h, hw] at hx; cases hx; rw [hp] at hxp; cases hxp
    refine ⟨x, keep r.win x hrc hx, hxf, hxp, ha.keep_leaf ?_ ?_ hrc⟩
    · intro y yw hy hyf hne
      exact ⟨yw, keep y yw (by simpa using hne) hy, hyf, rfl⟩
    · intro y yw hy hyf hyp
      obtain ⟨qw, hqw, _, hqm⟩ := hi.parent y c yw hy hyf hyp
      rw [hw] at hqw; cases hqw; rw [hch] at hqm; cases hqm
  · exact hi.qkind

theorem normalizeDrag_ok (t : Tree) : DragOK (normalizeDrag t) ∧ (normalizeDrag t).wins = t.wins ∧
    (normalizeDrag t).root.changes = t.root.changes := by
  unfold normalizeDrag
  cases hd : t.root.dragSource with
  | none => exact ⟨fun d h => (by rw [hd] at h; cases h), rfl, rfl⟩
  | some d =>
    simp only
    by_cases hc : (isAlive t d && isWithin t (treeFuel t) 0 d) = true
    · rw [if_pos hc]
      refine ⟨fun d' h => ?_, rfl, rfl⟩
      rw [hd] at h; cases h
      simp only [Bool.and_eq_true] at hc
      have := hc.1
      unfold isAlive at this
      cases hw : t.wins[d]? with
      | none => simp [hw] at this
      | some w => simp only [hw] at this; exact ⟨w, hw, by simpa using this⟩
    · rw [if_neg hc]
      exact ⟨fun d' h => (by simp at h), rfl, rfl⟩

theorem TInv.normalizeDrag {t : Tree} (hi : TInv t) : TInv (normalizeDrag t) := by
  obtain ⟨_, hw, hc⟩ := normalizeDrag_ok t
  exact hi.shape ⟨hc, fun i => by rw [hw]⟩

/-- Every window but `c` kept its liveness, its count and the (non-)emptiness of its children. -/
structure KeepOthers (c : WinTree.Id) (t t' : Tree) : Prop where
  size : t'.wins.size = t.wins.size
  win : ∀ (j : WinTree.Id) (x : Win), j ≠ c → t.wins[j]? = some x →
    ∃ x', t'.wins[j]? = some x' ∧ x'.freed = x.freed ∧ x'.refcount = x.refcount ∧ (x.children = [] → x'.children = [])

theorem Evolve.keepOthers {t t' : Tree} (h : Evolve t t') (c : WinTree.Id) : KeepOthers c t t' :=
  ⟨h.size, fun j x _ hx => h.win j x hx⟩

theorem KeepOthers.trans {c : WinTree.Id} {a b d : Tree} (h1 : KeepOthers c a b) (h2 : KeepOthers c b d) : KeepOthers c a d := by
  refine ⟨by rw [h2.size, h1.size], ?_⟩
  intro j x hj hx
  obtain ⟨x1, hx1, f1, r1, c1⟩ := h1.win j x hj hx
  obtain ⟨x2, hx2, f2, r2, c2⟩ := h2.win j x1 hj hx1
  exact ⟨x2, hx2, f2.trans f1, r2.trans r1, fun h => c2 (c1 h)⟩

theorem KeepOthers.set (t : Tree) (c : WinTree.Id) (w' : Win) : KeepOthers c t (WinTree.set t c w') :=
  ⟨by simp, fun j x hj hx => ⟨x, by rw [wins_set_ne (fun h => hj h.symm)]; exact hx, rfl, rfl, id⟩⟩

theorem KeepOthers.of_wins {c : WinTree.Id} {t t' : Tree} (h : t'.wins = t.wins) : KeepOthers c t t' :=
  (Evolve.of_wins h).keepOthers c

/-- The shape the elaborator gives `let t ← if c then x else pure a; f t`. -/
theorem ite_bind_pure {α β : Type} {c : Prop} [Decidable c] (x : Res α) (a : α) (f : α → Res β) :
    (if c then x >>= f else f a) = ((if c then x else Res.ok a) >>= f) := by
  split <;> rfl

theorem SafeR.ite {α : Type} {c : Prop} [Decidable c] {x y : Res α} {Q : α → Prop} (h1 : c → SafeR x Q)
    (h2 : ¬ c → SafeR y Q) : SafeR (if c then x else y) Q := by
  split
  · exact h1 ‹_›
  · exact h2 ‹_›

/-- `tickit_window_destroy` of a childless window other than the root, on a consistent store. -/
theorem destroy_safe {t : Tree} (hi : TInv t) (m : Nat) {c : WinTree.Id} {w : Win} (hw : t.wins[c]? = some w)
    (hf : w.freed = false) (hch : w.children = []) (hc0 : c ≠ 0) (hd : DragOK t) (hm : t.wins.size ≤ m + 1) :
    SafeR (WinTree.destroy (fun t _ => pure t) (m + 1) t c) (fun t' => TInv t' ∧ KeepOthers c t t' ∧
      ∃ w', t'.wins[c]? = some w' ∧ w'.freed = true) := by
  rw [WinTree.destroy]
  simp only [res_pure, res_bind_ok]
  apply SafeR.bind (safeR_get ⟨w, hw, hf⟩)
  intro wa ⟨hwa, _⟩
  rw [hw] at hwa; cases hwa
  simp only [hch, WinTree.destroyChildren, res_pure, res_bind_ok]
  apply SafeR.bind (safeR_get ⟨w, hw, hf⟩)
  intro wb ⟨hwb, _⟩
  rw [hw] at hwb; cases hwb
  -- purge
  rw [ite_bind_pure]
  apply SafeR.bind (Q := fun t1 => StepOK t t1 ∧ t1.wins = t.wins)
  · exact SafeR.ite (fun _ => (purge_safe hi hd _ hm ⟨w, hw, hf⟩).mono fun _ h => ⟨h.1, h.2.1⟩)
      (fun _ => ⟨StepOK.refl hi hd, rfl⟩)
  intro t1 ⟨s1, e1⟩
  have hw1 : t1.wins[c]? = some w := by rw [e1]; exact hw
  apply SafeR.bind (safeR_get ⟨w, hw1, hf⟩)
  intro wc ⟨hwc, _⟩
  rw [hw1] at hwc; cases hwc
  -- close
  rw [ite_bind_pure]
  apply SafeR.bind (Q := fun t2 => StepOK t t2 ∧ Detached t2 c w)
  · refine SafeR.ite (fun _ => ?_) (fun hcl => ?_)
    · exact (close_safe s1.inv s1.drag _ (by rw [e1]; exact hm) hw1 hf).mono fun t2 ⟨s2, d2⟩ => ⟨s1.trans s2, d2⟩
    · have hcl' : w.isClosed = true := by simpa using hcl
      exact ⟨s1, w, hw1, hf, hi.closed c w hw hf hcl', rfl, rfl⟩
  intro t2 ⟨s2, w2, hw2, hf2, hp2, hc2, _⟩
  simp only [get_eq_ok.2 ⟨hw2, hf2⟩, res_bind_ok]
  -- root cleanup (nothing is queued) and free
  have fin : ∀ t3 : Tree, t3.wins = t2.wins → t3.root.changes = t2.root.changes →
      TInv (WinTree.set t3 c { w2 with freed := true }) ∧ KeepOthers c t (WinTree.set t3 c { w2 with freed := true }) ∧
      ∃ w', (WinTree.set t3 c { w2 with freed := true }).wins[c]? = some w' ∧ w'.freed = true := by
    intro t3 e3 q3
    have hi3 : TInv t3 := s2.inv.shape ⟨q3, fun i => by rw [e3]⟩
    have hw3 : t3.wins[c]? = some w2 := by rw [e3]; exact hw2
    refine ⟨hi3.free hw3 hf2 hp2 (by rw [hc2, hch]) hc0 rfl, ?_, _, wins_set_self hw3, rfl⟩
    exact ((s2.ev.keepOthers c).trans (KeepOthers.of_wins e3)).trans (KeepOthers.set t3 c _)
  by_cases hr : w2.isRoot = true
  · exact absurd ((s2.inv.rootflag c w2 hw2 hf2).1 hr) hc0
  · rw [if_neg hr]
    exact SafeR.ok (fin t2 rfl rfl)

/-- `tickit_window_unref` as the routing and the application use it: the count is at least one; the window goes
    only when that was the last reference, and then it is childless and not the root. -/
theorem unref_core {st : St} (hi : TInv st.tree) (hd : DragOK st.tree) {c : WinTree.Id} {w : Win}
    (hw : st.tree.wins[c]? = some w) (hf : w.freed = false) (h1 : 1 ≤ w.refcount)
    (hlast : w.refcount = 1 → w.children = [] ∧ c ≠ 0) :
    SafeR (unrefLogged st c) (fun st' => st'.binds = st.binds ∧ st'.owned = st.owned ∧ TInv st'.tree ∧
      DragOK st'.tree ∧ KeepOthers c st.tree st'.tree ∧
      ∃ w', st'.tree.wins[c]? = some w' ∧
        ((w.refcount = 1 ∧ w'.freed = true) ∨
         (2 ≤ w.refcount ∧ w'.freed = false ∧ w'.refcount = w.refcount - 1 ∧ w'.children = w.children))) := by
  have hg : WinTree.get st.tree c = Res.ok w := get_eq_ok.2 ⟨hw, hf⟩
  by_cases h2 : 2 ≤ w.refcount
  · rw [unrefLogged_nd hg h2]
    have sh := shape_set_rc hw (w.refcount - 1)
    refine ⟨rfl, rfl, hi.shape sh, hd.shape sh rfl, KeepOthers.set _ _ _, _, wins_set_self hw, Or.inr ⟨h2, hf, rfl, rfl⟩⟩
  · have hr1 : w.refcount = 1 := by omega
    obtain ⟨hch, hc0⟩ := hlast hr1
    unfold unrefLogged
    simp only [hg, res_bind_ok]
    have hfuel : destroyFuel st.tree = (3 * st.tree.wins.size + 4) + 1 + 1 := rfl
    rw [hfuel, WinTree.unref]
    simp only [hg, res_bind_ok]
    have n1 : ¬ (w.refcount < 1) := by omega
    have z : w.refcount - 1 = 0 := by omega
    simp only [n1, if_false, z, if_true]
    have sh := shape_set_rc hw (0 : Int)
    have hw0 : (WinTree.set st.tree c { w with refcount := 0 }).wins[c]? = some { w with refcount := 0 } := wins_set_self hw
    have hz : w.refcount - 1 = 0 := z
    rw [show (w.refcount - 1 : Int) = 0 from hz] at *
    apply SafeR.bind (destroy_safe (hi.shape sh) _ hw0 hf hch hc0 (hd.shape sh rfl)
      (by simp only [WinTree.set, Array.size_setIfInBounds]; omega))
    intro t' ⟨hi', ko, w', hw', hf'⟩
    simp only [hr1, if_true]
    obtain ⟨dok, ew, ec⟩ := normalizeDrag_ok t'
    have logfold : ∀ (gone : List WinTree.Id) (s0 : St),
        (gone.foldl (fun st i => st.say (.destroyed i)) s0).tree = s0.tree ∧
        (gone.foldl (fun st i => st.say (.destroyed i)) s0).binds = s0.binds ∧
        (gone.foldl (fun st i => st.say (.destroyed i)) s0).owned = s0.owned := by
      intro gone
      induction gone with
      | nil => intro s0; exact ⟨rfl, rfl, rfl⟩
      | cons g rest ih => intro s0; exact ih _
    obtain ⟨lt, lb, lo⟩ := logfold
      ((preorder st.tree (treeFuel st.tree) c).filter fun i => isAlive st.tree i && !isAlive (normalizeDrag t') i)
      { st with tree := normalizeDrag t' }
    refine ⟨lb, lo, ?_, ?_, ?_, ?_⟩
    · rw [lt]; exact hi'.normalizeDrag
    · rw [lt]; exact dok
    · rw [lt]
      exact ((KeepOthers.set st.tree c _).trans ko).trans (KeepOthers.of_wins ew)
    · rw [lt]
      exact ⟨w', by rw [ew]; exact hw', Or.inl ⟨by first | trivial | exact hr1 | omega, hf'⟩⟩

/-! ### the application state: reference accounting -/

/-- The store is consistent, and every live window's count is what the application owns plus what the dispatcher
    holds (`held`: one entry per reference taken by an active `_handle_*` frame, a children snapshot, a returned
    claim or `on_term_mouse`); a window the application has let go of has no children; the root is never let go of. -/
structure AInv (st : St) (held : List WinTree.Id) : Prop where
  tree : TInv st.tree
  drag : DragOK st.tree
  size : st.owned.size = st.tree.wins.size
  rc : ∀ (i : WinTree.Id) (w : Win), st.tree.wins[i]? = some w → w.freed = false →
    w.refcount = (st.owned.getD i 0 : Int) + (held.count i : Int)
  leaf : ∀ (i : WinTree.Id) (w : Win), st.tree.wins[i]? = some w → w.freed = false → st.owned.getD i 0 = 0 →
    w.children = []
  held : ∀ h ∈ held, Alive st.tree h
  root : 1 ≤ st.owned.getD 0 0
  pos : ∀ (i : WinTree.Id) (w : Win), st.tree.wins[i]? = some w → w.freed = false → 1 ≤ w.refcount

theorem AInv.perm {st : St} {held held' : List WinTree.Id} (h : AInv st held) (hp : held.Perm held') : AInv st held' :=
  { tree := h.tree, drag := h.drag, size := h.size,
    rc := fun i w hw hf => by rw [← hp.count_eq i]; exact h.rc i w hw hf,
    leaf := h.leaf, held := fun x hx => h.held x (hp.mem_iff.2 hx), root := h.root, pos := h.pos }

/-- Back from the new store to the old one. -/
theorem KeepOthers.back {c : WinTree.Id} {t t' : Tree} (h : KeepOthers c t t') {j : WinTree.Id} {x' : Win} (hj : j ≠ c)
    (hx' : t'.wins[j]? = some x') :
    ∃ x, t.wins[j]? = some x ∧ x'.freed = x.freed ∧ x'.refcount = x.refcount ∧ (x.children = [] → x'.children = []) := by
  have hlt : j < t'.wins.size := (Array.getElem?_eq_some_iff.1 hx').1
  have hlt' : j < t.wins.size := h.size ▸ hlt
  have hx : t.wins[j]? = some t.wins[j] := Array.getElem?_eq_getElem hlt'
  obtain ⟨x'', hx'', f, r, c'⟩ := h.win j _ hj hx
  rw [hx'] at hx''; cases hx''
  exact ⟨_, hx, f, r, c'⟩

theorem Evolve.back {t t' : Tree} (h : Evolve t t') {j : WinTree.Id} {x' : Win} (hx' : t'.wins[j]? = some x') :
    ∃ x, t.wins[j]? = some x ∧ x'.freed = x.freed ∧ x'.refcount = x.refcount ∧ (x.children = [] → x'.children = []) := by
  have hlt : j < t'.wins.size := (Array.getElem?_eq_some_iff.1 hx').1
  have hlt' : j < t.wins.size := h.size ▸ hlt
  have hx : t.wins[j]? = some t.wins[j] := Array.getElem?_eq_getElem hlt'
  obtain ⟨x'', hx'', f, r, c'⟩ := h.win j _ hx
  rw [hx'] at hx''; cases hx''
  exact ⟨_, hx, f, r, c'⟩

/-- A store operation that is a `StepOK` keeps the application invariant. -/
theorem AInv.step {st : St} {held : List WinTree.Id} (h : AInv st held) {t' : Tree} (s : StepOK st.tree t') :
    AInv { st with tree := t' } held := by
  refine ⟨s.inv, s.drag, by rw [s.ev.size]; exact h.size, ?_, ?_, fun x hx => s.ev.alive (h.held x hx), h.root, ?_⟩
  · intro i w' hw' hf'
    obtain ⟨w, hw, f, r, _⟩ := s.ev.back hw'
    rw [r]; exact h.rc i w hw (by rw [← f]; exact hf')
  · intro i w' hw' hf' ho
    obtain ⟨w, hw, f, _, c⟩ := s.ev.back hw'
    exact c (h.leaf i w hw (by rw [← f]; exact hf') ho)
  · intro i w' hw' hf'
    obtain ⟨w, hw, f, r, _⟩ := s.ev.back hw'
    rw [r]; exact h.pos i w hw (by rw [← f]; exact hf')

theorem getD_setIfInBounds {a : Array Nat} {i j : Nat} {v : Nat} (hi : i < a.size) :
    (a.setIfInBounds i v).getD j 0 = if i = j then v else a.getD j 0 := by
  simp only [Array.getD_eq_getD_getElem?, Array.getElem?_setIfInBounds, hi, if_true]
  split <;> rfl

/-- Taking a reference (a frame, a snapshot entry, `on_term_mouse`, a returned claim). -/
theorem AInv.ref {st : St} {held : List WinTree.Id} (h : AInv st held) {c : WinTree.Id} (hc : Alive st.tree c) :
    ∃ st', refWin st c = Res.ok st' ∧ AInv st' (c :: held) ∧ st'.binds = st.binds := by
  obtain ⟨w, hw, hf⟩ := hc
  unfold refWin WinTree.ref
  rw [modify_ok hw hf]
  refine ⟨_, rfl, ?_, rfl⟩
  have sh := shape_set_rc hw (w.refcount + 1)
  refine ⟨h.tree.shape sh, h.drag.shape sh rfl, by simpa using h.size, ?_, ?_, ?_, h.root, ?_⟩
  rotate_left 3
  · intro i x hx hxf
    rcases wins_set_cases hw i x hx with ⟨rfl, rfl⟩ | ⟨_, hx0⟩
    · have := h.pos i w hw hf
      simp only; omega
    · exact h.pos i x hx0 hxf
  · intro i x hx hxf
    rcases wins_set_cases hw i x hx with ⟨rfl, rfl⟩ | ⟨hne, hx0⟩
    · simp only [List.count_cons_self]
      have := h.rc i w hw hf
      omega
    · rw [List.count_cons_of_ne (fun e => hne e.symm)]
      exact h.rc i x hx0 hxf
  · intro i x hx hxf ho
    rcases wins_set_cases hw i x hx with ⟨rfl, rfl⟩ | ⟨_, hx0⟩
    · exact h.leaf i w hw hf ho
    · exact h.leaf i x hx0 hxf ho
  · intro x hx
    rcases List.mem_cons.1 hx with rfl | hx'
    · exact ⟨_, wins_set_self hw, hf⟩
    · exact alive_set (w' := { w with refcount := w.refcount + 1 }) hw rfl (h.held x hx')

/-- Dropping a reference the dispatcher holds. -/
theorem AInv.release {st : St} {held : List WinTree.Id} {c : WinTree.Id} (h : AInv st (c :: held)) :
    SafeR (unrefLogged st c) (fun st' => AInv st' held ∧ st'.binds = st.binds) := by
  obtain ⟨w, hw, hf⟩ := h.held c (List.mem_cons_self ..)
  have hrc := h.rc c w hw hf
  simp only [List.count_cons_self] at hrc
  have h1 : 1 ≤ w.refcount := by omega
  have hlast : w.refcount = 1 → w.children = [] ∧ c ≠ 0 := by
    intro hr
    have ho : st.owned.getD c 0 = 0 := by omega
    refine ⟨h.leaf c w hw hf ho, ?_⟩
    intro hc0; subst hc0
    have := h.root; omega
  refine (unref_core h.tree h.drag hw hf h1 hlast).mono ?_
  intro st' ⟨hb, ho, hi', hd', ko, w', hw', hcase⟩
  refine ⟨⟨hi', hd', by rw [ho, ko.size]; exact h.size, ?_, ?_, ?_, by rw [ho]; exact h.root, ?_⟩, hb⟩
  rotate_left 3
  · intro i x' hx' hxf'
    by_cases hic : i = c
    · subst hic
      rw [hw'] at hx'; cases hx'
      rcases hcase with ⟨_, hfr⟩ | ⟨h2, _, hr, _⟩
      · rw [hfr] at hxf'; cases hxf'
      · rw [hr]; omega
    · obtain ⟨x, hx, f, r, _⟩ := ko.back hic hx'
      rw [r]; exact h.pos i x hx (by rw [← f]; exact hxf')
  · intro i x' hx' hxf'
    rw [ho]
    by_cases hic : i = c
    · subst hic
      rw [hw'] at hx'; cases hx'
      rcases hcase with ⟨_, hfr⟩ | ⟨_, _, hr, _⟩
      · rw [hfr] at hxf'; cases hxf'
      · rw [hr]; omega
    · obtain ⟨x, hx, f, r, _⟩ := ko.back hic hx'
      have := h.rc i x hx (by rw [← f]; exact hxf')
      rw [List.count_cons_of_ne (fun e => hic e.symm)] at this
      rw [r]; exact this
  · intro i x' hx' hxf' hoi
    rw [ho] at hoi
    by_cases hic : i = c
    · subst hic
      rw [hw'] at hx'; cases hx'
      rcases hcase with ⟨_, hfr⟩ | ⟨_, _, _, hch⟩
      · rw [hfr] at hxf'; cases hxf'
      · rw [hch]; exact h.leaf i w hw hf hoi
    · obtain ⟨x, hx, f, _, cc⟩ := ko.back hic hx'
      exact cc (h.leaf i x hx (by rw [← f]; exact hxf') hoi)
  · intro x hx
    by_cases hxc : x = c
    · subst hxc
      have hcnt : 1 ≤ List.count x held := List.count_pos_iff.2 hx
      rcases hcase with ⟨hr1, _⟩ | ⟨_, hfr, _, _⟩
      · omega
      · exact ⟨w', hw', hfr⟩
    · obtain ⟨y, hy, hyf⟩ := h.held x (List.mem_cons_of_mem _ hx)
      obtain ⟨y', hy', f, _, _⟩ := ko.win x y hxc hy
      exact ⟨y', hy', by rw [f]; exact hyf⟩

/-! ### restack requests -/

/-- Alive windows keep their place in the tree: parent and children. -/
def KeepLinks (t t' : Tree) : Prop :=
  ∀ (x : WinTree.Id) (w : Win), t.wins[x]? = some w → w.freed = false →
    ∃ w', t'.wins[x]? = some w' ∧ w'.freed = false ∧ w'.parent = w.parent ∧ w'.children = w.children

theorem KeepLinks.refl (t : Tree) : KeepLinks t t := fun _ w hw hf => ⟨w, hw, hf, rfl, rfl⟩

theorem KeepLinks.trans {a b c : Tree} (h1 : KeepLinks a b) (h2 : KeepLinks b c) : KeepLinks a c := by
  intro x w hw hf
  obtain ⟨w1, a1, b1, c1, d1⟩ := h1 x w hw hf
  obtain ⟨w2, a2, b2, c2, d2⟩ := h2 x w1 a1 b1
  exact ⟨w2, a2, b2, c2.trans c1, d2.trans d1⟩

theorem KeepLinks.of_wins {t t' : Tree} (h : t'.wins = t.wins) : KeepLinks t t' :=
  fun _ w hw hf => ⟨w, by rw [h]; exact hw, hf, rfl, rfl⟩

theorem KeepLinks.keepParents {t t' : Tree} (h : KeepLinks t t') : KeepParents none t t' := by
  intro x w hw hf _
  obtain ⟨w', a, b, c, _⟩ := h x w hw hf
  exact ⟨w', a, b, c⟩

theorem KeepLinks.set {t : Tree} {i : WinTree.Id} {w w' : Win} (hw : t.wins[i]? = some w) (hf : w'.freed = w.freed)
    (hp : w'.parent = w.parent) (hc : w'.children = w.children) : KeepLinks t (WinTree.set t i w') := by
  intro x y hy hyf
  by_cases hix : i = x
  · subst hix
    rw [hw] at hy; cases hy
    exact ⟨w', wins_set_self hw, by rw [hf]; exact hyf, hp, hc⟩
  · exact ⟨y, by rw [wins_set_ne hix]; exact hy, hyf, rfl, rfl⟩

/-- Same windows; the queue may have changed as long as every request in it is sound. -/
theorem TInv.of_wins {t t' : Tree} (hi : TInv t) (hw : t'.wins = t.wins)
    (hq : ∀ r ∈ t'.root.changes, (∃ w, t.wins[r.win]? = some w ∧ w.freed = false ∧ w.parent = some r.parent ∧ Att t r.win) ∧
      Restack r.change) : TInv t' := by
  have e : ∀ (i : WinTree.Id), t'.wins[i]? = t.wins[i]? := fun i => by rw [hw]
  have kp : KeepParents none t t' := fun x w hx hf _ => ⟨w, by rw [e]; exact hx, hf, rfl⟩
  constructor
  · obtain ⟨w0, h0, h1, h2⟩ := hi.root; exact ⟨w0, by rw [e]; exact h0, h1, h2⟩
  · intro i c w h1 h2 h3
    rw [e] at h1
    obtain ⟨cw, a, b, c'⟩ := hi.child i c w h1 h2 h3
    exact ⟨cw, by rw [e]; exact a, b, c'⟩
  · intro c p cw h1 h2 h3
    rw [e] at h1
    obtain ⟨pw, a, b, c'⟩ := hi.parent c p cw h1 h2 h3
    exact ⟨pw, by rw [e]; exact a, b, c'⟩
  · intro i f w h1 h2 h3; rw [e] at h1; exact hi.focus i f w h1 h2 h3
  · intro i w h1 h2; rw [e] at h1; exact hi.nodup i w h1 h2
  · intro i w h1 h2; rw [e] at h1; exact hi.noself i w h1 h2
  · intro i w h1 h2 h3; rw [e] at h1; exact hi.closed i w h1 h2 h3
  · intro c p cw h1 h2 h3; rw [e] at h1; exact hi.lt c p cw h1 h2 h3
  · intro i w h1 h2; rw [e] at h1; exact hi.rootflag i w h1 h2
  · intro r hr
    obtain ⟨⟨w, a, b, c, d⟩, _⟩ := hq r hr
    exact ⟨w, by rw [e]; exact a, b, c, d.keep kp⟩
  · intro r hr
    exact (hq r hr).2

theorem attached_att {t : Tree} (hi : TInv t) : ∀ (f : Nat) (x : WinTree.Id), attached t f x = true → Att t x := by
  intro f
  induction f with
  | zero => intro x h; simp [attached] at h
  | succ f ih =>
    intro x h
    unfold attached at h
    cases hw : t.wins[x]? with
    | none => simp [hw] at h
    | some w =>
      simp only [hw] at h
      by_cases hf : w.freed = true
      · simp [hf] at h
      · have hf' : w.freed = false := by simpa using hf
        simp only [hf', Bool.false_eq_true, if_false] at h
        by_cases hr : w.isRoot = true
        · have := (hi.rootflag x w hw hf').1 hr
          subst this; exact Att.root
        · simp only [hr, if_false] at h
          cases hp : w.parent with
          | none => simp [hp] at h
          | some p => simp only [hp] at h; exact Att.step hw hf' hp (ih p h)

/-- `_get_root` of a window that hangs below the root never aborts. -/
theorem getRoot_safe {t : Tree} (hi : TInv t) : ∀ (f : Nat) (x : WinTree.Id), Att t x →
    SafeR (getRoot t f x) (fun _ => True) := by
  intro f
  induction f with
  | zero => intro x _; exact Or.inl rfl
  | succ f ih =>
    intro x ha
    unfold getRoot
    cases ha with
    | root =>
      obtain ⟨w0, hw0, hf0, _⟩ := hi.root
      have hr := (hi.rootflag 0 w0 hw0 hf0).2 rfl
      simp only [get_eq_ok.2 ⟨hw0, hf0⟩, res_bind_ok, hr, if_true]
      trivial
    | @step _ p w hw hf hp ha' =>
      simp only [get_eq_ok.2 ⟨hw, hf⟩, res_bind_ok]
      by_cases hr : w.isRoot = true
      · simp only [hr, if_true]; trivial
      · simp only [hr, if_false, hp]
        exact ih p ha'

/-- `_request_hierarchy_change` for a window that hangs below the root. -/
theorem request_safe {t : Tree} (hi : TInv t) (hd : DragOK t) (f : Nat) {c : Change} (hc : Restack c) {win : WinTree.Id}
    (ha : Alive t win) (hatt : Att t win) :
    SafeR (requestHierarchyChange t f c win) (fun t' => StepOK t t' ∧ t'.wins = t.wins) := by
  obtain ⟨w, hg, hw, hf⟩ := ha.get
  unfold requestHierarchyChange
  simp only [hg, res_bind_ok]
  cases hp : w.parent with
  | none => exact ⟨StepOK.refl hi hd, rfl⟩
  | some p =>
    simp only
    apply SafeR.bind (getRoot_safe hi f win hatt)
    intro _ _
    refine ⟨⟨hi.of_wins rfl ?_, fun d hd' => hd d hd', Evolve.of_wins rfl⟩, rfl⟩
    intro r hr
    rcases List.mem_append.1 hr with h | h
    · exact ⟨hi.queue r h, hi.qkind r h⟩
    · simp only [List.mem_singleton] at h
      subst h
      exact ⟨⟨w, hw, hf, hp, hatt⟩, hc⟩

/-! ### the list surgery of `_do_hierarchy_raise` / `_do_hierarchy_lower` -/

theorem listRaise_perm : ∀ (cs : List WinTree.Id) (w : WinTree.Id), w ∈ cs → ∃ cs', listRaise cs w = Res.ok cs' ∧ cs'.Perm cs := by
  intro cs
  induction cs with
  | nil => intro w h; cases h
  | cons x rest ih =>
    intro w h
    cases rest with
    | nil =>
      have : w = x := by simpa using h
      subst this
      exact ⟨[w], by simp [listRaise], List.Perm.refl _⟩
    | cons y rest =>
      by_cases hx : x = w
      · exact ⟨x :: y :: rest, by simp [listRaise, hx], List.Perm.refl _⟩
      · by_cases hy : y = w
        · exact ⟨y :: x :: rest, by simp [listRaise, hx, hy], List.Perm.swap _ _ _⟩
        · have hm : w ∈ y :: rest := by
            rcases List.mem_cons.1 h with h | h
            · exact absurd h.symm hx
            · exact h
          obtain ⟨r, hr, hperm⟩ := ih w hm
          refine ⟨x :: r, ?_, hperm.cons x⟩
          simp only [listRaise, hx, hy, if_false, hr, res_bind_ok, res_pure]

theorem listLower_perm : ∀ (cs : List WinTree.Id) (w : WinTree.Id), (listLower cs w).Perm cs := by
  intro cs
  induction cs with
  | nil => intro w; exact List.Perm.refl _
  | cons x rest ih =>
    intro w
    cases rest with
    | nil => exact List.Perm.refl _
    | cons y rest =>
      by_cases hx : x = w
      · simp only [listLower, hx, if_true]; exact List.Perm.swap _ _ _
      · simp only [listLower, hx, if_false]; exact (ih w).cons x

/-- Reordering the children of a live window keeps the store consistent. -/
theorem TInv.set_perm {t : Tree} (hi : TInv t) {i : WinTree.Id} {w w' : Win} (hw : t.wins[i]? = some w)
    (hfr : w.freed = false) (hp : w'.parent = w.parent) (hc : ∀ c, c ∈ w'.children ↔ c ∈ w.children)
    (hnd : w'.children.Nodup) (hf' : w'.freed = false)
    (hfo : ∀ f, w'.focusedChild = some f → f ∈ w'.children) (hcl : w'.isClosed = true → w'.parent = none)
    (hro : w'.isRoot = w.isRoot) : TInv (WinTree.set t i w') := by
  have hget : ∀ (j : WinTree.Id) (x : Win), t.wins[j]? = some x → x.freed = false →
      ∃ x', (WinTree.set t i w').wins[j]? = some x' ∧ x'.freed = false ∧ x'.parent = x.parent ∧
        (∀ c, c ∈ x'.children ↔ c ∈ x.children) := by
    intro j x hx hxf
    by_cases hij : i = j
    · subst hij
      rw [hw] at hx; cases hx
      exact ⟨w', wins_set_self hw, hf', hp, hc⟩
    · exact ⟨x, by rw [wins_set_ne hij]; exact hx, hxf, rfl, fun _ => Iff.rfl⟩
  have hback : ∀ (j : WinTree.Id) (x' : Win), (WinTree.set t i w').wins[j]? = some x' → x'.freed = false →
      ∃ x, t.wins[j]? = some x ∧ x.freed = false ∧ x'.parent = x.parent ∧ (∀ c, c ∈ x'.children ↔ c ∈ x.children) := by
    intro j x' hx' hxf
    rcases wins_set_cases hw j x' hx' with ⟨rfl, rfl⟩ | ⟨_, h⟩
    · exact ⟨w, hw, hfr, hp, hc⟩
    · exact ⟨x', h, hxf, rfl, fun _ => Iff.rfl⟩
  constructor
  · obtain ⟨w0, hw0, hf0, hp0⟩ := hi.root
    obtain ⟨x', hx', hxf, hxp, _⟩ := hget 0 w0 hw0 hf0
    exact ⟨x', hx', hxf, by rw [hxp]; exact hp0⟩
  · intro j c x' hx' hxf hcm
    obtain ⟨x, hx, hxf0, _, hxc⟩ := hback j x' hx' hxf
    obtain ⟨cw, hcw, hcf, hcp⟩ := hi.child j c x hx hxf0 ((hxc c).1 hcm)
    obtain ⟨cw', hcw', hcf', hcp', _⟩ := hget c cw hcw hcf
    exact ⟨cw', hcw', hcf', by rw [hcp']; exact hcp⟩
  · intro c p cw' hcw' hcf hcp
    obtain ⟨cw, hcw, hcf0, hpp, _⟩ := hback c cw' hcw' hcf
    obtain ⟨pw, hpw, hpf, hpm⟩ := hi.parent c p cw hcw hcf0 (by rw [← hpp]; exact hcp)
    obtain ⟨pw', hpw', hpf', _, hpc'⟩ := hget p pw hpw hpf
    exact ⟨pw', hpw', hpf', (hpc' c).2 hpm⟩
  · intro j f x' hx' hxf hfc
    rcases wins_set_cases hw j x' hx' with ⟨rfl, rfl⟩ | ⟨_, h⟩
    · exact hfo f hfc
    · exact hi.focus j f x' h hxf hfc
  · intro j x' hx' hxf
    rcases wins_set_cases hw j x' hx' with ⟨rfl, rfl⟩ | ⟨_, h⟩
    · exact hnd
    · exact hi.nodup j x' h hxf
  · intro j x' hx' hxf
    obtain ⟨x, hx, hxf0, hxp, _⟩ := hback j x' hx' hxf
    rw [hxp]; exact hi.noself j x hx hxf0
  · intro j x' hx' hxf hcl'
    rcases wins_set_cases hw j x' hx' with ⟨rfl, rfl⟩ | ⟨_, h⟩
    · exact hcl hcl'
    · exact hi.closed j x' h hxf hcl'
  · intro c p x' hx' hxf hpp
    obtain ⟨x, hx, hxf0, hxp, _⟩ := hback c x' hx' hxf
    exact hi.lt c p x hx hxf0 (by rw [← hxp]; exact hpp)
  · intro j x' hx' hxf
    rcases wins_set_cases hw j x' hx' with ⟨rfl, rfl⟩ | ⟨_, h⟩
    · rw [hro]; exact hi.rootflag j w hw hfr
    · exact hi.rootflag j x' h hxf
  · intro r hr
    obtain ⟨x, hx, hxf, hxp, ha⟩ := hi.queue r hr
    obtain ⟨x', hx', hxf', hxp', _⟩ := hget r.win x hx hxf
    refine ⟨x', hx', hxf', by rw [hxp']; exact hxp, ha.keep ?_⟩
    intro y yw hy hyf _
    obtain ⟨y', hy', hyf', hyp', _⟩ := hget y yw hy hyf
    exact ⟨y', hy', hyf', hyp'⟩
  · exact hi.qkind

/-- The parent's record with its children reordered: one step of `tickit_window_flush`'s restacking. -/
theorem perm_step {t : Tree} (hi : TInv t) (hd : DragOK t) {p : WinTree.Id} {pw : Win} (hpw : t.wins[p]? = some pw)
    (hpf : pw.freed = false) {cs' : List WinTree.Id} (hperm : cs'.Perm pw.children) :
    StepOK t (WinTree.set t p { pw with children := cs' }) := by
  refine ⟨hi.set_perm hpw hpf rfl (fun c => hperm.mem_iff) (hperm.nodup_iff.2 (hi.nodup p pw hpw hpf)) hpf ?_ ?_ rfl,
    hd.set hpw rfl, Evolve.set hpw rfl rfl ?_⟩
  · intro f hf; exact hperm.mem_iff.2 (hi.focus p f pw hpw hpf hf)
  · intro hcl; exact hi.closed p pw hpw hpf hcl
  · intro h
    show cs' = []
    rw [h] at hperm
    exact List.Perm.eq_nil hperm

/-- `_do_hierarchy_change` for a queued restack request. -/
theorem restack_safe {t : Tree} (hi : TInv t) (hd : DragOK t) (f : Nat) {r : Req} (hr : r ∈ t.root.changes) :
    SafeR (doHierarchyChange t f r.change r.parent r.win) (fun t' => StepOK t t' ∧ t'.root.changes = t.root.changes) := by
  obtain ⟨w, hw, hf, hp, _⟩ := hi.queue r hr
  obtain ⟨pw, hpw, hpf, hpm⟩ := hi.parent r.win r.parent w hw hf hp
  have hk := hi.qkind r hr
  unfold doHierarchyChange
  simp only [get_eq_ok.2 ⟨hpw, hpf⟩, get_eq_ok.2 ⟨hw, hf⟩, res_bind_ok]
  have hcont : pw.children.contains r.win = true := by simpa using hpm
  have hnd := hi.nodup r.parent pw hpw hpf
  -- whatever the new order is, the trailing expose only touches the damage bookkeeping
  have fin : ∀ cs' : List WinTree.Id, cs'.Perm pw.children →
      SafeR (if w.isVisible = true then expose (WinTree.set t r.parent { pw with children := cs' }) f r.parent (some w.rect)
        else pure (WinTree.set t r.parent { pw with children := cs' }))
        (fun t' => StepOK t t' ∧ t'.root.changes = t.root.changes) := by
    intro cs' hperm
    have st := perm_step hi hd hpw hpf hperm
    have hap : Alive (WinTree.set t r.parent { pw with children := cs' }) r.parent := st.ev.alive ⟨pw, hpw, hpf⟩
    by_cases hv : w.isVisible = true
    · rw [if_pos hv]
      refine (expose_safe st.inv f r.parent _ hap).mono ?_
      intro t' ⟨e1, e2, e3⟩
      exact ⟨st.trans ⟨st.inv.root_frame e1 e2 e3, st.drag.root_frame e1 e2 e3, Evolve.of_wins e1⟩, e2⟩
    · rw [if_neg hv]
      exact ⟨st, rfl⟩
  rcases hk with hk | hk | hk | hk <;> simp only [hk]
  · obtain ⟨cs', hcs, hperm⟩ := listRaise_perm pw.children r.win hpm
    simp only [hcs, res_bind_ok, res_pure]
    exact fin cs' hperm
  · simp only [listRemove, hcont, if_true, res_bind_ok, res_pure]
    exact fin _ (List.perm_cons_erase hpm).symm
  · simp only [res_bind_ok, res_pure]
    exact fin _ (listLower_perm _ _)
  · simp only [listRemove, hcont, if_true, res_bind_ok, res_pure]
    refine fin _ ?_
    exact (List.perm_append_comm.trans (List.perm_cons_erase hpm).symm)

/-- The loop of `tickit_window_flush` over the queued requests. -/
theorem applyChanges_safe : ∀ (l : List Req) (t : Tree), TInv t → DragOK t → (∀ r ∈ l, r ∈ t.root.changes) →
    SafeR (applyChanges t l) (fun t' => StepOK t t' ∧ t'.root.changes = t.root.changes) := by
  intro l
  induction l with
  | nil => intro t hi hd _; exact ⟨StepOK.refl hi hd, rfl⟩
  | cons r rest ih =>
    intro t hi hd hl
    unfold applyChanges
    apply SafeR.bind (restack_safe hi hd _ (hl r (List.mem_cons_self ..)))
    intro t1 ⟨s1, e1⟩
    refine (ih t1 s1.inv s1.drag ?_).mono ?_
    · intro r' hr'; rw [e1]; exact hl r' (List.mem_cons_of_mem _ hr')
    · intro t2 ⟨s2, e2⟩
      exact ⟨s1.trans s2, e2.trans e1⟩

/-- `tickit_window_flush`, as far as the tree goes. -/
theorem flush_safe {t : Tree} (hi : TInv t) (hd : DragOK t) : SafeR (flush t) (StepOK t) := by
  unfold flush
  by_cases hl : t.root.needsLater = true
  · simp only [hl, Bool.not_true, Bool.false_eq_true, if_false]
    have hi0 : TInv ({ t with root := { t.root with needsLater := false } } : Tree) := hi.root_frame rfl rfl rfl
    have hd0 : DragOK ({ t with root := { t.root with needsLater := false } } : Tree) := hd.root_frame rfl rfl rfl
    apply SafeR.bind (applyChanges_safe _ _ hi0 hd0 (fun r hr => hr))
    intro t1 ⟨s1, _⟩
    have e0 : Evolve t ({ t with root := { t.root with needsLater := false } } : Tree) := Evolve.of_wins rfl
    have fin : ∀ t2 : Tree, t2.wins = t1.wins → t2.root.changes = [] → t2.root.dragSource = t1.root.dragSource →
        StepOK t t2 := by
      intro t2 ew eq ed
      refine ⟨s1.inv.of_wins ew (fun r hr => by rw [eq] at hr; cases hr), ?_, (e0.trans s1.ev).trans (Evolve.of_wins ew)⟩
      intro d hdd
      rw [ed] at hdd
      obtain ⟨x, hx, hxf⟩ := s1.drag d hdd
      exact ⟨x, by rw [ew]; exact hx, hxf⟩
    split
    · exact fin _ rfl rfl rfl
    · exact fin _ rfl rfl rfl
  · have hl' : t.root.needsLater = false := by simpa using hl
    simp only [hl', Bool.not_false, if_true]
    exact StepOK.refl hi hd

/-! ### `tickit_window_take_focus` -/

/-- One live window changes in its focus fields only. -/
theorem focus_set_step {t : Tree} (hi : TInv t) (hd : DragOK t) {i : WinTree.Id} {w w' : Win} (hw : t.wins[i]? = some w)
    (hf : w.freed = false) (hp : w'.parent = w.parent) (hc : w'.children = w.children) (hf' : w'.freed = false)
    (hr : w'.refcount = w.refcount) (hcl : w'.isClosed = w.isClosed) (hro : w'.isRoot = w.isRoot)
    (hfo : ∀ f, w'.focusedChild = some f → f ∈ w.children) :
    StepOK t (WinTree.set t i w') ∧ KeepLinks t (WinTree.set t i w') :=
  ⟨set_step hi hd hw hf hp hc hf' hr (fun f h => by rw [hc]; exact hfo f h)
    (fun h => by rw [hp]; rw [hcl] at h; exact hi.closed i w hw hf h) hro,
   KeepLinks.set hw (by rw [hf', hf]) hp hc⟩

/-- The tail of `_focus_lost`: the window's own flag. -/
def flTail (win : WinTree.Id) (t : Tree) : Res Tree := do
  let w ← WinTree.get t win
  pure (if w.isFocused then WinTree.set t win { w with isFocused := false } else t)

theorem flTail_safe {t0 t : Tree} {win : WinTree.Id} (s1 : StepOK t0 t) (k1 : KeepLinks t0 t) (ha : Alive t win) :
    SafeR (flTail win t) (fun t' => StepOK t0 t' ∧ KeepLinks t0 t') := by
  obtain ⟨w1, hg1, hw1, hf1⟩ := ha.get
  unfold flTail
  simp only [hg1, res_bind_ok, res_pure]
  split
  · obtain ⟨s2, k2⟩ := focus_set_step (w' := { w1 with isFocused := false }) s1.inv s1.drag hw1 hf1 rfl rfl hf1 rfl rfl rfl
      (fun f h => s1.inv.focus win f w1 hw1 hf1 h)
    exact ⟨s1.trans s2, k1.trans k2⟩
  · exact ⟨s1, k1⟩

theorem focusLost_safe : ∀ (f : Nat) (t : Tree) (win : WinTree.Id), TInv t → DragOK t → Alive t win →
    SafeR (focusLost f t win) (fun t' => StepOK t t' ∧ KeepLinks t t') := by
  intro f
  induction f with
  | zero => intro t win _ _ _; exact Or.inr (Or.inl rfl)
  | succ f ih =>
    intro t win hi hd ha
    obtain ⟨w, hg, hw, hf⟩ := ha.get
    unfold focusLost
    simp only [hg, res_bind_ok]
    cases hfc : w.focusedChild with
    | none => exact flTail_safe (StepOK.refl hi hd) (KeepLinks.refl t) ha
    | some fc =>
      obtain ⟨cw, hcw, hcf, _⟩ := hi.child win fc w hw hf (hi.focus win fc w hw hf hfc)
      apply SafeR.bind (ih t fc hi hd ⟨cw, hcw, hcf⟩)
      intro t1 ⟨s1, k1⟩
      exact flTail_safe s1 k1 (s1.ev.alive ha)

/-- The end of `_focus_gained`: the window's own fields. -/
def fgFinal (win : WinTree.Id) (child : Option WinTree.Id) (t : Tree) : Res Tree := do
  let w ← WinTree.get t win
  let w := if child.isNone then { w with isFocused := true } else w
  pure (WinTree.set t win { w with focusedChild := child })

theorem fgFinal_safe {t0 t : Tree} {win : WinTree.Id} {child : Option WinTree.Id} (s3 : StepOK t0 t) (k3 : KeepLinks t0 t)
    (ha : Alive t win) (hch : ∀ c, child = some c → ∃ w, t.wins[win]? = some w ∧ c ∈ w.children) :
    SafeR (fgFinal win child t) (fun t' => StepOK t0 t' ∧ KeepLinks t0 t') := by
  obtain ⟨w3, hg3, hw3, hf3⟩ := ha.get
  unfold fgFinal
  simp only [hg3, res_bind_ok, res_pure]
  have hmem : ∀ c, child = some c → c ∈ w3.children := by
    intro c hc
    obtain ⟨w0, hw0, hm⟩ := hch c hc
    rw [hw3] at hw0; cases hw0
    exact hm
  split
  · obtain ⟨s4, k4⟩ := focus_set_step (w' := { { w3 with isFocused := true } with focusedChild := child })
      s3.inv s3.drag hw3 hf3 rfl rfl hf3 rfl rfl rfl hmem
    exact ⟨s3.trans s4, k3.trans k4⟩
  · obtain ⟨s4, k4⟩ := focus_set_step (w' := { w3 with focusedChild := child })
      s3.inv s3.drag hw3 hf3 rfl rfl hf3 rfl rfl rfl hmem
    exact ⟨s3.trans s4, k3.trans k4⟩

/-- `_focus_gained` after the branch that held the focus was told. -/
def fgMid (rec : Tree → WinTree.Id → Option WinTree.Id → Res Tree) (f : Nat) (win : WinTree.Id) (child : Option WinTree.Id)
    (t : Tree) : Res Tree := do
  let w ← WinTree.get t win
  let t := if child.isSome && w.isFocused then WinTree.set t win { w with isFocused := false } else t
  let w ← WinTree.get t win
  let t ← match w.parent with
    | some p => if w.isVisible then rec t p (some win) else pure t
    | none => do
      let _ ← getRoot t (f + 1) win
      pure { t with root := { t.root with needsRestore := true, needsLater := true } }
  fgFinal win child t

def FgRecSafe (rec : Tree → WinTree.Id → Option WinTree.Id → Res Tree) : Prop :=
  ∀ (t : Tree) (win : WinTree.Id) (child : Option WinTree.Id), TInv t → DragOK t →
    Alive t win → Att t win → (∀ c, child = some c → ∃ w, t.wins[win]? = some w ∧ c ∈ w.children) →
    SafeR (rec t win child) (fun t' => StepOK t t' ∧ KeepLinks t t')

theorem fgMid_safe {rec : Tree → WinTree.Id → Option WinTree.Id → Res Tree} (hrec : FgRecSafe rec) (f : Nat) {t0 t1 : Tree}
    {win : WinTree.Id} {child : Option WinTree.Id} (s1 : StepOK t0 t1) (k1 : KeepLinks t0 t1) (ha : Alive t1 win)
    (hatt : Att t1 win) (hch : ∀ c, child = some c → ∃ w, t1.wins[win]? = some w ∧ c ∈ w.children) :
    SafeR (fgMid rec f win child t1) (fun t' => StepOK t0 t' ∧ KeepLinks t0 t') := by
  obtain ⟨w1, hg1, hw1, hf1⟩ := ha.get
  unfold fgMid
  simp only [hg1, res_bind_ok]
  -- a focused ancestor loses `is_focused`
  have step2 : ∃ t2, (if (child.isSome && w1.isFocused) = true then WinTree.set t1 win { w1 with isFocused := false } else t1) = t2 ∧
      StepOK t1 t2 ∧ KeepLinks t1 t2 := by
    split
    · exact ⟨_, rfl, focus_set_step (w' := { w1 with isFocused := false }) s1.inv s1.drag hw1 hf1 rfl rfl hf1 rfl rfl rfl
        (fun f h => s1.inv.focus win f w1 hw1 hf1 h)⟩
    · exact ⟨_, rfl, StepOK.refl s1.inv s1.drag, KeepLinks.refl _⟩
  obtain ⟨t2, e2, s2, k2⟩ := step2
  rw [e2]
  have ha2 := s2.ev.alive ha
  obtain ⟨w2, hg2, hw2, hf2⟩ := ha2.get
  simp only [hg2, res_bind_ok]
  have hatt2 : Att t2 win := hatt.keep k2.keepParents
  have hch2 : ∀ c, child = some c → ∃ w, t2.wins[win]? = some w ∧ c ∈ w.children := by
    intro c hc
    obtain ⟨w0, hw0, hm⟩ := hch c hc
    obtain ⟨w', a, _, _, d⟩ := k2 win w0 hw0 (by rw [hw1] at hw0; cases hw0; exact hf1)
    exact ⟨w', a, by rw [d]; exact hm⟩
  have fin : ∀ t3, StepOK t2 t3 → KeepLinks t2 t3 → SafeR (fgFinal win child t3) (fun t' => StepOK t0 t' ∧ KeepLinks t0 t') := by
    intro t3 s3 k3
    refine fgFinal_safe ((s1.trans s2).trans s3) ((k1.trans k2).trans k3) (s3.ev.alive ha2) ?_
    intro c hc
    obtain ⟨w0, hw0, hm⟩ := hch2 c hc
    obtain ⟨w', a, _, _, d⟩ := k3 win w0 hw0 (by rw [hw2] at hw0; cases hw0; exact hf2)
    exact ⟨w', a, by rw [d]; exact hm⟩
  cases hp : w2.parent with
  | some p =>
    simp only
    split
    · obtain ⟨pw, hpw, hpf, hpm⟩ := s2.inv.parent win p w2 hw2 hf2 hp
      apply SafeR.bind (hrec t2 p (some win) s2.inv s2.drag ⟨pw, hpw, hpf⟩ (hatt2.parent s2.inv hw2 hp)
        (fun c hc => by cases hc; exact ⟨pw, hpw, hpm⟩))
      intro t3 ⟨s3, k3⟩
      exact fin t3 s3 k3
    · exact fin t2 (StepOK.refl s2.inv s2.drag) (KeepLinks.refl _)
  | none =>
    simp only
    apply SafeR.bind (getRoot_safe s2.inv (f + 1) win hatt2)
    intro _ _
    exact fin _ ⟨s2.inv.root_frame rfl rfl rfl, s2.drag.root_frame rfl rfl rfl, Evolve.of_wins rfl⟩ (KeepLinks.of_wins rfl)

theorem focusGained_safe : ∀ (f : Nat), FgRecSafe (focusGained f) := by
  intro f
  induction f with
  | zero => intro t win child _ _ _ _ _; exact Or.inl rfl
  | succ f ih =>
    intro t win child hi hd ha hatt hch
    obtain ⟨w, hg, hw, hf⟩ := ha.get
    unfold focusGained
    simp only [hg, res_bind_ok]
    have same : SafeR (fgMid (focusGained f) f win child t) (fun t' => StepOK t t' ∧ KeepLinks t t') :=
      fgMid_safe ih f (StepOK.refl hi hd) (KeepLinks.refl t) ha hatt hch
    cases hfc : w.focusedChild with
    | none => exact same
    | some fc =>
      simp only
      split
      · obtain ⟨cw, hcw, hcf, _⟩ := hi.child win fc w hw hf (hi.focus win fc w hw hf hfc)
        apply SafeR.bind (focusLost_safe (f + 1) t fc hi hd ⟨cw, hcw, hcf⟩)
        intro t1 ⟨s1, k1⟩
        refine fgMid_safe ih f s1 k1 (s1.ev.alive ha) (hatt.keep k1.keepParents) ?_
        intro c hc
        obtain ⟨w0, hw0, hm⟩ := hch c hc
        obtain ⟨w', a, _, _, d⟩ := k1 win w0 hw0 (by rw [hw] at hw0; cases hw0; exact hf)
        exact ⟨w', a, by rw [d]; exact hm⟩
      · exact same

theorem takeFocus_safe {t : Tree} (hi : TInv t) (hd : DragOK t) {win : WinTree.Id} (ha : Alive t win) (hatt : Att t win) :
    SafeR (takeFocus t win) (StepOK t) :=
  (focusGained_safe _ t win none hi hd ha hatt (fun c hc => by cases hc)).mono fun _ h => h.1


/-! ### the application's actions -/

/-- The mutations covered: what the property names (close, unref), plus ref, hide, show, steal-input, the four
    restacking requests, `take_focus` and `set_geometry` — every action of the engine's vocabulary (`actOK_all`). -/
def ActOK (a : Action) : Prop :=
  a.act = .close ∨ a.act = .unref ∨ a.act = .keep ∨ a.act = .hide ∨ a.act = .unhide ∨ a.act = .stealOn ∨ a.act = .stealOff ∨
  a.act = .raise ∨ a.act = .raiseFront ∨ a.act = .lower ∨ a.act = .lowerBack ∨ a.act = .focus ∨
  (∃ dt dl dn dc, a.act = .geom dt dl dn dc)

theorem actOK_all (a : Action) : ActOK a := by
  unfold ActOK
  cases a.act <;> simp

/-- Every behaviour table uses covered actions only (always true: `tableOK_all`). -/
def TableOK (binds : Array Binding) : Prop :=
  ∀ (i : Nat) (b : Binding), binds[i]? = some b → ∀ e ∈ b.entries, ∀ a ∈ e.actions, ActOK a

theorem tableOK_all (binds : Array Binding) : TableOK binds := fun _ _ _ _ _ a _ => actOK_all a

theorem TableOK.entry {binds : Array Binding} (hs : TableOK binds) {i : Nat} {b : Binding} (h : binds[i]? = some b) :
    ∀ a ∈ b.entry.actions, ActOK a := by
  unfold Binding.entry
  rcases getD_mem_or b.entries (entryIndex b) { ret := false } with hm | hd
  · exact hs i b h _ hm
  · rw [hd]; intro a ha; cases ha

theorem TableOK.bump {binds : Array Binding} (hs : TableOK binds) {i : Nat} {b : Binding} (h : binds[i]? = some b) (k : Nat) :
    TableOK (binds.setIfInBounds i { b with count := k }) := by
  intro j x hx e he
  rw [Array.getElem?_setIfInBounds] at hx
  by_cases hij : i = j
  · subst hij
    simp only [if_true] at hx
    split at hx
    · cases hx; exact hs i b h e he
    · cases hx
  · simp only [hij, if_false] at hx
    exact hs j x hx e he

theorem TableOK.fired {binds : Array Binding} (hs : TableOK binds) {i : Nat} {b : Binding} (h : binds[i]? = some b) :
    TableOK (binds.setIfInBounds i b.fired) := by
  intro j x hx e he
  rw [Array.getElem?_setIfInBounds] at hx
  by_cases hij : i = j
  · subst hij
    simp only [if_true] at hx
    split at hx
    · cases hx; exact hs i b h e he
    · cases hx
  · simp only [hij, if_false] at hx
    exact hs j x hx e he

theorem allowed_alive {st : St} {a : Action} (h : allowed st a = true) :
    ∃ w, st.tree.wins[a.win]? = some w ∧ w.freed = false := by
  unfold allowed at h
  cases hw : st.tree.wins[a.win]? with
  | none => simp [hw] at h
  | some w =>
    simp only [hw] at h
    by_cases hf : w.freed = true
    · simp [hf] at h
    · exact ⟨w, rfl, by simpa using hf⟩

theorem doAction_safe {st : St} {held : List WinTree.Id} (h : AInv st held) {a : Action} (ha : ActOK a) :
    SafeR (doAction st a) (fun st' => AInv st' held ∧ st'.binds = st.binds) := by
  unfold doAction
  by_cases hal : allowed st a = true
  · simp only [hal, Bool.not_true, Bool.false_eq_true, if_false]
    obtain ⟨w, hw, hf⟩ := allowed_alive hal
    have hAl : Alive st.tree a.win := ⟨w, hw, hf⟩
    have stepTo : ∀ (r : Res Tree), SafeR r (StepOK st.tree) →
        SafeR (r >>= fun t => pure ({ st with tree := t } : St)) (fun st' => AInv st' held ∧ st'.binds = st.binds) :=
      fun r hr => SafeR.bind hr fun t' s => ⟨h.step s, rfl⟩
    have flag : ∀ (g : Win → Win), (∀ w, (g w).parent = w.parent ∧ (g w).children = w.children ∧
        (g w).focusedChild = w.focusedChild ∧ (g w).freed = w.freed ∧ (g w).refcount = w.refcount ∧
        (g w).isClosed = w.isClosed ∧ (g w).isRoot = w.isRoot) →
        SafeR (WinTree.modify st.tree a.win g >>= fun t => pure ({ st with tree := t } : St))
          (fun st' => AInv st' held ∧ st'.binds = st.binds) :=
      fun g hg => stepTo _ (modify_flag_safe h.tree h.drag hAl g hg)
    have hatt : (a.act = .raise ∨ a.act = .raiseFront ∨ a.act = .lower ∨ a.act = .lowerBack ∨ a.act = .focus) →
        Att st.tree a.win := by
      intro hk
      have hal' := hal
      unfold allowed at hal'
      simp only [hw, hf, Bool.false_eq_true, if_false] at hal'
      rcases hk with hk | hk | hk | hk | hk <;> simp only [hk] at hal' <;> exact attached_att h.tree _ _ hal'
    rcases ha with ha | ha | ha | ha | ha | ha | ha | ha | ha | ha | ha | ha | ⟨dt, dl, dn, dc, ha⟩ <;> simp only [ha]
    rotate_right 6
    · exact stepTo _ ((request_safe h.tree h.drag _ (Or.inl rfl) hAl (hatt (Or.inl ha))).mono fun _ x => x.1)
    · exact stepTo _ ((request_safe h.tree h.drag _ (Or.inr (Or.inl rfl)) hAl (hatt (Or.inr (Or.inl ha)))).mono fun _ x => x.1)
    · exact stepTo _ ((request_safe h.tree h.drag _ (Or.inr (Or.inr (Or.inl rfl))) hAl
        (hatt (Or.inr (Or.inr (Or.inl ha))))).mono fun _ x => x.1)
    · exact stepTo _ ((request_safe h.tree h.drag _ (Or.inr (Or.inr (Or.inr rfl))) hAl
        (hatt (Or.inr (Or.inr (Or.inr (Or.inl ha)))))).mono fun _ x => x.1)
    · exact stepTo _ (takeFocus_safe h.tree h.drag hAl (hatt (Or.inr (Or.inr (Or.inr (Or.inr ha))))))
    · -- set_geometry: one field of one live window
      exact flag _ (fun w => ⟨rfl, rfl, rfl, rfl, rfl, rfl, rfl⟩)
    · -- close
      apply SafeR.bind (close_safe h.tree h.drag (treeFuel st.tree) (by unfold treeFuel; omega) hw hf)
      intro t' ⟨s, _⟩
      obtain ⟨dok, ew, ec⟩ := normalizeDrag_ok t'
      exact ⟨h.step ⟨s.inv.normalizeDrag, dok, s.ev.trans (Evolve.of_wins ew)⟩, rfl⟩
    · -- unref
      unfold allowed at hal
      simp only [hw, hf, Bool.false_eq_true, if_false, ha, Bool.and_eq_true, decide_eq_true_eq, bne_iff_ne, ne_eq,
        List.isEmpty_iff] at hal
      obtain ⟨⟨ho, hne⟩, hch⟩ := hal
      have hrc := h.rc a.win w hw hf
      have hlt : a.win < st.owned.size := by
        rw [h.size]; exact (Array.getElem?_eq_some_iff.1 hw).1
      have hi0 : TInv ({ st with owned := st.owned.setIfInBounds a.win (st.owned.getD a.win 0 - 1) } : St).tree := h.tree
      refine (unref_core (st := { st with owned := st.owned.setIfInBounds a.win (st.owned.getD a.win 0 - 1) })
        hi0 h.drag hw hf (by omega) (fun _ => ⟨hch, hne⟩)).mono ?_
      intro st' ⟨hb, hoo, hi', hd', ko, w', hw', hcase⟩
      refine ⟨⟨hi', hd', by rw [hoo]; simp only [Array.size_setIfInBounds]; rw [ko.size]; exact h.size, ?_, ?_, ?_, ?_, ?_⟩, hb⟩
      rotate_left 4
      · intro i x' hx' hxf'
        by_cases hic : a.win = i
        · subst hic
          rw [hw'] at hx'; cases hx'
          rcases hcase with ⟨_, hfr⟩ | ⟨h2, _, hr, _⟩
          · rw [hfr] at hxf'; cases hxf'
          · rw [hr]; omega
        · obtain ⟨x, hx, f, r, _⟩ := ko.back (fun e => hic e.symm) hx'
          rw [r]; exact h.pos i x hx (by rw [← f]; exact hxf')
      · intro i x' hx' hxf'
        rw [hoo, getD_setIfInBounds hlt]
        by_cases hic : a.win = i
        · subst hic
          simp only [if_true]
          rw [hw'] at hx'; cases hx'
          rcases hcase with ⟨_, hfr⟩ | ⟨_, _, hr, _⟩
          · rw [hfr] at hxf'; cases hxf'
          · rw [hr]; omega
        · simp only [hic, if_false]
          obtain ⟨x, hx, f, r, _⟩ := ko.back (fun e => hic e.symm) hx'
          rw [r]; exact h.rc i x hx (by rw [← f]; exact hxf')
      · intro i x' hx' hxf' hoi
        rw [hoo, getD_setIfInBounds hlt] at hoi
        by_cases hic : a.win = i
        · subst hic
          rw [hw'] at hx'; cases hx'
          rcases hcase with ⟨_, hfr⟩ | ⟨_, _, _, hcc⟩
          · rw [hfr] at hxf'; cases hxf'
          · rw [hcc]; exact hch
        · simp only [hic, if_false] at hoi
          obtain ⟨x, hx, f, _, cc⟩ := ko.back (fun e => hic e.symm) hx'
          exact cc (h.leaf i x hx (by rw [← f]; exact hxf') hoi)
      · intro x hx
        by_cases hxc : x = a.win
        · rw [hxc] at hx ⊢
          have hcnt : 1 ≤ List.count a.win held := List.count_pos_iff.2 hx
          rcases hcase with ⟨hr1, _⟩ | ⟨_, hfr, _, _⟩
          · omega
          · exact ⟨w', hw', hfr⟩
        · obtain ⟨y, hy, hyf⟩ := h.held x hx
          obtain ⟨y', hy', f, _, _⟩ := ko.win x y hxc hy
          exact ⟨y', hy', by rw [f]; exact hyf⟩
      · rw [hoo, getD_setIfInBounds hlt, if_neg hne]; exact h.root
    · -- keep
      unfold WinTree.ref
      rw [modify_ok hw hf]
      simp only [res_bind_ok, res_pure]
      have hlt : a.win < st.owned.size := by
        rw [h.size]; exact (Array.getElem?_eq_some_iff.1 hw).1
      have sh := shape_set_rc hw (w.refcount + 1)
      refine ⟨⟨h.tree.shape sh, h.drag.shape sh rfl, by simpa using h.size, ?_, ?_, ?_, ?_, ?_⟩, rfl⟩
      rotate_left 4
      · intro i x hx hxf
        rcases wins_set_cases hw i x hx with ⟨_, rfl⟩ | ⟨_, hx0⟩
        · have := h.pos a.win w hw hf
          simp only; omega
        · exact h.pos i x hx0 hxf
      · intro i x hx hxf
        rw [getD_setIfInBounds hlt]
        rcases wins_set_cases hw i x hx with ⟨hi', rfl⟩ | ⟨hne, hx0⟩
        · rw [hi', if_pos rfl]
          have := h.rc a.win w hw hf
          simp only at this ⊢
          omega
        · rw [if_neg (fun e => hne (Eq.symm e))]
          exact h.rc i x hx0 hxf
      · intro i x hx hxf ho
        rw [getD_setIfInBounds hlt] at ho
        rcases wins_set_cases hw i x hx with ⟨hi', rfl⟩ | ⟨hne, hx0⟩
        · rw [hi', if_pos rfl] at ho; omega
        · rw [if_neg (fun e => hne (Eq.symm e))] at ho
          exact h.leaf i x hx0 hxf ho
      · intro x hx
        exact alive_set (w' := { w with refcount := w.refcount + 1 }) hw rfl (h.held x hx)
      · rw [getD_setIfInBounds hlt]
        split
        · have := h.root; omega
        · exact h.root
    · exact stepTo _ (hide_safe h.tree h.drag _ hAl)
    · exact stepTo _ (show_safe h.tree h.drag _ hAl)
    · exact flag _ (fun w => ⟨rfl, rfl, rfl, rfl, rfl, rfl, rfl⟩)
    · exact flag _ (fun w => ⟨rfl, rfl, rfl, rfl, rfl, rfl, rfl⟩)
  · simp only [hal, Bool.not_false, if_true]
    exact ⟨⟨h.tree, h.drag, h.size, h.rc, h.leaf, h.held, h.root, h.pos⟩, rfl⟩

/-- What a step of the dispatcher must deliver. -/
def Good (held : List WinTree.Id) (st : St) : Prop := AInv st held ∧ TableOK st.binds

theorem doActions_safe : ∀ (as : List Action) (st : St) (held : List WinTree.Id), Good held st → (∀ a ∈ as, ActOK a) →
    SafeR (doActions st as) (Good held) := by
  intro as
  induction as with
  | nil => intro st held h _; exact h
  | cons a rest ih =>
    intro st held h ha
    simp only [doActions]
    apply SafeR.bind (doAction_safe h.1 (ha a (List.mem_cons_self ..)))
    intro st1 ⟨h1, hb⟩
    exact ih st1 held ⟨h1, by rw [hb]; exact h.2⟩ (fun a' ha' => ha a' (List.mem_cons_of_mem _ ha'))

theorem runBindings_safe (kind : Kind) (win : WinTree.Id) (ev : Ev) : ∀ (idxs : List Nat) (st : St) (held : List WinTree.Id),
    Good held st → SafeR (runBindings st kind win ev idxs) (fun p => Good held p.1) := by
  intro idxs
  induction idxs with
  | nil => intro st held h; exact h
  | cons bi rest ih =>
    intro st held h
    unfold runBindings
    cases hb : st.binds[bi]? with
    | none => simp only []; exact ih st held h
    | some b =>
      simp only []
      by_cases hg : b.gone = true
      · simp only [hg, if_true]; exact ih st held h
      simp only [hg, Bool.false_eq_true, if_false]
      have g1 : Good held (({ st with binds := st.binds.setIfInBounds bi b.fired } : St).say
          (.call kind win b.idx (entryIndex b) b.entry.ret ev)) :=
        ⟨⟨h.1.tree, h.1.drag, h.1.size, h.1.rc, h.1.leaf, h.1.held, h.1.root, h.1.pos⟩, h.2.fired hb⟩
      apply SafeR.bind (doActions_safe _ _ held g1 (h.2.entry hb))
      intro st1 h1
      split
      · exact h1
      · exact ih st1 held h1

theorem runHandlers_safe (kind : Kind) (win : WinTree.Id) (ev : Ev) (st : St) (held : List WinTree.Id) (h : Good held st) :
    SafeR (runHandlers st kind win ev) (fun p => Good held p.1) := by
  unfold runHandlers
  exact runBindings_safe kind win ev _ _ held
    ⟨⟨h.1.tree, h.1.drag, h.1.size, h.1.rc, h.1.leaf, h.1.held, h.1.root, h.1.pos⟩, h.2⟩

theorem isShown_safe {t : Tree} (hi : TInv t) : ∀ (f : Nat) (i : WinTree.Id), Alive t i →
    SafeR (isShown t f i) (fun _ => True) := by
  intro f
  induction f with
  | zero => intro i _; exact Or.inl rfl
  | succ f ih =>
    intro i ha
    obtain ⟨w, hg, hw, hf⟩ := ha.get
    unfold isShown
    simp only [hg, res_bind_ok]
    split
    · trivial
    · cases hp : w.parent with
      | none => trivial
      | some p =>
        obtain ⟨pw, hpw, hpf, _⟩ := hi.parent i p w hw hf hp
        exact ih p ⟨pw, hpw, hpf⟩

theorem refAll_safe : ∀ (cs : List WinTree.Id) (st : St) (held : List WinTree.Id), Good held st →
    (∀ c ∈ cs, Alive st.tree c) → SafeR (refAll st cs) (Good (cs ++ held)) := by
  intro cs
  induction cs with
  | nil => intro st held h _; exact h
  | cons c rest ih =>
    intro st held h hal
    simp only [refAll]
    obtain ⟨st1, e1, h1, hb⟩ := h.1.ref (hal c (List.mem_cons_self ..))
    rw [e1]
    simp only [res_bind_ok]
    have hal1 : ∀ c' ∈ rest, Alive st1.tree c' := by
      intro c' hc'
      have := hal c' (List.mem_cons_of_mem _ hc')
      -- taking a reference keeps everybody alive
      obtain ⟨w, hg, e⟩ := refWin_eq_ok e1
      rw [e]
      exact alive_set (w' := { w with refcount := w.refcount + 1 }) (get_eq_ok.1 hg).1 rfl this
    refine (ih st1 (c :: held) ⟨h1, by rw [hb]; exact h.2⟩ hal1).mono ?_
    intro st2 h2
    refine ⟨h2.1.perm ?_, h2.2⟩
    simp only [List.cons_append]
    exact List.perm_middle

theorem unrefAll_safe : ∀ (cs : List WinTree.Id) (st : St) (held : List WinTree.Id), Good (cs ++ held) st →
    SafeR (unrefAll st cs) (Good held) := by
  intro cs
  induction cs with
  | nil => intro st held h; exact h
  | cons c rest ih =>
    intro st held h
    simp only [unrefAll]
    have h' : AInv st (c :: (rest ++ held)) := h.1
    apply SafeR.bind h'.release
    intro st1 ⟨h1, hb⟩
    exact ih st1 held ⟨h1, by rw [hb]; exact h.2⟩

/-! ### `_handle_key` under mutating handlers -/

def KeyRecSafe (rec : KeyRec) : Prop :=
  ∀ (st : St) (c : WinTree.Id) (ev : Ev) (held : List WinTree.Id), Good held st → Alive st.tree c →
    SafeO (rec st c ev) (fun p => Good held p.1)

theorem firstClaim_safe {a : Out (St × Bool)} {k : St → Out (St × Bool)} {Q : St → Prop}
    (ha : SafeO a (fun p => Q p.1)) (hk : ∀ st, Q st → SafeO (k st) (fun p => Q p.1)) :
    SafeO (firstClaim a k) (fun p => Q p.1) := by
  unfold firstClaim
  apply SafeO.bind ha
  intro ⟨st1, d1⟩ h1
  cases d1 with
  | true => exact h1
  | false => exact hk st1 h1

theorem keySteal_safe {rec : KeyRec} (hrec : KeyRecSafe rec) {st : St} {win : WinTree.Id} {ev : Ev} {held : List WinTree.Id}
    (h : Good held st) (hw : Alive st.tree win) : SafeO (keySteal rec st win ev) (fun p => Good held p.1) := by
  unfold keySteal
  apply SafeO.lbind (safeR_get hw)
  intro w ⟨hww, hwf⟩
  cases hc : w.children.head? with
  | none => exact h
  | some fc =>
    simp only
    have hmem : fc ∈ w.children := List.mem_of_head? hc
    obtain ⟨cw, hcw, hcf, _⟩ := h.1.tree.child win fc w hww hwf hmem
    apply SafeO.lbind (safeR_get ⟨cw, hcw, hcf⟩)
    intro fw _
    split
    · exact hrec st fc ev held h ⟨cw, hcw, hcf⟩
    · exact h

theorem keyFocus_safe {rec : KeyRec} (hrec : KeyRecSafe rec) {st : St} {win : WinTree.Id} {ev : Ev} {held : List WinTree.Id}
    (h : Good held st) (hw : Alive st.tree win) : SafeO (keyFocus rec st win ev) (fun p => Good held p.1) := by
  unfold keyFocus
  apply SafeO.lbind (safeR_get hw)
  intro w ⟨hww, hwf⟩
  cases hc : w.focusedChild with
  | none => exact h
  | some fc =>
    simp only
    have hmem := h.1.tree.focus win fc w hww hwf hc
    obtain ⟨cw, hcw, hcf, _⟩ := h.1.tree.child win fc w hww hwf hmem
    exact hrec st fc ev held h ⟨cw, hcw, hcf⟩

theorem ownVisible_safe {t : Tree} (hi : TInv t) {win : WinTree.Id} (hw : Alive t win) :
    SafeR (ownVisible Cfg.repaired t win) (fun _ => True) := by
  unfold ownVisible
  simp only [Cfg.repaired, if_true]
  exact isShown_safe hi _ win hw

theorem keyOwn_safe {st : St} {win : WinTree.Id} {ev : Ev} {held : List WinTree.Id} (h : Good held st)
    (hw : Alive st.tree win) : SafeO (keyOwn Cfg.repaired st win ev) (fun p => Good held p.1) := by
  unfold keyOwn
  apply SafeO.lbind (ownVisible_safe h.1.tree hw)
  intro own _
  split
  · exact SafeO.lift (runHandlers_safe .key win ev st held h)
  · exact h

theorem keySnap_safe {rec : KeyRec} (hrec : KeyRecSafe rec) (win : WinTree.Id) (ev : Ev) (held : List WinTree.Id)
    (hwin : win ∈ held) : ∀ (cs : List WinTree.Id) (st : St), Good held st → (∀ c ∈ cs, c ∈ held) →
    SafeO (keySnap rec st win cs ev) (fun p => Good held p.1) := by
  intro cs
  induction cs with
  | nil => intro st h _; exact h
  | cons c rest ih =>
    intro st h hsub
    have hrest : ∀ c' ∈ rest, c' ∈ held := fun c' hc' => hsub c' (List.mem_cons_of_mem _ hc')
    simp only [keySnap]
    have hca : Alive st.tree c := h.1.held c (hsub c (List.mem_cons_self ..))
    apply SafeO.lbind (safeR_get hca)
    intro cw _
    split
    · exact ih st h hrest
    · apply SafeO.lbind (safeR_get (h.1.held win hwin))
      intro w _
      split
      · exact ih st h hrest
      · apply SafeO.bind (hrec st c ev held h hca)
        intro ⟨st1, d1⟩ h1
        cases d1 with
        | true => exact h1
        | false => exact ih st1 h1 hrest

theorem keyChildren_safe {rec : KeyRec} (hrec : KeyRecSafe rec) {fuel : Nat} {st : St} {win : WinTree.Id} {ev : Ev}
    {held : List WinTree.Id} (h : Good held st) (hwin : win ∈ held) :
    SafeO (keyChildren Cfg.repaired rec fuel st win ev) (fun p => Good held p.1) := by
  unfold keyChildren
  apply SafeO.lbind (safeR_get (h.1.held win hwin))
  intro w ⟨hww, hwf⟩
  simp only [Cfg.repaired, if_true]
  have hal : ∀ c ∈ w.children, Alive st.tree c := by
    intro c hc
    obtain ⟨cw, hcw, hcf, _⟩ := h.1.tree.child win c w hww hwf hc
    exact ⟨cw, hcw, hcf⟩
  apply SafeO.lbind (refAll_safe w.children st held h hal)
  intro st4 h4
  apply SafeO.bind (keySnap_safe hrec win ev (w.children ++ held) (List.mem_append_right _ hwin) w.children st4 h4
    (fun c hc => List.mem_append_left _ hc))
  intro ⟨st5, d5⟩ h5
  apply SafeO.lbind (unrefAll_safe w.children st5 held h5)
  intro st6 h6
  exact h6

theorem handleKeyBody_safe {rec : KeyRec} (hrec : KeyRecSafe rec) (fuel : Nat) :
    KeyRecSafe (handleKeyBody Cfg.repaired rec fuel) := by
  intro st win ev held h hw
  unfold handleKeyBody
  have hvis : SafeR (entryVisible Cfg.repaired st.tree win) (fun _ => True) := by
    unfold entryVisible
    simp only [Cfg.repaired, if_true]
    exact isShown_safe h.1.tree _ win hw
  apply SafeO.lbind hvis
  intro vis _
  split
  · exact h
  · obtain ⟨st1, e1, h1, hb⟩ := h.1.ref hw
    rw [e1]
    simp only [lift_ok, out_bind_ok]
    have g1 : Good (win :: held) st1 := ⟨h1, by rw [hb]; exact h.2⟩
    have hmem : win ∈ win :: held := List.mem_cons_self ..
    have alive : ∀ st', Good (win :: held) st' → Alive st'.tree win := fun st' g => g.1.held win hmem
    apply SafeO.bind (Q := fun p => Good (win :: held) p.1)
    · refine firstClaim_safe (keySteal_safe hrec g1 (alive _ g1)) fun stA gA => ?_
      refine firstClaim_safe (keyFocus_safe hrec gA (alive _ gA)) fun stB gB => ?_
      refine firstClaim_safe (keyOwn_safe gB (alive _ gB)) fun stC gC => ?_
      exact keyChildren_safe hrec gC hmem
    · intro ⟨st5, d5⟩ g5
      unfold keyDone
      apply SafeO.lbind g5.1.release
      intro st6 ⟨h6, hb6⟩
      exact ⟨h6, by rw [hb6]; exact g5.2⟩

/-- `_handle_key` (repaired code): whatever the (covered) handlers do, no undefined behaviour, and the application
    invariant is kept — for every fuel. -/
theorem handleKey_safe : ∀ (f : Nat), KeyRecSafe (handleKey Cfg.repaired f) := by
  intro f
  induction f with
  | zero => intro st c ev held _ _; trivial
  | succ f ih => exact handleKeyBody_safe ih f

/-! ### `_handle_mouse` under mutating handlers -/

/-- The references held after a `_handle_mouse` call: the claim it returned is a counted reference. -/
def heldR (r : Option WinTree.Id) (held : List WinTree.Id) : List WinTree.Id :=
  match r with
  | some h => h :: held
  | none => held

def MouseRecSafe (rec : MouseRec) : Prop :=
  ∀ (st : St) (c : WinTree.Id) (ev : Ev) (held : List WinTree.Id), Good held st → Alive st.tree c →
    SafeO (rec st c ev) (fun p => Good (heldR p.2 held) p.1)

theorem mouseSnap_safe {rec : MouseRec} (hrec : MouseRecSafe rec) (win : WinTree.Id) (held : List WinTree.Id) :
    ∀ (cs : List WinTree.Id) (st : St) (ev : Ev), Good held st → (∀ c ∈ cs, c ∈ held) →
    SafeO (mouseSnap rec st win cs ev) (fun p => Good (heldR p.2 held) p.1) := by
  intro cs
  induction cs with
  | nil => intro st ev h _; exact h
  | cons c rest ih =>
    intro st ev h hsub
    have hrest : ∀ c' ∈ rest, c' ∈ held := fun c' hc' => hsub c' (List.mem_cons_of_mem _ hc')
    simp only [mouseSnap]
    have hca : Alive st.tree c := h.1.held c (hsub c (List.mem_cons_self ..))
    apply SafeO.lbind (safeR_get hca)
    intro cw _
    split
    · exact ih st ev h hrest
    · split
      · exact ih st ev h hrest
      · apply SafeO.bind (hrec st c (ev.toChild cw) held h hca)
        intro ⟨st1, r1⟩ h1
        cases r1 with
        | some hh => exact h1
        | none => exact ih st1 ev h1 hrest

theorem mouseChildren_safe {rec : MouseRec} (hrec : MouseRecSafe rec) {fuel : Nat} {st : St} {win : WinTree.Id} {ev : Ev}
    {held : List WinTree.Id} (h : Good held st) (hwin : win ∈ held) :
    SafeO (mouseChildren Cfg.repaired rec fuel st win ev) (fun p => Good (heldR p.2 held) p.1) := by
  unfold mouseChildren
  apply SafeO.lbind (safeR_get (h.1.held win hwin))
  intro w ⟨hww, hwf⟩
  simp only [Cfg.repaired, if_true]
  have hal : ∀ c ∈ w.children, Alive st.tree c := by
    intro c hc
    obtain ⟨cw, hcw, hcf, _⟩ := h.1.tree.child win c w hww hwf hc
    exact ⟨cw, hcw, hcf⟩
  apply SafeO.lbind (refAll_safe w.children st held h hal)
  intro st4 h4
  apply SafeO.bind (mouseSnap_safe hrec win (w.children ++ held) w.children st4 ev h4
    (fun c hc => List.mem_append_left _ hc))
  intro ⟨st5, r5⟩ h5
  have h5' : Good (w.children ++ heldR r5 held) st5 := by
    cases r5 with
    | none => exact h5
    | some hh => exact ⟨h5.1.perm List.perm_middle.symm, h5.2⟩
  apply SafeO.lbind (unrefAll_safe w.children st5 (heldR r5 held) h5')
  intro st6 h6
  exact h6

theorem mouseOwn_safe {st : St} {win : WinTree.Id} {ev : Ev} {held : List WinTree.Id} (h : Good held st)
    (hwin : win ∈ held) : SafeO (mouseOwn Cfg.repaired st win ev) (fun p => Good (heldR p.2 held) p.1) := by
  unfold mouseOwn
  apply SafeO.lbind (ownVisible_safe h.1.tree (h.1.held win hwin))
  intro own _
  split
  · exact h
  · apply SafeO.lbind (runHandlers_safe .mouse win ev st held h)
    intro ⟨st1, d1⟩ h1
    cases d1 with
    | false => exact h1
    | true =>
      simp only [Bool.not_true, Bool.false_eq_true, if_false, Cfg.repaired, if_true]
      obtain ⟨st2, e2, h2, hb⟩ := h1.1.ref (h1.1.held win hwin)
      rw [e2]
      simp only [lift_ok, out_bind_ok]
      exact ⟨h2, by rw [hb]; exact h1.2⟩

theorem handleMouseBody_safe {rec : MouseRec} (hrec : MouseRecSafe rec) (fuel : Nat) :
    MouseRecSafe (handleMouseBody Cfg.repaired rec fuel) := by
  intro st win ev held h hw
  unfold handleMouseBody
  have hvis : SafeR (entryVisible Cfg.repaired st.tree win) (fun _ => True) := by
    unfold entryVisible
    simp only [Cfg.repaired, if_true]
    exact isShown_safe h.1.tree _ win hw
  apply SafeO.lbind hvis
  intro vis _
  split
  · exact h
  · obtain ⟨st1, e1, h1, hb⟩ := h.1.ref hw
    rw [e1]
    simp only [lift_ok, out_bind_ok]
    have g1 : Good (win :: held) st1 := ⟨h1, by rw [hb]; exact h.2⟩
    have hmem : win ∈ win :: held := List.mem_cons_self ..
    apply SafeO.bind (mouseChildren_safe hrec g1 hmem)
    intro ⟨st2, r2⟩ g2
    apply SafeO.bind (Q := fun p => Good (heldR p.2 (win :: held)) p.1)
    · unfold mouseSelf
      cases r2 with
      | some hh => exact g2
      | none => exact mouseOwn_safe g2 hmem
    · intro ⟨st3, r3⟩ g3
      unfold mouseDone
      have hw3 : Alive st3.tree win := by
        cases r3 with
        | none => exact g3.1.held win hmem
        | some hh => exact g3.1.held win (List.mem_cons_of_mem _ hmem)
      apply SafeO.lbind (safeR_get hw3)
      intro w3 _
      simp only [Cfg.repaired, Bool.not_true, Bool.false_and, Bool.false_eq_true, if_false]
      have g3' : AInv st3 (win :: heldR r3 held) := by
        cases r3 with
        | none => exact g3.1
        | some hh => exact g3.1.perm (List.Perm.swap _ _ _)
      apply SafeO.lbind g3'.release
      intro st4 ⟨h4, hb4⟩
      exact ⟨h4, by rw [hb4]; exact g3.2⟩

/-- `_handle_mouse` (repaired code) under the covered mutations, for every fuel. -/
theorem handleMouse_safe : ∀ (f : Nat), MouseRecSafe (handleMouse Cfg.repaired f) := by
  intro f
  induction f with
  | zero => intro st c ev held _ _; trivial
  | succ f ih => exact handleMouseBody_safe ih f

/-! ### `on_term_mouse`, `on_term_key` and the emission -/

/-- Changing only the root's mouse bookkeeping. -/
theorem AInv.rootUpdate {st : St} {held : List WinTree.Id} (h : AInv st held) {t' : Tree} (hw : t'.wins = st.tree.wins)
    (hc : t'.root.changes = st.tree.root.changes) (hd : DragOK t') : AInv { st with tree := t' } held :=
  h.step ⟨h.tree.shape ⟨hc, fun i => by rw [hw]⟩, hd, Evolve.of_wins hw⟩

theorem alive_of_wins {t t' : Tree} (hw : t'.wins = t.wins) {i : WinTree.Id} (h : Alive t i) : Alive t' i := by
  obtain ⟨w, hww, hf⟩ := h
  exact ⟨w, by rw [hw]; exact hww, hf⟩

theorem up_safe {t : Tree} (hi : TInv t) : ∀ (f : Nat) (p : Option WinTree.Id) (g : Rect),
    (∀ q, p = some q → Alive t q) → SafeR (absGeometry.up t f p g) (fun _ => True) := by
  intro f
  induction f with
  | zero => intro p g _; exact Or.inl rfl
  | succ f ih =>
    intro p g hp
    cases p with
    | none => simp only [absGeometry.up]; trivial
    | some q =>
      simp only [absGeometry.up]
      obtain ⟨qw, hg, hqw, hqf⟩ := (hp q rfl).get
      rw [hg]
      simp only [res_bind_ok]
      apply ih
      intro q' hq'
      obtain ⟨pw, hpw, hpf, _⟩ := hi.parent q q' qw hqw hqf hq'
      exact ⟨pw, hpw, hpf⟩

theorem absGeometry_safe {t : Tree} (hi : TInv t) (f : Nat) {x : WinTree.Id} (hx : Alive t x) :
    SafeR (absGeometry t f x) (fun _ => True) := by
  unfold absGeometry
  obtain ⟨w, hg, hw, hf⟩ := hx.get
  simp only [hg, res_bind_ok]
  apply up_safe hi
  intro q hq
  obtain ⟨pw, hpw, hpf, _⟩ := hi.parent x q w hw hf hq
  exact ⟨pw, hpw, hpf⟩

theorem dropResult_safe {st : St} {held : List WinTree.Id} {r : Option WinTree.Id} (h : Good (heldR r held) st) :
    SafeR (dropResult Cfg.repaired st r) (Good held) := by
  unfold dropResult
  cases r with
  | none => exact h
  | some x =>
    simp only [Cfg.repaired, if_true]
    refine (AInv.release (c := x) h.1).mono fun st' ⟨h', hb⟩ => ⟨h', by rw [hb]; exact h.2⟩

theorem dragSourceSet_safe {st : St} {held : List WinTree.Id} {src : Option WinTree.Id} (h : Good (heldR src held) st) :
    SafeR (dragSourceSet Cfg.repaired st src) (Good held) := by
  unfold dragSourceSet
  simp only [Cfg.repaired, Bool.not_true, Bool.false_eq_true, if_false]
  cases src with
  | none =>
    exact ⟨h.1.rootUpdate rfl rfl (fun d hd => by simp at hd), h.2⟩
  | some s =>
    simp only
    have hs : Alive st.tree s := h.1.held s (List.mem_cons_self ..)
    have hd : DragOK ({ st.tree with root := { st.tree.root with
        dragSource := if isWithin st.tree (treeFuel st.tree) 0 s = true then some s else none } } : Tree) := by
      intro d hdd
      simp only at hdd
      split at hdd
      · cases hdd; exact hs
      · cases hdd
    have h1 : AInv ({ st with tree := { st.tree with root := { st.tree.root with
        dragSource := if isWithin st.tree (treeFuel st.tree) 0 s = true then some s else none } } } : St) (s :: held) :=
      h.1.rootUpdate rfl rfl hd
    exact h1.release.mono fun st' ⟨h', hb⟩ => ⟨h', by rw [hb]; exact h.2⟩

theorem isAlive_of_alive {t : Tree} {i : WinTree.Id} (h : Alive t i) : isAlive t i = true := by
  obtain ⟨w, hw, hf⟩ := h
  unfold isAlive; rw [hw]; simp [hf]

theorem toDragSource_safe {fuel : Nat} {st : St} {src : WinTree.Id} {type : Int} {ev : Ev} {held : List WinTree.Id}
    (h : Good held st) (hsrc : Alive st.tree src) : SafeO (toDragSource Cfg.repaired fuel st src type ev) (Good held) := by
  unfold toDragSource
  rw [isAlive_of_alive hsrc]
  simp only [Bool.not_true, Bool.false_eq_true, if_false, out_pure, out_bind_ok]
  apply SafeO.lbind (absGeometry_safe h.1.tree _ hsrc)
  intro geom _
  apply SafeO.bind (handleMouse_safe fuel st src _ held h hsrc)
  intro ⟨st1, r⟩ h1
  exact SafeO.lift (dropResult_safe h1)

/-- Setting root bookkeeping fields that the invariant does not look at. -/
theorem Good.rootFields {st : St} {held : List WinTree.Id} (h : Good held st) (r' : Root)
    (hc : r'.changes = st.tree.root.changes) (hd : r'.dragSource = st.tree.root.dragSource) :
    Good held { st with tree := { st.tree with root := r' } } :=
  ⟨h.1.rootUpdate rfl hc (fun d hdd => alive_of_wins rfl (h.1.drag d (by rw [← hd]; exact hdd))), h.2⟩

theorem dragStop_safe {fuel : Nat} {st : St} {ev : Ev} {held : List WinTree.Id} (h : Good held st) :
    SafeO (dragStop Cfg.repaired fuel st ev) (Good held) := by
  unfold dragStop
  cases hs : st.tree.root.dragSource with
  | none => exact h
  | some src => exact toDragSource_safe h (h.1.drag src hs)

theorem dragOutside_safe {fuel : Nat} {st : St} {ev : Ev} {handled : Option WinTree.Id} {held : List WinTree.Id}
    (h : Good held st) : SafeO (dragOutside Cfg.repaired fuel st ev handled) (Good held) := by
  unfold dragOutside
  cases hs : st.tree.root.dragSource with
  | none => exact h
  | some src =>
    simp only
    split
    · exact toDragSource_safe h (h.1.drag src hs)
    · exact h

theorem dragPrelude_safe {fuel : Nat} {st : St} {ev : Ev} (h : Good [0] st) :
    SafeO (dragPrelude Cfg.repaired fuel st ev) (Good [0]) := by
  have h0 : Alive st.tree 0 := h.1.held 0 (List.mem_cons_self ..)
  unfold dragPrelude
  dsimp only
  split
  · exact h.rootFields _ rfl rfl
  · split
    · apply SafeO.bind (handleMouse_safe fuel st 0 _ [0] h h0)
      intro ⟨st1, src⟩ h1
      apply SafeO.lbind (dragSourceSet_safe h1)
      intro st2 h2
      exact h2.rootFields _ rfl rfl
    · split
      · apply SafeO.bind (handleMouse_safe fuel st 0 _ [0] h h0)
        intro ⟨st1, dropped⟩ h1
        apply SafeO.lbind (dropResult_safe h1)
        intro st2 h2
        apply SafeO.bind (dragStop_safe h2)
        intro st3 h3
        exact h3.rootFields _ rfl rfl
      · exact h

theorem onTermMouse_safe (fuel : Nat) {st : St} (ev : Ev) (h : Good [] st) :
    SafeO (onTermMouse Cfg.repaired fuel st ev) (fun p => Good [] p.1) := by
  unfold onTermMouse
  have h0 : Alive st.tree 0 := by
    obtain ⟨w0, hw0, hf0, _⟩ := h.1.tree.root
    exact ⟨w0, hw0, hf0⟩
  obtain ⟨st0, e0, g0, hb0⟩ := h.1.ref h0
  rw [e0]
  simp only [lift_ok, out_bind_ok]
  have G0 : Good [0] st0 := ⟨g0, by rw [hb0]; exact h.2⟩
  apply SafeO.bind (dragPrelude_safe G0)
  intro st1 G1
  apply SafeO.bind (handleMouse_safe fuel st1 0 ev [0] G1 (G1.1.held 0 (List.mem_cons_self ..)))
  intro ⟨st2, handled⟩ G2
  apply SafeO.bind (dragOutside_safe (handled := handled) G2)
  intro st3 G3
  apply SafeO.lbind (dropResult_safe G3)
  intro st4 G4
  apply SafeO.lbind G4.1.release
  intro st5 ⟨h5, hb5⟩
  exact ⟨h5, by rw [hb5]; exact G4.2⟩

theorem onTermKey_safe (fuel : Nat) {st : St} (ev : Ev) (h : Good [] st) :
    SafeO (onTermKey Cfg.repaired fuel st ev) (fun p => Good [] p.1) := by
  unfold onTermKey
  obtain ⟨w0, hw0, hf0, _⟩ := h.1.tree.root
  exact handleKey_safe fuel st 0 ev [] h ⟨w0, hw0, hf0⟩

theorem Good.say {held : List WinTree.Id} {st : St} (h : Good held st) (i : LogItem) : Good held (st.say i) :=
  ⟨⟨h.1.tree, h.1.drag, h.1.size, h.1.rc, h.1.leaf, h.1.held, h.1.root, h.1.pos⟩, h.2⟩

/-- `tickit_term_emit_key` / `tickit_term_emit_mouse` on the repaired code: from an application state that satisfies
    the invariant (no dispatcher reference outstanding), whatever the covered handlers do, the outcome is never an
    undefined behaviour of the C code, and the state that results satisfies the invariant again. -/
theorem emit_safe {st : St} (h : Good [] st) (ev : Ev) :
    SafeO (emitKey Cfg.repaired st ev) (Good []) ∧ SafeO (emitMouse Cfg.repaired st ev) (Good []) := by
  constructor
  · unfold emitKey
    apply SafeO.bind (onTermKey_safe _ ev h)
    intro ⟨st', handled⟩ h'
    cases handled with
    | true => exact h'
    | false => exact h'.say _
  · unfold emitMouse
    apply SafeO.bind (onTermMouse_safe _ ev h)
    intro ⟨st', handled⟩ h'
    cases handled with
    | true => exact h'
    | false => exact h'.say _

/-! ### decidable check of the invariant on a concrete state (for the non-vacuity examples) -/

def winCheck (t : Tree) (i : WinTree.Id) (w : Win) : Bool :=
  w.children.all (fun c => match t.wins[c]? with
    | some cw => !cw.freed && cw.parent == some i
    | none => false) &&
  (match w.parent with
    | none => true
    | some p => match t.wins[p]? with
      | some pw => !pw.freed && pw.children.contains i
      | none => false) &&
  (match w.focusedChild with
    | none => true
    | some f => w.children.contains f) &&
  decide w.children.Nodup && w.parent != some i && (!w.isClosed || w.parent.isNone)

def tinvCheck (t : Tree) : Bool :=
  (match t.wins[0]? with
    | some w0 => !w0.freed && w0.parent.isNone
    | none => false) &&
  t.root.changes.isEmpty &&
  (List.range t.wins.size).all fun i =>
    match t.wins[i]? with
    | none => true
    | some w => w.freed || (winCheck t i w && (match w.parent with
        | none => true
        | some p => decide (p < i)) && (w.isRoot == decide (i = 0)))

theorem tinvCheck_sound {t : Tree} (h : tinvCheck t = true) : TInv t := by
  unfold tinvCheck at h
  simp only [Bool.and_eq_true, List.all_eq_true, List.mem_range, List.isEmpty_iff] at h
  obtain ⟨⟨h0, hq⟩, hall⟩ := h
  have hw3 : ∀ (i : WinTree.Id) (w : Win), t.wins[i]? = some w → w.freed = false → winCheck t i w = true ∧
      (∀ p, w.parent = some p → p < i) ∧ (w.isRoot = true ↔ i = 0) := by
    intro i w hw hf
    have := hall i (Array.getElem?_eq_some_iff.1 hw).1
    simp only [hw, hf, Bool.false_or, Bool.and_eq_true, beq_iff_eq] at this
    obtain ⟨⟨h1, h2⟩, h3⟩ := this
    refine ⟨h1, ?_, ?_⟩
    · intro p hp; rw [hp] at h2; simpa using h2
    · rw [h3]; simp
  have hw : ∀ (i : WinTree.Id) (w : Win), t.wins[i]? = some w → w.freed = false → winCheck t i w = true :=
    fun i w h1 h2 => (hw3 i w h1 h2).1
  constructor
  · cases hw0 : t.wins[0]? with
    | none => simp [hw0] at h0
    | some w0 =>
      simp only [hw0, Bool.and_eq_true, Bool.not_eq_true', Option.isNone_iff_eq_none] at h0
      exact ⟨w0, rfl, h0.1, h0.2⟩
  · intro i c w hwi hf hc
    have := hw i w hwi hf
    simp only [winCheck, Bool.and_eq_true, List.all_eq_true] at this
    have hcc := this.1.1.1.1.1 c hc
    cases hcw : t.wins[c]? with
    | none => simp [hcw] at hcc
    | some cw =>
      simp only [hcw, Bool.and_eq_true, Bool.not_eq_true', beq_iff_eq] at hcc
      exact ⟨cw, rfl, hcc.1, hcc.2⟩
  · intro c p cw hcw hf hp
    have := hw c cw hcw hf
    simp only [winCheck, Bool.and_eq_true] at this
    have hpp := this.1.1.1.1.2
    simp only [hp] at hpp
    cases hpw : t.wins[p]? with
    | none => simp [hpw] at hpp
    | some pw =>
      simp only [hpw, Bool.and_eq_true, Bool.not_eq_true', List.contains_iff_mem] at hpp
      exact ⟨pw, rfl, hpp.1, hpp.2⟩
  · intro i f w hwi hf hfc
    have := hw i w hwi hf
    simp only [winCheck, Bool.and_eq_true] at this
    have hff := this.1.1.1.2
    simp only [hfc, List.contains_iff_mem] at hff
    exact hff
  · intro i w hwi hf
    have := hw i w hwi hf
    simp only [winCheck, Bool.and_eq_true, decide_eq_true_eq] at this
    exact this.1.1.2
  · intro i w hwi hf
    have := hw i w hwi hf
    simp only [winCheck, Bool.and_eq_true, bne_iff_ne, ne_eq] at this
    exact this.1.2
  · intro i w hwi hf hcl
    have := hw i w hwi hf
    simp only [winCheck, Bool.and_eq_true, Bool.or_eq_true, Bool.not_eq_true', Option.isNone_iff_eq_none] at this
    rcases this.2 with h1 | h1
    · rw [hcl] at h1; cases h1
    · exact h1
  · intro c p cw hcw hf hp
    exact (hw3 c cw hcw hf).2.1 p hp
  · intro i w hwi hf
    exact (hw3 i w hwi hf).2.2
  · intro r hr
    rw [hq] at hr; cases hr
  · intro r hr
    rw [hq] at hr; cases hr

def ainvCheck (st : St) : Bool :=
  tinvCheck st.tree &&
  (match st.tree.root.dragSource with
    | none => true
    | some d => isAlive st.tree d) &&
  st.owned.size == st.tree.wins.size &&
  decide (1 ≤ st.owned.getD 0 0) &&
  (List.range st.tree.wins.size).all fun i =>
    match st.tree.wins[i]? with
    | none => true
    | some w => w.freed || (decide (w.refcount = (st.owned.getD i 0 : Int)) && decide (1 ≤ w.refcount) &&
        (decide (st.owned.getD i 0 ≠ 0) || w.children.isEmpty))

theorem ainvCheck_sound {st : St} (h : ainvCheck st = true) : AInv st [] := by
  unfold ainvCheck at h
  simp only [Bool.and_eq_true, List.all_eq_true, List.mem_range, beq_iff_eq, decide_eq_true_eq] at h
  obtain ⟨⟨⟨⟨ht, hd⟩, hs⟩, hr⟩, hall⟩ := h
  have hw : ∀ (i : WinTree.Id) (w : Win), st.tree.wins[i]? = some w → w.freed = false →
      (w.refcount = (st.owned.getD i 0 : Int) ∧ 1 ≤ w.refcount) ∧ (st.owned.getD i 0 ≠ 0 ∨ w.children = []) := by
    intro i w hw hf
    have := hall i (Array.getElem?_eq_some_iff.1 hw).1
    simp only [hw, hf, Bool.false_or, Bool.and_eq_true, decide_eq_true_eq, Bool.or_eq_true, List.isEmpty_iff] at this
    exact this
  refine ⟨tinvCheck_sound ht, ?_, hs, ?_, ?_, fun x hx => (by cases hx), hr, ?_⟩
  rotate_left 3
  · intro i w hwi hf
    exact (hw i w hwi hf).1.2
  · intro d hdd
    rw [hdd] at hd
    simp only at hd
    unfold isAlive at hd
    cases hwd : st.tree.wins[d]? with
    | none => simp [hwd] at hd
    | some w => simp only [hwd] at hd; exact ⟨w, hwd, by simpa using hd⟩
  · intro i w hwi hf
    have := (hw i w hwi hf).1.1
    simp only [List.count_nil]
    omega
  · intro i w hwi hf ho
    rcases (hw i w hwi hf).2 with h1 | h1
    · exact absurd ho h1
    · exact h1

def tableCheck (binds : Array Binding) : Bool :=
  binds.toList.all fun b => b.entries.all fun e => e.actions.all fun a =>
    a.act == .close || a.act == .unref || a.act == .keep || a.act == .hide || a.act == .unhide ||
      a.act == .stealOn || a.act == .stealOff

theorem tableCheck_sound {binds : Array Binding} (h : tableCheck binds = true) : TableOK binds := by
  intro i b hb e he a ha
  unfold tableCheck at h
  rw [List.all_eq_true] at h
  have hm : b ∈ binds.toList := by
    rw [Array.mem_toList_iff]; exact Array.mem_of_getElem? hb
  have := h b hm
  rw [List.all_eq_true] at this
  have := this e he
  rw [List.all_eq_true] at this
  have := this a ha
  simp only [Bool.or_eq_true, beq_iff_eq] at this
  unfold ActOK
  rcases this with ((((((h1 | h1) | h1) | h1) | h1) | h1) | h1) <;> simp [h1]

/-! ### the states the engine builds satisfy the invariant -/

theorem newSt_good (lines cols : Int) : Good [] (newSt lines cols) := by
  refine ⟨?_, fun i b hb => by simp [newSt] at hb⟩
  have hwins : (newSt lines cols).tree.wins = #[({ rect := ⟨0, 0, lines, cols⟩, isRoot := true } : Win)] := rfl
  have only0 : ∀ (i : WinTree.Id) (w : Win), (newSt lines cols).tree.wins[i]? = some w →
      i = 0 ∧ w = ({ rect := ⟨0, 0, lines, cols⟩, isRoot := true } : Win) := by
    intro i w hw
    rw [hwins] at hw
    have hi : i < 1 := (Array.getElem?_eq_some_iff.1 hw).1
    have : i = 0 := Nat.lt_one_iff.1 hi
    subst this
    simp at hw
    exact ⟨rfl, hw.symm⟩
  have hq : (newSt lines cols).tree.root.changes = [] := by
    unfold newSt newRoot; split <;> rfl
  have hdr : (newSt lines cols).tree.root.dragSource = none := by
    unfold newSt newRoot; split <;> rfl
  constructor
  · constructor
    · exact ⟨_, by rw [hwins]; rfl, rfl, rfl⟩
    · intro i c w hw _ hc
      obtain ⟨_, rfl⟩ := only0 i w hw
      cases hc
    · intro c p cw hw _ hp
      obtain ⟨_, rfl⟩ := only0 c cw hw
      cases hp
    · intro i f w hw _ hf
      obtain ⟨_, rfl⟩ := only0 i w hw
      cases hf
    · intro i w hw _
      obtain ⟨_, rfl⟩ := only0 i w hw
      exact List.nodup_nil
    · intro i w hw _
      obtain ⟨_, rfl⟩ := only0 i w hw
      simp
    · intro i w hw _ hcl
      obtain ⟨_, rfl⟩ := only0 i w hw
      cases hcl
    · intro c p cw hw _ hp
      obtain ⟨_, rfl⟩ := only0 c cw hw
      cases hp
    · intro i w hw _
      obtain ⟨hi0, rfl⟩ := only0 i w hw
      simp [hi0]
    · intro r hr
      rw [hq] at hr; cases hr
    · intro r hr
      rw [hq] at hr; cases hr
  · intro d hd; rw [hdr] at hd; cases hd
  · rfl
  · intro i w hw _
    obtain ⟨rfl, rfl⟩ := only0 i w hw
    rfl
  · intro i w hw _ ho
    obtain ⟨rfl, rfl⟩ := only0 i w hw
    rfl
  · intro x hx; cases hx
  · exact Nat.le_refl 1
  · intro i w hw _
    obtain ⟨_, rfl⟩ := only0 i w hw
    exact Int.le_refl 1

theorem addBinding_good {st : St} (h : Good [] st) (win : WinTree.Id) (kind : Kind) (es : List Entry)
    (hes : ∀ e ∈ es, ∀ a ∈ e.actions, ActOK a) (os : Bool := false) : Good [] (addBinding st win kind es os).1 := by
  refine ⟨⟨h.1.tree, h.1.drag, h.1.size, h.1.rc, h.1.leaf, h.1.held, h.1.root, h.1.pos⟩, ?_⟩
  intro i b hb e he
  simp only [addBinding] at hb
  rw [Array.getElem?_push] at hb
  split at hb
  · cases hb; exact hes e he
  · exact h.2 i b hb e he

/-- The body of `tickit_window_new` after the ROOT_PARENT walk. -/
def insertNew (t : Tree) (fuel : Nat) (hidden lowest steal : Bool) (pr : WinTree.Id × Rect) : Res (Tree × WinTree.Id) :=
  match pr with
  | (parent, rect) => do
    let _ ← WinTree.get t parent
    let id := t.wins.size
    let w : Win := { parent := some parent, rect := rect, isVisible := !hidden, stealInput := steal }
    let t := { t with wins := t.wins.push w }
    let t ← doHierarchyChange t fuel (if lowest then .insertLast else .insertFirst) parent id
    pure (t, id)

theorem newWindow_eq (t : Tree) (f : Nat) (p : WinTree.Id) (r : Rect) (rp hid low st : Bool) :
    newWindow t f p r rp hid low st =
      if rp then (newWindow.climb t f p r >>= insertNew t f hid low st) else insertNew t f hid low st (p, r) := by
  unfold newWindow insertNew
  cases rp <;> rfl

theorem climb_safe {t : Tree} (hi : TInv t) : ∀ (f : Nat) (p : WinTree.Id) (r : Rect), Alive t p →
    SafeR (newWindow.climb t f p r) (fun pr => Alive t pr.1) := by
  intro f
  induction f with
  | zero => intro p r _; exact Or.inl rfl
  | succ f ih =>
    intro p r hp
    obtain ⟨pw, hg, hpw, hpf⟩ := hp.get
    simp only [newWindow.climb, hg, res_bind_ok]
    cases hpp : pw.parent with
    | none => exact ⟨pw, hpw, hpf⟩
    | some pp =>
      obtain ⟨qw, hqw, hqf, _⟩ := hi.parent p pp pw hpw hpf hpp
      exact ih pp _ ⟨qw, hqw, hqf⟩

/-- The store after a new window `id = size` with parent `p` has been pushed and linked into `p`'s children
    (`cs'` is `id :: cs` or `cs ++ [id]`). -/
theorem insert_step {t : Tree} (hi : TInv t) (hd : DragOK t) {p : WinTree.Id} {pw : Win} (hpw : t.wins[p]? = some pw)
    (hpf : pw.freed = false) (wn : Win) (hwp : wn.parent = some p) (hwc : wn.children = []) (hwf : wn.freed = false)
    (hwfo : wn.focusedChild = none) (hwcl : wn.isClosed = false) (hwr : wn.isRoot = false) (cs' : List WinTree.Id)
    (hcs : ∀ c, c ∈ cs' ↔ c = t.wins.size ∨ c ∈ pw.children) (hnd : cs'.Nodup) :
    let t2 := WinTree.set { t with wins := t.wins.push wn } p { pw with children := cs' }
    TInv t2 ∧ DragOK t2 ∧ t2.wins.size = t.wins.size + 1 ∧ t2.wins[t.wins.size]? = some wn ∧
      (∀ (j : WinTree.Id) (x : Win), t.wins[j]? = some x → ∃ x', t2.wins[j]? = some x' ∧ x'.freed = x.freed ∧
        x'.refcount = x.refcount ∧ (j ≠ p → x'.children = x.children)) ∧
      (∀ (j : WinTree.Id) (x' : Win), t2.wins[j]? = some x' → j = t.wins.size ∨ ∃ x, t.wins[j]? = some x) := by
  intro t2
  have hplt : p < t.wins.size := (Array.getElem?_eq_some_iff.1 hpw).1
  have hpne : p ≠ t.wins.size := Nat.ne_of_lt hplt
  have hp1 : ({ t with wins := t.wins.push wn } : Tree).wins[p]? = some pw := by
    simp only [Array.getElem?_push, hpne, if_false]; exact hpw
  have atId : t2.wins[t.wins.size]? = some wn := by
    show (WinTree.set _ p _).wins[t.wins.size]? = some wn
    rw [wins_set_ne hpne]
    simp [Array.getElem?_push]
  have atP : t2.wins[p]? = some { pw with children := cs' } := wins_set_self hp1
  have atOld : ∀ j, j ≠ p → j ≠ t.wins.size → t2.wins[j]? = t.wins[j]? := by
    intro j h1 h2
    show (WinTree.set _ p _).wins[j]? = _
    rw [wins_set_ne (fun h => h1 h.symm)]
    simp [Array.getElem?_push, h2]
  have look : ∀ (j : WinTree.Id) (x : Win), t2.wins[j]? = some x →
      (j = t.wins.size ∧ x = wn) ∨ (j = p ∧ x = { pw with children := cs' }) ∨
      (j ≠ t.wins.size ∧ j ≠ p ∧ t.wins[j]? = some x) := by
    intro j x hx
    by_cases h1 : j = t.wins.size
    · subst h1; rw [atId] at hx; cases hx; exact Or.inl ⟨rfl, rfl⟩
    · by_cases h2 : j = p
      · subst h2; rw [atP] at hx; cases hx; exact Or.inr (Or.inl ⟨rfl, rfl⟩)
      · rw [atOld j h2 h1] at hx; exact Or.inr (Or.inr ⟨h1, h2, hx⟩)
  have oldlt : ∀ (j : WinTree.Id) (x : Win), t.wins[j]? = some x → j ≠ t.wins.size := by
    intro j x hx h
    have hlt : j < t.wins.size := (Array.getElem?_eq_some_iff.1 hx).1
    exact Nat.ne_of_lt hlt h
  have keep : ∀ (j : WinTree.Id) (x : Win), t.wins[j]? = some x → ∃ x', t2.wins[j]? = some x' ∧ x'.freed = x.freed ∧
      x'.refcount = x.refcount ∧ x'.parent = x.parent ∧ (j ≠ p → x'.children = x.children) := by
    intro j x hx
    by_cases h2 : j = p
    · subst h2; rw [hpw] at hx; cases hx
      exact ⟨_, atP, rfl, rfl, rfl, fun h => absurd rfl h⟩
    · exact ⟨x, by rw [atOld j h2 (oldlt j x hx)]; exact hx, rfl, rfl, rfl, fun _ => rfl⟩
  refine ⟨?_, ?_, by show (WinTree.set _ p _).wins.size = _; simp, atId, ?_, ?_⟩
  · constructor
    · obtain ⟨w0, hw0, hf0, hp0⟩ := hi.root
      obtain ⟨x', hx', f, _, pp, _⟩ := keep 0 w0 hw0
      exact ⟨x', hx', by rw [f]; exact hf0, by rw [pp]; exact hp0⟩
    · intro i c x hx hxf hc
      rcases look i x hx with ⟨rfl, rfl⟩ | ⟨rfl, rfl⟩ | ⟨h1, h2, h3⟩
      · rw [hwc] at hc; cases hc
      · rcases (hcs c).1 hc with rfl | hc'
        · exact ⟨wn, atId, hwf, hwp⟩
        · obtain ⟨cw, hcw, hcf, hcp⟩ := hi.child i c pw hpw hpf hc'
          obtain ⟨x', hx', f, _, pp, _⟩ := keep c cw hcw
          exact ⟨x', hx', by rw [f]; exact hcf, by rw [pp]; exact hcp⟩
      · obtain ⟨cw, hcw, hcf, hcp⟩ := hi.child i c x h3 hxf hc
        obtain ⟨x', hx', f, _, pp, _⟩ := keep c cw hcw
        exact ⟨x', hx', by rw [f]; exact hcf, by rw [pp]; exact hcp⟩
    · intro c q x hx hxf hq
      rcases look c x hx with ⟨rfl, rfl⟩ | ⟨rfl, rfl⟩ | ⟨h1, h2, h3⟩
      · rw [hwp] at hq; cases hq
        exact ⟨_, atP, hpf, (hcs _).2 (Or.inl rfl)⟩
      · obtain ⟨qw, hqw, hqf, hqm⟩ := hi.parent c q pw hpw hpf hq
        have hqc : q ≠ c := fun h => hi.noself c pw hpw hpf (by rw [hq, h])
        obtain ⟨x', hx', f, _, _, cc⟩ := keep q qw hqw
        exact ⟨x', hx', by rw [f]; exact hqf, by rw [cc hqc]; exact hqm⟩
      · obtain ⟨qw, hqw, hqf, hqm⟩ := hi.parent c q x h3 hxf hq
        by_cases hqp : q = p
        · subst hqp; rw [hpw] at hqw; cases hqw
          exact ⟨_, atP, hpf, (hcs c).2 (Or.inr hqm)⟩
        · obtain ⟨x', hx', f, _, _, cc⟩ := keep q qw hqw
          exact ⟨x', hx', by rw [f]; exact hqf, by rw [cc hqp]; exact hqm⟩
    · intro i f x hx hxf hfc
      rcases look i x hx with ⟨rfl, rfl⟩ | ⟨rfl, rfl⟩ | ⟨h1, h2, h3⟩
      · rw [hwfo] at hfc; cases hfc
      · exact (hcs f).2 (Or.inr (hi.focus i f pw hpw hpf hfc))
      · exact hi.focus i f x h3 hxf hfc
    · intro i x hx hxf
      rcases look i x hx with ⟨rfl, rfl⟩ | ⟨rfl, rfl⟩ | ⟨h1, h2, h3⟩
      · rw [hwc]; exact List.nodup_nil
      · exact hnd
      · exact hi.nodup i x h3 hxf
    · intro i x hx hxf
      rcases look i x hx with ⟨rfl, rfl⟩ | ⟨rfl, rfl⟩ | ⟨h1, h2, h3⟩
      · rw [hwp]; intro h; cases h; exact hpne rfl
      · exact hi.noself i pw hpw hpf
      · exact hi.noself i x h3 hxf
    · intro i x hx hxf hcl
      rcases look i x hx with ⟨rfl, rfl⟩ | ⟨rfl, rfl⟩ | ⟨h1, h2, h3⟩
      · rw [hwcl] at hcl; cases hcl
      · exact hi.closed i pw hpw hpf hcl
      · exact hi.closed i x h3 hxf hcl
    · intro c q x hx hxf hq
      rcases look c x hx with ⟨rfl, rfl⟩ | ⟨rfl, rfl⟩ | ⟨h1, h2, h3⟩
      · rw [hwp] at hq; cases hq; exact hplt
      · exact hi.lt c q pw hpw hpf hq
      · exact hi.lt c q x h3 hxf hq
    · intro i x hx hxf
      rcases look i x hx with ⟨rfl, rfl⟩ | ⟨rfl, rfl⟩ | ⟨h1, h2, h3⟩
      · rw [hwr]
        constructor
        · intro h; cases h
        · intro h; exact absurd (h ▸ hplt) (Nat.not_lt_zero p)
      · exact hi.rootflag i pw hpw hpf
      · exact hi.rootflag i x h3 hxf
    · intro r hr
      have hr0 : r ∈ t.root.changes := hr
      obtain ⟨x, hx, hxf, hxp, ha⟩ := hi.queue r hr0
      obtain ⟨x', hx', f, _, pp, _⟩ := keep r.win x hx
      refine ⟨x', hx', by rw [f]; exact hxf, by rw [pp]; exact hxp, ha.keep ?_⟩
      intro y yw hy hyf _
      obtain ⟨y', hy', f', _, pp', _⟩ := keep y yw hy
      exact ⟨y', hy', by rw [f']; exact hyf, pp'⟩
    · exact hi.qkind
  · intro d hdd
    obtain ⟨x, hx, hxf⟩ := hd d hdd
    obtain ⟨x', hx', f, _, _, _⟩ := keep d x hx
    exact ⟨x', hx', by rw [f]; exact hxf⟩
  · intro j x hx
    obtain ⟨x', hx', f, r, _, cc⟩ := keep j x hx
    exact ⟨x', hx', f, r, cc⟩
  · intro j x' hx'
    rcases look j x' hx' with ⟨rfl, _⟩ | ⟨rfl, _⟩ | ⟨_, _, h3⟩
    · exact Or.inl rfl
    · exact Or.inr ⟨pw, hpw⟩
    · exact Or.inr ⟨x', h3⟩

theorem getD_push {a : Array Nat} {j : Nat} {v : Nat} : (a.push v).getD j 0 = if j = a.size then v else a.getD j 0 := by
  simp only [Array.getD_eq_getD_getElem?, Array.getElem?_push]
  split <;> rfl

/-- `tickit_window_new` by the application, outside any dispatch. -/
theorem newWin_good {st : St} (h : Good [] st) {parent : WinTree.Id} (hp : Alive st.tree parent) (rect : Rect)
    (rp hid low steal : Bool) : SafeR (newWin st parent rect rp hid low steal) (fun p => Good [] p.1) := by
  unfold newWin
  rw [newWindow_eq]
  have body : ∀ (pr : WinTree.Id × Rect), Alive st.tree pr.1 →
      SafeR (insertNew st.tree (treeFuel st.tree) hid low steal pr >>= fun x =>
        pure (({ st with tree := x.1, owned := st.owned.push 1 } : St), x.2)) (fun p => Good [] p.1) := by
    intro ⟨p, r⟩ hpa
    obtain ⟨pw, hg, hpw, hpf⟩ := hpa.get
    unfold insertNew
    simp only [hg, res_bind_ok]
    have hplt : p < st.tree.wins.size := (Array.getElem?_eq_some_iff.1 hpw).1
    have hpne : p ≠ st.tree.wins.size := Nat.ne_of_lt hplt
    generalize hwn : ({ parent := some p, rect := r, isVisible := !hid, stealInput := steal } : Win) = wn
    have wnp : wn.parent = some p := by rw [← hwn]
    have wnc : wn.children = [] := by rw [← hwn]
    have wnf : wn.freed = false := by rw [← hwn]
    have wnfo : wn.focusedChild = none := by rw [← hwn]
    have wncl : wn.isClosed = false := by rw [← hwn]
    have wnr : wn.refcount = 1 := by rw [← hwn]
    have wnro : wn.isRoot = false := by rw [← hwn]
    have g1 : WinTree.get ({ st.tree with wins := st.tree.wins.push wn } : Tree) p = Res.ok pw := by
      apply get_eq_ok.2; refine ⟨?_, hpf⟩
      simp only [Array.getElem?_push, hpne, if_false]; exact hpw
    have g2 : WinTree.get ({ st.tree with wins := st.tree.wins.push wn } : Tree) st.tree.wins.size = Res.ok wn := by
      apply get_eq_ok.2; refine ⟨?_, wnf⟩
      simp [Array.getElem?_push]
    have fresh : st.tree.wins.size ∉ pw.children := by
      intro hm
      obtain ⟨cw, hcw, _, _⟩ := h.1.tree.child p _ pw hpw hpf hm
      exact Nat.lt_irrefl _ (Array.getElem?_eq_some_iff.1 hcw).1
    have hnd0 := h.1.tree.nodup p pw hpw hpf
    -- what either way of linking gives
    have fin : ∀ (cs' : List WinTree.Id), (∀ c, c ∈ cs' ↔ c = st.tree.wins.size ∨ c ∈ pw.children) → cs'.Nodup →
        SafeR (if wn.isVisible = true then
            expose (WinTree.set { st.tree with wins := st.tree.wins.push wn } p { pw with children := cs' })
              (treeFuel st.tree) p (some wn.rect)
          else pure (WinTree.set { st.tree with wins := st.tree.wins.push wn } p { pw with children := cs' }))
          (fun t3 => Good [] ({ st with tree := t3, owned := st.owned.push 1 } : St)) := by
      intro cs' hcs hnd
      obtain ⟨hi2, hd2, hsz, hatId, hkeep, hback⟩ :=
        insert_step h.1.tree h.1.drag hpw hpf wn wnp wnc wnf wnfo wncl wnro cs' hcs hnd
      have post : ∀ t3 : Tree, t3.wins = (WinTree.set { st.tree with wins := st.tree.wins.push wn } p
          { pw with children := cs' }).wins → TInv t3 → DragOK t3 →
          Good [] ({ st with tree := t3, owned := st.owned.push 1 } : St) := by
        intro t3 e3 hi3 hd3
        refine ⟨⟨hi3, hd3, ?_, ?_, ?_, fun x hx => (by cases hx), ?_, ?_⟩, h.2⟩
        · show (st.owned.push 1).size = t3.wins.size
          rw [e3, hsz, Array.size_push, h.1.size]
        · intro j x' hx' hxf'
          rw [e3] at hx'
          show x'.refcount = ((st.owned.push 1).getD j 0 : Int) + _
          rw [getD_push, h.1.size]
          rcases hback j x' hx' with rfl | ⟨x, hx⟩
          · rw [hatId] at hx'; cases hx'
            simp [wnr]
          · obtain ⟨x'', hx'', f, rr, _⟩ := hkeep j x hx
            rw [hx'] at hx''; cases hx''
            have hjne : j ≠ st.tree.wins.size := Nat.ne_of_lt (Array.getElem?_eq_some_iff.1 hx).1
            rw [if_neg hjne, rr]
            exact h.1.rc j x hx (by rw [← f]; exact hxf')
        · intro j x' hx' hxf' ho
          rw [e3] at hx'
          have ho' : (st.owned.push 1).getD j 0 = 0 := ho
          rw [getD_push, h.1.size] at ho'
          rcases hback j x' hx' with rfl | ⟨x, hx⟩
          · simp at ho'
          · obtain ⟨x'', hx'', f, rr, cc⟩ := hkeep j x hx
            rw [hx'] at hx''; cases hx''
            have hjne : j ≠ st.tree.wins.size := Nat.ne_of_lt (Array.getElem?_eq_some_iff.1 hx).1
            rw [if_neg hjne] at ho'
            have hxf : x.freed = false := by rw [← f]; exact hxf'
            by_cases hjp : j = p
            · subst hjp
              have h1 := h.1.rc j x hx hxf
              have h2 := h.1.pos j x hx hxf
              simp only [List.count_nil] at h1
              omega
            · rw [cc hjp]; exact h.1.leaf j x hx hxf ho'
        · show 1 ≤ (st.owned.push 1).getD 0 0
          rw [getD_push, h.1.size]
          split
          · exact Nat.le_refl 1
          · exact h.1.root
        · intro j x' hx' hxf'
          rw [e3] at hx'
          rcases hback j x' hx' with rfl | ⟨x, hx⟩
          · rw [hatId] at hx'; cases hx'
            rw [wnr]; exact Int.le_refl 1
          · obtain ⟨x'', hx'', f, rr, _⟩ := hkeep j x hx
            rw [hx'] at hx''; cases hx''
            rw [rr]; exact h.1.pos j x hx (by rw [← f]; exact hxf')
      by_cases hv : wn.isVisible = true
      · rw [if_pos hv]
        have hap : Alive (WinTree.set { st.tree with wins := st.tree.wins.push wn } p { pw with children := cs' }) p :=
          ⟨_, wins_set_self (by simp only [Array.getElem?_push, hpne, if_false]; exact hpw), hpf⟩
        refine (expose_safe hi2 _ p _ hap).mono ?_
        intro t3 ⟨e1, e2, e3⟩
        exact post t3 e1 (hi2.root_frame e1 e2 e3) (hd2.root_frame e1 e2 e3)
      · rw [if_neg hv]
        exact post _ rfl hi2 hd2
    simp only [doHierarchyChange, g1, g2, res_bind_ok]
    cases low with
    | true =>
      simp only [if_true, res_pure, res_bind_ok]
      refine SafeR.bind (Q := fun (x : Tree × WinTree.Id) => Good [] ({ st with tree := x.1, owned := st.owned.push 1 } : St))
        (SafeR.bind (fin (pw.children ++ [st.tree.wins.size])
        (fun c => by simp only [List.mem_append, List.mem_singleton]; exact Or.comm)
        (List.nodup_append.2 ⟨hnd0, List.nodup_cons.2 ⟨List.not_mem_nil, List.nodup_nil⟩, fun a ha b hb => by
          simp only [List.mem_singleton] at hb; subst hb; intro e; subst e; exact fresh ha⟩)) (fun t3 h3 => h3))
        (fun x hx => hx)
    | false =>
      simp only [Bool.false_eq_true, if_false, res_pure, res_bind_ok]
      refine SafeR.bind (Q := fun (x : Tree × WinTree.Id) => Good [] ({ st with tree := x.1, owned := st.owned.push 1 } : St))
        (SafeR.bind (fin (st.tree.wins.size :: pw.children) (fun c => List.mem_cons)
        (List.nodup_cons.2 ⟨fresh, hnd0⟩)) (fun t3 h3 => h3)) (fun x hx => hx)
  cases rp with
  | true =>
    simp only [if_true]
    have hc := climb_safe h.1.tree (treeFuel st.tree) parent rect hp
    cases hcl : newWindow.climb st.tree (treeFuel st.tree) parent rect with
    | ub w => rw [hcl] at hc; exact hc
    | ok pr =>
      rw [hcl] at hc
      simp only [res_bind_ok]
      exact body pr hc
  | false =>
    simp only [Bool.false_eq_true, if_false]
    exact body (parent, rect) hp

/-- `tickit_window_new` returns only for a live parent (it dereferences it). -/
theorem newWin_alive {st st' : St} {p id : WinTree.Id} {r : Rect} {a b c d : Bool}
    (h : newWin st p r a b c d = Res.ok (st', id)) : Alive st.tree p := by
  unfold newWin at h
  obtain ⟨⟨t, i⟩, hn, _⟩ := res_bind_eq_ok.1 h
  rw [newWindow_eq] at hn
  have key : ∀ {α : Type} (k : Win → Res α) (x : α), (WinTree.get st.tree p >>= k) = Res.ok x → Alive st.tree p := by
    intro α k x hx
    obtain ⟨w, hg, _⟩ := res_bind_eq_ok.1 hx
    obtain ⟨hw, hf⟩ := get_eq_ok.1 hg
    exact ⟨w, hw, hf⟩
  cases a with
  | true =>
    simp only [if_true] at hn
    obtain ⟨pr, hc, _⟩ := res_bind_eq_ok.1 hn
    have hf : treeFuel st.tree = (st.tree.wins.size + 1) + 1 := rfl
    rw [hf, newWindow.climb] at hc
    exact key _ _ hc
  | false =>
    simp only [Bool.false_eq_true, if_false] at hn
    unfold insertNew at hn
    exact key _ _ hn

/-- `tickit_window_flush` by the application, outside any dispatch. -/
theorem flushSt_good {st : St} (h : Good [] st) : SafeR (flushSt st) (Good []) := by
  unfold flushSt
  apply SafeR.bind (flush_safe h.1.tree h.1.drag)
  intro t' s
  exact ⟨h.1.step s, h.2⟩

end WinInput
end Tickit
