import Tickit.Proof.EvLoopUnbind
import Tickit.Proof.EvLoopOnceIter
/-
  `tickit_watch_cancel` with an unbind handler that acts (Model/EvLoopUnbind.lean), tied to the exactly-once family.

  The cancel path with the acting notification is a composition of the steps the families `Pres` (queue order),
  `Q` (slot table), `LStep` (well-formed lists) and `R2` (queues / liveness / cancel requests) already know, plus
  `runActs` in the middle — between the unlink and the `free`.  So the bundle `B []` of Proof/EvLoopOnceB.lean and the
  queue invariant survive the operation (`b_applyCancelU`, `qinv_applyCancelU`), for every state and every handler;
  and then `timer_once_in_iteration` / `later_once_in_iteration` speak about the next iteration.
-/
namespace Tickit.EvLoop

/-! ### `Pres`: the timer queue stays ordered -/

theorem pres_runUAct (st : St) (act : Act) : Pres st (runUAct st act) := by
  unfold runUAct
  split
  · exact Pres.refl _
  · exact pres_runAct _ _

theorem pres_runUActs (acts : List Act) : ∀ st : St, Pres st (runUActs st acts) := by
  unfold runUActs
  induction acts with
  | nil => intro st; exact Pres.refl st
  | cons a rest ih =>
    intro st
    simp only [List.foldl_cons]
    refine Pres.trans ?_ (ih _)
    split
    · exact (grow_emit _ _).pres.trans (pres_runUAct _ _)
    · exact Pres.refl _

theorem pres_notifyU (ub : List Beh) (st : St) (a : Nat) : Pres st (notifyU ub st a) := by
  unfold notifyU
  split
  · exact (grow_notify _ _ _).pres.trans (pres_runUActs _ _)
  · exact Pres.refl _

theorem pres_cancelNotifyU (ub : List Beh) (st : St) (a : Nat) (w : Watch) : Pres st (cancelNotifyU ub st a w) := by
  unfold cancelNotifyU
  split
  · exact pres_notifyU _ _ _
  · exact Pres.refl _

theorem pres_cancelFoundU (ub : List Beh) (st : St) (a : Nat) (w : Watch) (l : List Nat) (hl : l = listOf st w.type) :
    Pres st (cancelFoundU ub st a w l) := by
  unfold cancelFoundU cancelUnlinkedU
  exact ((pres_setListOf_erase st w.type l a hl).trans (pres_cancelNotifyU ub _ a w)).trans
    (((grow_cancelHook _ w.type w.evi).trans (grow_free _ a)).trans (grow_cancelRest _ _)).pres

theorem pres_cancelDetachedU (ub : List Beh) (st : St) (a : Nat) : Pres st (cancelDetachedU ub st a) := by
  unfold cancelDetachedU
  refine (pres_cancelNotifyU ub st a (st.getW a)).trans (Grow.pres ?_)
  exact grow_setW _ a _ rfl

theorem pres_watchCancel0U (ub : List Beh) (st : St) (a : Nat) : Pres st (watchCancel0U ub st a) := by
  unfold watchCancel0U
  split
  · exact Pres.refl st
  · split
    · exact (grow_fail st _).pres
    · split
      · exact Pres.refl st
      · split
        · exact (grow_fail st _).pres
        · split
          · split
            · exact pres_cancelDetachedU ub st a
            · exact Pres.refl st
          · exact pres_cancelFoundU ub st a _ _ rfl

theorem pres_watchCancelU (ub : List Beh) (st : St) (a : Nat) : Pres st (watchCancelU ub st a) := by
  unfold watchCancelU
  split
  · split
    · exact (pres_watchCancel0U ub st a).trans (pres_watchCancel0 _ _)
    · exact pres_watchCancel0U ub st a
  · exact pres_watchCancel0U ub st a

theorem pres_doCancelU (ub : List Beh) (st : St) (k : Int) : Pres st (doCancelU ub st k) := by
  unfold doCancelU
  split
  · exact (grow_emit _ _).pres
  · exact (grow_with_cancelReq _ _).pres.trans (pres_watchCancelU ub _ _)

theorem pres_applyCancelU (ub : List Beh) (st : St) (k : Int) : Pres st (applyCancelU ub st k) := by
  unfold applyCancelU
  split
  · exact (grow_with_log _ _).pres
  · split
    · exact (grow_with_log _ _).pres
    · exact (grow_with_log _ _).pres.trans (pres_doCancelU ub _ k)

/-! ### `Q`: the table of slots -/

theorem q_runUAct (st : St) (act : Act) : Q st (runUAct st act) := by
  unfold runUAct
  split
  · exact Q.refl _
  · exact q_runAct _ _

theorem q_runUActs (acts : List Act) : ∀ st : St, Q st (runUActs st acts) := by
  unfold runUActs
  induction acts with
  | nil => intro st; exact Q.refl st
  | cons a rest ih =>
    intro st
    simp only [List.foldl_cons]
    refine Q.trans ?_ (ih _)
    split
    · exact (Q.of_q0 (q0_emit st _)).trans (q_runUAct _ _)
    · exact Q.refl _

theorem q_notifyU (ub : List Beh) (st : St) (a : Nat) : Q st (notifyU ub st a) := by
  unfold notifyU
  split
  · exact (Q.of_q0 (q0_notify _ _ _)).trans (q_runUActs _ _)
  · exact Q.refl _

theorem q_cancelNotifyU (ub : List Beh) (st : St) (a : Nat) (w : Watch) : Q st (cancelNotifyU ub st a w) := by
  unfold cancelNotifyU
  split
  · exact q_notifyU _ _ _
  · exact Q.refl _

theorem q_cancelFoundU (ub : List Beh) (st : St) (a : Nat) (w : Watch) (l : List Nat) : Q st (cancelFoundU ub st a w l) := by
  unfold cancelFoundU cancelUnlinkedU
  exact ((Q.of_q0 (q0_setListOf st _ _)).trans (q_cancelNotifyU ub _ a w)).trans
    (Q.of_q0 (((q0_cancelHook _ _ _).trans (q0_free _ _)).trans (q0_cancelRest _ _)))

theorem q_cancelDetachedU (ub : List Beh) (st : St) (a : Nat) : Q st (cancelDetachedU ub st a) := by
  unfold cancelDetachedU
  refine (q_cancelNotifyU ub st a (st.getW a)).trans (Q.of_q0 ?_)
  exact q0_setW _ a _ rfl rfl (Or.inr rfl) (fun h => h) (fun l h => Or.inl h)

theorem q_watchCancel0U (ub : List Beh) (st : St) (a : Nat) : Q st (watchCancel0U ub st a) := by
  unfold watchCancel0U
  split
  · exact Q.refl st
  · split
    · exact Q.of_q0 (q0_fail st _)
    · split
      · exact Q.refl st
      · split
        · exact Q.of_q0 (q0_fail st _)
        · split
          · split
            · exact q_cancelDetachedU ub st a
            · exact Q.refl st
          · exact q_cancelFoundU ub st a _ _

theorem q_watchCancelU (ub : List Beh) (st : St) (a : Nat) : Q st (watchCancelU ub st a) := by
  unfold watchCancelU
  split
  · split
    · exact (q_watchCancel0U ub st a).trans (Q.of_q0 (q0_watchCancel0 _ _))
    · exact q_watchCancel0U ub st a
  · exact q_watchCancel0U ub st a

theorem q_doCancelU (ub : List Beh) (st : St) (k : Int) : Q st (doCancelU ub st k) := by
  unfold doCancelU
  split
  · exact Q.of_q0 (q0_emit _ _)
  · exact (Q.of_q0 (q0_with_cancelReq _ _)).trans (q_watchCancelU ub _ _)

theorem q0_with_log (st : St) (l : List Ev) : Q0 st { st with log := l } := Q0.of_eq rfl rfl rfl rfl

theorem q_applyCancelU (ub : List Beh) (st : St) (k : Int) : Q st (applyCancelU ub st k) := by
  unfold applyCancelU
  split
  · exact Q.of_q0 (q0_with_log _ _)
  · split
    · exact Q.of_q0 (q0_with_log _ _)
    · exact (Q.of_q0 (q0_with_log _ _)).trans (q_doCancelU ub _ k)

/-! ### `LStep`: the five lists stay well formed -/

theorem l_runUAct (st : St) (act : Act) : LStep st (runUAct st act) := by
  unfold runUAct
  split
  · exact LStep.refl _
  · exact l_runAct _ _

theorem l_runUActs (acts : List Act) : ∀ st : St, LStep st (runUActs st acts) := by
  unfold runUActs
  induction acts with
  | nil => intro st; exact LStep.refl st
  | cons a rest ih =>
    intro st
    simp only [List.foldl_cons]
    refine LStep.trans ?_ (ih _)
    split
    · exact (g4_emit _ _).lstep.trans (l_runUAct _ _)
    · exact LStep.refl _

theorem l_notifyU (ub : List Beh) (st : St) (a : Nat) : LStep st (notifyU ub st a) := by
  unfold notifyU
  split
  · exact (g4_notify _ _ _).lstep.trans (l_runUActs _ _)
  · exact LStep.refl _

theorem l_cancelNotifyU (ub : List Beh) (st : St) (a : Nat) (w : Watch) : LStep st (cancelNotifyU ub st a w) := by
  unfold cancelNotifyU
  split
  · exact l_notifyU _ _ _
  · exact LStep.refl _

/-- The watch is in no list while the handler runs, and the handler can only link fresh watches: it is still in no
    list when it is freed. -/
theorem lstep_cancelFoundU (ub : List Beh) (st : St) (a : Nat) (ha : a ∈ listOf st (st.getW a).type) :
    LStep st (cancelFoundU ub st a (st.getW a) (listOf st (st.getW a).type)) := by
  intro hc w
  unfold cancelFoundU cancelUnlinkedU
  obtain ⟨fE, hun⟩ := lfacts_erase st a (st.getW a).type w ha
  have haE : a < (setListOf st (st.getW a).type ((listOf st (st.getW a).type).erase a)).heap.length := by
    rw [heap_setListOf]; exact w.alloc ha
  generalize setListOf st (st.getW a).type ((listOf st (st.getW a).type).erase a) = sE at *
  have fN := l_cancelNotifyU ub sE a (st.getW a) (by rw [fE.cfg]; exact hc) fE.wf
  have hunN := unlisted_after fN haE hun
  have gH := g4_cancelHook (cancelNotifyU ub sE a (st.getW a)) (st.getW a).type (st.getW a).evi
  have hunH : ∀ t, a ∉ listOf (cancelHook (cancelNotifyU ub sE a (st.getW a)) (st.getW a).type (st.getW a).evi) t :=
    fun t h => hunN t (by rw [gH.lists] at h; exact h)
  exact ((((LStep.trans (fun _ _ => fE) (fun _ _ => fN)).trans gH.lstep).trans (lstep_free_unlisted _ a hunH)).trans
    (g4_cancelRest _ _).lstep) hc w

theorem lstep_cancelDetachedU (ub : List Beh) (st : St) (a : Nat) (hlt : a < st.heap.length) (hn : a ∉ listOf st (st.getW a).type) :
    LStep st (cancelDetachedU ub st a) := by
  intro hc w
  unfold cancelDetachedU
  have fN := l_cancelNotifyU ub st a (st.getW a) hc w
  have hun0 : ∀ t, a ∉ listOf st t := by
    intro t h
    have := w.typ t a h
    rw [← this] at h
    exact hn h
  have hun := unlisted_after fN hlt hun0
  exact (LStep.trans (fun _ _ => fN) (g4_setTypeNone_unlisted _ a hun)) hc w

theorem l_watchCancel0U (ub : List Beh) (st : St) (a : Nat) : LStep st (watchCancel0U ub st a) := by
  unfold watchCancel0U
  split
  · exact LStep.refl st
  · split
    · exact (g4_fail st _).lstep
    · rename_i hlive
      split
      · exact LStep.refl st
      · split
        · exact (g4_fail st _).lstep
        · split
          · rename_i hcn
            split
            · exact lstep_cancelDetachedU ub st a (St.live_lt (not_of_not_eq_true hlive)) (by simpa using hcn)
            · exact LStep.refl st
          · rename_i hcn
            have : a ∈ listOf st (st.getW a).type := by simpa using hcn
            exact lstep_cancelFoundU ub st a this

theorem l_watchCancelU (ub : List Beh) (st : St) (a : Nat) : LStep st (watchCancelU ub st a) := by
  unfold watchCancelU
  split
  · split
    · exact (l_watchCancel0U ub st a).trans (l_watchCancel0 _ _)
    · exact l_watchCancel0U ub st a
  · exact l_watchCancel0U ub st a

theorem l_doCancelU (ub : List Beh) (st : St) (k : Int) : LStep st (doCancelU ub st k) := by
  unfold doCancelU
  split
  · exact (g4_emit _ _).lstep
  · exact (g4_with_cancelReq _ _).lstep.trans (l_watchCancelU ub _ _)

theorem g4_with_log (st : St) (l : List Ev) : G4 st { st with log := l } := G4.of_eq rfl rfl rfl rfl rfl rfl rfl

theorem l_applyCancelU (ub : List Beh) (st : St) (k : Int) : LStep st (applyCancelU ub st k) := by
  unfold applyCancelU
  split
  · exact (g4_with_log _ _).lstep
  · split
    · exact (g4_with_log _ _).lstep
    · exact (g4_with_log _ _).lstep.trans (l_doCancelU ub _ k)

/-! ### `R2`: the two queues, liveness, the cancel requests -/

theorem r2_runUAct (st : St) (act : Act) (hk : K st) : R2 [] st (runUAct st act) := by
  unfold runUAct
  split
  · exact R2.refl _ _
  · exact r2_runAct _ _ hk

theorem r2_runUActs (acts : List Act) : ∀ st : St, K st → R2 [] st (runUActs st acts) := by
  unfold runUActs
  induction acts with
  | nil => intro st _; exact R2.refl _ st
  | cons a rest ih =>
    intro st hk
    simp only [List.foldl_cons]
    by_cases hok : st.isOk = true
    · rw [if_pos hok]
      have k1 : K (st.emit .a) := K.of_q (Q.of_q0 (q0_emit st _)) hk
      exact ((r2_emit [] st _).trans (r2_runUAct _ a k1)).trans (ih _ (K.of_q (q_runUAct _ a) k1))
    · rw [if_neg hok]
      exact ih _ hk

theorem r2_notifyU (E : List Nat) (ub : List Beh) (st : St) (a : Nat) (hk : K st) : R2 E st (notifyU ub st a) := by
  unfold notifyU
  split
  · exact (r2_notify E st a EV_UNBIND).trans
      ((r2_runUActs _ _ (K.of_q (Q.of_q0 (q0_notify st a EV_UNBIND)) hk)).mono (fun x hx => by cases hx))
  · exact R2.refl _ _

theorem r2_cancelNotifyU (E : List Nat) (ub : List Beh) (st : St) (a : Nat) (w : Watch) (hk : K st) :
    R2 E st (cancelNotifyU ub st a w) := by
  unfold cancelNotifyU
  split
  · exact r2_notifyU E ub st a hk
  · exact R2.refl _ _

/-- `tickit_watch_cancel` once the watch has been found, the handler acting: the watch is excepted (allocated, in no
    queue) from the unlink to the `free`; what the handler registered is queued by `runActs`. -/
theorem r2_cancelFoundU (ub : List Beh) (st : St) (a : Nat) (hk : K st) (hlt : a < st.heap.length)
    (ha : isOneShot (st.getW a).type = false ∨ (st.getW a).slot ∈ st.cancelReq ∨ (st.getW a).slot < 0) :
    R2 [] st (cancelFoundU ub st a (st.getW a) (listOf st (st.getW a).type)) := by
  unfold cancelFoundU cancelUnlinkedU
  have h1 := r2_setListOf_erase st (st.getW a).type a
  have kE : K (setListOf st (st.getW a).type ((listOf st (st.getW a).type).erase a)) := K.of_q (Q.of_q0 (q0_setListOf st _ _)) hk
  generalize setListOf st (st.getW a).type ((listOf st (st.getW a).type).erase a) = sE at *
  have h2 := r2_cancelNotifyU [a] ub sE a (st.getW a) kE
  have h3 := r2_cancelHook [a] (cancelNotifyU ub sE a (st.getW a)) (st.getW a).type (st.getW a).evi
  have h123 := (h1.trans h2).trans h3
  generalize (cancelHook (cancelNotifyU ub sE a (st.getW a)) (st.getW a).type (st.getW a).evi) = s3 at *
  have h4 := r2_free [a] s3 a (by
    rcases ha with e | e | e
    · exact Or.inl (h123.h.notOneShot hlt e)
    · exact Or.inr (Or.inl (by rw [h123.h.slot a hlt]; exact h123.creq _ e))
    · exact Or.inr (Or.inr (by rw [h123.h.slot a hlt]; exact e)))
  refine ((h123.trans h4).trans (r2_cancelRest [a] (s3.free a) _)).drop ?_
  intro hok x hx
  simp only [List.mem_singleton] at hx
  subst hx
  left
  rw [live_cancelRest]
  exact dead_after_free s3 x (isOk_cancelRest _ _ hok)

theorem r2_cancelDetachedU (E : List Nat) (ub : List Beh) (st : St) (a : Nat) (hk : K st) : R2 E st (cancelDetachedU ub st a) := by
  unfold cancelDetachedU
  refine (r2_cancelNotifyU E ub st a (st.getW a) hk).trans ?_
  exact r2_setW_keep E _ a _ rfl rfl (Or.inr rfl) rfl

theorem r2_watchCancel0U (E : List Nat) (ub : List Beh) (st : St) (a : Nat) (hk : K st)
    (ha : isOneShot (st.getW a).type = false ∨ (st.getW a).slot ∈ st.cancelReq ∨ (st.getW a).slot < 0) :
    R2 E st (watchCancel0U ub st a) := by
  unfold watchCancel0U
  split
  · exact R2.refl _ st
  · split
    · exact r2_fail _ _ _
    · rename_i hlive
      split
      · exact R2.refl _ st
      · split
        · exact r2_fail _ _ _
        · split
          · split
            · exact r2_cancelDetachedU E ub st a hk
            · exact R2.refl _ st
          · exact (r2_cancelFoundU ub st a hk (St.live_lt (not_of_not_eq_true hlive)) ha).mono (fun x hx => by cases hx)

theorem r2_watchCancelU (E : List Nat) (ub : List Beh) (st : St) (a : Nat) (hk : K st)
    (ha : isOneShot (st.getW a).type = false ∨ (st.getW a).slot ∈ st.cancelReq ∨ (st.getW a).slot < 0)
    (hn : ∀ l, (st.getW a).notify = some l → l < st.heap.length ∧ (st.getW l).slot < 0) : R2 E st (watchCancelU ub st a) := by
  unfold watchCancelU
  split
  · split
    · rename_i l hl
      have h1 := r2_watchCancel0U E ub st a hk ha
      obtain ⟨n1, n2⟩ := hn l hl
      exact h1.trans (r2_watchCancel0 E _ l (Or.inr (Or.inr (by rw [h1.h.slot l n1]; exact n2))))
    · exact r2_watchCancel0U E ub st a hk ha
  · exact r2_watchCancel0U E ub st a hk ha

theorem r2_doCancelU (ub : List Beh) (st : St) (k : Int) (hk : K st) : R2 [] st (doCancelU ub st k) := by
  unfold doCancelU
  split
  · exact r2_emit _ _ _
  · rename_i r hsome
    obtain ⟨hr, hrk⟩ := findSlot_some hsome
    have h1 : R2 [] st { st with cancelReq := k :: st.cancelReq } :=
      ⟨MH.of_heap_eq rfl rfl, rfl, fun x hx => List.mem_cons_of_mem _ hx, fun _ x hx _ => Or.inl hx, fun _ x hx _ => Or.inl hx,
       fun _ x h1 h2 => (by have : ({ st with cancelReq := k :: st.cancelReq } : St).heap.length = st.heap.length := rfl; omega),
       fun x hx hlv hd => (by
         have e : ({ st with cancelReq := k :: st.cancelReq } : St).live x = st.live x := rfl
         rw [e, hlv hx] at hd; cases hd)⟩
    have k1 : K ({ st with cancelReq := k :: st.cancelReq } : St) := K.of_q (Q.of_q0 (q0_with_cancelReq st _)) hk
    refine h1.trans (r2_watchCancelU [] ub _ r.handle k1 (Or.inr (Or.inl ?_)) (fun l hl => hk.p3 r.handle (hk.s3 r hr).1 l hl))
    show (st.getW r.handle).slot ∈ k :: st.cancelReq
    rw [(hk.s3 r hr).2, hrk]
    exact List.mem_cons_self

theorem r2_with_log (E : List Nat) (st : St) (l : List Ev) : R2 E st { st with log := l } := R2.of_eq rfl rfl rfl rfl rfl rfl

theorem r2_applyCancelU (ub : List Beh) (st : St) (k : Int) (hk : K st) : R2 [] st (applyCancelU ub st k) := by
  unfold applyCancelU
  split
  · exact r2_with_log _ _ _
  · split
    · exact r2_with_log _ _ _
    · exact (r2_with_log [] st []).trans (r2_doCancelU ub _ k (K.of_q (Q.of_q0 (q0_with_log st [])) hk))

/-! ### the bundle and the queue invariant survive the operation -/

/-- The harness's `cancel k` from outside any callback, the unbind handler acting (whatever it registers, raises or
    sets): lists well formed, slot table, at-most-once, allocated ⇒ queued, gone ⇒ invoked or cancel asked. -/
theorem b_applyCancelU (ub : List Beh) (st : St) (k : Int) : BStep [] st (applyCancelU ub st k) :=
  fun b => BStep.of_q (q_applyCancelU ub st k) (l_applyCancelU ub st k) (r2_applyCancelU ub st k b.k) b

theorem qinv_applyCancelU (ub : List Beh) (st : St) (k : Int) (q : QInv st) : QInv (applyCancelU ub st k) :=
  (pres_applyCancelU ub st k).qinv q

/-! ### what the handler registered: queued when the cancel returns, and run exactly once -/

/-- Every timer / deferred callback that the unbind handler registered through the harness's table (a record whose
    watch did not exist before the cancel) is, when `tickit_watch_cancel` has returned: allocated, not yet invoked, and
    in its queue — for every state with the bundle, every handler (`ub`), whatever else the handler did. -/
theorem unbind_registered_is_queued (ub : List Beh) (st : St) (k : Int) (b : B [] st) (hal : st.alive = true)
    (hok : (applyCancelU ub st k).status = .ok) :
    ∀ r ∈ (applyCancelU ub st k).slots, st.heap.length ≤ r.handle → r.k ∉ (applyCancelU ub st k).cancelReq →
      isOneShot ((applyCancelU ub st k).getW r.handle).type = true →
      (applyCancelU ub st k).live r.handle = true ∧ r.fires = 0 ∧
      (((applyCancelU ub st k).getW r.handle).type = .timer → r.handle ∈ (applyCancelU ub st k).timers) ∧
      (((applyCancelU ub st k).getW r.handle).type = .later → r.handle ∈ (applyCancelU ub st k).laters) := by
  have b' := b_applyCancelU ub st k b
  have r2 := r2_applyCancelU ub st k b.k
  have hok' : (applyCancelU ub st k).isOk = true := (St.isOk_iff _).mpr hok
  have hal' : (applyCancelU ub st k).alive = true := r2.alive.trans hal
  intro r hr hnew hnc ho
  obtain ⟨hlt, hslot⟩ := b'.k.s3 r hr
  have hl : (applyCancelU ub st k).live r.handle = true := by
    cases hd : (applyCancelU ub st k).live r.handle with
    | true => rfl
    | false =>
      exfalso
      rcases r2.gone r.handle hlt (fun h => absurd h (by omega)) hd with e | e | e
      · rw [e] at ho; cases ho
      · rw [hslot] at e; exact hnc e
      · rw [hslot] at e; have := b'.k.s4 r hr; omega
  obtain ⟨l1, l2⟩ := b'.li hok' hal' r.handle hlt hl
  exact ⟨hl, (b'.o r hr ho).2.1 hok' hl (by intro h; cases h),
    fun ht => (l1 ht).elim id (fun h => by cases h), fun ht => (l2 ht).elim id (fun h => by cases h)⟩

/-- The state an iteration starts from after the cancel (`tickit_tick` sets `still_running`, the harness empties its log). -/
def afterCancelU (ub : List Beh) (st : St) (k : Int) : St :=
  { applyCancelU ub st k with stillRunning := true, log := [] }

theorem b_afterCancelU (ub : List Beh) (st : St) (k : Int) (b : B [] st) : B [] (afterCancelU ub st k) :=
  BStep.of_q0 (Q0.of_eq rfl rfl rfl rfl : Q0 (applyCancelU ub st k) (afterCancelU ub st k))
    (G4.of_eq rfl rfl rfl rfl rfl rfl rfl : G4 (applyCancelU ub st k) (afterCancelU ub st k)).lstep
    (R2.of_eq rfl rfl rfl rfl rfl rfl) (b_applyCancelU ub st k b)

theorem qinv_afterCancelU (ub : List Beh) (st : St) (k : Int) (q : QInv st) : QInv (afterCancelU ub st k) :=
  (qinv_applyCancelU ub st k q).grow (Grow.of_eq rfl rfl)

/-- Exactly once: a timer the unbind handler registered that is due when the timer phase of the next iteration starts,
    and a deferred callback the handler registered — if no cancel is asked for it by the time that iteration ends —
    has not been invoked when the cancel returns, is gone when the iteration ends, and its count of FIRE invocations
    is then exactly 1.  Every state with the bundle (every reachable state: `b_runOps`), every handler, every fuel. -/
theorem unbind_registered_runs_once (fuel : Nat) (ub : List Beh) (st : St) (k : Int) (nohang : Bool) (b : B [] st) (q : QInv st)
    (hal : st.alive = true) (hok1 : (applyCancelU ub st k).status = .ok)
    (hok2 : (tick fuel (afterCancelU ub st k) nohang).status = .ok) :
    ∀ r ∈ (applyCancelU ub st k).slots, st.heap.length ≤ r.handle →
      r.k ∉ (tick fuel (afterCancelU ub st k) nohang).cancelReq →
      ((((applyCancelU ub st k).getW r.handle).type = .timer ∧
          ((applyCancelU ub st k).getW r.handle).due.gt (TV.ofUs (phaseClock (afterCancelU ub st k) nohang)) = false) ∨
        ((applyCancelU ub st k).getW r.handle).type = .later) →
      r.fires = 0 ∧
      (r.handle ∈ (applyCancelU ub st k).timers ∨ r.handle ∈ (applyCancelU ub st k).laters) ∧
      (tick fuel (afterCancelU ub st k) nohang).live r.handle = false ∧
      ∃ r' ∈ (tick fuel (afterCancelU ub st k) nohang).slots, r'.k = r.k ∧ r'.handle = r.handle ∧ r'.fires = 1 := by
  have b1 := b_afterCancelU ub st k b
  have q1 := qinv_afterCancelU ub st k q
  have hal1 : (afterCancelU ub st k).alive = true := (r2_applyCancelU ub st k b.k).alive.trans hal
  obtain ⟨_, ty⟩ := bt_tick [] fuel (afterCancelU ub st k) nohang b1
  intro r hr hnew hnc hq
  have hnc1 : r.k ∉ (applyCancelU ub st k).cancelReq := fun h => hnc (ty.creq _ h)
  have ho : isOneShot ((applyCancelU ub st k).getW r.handle).type = true := by
    rcases hq with ⟨e, _⟩ | e <;> rw [e] <;> rfl
  obtain ⟨hl, _, _, _⟩ := unbind_registered_is_queued ub st k b hal hok1 r hr hnew hnc1 ho
  rcases hq with ⟨ht, hdue⟩ | ht
  · obtain ⟨h1, h2, h3, h4⟩ := timer_once_in_iteration fuel (afterCancelU ub st k) nohang b1 q1 hal1 r hr ht hl hdue hok2 hnc
    exact ⟨h2, Or.inl h1, h3, h4⟩
  · obtain ⟨h1, h2, h3, h4⟩ := later_once_in_iteration fuel (afterCancelU ub st k) nohang b1 hal1 r hr ht hl hok2 hnc
    exact ⟨h2, Or.inr h1, h3, h4⟩

/-! ### histories with acting unbind handlers -/

theorem status_applyCancelU_of_not_ok (ub : List Beh) (st : St) (k : Int) (h : st.status ≠ .ok) :
    (applyCancelU ub st k).status ≠ .ok := by
  unfold applyCancelU
  have : st.isOk = false := by
    cases hh : st.isOk
    · rfl
    · exact absurd ((St.isOk_iff _).mp hh) h
  simp only [this, Bool.not_false, if_true]
  exact h

theorem status_applyUOp_of_not_ok (st : St) (o : UOp) (h : st.status ≠ .ok) : (applyUOp st o).status ≠ .ok := by
  cases o with
  | op o => exact status_applyOp_of_not_ok st o h
  | cancelU ub k => exact status_applyCancelU_of_not_ok ub st k h

theorem b_applyUOp (st : St) (o : UOp) (b : B [] st) (hok : (applyUOp st o).status = .ok) : B [] (applyUOp st o) := by
  cases o with
  | op o => exact b_applyOp st o b hok
  | cancelU ub k => exact b_applyCancelU ub st k b

theorem runUOps_snoc (cfg : Config) (ops : List UOp) (o : UOp) : runUOps cfg (ops ++ [o]) = applyUOp (runUOps cfg ops) o := by
  unfold runUOps; rw [List.foldl_append]; rfl

theorem foldl_applyUOp_not_ok : ∀ (l : List UOp) (s : St), s.status ≠ .ok → (l.foldl applyUOp s).status ≠ .ok := by
  intro l
  induction l with
  | nil => intro s hs; exact hs
  | cons o r ih => intro s hs; exact ih _ (status_applyUOp_of_not_ok s o hs)

/-- Every state a history with acting unbind handlers reaches under the repaired source, if its status is ok, has the
    bundle (compare `b_runOps`). -/
theorem b_runUOps (cfg : Config) (hr : Rep cfg) (ops : List UOp) (hok : (runUOps cfg ops).status = .ok) : B [] (runUOps cfg ops) := by
  unfold runUOps at hok ⊢
  have : ∀ (l : List UOp) (st : St), B [] st → (l.foldl applyUOp st).status = .ok → B [] (l.foldl applyUOp st) := by
    intro l
    induction l with
    | nil => intro st b _; exact b
    | cons o rest ih =>
      intro st b hfin
      simp only [List.foldl_cons] at hfin ⊢
      have hmid : (applyUOp st o).status = .ok := by
        apply Classical.byContradiction
        intro hne
        exact foldl_applyUOp_not_ok rest _ hne hfin
      exact ih _ (b_applyUOp st o b hmid) hfin
  exact this ops _ (b_build cfg hr) hok

theorem qinv_runUOps (cfg : Config) (ops : List UOp) : QInv (runUOps cfg ops) := by
  unfold runUOps
  have : ∀ (l : List UOp) (st : St), QInv st → QInv (l.foldl applyUOp st) := by
    intro l
    induction l with
    | nil => intro st h; exact h
    | cons o rest ih =>
      intro st h
      refine ih _ ?_
      cases o with
      | op o => exact (pres_applyOp st o).qinv h
      | cancelU ub k => exact qinv_applyCancelU ub st k h
  exact this ops _ (qinv_build cfg)

end Tickit.EvLoop
