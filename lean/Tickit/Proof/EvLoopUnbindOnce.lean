import Tickit.Proof.EvLoopUnbind
import Tickit.Proof.EvLoopOnceIter
/-
  `tickit_watch_cancel` with an unbind handler that acts (Model/EvLoopUnbind.lean), tied to the exactly-once family.

  The cancel path with the acting notification is a composition of the steps the families `Pres` (queue order),
  `Q` (slot table), `LStep` (well-formed lists) and `R2` (queues / liveness / cancel requests) already know, plus
  `runActs` in the middle — between the unlink and the `free`.  So the bundle `B []` of Proof/EvLoopOnceB.lean and the
  queue invariant survive the operation (`b_applyCancelU`, `qinv_applyCancelU`), for every state and every handler;
  and then `timer_once_in_iteration` / `later_once_in_iteration` speak about the next iteration.
-/
namespace Tickit.EvLoop

/-! ### `Pres`: the timer queue stays ordered -/

theorem pres_runUAct (st : St) (act : Act) : Pres st (runUAct st act) := by
  unfold runUAct
  split
  · exact Pres.refl _
  · exact pres_runAct _ _

theorem pres_runUActs (acts : List Act) : ∀ st : St, Pres st (runUActs st acts) := by
  unfold runUActs
  induction acts with
  | nil => intro st; exact Pres.refl st
  | cons a rest ih =>
    intro st
    simp only [List.foldl_cons]
    refine Pres.trans ?_ (ih _)
    split
    · exact (grow_emit _ _).pres.trans (pres_runUAct _ _)
    · exact Pres.refl _

theorem pres_notifyU (ub : List Beh) (st : St) (a : Nat) : Pres st (notifyU ub st a) := by
  unfold notifyU
  split
  · exact (grow_notify _ _ _).pres.trans (pres_runUActs _ _)
  · exact Pres.refl _

theorem pres_cancelNotifyU (ub : List Beh) (st : St) (a : Nat) (w : Watch) : Pres st (cancelNotifyU ub st a w) := by
  unfold cancelNotifyU
  split
  · exact pres_notifyU _ _ _
  · exact Pres.refl _

theorem pres_cancelFoundU (ub : List Beh) (st : St) (a : Nat) (w : Watch) (l : List Nat) (hl : l = listOf st w.type) :
    Pres st (cancelFoundU ub st a w l) := by
  unfold cancelFoundU cancelUnlinkedU
  exact ((pres_setListOf_erase st w.type l a hl).trans (pres_cancelNotifyU ub _ a w)).trans
    (((grow_cancelHook _ w.type w.evi).trans (grow_free _ a)).trans (grow_cancelRest _ _)).pres

theorem pres_cancelDetachedU (ub : List Beh) (st : St) (a : Nat) : Pres st (cancelDetachedU ub st a) := by
  unfold cancelDetachedU
  refine (pres_cancelNotifyU ub st a (st.getW a)).trans (Grow.pres ?_)
  exact grow_setW _ a _ rfl

theorem pres_watchCancel0U (ub : List Beh) (st : St) (a : Nat) : Pres st (watchCancel0U ub st a) := by
  unfold watchCancel0U
  split
  · exact Pres.refl st
  · split
    · exact (grow_fail st _).pres
    · split
      · exact Pres.refl st
      · split
        · exact (grow_fail st _).pres
        · split
          · split
            · exact pres_cancelDetachedU ub st a
            · exact Pres.refl st
          · exact pres_cancelFoundU ub st a _ _ rfl

theorem pres_watchCancelU (ub : List Beh) (st : St) (a : Nat) : Pres st (watchCancelU ub st a) := by
  unfold watchCancelU
  split
  · split
    · exact (pres_watchCancel0U ub st a).trans (pres_watchCancel0 _ _)
    · exact pres_watchCancel0U ub st a
  · exact pres_watchCancel0U ub st a

theorem pres_doCancelU (ub : List Beh) (st : St) (k : Int) : Pres st (doCancelU ub st k) := by
  unfold doCancelU
  split
  · exact (grow_emit _ _).pres
  · exact (grow_with_cancelReq _ _).pres.trans (pres_watchCancelU ub _ _)

theorem pres_applyCancelU (ub : List Beh) (st : St) (k : Int) : Pres st (applyCancelU ub st k) := by
  unfold applyCancelU
  split
  · exact (grow_with_log _ _).pres
  · split
    · exact (grow_with_log _ _).pres
    · exact (grow_with_log _ _).pres.trans (pres_doCancelU ub _ k)

/-! ### `Q`: the table of slots -/

theorem q_runUAct (st : St) (act : Act) : Q st (runUAct st act) := by
  unfold runUAct
  split
  · exact Q.refl _
  · exact q_runAct _ _

theorem q_runUActs (acts : List Act) : ∀ st : St, Q st (runUActs st acts) := by
  unfold runUActs
  induction acts with
  | nil => intro st; exact Q.refl st
  | cons a rest ih =>
    intro st
    simp only [List.foldl_cons]
    refine Q.trans ?_ (ih _)
    split
    · exact (Q.of_q0 (q0_emit st _)).trans (q_runUAct _ _)
    · exact Q.refl _

theorem q_notifyU (ub : List Beh) (st : St) (a : Nat) : Q st (notifyU ub st a) := by
  unfold notifyU
  split
  · exact (Q.of_q0 (q0_notify _ _ _)).trans (q_runUActs _ _)
  · exact Q.refl _

theorem q_cancelNotifyU (ub : List Beh) (st : St) (a : Nat) (w : Watch) : Q st (cancelNotifyU ub st a w) := by
  unfold cancelNotifyU
  split
  · exact q_notifyU _ _ _
  · exact Q.refl _

theorem q_cancelFoundU (ub : List Beh) (st : St) (a : Nat) (w : Watch) (l : List Nat) : Q st (cancelFoundU ub st a w l) := by
  unfold cancelFoundU cancelUnlinkedU
  exact ((Q.of_q0 (q0_setListOf st _ _)).trans (q_cancelNotifyU ub _ a w)).trans
    (Q.of_q0 (((q0_cancelHook _ _ _).trans (q0_free _ _)).trans (q0_cancelRest _ _)))

theorem q_cancelDetachedU (ub : List Beh) (st : St) (a : Nat) : Q st (cancelDetachedU ub st a) := by
  unfold cancelDetachedU
  refine (q_cancelNotifyU ub st a (st.getW a)).trans (Q.of_q0 ?_)
  exact q0_setW _ a _ rfl rfl (Or.inr rfl) (fun h => h) (fun l h => Or.inl h)

theorem q_watchCancel0U (ub : List Beh) (st : St) (a : Nat) : Q st (watchCancel0U ub st a) := by
  unfold watchCancel0U
  split
  · exact Q.refl st
  · split
    · exact Q.of_q0 (q0_fail st _)
    · split
      · exact Q.refl st
      · split
        · exact Q.of_q0 (q0_fail st _)
        · split
          · split
            · exact q_cancelDetachedU ub st a
            · exact Q.refl st
          · exact q_cancelFoundU ub st a _ _

theorem q_watchCancelU (ub : List Beh) (st : St) (a : Nat) : Q st (watchCancelU ub st a) := by
  unfold watchCancelU
  split
  · split
    · exact (q_watchCancel0U ub st a).trans (Q.of_q0 (q0_watchCancel0 _ _))
    · exact q_watchCancel0U ub st a
  · exact q_watchCancel0U ub st a

theorem q_doCancelU (ub : List Beh) (st : St) (k : Int) : Q st (doCancelU ub st k) := by
  unfold doCancelU
  split
  · exact Q.of_q0 (q0_emit _ _)
  · exact (Q.of_q0 (q0_with_cancelReq _ _)).trans (q_watchCancelU ub _ _)

theorem q0_with_log (st : St) (l : List Ev) : Q0 st { st with log := l } := Q0.of_eq rfl rfl rfl rfl

theorem q_applyCancelU (ub : List Beh) (st : St) (k : Int) : Q st (applyCancelU ub st k) := by
  unfold applyCancelU
  split
  · exact Q.of_q0 (q0_with_log _ _)
  · split
    · exact Q.of_q0 (q0_with_log _ _)
    · exact (Q.of_q0 (q0_with_log _ _)).trans (q_doCancelU ub _ k)

/-! ### `LStep`: the five lists stay well formed -/

theorem l_runUAct (st : St) (act : Act) : LStep st (runUAct st act) := by
  unfold runUAct
  split
  · exact LStep.refl _
  · exact l_runAct _ _

theorem l_runUActs (acts : List Act) : ∀ st : St, LStep st (runUActs st acts) := by
  unfold runUActs
  induction acts with
  | nil => intro st; exact LStep.refl st
  | cons a rest ih =>
    intro st
    simp only [List.foldl_cons]
    refine LStep.trans ?_ (ih _)
    split
    · exact (g4_emit _ _).lstep.trans (l_runUAct _ _)
    · exact LStep.refl _

theorem l_notifyU (ub : List Beh) (st : St) (a : Nat) : LStep st (notifyU ub st a) := by
  unfold notifyU
  split
  · exact (g4_notify _ _ _).lstep.trans (l_runUActs _ _)
  · exact LStep.refl _

theorem l_cancelNotifyU (ub : List Beh) (st : St) (a : Nat) (w : Watch) : LStep st (cancelNotifyU ub st a w) := by
  unfold cancelNotifyU
  split
  · exact l_notifyU _ _ _
  · exact LStep.refl _

/-- The watch is in no list while the handler runs, and the handler can only link fresh watches: it is still in no
    list when it is freed. -/
theorem lstep_cancelFoundU (ub : List Beh) (st : St) (a : Nat) (ha : a ∈ listOf st (st.getW a).type) :
    LStep st (cancelFoundU ub st a (st.getW a) (listOf st (st.getW a).type)) := by
  intro hc w
  unfold cancelFoundU cancelUnlinkedU
  obtain ⟨fE, hun⟩ := lfacts_erase st a (st.getW a).type w ha
  have haE : a < (setListOf st (st.getW a).type ((listOf st (st.getW a).type).erase a)).heap.length := by
    rw [heap_setListOf]; exact w.alloc ha
  generalize setListOf st (st.getW a).type ((listOf st (st.getW a).type).erase a) = sE at *
  have fN := l_cancelNotifyU ub sE a (st.getW a) (by rw [fE.cfg]; exact hc) fE.wf
  have hunN := unlisted_after fN haE hun
  have gH := g4_cancelHook (cancelNotifyU ub sE a (st.getW a)) (st.getW a).type (st.getW a).evi
  have hunH : ∀ t, a ∉ listOf (cancelHook (cancelNotifyU ub sE a (st.getW a)) (st.getW a).type (st.getW a).evi) t :=
    fun t h => hunN t (by rw [gH.lists] at h; exact h)
  exact ((((LStep.trans (fun _ _ => fE) (fun _ _ => fN)).trans gH.lstep).trans (lstep_free_unlisted _ a hunH)).trans
    (g4_cancelRest _ _).lstep) hc w

theorem lstep_cancelDetachedU (ub : List Beh) (st : St) (a : Nat) (hlt : a < st.heap.length) (hn : a ∉ listOf st (st.getW a).type) :
    LStep st (cancelDetachedU ub st a) := by
  intro hc w
  unfold cancelDetachedU
  have fN := l_cancelNotifyU ub st a (st.getW a) hc w
  have hun0 : ∀ t, a ∉ listOf st t := by
    intro t h
    have := w.typ t a h
    rw [← this] at h
    exact hn h
  have hun := unlisted_after fN hlt hun0
  exact (LStep.trans (fun _ _ => fN) (g4_setTypeNone_unlisted _ a hun)) hc w

theorem l_watchCancel0U (ub : List Beh) (st : St) (a : Nat) : LStep st (watchCancel0U ub st a) := by
  unfold watchCancel0U
  split
  · exact LStep.refl st
  · split
    · exact (g4_fail st _).lstep
    · rename_i hlive
      split
      · exact LStep.refl st
      · split
        · exact (g4_fail st _).lstep
        · split
          · rename_i hcn
            split
            · exact lstep_cancelDetachedU ub st a (St.live_lt (not_of_not_eq_true hlive)) (by simpa using hcn)
            · exact LStep.refl st
          · rename_i hcn
            have : a ∈ listOf st (st.getW a).type := by simpa using hcn
            exact lstep_cancelFoundU ub st a this

theorem l_watchCancelU (ub : List Beh) (st : St) (a : Nat) : LStep st (watchCancelU ub st a) := by
  unfold watchCancelU
  split
  · split
    · exact (l_watchCancel0U ub st a).trans (l_watchCancel0 _ _)
    · exact l_watchCancel0U ub st a
  · exact l_watchCancel0U ub st a

theorem l_doCancelU (ub : List Beh) (st : St) (k : Int) : LStep st (doCancelU ub st k) := by
  unfold doCancelU
  split
  · exact (g4_emit _ _).lstep
  · exact (g4_with_cancelReq _ _).lstep.trans (l_watchCancelU ub _ _)

theorem g4_with_log (st : St) (l : List Ev) : G4 st { st with log := l } := G4.of_eq rfl rfl rfl rfl rfl rfl rfl

theorem l_applyCancelU (ub : List Beh) (st : St) (k : Int) : LStep st (applyCancelU ub st k) := by
  unfold applyCancelU
  split
  · exact (g4_with_log _ _).lstep
  · split
    · exact (g4_with_log _ _).lstep
    · exact (g4_with_log _ _).lstep.trans (l_doCancelU ub _ k)

end Tickit.EvLoop
