import Tickit.Proof.EvLoopKInv
/-
  `pending_signals` is only added to by everything that runs between the wait and `dispatch_signals`
  (timers, deferred callbacks and all their callbacks): `PendExt`.  Mirrors the `grow_*`/`pres_*` family up to
  `tickit_evloop_invoke_timers`.  With it: `tick_signal_reaches_logged` (C18, end to end for one iteration).
-/
namespace Tickit.EvLoop

def PendExt (st st' : St) : Prop := ∀ s, s ∈ st.pendingSig → s ∈ st'.pendingSig
theorem PendExt.refl (st : St) : PendExt st st := fun _ h => h
theorem PendExt.trans {a b c : St} (h1 : PendExt a b) (h2 : PendExt b c) : PendExt a c := fun s h => h2 s (h1 s h)
theorem PendExt.of_eq {st st' : St} (h : st'.pendingSig = st.pendingSig) : PendExt st st' := fun s hs => by rw [h]; exact hs

theorem pe_emit (st : St) (e : Ev) : PendExt st (st.emit e) := PendExt.of_eq rfl
theorem pe_fail (st : St) (w : Ub) : PendExt st (st.fail w) := by unfold St.fail; split <;> exact PendExt.of_eq rfl
theorem pe_alloc (st : St) (w : Watch) : PendExt st (st.alloc w).1 := PendExt.of_eq rfl
theorem pe_setW (st : St) (a : Nat) (w : Watch) : PendExt st (st.setW a w) := PendExt.of_eq rfl
theorem pe_free (st : St) (a : Nat) : PendExt st (st.free a) := by
  unfold St.free; split
  · exact pe_setW _ _ _
  · exact pe_fail _ _
theorem pe_setEvi (st : St) (a idx : Nat) : PendExt st (st.setW a { st.getW a with evi := idx }) := pe_setW _ _ _
theorem pe_setWstatus (st : St) (a : Nat) (ws : Int) : PendExt st (st.setW a { st.getW a with wstatus := ws }) := pe_setW _ _ _
theorem pe_with_timers (st : St) (l : List Nat) : PendExt st { st with timers := l } := PendExt.of_eq rfl
theorem pe_setListOf (st : St) (t : WType) (l : List Nat) : PendExt st (setListOf st t l) := by
  cases t <;> exact PendExt.of_eq rfl

theorem pe_raiseSig (st : St) (s : Int) : PendExt st (raiseSig st s) := by
  unfold raiseSig
  split
  · exact PendExt.refl st
  · split
    · exact PendExt.of_eq rfl
    · split
      · unfold sigRecord
        split
        · intro x hx
          show x ∈ setInsert s st.pendingSig
          unfold setInsert
          split
          · exact hx
          · exact List.mem_cons_of_mem _ hx
        · exact PendExt.of_eq rfl
        · exact PendExt.refl st
      · split
        · exact PendExt.of_eq rfl
        · exact PendExt.refl st

theorem pe_evloopIo (st : St) (fd : Int) (cond : Nat) (w : Nat) : PendExt st (evloopIo st fd cond w).1 := by
  unfold evloopIo
  split <;> exact PendExt.of_eq rfl


theorem pe_evloopCancelIo (st : St) (idx : Nat) : PendExt st (evloopCancelIo st idx) := PendExt.of_eq rfl


theorem pe_evloopSignal (st : St) (s : Int) : PendExt st (evloopSignal st s).1 := by
  unfold evloopSignal
  simp only []
  split <;> exact PendExt.of_eq rfl


theorem pe_evloopCancelSignal (st : St) (idx : Nat) : PendExt st (evloopCancelSignal st idx) := by
  unfold evloopCancelSignal
  simp only []
  split
  · exact PendExt.of_eq rfl
  · split
    · split <;> exact PendExt.of_eq rfl
    · exact PendExt.of_eq rfl


theorem pe_insertWatch (st : St) (l : List Nat) (flags new : Nat) : PendExt st (insertWatch st l flags new).1 := by
  unfold insertWatch
  split
  · exact PendExt.refl st
  · split
    · exact PendExt.refl st
    · exact pe_fail st _


theorem pe_notify (st : St) (a flags : Nat) : PendExt st (notify st a flags) := by
  unfold notify
  simp only []
  split
  · exact pe_emit st _
  · exact PendExt.refl st


theorem pe_with_laters (st : St) (l : List Nat) : PendExt st { st with laters := l } := PendExt.of_eq rfl

theorem pe_with_iow (st : St) (l : List Nat) : PendExt st { st with iow := l } := PendExt.of_eq rfl

theorem pe_with_signals (st : St) (l : List Nat) : PendExt st { st with signals := l } := PendExt.of_eq rfl

theorem pe_with_procs (st : St) (l : List Nat) : PendExt st { st with procs := l } := PendExt.of_eq rfl


theorem pe_watchLater (st : St) (flags : Nat) (slot : Int) (puser : Nat) :
    PendExt st (watchLater st flags slot puser).1 := by
  unfold watchLater
  exact ((pe_alloc st _).trans (pe_insertWatch _ _ _ _)).trans (pe_with_laters _ _)


theorem pe_watchIo (st : St) (fd : Int) (cond flags : Nat) (slot : Int) : PendExt st (watchIo st fd cond flags slot).1 := by
  unfold watchIo
  exact ((((pe_alloc st _).trans (pe_evloopIo _ _ _ _)).trans (pe_setEvi _ _ _)).trans
    (pe_insertWatch _ _ _ _)).trans (pe_with_iow _ _)


theorem pe_watchSignalPre (st : St) (signum : Int) (flags : Nat) (slot : Int) :
    PendExt st (watchSignalPre st signum flags slot) := by
  unfold watchSignalPre
  exact ((pe_alloc st _).trans (pe_evloopSignal _ _)).trans (pe_setEvi _ _ _)


theorem pe_watchSignal (st : St) (signum : Int) (flags : Nat) (slot : Int) :
    PendExt st (watchSignal st signum flags slot).1 := by
  unfold watchSignal
  exact ((pe_watchSignalPre st _ _ _).trans (pe_insertWatch _ _ _ _)).trans (pe_with_signals _ _)


theorem pe_waitpid (st : St) (pid : Int) : PendExt st (waitpid st pid).st := by
  unfold waitpid
  split
  · split
    · exact PendExt.of_eq rfl
    · split <;> exact PendExt.of_eq rfl
  · exact PendExt.refl st


theorem pe_ensureSigchld (st : St) : PendExt st (ensureSigchld st) := by
  unfold ensureSigchld
  split
  · exact PendExt.refl _
  · exact (pe_watchSignal _ _ _ _).trans (PendExt.of_eq rfl)


theorem pe_setNotify (st : St) (a : Nat) (n : Option Nat) : PendExt st (setNotify st a n) := by
  unfold setNotify
  exact pe_setW st a { st.getW a with notify := n }

theorem pe_linkNotified (r : St × Nat) (a : Nat) (flags : Nat) : PendExt r.1 (linkNotified r a flags) := by
  unfold linkNotified
  exact ((pe_setNotify r.1 a (some r.2)).trans (pe_insertWatch _ _ _ _)).trans (pe_with_procs _ _)

theorem pe_clearNotify (st : St) (a : Nat) : PendExt st (clearNotify st a) := by
  unfold clearNotify
  split
  · exact pe_setNotify st a none
  · exact PendExt.refl _

theorem pe_linkProcess (st : St) (a : Nat) (pid : Int) (flags : Nat) : PendExt st (linkProcess st a pid flags) := by
  unfold linkProcess
  simp only []
  split
  · split
    · exact (((pe_waitpid _ _).trans (pe_setWstatus _ _ _)).trans (pe_watchLater _ _ _ _)).trans (pe_linkNotified _ _ _)
    · exact ((pe_waitpid _ _).trans (pe_setWstatus _ _ _)).trans (pe_watchLater _ _ _ _)
  · exact ((pe_waitpid _ _).trans (pe_insertWatch _ _ _ _)).trans (pe_with_procs _ _)


theorem pe_watchProcess (st : St) (pid : Int) (flags : Nat) (slot : Int) :
    PendExt st (watchProcess st pid flags slot).1 := by
  unfold watchProcess
  exact ((pe_alloc st _).trans (pe_ensureSigchld _)).trans (pe_linkProcess _ _ _ _)


theorem pe_watchTimerAt (st : St) (due : TV) (flags : Nat) (slot : Int) : PendExt st (watchTimerAt st due flags slot).1 := by
  unfold watchTimerAt
  simp only []
  split
  · exact (pe_alloc st _).trans (pe_with_timers _ _)
  · exact (pe_alloc st _).trans (pe_fail _ _)

theorem pe_watchTimerAfterMsec (st : St) (msec : Int) (flags : Nat) (slot : Int) :
    PendExt st (watchTimerAfterMsec st msec flags slot).1 := by
  unfold watchTimerAfterMsec
  exact (pe_emit st _).trans (pe_watchTimerAt _ _ _ _)


theorem pe_cancelHook (st : St) (t : WType) (evi : Nat) : PendExt st (cancelHook st t evi) := by
  unfold cancelHook
  split
  · exact pe_evloopCancelIo _ _
  · exact pe_evloopCancelSignal _ _
  · exact PendExt.refl _


theorem pe_cancelNotify (st : St) (a : Nat) (w : Watch) : PendExt st (cancelNotify st a w) := by
  unfold cancelNotify
  split
  · exact pe_notify _ _ _
  · exact PendExt.refl _


theorem pe_cancelRest (st : St) (rest : List Nat) : PendExt st (cancelRest st rest) := by
  unfold cancelRest
  split
  · exact PendExt.refl _
  · split
    · exact pe_fail _ _
    · exact PendExt.refl _


theorem pe_cancelFound (st : St) (a : Nat) (w : Watch) (l : List Nat) : PendExt st (cancelFound st a w l) := by
  unfold cancelFound
  exact ((((pe_setListOf st _ _).trans (pe_cancelNotify _ a w)).trans (pe_cancelHook _ w.type w.evi)).trans (pe_free _ a)).trans
    (pe_cancelRest _ _)

theorem pe_cancelDetached (st : St) (a : Nat) : PendExt st (cancelDetached st a) := by
  unfold cancelDetached
  exact (pe_cancelNotify st a _).trans (pe_setW _ _ _)

theorem pe_laterPre (st : St) (a : Nat) : PendExt st (laterPre st a) := by
  unfold laterPre
  split
  · exact (pe_setW _ _ _)
  · exact PendExt.refl _

theorem pe_watchCancel0 (st : St) (a : Nat) : PendExt st (watchCancel0 st a) := by
  unfold watchCancel0
  split
  · exact PendExt.refl st
  · split
    · exact (pe_fail st _)
    · split
      · exact PendExt.refl st
      · split
        · exact (pe_fail st _)
        · split
          · split
            · exact pe_cancelDetached st a
            · exact PendExt.refl st
          · exact pe_cancelFound st a _ _


theorem pe_watchCancel (st : St) (a : Nat) : PendExt st (watchCancel st a) := by
  unfold watchCancel
  split
  · split
    · exact (pe_watchCancel0 st a).trans (pe_watchCancel0 _ _)
    · exact pe_watchCancel0 st a
  · exact pe_watchCancel0 st a

theorem pe_with_slots (st : St) (l : List SlotRec) : PendExt st { st with slots := l } := PendExt.of_eq rfl

theorem pe_with_errno (st : St) (e : Int) : PendExt st { st with errno := e } := PendExt.of_eq rfl

theorem pe_with_children (st : St) (l : List Proc) : PendExt st { st with children := l } := PendExt.of_eq rfl

theorem pe_with_stillRunning (st : St) (b : Bool) : PendExt st { st with stillRunning := b } := PendExt.of_eq rfl

theorem pe_with_inRun (st : St) (b : Bool) : PendExt st { st with inRun := b } := PendExt.of_eq rfl


theorem pe_doRegister (st : St) (k : Int) (reg : St → St × Nat) (h : ∀ s, PendExt s (reg s).1) :
    PendExt st (doRegister st k reg) := by
  unfold doRegister
  split
  · exact (pe_emit _ _)
  · split
    · exact (pe_emit _ _)
    · exact (h st).trans (pe_with_slots _ _)


theorem pe_with_cancelReq (st : St) (l : List Int) : PendExt st { st with cancelReq := l } := PendExt.of_eq rfl

theorem pe_doCancel (st : St) (k : Int) : PendExt st (doCancel st k) := by
  unfold doCancel
  split
  · exact (pe_emit _ _)
  · exact (pe_with_cancelReq _ _).trans (pe_watchCancel _ _)


theorem pe_runAct (st : St) (act : Act) : PendExt st (runAct st act) := by
  unfold runAct
  split
  · exact PendExt.refl _
  · split
    · split
      · exact pe_doRegister _ _ _ (fun s => pe_watchTimerAfterMsec s _ _ _)
      · exact PendExt.refl _
    · split
      · exact pe_doRegister _ _ _ (fun s => pe_watchTimerAt s _ _ _)
      · exact PendExt.refl _
    · exact pe_doRegister _ _ _ (fun s => (pe_watchLater s _ _ _))
    · exact pe_doRegister _ _ _ (fun s => (pe_watchIo s _ _ _ _))
    · split
      · exact pe_doRegister _ _ _ (fun s => (pe_watchSignal s _ _ _))
      · exact PendExt.refl _
    · split
      · exact pe_doRegister _ _ _ (fun s => (pe_watchProcess s _ _ _))
      · exact PendExt.refl _
    · exact pe_doCancel _ _
    · exact (pe_with_errno _ _)
    · split
      · exact (pe_raiseSig _ _)
      · exact PendExt.refl _
    · split
      · split
        · exact PendExt.refl _
        · exact (pe_with_children _ _)
      · exact PendExt.refl _
    · exact (pe_with_stillRunning _ _)
    · exact PendExt.refl _


theorem pe_runActs (acts : List Act) : ∀ st : St,
    PendExt st (acts.foldl (fun st act => if st.isOk then runAct (st.emit .a) act else st) st) := by
  induction acts with
  | nil => intro st; exact PendExt.refl st
  | cons a rest ih =>
    intro st
    simp only [List.foldl_cons]
    refine PendExt.trans ?_ (ih _)
    split
    · exact (pe_emit _ _).trans (pe_runAct _ _)
    · exact PendExt.refl _


theorem pe_fireUser (st : St) (k : Int) (flags : Nat) (info : Info) : PendExt st (fireUser st k flags info) := by
  unfold fireUser
  simp only []
  split
  · exact (pe_emit _ _)
  · split
    · exact (pe_emit _ _).trans (pe_with_slots _ _)
    · exact ((pe_emit _ _).trans (pe_with_slots _ _)).trans (pe_runActs _ _)


theorem pe_with_status (st : St) (x : Status) : PendExt st { st with status := x } := PendExt.of_eq rfl


theorem pe_unlinkOneshot (st : St) (a : Nat) : PendExt st (unlinkOneshot st a) := by
  unfold unlinkOneshot
  split
  · exact pe_fail _ _
  · split
    · exact PendExt.refl _
    · split
      · exact pe_fail _ _
      · split
        · exact PendExt.refl _
        · exact ((pe_setListOf st _ _).trans (pe_setW _ _ _)).trans (pe_free _ a)

theorem pe_unlinkOneshotSaved (st : St) (a : Nat) (t : WType) : PendExt st (unlinkOneshotSaved st a t) := by
  unfold unlinkOneshotSaved
  split
  · exact PendExt.refl _
  · split
    · exact pe_fail _ _
    · split
      · exact PendExt.refl _
      · exact ((pe_setListOf st _ _).trans (pe_setW _ _ _)).trans (pe_free _ a)

theorem pe_fireIf (st : St) (c : Prop) [Decidable c] (k : Int) (flags : Nat) (info : Info) :
    PendExt st (if c then fireUser st k flags info else st) := by
  split
  · exact pe_fireUser _ _ _ _
  · exact PendExt.refl _


theorem pe_invokeWatch (st : St) (a : Nat) (flags : Nat) (info : Info) : PendExt st (invokeWatch st a flags info) := by
  unfold invokeWatch
  have hf := pe_fireIf st ((st.getW a).slot ≥ 0) (st.getW a).slot flags info
  generalize (if (st.getW a).slot ≥ 0 then fireUser st (st.getW a).slot flags info else st) = s1 at hf ⊢
  split
  · exact PendExt.refl _
  · split
    · exact (pe_fail _ _)
    · split
      · exact hf
      · split
        · exact hf.trans (pe_unlinkOneshotSaved _ a _)
        · exact hf.trans (pe_unlinkOneshot _ a)


theorem pe_waitpidV (st : St) (pid : Int) : PendExt st (waitpidV st pid).st := by
  unfold waitpidV
  split
  · exact pe_waitpid _ _
  · exact PendExt.refl _


theorem pe_procStep (st : St) (a : Nat) : PendExt st (procStep st a) := by
  unfold procStep
  split
  · exact (pe_waitpidV _ _)
  · exact (pe_waitpidV _ _).trans (pe_invokeWatch _ _ _ _)


theorem pe_outOfFuel (st : St) : PendExt st (if st.isOk then { st with status := .outOfFuel } else st) := by
  split
  · exact (pe_with_status _ _)
  · exact PendExt.refl _


theorem pe_onSigchld (fuel : Nat) : ∀ (st : St) (this : Option Nat), PendExt st (onSigchld fuel st this) := by
  induction fuel with
  | zero => intro st this; unfold onSigchld; exact pe_outOfFuel st
  | succ n ih =>
    intro st this
    unfold onSigchld
    split
    · exact PendExt.refl _
    · split
      · exact PendExt.refl _
      · split
        · exact (pe_fail _ _)
        · exact (pe_procStep _ _).trans (ih _ _)


theorem pe_procSnapLoop (l : List Nat) : ∀ st : St, PendExt st (procSnapLoop st l) := by
  induction l with
  | nil => intro st; exact PendExt.refl st
  | cons a rest ih =>
    intro st
    unfold procSnapLoop
    split
    · exact PendExt.refl _
    · split
      · exact (pe_fail _ _)
      · split
        · exact ih _
        · split
          · exact (pe_fail _ _)
          · exact (pe_procStep _ _).trans (ih _)


theorem pe_onSigchldAny (fuel : Nat) (st : St) : PendExt st (onSigchldAny fuel st) := by
  unfold onSigchldAny
  split
  · split
    · exact (pe_fail _ _)
    · exact pe_procSnapLoop _ _
  · exact pe_onSigchld _ _ _


theorem pe_processNotify (st : St) (a : Nat) : PendExt st (processNotify st a) := by
  unfold processNotify
  split
  · exact (pe_fail _ _)
  · exact (pe_clearNotify _ _).trans (pe_invokeWatch _ _ _ _)


theorem pe_laterCb (st : St) (a : Nat) : PendExt st (laterCb st a) := by
  unfold laterCb
  split
  · exact pe_fireUser _ _ _ _
  · split
    · exact pe_processNotify _ _
    · exact PendExt.refl _


theorem pe_laterLoopT (l : List Nat) : ∀ st : St, PendExt st (laterLoopT st l).1 := by
  induction l with
  | nil => intro st; exact PendExt.refl st
  | cons a rest ih =>
    intro st
    unfold laterLoopT
    split
    · exact PendExt.refl _
    · split
      · exact (pe_fail _ _)
      · split
        · exact (pe_free _ a).trans (ih _)
        · split
          · exact ((pe_laterPre st a).trans (pe_laterCb _ a))
          · split
            · exact (((pe_laterPre st a).trans (pe_laterCb _ a))).trans (pe_fail _ _)
            · exact ((((pe_laterPre st a).trans (pe_laterCb _ a))).trans (pe_free _ a)).trans (ih _)


theorem pe_laterLoop (l : List Nat) (st : St) : PendExt st (laterLoop st l) := pe_laterLoopT l st


theorem pe_timerLoopT (fuel : Nat) : ∀ (st : St) (now : TV) (this : Option Nat), PendExt st (timerLoopT fuel st now this).1 := by
  induction fuel with
  | zero => intro st now this; unfold timerLoopT; exact pe_outOfFuel st
  | succ n ih =>
    intro st now this
    unfold timerLoopT
    split
    · exact PendExt.refl _
    · split
      · exact PendExt.refl _
      · rename_i a
        split
        · exact (pe_fail _ _)
        · split
          · exact PendExt.refl _
          · simp only []
            split
            · exact pe_fireUser _ _ _ _
            · split
              · exact (pe_fireUser _ _ _ _).trans (pe_fail _ _)
              · exact ((pe_fireUser _ _ _ _).trans (pe_free _ a)).trans (ih _ _ _)


theorem pe_timerLoopPopT (fuel : Nat) : ∀ (st : St) (now : TV), PendExt st (timerLoopPopT fuel st now).1 := by
  induction fuel with
  | zero => intro st now; unfold timerLoopPopT; exact pe_outOfFuel st
  | succ n ih =>
    intro st now
    unfold timerLoopPopT
    split
    · exact PendExt.refl _
    · split
      · exact PendExt.refl _
      · rename_i a rest hq
        split
        · exact pe_fail _ _
        · split
          · exact PendExt.refl _
          · have h1 := (pe_with_timers st rest).trans (pe_fireUser { st with timers := rest } (st.getW a).slot (EV_FIRE ||| EV_UNBIND) .none)
            simp only []
            split
            · exact h1
            · split
              · exact h1.trans (pe_fail _ _)
              · exact (h1.trans (pe_free _ a)).trans (ih _ _)

theorem pe_timerPhaseShipped (fuel : Nat) (st : St) (now : TV) : PendExt st (timerPhaseShipped fuel st now) := by
  unfold timerPhaseShipped timerLoop
  simp only []
  split
  · exact (pe_timerLoopT _ _ _ _).trans (pe_with_timers _ _)
  · exact pe_timerLoopT _ _ _ _

theorem pe_timerPhase (fuel : Nat) (st : St) : PendExt st (timerPhase fuel st) := by
  unfold timerPhase
  split
  · exact PendExt.refl _
  · split
    · exact (pe_emit _ _).trans (pe_timerLoopPopT _ _ _)
    · exact (pe_emit _ _).trans (pe_timerPhaseShipped _ _ _)


theorem pe_invokeTimers (fuel : Nat) (st : St) : PendExt st (invokeTimers fuel st) := by
  unfold invokeTimers
  split
  · exact PendExt.refl _
  · exact ((pe_with_laters st []).trans (pe_timerPhase _ _)).trans (pe_laterLoop _ _)


/-! ### dispatch_signals, end to end -/

theorem dispatchLoop_not_ok (fuel : Nat) (pending : List Int) : ∀ (l : List Int) (st : St), st.isOk = false →
    dispatchLoop fuel st pending l = st := by
  intro l
  induction l with
  | nil => intro st _; rfl
  | cons x rest ih =>
    intro st h
    unfold dispatchLoop
    simp only [h, Bool.false_and, Bool.false_eq_true, if_false]
    exact ih st h

/-- One walk (`tickit_evloop_invoke_sigwatches` in the variant the source has). -/
theorem sigDispatch_logged (fuel : Nat) (st : St) (s : Int) (i : SInv st) (hok : (sigDispatch fuel st s).status = .ok) :
    ∀ b ∈ st.signals, b ∈ (sigDispatch fuel st s).signals → (st.getW b).signum = s → (st.getW b).slot ≥ 0 →
      Ev.cb (st.getW b).slot EV_FIRE .none ∈ (sigDispatch fuel st s).log := by
  unfold sigDispatch at hok ⊢
  split
  · rename_i hc
    rw [if_pos hc] at hok
    split
    · rename_i hl
      rw [if_pos hl] at hok
      exact absurd hok (St.status_fail_ne _ _)
    · rename_i hl
      rw [if_neg hl] at hok
      exact fun b hb hfin hsig hslot => sigsnap_logged fuel s st.signals st i hok b hb (i.alloc b hb) hfin hsig hslot
  · rename_i hc
    rw [if_neg hc] at hok
    intro b hb hfin hsig hslot
    apply sigwalk_logged fuel st s st.signals.head? i hok b hfin _ hsig hslot
    cases hl : st.signals with
    | nil => rw [hl] at hb; cases hb
    | cons h t =>
      refine ⟨h, rfl, List.mem_cons_self, ?_⟩
      rw [hl] at hb
      simp only [List.mem_cons] at hb
      rw [aft_cons_self]
      exact hb

/-- The `for(signum …)` loop of `dispatch_signals`: for every pending signal of the range, every harness
    watch of it that is in the list at the start and still there at the end has its FIRE entry in the log. -/
theorem dispatchLoop_logged (fuel : Nat) (pending : List Int) : ∀ (l : List Int) (st : St), KInv st →
    (dispatchLoop fuel st pending l).status = .ok →
    ∀ s ∈ l, pending.contains s = true → ∀ b ∈ st.signals, b ∈ (dispatchLoop fuel st pending l).signals →
      (st.getW b).signum = s → (st.getW b).slot ≥ 0 →
      Ev.cb (st.getW b).slot EV_FIRE .none ∈ (dispatchLoop fuel st pending l).log := by
  intro l
  induction l with
  | nil => intro st _ _ s hs; cases hs
  | cons x rest ih =>
    intro st k hok s hs hpend b hb hfin hsig hslot
    unfold dispatchLoop at hok hfin ⊢
    -- the state after the (possible) walk for `x`
    have hstok : st.isOk = true := by
      cases h : st.isOk
      · exfalso
        simp only [h, Bool.false_and, Bool.false_eq_true, if_false] at hok
        rw [dispatchLoop_not_ok fuel pending rest st h] at hok
        exact absurd ((St.isOk_iff st).mpr hok) (by simp [h])
      · rfl
    have kst : KStep st (if st.isOk && pending.contains x && st.watched.contains x then sigDispatch fuel st x else st) := by
      split
      · exact k_sigDispatch _ _ _
      · exact KStep.refl _
    have sst : SigStep st (if st.isOk && pending.contains x && st.watched.contains x then sigDispatch fuel st x else st) := by
      split
      · exact step_sigDispatch _ _ _
      · exact SigStep.refl _
    have f1 := sst k.sinv
    have hblt : b < st.heap.length := k.sinv.alloc b hb
    have hsame := f1.ext.same b hblt
    by_cases hsx : s = x
    · subst hsx
      have hw : st.watched.contains s = true := by rw [← hsig]; exact k.watched b hb
      simp only [hstok, hpend, hw, Bool.and_self, if_true] at hok hfin ⊢ f1
      have hok1 : (sigDispatch fuel st s).status = .ok := by
        cases h : (sigDispatch fuel st s).isOk
        · rw [dispatchLoop_not_ok fuel pending rest _ h] at hok
          exact absurd ((St.isOk_iff _).mpr hok) (by simp [h])
        · exact (St.isOk_iff _).mp h
      have f2 := step_dispatchLoop fuel pending rest (sigDispatch fuel st s) f1.inv
      have hb1 : b ∈ (sigDispatch fuel st s).signals := by
        cases f2.fresh b hfin with
        | inl h => exact h
        | inr h => have := f1.ext.len; omega
      exact (lg_dispatchLoop fuel pending rest _).mem (sigDispatch_logged fuel st s k.sinv hok1 b hb hb1 hsig hslot)
    · have hsr : s ∈ rest := by
        simp only [List.mem_cons] at hs
        cases hs with
        | inl h => exact absurd h hsx
        | inr h => exact h
      generalize (if st.isOk && pending.contains x && st.watched.contains x then sigDispatch fuel st x else st) = st1 at *
      have f2 := step_dispatchLoop fuel pending rest st1 f1.inv
      have hb1 : b ∈ st1.signals := by
        cases f2.fresh b hfin with
        | inl h => exact h
        | inr h => have := f1.ext.len; omega
      rw [← hsame.2]
      apply ih st1 (kst k) hok s hsr hpend b hb1 hfin
      · rw [hsame.1]; exact hsig
      · rw [hsame.2]; exact hslot

/-- `dispatch_signals`. -/
theorem dispatchSignals_logged (fuel : Nat) (st : St) (k : KInv st) (hok : (dispatchSignals fuel st).status = .ok) :
    ∀ s ∈ signalRange, s ∈ st.pendingSig → ∀ b ∈ st.signals, b ∈ (dispatchSignals fuel st).signals →
      (st.getW b).signum = s → (st.getW b).slot ≥ 0 →
      Ev.cb (st.getW b).slot EV_FIRE .none ∈ (dispatchSignals fuel st).log := by
  intro s hs hp b hb hfin hsig hslot
  unfold dispatchSignals at hok hfin ⊢
  have k0 : KInv { st with pendingSig := [] } := KInv.of_same (st := st) rfl rfl rfl rfl k
  have hp' : st.pendingSig.contains s = true := by simpa using hp
  exact dispatchLoop_logged fuel st.pendingSig signalRange _ k0 hok s hs hp' b hb hfin hsig hslot

/-- One iteration under the repaired `evloop_run`, end to end: the wait is interrupted; every signal that
    was pending in the kernel at the wait is dispatched after the timers and deferred callbacks have run,
    whatever they did; every harness watch of such a signal that is in the list then and still at the end of
    the iteration has its FIRE entry in the log of the iteration. -/
theorem tick_signal_reaches_logged (fuel : Nat) (st : St) (nohang : Bool) (k : KInv st) (hs : st.cfg.errnoSaved = true)
    (ho : st.observer = .self) (hok0 : st.isOk = true) (hok1 : (nextTimerMsec st).1.isOk = true)
    (hok2 : (ppoll (nextTimerMsec st).1 (tickTimeout nohang (nextTimerMsec st).2)).1.isOk = true)
    (hint : (ppoll (nextTimerMsec st).1 (tickTimeout nohang (nextTimerMsec st).2)).2 = none)
    (hok3 : (invokeTimers fuel (ppoll (nextTimerMsec st).1 (tickTimeout nohang (nextTimerMsec st).2)).1).isOk = true)
    (hok : (tick fuel st nohang).status = .ok) :
    ∀ s ∈ signalRange, s ∈ (pollRaise (pollScan (nextTimerMsec st).1)).kpending →
      ∀ b ∈ (invokeTimers fuel (ppoll (nextTimerMsec st).1 (tickTimeout nohang (nextTimerMsec st).2)).1).signals,
        b ∈ (tick fuel st nohang).signals →
        ((invokeTimers fuel (ppoll (nextTimerMsec st).1 (tickTimeout nohang (nextTimerMsec st).2)).1).getW b).signum = s →
        ((invokeTimers fuel (ppoll (nextTimerMsec st).1 (tickTimeout nohang (nextTimerMsec st).2)).1).getW b).slot ≥ 0 →
        Ev.cb ((invokeTimers fuel (ppoll (nextTimerMsec st).1 (tickTimeout nohang (nextTimerMsec st).2)).1).getW b).slot EV_FIRE .none
          ∈ (tick fuel st nohang).log := by
  have htick := tick_eintr_dispatches fuel st nohang hs hok0 hok1 hok2 hint hok3
  rw [htick] at hok ⊢
  have kT : KInv (invokeTimers fuel (ppoll (nextTimerMsec st).1 (tickTimeout nohang (nextTimerMsec st).2)).1) :=
    (((g3_nextTimerMsec st).trans (g3_ppoll _ _)).kstep.trans (k_invokeTimers _ _)) k
  intro s hsr hpend b hb hfin hsig hslot
  have hp1 := (ppoll_eintr _ _ (by rw [observer_nextTimerMsec]; exact ho) hint).2.2 s hpend
  have hp2 := pe_invokeTimers fuel _ s hp1
  exact dispatchSignals_logged fuel _ kT hok s hsr hp2 b hb hfin hsig hslot

end Tickit.EvLoop
