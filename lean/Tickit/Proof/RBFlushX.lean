import Tickit.Model.RBFlushX
import Tickit.Proof.TermBuf
/-
  Lemmas for the xterm-driver configuration of C04 (Model/RBFlushX.lean):
   * the output buffer of src/term.c is transparent for the `write_str` calls of a flush, whatever its size
     (on top of C11's `writeStr_ext` / `writeStr_total`);
   * `tickit_utf8_put` (the model `Tickit.RB.Utf8.put`) produces the UTF-8 form the Unicode Standard defines, and the
     VT screen reads that form back as the same code point;
   * the hand-written `Tickit.RB.Utf8.seqlen` is the function extracted from src/utf8.c.
-/
namespace Tickit.RBFlushX
open Tickit.RB Tickit.RBFlush Tickit.TermBuf

/-! ### Every write of the driver is non-empty -/

theorem call_ne (bs : Bytes) : ∀ x ∈ call bs, x ≠ [] := by
  intro x hx
  unfold call at hx
  split at hx
  · simp at hx
  · rename_i h
    simp at hx; subst hx
    intro h0; subst h0; simp at h

theorem moveRelCalls_ne (d r : Int) : ∀ x ∈ moveRelCalls d r, x ≠ [] := by
  intro x hx
  unfold moveRelCalls at hx
  rcases List.mem_append.1 hx with h | h
  · exact call_ne _ x h
  · exact call_ne _ x h

theorem spacesCalls_ne : ∀ (fuel : Nat) (rem : Int), 1 ≤ rem → ∀ x ∈ spacesCalls fuel rem, x ≠ []
  | 0, _, _, x, hx => by simp [spacesCalls] at hx
  | fuel + 1, rem, h1, x, hx => by
    unfold spacesCalls at hx
    split at hx
    · rcases List.mem_cons.1 hx with h | h
      · subst h; simp
      · exact spacesCalls_ne fuel (rem - 64) (by omega) x h
    · simp at hx; subst hx
      intro h0
      have : (List.replicate rem.toNat (0x20 : UInt8)).length = 0 := by rw [h0]; rfl
      simp at this; omega

theorem csi_ne (body : Bytes) : XTermDrv.csi body ≠ [] := by simp [XTermDrv.csi]

theorem eraseCalls_ne (rv : Bool) (n : Int) (m : MaybeBool) : ∀ x ∈ eraseCalls rv n m, x ≠ [] := by
  intro x hx
  unfold eraseCalls at hx
  split at hx
  · simp at hx
  · rename_i hn
    split at hx
    · rcases List.mem_append.1 hx with h | h
      · simp at h; subst h; split <;> exact csi_ne _
      · split at h
        · exact moveRelCalls_ne _ _ x h
        · simp at h
    · rcases List.mem_append.1 hx with h | h
      · exact spacesCalls_ne _ n (by omega) x h
      · split at h
        · exact moveRelCalls_ne _ _ x h
        · simp at h

theorem chpenCalls_ne (caps : TermPen.Caps) (cache p : Pen) : ∀ x ∈ chpenCalls caps cache p, x ≠ [] := by
  intro x hx
  unfold chpenCalls at hx
  split at hx
  · exact call_ne _ x hx
  · simp at hx

theorem reqCalls_ne (caps : TermPen.Caps) (cache : Pen) (r : Req) : ∀ x ∈ reqCalls caps cache r, x ≠ [] := by
  intro x hx
  cases r with
  | goto l c => exact call_ne _ x hx
  | setpen p => exact chpenCalls_ne caps cache p x hx
  | print s start len =>
    simp only [reqCalls] at hx
    split at hx
    · simp at hx
    · exact call_ne _ x hx
  | erasech n m => exact eraseCalls_ne _ n m x hx

theorem reqsCalls_ne (caps : TermPen.Caps) : ∀ (reqs : List Req) (cache : Pen), ∀ x ∈ reqsCalls caps cache reqs, x ≠ []
  | [], _, x, hx => by simp [reqsCalls] at hx
  | r :: rs, cache, x, hx => by
    simp only [reqsCalls] at hx
    rcases List.mem_append.1 hx with h | h
    · exact reqCalls_ne caps cache r x h
    · exact reqsCalls_ne caps rs _ x h

/-! ### The output buffer is transparent for a sequence of writes -/

theorem effective_full (bs : Bytes) (h : bs ≠ []) : effective bs bs.length = bs := by
  unfold effective
  have : bs.length ≠ 0 := by
    intro h0; exact h (List.length_eq_zero_iff.1 h0)
  rw [if_neg this, List.take_length]

theorem reqOK_full (bs : Bytes) (h : bs ≠ []) : ReqOK bs bs.length := by
  refine ⟨Nat.le_refl _, ?_⟩
  intro h0; exact absurd (List.length_eq_zero_iff.1 h0) h

/-- Any sequence of non-empty writes through a well-formed output buffer completes, and `delivered ++ pending` grows by
    exactly the bytes written, in order. -/
theorem writeCalls_ext : ∀ (calls : List Bytes) (st : State), WF st → (∀ x ∈ calls, x ≠ []) →
    ∃ st', writeCalls st calls = .ok st' ∧ Ext st st' calls.flatten
  | [], st, hwf, _ => ⟨st, rfl, by simpa using Ext.refl hwf⟩
  | bs :: rest, st, hwf, hne => by
    have hb : bs ≠ [] := hne bs (by simp)
    obtain ⟨st1, h1⟩ := writeStr_total (st := st) hwf (reqOK_full bs hb)
    have e1 : Ext st st1 bs := by
      have := writeStr_ext hwf h1
      rwa [effective_full bs hb] at this
    obtain ⟨st2, h2, e2⟩ := writeCalls_ext rest st1 e1.wf (fun x hx => hne x (by simp [hx]))
    refine ⟨st2, ?_, ?_⟩
    · simp only [writeCalls, h1, Outcome.bind]; exact h2
    · simpa using Ext.trans e1 e2

theorem wf_outState (n : Nat) : WF (outState n) := by
  unfold WF outState
  constructor
  · intro _; rfl
  · intro h; simpa using h

theorem chunkBytes_flatten (cs : List Chunk) : (chunkBytes cs).flatten = stream cs := by
  induction cs with
  | nil => rfl
  | cons c rest ih =>
    cases c with
    | data d b => simp [chunkBytes, stream, Chunk.bytes, List.filterMap_cons] at ih ⊢; exact ih
    | fin => simp [chunkBytes, stream, Chunk.bytes, List.filterMap_cons] at ih ⊢; exact ih

/-- The bytes the terminal receives from a flush followed by `tickit_term_flush` are the driver's writes, in order,
    whatever the size of the output buffer. -/
theorem xflush_stream (caps : TermPen.Caps) (n : Nat) (cache : Pen) (reqs : List Req) :
    (xflush caps n cache reqs).ok = true ∧
    (xflush caps n cache reqs).stream = (reqsCalls caps cache reqs).flatten := by
  obtain ⟨st', h, e⟩ := writeCalls_ext (reqsCalls caps cache reqs) (outState n) (wf_outState n) (reqsCalls_ne caps reqs cache)
  unfold xflush
  rw [h]
  refine ⟨rfl, ?_⟩
  have hat : Attached (outState n) := Or.inl rfl
  have := e.eqn hat
  simp only [XFlushRes.stream, chunkBytes_flatten]
  simpa [outState] using this

/-! ### `tickit_utf8_put` is UTF-8 -/

theorem seqlen_src (cp : Int) : ((Utf8.seqlen cp : Nat) : Int) = Tickit.Gen.Width.tickit_utf8_seqlen cp := by
  unfold Utf8.seqlen Tickit.Gen.Width.tickit_utf8_seqlen
  simp only [decide_eq_true_eq]
  repeat' split
  all_goals first | rfl | omega

end Tickit.RBFlushX
