import Tickit.Model.RBFlushX
import Tickit.Proof.TermBuf
import Tickit.Proof.VT
/-
  Lemmas for the xterm-driver configuration of C04 (Model/RBFlushX.lean):
   * the output buffer of src/term.c is transparent for the `write_str` calls of a flush, whatever its size
     (on top of C11's `writeStr_ext` / `writeStr_total`);
   * `tickit_utf8_put` (the model `Tickit.RB.Utf8.put`) produces the UTF-8 form the Unicode Standard defines, and the
     VT screen reads that form back as the same code point;
   * the hand-written `Tickit.RB.Utf8.seqlen` is the function extracted from src/utf8.c.
-/
namespace Tickit.RBFlushX
open Tickit.RB Tickit.RBFlush Tickit.TermBuf

/-! ### Every write of the driver is non-empty -/

theorem call_ne (bs : Bytes) : ∀ x ∈ call bs, x ≠ [] := by
  intro x hx
  unfold call at hx
  split at hx
  · simp at hx
  · rename_i h
    simp at hx; subst hx
    intro h0; subst h0; simp at h

theorem moveRelCalls_ne (d r : Int) : ∀ x ∈ moveRelCalls d r, x ≠ [] := by
  intro x hx
  unfold moveRelCalls at hx
  rcases List.mem_append.1 hx with h | h
  · exact call_ne _ x h
  · exact call_ne _ x h

theorem spacesCalls_ne : ∀ (fuel : Nat) (rem : Int), 1 ≤ rem → ∀ x ∈ spacesCalls fuel rem, x ≠ []
  | 0, _, _, x, hx => by simp [spacesCalls] at hx
  | fuel + 1, rem, h1, x, hx => by
    unfold spacesCalls at hx
    split at hx
    · rcases List.mem_cons.1 hx with h | h
      · subst h; simp
      · exact spacesCalls_ne fuel (rem - 64) (by omega) x h
    · simp at hx; subst hx
      intro h0
      have : (List.replicate rem.toNat (0x20 : UInt8)).length = 0 := by rw [h0]; rfl
      simp at this; omega

theorem csi_ne (body : Bytes) : XTermDrv.csi body ≠ [] := by simp [XTermDrv.csi]

theorem eraseCalls_ne (rv : Bool) (n : Int) (m : MaybeBool) : ∀ x ∈ eraseCalls rv n m, x ≠ [] := by
  intro x hx
  unfold eraseCalls at hx
  split at hx
  · simp at hx
  · rename_i hn
    split at hx
    · rcases List.mem_append.1 hx with h | h
      · simp at h; subst h; split <;> exact csi_ne _
      · split at h
        · exact moveRelCalls_ne _ _ x h
        · simp at h
    · rcases List.mem_append.1 hx with h | h
      · exact spacesCalls_ne _ n (by omega) x h
      · split at h
        · exact moveRelCalls_ne _ _ x h
        · simp at h

theorem chpenCalls_ne (caps : TermPen.Caps) (cache p : Pen) : ∀ x ∈ chpenCalls caps cache p, x ≠ [] := by
  intro x hx
  unfold chpenCalls at hx
  split at hx
  · exact call_ne _ x hx
  · simp at hx

theorem reqCalls_ne (caps : TermPen.Caps) (cache : Pen) (r : Req) : ∀ x ∈ reqCalls caps cache r, x ≠ [] := by
  intro x hx
  cases r with
  | goto l c => exact call_ne _ x hx
  | setpen p => exact chpenCalls_ne caps cache p x hx
  | print s start len =>
    simp only [reqCalls] at hx
    split at hx
    · simp at hx
    · exact call_ne _ x hx
  | erasech n m => exact eraseCalls_ne _ n m x hx

theorem reqsCalls_ne (caps : TermPen.Caps) : ∀ (reqs : List Req) (cache : Pen), ∀ x ∈ reqsCalls caps cache reqs, x ≠ []
  | [], _, x, hx => by simp [reqsCalls] at hx
  | r :: rs, cache, x, hx => by
    simp only [reqsCalls] at hx
    rcases List.mem_append.1 hx with h | h
    · exact reqCalls_ne caps cache r x h
    · exact reqsCalls_ne caps rs _ x h

/-! ### The output buffer is transparent for a sequence of writes -/

theorem effective_full (bs : Bytes) (h : bs ≠ []) : effective bs bs.length = bs := by
  unfold effective
  have : bs.length ≠ 0 := by
    intro h0; exact h (List.length_eq_zero_iff.1 h0)
  rw [if_neg this, List.take_length]

theorem reqOK_full (bs : Bytes) (h : bs ≠ []) : ReqOK bs bs.length := by
  refine ⟨Nat.le_refl _, ?_⟩
  intro h0; exact absurd (List.length_eq_zero_iff.1 h0) h

/-- Any sequence of non-empty writes through a well-formed output buffer completes, and `delivered ++ pending` grows by
    exactly the bytes written, in order. -/
theorem writeCalls_ext : ∀ (calls : List Bytes) (st : State), WF st → (∀ x ∈ calls, x ≠ []) →
    ∃ st', writeCalls st calls = .ok st' ∧ Ext st st' calls.flatten
  | [], st, hwf, _ => ⟨st, rfl, by simpa using Ext.refl hwf⟩
  | bs :: rest, st, hwf, hne => by
    have hb : bs ≠ [] := hne bs (by simp)
    obtain ⟨st1, h1⟩ := writeStr_total (st := st) hwf (reqOK_full bs hb)
    have e1 : Ext st st1 bs := by
      have := writeStr_ext hwf h1
      rwa [effective_full bs hb] at this
    obtain ⟨st2, h2, e2⟩ := writeCalls_ext rest st1 e1.wf (fun x hx => hne x (by simp [hx]))
    refine ⟨st2, ?_, ?_⟩
    · simp only [writeCalls, h1, Outcome.bind]; exact h2
    · simpa using Ext.trans e1 e2

theorem wf_outState (n : Nat) : WF (outState n) := by
  unfold WF outState
  constructor
  · intro _; rfl
  · intro h; simpa using h

theorem chunkBytes_flatten (cs : List Chunk) : (chunkBytes cs).flatten = stream cs := by
  induction cs with
  | nil => rfl
  | cons c rest ih =>
    cases c with
    | data d b => simp [chunkBytes, stream, Chunk.bytes, List.filterMap_cons] at ih ⊢; exact ih
    | fin => simp [chunkBytes, stream, Chunk.bytes, List.filterMap_cons] at ih ⊢; exact ih

/-- The bytes the terminal receives from a flush followed by `tickit_term_flush` are the driver's writes, in order,
    whatever the size of the output buffer. -/
theorem xflush_stream (caps : TermPen.Caps) (n : Nat) (cache : Pen) (reqs : List Req) :
    (xflush caps n cache reqs).ok = true ∧
    (xflush caps n cache reqs).stream = (reqsCalls caps cache reqs).flatten := by
  obtain ⟨st', h, e⟩ := writeCalls_ext (reqsCalls caps cache reqs) (outState n) (wf_outState n) (reqsCalls_ne caps reqs cache)
  unfold xflush
  rw [h]
  refine ⟨rfl, ?_⟩
  have hat : Attached (outState n) := Or.inl rfl
  have := e.eqn hat
  simp only [XFlushRes.stream, chunkBytes_flatten]
  simpa [outState] using this

/-! ### `tickit_utf8_put` is UTF-8 -/

theorem seqlen_src (cp : Int) : ((Tickit.RB.Utf8.seqlen cp : Nat) : Int) = Tickit.Gen.Width.tickit_utf8_seqlen cp := by
  unfold Tickit.RB.Utf8.seqlen Tickit.Gen.Width.tickit_utf8_seqlen
  simp only [decide_eq_true_eq]
  repeat' split
  all_goals first | rfl | omega

theorem seqlen_cases (cp : Nat) :
    (cp < 0x80 ∧ Tickit.RB.Utf8.seqlen cp = 1) ∨ (0x80 ≤ cp ∧ cp < 0x800 ∧ Tickit.RB.Utf8.seqlen cp = 2) ∨
    (0x800 ≤ cp ∧ cp < 0x10000 ∧ Tickit.RB.Utf8.seqlen cp = 3) ∨
    (0x10000 ≤ cp ∧ cp < 0x200000 ∧ Tickit.RB.Utf8.seqlen cp = 4) ∨ 0x200000 ≤ cp := by
  unfold Tickit.RB.Utf8.seqlen
  repeat' split
  all_goals omega

/-- `tickit_utf8_put` writes the UTF-8 form of the Unicode Standard (every code point that has one, and the four-byte
    pattern beyond U+10FFFF). -/
theorem put_eq_stdUtf8 (cp : Nat) (h : cp < 0x200000) : Tickit.RB.Utf8.put cp = stdUtf8 cp := by
  rcases seqlen_cases cp with ⟨h1, hs⟩ | ⟨h1, h2, hs⟩ | ⟨h1, h2, hs⟩ | ⟨h1, h2, hs⟩ | h1
  · have t : Tickit.RB.Utf8.putTail (1 - 1) cp [] = [] := rfl
    have l : cp / 64 ^ (1 - 1) % 128 = cp := by simp; omega
    unfold Tickit.RB.Utf8.put stdUtf8
    simp only [hs, if_pos h1, t, l]
  · have t : Tickit.RB.Utf8.putTail (2 - 1) cp [] = [UInt8.ofNat (0x80 + cp % 64)] := rfl
    have l : cp / 64 ^ (2 - 1) % 32 = cp / 64 := by simp; omega
    have n1 : ¬ cp < 0x80 := by omega
    unfold Tickit.RB.Utf8.put stdUtf8
    simp only [hs, if_neg n1, if_pos h2, t, l]
  · have t : Tickit.RB.Utf8.putTail (3 - 1) cp [] =
        [UInt8.ofNat (0x80 + cp / 64 % 64), UInt8.ofNat (0x80 + cp % 64)] := rfl
    have l : cp / 64 ^ (3 - 1) % 16 = cp / 4096 := by simp; omega
    have n1 : ¬ cp < 0x80 := by omega
    have n2 : ¬ cp < 0x800 := by omega
    unfold Tickit.RB.Utf8.put stdUtf8
    simp only [hs, if_neg n1, if_neg n2, if_pos h2, t, l]
  · have t : Tickit.RB.Utf8.putTail (4 - 1) cp [] =
        [UInt8.ofNat (0x80 + cp / 64 / 64 % 64), UInt8.ofNat (0x80 + cp / 64 % 64), UInt8.ofNat (0x80 + cp % 64)] := rfl
    have l : cp / 64 ^ (4 - 1) % 8 = cp / 262144 % 8 := by simp
    have e1 : cp / 64 / 64 % 64 = cp / 4096 % 64 := by omega
    have n1 : ¬ cp < 0x80 := by omega
    have n2 : ¬ cp < 0x800 := by omega
    have n3 : ¬ cp < 0x10000 := by omega
    unfold Tickit.RB.Utf8.put stdUtf8
    simp only [hs, if_neg n1, if_neg n2, if_neg n3, t, l, e1]
  · omega

theorem stdUtf8_length_ne (cp : Nat) : (stdUtf8 cp).length ≠ 0 := by
  unfold stdUtf8
  split
  · simp
  · split
    · simp
    · split <;> simp

/-! ### The library's own decoder (`next_utf8`) reads the UTF-8 form back -/

theorem toNat_ofNat_lt (x : Nat) (h : x < 256) : (UInt8.ofNat x).toNat = x := by
  simp; omega

theorem byteAt_cons0 (b : UInt8) (r : List UInt8) : Tickit.RB.Utf8.byteAt (b :: r) 0 = b.toNat := rfl

theorem byteAt_cons_succ (b : UInt8) (r : List UInt8) (i : Nat) :
    Tickit.RB.Utf8.byteAt (b :: r) (i + 1) = Tickit.RB.Utf8.byteAt r i := by
  simp [Tickit.RB.Utf8.byteAt, List.getD]

theorem nextUtf8_1 (x : Nat) (hx : 0 < x ∧ x < 0x80) :
    Tickit.RB.Utf8.nextUtf8 [UInt8.ofNat x] 0 (some 1) = some ⟨1, x⟩ := by
  have hx' := toNat_ofNat_lt x (by omega)
  unfold Tickit.RB.Utf8.nextUtf8
  simp only [byteAt_cons0, hx']
  repeat' split
  all_goals first | (exfalso; omega) | skip
  all_goals simp_all

theorem nextUtf8_2 (x y : Nat) (hx : 0xc2 ≤ x ∧ x ≤ 0xdf) (hy : 0x80 ≤ y ∧ y ≤ 0xbf) :
    Tickit.RB.Utf8.nextUtf8 [UInt8.ofNat x, UInt8.ofNat y] 0 (some 2) = some ⟨2, (x - 0xc0) * 64 + (y - 0x80)⟩ := by
  have hx' := toNat_ofNat_lt x (by omega)
  have hy' := toNat_ofNat_lt y (by omega)
  unfold Tickit.RB.Utf8.nextUtf8
  simp only [byteAt_cons0, hx']
  have : Tickit.RB.Utf8.contBytes [UInt8.ofNat x, UInt8.ofNat y] (2 - 1) (0 + 1) (x % 32) =
      some ((x - 0xc0) * 64 + (y - 0x80)) := by
    show Tickit.RB.Utf8.contBytes [UInt8.ofNat x, UInt8.ofNat y] 1 1 (x % 32) = _
    unfold Tickit.RB.Utf8.contBytes
    simp only [byteAt_cons_succ, byteAt_cons0, hy']
    rw [if_neg (by omega)]
    unfold Tickit.RB.Utf8.contBytes
    exact congrArg some (by omega)
  repeat' split
  all_goals first | (exfalso; omega) | skip
  all_goals simp_all

theorem nextUtf8_3 (x y z : Nat) (hx : 0xe0 ≤ x ∧ x ≤ 0xef) (hy : 0x80 ≤ y ∧ y ≤ 0xbf) (hz : 0x80 ≤ z ∧ z ≤ 0xbf) :
    Tickit.RB.Utf8.nextUtf8 [UInt8.ofNat x, UInt8.ofNat y, UInt8.ofNat z] 0 (some 3) =
      some ⟨3, ((x - 0xe0) * 64 + (y - 0x80)) * 64 + (z - 0x80)⟩ := by
  have hx' := toNat_ofNat_lt x (by omega)
  have hy' := toNat_ofNat_lt y (by omega)
  have hz' := toNat_ofNat_lt z (by omega)
  unfold Tickit.RB.Utf8.nextUtf8
  simp only [byteAt_cons0, hx']
  have : Tickit.RB.Utf8.contBytes [UInt8.ofNat x, UInt8.ofNat y, UInt8.ofNat z] (3 - 1) (0 + 1) (x % 16) =
      some (((x - 0xe0) * 64 + (y - 0x80)) * 64 + (z - 0x80)) := by
    show Tickit.RB.Utf8.contBytes [UInt8.ofNat x, UInt8.ofNat y, UInt8.ofNat z] 2 1 (x % 16) = _
    unfold Tickit.RB.Utf8.contBytes
    simp only [byteAt_cons_succ, byteAt_cons0, hy']
    rw [if_neg (by omega)]
    unfold Tickit.RB.Utf8.contBytes
    simp only [byteAt_cons_succ, byteAt_cons0, hz']
    rw [if_neg (by omega)]
    unfold Tickit.RB.Utf8.contBytes
    exact congrArg some (by omega)
  repeat' split
  all_goals first | (exfalso; omega) | skip
  all_goals simp_all

theorem nextUtf8_4 (x y z w : Nat) (hx : 0xf0 ≤ x ∧ x ≤ 0xf7) (hy : 0x80 ≤ y ∧ y ≤ 0xbf) (hz : 0x80 ≤ z ∧ z ≤ 0xbf)
    (hw : 0x80 ≤ w ∧ w ≤ 0xbf) :
    Tickit.RB.Utf8.nextUtf8 [UInt8.ofNat x, UInt8.ofNat y, UInt8.ofNat z, UInt8.ofNat w] 0 (some 4) =
      some ⟨4, (((x - 0xf0) * 64 + (y - 0x80)) * 64 + (z - 0x80)) * 64 + (w - 0x80)⟩ := by
  have hx' := toNat_ofNat_lt x (by omega)
  have hy' := toNat_ofNat_lt y (by omega)
  have hz' := toNat_ofNat_lt z (by omega)
  have hw' := toNat_ofNat_lt w (by omega)
  unfold Tickit.RB.Utf8.nextUtf8
  simp only [byteAt_cons0, hx']
  have : Tickit.RB.Utf8.contBytes [UInt8.ofNat x, UInt8.ofNat y, UInt8.ofNat z, UInt8.ofNat w] (4 - 1) (0 + 1) (x % 8) =
      some ((((x - 0xf0) * 64 + (y - 0x80)) * 64 + (z - 0x80)) * 64 + (w - 0x80)) := by
    show Tickit.RB.Utf8.contBytes [UInt8.ofNat x, UInt8.ofNat y, UInt8.ofNat z, UInt8.ofNat w] 3 1 (x % 8) = _
    unfold Tickit.RB.Utf8.contBytes
    simp only [byteAt_cons_succ, byteAt_cons0, hy']
    rw [if_neg (by omega)]
    unfold Tickit.RB.Utf8.contBytes
    simp only [byteAt_cons_succ, byteAt_cons0, hz']
    rw [if_neg (by omega)]
    unfold Tickit.RB.Utf8.contBytes
    simp only [byteAt_cons_succ, byteAt_cons0, hw']
    rw [if_neg (by omega)]
    unfold Tickit.RB.Utf8.contBytes
    exact congrArg some (by omega)
  repeat' split
  all_goals first | (exfalso; omega) | skip
  all_goals simp_all

/-- `next_utf8` reads the UTF-8 form of every code point `1 … 0x1FFFFF` back as that code point, consuming all of it. -/
theorem nextUtf8_stdUtf8 (cp : Nat) (h0 : 0 < cp) (h : cp < 0x200000) :
    Tickit.RB.Utf8.nextUtf8 (stdUtf8 cp) 0 (some (stdUtf8 cp).length) = some ⟨(stdUtf8 cp).length, cp⟩ := by
  unfold stdUtf8
  by_cases c1 : cp < 0x80
  · simp only [if_pos c1, List.length_cons, List.length_nil]
    exact nextUtf8_1 cp ⟨h0, c1⟩
  · by_cases c2 : cp < 0x800
    · simp only [if_neg c1, if_pos c2, List.length_cons, List.length_nil]
      rw [nextUtf8_2 _ _ (by omega) (by omega)]
      exact congrArg (fun v => some (Tickit.RB.Utf8.Dec.mk 2 v)) (by omega)
    · by_cases c3 : cp < 0x10000
      · simp only [if_neg c1, if_neg c2, if_pos c3, List.length_cons, List.length_nil]
        rw [nextUtf8_3 _ _ _ (by omega) (by omega) (by omega)]
        exact congrArg (fun v => some (Tickit.RB.Utf8.Dec.mk 3 v)) (by omega)
      · simp only [if_neg c1, if_neg c2, if_neg c3, List.length_cons, List.length_nil]
        rw [nextUtf8_4 _ _ _ _ (by omega) (by omega) (by omega) (by omega)]
        exact congrArg (fun v => some (Tickit.RB.Utf8.Dec.mk 4 v)) (by omega)

/-! ### The screen reads the UTF-8 form of a printable code point back as that code point -/

/-- A code point a CHAR cell or a text may hold and a terminal shows: not a C0/C1 control or DEL, a Unicode scalar
    position up to U+10FFFF. -/
def Printable (cp : Nat) : Prop := 0x20 ≤ cp ∧ ¬ (0x7f ≤ cp ∧ cp < 0xa0) ∧ cp < 0x110000
instance (cp : Nat) : Decidable (Printable cp) := by unfold Printable; exact inferInstance

namespace XScreen

theorem set_ps_ground (s : XScreen) (p : VT.PState) (hg : s.ps = .ground) :
    ({ ({ s with ps := p } : XScreen) with ps := .ground } : XScreen) = s := by
  cases s; simp_all

theorem step_ascii (s : XScreen) (hg : s.ps = .ground) (x : Nat) (h1 : 0x20 ≤ x) (h2 : x < 0x7f) :
    s.step (UInt8.ofNat x) = s.putCp x := by
  have hn : (UInt8.ofNat x).toNat = x := toNat_ofNat_lt x (by omega)
  simp only [step, hg, groundByte, hn]
  repeat' split
  all_goals first | (exfalso; omega) | rfl

theorem step_lead2 (s : XScreen) (hg : s.ps = .ground) (x : Nat) (h1 : 0xc2 ≤ x) (h2 : x ≤ 0xdf) :
    s.step (UInt8.ofNat x) = { s with ps := .utf8 1 (x - 0xc0) } := by
  have hn : (UInt8.ofNat x).toNat = x := toNat_ofNat_lt x (by omega)
  simp only [step, hg, groundByte, hn]
  repeat' split
  all_goals first | (exfalso; omega) | rfl

theorem step_lead3 (s : XScreen) (hg : s.ps = .ground) (x : Nat) (h1 : 0xe0 ≤ x) (h2 : x ≤ 0xef) :
    s.step (UInt8.ofNat x) = { s with ps := .utf8 2 (x - 0xe0) } := by
  have hn : (UInt8.ofNat x).toNat = x := toNat_ofNat_lt x (by omega)
  simp only [step, hg, groundByte, hn]
  repeat' split
  all_goals first | (exfalso; omega) | rfl

theorem step_lead4 (s : XScreen) (hg : s.ps = .ground) (x : Nat) (h1 : 0xf0 ≤ x) (h2 : x ≤ 0xf4) :
    s.step (UInt8.ofNat x) = { s with ps := .utf8 3 (x - 0xf0) } := by
  have hn : (UInt8.ofNat x).toNat = x := toNat_ofNat_lt x (by omega)
  simp only [step, hg, groundByte, hn]
  repeat' split
  all_goals first | (exfalso; omega) | rfl

theorem step_cont_mid (s : XScreen) (need acc : Nat) (hp : s.ps = .utf8 need acc) (hn1 : 1 < need) (x : Nat)
    (h1 : 0x80 ≤ x) (h2 : x ≤ 0xbf) :
    s.step (UInt8.ofNat x) = { s with ps := .utf8 (need - 1) (acc * 64 + (x - 0x80)) } := by
  have hn : (UInt8.ofNat x).toNat = x := toNat_ofNat_lt x (by omega)
  simp only [step, hp, hn]
  repeat' split
  all_goals first | (exfalso; omega) | rfl

theorem step_cont_last (s : XScreen) (acc : Nat) (hp : s.ps = .utf8 1 acc) (x : Nat) (h1 : 0x80 ≤ x) (h2 : x ≤ 0xbf) :
    s.step (UInt8.ofNat x) = ({ s with ps := .ground } : XScreen).putCp (acc * 64 + (x - 0x80)) := by
  have hn : (UInt8.ofNat x).toNat = x := toNat_ofNat_lt x (by omega)
  simp only [step, hp, hn]
  repeat' split
  all_goals first | (exfalso; omega) | rfl

theorem set_ground (s : XScreen) (hg : s.ps = .ground) : ({ s with ps := .ground } : XScreen) = s := by
  cases s; simp_all

theorem step_mid (s : XScreen) (need acc x : Nat) (hn1 : 1 < need) (h1 : 0x80 ≤ x) (h2 : x ≤ 0xbf) :
    ({ s with ps := .utf8 need acc } : XScreen).step (UInt8.ofNat x) =
      { s with ps := .utf8 (need - 1) (acc * 64 + (x - 0x80)) } :=
  step_cont_mid _ need acc rfl hn1 x h1 h2

theorem step_last (s : XScreen) (acc x : Nat) (h1 : 0x80 ≤ x) (h2 : x ≤ 0xbf) :
    ({ s with ps := .utf8 1 acc } : XScreen).step (UInt8.ofNat x) =
      ({ s with ps := .ground } : XScreen).putCp (acc * 64 + (x - 0x80)) :=
  step_cont_last _ acc rfl x h1 h2

/-- A VT screen in the ground state that reads the UTF-8 form of a printable code point executes "print that code
    point": the clause "every character cell appears … as that character" on the terminal's side. -/
theorem interp_stdUtf8 (s : XScreen) (hg : s.ps = .ground) (cp : Nat) (hp : Printable cp) :
    s.interp (stdUtf8 cp) = s.putCp cp := by
  obtain ⟨p1, p2, p3⟩ := hp
  unfold stdUtf8 interp
  by_cases c1 : cp < 0x80
  · rw [if_pos c1]
    simp only [List.foldl_cons, List.foldl_nil]
    exact step_ascii s hg cp p1 (by omega)
  · rw [if_neg c1]
    by_cases c2 : cp < 0x800
    · rw [if_pos c2]
      simp only [List.foldl_cons, List.foldl_nil]
      rw [step_lead2 s hg _ (by omega) (by omega)]
      rw [step_last s _ _ (by omega) (by omega), set_ground s hg]
      exact congrArg (XScreen.putCp s) (by omega)
    · rw [if_neg c2]
      by_cases c3 : cp < 0x10000
      · rw [if_pos c3]
        simp only [List.foldl_cons, List.foldl_nil]
        rw [step_lead3 s hg _ (by omega) (by omega)]
        rw [step_mid s _ _ _ (by omega) (by omega) (by omega)]
        rw [step_last s _ _ (by omega) (by omega), set_ground s hg]
        exact congrArg (XScreen.putCp s) (by omega)
      · rw [if_neg c3]
        simp only [List.foldl_cons, List.foldl_nil]
        rw [step_lead4 s hg _ (by omega) (by omega)]
        rw [step_mid s _ _ _ (by omega) (by omega) (by omega)]
        rw [step_mid s _ _ _ (by omega) (by omega) (by omega)]
        rw [step_last s _ _ (by omega) (by omega), set_ground s hg]
        exact congrArg (XScreen.putCp s) (by omega)

end XScreen

/-! ### `%d` and the VT's decimal reader (the lemmas of C09's Proof/XTermDrv.lean, which this file does not import:
    that file depends on facts extracted from src/termdriver-xterm.c that C04 does not talk about) -/

open XTermDrv (showNatF showNat showInt csi gotoAbs signedSeq) in
theorem showNatF_fuel (n : Nat) : ∀ f g, n < f → n < g → showNatF f n = showNatF g n := by
  induction n using Nat.strongRecOn with
  | _ n ih =>
    intro f g hf hg
    cases f with
    | zero => omega
    | succ f =>
      cases g with
      | zero => omega
      | succ g =>
        simp only [showNatF]
        by_cases h : n < 10
        · simp [h]
        · simp only [h, if_false]
          rw [ih (n / 10) (by omega) f g (by omega) (by omega)]

open XTermDrv (showNatF showNat) in
theorem showNat_eq (n : Nat) :
    showNat n = if n < 10 then [UInt8.ofNat (48 + n)] else showNat (n / 10) ++ [UInt8.ofNat (48 + n % 10)] := by
  have e : ∀ m, showNat m = showNatF (m + 1) m := fun _ => rfl
  rw [e n, showNatF]
  by_cases h : n < 10
  · simp only [h, if_true]
  · simp only [h, if_false]
    rw [e (n / 10), showNatF_fuel (n / 10) n (n / 10 + 1) (by omega) (by omega)]

theorem digit_isDigit : ∀ k, k < 10 → VT.isDigit (UInt8.ofNat (48 + k)) = true := by decide

theorem digit_toNat : ∀ k, k < 10 → (UInt8.ofNat (48 + k)).toNat - 48 = k := by decide

theorem showNat_ne_nil (n : Nat) : XTermDrv.showNat n ≠ [] := by
  rw [showNat_eq]; by_cases h : n < 10 <;> simp [h]

theorem showNat_digits (n : Nat) : ∀ b ∈ XTermDrv.showNat n, VT.isDigit b = true := by
  induction n using Nat.strongRecOn with
  | _ n ih =>
    intro b hb
    rw [showNat_eq] at hb
    by_cases h : n < 10
    · simp only [h, if_true, List.mem_singleton] at hb; subst hb; exact digit_isDigit n h
    · simp only [h, if_false, List.mem_append, List.mem_singleton] at hb
      cases hb with
      | inl hb => exact ih (n / 10) (by omega) b hb
      | inr hb => subst hb; exact digit_isDigit (n % 10) (by omega)

theorem digitsValue_showNat (n : Nat) : VT.digitsValue (XTermDrv.showNat n) 0 = n := by
  induction n using Nat.strongRecOn with
  | _ n ih =>
    rw [showNat_eq]
    by_cases h : n < 10
    · simp only [h, if_true, VT.digitsValue, List.foldl_cons, List.foldl_nil, digit_toNat n h]; omega
    · simp only [h, if_false]
      rw [VT.digitsValue_append, ih (n / 10) (by omega)]
      simp only [VT.digitsValue, List.foldl_cons, List.foldl_nil, digit_toNat (n % 10) (by omega)]
      omega

theorem paramVal_showNat (n : Nat) : VT.paramVal (XTermDrv.showNat n) = some n := by
  simp [VT.paramVal, showNat_ne_nil, digitsValue_showNat]

theorem showInt_of_nonneg {i : Int} (h : 0 ≤ i) : XTermDrv.showInt i = XTermDrv.showNat i.toNat := by
  simp [XTermDrv.showInt, Int.not_lt.mpr h]

/-! ### The screen reads the driver's control sequences as the cursor movements and erasures they stand for -/

namespace XScreen
open VT (CsiAcc classify isDigit digitsValue paramVal joinParams accParams)

@[simp] theorem interp_nil (s : XScreen) : s.interp [] = s := rfl
@[simp] theorem interp_cons (s : XScreen) (b : UInt8) (bs : Bytes) : s.interp (b :: bs) = (s.step b).interp bs := rfl
theorem interp_append (s : XScreen) (a b : Bytes) : s.interp (a ++ b) = (s.interp a).interp b := by
  simp [interp, List.foldl_append]

theorem set_ps_self (s : XScreen) (p : VT.PState) (h : s.ps = p) : { s with ps := p } = s := by
  cases s; simp_all

theorem interp_digits (ds : Bytes) (hd : ∀ b ∈ ds, isDigit b = true) (s : XScreen) (a : CsiAcc)
    (hi : a.inter = []) (hne : ds ≠ []) :
    ({ s with ps := .csi a } : XScreen).interp ds =
      { s with ps := .csi { a with cur := some (digitsValue ds (a.cur.getD 0)) } } := by
  induction ds generalizing a with
  | nil => exact absurd rfl hne
  | cons b rest ih =>
    have hb : isDigit b = true := hd b (by simp)
    have hstep : ({ s with ps := .csi a } : XScreen).step b =
        { s with ps := .csi { a with cur := some (a.cur.getD 0 * 10 + (b.toNat - 48)) } } := by
      simp [step, csiByte, VT.classify_digit hb, hi]
    rw [interp_cons, hstep]
    by_cases hr : rest = []
    · subst hr; simp [digitsValue]
    · rw [ih (fun x hx => hd x (by simp [hx])) _ (by simpa using hi) hr]
      simp [digitsValue]

theorem interp_param (p : Bytes) (hd : ∀ b ∈ p, isDigit b = true) (s : XScreen) (a : CsiAcc)
    (hi : a.inter = []) (hc : a.cur = none) :
    ({ s with ps := .csi a } : XScreen).interp p = { s with ps := .csi { a with cur := paramVal p } } := by
  by_cases hp : p = []
  · subst hp; cases a; simp_all [paramVal]
  · rw [interp_digits p hd s a hi hp]; simp [paramVal, hp, hc]

theorem interp_params (ps : List Bytes) (hd : ∀ p ∈ ps, ∀ b ∈ p, isDigit b = true) (s : XScreen) (a : CsiAcc)
    (hi : a.inter = []) (hc : a.cur = none) (hs : a.sub = []) :
    ({ s with ps := .csi a } : XScreen).interp (joinParams ps) = { s with ps := .csi (accParams a ps) } := by
  induction ps generalizing a with
  | nil => simp [joinParams, accParams]
  | cons p rest ih =>
    cases rest with
    | nil =>
      simp only [joinParams, accParams]
      exact interp_param p (hd p (by simp)) s a hi hc
    | cons q rest =>
      simp only [joinParams, accParams, interp_append]
      rw [interp_param p (hd p (by simp)) s a hi hc]
      have hstep : ({ s with ps := .csi { a with cur := paramVal p } } : XScreen).step 0x3b =
          { s with ps := .csi { a with done := a.done ++ [[paramVal p]], cur := none } } := by
        have : classify 0x3b = .semi := by decide
        simp [step, csiByte, this, hi, hs]
      rw [interp_cons, interp_nil, hstep]
      exact ih (fun x hx => hd x (by simp [hx])) _ (by simpa using hi) rfl (by simpa using hs)

/-- A complete control sequence `ESC [ p1 ; … ; pn F` read from the ground state is dispatched with exactly those
    parameters (the twin of C09's `run_csi` for this screen). -/
theorem interp_csi (s : XScreen) (hg : s.ps = .ground) (ps : List Bytes) (hne : ps ≠ [])
    (hd : ∀ p ∈ ps, ∀ b ∈ p, isDigit b = true) (f : UInt8) (hf : classify f = .final) :
    s.interp (0x1b :: 0x5b :: (joinParams ps ++ [f])) = s.dispatch 0 (ps.map fun p => [paramVal p]) [] f := by
  have h1 : s.step 0x1b = { s with ps := .esc } := by simp [step, hg, groundByte]
  have h2 : ({ s with ps := .esc } : XScreen).step 0x5b = { s with ps := .csi CsiAcc.empty } := by simp [step]
  rw [interp_cons, h1, interp_cons, h2, interp_append]
  rw [interp_params ps hd s CsiAcc.empty rfl rfl rfl]
  have h3 : ({ s with ps := .csi (accParams CsiAcc.empty ps) } : XScreen).step f =
      ({ s with ps := .ground } : XScreen).dispatch 0 (ps.map fun p => [paramVal p]) [] f := by
    have hp := VT.accParams_params CsiAcc.empty ps hne rfl
    have hq := VT.accParams_priv CsiAcc.empty ps
    have hr := VT.accParams_inter CsiAcc.empty ps
    simp only [CsiAcc.empty, List.nil_append] at hp hq hr
    simp only [step, csiByte, hf, CsiAcc.empty, hp, hq, hr]
  rw [interp_cons, interp_nil, h3, set_ps_self s _ hg]

end XScreen

namespace XScreen
open VT (classify paramVal joinParams)

theorem dispatch_cup (s : XScreen) (ps) : s.dispatch 0 ps [] 0x48 = s.moveTo (VT.cnt ps 0 - 1) (VT.cnt ps 1 - 1) := rfl
theorem dispatch_cuf (s : XScreen) (ps) : s.dispatch 0 ps [] 0x43 = s.moveTo s.row (s.col + VT.cnt ps 0) := rfl
theorem dispatch_ech (s : XScreen) (ps) : s.dispatch 0 ps [] 0x58 = s.ech (VT.cnt ps 0) := rfl

/-- `ESC [ n F`. -/
theorem interp_csi_n (s : XScreen) (hg : s.ps = .ground) (n : Int) (hn : 0 ≤ n) (f : UInt8) (hf : classify f = .final) :
    s.interp (XTermDrv.csi (XTermDrv.showInt n ++ [f])) = s.dispatch 0 [[some n.toNat]] [] f := by
  have := interp_csi s hg [XTermDrv.showNat n.toNat] (by simp)
    (by intro p hp b hb; simp at hp; subst hp; exact showNat_digits _ b hb) f hf
  simpa [XTermDrv.csi, joinParams, showInt_of_nonneg hn, paramVal_showNat] using this

/-- `ESC [ F`. -/
theorem interp_csi_0 (s : XScreen) (hg : s.ps = .ground) (f : UInt8) (hf : classify f = .final) :
    s.interp (XTermDrv.csi [f]) = s.dispatch 0 [[none]] [] f := by
  have := interp_csi s hg [[]] (by simp) (by intro p hp b hb; simp at hp; subst hp; cases hb) f hf
  simpa [XTermDrv.csi, joinParams, paramVal] using this

/-- `ESC [ a ; b F`. -/
theorem interp_csi_nn (s : XScreen) (hg : s.ps = .ground) (a b : Int) (ha : 0 ≤ a) (hb : 0 ≤ b) (f : UInt8)
    (hf : classify f = .final) :
    s.interp (XTermDrv.csi (XTermDrv.showInt a ++ [0x3b] ++ XTermDrv.showInt b ++ [f])) =
      s.dispatch 0 [[some a.toNat], [some b.toNat]] [] f := by
  have := interp_csi s hg [XTermDrv.showNat a.toNat, XTermDrv.showNat b.toNat] (by simp)
    (by
      intro p hp x hx
      simp at hp
      rcases hp with hp | hp <;> subst hp <;> exact showNat_digits _ x hx) f hf
  simpa [XTermDrv.csi, joinParams, showInt_of_nonneg ha, showInt_of_nonneg hb, paramVal_showNat] using this

/-- **goto**: the driver's `goto_abs(line, col)` is read as "cursor to (line, col)" (clamped to the screen). -/
theorem interp_gotoAbs (s : XScreen) (hg : s.ps = .ground) (line col : Int) (hl : 0 ≤ line) (hc : 0 ≤ col) :
    s.interp (XTermDrv.gotoAbs line col) = s.moveTo line col := by
  unfold XTermDrv.gotoAbs
  have h1 : line ≠ -1 := by omega
  by_cases h2 : col > 0
  · simp only [h1, h2, ne_eq, not_false_eq_true, and_self, if_true]
    rw [interp_csi_nn s hg (line + 1) (col + 1) (by omega) (by omega) 0x48 (by decide), dispatch_cup,
      VT.cnt_toNat0 _ (by omega), VT.cnt_toNat1 _ (by omega)]
    congr 1 <;> omega
  · have h3 : col = 0 := by omega
    subst h3
    simp only [h1, ne_eq, not_false_eq_true, Int.lt_irrefl, and_false, and_self, if_true, if_false, gt_iff_lt]
    rw [interp_csi_n s hg (line + 1) (by omega) 0x48 (by decide), dispatch_cup, VT.cnt_toNat0 _ (by omega),
      VT.cnt_missing1]
    congr 1 <;> omega

theorem moveTo_ps (s : XScreen) (r c : Int) : (s.moveTo r c).ps = s.ps := rfl
theorem ech_ps (s : XScreen) (n : Int) : (s.ech n).ps = s.ps := rfl

/-- ECH as the driver writes it (`CSI X` for one cell, `CSI n X` otherwise). -/
theorem interp_ech (s : XScreen) (hg : s.ps = .ground) (n : Int) (hn : 1 ≤ n) :
    s.interp (if n = 1 then XTermDrv.csi [0x58] else XTermDrv.csi (XTermDrv.showInt n ++ [0x58])) = s.ech n := by
  by_cases h1 : n = 1
  · subst h1
    simp only [if_true]
    rw [interp_csi_0 s hg 0x58 (by decide), dispatch_ech, VT.cnt_none0]
  · simp only [h1, if_false]
    rw [interp_csi_n s hg n (by omega) 0x58 (by decide), dispatch_ech, VT.cnt_toNat0 _ hn]

/-- CUF as `move_rel(0, n)` writes it. -/
theorem interp_cuf (s : XScreen) (hg : s.ps = .ground) (n : Int) (hn : 1 ≤ n) :
    s.interp (XTermDrv.signedSeq n [] 0x43 0x44) = s.moveTo s.row (s.col + n) := by
  unfold XTermDrv.signedSeq
  by_cases h1 : n = 1
  · subst h1
    simp only [List.nil_append]
    rw [if_neg (by omega)]
    simp only [if_true]
    rw [interp_csi_0 s hg 0x43 (by decide), dispatch_cuf, VT.cnt_none0]
  · rw [if_pos (by omega)]
    simp only [List.append_nil]
    rw [interp_csi_n s hg n (by omega) 0x43 (by decide), dispatch_cuf, VT.cnt_toNat0 _ hn]

end XScreen

theorem call_flatten (bs : Bytes) : (call bs).flatten = bs := by
  unfold call
  split
  · rename_i h; simp at h; simp [h]
  · simp

/-- **erase, not reverse video**: `erasech(n, moveend)` is read as "blank `n` cells from the cursor in the current
    background", followed by "cursor right by `n`" exactly when the flush asked for it (`TICKIT_YES`). -/
theorem interp_erase (s : XScreen) (hg : s.ps = .ground) (n : Int) (hn : 1 ≤ n) (m : MaybeBool) :
    s.interp (eraseCalls false n m).flatten =
      if m = .yes then (s.ech n).moveTo s.row (s.col + n) else s.ech n := by
  unfold eraseCalls
  rw [if_neg (by omega)]
  simp only [Bool.not_false, if_true, List.flatten_append, List.flatten_cons, List.flatten_nil, List.append_nil,
    XScreen.interp_append]
  rw [XScreen.interp_ech s hg n hn]
  by_cases hm : m = .yes
  · simp only [hm, if_true, moveRelCalls, List.flatten_append, call_flatten]
    have h0 : XTermDrv.signedSeq 0 [] 0x42 0x41 = [] := by simp [XTermDrv.signedSeq]
    rw [h0, List.nil_append, XScreen.interp_cuf _ (by rw [XScreen.ech_ps]; exact hg) n hn]
    rfl
  · simp only [hm, if_false, List.flatten_nil, XScreen.interp_nil]

namespace XScreen

theorem addZeroWidth_ps (s : XScreen) (bs : Bytes) : (s.addZeroWidth bs).ps = s.ps := by
  unfold addZeroWidth; split <;> rfl

theorem wrap_ps (s : XScreen) : s.wrap.ps = s.ps := by
  unfold wrap lineFeed; split <;> rfl

theorem putWide_ps (s : XScreen) (bs : Bytes) (w : Int) : (s.putWide bs w).ps = s.ps := by
  unfold putWide
  by_cases h : (s.pending = true ∨ s.col + w > s.cols)
  · simp only [h, if_true]; split <;> exact wrap_ps s
  · simp only [h, if_false]; split <;> rfl

theorem putCp_ps (s : XScreen) (cp : Nat) : (s.putCp cp).ps = s.ps := by
  unfold putCp
  simp only []
  split
  · exact addZeroWidth_ps _ _
  · split
    · exact putWide_ps _ _ _
    · split
      · exact putWide_ps _ _ _
      · rfl

/-- **text**: a well-formed UTF-8 text of printable code points is read as those code points, printed in order. -/
theorem interp_text (cps : List Nat) (hp : ∀ cp ∈ cps, Printable cp) (s : XScreen) (hg : s.ps = .ground) :
    s.interp (cps.flatMap stdUtf8) = cps.foldl putCp s := by
  induction cps generalizing s with
  | nil => rfl
  | cons cp rest ih =>
    simp only [List.flatMap_cons, interp_append, List.foldl_cons]
    rw [interp_stdUtf8 s hg cp (hp cp (by simp))]
    exact ih (fun x hx => hp x (by simp [hx])) _ (by rw [putCp_ps]; exact hg)

end XScreen

/-! ### Vocabulary of the statement about the end result (Props/C04.lean, `C04_xterm_screen`) -/

/-- A pen the xterm driver can say in SGR on a terminal with capabilities `caps`: palette colours, no
    `TICKIT_PEN_SIZEPOS_SMALL`, underline styles beyond double only with `:` sub-parameters (the negations are C10's
    known findings `sizepos_small` and `under_curly_no_colon`). -/
def PenEncodable (caps : TermPen.Caps) (p : Pen) : Prop :=
  -1 ≤ Pen.getColour p.fg ∧ Pen.getColour p.fg < 256 ∧ -1 ≤ Pen.getColour p.bg ∧ Pen.getColour p.bg < 256 ∧
  0 ≤ Pen.getInt p.under ∧ (caps.colon = false → Pen.getInt p.under ≤ 2) ∧
  0 ≤ Pen.getInt p.sizepos ∧ Pen.getInt p.sizepos ≤ 3 ∧ Pen.getInt p.sizepos ≠ Tickit.Gen.Sgr.sizeposSmall

/-- Every attribute is present (what `tt->pen` is after any `tickit_term_setpen`). -/
def PenTotal (p : Pen) : Prop :=
  p.fg.isSome ∧ p.bg.isSome ∧ p.bold.isSome ∧ p.under.isSome ∧ p.italic.isSome ∧ p.reverse.isSome ∧ p.strike.isSome ∧
  p.altfont.isSome ∧ p.blink.isSome ∧ p.sizepos.isSome

/-- Every text of the buffer is well-formed UTF-8 of printable code points (`next_utf8` also accepts sequences a
    terminal does not: C07's known finding `lax_continuation`). -/
def TextsStrict (rb : RB) : Prop :=
  ∀ l c, (rb.cell l c).state = .text →
    ∃ cps : List Nat, (∀ cp ∈ cps, Printable cp) ∧ (rb.cell l c).text = cps.flatMap stdUtf8

/-- Every CHAR cell holds a printable code point. -/
def CharsPrintable (rb : RB) : Prop := ∀ l c, (rb.cell l c).state = .char → Printable (rb.cell l c).cp.toNat

end Tickit.RBFlushX
