import Tickit.Model.RBFlushX
import Tickit.Proof.TermBuf
/-
  Lemmas for the xterm-driver configuration of C04 (Model/RBFlushX.lean):
   * the output buffer of src/term.c is transparent for the `write_str` calls of a flush, whatever its size
     (on top of C11's `writeStr_ext` / `writeStr_total`);
   * `tickit_utf8_put` (the model `Tickit.RB.Utf8.put`) produces the UTF-8 form the Unicode Standard defines, and the
     VT screen reads that form back as the same code point;
   * the hand-written `Tickit.RB.Utf8.seqlen` is the function extracted from src/utf8.c.
-/
namespace Tickit.RBFlushX
open Tickit.RB Tickit.RBFlush Tickit.TermBuf

/-! ### Every write of the driver is non-empty -/

theorem call_ne (bs : Bytes) : ∀ x ∈ call bs, x ≠ [] := by
  intro x hx
  unfold call at hx
  split at hx
  · simp at hx
  · rename_i h
    simp at hx; subst hx
    intro h0; subst h0; simp at h

theorem moveRelCalls_ne (d r : Int) : ∀ x ∈ moveRelCalls d r, x ≠ [] := by
  intro x hx
  unfold moveRelCalls at hx
  rcases List.mem_append.1 hx with h | h
  · exact call_ne _ x h
  · exact call_ne _ x h

theorem spacesCalls_ne : ∀ (fuel : Nat) (rem : Int), 1 ≤ rem → ∀ x ∈ spacesCalls fuel rem, x ≠ []
  | 0, _, _, x, hx => by simp [spacesCalls] at hx
  | fuel + 1, rem, h1, x, hx => by
    unfold spacesCalls at hx
    split at hx
    · rcases List.mem_cons.1 hx with h | h
      · subst h; simp
      · exact spacesCalls_ne fuel (rem - 64) (by omega) x h
    · simp at hx; subst hx
      intro h0
      have : (List.replicate rem.toNat (0x20 : UInt8)).length = 0 := by rw [h0]; rfl
      simp at this; omega

theorem csi_ne (body : Bytes) : XTermDrv.csi body ≠ [] := by simp [XTermDrv.csi]

theorem eraseCalls_ne (rv : Bool) (n : Int) (m : MaybeBool) : ∀ x ∈ eraseCalls rv n m, x ≠ [] := by
  intro x hx
  unfold eraseCalls at hx
  split at hx
  · simp at hx
  · rename_i hn
    split at hx
    · rcases List.mem_append.1 hx with h | h
      · simp at h; subst h; split <;> exact csi_ne _
      · split at h
        · exact moveRelCalls_ne _ _ x h
        · simp at h
    · rcases List.mem_append.1 hx with h | h
      · exact spacesCalls_ne _ n (by omega) x h
      · split at h
        · exact moveRelCalls_ne _ _ x h
        · simp at h

theorem chpenCalls_ne (caps : TermPen.Caps) (cache p : Pen) : ∀ x ∈ chpenCalls caps cache p, x ≠ [] := by
  intro x hx
  unfold chpenCalls at hx
  split at hx
  · exact call_ne _ x hx
  · simp at hx

theorem reqCalls_ne (caps : TermPen.Caps) (cache : Pen) (r : Req) : ∀ x ∈ reqCalls caps cache r, x ≠ [] := by
  intro x hx
  cases r with
  | goto l c => exact call_ne _ x hx
  | setpen p => exact chpenCalls_ne caps cache p x hx
  | print s start len =>
    simp only [reqCalls] at hx
    split at hx
    · simp at hx
    · exact call_ne _ x hx
  | erasech n m => exact eraseCalls_ne _ n m x hx

theorem reqsCalls_ne (caps : TermPen.Caps) : ∀ (reqs : List Req) (cache : Pen), ∀ x ∈ reqsCalls caps cache reqs, x ≠ []
  | [], _, x, hx => by simp [reqsCalls] at hx
  | r :: rs, cache, x, hx => by
    simp only [reqsCalls] at hx
    rcases List.mem_append.1 hx with h | h
    · exact reqCalls_ne caps cache r x h
    · exact reqsCalls_ne caps rs _ x h

/-! ### The output buffer is transparent for a sequence of writes -/

theorem effective_full (bs : Bytes) (h : bs ≠ []) : effective bs bs.length = bs := by
  unfold effective
  have : bs.length ≠ 0 := by
    intro h0; exact h (List.length_eq_zero_iff.1 h0)
  rw [if_neg this, List.take_length]

theorem reqOK_full (bs : Bytes) (h : bs ≠ []) : ReqOK bs bs.length := by
  refine ⟨Nat.le_refl _, ?_⟩
  intro h0; exact absurd (List.length_eq_zero_iff.1 h0) h

/-- Any sequence of non-empty writes through a well-formed output buffer completes, and `delivered ++ pending` grows by
    exactly the bytes written, in order. -/
theorem writeCalls_ext : ∀ (calls : List Bytes) (st : State), WF st → (∀ x ∈ calls, x ≠ []) →
    ∃ st', writeCalls st calls = .ok st' ∧ Ext st st' calls.flatten
  | [], st, hwf, _ => ⟨st, rfl, by simpa using Ext.refl hwf⟩
  | bs :: rest, st, hwf, hne => by
    have hb : bs ≠ [] := hne bs (by simp)
    obtain ⟨st1, h1⟩ := writeStr_total (st := st) hwf (reqOK_full bs hb)
    have e1 : Ext st st1 bs := by
      have := writeStr_ext hwf h1
      rwa [effective_full bs hb] at this
    obtain ⟨st2, h2, e2⟩ := writeCalls_ext rest st1 e1.wf (fun x hx => hne x (by simp [hx]))
    refine ⟨st2, ?_, ?_⟩
    · simp only [writeCalls, h1, Outcome.bind]; exact h2
    · simpa using Ext.trans e1 e2

theorem wf_outState (n : Nat) : WF (outState n) := by
  unfold WF outState
  constructor
  · intro _; rfl
  · intro h; simpa using h

theorem chunkBytes_flatten (cs : List Chunk) : (chunkBytes cs).flatten = stream cs := by
  induction cs with
  | nil => rfl
  | cons c rest ih =>
    cases c with
    | data d b => simp [chunkBytes, stream, Chunk.bytes, List.filterMap_cons] at ih ⊢; exact ih
    | fin => simp [chunkBytes, stream, Chunk.bytes, List.filterMap_cons] at ih ⊢; exact ih

/-- The bytes the terminal receives from a flush followed by `tickit_term_flush` are the driver's writes, in order,
    whatever the size of the output buffer. -/
theorem xflush_stream (caps : TermPen.Caps) (n : Nat) (cache : Pen) (reqs : List Req) :
    (xflush caps n cache reqs).ok = true ∧
    (xflush caps n cache reqs).stream = (reqsCalls caps cache reqs).flatten := by
  obtain ⟨st', h, e⟩ := writeCalls_ext (reqsCalls caps cache reqs) (outState n) (wf_outState n) (reqsCalls_ne caps reqs cache)
  unfold xflush
  rw [h]
  refine ⟨rfl, ?_⟩
  have hat : Attached (outState n) := Or.inl rfl
  have := e.eqn hat
  simp only [XFlushRes.stream, chunkBytes_flatten]
  simpa [outState] using this

/-! ### `tickit_utf8_put` is UTF-8 -/

theorem seqlen_src (cp : Int) : ((Tickit.RB.Utf8.seqlen cp : Nat) : Int) = Tickit.Gen.Width.tickit_utf8_seqlen cp := by
  unfold Tickit.RB.Utf8.seqlen Tickit.Gen.Width.tickit_utf8_seqlen
  simp only [decide_eq_true_eq]
  repeat' split
  all_goals first | rfl | omega

theorem seqlen_cases (cp : Nat) :
    (cp < 0x80 ∧ Tickit.RB.Utf8.seqlen cp = 1) ∨ (0x80 ≤ cp ∧ cp < 0x800 ∧ Tickit.RB.Utf8.seqlen cp = 2) ∨
    (0x800 ≤ cp ∧ cp < 0x10000 ∧ Tickit.RB.Utf8.seqlen cp = 3) ∨
    (0x10000 ≤ cp ∧ cp < 0x200000 ∧ Tickit.RB.Utf8.seqlen cp = 4) ∨ 0x200000 ≤ cp := by
  unfold Tickit.RB.Utf8.seqlen
  repeat' split
  all_goals omega

/-- `tickit_utf8_put` writes the UTF-8 form of the Unicode Standard (every code point that has one, and the four-byte
    pattern beyond U+10FFFF). -/
theorem put_eq_stdUtf8 (cp : Nat) (h : cp < 0x200000) : Tickit.RB.Utf8.put cp = stdUtf8 cp := by
  rcases seqlen_cases cp with ⟨h1, hs⟩ | ⟨h1, h2, hs⟩ | ⟨h1, h2, hs⟩ | ⟨h1, h2, hs⟩ | h1
  · have t : Tickit.RB.Utf8.putTail (1 - 1) cp [] = [] := rfl
    have l : cp / 64 ^ (1 - 1) % 128 = cp := by simp; omega
    unfold Tickit.RB.Utf8.put stdUtf8
    simp only [hs, if_pos h1, t, l]
  · have t : Tickit.RB.Utf8.putTail (2 - 1) cp [] = [UInt8.ofNat (0x80 + cp % 64)] := rfl
    have l : cp / 64 ^ (2 - 1) % 32 = cp / 64 := by simp; omega
    have n1 : ¬ cp < 0x80 := by omega
    unfold Tickit.RB.Utf8.put stdUtf8
    simp only [hs, if_neg n1, if_pos h2, t, l]
  · have t : Tickit.RB.Utf8.putTail (3 - 1) cp [] =
        [UInt8.ofNat (0x80 + cp / 64 % 64), UInt8.ofNat (0x80 + cp % 64)] := rfl
    have l : cp / 64 ^ (3 - 1) % 16 = cp / 4096 := by simp; omega
    have n1 : ¬ cp < 0x80 := by omega
    have n2 : ¬ cp < 0x800 := by omega
    unfold Tickit.RB.Utf8.put stdUtf8
    simp only [hs, if_neg n1, if_neg n2, if_pos h2, t, l]
  · have t : Tickit.RB.Utf8.putTail (4 - 1) cp [] =
        [UInt8.ofNat (0x80 + cp / 64 / 64 % 64), UInt8.ofNat (0x80 + cp / 64 % 64), UInt8.ofNat (0x80 + cp % 64)] := rfl
    have l : cp / 64 ^ (4 - 1) % 8 = cp / 262144 % 8 := by simp
    have e1 : cp / 64 / 64 % 64 = cp / 4096 % 64 := by omega
    have n1 : ¬ cp < 0x80 := by omega
    have n2 : ¬ cp < 0x800 := by omega
    have n3 : ¬ cp < 0x10000 := by omega
    unfold Tickit.RB.Utf8.put stdUtf8
    simp only [hs, if_neg n1, if_neg n2, if_neg n3, t, l, e1]
  · omega

theorem stdUtf8_length_ne (cp : Nat) : (stdUtf8 cp).length ≠ 0 := by
  unfold stdUtf8
  split
  · simp
  · split
    · simp
    · split <;> simp

/-! ### The library's own decoder (`next_utf8`) reads the UTF-8 form back -/

theorem toNat_ofNat_lt (x : Nat) (h : x < 256) : (UInt8.ofNat x).toNat = x := by
  simp; omega

theorem byteAt_cons0 (b : UInt8) (r : List UInt8) : Tickit.RB.Utf8.byteAt (b :: r) 0 = b.toNat := rfl

theorem byteAt_cons_succ (b : UInt8) (r : List UInt8) (i : Nat) :
    Tickit.RB.Utf8.byteAt (b :: r) (i + 1) = Tickit.RB.Utf8.byteAt r i := by
  simp [Tickit.RB.Utf8.byteAt, List.getD]

theorem nextUtf8_1 (x : Nat) (hx : 0 < x ∧ x < 0x80) :
    Tickit.RB.Utf8.nextUtf8 [UInt8.ofNat x] 0 (some 1) = some ⟨1, x⟩ := by
  have hx' := toNat_ofNat_lt x (by omega)
  unfold Tickit.RB.Utf8.nextUtf8
  simp only [byteAt_cons0, hx']
  repeat' split
  all_goals first | (exfalso; omega) | skip
  all_goals simp_all

theorem nextUtf8_2 (x y : Nat) (hx : 0xc2 ≤ x ∧ x ≤ 0xdf) (hy : 0x80 ≤ y ∧ y ≤ 0xbf) :
    Tickit.RB.Utf8.nextUtf8 [UInt8.ofNat x, UInt8.ofNat y] 0 (some 2) = some ⟨2, (x - 0xc0) * 64 + (y - 0x80)⟩ := by
  have hx' := toNat_ofNat_lt x (by omega)
  have hy' := toNat_ofNat_lt y (by omega)
  unfold Tickit.RB.Utf8.nextUtf8
  simp only [byteAt_cons0, hx']
  have : Tickit.RB.Utf8.contBytes [UInt8.ofNat x, UInt8.ofNat y] (2 - 1) (0 + 1) (x % 32) =
      some ((x - 0xc0) * 64 + (y - 0x80)) := by
    show Tickit.RB.Utf8.contBytes [UInt8.ofNat x, UInt8.ofNat y] 1 1 (x % 32) = _
    unfold Tickit.RB.Utf8.contBytes
    simp only [byteAt_cons_succ, byteAt_cons0, hy']
    rw [if_neg (by omega)]
    unfold Tickit.RB.Utf8.contBytes
    exact congrArg some (by omega)
  repeat' split
  all_goals first | (exfalso; omega) | skip
  all_goals simp_all

theorem nextUtf8_3 (x y z : Nat) (hx : 0xe0 ≤ x ∧ x ≤ 0xef) (hy : 0x80 ≤ y ∧ y ≤ 0xbf) (hz : 0x80 ≤ z ∧ z ≤ 0xbf) :
    Tickit.RB.Utf8.nextUtf8 [UInt8.ofNat x, UInt8.ofNat y, UInt8.ofNat z] 0 (some 3) =
      some ⟨3, ((x - 0xe0) * 64 + (y - 0x80)) * 64 + (z - 0x80)⟩ := by
  have hx' := toNat_ofNat_lt x (by omega)
  have hy' := toNat_ofNat_lt y (by omega)
  have hz' := toNat_ofNat_lt z (by omega)
  unfold Tickit.RB.Utf8.nextUtf8
  simp only [byteAt_cons0, hx']
  have : Tickit.RB.Utf8.contBytes [UInt8.ofNat x, UInt8.ofNat y, UInt8.ofNat z] (3 - 1) (0 + 1) (x % 16) =
      some (((x - 0xe0) * 64 + (y - 0x80)) * 64 + (z - 0x80)) := by
    show Tickit.RB.Utf8.contBytes [UInt8.ofNat x, UInt8.ofNat y, UInt8.ofNat z] 2 1 (x % 16) = _
    unfold Tickit.RB.Utf8.contBytes
    simp only [byteAt_cons_succ, byteAt_cons0, hy']
    rw [if_neg (by omega)]
    unfold Tickit.RB.Utf8.contBytes
    simp only [byteAt_cons_succ, byteAt_cons0, hz']
    rw [if_neg (by omega)]
    unfold Tickit.RB.Utf8.contBytes
    exact congrArg some (by omega)
  repeat' split
  all_goals first | (exfalso; omega) | skip
  all_goals simp_all

theorem nextUtf8_4 (x y z w : Nat) (hx : 0xf0 ≤ x ∧ x ≤ 0xf7) (hy : 0x80 ≤ y ∧ y ≤ 0xbf) (hz : 0x80 ≤ z ∧ z ≤ 0xbf)
    (hw : 0x80 ≤ w ∧ w ≤ 0xbf) :
    Tickit.RB.Utf8.nextUtf8 [UInt8.ofNat x, UInt8.ofNat y, UInt8.ofNat z, UInt8.ofNat w] 0 (some 4) =
      some ⟨4, (((x - 0xf0) * 64 + (y - 0x80)) * 64 + (z - 0x80)) * 64 + (w - 0x80)⟩ := by
  have hx' := toNat_ofNat_lt x (by omega)
  have hy' := toNat_ofNat_lt y (by omega)
  have hz' := toNat_ofNat_lt z (by omega)
  have hw' := toNat_ofNat_lt w (by omega)
  unfold Tickit.RB.Utf8.nextUtf8
  simp only [byteAt_cons0, hx']
  have : Tickit.RB.Utf8.contBytes [UInt8.ofNat x, UInt8.ofNat y, UInt8.ofNat z, UInt8.ofNat w] (4 - 1) (0 + 1) (x % 8) =
      some ((((x - 0xf0) * 64 + (y - 0x80)) * 64 + (z - 0x80)) * 64 + (w - 0x80)) := by
    show Tickit.RB.Utf8.contBytes [UInt8.ofNat x, UInt8.ofNat y, UInt8.ofNat z, UInt8.ofNat w] 3 1 (x % 8) = _
    unfold Tickit.RB.Utf8.contBytes
    simp only [byteAt_cons_succ, byteAt_cons0, hy']
    rw [if_neg (by omega)]
    unfold Tickit.RB.Utf8.contBytes
    simp only [byteAt_cons_succ, byteAt_cons0, hz']
    rw [if_neg (by omega)]
    unfold Tickit.RB.Utf8.contBytes
    simp only [byteAt_cons_succ, byteAt_cons0, hw']
    rw [if_neg (by omega)]
    unfold Tickit.RB.Utf8.contBytes
    exact congrArg some (by omega)
  repeat' split
  all_goals first | (exfalso; omega) | skip
  all_goals simp_all

/-- `next_utf8` reads the UTF-8 form of every code point `1 … 0x1FFFFF` back as that code point, consuming all of it. -/
theorem nextUtf8_stdUtf8 (cp : Nat) (h0 : 0 < cp) (h : cp < 0x200000) :
    Tickit.RB.Utf8.nextUtf8 (stdUtf8 cp) 0 (some (stdUtf8 cp).length) = some ⟨(stdUtf8 cp).length, cp⟩ := by
  unfold stdUtf8
  by_cases c1 : cp < 0x80
  · simp only [if_pos c1, List.length_cons, List.length_nil]
    exact nextUtf8_1 cp ⟨h0, c1⟩
  · by_cases c2 : cp < 0x800
    · simp only [if_neg c1, if_pos c2, List.length_cons, List.length_nil]
      rw [nextUtf8_2 _ _ (by omega) (by omega)]
      exact congrArg (fun v => some (Tickit.RB.Utf8.Dec.mk 2 v)) (by omega)
    · by_cases c3 : cp < 0x10000
      · simp only [if_neg c1, if_neg c2, if_pos c3, List.length_cons, List.length_nil]
        rw [nextUtf8_3 _ _ _ (by omega) (by omega) (by omega)]
        exact congrArg (fun v => some (Tickit.RB.Utf8.Dec.mk 3 v)) (by omega)
      · simp only [if_neg c1, if_neg c2, if_neg c3, List.length_cons, List.length_nil]
        rw [nextUtf8_4 _ _ _ _ (by omega) (by omega) (by omega) (by omega)]
        exact congrArg (fun v => some (Tickit.RB.Utf8.Dec.mk 4 v)) (by omega)

/-! ### The screen reads the UTF-8 form of a printable code point back as that code point -/

/-- A code point a CHAR cell or a text may hold and a terminal shows: not a C0/C1 control or DEL, a Unicode scalar
    position up to U+10FFFF. -/
def Printable (cp : Nat) : Prop := 0x20 ≤ cp ∧ ¬ (0x7f ≤ cp ∧ cp < 0xa0) ∧ cp < 0x110000
instance (cp : Nat) : Decidable (Printable cp) := by unfold Printable; exact inferInstance

namespace XScreen

theorem set_ps_ground (s : XScreen) (p : VT.PState) (hg : s.ps = .ground) :
    ({ ({ s with ps := p } : XScreen) with ps := .ground } : XScreen) = s := by
  cases s; simp_all

theorem step_ascii (s : XScreen) (hg : s.ps = .ground) (x : Nat) (h1 : 0x20 ≤ x) (h2 : x < 0x7f) :
    s.step (UInt8.ofNat x) = s.putCp x := by
  have hn : (UInt8.ofNat x).toNat = x := toNat_ofNat_lt x (by omega)
  simp only [step, hg, groundByte, hn]
  repeat' split
  all_goals first | (exfalso; omega) | rfl

theorem step_lead2 (s : XScreen) (hg : s.ps = .ground) (x : Nat) (h1 : 0xc2 ≤ x) (h2 : x ≤ 0xdf) :
    s.step (UInt8.ofNat x) = { s with ps := .utf8 1 (x - 0xc0) } := by
  have hn : (UInt8.ofNat x).toNat = x := toNat_ofNat_lt x (by omega)
  simp only [step, hg, groundByte, hn]
  repeat' split
  all_goals first | (exfalso; omega) | rfl

theorem step_lead3 (s : XScreen) (hg : s.ps = .ground) (x : Nat) (h1 : 0xe0 ≤ x) (h2 : x ≤ 0xef) :
    s.step (UInt8.ofNat x) = { s with ps := .utf8 2 (x - 0xe0) } := by
  have hn : (UInt8.ofNat x).toNat = x := toNat_ofNat_lt x (by omega)
  simp only [step, hg, groundByte, hn]
  repeat' split
  all_goals first | (exfalso; omega) | rfl

theorem step_lead4 (s : XScreen) (hg : s.ps = .ground) (x : Nat) (h1 : 0xf0 ≤ x) (h2 : x ≤ 0xf4) :
    s.step (UInt8.ofNat x) = { s with ps := .utf8 3 (x - 0xf0) } := by
  have hn : (UInt8.ofNat x).toNat = x := toNat_ofNat_lt x (by omega)
  simp only [step, hg, groundByte, hn]
  repeat' split
  all_goals first | (exfalso; omega) | rfl

theorem step_cont_mid (s : XScreen) (need acc : Nat) (hp : s.ps = .utf8 need acc) (hn1 : 1 < need) (x : Nat)
    (h1 : 0x80 ≤ x) (h2 : x ≤ 0xbf) :
    s.step (UInt8.ofNat x) = { s with ps := .utf8 (need - 1) (acc * 64 + (x - 0x80)) } := by
  have hn : (UInt8.ofNat x).toNat = x := toNat_ofNat_lt x (by omega)
  simp only [step, hp, hn]
  repeat' split
  all_goals first | (exfalso; omega) | rfl

theorem step_cont_last (s : XScreen) (acc : Nat) (hp : s.ps = .utf8 1 acc) (x : Nat) (h1 : 0x80 ≤ x) (h2 : x ≤ 0xbf) :
    s.step (UInt8.ofNat x) = ({ s with ps := .ground } : XScreen).putCp (acc * 64 + (x - 0x80)) := by
  have hn : (UInt8.ofNat x).toNat = x := toNat_ofNat_lt x (by omega)
  simp only [step, hp, hn]
  repeat' split
  all_goals first | (exfalso; omega) | rfl

theorem set_ground (s : XScreen) (hg : s.ps = .ground) : ({ s with ps := .ground } : XScreen) = s := by
  cases s; simp_all

theorem step_mid (s : XScreen) (need acc x : Nat) (hn1 : 1 < need) (h1 : 0x80 ≤ x) (h2 : x ≤ 0xbf) :
    ({ s with ps := .utf8 need acc } : XScreen).step (UInt8.ofNat x) =
      { s with ps := .utf8 (need - 1) (acc * 64 + (x - 0x80)) } :=
  step_cont_mid _ need acc rfl hn1 x h1 h2

theorem step_last (s : XScreen) (acc x : Nat) (h1 : 0x80 ≤ x) (h2 : x ≤ 0xbf) :
    ({ s with ps := .utf8 1 acc } : XScreen).step (UInt8.ofNat x) =
      ({ s with ps := .ground } : XScreen).putCp (acc * 64 + (x - 0x80)) :=
  step_cont_last _ acc rfl x h1 h2

/-- A VT screen in the ground state that reads the UTF-8 form of a printable code point executes "print that code
    point": the clause "every character cell appears … as that character" on the terminal's side. -/
theorem interp_stdUtf8 (s : XScreen) (hg : s.ps = .ground) (cp : Nat) (hp : Printable cp) :
    s.interp (stdUtf8 cp) = s.putCp cp := by
  obtain ⟨p1, p2, p3⟩ := hp
  unfold stdUtf8 interp
  by_cases c1 : cp < 0x80
  · rw [if_pos c1]
    simp only [List.foldl_cons, List.foldl_nil]
    exact step_ascii s hg cp p1 (by omega)
  · rw [if_neg c1]
    by_cases c2 : cp < 0x800
    · rw [if_pos c2]
      simp only [List.foldl_cons, List.foldl_nil]
      rw [step_lead2 s hg _ (by omega) (by omega)]
      rw [step_last s _ _ (by omega) (by omega), set_ground s hg]
      exact congrArg (XScreen.putCp s) (by omega)
    · rw [if_neg c2]
      by_cases c3 : cp < 0x10000
      · rw [if_pos c3]
        simp only [List.foldl_cons, List.foldl_nil]
        rw [step_lead3 s hg _ (by omega) (by omega)]
        rw [step_mid s _ _ _ (by omega) (by omega) (by omega)]
        rw [step_last s _ _ (by omega) (by omega), set_ground s hg]
        exact congrArg (XScreen.putCp s) (by omega)
      · rw [if_neg c3]
        simp only [List.foldl_cons, List.foldl_nil]
        rw [step_lead4 s hg _ (by omega) (by omega)]
        rw [step_mid s _ _ _ (by omega) (by omega) (by omega)]
        rw [step_mid s _ _ _ (by omega) (by omega) (by omega)]
        rw [step_last s _ _ (by omega) (by omega), set_ground s hg]
        exact congrArg (XScreen.putCp s) (by omega)

end XScreen

/-! ### Vocabulary of the statement about the end result (Props/C04.lean, `C04_xterm_screen`) -/

/-- A pen the xterm driver can say in SGR on a terminal with capabilities `caps`: palette colours, no
    `TICKIT_PEN_SIZEPOS_SMALL`, underline styles beyond double only with `:` sub-parameters (the negations are C10's
    known findings `sizepos_small` and `under_curly_no_colon`). -/
def PenEncodable (caps : TermPen.Caps) (p : Pen) : Prop :=
  -1 ≤ Pen.getColour p.fg ∧ Pen.getColour p.fg < 256 ∧ -1 ≤ Pen.getColour p.bg ∧ Pen.getColour p.bg < 256 ∧
  0 ≤ Pen.getInt p.under ∧ (caps.colon = false → Pen.getInt p.under ≤ 2) ∧
  0 ≤ Pen.getInt p.sizepos ∧ Pen.getInt p.sizepos ≤ 3 ∧ Pen.getInt p.sizepos ≠ Tickit.Gen.Sgr.sizeposSmall

/-- Every attribute is present (what `tt->pen` is after any `tickit_term_setpen`). -/
def PenTotal (p : Pen) : Prop :=
  p.fg.isSome ∧ p.bg.isSome ∧ p.bold.isSome ∧ p.under.isSome ∧ p.italic.isSome ∧ p.reverse.isSome ∧ p.strike.isSome ∧
  p.altfont.isSome ∧ p.blink.isSome ∧ p.sizepos.isSome

/-- Every text of the buffer is well-formed UTF-8 of printable code points (`next_utf8` also accepts sequences a
    terminal does not: C07's known finding `lax_continuation`). -/
def TextsStrict (rb : RB) : Prop :=
  ∀ l c, (rb.cell l c).state = .text →
    ∃ cps : List Nat, (∀ cp ∈ cps, Printable cp) ∧ (rb.cell l c).text = cps.flatMap stdUtf8

/-- Every CHAR cell holds a printable code point. -/
def CharsPrintable (rb : RB) : Prop := ∀ l c, (rb.cell l c).state = .char → Printable (rb.cell l c).cp.toNat

end Tickit.RBFlushX
