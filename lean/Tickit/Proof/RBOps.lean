import Tickit.Proof.RB
/-
  Helper lemmas for C03, continued: the mask-aware run placement loop, the well-formedness invariant of a
  whole buffer, and what every primitive does to the content (cell-wise).
-/
namespace Tickit.RB
open Tickit.RBAbs

/-! ## The two counting loops -/

theorem maskedLen_le (row : Row) : ∀ (n : Nat) (col : Int), maskedLen row n col ≤ n := by
  intro n; induction n with
  | zero => intro col; simp [maskedLen]
  | succ n ih => intro col; unfold maskedLen; split
                 · have := ih (col + 1); omega
                 · omega

theorem maskedLen_masked (row : Row) : ∀ (n : Nat) (col : Int) (j : Nat), j < maskedLen row n col →
    (row.get (col + j)).maskdepth > -1 := by
  intro n; induction n with
  | zero => intro col j hj; simp [maskedLen] at hj
  | succ n ih =>
    intro col j hj
    unfold maskedLen at hj
    split at hj
    · rename_i hm
      cases j with
      | zero => simpa using hm
      | succ j =>
        have := ih (col + 1) j (by omega)
        have e : col + 1 + (j : Int) = col + ((j + 1 : Nat) : Int) := by omega
        rw [e] at this; exact this
    · omega

theorem maskedLen_stop (row : Row) : ∀ (n : Nat) (col : Int), maskedLen row n col < n →
    ¬ (row.get (col + maskedLen row n col)).maskdepth > -1 := by
  intro n; induction n with
  | zero => intro col h; omega
  | succ n ih =>
    intro col h
    unfold maskedLen at h ⊢
    split
    · rename_i hm
      rw [if_pos hm] at h
      have := ih (col + 1) (by omega)
      have e : col + 1 + (maskedLen row n (col + 1) : Int) = col + ((maskedLen row n (col + 1) + 1 : Nat) : Int) := by omega
      rw [e] at this; exact this
    · rename_i hm; simpa using hm

theorem unmaskedLen_le (row : Row) : ∀ (n : Nat) (col : Int), unmaskedLen row n col ≤ n := by
  intro n; induction n with
  | zero => intro col; simp [unmaskedLen]
  | succ n ih => intro col; unfold unmaskedLen; split
                 · have := ih (col + 1); omega
                 · omega

theorem unmaskedLen_unmasked (row : Row) : ∀ (n : Nat) (col : Int) (j : Nat), j < unmaskedLen row n col →
    (row.get (col + j)).maskdepth = -1 := by
  intro n; induction n with
  | zero => intro col j hj; simp [unmaskedLen] at hj
  | succ n ih =>
    intro col j hj
    unfold unmaskedLen at hj
    split at hj
    · rename_i hm
      cases j with
      | zero => simpa using hm
      | succ j =>
        have := ih (col + 1) j (by omega)
        have e : col + 1 + (j : Int) = col + ((j + 1 : Nat) : Int) := by omega
        rw [e] at this; exact this
    · omega

theorem unmaskedLen_stop (row : Row) : ∀ (n : Nat) (col : Int), unmaskedLen row n col < n →
    ¬ (row.get (col + unmaskedLen row n col)).maskdepth = -1 := by
  intro n; induction n with
  | zero => intro col h; omega
  | succ n ih =>
    intro col h
    unfold unmaskedLen at h ⊢
    split
    · rename_i hm
      rw [if_pos hm] at h
      have := ih (col + 1) (by omega)
      have e : col + 1 + (unmaskedLen row n (col + 1) : Int) = col + ((unmaskedLen row n (col + 1) + 1 : Nat) : Int) := by omega
      rw [e] at this; exact this
    · rename_i hm; simpa using hm

/-! ## The run placement loop -/

/-- What the assignments after `make_span` must guarantee (`fc x` is the content shown `x` columns after the
    position the operation was asked to start at). -/
structure FillSpec (fill : Cell → Int → Cell) (fc : Int → Content) : Prop where
  state : ∀ c sc, (fill c sc).state.isSTE = true
  cols : ∀ c sc, (fill c sc).cols = c.cols
  md : ∀ c sc, (fill c sc).maskdepth = c.maskdepth
  content : ∀ c sc off, cellContent (fill c sc) off = fc (sc + off)

theorem splitAfterAborts_false {n : Int} {row : Row} (h : RowWF n row) (e : Int) (he0 : 0 ≤ e) :
    splitAfterAborts n row e = false := by
  unfold splitAfterAborts
  split
  · rename_i x
    have := h.start_isSTE _ he0 x.1 x.2
    cases hs : (row.get (row.get e).cols).state <;> simp_all [CState.isSTE]
  · rfl

theorem makeSpanAborts_false {n : Int} {row : Row} {col cols : Int} (h : RowWF n row) (h0 : 0 ≤ col) (hc : 0 < cols)
    (he : col + cols ≤ n) : makeSpanAborts n row col cols = false := by
  unfold makeSpanAborts
  rw [splitAfterAborts_false h _ (by omega), Bool.false_or]
  unfold shortenBeforeAborts
  rw [splitAfter_get_lt _ _ _ _ (by omega : col < col + cols)]
  split
  · rename_i x
    have lo := h.cont_lo col h0 (by omega) x
    rw [splitAfter_get_lt _ _ _ _ (by omega : (row.get col).cols < col + cols)]
    have := h.start_isSTE _ h0 (by omega) x
    cases hs : (row.get (row.get col).cols).state <;> simp_all [CState.isSTE]
  · rfl

/-- The state of affairs after the placement loop. -/
structure Placed (fc : Int → Content) (line : Int) (rb rb' : RB) (col cols startcol : Int) : Prop where
  aux : rb'.aux = rb.aux
  other : ∀ l, l ≠ line → rb'.cells l = rb.cells l
  wf : RowWF rb.cols (rb'.cells line)
  md : ∀ k, ((rb'.cells line).get k).maskdepth = ((rb.cells line).get k).maskdepth
  content : ∀ k, 0 ≤ k → k < rb.cols → rowContent (rb'.cells line) k =
      if col ≤ k ∧ k < col + cols ∧ ((rb.cells line).get k).maskdepth = -1 then fc (startcol + (k - col))
      else rowContent (rb.cells line) k
  aborted : rb'.aborted = rb.aborted
  fuelOut : rb'.fuelOut = rb.fuelOut

theorem placeRuns_spec {fill : Cell → Int → Cell} {fc : Int → Content} (hf : FillSpec fill fc) (line : Int) :
    ∀ (fuel : Nat) (rb : RB) (col cols startcol : Int),
      RowWF rb.cols (rb.cells line) → (∀ k, -1 ≤ ((rb.cells line).get k).maskdepth) →
      0 ≤ col → 0 ≤ cols → col + cols ≤ rb.cols → cols < fuel →
      Placed fc line rb (placeRuns fill line fuel rb col cols startcol) col cols startcol := by
  intro fuel
  induction fuel with
  | zero => intro rb col cols startcol _ _ _ h1 _ h2; omega
  | succ fuel ih =>
    intro rb col cols startcol hwf hlb h0 hc0 he hfuel
    have trivialCase : ∀ (hno : ∀ k, col ≤ k → k < col + cols → ((rb.cells line).get k).maskdepth ≠ -1),
        Placed fc line rb rb col cols startcol := by
      intro hno
      refine ⟨rfl, fun _ _ => rfl, hwf, fun _ => rfl, fun k _ _ => ?_, rfl, rfl⟩
      rw [if_neg (fun x => hno k x.1 x.2.1 x.2.2)]
    unfold placeRuns
    by_cases hz : cols = 0
    · rw [if_pos hz]; exact trivialCase (fun k a b => by omega)
    · rw [if_neg hz]
      simp only
      -- the masked prefix
      have mle := maskedLen_le (rb.cells line) cols.toNat col
      have mmask := maskedLen_masked (rb.cells line) cols.toNat col
      have mstop := maskedLen_stop (rb.cells line) cols.toNat col
      generalize hm : maskedLen (rb.cells line) cols.toNat col = m at mle mmask mstop
      have masked : ∀ k, col ≤ k → k < col + m → ((rb.cells line).get k).maskdepth > -1 := by
        intro k a b
        have := mmask (k - col).toNat (by omega)
        have e : col + ((k - col).toNat : Int) = k := by omega
        rw [e] at this; exact this
      by_cases hz2 : cols - (m : Int) = 0
      · rw [if_pos hz2]
        exact trivialCase (fun k a b => by have := masked k a (by omega); omega)
      · rw [if_neg hz2]
        have ule := unmaskedLen_le (rb.cells line) (cols - (m : Int)).toNat (col + m)
        have uun := unmaskedLen_unmasked (rb.cells line) (cols - (m : Int)).toNat (col + m)
        generalize hu : unmaskedLen (rb.cells line) (cols - (m : Int)).toNat (col + m) = u at ule uun
        have unmasked : ∀ k, col + m ≤ k → k < col + m + u → ((rb.cells line).get k).maskdepth = -1 := by
          intro k a b
          have := uun (k - (col + m)).toNat (by omega)
          have e : col + (m : Int) + ((k - (col + m)).toNat : Int) = k := by omega
          rw [e] at this; exact this
        have upos : (u : Int) ≠ 0 := by
          intro hu0
          have s1 := mstop (by omega)
          have hu' : u = 0 := by omega
          rw [hu'] at hu
          have : ¬ ((rb.cells line).get (col + m)).maskdepth = -1 := by
            have hn : (cols - (m : Int)).toNat = ((cols - (m : Int)).toNat - 1) + 1 := by omega
            rw [hn] at hu
            unfold unmaskedLen at hu
            split at hu
            · omega
            · assumption
          have := hlb (col + m)
          omega
        rw [if_neg upos]
        -- one span is placed
        have hcu : (0 : Int) < u := by omega
        have hspan0 : 0 ≤ col + (m : Int) := by omega
        have hspanE : col + (m : Int) + u ≤ rb.cols := by omega
        let v := fill ((makeSpanRow rb.cols (rb.cells line) (col + m) u).get (col + m)) (startcol + m)
        let rb1 := (makeSpan rb line (col + m) u).updCell line (col + m) (fun c => fill c (startcol + m))
        have hrow1 : rb1.cells line = spanRow rb.cols (rb.cells line) (col + m) u v := by
          show (if line = line then _ else _) = _
          rw [if_pos rfl]
          show rowSet (if line = line then _ else _) _ _ = _
          rw [if_pos rfl]
          unfold spanRow RB.cell
          show rowSet _ _ (fill ((if line = line then _ else _ : Row).get _) _) = _
          rw [if_pos rfl]
        have hother1 : ∀ l, l ≠ line → rb1.cells l = rb.cells l := by
          intro l hl
          show (if l = line then _ else (if l = line then _ else _)) = _
          rw [if_neg hl, if_neg hl]
        have hhead : (makeSpanRow rb.cols (rb.cells line) (col + m) u).get (col + m) =
            spanHead ((shortenBefore (splitAfter rb.cols (rb.cells line) (col + m + u)) (col + m)).get (col + m)) (col + m) u := by
          rw [makeSpanRow_get _ _ _ _ _ hcu, if_pos rfl]
        have hv1 : v.state ≠ .cont := by
          have := hf.state ((makeSpanRow rb.cols (rb.cells line) (col + m) u).get (col + m)) (startcol + m)
          intro x; rw [show v.state = _ from rfl] at x; rw [x] at this; simp [CState.isSTE] at this
        have hv2 : v.cols = u := by
          show (fill _ _).cols = _
          rw [hf.cols, hhead, spanHead_cols]
        have hv3 : (v.state = .line ∨ v.state = .char) → (u : Int) = 1 := by
          have := hf.state ((makeSpanRow rb.cols (rb.cells line) (col + m) u).get (col + m)) (startcol + m)
          intro x
          rcases x with x | x <;> (rw [show v.state = _ from rfl] at x; rw [x] at this; simp [CState.isSTE] at this)
        have hvmd : v.maskdepth = -1 := by
          show (fill _ _).maskdepth = _
          rw [hf.md, hhead, spanHead_maskdepth]
        have wf1 : RowWF rb1.cols (rb1.cells line) := by
          rw [hrow1]; exact spanRow_wf v hwf hspan0 hcu hspanE hv1 hv2 hv3
        have md1 : ∀ k, ((rb1.cells line).get k).maskdepth = ((rb.cells line).get k).maskdepth := by
          intro k
          rw [hrow1]
          unfold spanRow
          rw [rowSet_get]
          split
          · rename_i x; rw [x, hvmd, unmasked _ (by omega) (by omega)]
          · rw [makeSpanRow_maskdepth _ _ _ _ _ hcu]
            split
            · rename_i x; rw [unmasked _ x.1 x.2]
            · rfl
        have IH := ih rb1 (col + m + u) (cols - m - u) (startcol + m + u) wf1
          (fun k => by rw [md1]; exact hlb k) (by omega) (by omega) (by show _ ≤ rb.cols; omega) (by omega)
        refine ⟨IH.aux, fun l hl => (IH.other l hl).trans (hother1 l hl), IH.wf, fun k => (IH.md k).trans (md1 k), ?_, ?_, IH.fuelOut⟩
        · intro k hk0 hkn
          have c1 := IH.content k hk0 hkn
          have c0 : rowContent (rb1.cells line) k =
              if col + m ≤ k ∧ k < col + m + u then cellContent v (k - (col + m)) else rowContent (rb.cells line) k := by
            rw [hrow1]; exact spanRow_content v hwf hspan0 hcu hspanE hv1 k hk0 hkn
          rw [c1, md1, c0]
          by_cases p1 : col + m + u ≤ k ∧ k < col + m + u + (cols - m - u) ∧ ((rb.cells line).get k).maskdepth = -1
          · rw [if_pos p1, if_pos ⟨by omega, by omega, p1.2.2⟩]
            congr 1; omega
          · rw [if_neg p1]
            by_cases p2 : col + m ≤ k ∧ k < col + m + u
            · rw [if_pos p2, if_pos ⟨by omega, by omega, unmasked k p2.1 p2.2⟩]
              show cellContent (fill _ _) _ = _
              rw [hf.content]; congr 1; omega
            · rw [if_neg p2]
              by_cases p3 : col ≤ k ∧ k < col + cols ∧ ((rb.cells line).get k).maskdepth = -1
              · exfalso
                have : k < col + m := by
                  apply Classical.byContradiction; intro x
                  exact p1 ⟨by omega, by omega, p3.2.2⟩
                have := masked k p3.1 this
                omega
              · rw [if_neg p3]
        · rw [IH.aborted]
          show (rb.aborted || makeSpanAborts rb.cols (rb.cells line) (col + m) u) = rb.aborted
          rw [makeSpanAborts_false hwf hspan0 hcu hspanE, Bool.or_false]

/-! ## Well-formedness of a whole buffer -/

/-- A clipping rectangle is empty (`lines = 0`) or non-empty and inside the buffer. -/
def ClipOK (lines cols : Int) (r : Rect) : Prop :=
  r.lines = 0 ∨ (0 ≤ r.top ∧ r.bottom ≤ lines ∧ 0 ≤ r.left ∧ r.right ≤ cols ∧ 0 < r.lines ∧ 0 < r.cols)

/-- The invariant of `struct TickitRenderBuffer`: runs tile every line, CONT cells point at their start,
    LINE/CHAR cells have one column, mask depths lie in `[-1, depth]`, `depth` counts the stack, every clip
    (current and saved) is empty or inside the buffer, and no `abort()` was reached. -/
structure WF (rb : RB) : Prop where
  size : 0 ≤ rb.lines ∧ 0 < rb.cols
  rows : ∀ l, 0 ≤ l → l < rb.lines → RowWF rb.cols (rb.cells l)
  maskLB : ∀ l c, -1 ≤ (rb.cell l c).maskdepth
  maskUB : ∀ l c, 0 ≤ l → l < rb.lines → 0 ≤ c → c < rb.cols → (rb.cell l c).maskdepth ≤ rb.depth
  depth : rb.depth = rb.stack.length
  clip : ClipOK rb.lines rb.cols rb.clip
  frames : ∀ f, f ∈ rb.stack → f.penOnly = false → ClipOK rb.lines rb.cols f.clip
  aborted : rb.aborted = false
  fuelOut : rb.fuelOut = false

theorem absClipRect_iff (r : Rect) (L C : Int) :
    absClipRect r L C = true ↔ (r.lines ≠ 0 ∧ r.top ≤ L ∧ L < r.top + r.lines ∧ r.left ≤ C ∧ C < r.left + r.cols) := by
  unfold absClipRect Rect.memb Rect.bottom Rect.right
  simp only [Bool.and_eq_true, decide_eq_true_eq]
  constructor
  · rintro ⟨a, ⟨⟨b, c⟩, d⟩, e⟩; exact ⟨a, b, c, d, e⟩
  · rintro ⟨a, b, c, d, e⟩; exact ⟨a, ⟨⟨b, c⟩, d⟩, e⟩

/-- `xlate_and_clip` succeeded: the clipped run lies inside the buffer and is exactly the part of the
    requested run that is inside the clipping region. -/
theorem xlateAndClip_some {rb : RB} (hclip : ClipOK rb.lines rb.cols rb.clip) {line col cols : Int} {r : Clipped}
    (h : xlateAndClip rb line col cols = some r) :
    r.line = line + rb.xlLine ∧ 0 ≤ r.line ∧ r.line < rb.lines ∧ 0 ≤ r.col ∧ 1 ≤ r.cols ∧ r.col + r.cols ≤ rb.cols ∧
    r.startcol = r.col - (col + rb.xlCol) ∧
    (∀ C, (r.col ≤ C ∧ C < r.col + r.cols) ↔
      (col + rb.xlCol ≤ C ∧ C < col + rb.xlCol + cols ∧ absClipRect rb.clip r.line C = true)) := by
  unfold xlateAndClip at h
  simp only at h
  unfold ClipOK Rect.bottom Rect.right at hclip
  unfold Rect.bottom Rect.right at h
  by_cases h1 : rb.clip.lines = 0
  · rw [if_pos h1] at h; cases h
  · rw [if_neg h1] at h
    by_cases h2 : line + rb.xlLine < rb.clip.top ∨ line + rb.xlLine ≥ rb.clip.top + rb.clip.lines ∨
        col + rb.xlCol ≥ rb.clip.left + rb.clip.cols
    · rw [if_pos h2] at h; cases h
    · rw [if_neg h2] at h
      by_cases h3 : col + rb.xlCol < rb.clip.left
      · simp only [h3, if_true] at h
        by_cases h4 : cols - (rb.clip.left - (col + rb.xlCol)) ≤ 0
        · rw [if_pos h4] at h; cases h
        · rw [if_neg h4] at h
          injection h with h
          subst h
          simp only
          refine ⟨trivial, by omega, by omega, by omega, ?_, ?_, by first | trivial | omega, ?_⟩
          · split <;> omega
          · split <;> omega
          intro C
          rw [absClipRect_iff]
          split <;> omega
      · simp only [h3, if_false] at h
        by_cases h4 : cols ≤ 0
        · rw [if_pos h4] at h; cases h
        · rw [if_neg h4] at h
          injection h with h
          subst h
          simp only
          refine ⟨trivial, by omega, by omega, by omega, ?_, ?_, by first | trivial | omega, ?_⟩
          · split <;> omega
          · split <;> omega
          intro C
          rw [absClipRect_iff]
          split <;> omega

theorem xlateAndClip_none {rb : RB} {line col cols : Int} (h : xlateAndClip rb line col cols = none) (C : Int) :
    ¬ (col + rb.xlCol ≤ C ∧ C < col + rb.xlCol + cols ∧ absClipRect rb.clip (line + rb.xlLine) C = true) := by
  unfold xlateAndClip at h
  simp only at h
  unfold Rect.bottom Rect.right at h
  rw [absClipRect_iff]
  by_cases h1 : rb.clip.lines = 0
  · omega
  · rw [if_neg h1] at h
    by_cases h2 : line + rb.xlLine < rb.clip.top ∨ line + rb.xlLine ≥ rb.clip.top + rb.clip.lines ∨
        col + rb.xlCol ≥ rb.clip.left + rb.clip.cols
    · omega
    · rw [if_neg h2] at h
      by_cases h3 : col + rb.xlCol < rb.clip.left
      · simp only [h3, if_true] at h
        by_cases h4 : cols - (rb.clip.left - (col + rb.xlCol)) ≤ 0
        · omega
        · rw [if_neg h4] at h; cases h
      · simp only [h3, if_false] at h
        by_cases h4 : cols ≤ 0
        · omega
        · rw [if_neg h4] at h; cases h

/-- Well-formedness carries over to a buffer with the same auxiliary state, well-formed lines and the same
    mask depths. -/
theorem WF.transfer {rb rb' : RB} (wf : WF rb) (haux : rb'.aux = rb.aux)
    (hrows : ∀ l, 0 ≤ l → l < rb.lines → RowWF rb.cols (rb'.cells l))
    (hmd : ∀ l c, (rb'.cell l c).maskdepth = (rb.cell l c).maskdepth)
    (ha : rb'.aborted = rb.aborted) (hfo : rb'.fuelOut = rb.fuelOut) : WF rb' := by
  have e1 : rb'.lines = rb.lines := congrArg Aux.lines haux
  have e2 : rb'.cols = rb.cols := congrArg Aux.cols haux
  have e3 : rb'.depth = rb.depth := congrArg Aux.depth haux
  have e4 : rb'.stack = rb.stack := congrArg Aux.stack haux
  have e5 : rb'.clip = rb.clip := congrArg Aux.clip haux
  refine ⟨?_, ?_, ?_, ?_, ?_, ?_, ?_, ?_, ?_⟩
  · rw [e1, e2]; exact wf.size
  · intro l a b; rw [e2]; exact hrows l a (by omega)
  · intro l c; rw [hmd]; exact wf.maskLB l c
  · intro l c a b x y; rw [hmd, e3]; exact wf.maskUB l c a (by omega) x (by omega)
  · rw [e3, e4]; exact wf.depth
  · rw [e1, e2, e5]; exact wf.clip
  · rw [e1, e2, e4]; exact wf.frames
  · rw [ha]; exact wf.aborted
  · rw [hfo]; exact wf.fuelOut

/-- The common shape of `skip`, `erase` and `put_string` (after the width count). -/
def runOp (fill : Cell → Int → Cell) (sc : Clipped → Int) (rb : RB) (line col cols : Int) : RB :=
  match xlateAndClip rb line col cols with
  | none => rb
  | some r => placeRuns fill r.line (r.cols.toNat + 1) rb r.col r.cols (sc r)

theorem skipRun_eq (rb : RB) (l c n : Int) : skipRun rb l c n = runOp fillSkip (fun _ => 0) rb l c n := rfl
theorem eraseRun_eq (rb : RB) (l c n : Int) : eraseRun rb l c n = runOp (fillErase rb.pen) (fun _ => 0) rb l c n := rfl
theorem putStringCols_eq (rb : RB) (l c : Int) (s : List UInt8) (n : Int) :
    putStringCols rb l c s n = runOp (fillText rb.pen s) (fun r => r.startcol) rb l c n := rfl

theorem fillSkip_spec : FillSpec fillSkip (fun _ => .skip) :=
  ⟨fun _ _ => rfl, fun _ _ => rfl, fun _ _ => rfl, fun _ _ _ => rfl⟩
theorem fillErase_spec (pen : Pen) : FillSpec (fillErase pen) (fun _ => .erase pen) :=
  ⟨fun _ _ => rfl, fun _ _ => rfl, fun _ _ => rfl, fun _ _ _ => rfl⟩
theorem fillText_spec (pen : Pen) (s : List UInt8) : FillSpec (fillText pen s) (fun x => .text pen s x) :=
  ⟨fun _ _ => rfl, fun _ _ => rfl, fun _ _ => rfl, fun _ _ _ => rfl⟩

theorem absMasked_false_iff {rb : RB} (wf : WF rb) {L C : Int} (hb : inBuf rb.lines rb.cols L C = true) :
    absMasked rb L C = false ↔ (rb.cell L C).maskdepth = -1 := by
  unfold absMasked
  rw [hb, Bool.true_and]
  have := wf.maskLB L C
  simp only [decide_eq_false_iff_not]
  omega

theorem inBuf_iff (lines cols L C : Int) : inBuf lines cols L C = true ↔ (0 ≤ L ∧ L < lines ∧ 0 ≤ C ∧ C < cols) := by
  unfold inBuf; simp only [Bool.and_eq_true, decide_eq_true_eq]
  constructor
  · rintro ⟨⟨⟨a, b⟩, c⟩, d⟩; exact ⟨a, b, c, d⟩
  · rintro ⟨a, b, c, d⟩; exact ⟨⟨⟨a, b⟩, c⟩, d⟩

/-- **A run operation, cell-wise**: the buffer stays well-formed, the auxiliary state and every mask depth are
    untouched, and exactly the cells of the requested run (shifted by the translation) that lie inside the
    clipping region and are not masked change, to the operation's own content. -/
theorem runOp_spec {fill : Cell → Int → Cell} {fc : Int → Content} (hf : FillSpec fill fc) {rb : RB} (wf : WF rb)
    (line col cols : Int) (sc : Clipped → Int) (g : Int → Content)
    (hg : ∀ r, xlateAndClip rb line col cols = some r → ∀ C, fc (sc r + (C - r.col)) = g (C - (col + rb.xlCol))) :
    WF (runOp fill sc rb line col cols) ∧ (runOp fill sc rb line col cols).aux = rb.aux ∧
    (∀ L C, ((runOp fill sc rb line col cols).cell L C).maskdepth = (rb.cell L C).maskdepth) ∧
    (∀ L C, absContent (runOp fill sc rb line col cols) L C =
      if L = line + rb.xlLine ∧ col + rb.xlCol ≤ C ∧ C < col + rb.xlCol + cols ∧
         absClipRect rb.clip L C = true ∧ absMasked rb L C = false
      then g (C - (col + rb.xlCol)) else absContent rb L C) := by
  unfold runOp
  cases hx : xlateAndClip rb line col cols with
  | none =>
    refine ⟨wf, rfl, fun _ _ => rfl, fun L C => ?_⟩
    rw [if_neg]
    intro x
    have := xlateAndClip_none hx C
    rw [← x.1] at this
    exact this ⟨x.2.1, x.2.2.1, x.2.2.2.1⟩
  | some r =>
    simp only
    obtain ⟨r1, r2, r3, r4, r5, r6, r7, r8⟩ := xlateAndClip_some wf.clip hx
    have P := placeRuns_spec hf r.line (r.cols.toNat + 1) rb r.col r.cols (sc r) (wf.rows r.line r2 r3)
      (fun k => wf.maskLB r.line k) r4 (by omega) r6 (by omega)
    have hmd : ∀ L C, ((placeRuns fill r.line (r.cols.toNat + 1) rb r.col r.cols (sc r)).cell L C).maskdepth =
        (rb.cell L C).maskdepth := by
      intro L C
      unfold RB.cell
      by_cases hl : L = r.line
      · rw [hl]; exact P.md C
      · rw [P.other L hl]
    have e1 : (placeRuns fill r.line (r.cols.toNat + 1) rb r.col r.cols (sc r)).lines = rb.lines := congrArg Aux.lines P.aux
    have e2 : (placeRuns fill r.line (r.cols.toNat + 1) rb r.col r.cols (sc r)).cols = rb.cols := congrArg Aux.cols P.aux
    refine ⟨?_, P.aux, hmd, ?_⟩
    · apply wf.transfer P.aux _ hmd P.aborted P.fuelOut
      intro l a b
      by_cases hl : l = r.line
      · rw [hl]; exact P.wf
      · rw [P.other l hl]; exact wf.rows l a b
    · intro L C
      rw [absContent_eq, absContent_eq, e1, e2]
      by_cases hb : inBuf rb.lines rb.cols L C = true
      · rw [if_pos hb, if_pos hb]
        have hb' := (inBuf_iff _ _ _ _).1 hb
        by_cases hl : L = r.line
        · rw [hl, P.content C hb'.2.2.1 hb'.2.2.2]
          rw [hl] at hb
          have hm := absMasked_false_iff wf hb
          unfold RB.cell at hm
          have h8 := r8 C
          by_cases p : r.col ≤ C ∧ C < r.col + r.cols ∧ ((rb.cells r.line).get C).maskdepth = -1
          · rw [if_pos p, if_pos ⟨r1, (h8.1 ⟨p.1, p.2.1⟩).1, (h8.1 ⟨p.1, p.2.1⟩).2.1, (h8.1 ⟨p.1, p.2.1⟩).2.2, hm.2 p.2.2⟩]
            exact hg r hx C
          · rw [if_neg p, if_neg]
            intro x
            exact p ⟨(h8.2 ⟨x.2.1, x.2.2.1, x.2.2.2.1⟩).1, (h8.2 ⟨x.2.1, x.2.2.1, x.2.2.2.1⟩).2, hm.1 x.2.2.2.2⟩
        · rw [P.other L hl, if_neg]
          intro x; exact hl (x.1.trans r1.symm)
      · rw [if_neg hb, if_neg hb, if_neg]
        intro x
        have := (absClipRect_iff _ _ _).1 x.2.2.2.1
        have hc := wf.clip
        unfold ClipOK Rect.bottom Rect.right at hc
        apply hb
        rw [inBuf_iff]
        omega

end Tickit.RB
