import Tickit.Model.RectSet
import Tickit.Proof.Rect
import Tickit.Props.C06
/-
  Helper lemmas for C05 (rectset.c): coverage of insert/erase, what `scan` decides, and the region
  equation for `add`/`addMany` for every fuel.
-/
namespace Tickit
namespace RectSet
open Rect

theorem covered_nil (l c : Int) : ¬ Covered [] l c := by
  unfold Covered; simp

theorem covered_cons (r : Rect) (s : List Rect) (l c : Int) :
    Covered (r :: s) l c ↔ r.Mem l c ∨ Covered s l c := by
  unfold Covered; simp

theorem covered_append (s t : List Rect) (l c : Int) :
    Covered (s ++ t) l c ↔ Covered s l c ∨ Covered t l c := by
  unfold Covered
  constructor
  · rintro ⟨r, hr, hm⟩
    rcases List.mem_append.1 hr with h | h
    · exact Or.inl ⟨r, h, hm⟩
    · exact Or.inr ⟨r, h, hm⟩
  · rintro (⟨r, hr, hm⟩ | ⟨r, hr, hm⟩)
    · exact ⟨r, List.mem_append.2 (Or.inl hr), hm⟩
    · exact ⟨r, List.mem_append.2 (Or.inr hr), hm⟩

theorem mem_insertRect (s : List Rect) (r x : Rect) :
    x ∈ insertRect s r ↔ x = r ∨ x ∈ s := by
  induction s with
  | nil => simp [insertRect]
  | cons y ys ih =>
    unfold insertRect
    split
    · simp
    · simp only [List.mem_cons, ih]
      constructor
      · rintro (h | h | h)
        · exact Or.inr (Or.inl h)
        · exact Or.inl h
        · exact Or.inr (Or.inr h)
      · rintro (h | h | h)
        · exact Or.inr (Or.inl h)
        · exact Or.inl h
        · exact Or.inr (Or.inr h)

theorem covered_insertRect (s : List Rect) (r : Rect) (l c : Int) :
    Covered (insertRect s r) l c ↔ Covered s l c ∨ r.Mem l c := by
  unfold Covered
  constructor
  · rintro ⟨x, hx, hm⟩
    rcases (mem_insertRect s r x).1 hx with rfl | h
    · exact Or.inr hm
    · exact Or.inl ⟨x, h, hm⟩
  · rintro (⟨x, hx, hm⟩ | hm)
    · exact ⟨x, (mem_insertRect s r x).2 (Or.inr hx), hm⟩
    · exact ⟨r, (mem_insertRect s r r).2 (Or.inl rfl), hm⟩

/-- Splitting a list at an index: coverage of the whole = coverage of the rest ∨ the erased member. -/
theorem covered_eraseIdx (s : List Rect) (i : Nat) (r : Rect) (h : s[i]? = some r) (l c : Int) :
    Covered s l c ↔ Covered (s.eraseIdx i) l c ∨ r.Mem l c := by
  induction s generalizing i with
  | nil => simp at h
  | cons x xs ih =>
    cases i with
    | zero =>
      simp at h; subst h
      simp only [List.eraseIdx_zero, List.tail_cons, covered_cons]
      exact Or.comm
    | succ j =>
      simp at h
      simp only [List.eraseIdx_cons_succ, covered_cons, ih j h]
      constructor
      · rintro (h1 | h1 | h1)
        · exact Or.inl (Or.inl h1)
        · exact Or.inl (Or.inr h1)
        · exact Or.inr h1
      · rintro ((h1 | h1) | h1)
        · exact Or.inl h1
        · exact Or.inr (Or.inl h1)
        · exact Or.inr (Or.inr h1)

theorem mem_of_mem_eraseIdx {s : List Rect} {i : Nat} {x : Rect} (h : x ∈ s.eraseIdx i) : x ∈ s :=
  List.mem_of_mem_eraseIdx h

/-- What the scan reports, in terms of the list it scanned (`i0` = index of the list's head). -/
theorem scan_stretch {cur : Rect} {s : List Rect} {i0 i : Nat} {g : Rect}
    (h : scan cur s i0 = .stretch i g) (hc : cur.Nonempty) (hs : ∀ r ∈ s, r.Nonempty) :
    ∃ r, i0 ≤ i ∧ s[i - i0]? = some r ∧ g.Nonempty ∧
      ∀ l c, g.Mem l c ↔ (r.Mem l c ∨ cur.Mem l c) := by
  induction s generalizing i0 with
  | nil => simp [scan] at h
  | cons r rest ih =>
    unfold scan at h
    have hr : r.Nonempty := hs r (by simp)
    split at h
    · cases h
    · split at h
      · obtain ⟨r', h1, h2, h3⟩ := ih h (fun x hx => hs x (by simp [hx]))
        refine ⟨r', by omega, ?_, h3⟩
        have : i - i0 = (i - (i0 + 1)) + 1 := by omega
        rw [this]; simpa using h2
      · split at h
        · cases h
        · split at h
          · rename_i hfar hnear hncont hst
            injection h with h1 h2
            subst h1 h2
            refine ⟨r, Nat.le_refl _, by simp, ?_, ?_⟩
            · rect_omega
            · intro l c
              rect_omega
          · split at h
            · obtain ⟨r', h1, h2, h3⟩ := ih h (fun x hx => hs x (by simp [hx]))
              refine ⟨r', by omega, ?_, h3⟩
              have : i - i0 = (i - (i0 + 1)) + 1 := by omega
              rw [this]; simpa using h2
            · cases h

theorem scan_split {cur : Rect} {s : List Rect} {i0 i : Nat} {r : Rect}
    (h : scan cur s i0 = .split i r) : i0 ≤ i ∧ s[i - i0]? = some r := by
  induction s generalizing i0 with
  | nil => simp [scan] at h
  | cons x rest ih =>
    unfold scan at h
    split at h
    · cases h
    · split at h
      · obtain ⟨h1, h2⟩ := ih h
        refine ⟨by omega, ?_⟩
        have : i - i0 = (i - (i0 + 1)) + 1 := by omega
        rw [this]; simpa using h2
      · split at h
        · cases h
        · split at h
          · cases h
          · split at h
            · obtain ⟨h1, h2⟩ := ih h
              refine ⟨by omega, ?_⟩
              have : i - i0 = (i - (i0 + 1)) + 1 := by omega
              rw [this]; simpa using h2
            · injection h with h1 h2
              subst h1 h2
              exact ⟨Nat.le_refl _, by simp⟩

theorem scan_covered {cur : Rect} {s : List Rect} {i0 : Nat}
    (h : scan cur s i0 = .covered) : ∃ r ∈ s, r.contains cur = true := by
  induction s generalizing i0 with
  | nil => simp [scan] at h
  | cons x rest ih =>
    unfold scan at h
    split at h
    · cases h
    · split at h
      · obtain ⟨r, hr, hc⟩ := ih h
        exact ⟨r, by simp [hr], hc⟩
      · split at h
        · rename_i hc
          exact ⟨x, by simp, hc⟩
        · split at h
          · cases h
          · split at h
            · obtain ⟨r, hr, hc⟩ := ih h
              exact ⟨r, by simp [hr], hc⟩
            · cases h

/-- The region equation and non-emptiness for `add` and `addMany`, for every fuel. -/
theorem add_addMany_region (fuel : Nat) :
    (∀ s cur s', add fuel s cur = some s' → cur.Nonempty → (∀ r ∈ s, r.Nonempty) →
        (∀ r ∈ s', r.Nonempty) ∧ ∀ l c, Covered s' l c ↔ (Covered s l c ∨ cur.Mem l c)) ∧
    (∀ s ps s', addMany fuel s ps = some s' → (∀ p ∈ ps, p.Nonempty) → (∀ r ∈ s, r.Nonempty) →
        (∀ r ∈ s', r.Nonempty) ∧ ∀ l c, Covered s' l c ↔ (Covered s l c ∨ Covered ps l c)) := by
  induction fuel with
  | zero =>
    refine ⟨?_, ?_⟩
    · intro s cur s' h; simp [add] at h
    · intro s ps s' h hps hs
      cases ps with
      | nil =>
        simp [addMany] at h; subst h
        exact ⟨hs, fun l c => by simp [covered_nil]⟩
      | cons p ps => simp [addMany] at h
  | succ n ih =>
    obtain ⟨ihA, ihM⟩ := ih
    refine ⟨?_, ?_⟩
    · intro s cur s' h hc hs
      unfold add at h
      split at h
      · -- insert
        injection h with h; subst h
        refine ⟨?_, fun l c => covered_insertRect s cur l c⟩
        intro r hr
        rcases (mem_insertRect s cur r).1 hr with rfl | hr
        · exact hc
        · exact hs r hr
      · -- covered
        rename_i hscan
        injection h with h; subst h
        refine ⟨hs, ?_⟩
        intro l c
        obtain ⟨r, hr, hcont⟩ := scan_covered hscan
        have := (Props.C06.contains_iff r cur hc).1 hcont l c
        constructor
        · exact Or.inl
        · rintro (h1 | h1)
          · exact h1
          · exact ⟨r, hr, this h1⟩
      · -- stretch
        rename_i i grown hscan
        obtain ⟨r, _, hri, hgne, hg⟩ := scan_stretch hscan hc hs
        simp only [Nat.sub_zero] at hri
        have hs' : ∀ x ∈ s.eraseIdx i, x.Nonempty := fun x hx => hs x (mem_of_mem_eraseIdx hx)
        obtain ⟨h1, h2⟩ := ihA _ _ _ h hgne hs'
        refine ⟨h1, ?_⟩
        intro l c
        rw [h2 l c, hg l c, covered_eraseIdx s i r hri l c]
        constructor
        · rintro (h | h | h)
          · exact Or.inl (Or.inl h)
          · exact Or.inl (Or.inr h)
          · exact Or.inr h
        · rintro ((h | h) | h)
          · exact Or.inl h
          · exact Or.inr (Or.inl h)
          · exact Or.inr (Or.inr h)
      · -- split
        rename_i i r hscan
        obtain ⟨_, hri⟩ := scan_split hscan
        simp only [Nat.sub_zero] at hri
        have hrne : r.Nonempty := hs r (List.mem_of_getElem? hri)
        have hs' : ∀ x ∈ s.eraseIdx i, x.Nonempty := fun x hx => hs x (mem_of_mem_eraseIdx hx)
        obtain ⟨_, hpne, _, hpc⟩ := Props.C06.add_spec r cur hrne hc
        obtain ⟨h1, h2⟩ := ihM _ _ _ h hpne hs'
        refine ⟨h1, ?_⟩
        intro l c
        rw [h2 l c, hpc l c, covered_eraseIdx s i r hri l c]
        constructor
        · rintro (h | h | h)
          · exact Or.inl (Or.inl h)
          · exact Or.inl (Or.inr h)
          · exact Or.inr h
        · rintro ((h | h) | h)
          · exact Or.inl h
          · exact Or.inr (Or.inl h)
          · exact Or.inr (Or.inr h)
    · intro s ps s' h hps hs
      cases ps with
      | nil =>
        simp [addMany] at h; subst h
        exact ⟨hs, fun l c => by simp [covered_nil]⟩
      | cons p ps =>
        unfold addMany at h
        split at h
        · cases h
        · rename_i s1 hadd
          obtain ⟨a1, a2⟩ := ihA _ _ _ hadd (hps p (by simp)) hs
          obtain ⟨b1, b2⟩ := ihM _ _ _ h (fun x hx => hps x (by simp [hx])) a1
          refine ⟨b1, ?_⟩
          intro l c
          rw [b2 l c, a2 l c, covered_cons]
          constructor
          · rintro ((h | h) | h)
            · exact Or.inl h
            · exact Or.inr (Or.inl h)
            · exact Or.inr (Or.inr h)
          · rintro (h | h | h)
            · exact Or.inl (Or.inl h)
            · exact Or.inl (Or.inr h)
            · exact Or.inr h

end RectSet
end Tickit

namespace Tickit
namespace RectSet
open Rect

theorem add_region {fuel : Nat} {s : List Rect} {cur : Rect} {s' : List Rect}
    (h : add fuel s cur = some s') (hc : cur.Nonempty) (hs : ∀ r ∈ s, r.Nonempty) :
    (∀ r ∈ s', r.Nonempty) ∧ ∀ l c, Covered s' l c ↔ (Covered s l c ∨ cur.Mem l c) :=
  (add_addMany_region fuel).1 s cur s' h hc hs

theorem addMany_region {fuel : Nat} {s ps s' : List Rect}
    (h : addMany fuel s ps = some s') (hps : ∀ p ∈ ps, p.Nonempty) (hs : ∀ r ∈ s, r.Nonempty) :
    (∀ r ∈ s', r.Nonempty) ∧ ∀ l c, Covered s' l c ↔ (Covered s l c ∨ Covered ps l c) :=
  (add_addMany_region fuel).2 s ps s' h hps hs

/-- What holds of `subtract` whatever the shape of the stored set: nothing outside the hole is
    lost and nothing is invented. -/
theorem subtractFrom_bounds (fuel : Nat) : ∀ (s : List Rect) (rect : Rect) (i : Nat) (s' : List Rect),
    subtractFrom fuel s rect i = some s' → rect.Nonempty → (∀ r ∈ s, r.Nonempty) →
    (∀ r ∈ s', r.Nonempty) ∧
    (∀ l c, Covered s' l c → Covered s l c) ∧
    (∀ l c, Covered s l c → ¬ rect.Mem l c → Covered s' l c) := by
  induction fuel with
  | zero => intro s rect i s' h; simp [subtractFrom] at h
  | succ n ih =>
    intro s rect i s' h hrne hs
    unfold subtractFrom at h
    split at h
    · injection h with h; subst h
      exact ⟨hs, fun _ _ h => h, fun _ _ h _ => h⟩
    · rename_i r hri
      split at h
      · exact ih _ _ _ _ h hrne hs
      · split at h
        · cases h
        · rename_i s1 hadd
          have hrne' : r.Nonempty := hs r (List.mem_of_getElem? hri)
          have hs' : ∀ x ∈ s.eraseIdx i, x.Nonempty := fun x hx => hs x (mem_of_mem_eraseIdx hx)
          obtain ⟨_, hpne, _, hpc⟩ := Props.C06.subtract_spec r rect hrne' hrne
          obtain ⟨a1, a2⟩ := addMany_region hadd hpne hs'
          obtain ⟨b1, b2, b3⟩ := ih _ _ _ _ h hrne a1
          refine ⟨b1, ?_, ?_⟩
          · intro l c hcov
            have := (a2 l c).1 (b2 l c hcov)
            rw [covered_eraseIdx s i r hri l c]
            rcases this with h1 | h1
            · exact Or.inl h1
            · exact Or.inr ((hpc l c).1 h1).1
          · intro l c hcov hnot
            apply b3 l c _ hnot
            rw [a2 l c]
            rcases (covered_eraseIdx s i r hri l c).1 hcov with h1 | h1
            · exact Or.inl h1
            · exact Or.inr ((hpc l c).2 ⟨h1, hnot⟩)

theorem covered_translate (s : List Rect) (d k l c : Int) :
    Covered (translate s d k) l c ↔ Covered s (l - d) (c - k) := by
  unfold Covered translate
  simp only [List.mem_map]
  constructor
  · rintro ⟨r, ⟨x, hx, rfl⟩, hm⟩
    exact ⟨x, hx, (Props.C06.mem_translate x d k l c).1 hm⟩
  · rintro ⟨x, hx, hm⟩
    exact ⟨x.translate d k, ⟨x, hx, rfl⟩, (Props.C06.mem_translate x d k l c).2 hm⟩

theorem nonempty_translate (s : List Rect) (d k : Int) (hs : ∀ r ∈ s, r.Nonempty) :
    ∀ r ∈ translate s d k, r.Nonempty := by
  intro r hr
  unfold translate at hr
  simp only [List.mem_map] at hr
  obtain ⟨x, hx, rfl⟩ := hr
  have := hs x hx
  unfold Rect.Nonempty Rect.translate at *
  exact this

/-- `contains` never answers "covered" wrongly, whatever the shape of the stored set. -/
theorem contains_sound (fuel : Nat) : ∀ (s : List Rect) (q : Rect),
    contains fuel s q = some true → q.Nonempty → ∀ l c, q.Mem l c → Covered s l c := by
  induction fuel with
  | zero => intro s q h; simp [contains] at h
  | succ n ih =>
    intro s q h hq l c hm
    unfold contains at h
    split at h
    · simp at h
    · rename_i r hfi
      have hr : r ∈ s := by
        unfold firstIntersecting at hfi
        exact List.mem_of_find?_eq_some hfi
      split at h
      · simp at h
      · split at h
        · rename_i hnot hsplit
          simp only at h
          split at h
          · cases h
          · simp at h
          · rename_i hlow
            injection h with h
            by_cases hl : l < r.bottom
            · refine ⟨r, hr, ?_⟩
              have hup : ({ q with lines := r.bottom - q.top } : Rect).Nonempty := by rect_omega
              have := (Props.C06.contains_iff r _ hup).1 h l c
              apply this
              rect_omega
            · have hlne : (Rect.initBounded r.bottom q.left q.bottom q.right).Nonempty := by rect_omega
              apply ih s _ hlow hlne l c
              rect_omega
        · injection h with h
          exact ⟨r, hr, (Props.C06.contains_iff r q hq).1 h l c hm⟩

theorem intersects_iff (s : List Rect) (q : Rect) (hq : q.Nonempty) (hs : ∀ r ∈ s, r.Nonempty) :
    intersects s q = true ↔ ∃ l c, q.Mem l c ∧ Covered s l c := by
  unfold intersects Covered
  simp only [List.any_eq_true]
  constructor
  · rintro ⟨r, hr, hi⟩
    obtain ⟨l, c, h1, h2⟩ := (Props.C06.intersects_iff r q (hs r hr) hq).1 hi
    exact ⟨l, c, h2, r, hr, h1⟩
  · rintro ⟨l, c, h2, r, hr, h1⟩
    exact ⟨r, hr, (Props.C06.intersects_iff r q (hs r hr) hq).2 ⟨l, c, h1, h2⟩⟩

end RectSet
end Tickit
