import Tickit.Proof.WinFocus
import Tickit.Proof.WinSteps
import Tickit.Proof.WinGeom
import Tickit.Proof.WinClose
/-
  C15, `restore_requested` for the operations that change what the composition shows (show, hide, close, move,
  restack): built on the window engine's damage specification (C01: `hide_step`, `show_step`, `geom_step`,
  `close_step` — "every cell whose owner changes is covered by the damage the operation records").

  Part 1: `cursorSpec` in terms of the painter's model with local coordinates (`WinSpec.ownerAt`).
-/
namespace Tickit
namespace WinFocus
open WinTree WinSpec

/-! ### `WinTree.ownerIn` is `WinSpec.ownerLoc` without the local coordinates -/

theorem findSome_map {α β γ : Type} (f : α → Option β) (g : β → γ) : ∀ (cs : List α),
    cs.findSome? (fun x => (f x).map g) = (cs.findSome? f).map g := by
  intro cs
  induction cs with
  | nil => rfl
  | cons a rest ih =>
    simp only [List.findSome?_cons]
    cases f a with
    | some v => rfl
    | none => simpa using ih

theorem ownerIn_eq_loc (t : Tree) : ∀ (k x : Nat) (l c : Int),
    ownerIn t k x l c = (ownerLoc t k x l c).map (·.1) := by
  intro k
  induction k with
  | zero => intro x l c; rfl
  | succ k ih =>
    intro x l c
    rw [ownerIn, ownerLoc]
    cases t.wins[x]? with
    | none => rfl
    | some w =>
      simp only []
      by_cases h1 : (!w.isVisible || w.freed) = true
      · simp [h1]
      · simp only [h1, Bool.false_eq_true, if_false]
        by_cases h2 : (!w.rect.memb l c) = true
        · simp [h2]
        · simp only [h2, Bool.false_eq_true, if_false]
          have : (fun ch => ownerIn t k ch (l - w.rect.top) (c - w.rect.left)) =
                 (fun ch => (ownerLoc t k ch (l - w.rect.top) (c - w.rect.left)).map (·.1)) := by
            funext ch; exact ih ch _ _
          rw [this, findSome_map]
          cases List.findSome? (fun ch => ownerLoc t k ch (l - w.rect.top) (c - w.rect.left)) w.children <;> rfl

theorem owner_eq_at (t : Tree) (L C : Int) : owner t L C = (ownerAt t L C).map (·.1) :=
  ownerIn_eq_loc t _ 0 L C

/-! ### the local coordinates `ownerLoc` returns are the owner's own -/

theorem absCell_fuel {t : Tree} (h : wfB t = true) : ∀ (f f' x : Nat) (w : Win) (l c : Int), Live t x w → x < f → x < f' →
    absCell t f x l c = absCell t f' x l c := by
  intro f
  induction f with
  | zero => intro f' x w l c _ h1; omega
  | succ f ih =>
    intro f' x w l c hw h1 h2
    cases f' with
    | zero => omega
    | succ f' =>
      cases hp : w.parent with
      | none => rw [absCell_top hw hp, absCell_top hw hp]
      | some p =>
        rw [absCell_parent hw hp, absCell_parent hw hp]
        obtain ⟨hlt, _, pw, hpw, _⟩ := wf_parent h hw hp
        exact ih f' p pw _ _ hpw (by omega) (by omega)

/-- Terminal coordinates of a cell given in the frame of `x`'s parent. -/
def frameAbs (t : Tree) (x : Nat) (l c : Int) : Int × Int :=
  match t.wins[x]? with
  | some w => (match w.parent with
    | some p => absCell t (treeFuel t) p l c
    | none => (l, c))
  | none => (l, c)

theorem absCell_frame {t : Tree} (h : wfB t = true) {x : Nat} {w : Win} (hw : Live t x w) (l c : Int) :
    absCell t (treeFuel t) x l c = frameAbs t x (l + w.rect.top) (c + w.rect.left) := by
  unfold frameAbs
  rw [hw.1]
  cases hp : w.parent with
  | none =>
    simp only [hp]
    show absCell t (t.wins.size + 1) x l c = _
    exact absCell_top hw hp _ l c
  | some p =>
    simp only [hp]
    obtain ⟨hlt, _, pw, hpw, _⟩ := wf_parent h hw hp
    have hx := live_lt hw
    show absCell t (t.wins.size + 1) x l c = absCell t (t.wins.size + 1) p _ _
    rw [absCell_parent hw hp]
    exact absCell_fuel h _ _ p pw _ _ hpw (by omega) (by omega)

theorem findSome_mem' {α β : Type} {f : α → Option β} {b : β} : ∀ (cs : List α), cs.findSome? f = some b →
    ∃ x ∈ cs, f x = some b := findSome_mem

theorem ownerLoc_abs {t : Tree} (h : wfB t = true) : ∀ (k x : Nat) (w : Win) (l c : Int) (o : Nat) (lo co : Int),
    Live t x w → ownerLoc t k x l c = some (o, lo, co) →
    ∃ ow, Live t o ow ∧ absCell t (treeFuel t) o lo co = frameAbs t x l c := by
  intro k
  induction k with
  | zero => intro x w l c o lo co _ ho; simp [ownerLoc] at ho
  | succ k ih =>
    intro x w l c o lo co hw ho
    rw [ownerLoc, hw.1] at ho
    simp only [] at ho
    by_cases h1 : (!w.isVisible || w.freed) = true
    · simp [h1] at ho
    · simp only [h1, Bool.false_eq_true, if_false] at ho
      by_cases h2 : (!w.rect.memb l c) = true
      · simp [h2] at ho
      · simp only [h2, Bool.false_eq_true, if_false] at ho
        cases hf : List.findSome? (fun ch => ownerLoc t k ch (l - w.rect.top) (c - w.rect.left)) w.children with
        | none =>
          rw [hf] at ho
          simp at ho
          obtain ⟨rfl, rfl, rfl⟩ := ho
          refine ⟨w, hw, ?_⟩
          rw [absCell_frame h hw]
          congr 1 <;> omega
        | some v =>
          rw [hf] at ho
          simp at ho
          subst ho
          obtain ⟨ch, hch, hown⟩ := findSome_mem _ hf
          obtain ⟨cw, hcw, hcp⟩ := wf_child h hw hch
          obtain ⟨ow, how, habs⟩ := ih ch cw _ _ o lo co hcw hown
          refine ⟨ow, how, ?_⟩
          rw [habs]
          have : frameAbs t ch (l - w.rect.top) (c - w.rect.left) = absCell t (treeFuel t) x (l - w.rect.top) (c - w.rect.left) := by
            unfold frameAbs; rw [hcw.1]; simp only [hcp]
          rw [this, absCell_frame h hw]
          congr 1 <;> omega

theorem frameAbs_root {t : Tree} (h : wfB t = true) (L C : Int) : frameAbs t 0 L C = (L, C) := by
  obtain ⟨r, hr, _, hp⟩ := wf_root h
  unfold frameAbs; rw [hr.1]; simp only [hp]

/-- `ownerAt` names the owner and the cell in the owner's coordinates: translated back it is the terminal cell. -/
theorem ownerAt_abs {t : Tree} (h : wfB t = true) {L C : Int} {o : Nat} {lo co : Int}
    (ho : ownerAt t L C = some (o, lo, co)) : ∃ ow, Live t o ow ∧ absCell t (treeFuel t) o lo co = (L, C) := by
  obtain ⟨r, hr, _, _⟩ := wf_root h
  obtain ⟨ow, how, habs⟩ := ownerLoc_abs h _ 0 r L C o lo co hr ho
  exact ⟨ow, how, habs.trans (frameAbs_root h L C)⟩

theorem absCell_inj {t : Tree} (h : wfB t = true) {x : Nat} {w : Win} (hw : Live t x w) {l c l' c' : Int}
    (he : absCell t (treeFuel t) x l c = absCell t (treeFuel t) x l' c') : l = l' ∧ c = c' := by
  obtain ⟨g, hg, h1⟩ := absGeometry_spec h hw l c
  obtain ⟨g', hg', h2⟩ := absGeometry_spec h hw l' c'
  have : g = g' := by rw [hg] at hg'; cases hg'; rfl
  subst this
  rw [h1, h2] at he
  simp at he
  omega


/-! ### the owner's ancestors are visible -/

theorem own_path_vis {t : Tree} (h : wfB t = true) : ∀ (fuel a e : Nat) (aw : Win) (l c : Int),
    a < fuel → Live t a aw → Anc t a 0 → Anc t e a →
    own t 0 (absCell t fuel a l c).1 (absCell t fuel a l c).2 = some e →
    own t a (l + aw.rect.top) (c + aw.rect.left) = some e ∧ AncVis t a := by
  intro fuel
  induction fuel with
  | zero => intro a e aw l c hf; omega
  | succ f ih =>
    intro a e aw l c hf ha h0 hea ho
    have hvis_of : own t a (l + aw.rect.top) (c + aw.rect.left) = some e → aw.isVisible = true := by
      intro hown
      have := own_isSome h ha (l + aw.rect.top) (c + aw.rect.left)
      rw [hown] at this
      unfold claimB at this; rw [ha.1] at this
      simp at this; exact this.1.1
    cases hp : aw.parent with
    | none =>
      rw [absCell_top ha hp] at ho
      have := anc_parent_none ha hp h0
      subst this
      refine ⟨ho, ?_⟩
      intro x xw hax hx
      cases hax with
      | refl => rw [live_unique hx ha]; exact hvis_of ho
      | step hw' hp' _ => rw [live_unique hw' ha] at hp'; rw [hp] at hp'; cases hp'
    | some p =>
      rw [absCell_parent ha hp] at ho
      obtain ⟨hlt, _, pw, hpw, _⟩ := wf_parent h ha hp
      obtain ⟨hop, hvp⟩ := ih p e pw _ _ (by omega) hpw (anc_parent_some h ha hp h0) (anc_snoc hea ha hp) ho
      have hown := own_step_down h hpw ha hp hea _ _ hop
      exact ⟨hown, ancVis_child ha hp (hvis_of hown) hvp⟩

/-! ### `cursorSpec` through `ownerAt` -/

/-- The property's "visible at `(L, C)` with shape `s`", through the painter's model with local coordinates: the window
    at the end of the focus chain is focused, its cursor enabled, and the composition shows *its cursor cell* at
    `(L, C)`. -/
def ShownAt (t : Tree) (L C s : Int) : Prop :=
  ∃ w, Live t (chainEnd t (treeFuel t) 0) w ∧ w.isFocused = true ∧ w.cursor.visible = true ∧ s = w.cursor.shape ∧
    ownerAt t L C = some (chainEnd t (treeFuel t) 0, w.cursor.line, w.cursor.col)

theorem allVisible_live {t : Tree} {f x : Nat} {w : Win} (hw : t.wins[x]? = some w) (h : allVisible t f x = true) :
    w.freed = false := by
  cases f with
  | zero => simp [allVisible] at h
  | succ f =>
    rw [allVisible, hw] at h
    simp only [Bool.and_eq_true] at h
    simpa using h.1.2

theorem cursorSpec_some_iff {t : Tree} (h : wfB t = true) (L C s : Int) :
    cursorSpec t = some (L, C, s) ↔ ShownAt t L C s := by
  constructor
  · intro hc
    unfold cursorSpec at hc
    cases hw : t.wins[chainEnd t (treeFuel t) 0]? with
    | none => rw [hw] at hc; cases hc
    | some w =>
      rw [hw] at hc
      simp only [] at hc
      split at hc
      · next hcond =>
        simp only [Bool.and_eq_true, beq_iff_eq] at hcond
        obtain ⟨⟨⟨⟨hf, hall⟩, hcv⟩, _⟩, hown⟩ := hcond
        simp only [Option.some.injEq, Prod.mk.injEq] at hc
        obtain ⟨hL, hC, hs⟩ := hc
        have hlive : Live t (chainEnd t (treeFuel t) 0) w := ⟨hw, allVisible_live hw hall⟩
        rw [hL, hC, owner_eq_at] at hown
        cases hat : ownerAt t L C with
        | none => rw [hat] at hown; cases hown
        | some v =>
          obtain ⟨o, lo, co⟩ := v
          rw [hat] at hown
          simp at hown
          subst hown
          obtain ⟨ow, how, habs⟩ := ownerAt_abs h hat
          have hcell : absCell t (treeFuel t) (chainEnd t (treeFuel t) 0) w.cursor.line w.cursor.col = (L, C) := by
            rw [← hL, ← hC]
          obtain ⟨e1, e2⟩ := absCell_inj h hlive (habs.trans hcell.symm)
          exact ⟨w, hlive, hf, hcv, hs.symm, by rw [← e1, ← e2]; exact hat⟩
      · cases hc
  · rintro ⟨w, hw, hf, hcv, hs, hat⟩
    have hown : owner t L C = some (chainEnd t (treeFuel t) 0) := by rw [owner_eq_at, hat]; rfl
    obtain ⟨ow, how, habs⟩ := ownerAt_abs h hat
    have hef : chainEnd t (treeFuel t) 0 < treeFuel t := Nat.lt_succ_of_lt (live_lt hw)
    obtain ⟨r, hr, _, _⟩ := wf_root h
    have h0 : Anc t (chainEnd t (treeFuel t) 0) 0 :=
      own_within h t.wins.size 0 r L C _ (by omega) hr (by rw [← owner_eq_own]; exact hown)
    have hown' : own t 0 (absCell t (treeFuel t) (chainEnd t (treeFuel t) 0) w.cursor.line w.cursor.col).1
        (absCell t (treeFuel t) (chainEnd t (treeFuel t) 0) w.cursor.line w.cursor.col).2 =
        some (chainEnd t (treeFuel t) 0) := by
      rw [habs, ← owner_eq_own]; exact hown
    obtain ⟨_, hvis⟩ := own_path_vis h _ _ _ w _ _ hef hw h0 (.refl _) hown'
    have hall := (allVisible_iff h _ _ w hef hw h0).mpr hvis
    have hup := own_to_up h _ _ _ w none _ _ hef hw h0 hvis (.refl _) (fun _ => rfl) (fun q hq => by cases hq) hown'
    have hins := upB_insideAll h _ _ w none _ _ hef hw hup
    have := cursorSpec_some_of rfl hw (by
      rw [habs]; simp [hf, hall, hcv, hins, hown])
    rw [this, habs, hs]

/-- Two trees in which the composition shows the cursor cell of the focus holder at the same places specify the same
    terminal cursor. -/
theorem cursorSpec_ext {t t' : Tree} (h : wfB t = true) (h' : wfB t' = true)
    (hs : ∀ L C s, ShownAt t' L C s ↔ ShownAt t L C s) : cursorSpec t' = cursorSpec t := by
  cases h1 : cursorSpec t' with
  | none =>
    cases h2 : cursorSpec t with
    | none => rfl
    | some v =>
      obtain ⟨L, C, s⟩ := v
      have := (hs L C s).mpr ((cursorSpec_some_iff h L C s).mp h2)
      rw [(cursorSpec_some_iff h' L C s).mpr this] at h1; cases h1
  | some v =>
    obtain ⟨L, C, s⟩ := v
    have := (hs L C s).mp ((cursorSpec_some_iff h' L C s).mp h1)
    exact ((cursorSpec_some_iff h L C s).mpr this).symm


/-! ### Part 2: from "every cell whose owner changes is damaged" (C01) to "a restore is pending or `cursorSpec` is
    unchanged" -/

open WinFlush in
/-- The invariants the window engine's step lemmas need, together with ours and the flag discipline. -/
structure Good15 (t : Tree) : Prop where
  wf : wfB t = true
  wfp : WFp t
  rootWin : RootWin t
  onlyRoot : OnlyRoot t
  nodup : ChildrenNodup t
  noSelf : NoSelfParent t
  pos : RootsPositive t
  nonempty : ∀ x ∈ t.root.damage, x.Nonempty
  /-- recorded damage is flagged for the next flush -/
  flagged : t.root.damage ≠ [] → t.root.needsExpose = true
  /-- a pending expose or restore keeps the flush from being skipped -/
  later : (t.root.needsExpose = true ∨ t.root.needsRestore = true) → t.root.needsLater = true

/-- Something is pending that makes the next flush re-establish the cursor. -/
def Pending (t : Tree) : Prop :=
  (t.root.needsRestore = true ∨ t.root.needsExpose = true) ∧ t.root.needsLater = true

/-- The cell a window paints, as a terminal cell that names the window and the position. -/
def encCell (w : Nat) (l c : Int) : WinRB.Cell := ⟨w + 1, l, c, false, false⟩

/-- The screen that shows, in every cell, who owns it in `t`. -/
def snapshot (t : Tree) (L C : Int) : WinRB.Cell :=
  match ownerAt t L C with
  | some (w, l, c) => encCell w l c
  | none => ⟨0, 0, 0, false, false⟩

theorem invC_snapshot (t : Tree) : WinFlush.InvC encCell t (snapshot t) := by
  intro L C w l c ho
  right
  unfold snapshot; rw [ho]

/-- With no damage recorded, "damaged or already right" against the snapshot of `t` says ownership is as in `t`. -/
theorem invC_forward {t t' : Tree} (h : WinFlush.InvC encCell t' (snapshot t)) (hd : t'.root.damage = [])
    {L C : Int} {x : Nat × Int × Int} (ho : ownerAt t' L C = some x) : ownerAt t L C = some x := by
  obtain ⟨w, l, c⟩ := x
  rcases h L C w l c ho with hc | hc
  · rw [hd] at hc; exact absurd hc (RectSet.covered_nil L C)
  · unfold snapshot at hc
    cases hat : ownerAt t L C with
    | none => rw [hat] at hc; simp [encCell] at hc
    | some v =>
      obtain ⟨w', l', c'⟩ := v
      rw [hat] at hc
      simp [encCell] at hc
      obtain ⟨a, b, c⟩ := hc
      subst a b c; rfl

/-- The records along the focus chain of `t` are as they were (links, focus flags, cursor records). -/
def ChainSame (t t' : Tree) : Prop :=
  t'.wins.size = t.wins.size ∧
  ∀ y w, OnChain t y → Live t y w →
    ∃ w', Live t' y w' ∧ w'.focusedChild = w.focusedChild ∧ w'.isFocused = w.isFocused ∧ w'.cursor = w.cursor

theorem chainSame_kept {t t' : Tree} (h : ChainSame t t') (b : Nat) : Kept b t t' :=
  ⟨h.1, fun y w ho hw => by
    obtain ⟨w', hw', h1, h2, _⟩ := h.2 y w ho hw
    exact ⟨w', hw', h1, fun _ hf => h2.trans hf⟩⟩

theorem chainSame_end {t t' : Tree} (hwf : wfB t = true) (h : ChainSame t t') :
    chainEnd t' (treeFuel t') 0 = chainEnd t (treeFuel t) 0 := by
  have hf : treeFuel t' = treeFuel t := by unfold treeFuel; rw [h.1]
  rw [hf]
  exact chainEnd_kept hwf (chainSame_kept h 0) _ 0 .root

/-- What decides whether the root window claims a cell. -/
def rootFace (w : Win) : Bool × Bool × Rect := (w.isVisible, w.freed, w.rect)

theorem ownerAt_isSome_root {t t' : Tree} (hsz : t'.wins.size = t.wins.size)
    (hroot : (t'.wins[0]?).map rootFace = (t.wins[0]?).map rootFace)
    {L C : Int} (h : (ownerAt t L C).isSome = true) : (ownerAt t' L C).isSome = true := by
  unfold ownerAt at h ⊢
  rw [hsz]
  rw [ownerLoc] at h ⊢
  cases hr : t.wins[0]? with
  | none => rw [hr] at h; simp at h
  | some r =>
    rw [hr] at h hroot
    cases hr' : t'.wins[0]? with
    | none => rw [hr'] at hroot; simp at hroot
    | some r' =>
      rw [hr'] at hroot
      simp [rootFace] at hroot
      obtain ⟨e1, e2, e3⟩ := hroot
      simp only [] at h ⊢
      rw [e1, e2, e3]
      by_cases h1 : (!r.isVisible || r.freed) = true
      · simp [h1] at h
      · simp only [h1, Bool.false_eq_true, if_false] at h ⊢
        by_cases h2 : (!r.rect.memb L C) = true
        · simp [h2] at h
        · simp only [h2, Bool.false_eq_true, if_false]
          cases List.findSome? (fun ch => ownerLoc t' t.wins.size ch (L - r.rect.top) (C - r.rect.left)) r'.children <;> rfl

/-- The generic step: an operation that (i) keeps "damaged or already right" against the snapshot of the tree before,
    (ii) either leaves the root record alone or flags an expose, (iii) leaves the root window and the focus chain alone,
    leaves a restore pending or does not change `cursorSpec`. -/
theorem requests_of_step {t t' : Tree} (hg : Good15 t) (hwf' : wfB t' = true)
    (hinv : WinFlush.InvC encCell t' (snapshot t))
    (hflags : (t'.root.damage = t.root.damage ∧ t'.root.needsExpose = t.root.needsExpose ∧
                t'.root.needsLater = t.root.needsLater) ∨ (t'.root.needsExpose = true ∧ t'.root.needsLater = true))
    (hroot : (t'.wins[0]?).map rootFace = (t.wins[0]?).map rootFace) (hchain : ChainSame t t') :
    Pending t' ∨ cursorSpec t' = cursorSpec t := by
  rcases hflags with ⟨hr, hr2, hr3⟩ | ⟨h1, h2⟩
  · by_cases hd : t.root.damage = []
    · right
      have hd' : t'.root.damage = [] := by rw [hr]; exact hd
      have hce := chainSame_end hg.wf hchain
      apply cursorSpec_ext hg.wf hwf'
      intro L C s
      constructor
      · rintro ⟨w', hw', hf, hcv, hs, hat⟩
        rw [hce] at hw' hat
        have hoe : OnChain t (chainEnd t (treeFuel t) 0) := onChain_chainEnd hg.wf _ 0 .root
        obtain ⟨w, hw⟩ := onChain_live hg.wf hoe
        obtain ⟨w'', hw'', _, hf'', hc''⟩ := hchain.2 _ w hoe hw
        have := live_unique hw'' hw'; subst this
        rw [hc''] at hat hcv hs
        exact ⟨w, hw, hf''.symm.trans hf, hcv, hs, invC_forward hinv hd' hat⟩
      · rintro ⟨w, hw, hf, hcv, hs, hat⟩
        have hoe : OnChain t (chainEnd t (treeFuel t) 0) := onChain_chainEnd hg.wf _ 0 .root
        obtain ⟨w', hw', _, hf', hc'⟩ := hchain.2 _ w hoe hw
        have hsome := ownerAt_isSome_root hchain.1 hroot (by rw [hat]; rfl)
        cases hat' : ownerAt t' L C with
        | none => rw [hat'] at hsome; cases hsome
        | some y =>
          have := invC_forward hinv hd' hat'
          rw [hat] at this; cases this
          refine ⟨w', by rw [hce]; exact hw', hf'.trans hf, by rw [hc']; exact hcv, by rw [hc']; exact hs, ?_⟩
          rw [hce, hc']; exact hat'
    · left
      have := hg.flagged hd
      exact ⟨.inr (by rw [hr2]; exact this), by rw [hr3]; exact hg.later (.inl this)⟩
  · exact .inl ⟨.inr h1, h2⟩


/-! ### helpers about the focus chain and `_get_root` -/

theorem chainSame_refl (t : Tree) : ChainSame t t := ⟨rfl, fun _ w _ hw => ⟨w, hw, rfl, rfl, rfl⟩⟩

theorem chainSame_trans {t1 t2 t3 : Tree} (h12 : ChainSame t1 t2) (h23 : ChainSame t2 t3) : ChainSame t1 t3 := by
  refine ⟨h23.1.trans h12.1, fun y w ho hw => ?_⟩
  obtain ⟨w2, hw2, a2, b2, c2⟩ := h12.2 y w ho hw
  obtain ⟨w3, hw3, a3, b3, c3⟩ := h23.2 y w2 (onChain_kept (chainSame_kept h12 0) ho) hw2
  exact ⟨w3, hw3, a3.trans a2, b3.trans b2, c3.trans c2⟩

theorem chainSame_wins {t t' : Tree} (h : t'.wins = t.wins) : ChainSame t t' :=
  ⟨by rw [h], fun y w _ hw => ⟨w, ⟨by rw [h]; exact hw.1, hw.2⟩, rfl, rfl, rfl⟩⟩

/-- Rewriting one window: fine when its link, focus flag and cursor record stay, or when it is not on the chain. -/
theorem chainSame_set {t : Tree} {x : Nat} {w w' : Win} (hw : Live t x w) (hf : w'.freed = false)
    (hc : ¬ OnChain t x ∨ (w'.focusedChild = w.focusedChild ∧ w'.isFocused = w.isFocused ∧ w'.cursor = w.cursor)) :
    ChainSame t (WinTree.set t x w') := by
  refine ⟨by simp [WinTree.set], fun y wy ho hwy => ?_⟩
  by_cases hxy : x = y
  · subst hxy
    have := live_unique hwy hw; subst this
    rcases hc with hc | ⟨h1, h2, h3⟩
    · exact absurd ho hc
    · exact ⟨w', ⟨by rw [set_lookup hw.1]; simp, hf⟩, h1, h2, h3⟩
  · exact ⟨wy, ⟨by rw [set_lookup hw.1]; simp [hxy]; exact hwy.1, hwy.2⟩, rfl, rfl, rfl⟩

/-- Chain windows hang below the root. -/
theorem onChain_anc {t : Tree} (h : wfB t = true) {x : Nat} (ho : OnChain t x) : Anc t x 0 := by
  induction ho with
  | root => exact .refl 0
  | step _ hw hfc ih =>
    obtain ⟨cw, hcw, hcp, _⟩ := wf_focused h hw hfc
    exact .step hcw hcp ih

/-- `_get_root` succeeds on every window below the root window. -/
theorem getRoot_anc {t : Tree} (h : wfB t = true) : ∀ (f x : Nat) (w : Win), x < f → Live t x w → Anc t x 0 →
    getRoot t f x = .ok 0 := by
  intro f
  induction f with
  | zero => intro x w hf; omega
  | succ f ih =>
    intro x w hf hw h0
    rw [getRoot]
    simp only [bind_ok]
    refine ⟨w, get_ok.mpr hw, ?_⟩
    cases hp : w.parent with
    | none =>
      have := anc_parent_none hw hp h0
      subst this
      obtain ⟨r, hr, hroot, _⟩ := wf_root h
      rw [live_unique hw hr]; simp [hroot]; rfl
    | some p =>
      obtain ⟨hlt, hnr, pw, hpw, _⟩ := wf_parent h hw hp
      simp only [hnr, Bool.false_eq_true, if_false]
      exact ih p pw (by omega) hpw (anc_parent_some h hw hp h0)

/-- What `_get_root` reads. -/
def rootWalk (w : Win) : Option Nat × Bool × Bool := (w.parent, w.isRoot, w.freed)

theorem getRoot_congr {t t' : Tree} (h : ∀ i : Nat, (t'.wins[i]?).map rootWalk = (t.wins[i]?).map rootWalk) :
    ∀ (f x : Nat), (∃ r, getRoot t' f x = .ok r) ↔ (∃ r, getRoot t f x = .ok r) := by
  intro f
  induction f with
  | zero => intro x; simp [getRoot]
  | succ f ih =>
    intro x
    rw [getRoot, getRoot]
    have hx := h x
    cases h1 : t.wins[x]? with
    | none =>
      rw [h1] at hx
      cases h2 : t'.wins[x]? with
      | none => simp [WinTree.get, h1, h2, bind]
      | some _ => rw [h2] at hx; simp at hx
    | some w =>
      rw [h1] at hx
      cases h2 : t'.wins[x]? with
      | none => rw [h2] at hx; simp at hx
      | some w' =>
        rw [h2] at hx
        simp [rootWalk] at hx
        obtain ⟨e1, e2, e3⟩ := hx
        simp only [WinTree.get, h1, h2, e3]
        by_cases hfr : w.freed = true
        · simp [hfr, bind]
        · simp only [hfr, Bool.false_eq_true, if_false]
          simp only [bind, e2]
          by_cases hr : w.isRoot = true
          · simp [hr, pure]
          · simp only [hr, Bool.false_eq_true, if_false, e1]
            cases w.parent with
            | none => simp
            | some p => exact ih p


/-! ### `tickit_window_hide` -/

/-- What `tickit_window_hide` does to the store. -/
theorem hide_struct {t t'' : Tree} {fuel win : Nat} {w : Win} (hh : WinTree.hide t fuel win = .ok t'') (hw : Live t win w) :
    (w.parent = none ∧ t'' = WinTree.set t win { w with isVisible := false }) ∨
    (∃ p pw, w.parent = some p ∧ Live (WinTree.set t win { w with isVisible := false }) p pw ∧
      t''.wins = (if pw.focusedChild = some win then
                    WinTree.set (WinTree.set t win { w with isVisible := false }) p { pw with focusedChild := none }
                  else WinTree.set t win { w with isVisible := false }).wins) := by
  unfold WinTree.hide at hh
  simp only [bind_ok] at hh
  obtain ⟨t1, hm, w1, hg1, hh⟩ := hh
  unfold WinTree.modify at hm
  simp only [bind_ok, pure_ok] at hm
  obtain ⟨w0, hg, ht1⟩ := hm
  have := live_unique (get_ok.mp hg) hw; subst this
  subst ht1
  rw [get_set_self hw.1 (by exact hw.2)] at hg1
  cases hg1
  cases hp : w0.parent with
  | none =>
    left
    simp only [hp, pure_ok] at hh
    exact ⟨rfl, hh.symm⟩
  | some p =>
    right
    simp only [hp, bind_ok] at hh
    obtain ⟨pw, hgp, hh⟩ := hh
    obtain ⟨hwins, _, _⟩ := expose_frame _ _ _ _ _ hh
    exact ⟨p, pw, rfl, get_ok.mp hgp, hwins⟩

theorem core_rootFace {a b : Option Win} (h : a.map WinFlush.core = b.map WinFlush.core) : a.map rootFace = b.map rootFace := by
  cases a <;> cases b <;> simp [WinFlush.core, rootFace] at h ⊢
  exact ⟨h.1, h.2.1, h.2.2.1⟩

theorem rootWalk_set {t : Tree} {x : Nat} {w w' : Win} (hw : t.wins[x]? = some w) (hs : rootWalk w' = rootWalk w) :
    ∀ i : Nat, ((WinTree.set t x w').wins[i]?).map rootWalk = (t.wins[i]?).map rootWalk := by
  intro i
  rw [set_lookup hw]
  by_cases hi : x = i
  · subst hi; simp [hw, hs]
  · simp [hi]

/-- `restore_requested` for `tickit_window_hide` (repaired source): afterwards a restore or an expose is pending, or
    `cursorSpec` is what it was. -/
theorem hide_requests {fx : Fixes} (hfx1 : fx.hiddenRoot = true) (hfx2 : fx.chainRestore = true) {t t' : Tree} {win : Nat}
    (hg : Good15 t) (hh : hideWin fx t win = .ok t') : Pending t' ∨ cursorSpec t' = cursorSpec t := by
  unfold hideWin at hh
  simp only [bind_ok] at hh
  obtain ⟨w, hgw, t'', h2, hh⟩ := hh
  have hw := get_ok.mp hgw
  obtain ⟨r0, hr0, hr0f, hr0r, hr0p, _, _⟩ := hg.rootWin.ex
  by_cases h0 : win = 0
  · -- the root window itself
    subst h0
    have := hw.1.symm.trans hr0; simp at this; subst this
    simp only [hfx1, hr0p, hr0r, Option.isNone_none, Bool.and_self, if_true, pure_ok] at hh
    subst hh
    exact .inl ⟨.inl rfl, rfl⟩
  · have hnr : w.isRoot = false := by
      cases hr : w.isRoot with
      | false => rfl
      | true => exact absurd (hg.onlyRoot win w hw.1 hr) h0
    simp only [hnr, Bool.and_false, Bool.false_eq_true, if_false, pure_ok] at hh
    obtain ⟨hinv, _, _, _, _, _, hsz, hflags, t1', hsb, hwins1⟩ :=
      WinFlush.hide_step encCell (snapshot t) t t'' win h2 h0 hg.wfp hg.rootWin hg.nonempty hg.pos (invC_snapshot t)
    have hwf'' := hide_wf hg.wf h2
    have hroot'' : (t''.wins[0]?).map rootFace = (t.wins[0]?).map rootFace := by
      rw [hwins1]; exact core_rootFace (hsb.other 0 (fun h => h0 h.symm))
    -- the first write: visibility only
    have hcs1 : ChainSame t (WinTree.set t win { w with isVisible := false }) :=
      chainSame_set hw (by exact hw.2) (.inr ⟨rfl, rfl, rfl⟩)
    have finish : ∀ tf : Tree, tf.wins = t''.wins → tf.root = t''.root → ChainSame t t'' →
        Pending tf ∨ cursorSpec tf = cursorSpec t := by
      intro tf hwf hrf hcs
      have hInv : WinFlush.InvC encCell tf (snapshot t) := by
        intro L C x l c ho
        rw [WinFlush.ownerAt_congr tf t'' hwf] at ho
        rw [hrf]; exact hinv L C x l c ho
      refine requests_of_step hg (by rw [wfB_wins hwf]; exact hwf'') hInv ?_ (by rw [hwf]; exact hroot'')
        (chainSame_trans hcs (chainSame_wins hwf))
      rcases hflags with h | ⟨a, b, _⟩
      · exact .inl ⟨by rw [hrf, h], by rw [hrf, h], by rw [hrf, h]⟩
      · exact .inr ⟨by rw [hrf]; exact a, by rw [hrf]; exact b⟩
    rcases hide_struct h2 hw with ⟨hp, ht''⟩ | ⟨p, pw, hp, hpw, hwins⟩
    · subst hh
      simp only [hp, chainRestoreAfter]
      exact finish t'' rfl rfl (ht'' ▸ hcs1)
    · have hpne : win ≠ p := by
        intro hc; subst hc
        have := (wf_parent hg.wf hw hp).1; omega
      have hpw0 : t.wins[p]? = some pw := by
        have := hpw.1; rw [set_lookup hw.1] at this; simpa [hpne] using this
      by_cases hfc : pw.focusedChild = some win
      · -- the parent's link is cleared
        simp only [hfc, if_true] at hwins
        have ha : t''.wins[p]? = some { pw with focusedChild := none } := by
          rw [hwins, set_lookup hpw.1]; simp
        subst hh
        simp only [hp, chainRestoreAfter, hpw0, ha, hfx2, hfc, Bool.true_and]
        have hne : (some win ≠ (none : Option Nat)) := by simp
        unfold requestRestoreAbove
        cases hgr : getRoot t'' (treeFuel t'') p with
        | ok r => exact .inl ⟨.inl rfl, rfl⟩
        | ub e =>
          simp only []
          -- then the parent is not below the root, hence not on the focus chain
          have hoff : ¬ OnChain t p := by
            intro ho
            have h1 := getRoot_anc hg.wf (treeFuel t) p pw (Nat.lt_succ_of_lt (live_lt ⟨hpw0, hpw.2⟩)) ⟨hpw0, hpw.2⟩ (onChain_anc hg.wf ho)
            have hcongr : ∀ i : Nat, (t''.wins[i]?).map rootWalk = (t.wins[i]?).map rootWalk := by
              intro i
              rw [hwins, rootWalk_set (w' := { pw with focusedChild := none }) hpw.1 rfl i,
                rootWalk_set (w' := { w with isVisible := false }) hw.1 rfl i]
            have hf : treeFuel t'' = treeFuel t := by unfold treeFuel; rw [hsz]
            have := (getRoot_congr hcongr (treeFuel t) p).mpr ⟨0, h1⟩
            rw [← hf, hgr] at this
            obtain ⟨_, h⟩ := this; cases h
          refine finish t'' rfl rfl ?_
          refine chainSame_trans hcs1 (chainSame_trans (chainSame_set hpw (by exact hpw.2) (.inl ?_)) (chainSame_wins hwins))
          intro ho
          exact hoff (onChain_kept_rev hg.wf (chainSame_kept hcs1 0) ho)
      · simp only [hfc, if_false] at hwins
        have ha : t''.wins[p]? = some pw := by rw [hwins]; exact hpw.1
        subst hh
        simp only [hp, chainRestoreAfter, hpw0, ha, ne_eq, not_true_eq_false, decide_false, Bool.and_false,
          Bool.false_eq_true, if_false]
        exact finish t'' rfl rfl (chainSame_trans hcs1 (chainSame_wins hwins))


/-! ### `tickit_window_show` -/

/-- With the root window hidden nothing is owned and nothing is to be shown. -/
theorem ownerAt_root_hidden {t : Tree} {r : Win} (hr : t.wins[0]? = some r) (hv : r.isVisible = false) (L C : Int) :
    ownerAt t L C = none := by
  unfold ownerAt; rw [ownerLoc, hr]; simp [hv]

theorem cursorSpec_root_hidden {t : Tree} (h : wfB t = true) {r : Win} (hr : t.wins[0]? = some r)
    (hv : r.isVisible = false) : cursorSpec t = none := by
  cases hc : cursorSpec t with
  | none => rfl
  | some v =>
    obtain ⟨L, C, s⟩ := v
    obtain ⟨_, _, _, _, _, hat⟩ := (cursorSpec_some_iff h L C s).mp hc
    rw [ownerAt_root_hidden hr hv] at hat; cases hat

/-- What `tickit_window_show` does to the store. -/
theorem show_struct {t t'' : Tree} {fuel win : Nat} {w : Win} (hh : WinTree.show t fuel win = .ok t'') (hw : Live t win w) :
    (w.parent = none ∧ t''.wins = (WinTree.set t win { w with isVisible := true }).wins) ∨
    (∃ p pw, w.parent = some p ∧ Live (WinTree.set t win { w with isVisible := true }) p pw ∧
      t''.wins = (if pw.focusedChild.isNone && (w.focusedChild.isSome || w.isFocused) then
                    WinTree.set (WinTree.set t win { w with isVisible := true }) p { pw with focusedChild := some win }
                  else WinTree.set t win { w with isVisible := true }).wins) := by
  unfold WinTree.show at hh
  simp only [bind_ok] at hh
  obtain ⟨t1, hm, w1, hg1, hh⟩ := hh
  unfold WinTree.modify at hm
  simp only [bind_ok, pure_ok] at hm
  obtain ⟨w0, hg, ht1⟩ := hm
  have := live_unique (get_ok.mp hg) hw; subst this
  subst ht1
  rw [get_set_self hw.1 (by exact hw.2)] at hg1
  cases hg1
  split at hh
  · next p hp =>
    right
    have hp' : w0.parent = some p := hp
    simp only [bind_ok] at hh
    obtain ⟨pw, hgp, hh⟩ := hh
    refine ⟨p, pw, hp', get_ok.mp hgp, ?_⟩
    split at hh
    · next hc =>
      simp only [bind_ok, pure_ok] at hh
      obtain ⟨t2, ht2, hh⟩ := hh
      subst ht2
      obtain ⟨hwins, _, _⟩ := expose_frame _ _ _ _ _ hh
      rw [hwins]
      have hc' : (pw.focusedChild.isNone && (w0.focusedChild.isSome || w0.isFocused)) = true := hc
      rw [if_pos hc']
    · next hc =>
      simp only [bind_ok, pure_ok] at hh
      obtain ⟨t2, ht2, hh⟩ := hh
      subst ht2
      obtain ⟨hwins, _, _⟩ := expose_frame _ _ _ _ _ hh
      rw [hwins]
      have hc' : ¬ (pw.focusedChild.isNone && (w0.focusedChild.isSome || w0.isFocused)) = true := hc
      rw [if_neg hc']
  · next hp =>
    left
    have hp' : w0.parent = none := hp
    simp only [bind_ok, pure_ok] at hh
    obtain ⟨t2, ht2, hh⟩ := hh
    subst ht2
    obtain ⟨hwins, _, _⟩ := expose_frame _ _ _ _ _ hh
    exact ⟨hp', hwins⟩

/-- `restore_requested` for `tickit_window_show` (repaired source). -/
theorem show_requests {fx : Fixes} (hfx2 : fx.chainRestore = true) {t t' : Tree} {win : Nat}
    (hg : Good15 t) (hh : showWin fx t win = .ok t') : Pending t' ∨ cursorSpec t' = cursorSpec t := by
  unfold showWin at hh
  simp only [bind_ok, pure_ok] at hh
  obtain ⟨w, hgw, t'', h2, hh⟩ := hh
  have hw := get_ok.mp hgw
  obtain ⟨r0, hr0, hr0f, hr0r, hr0p, _, _⟩ := hg.rootWin.ex
  obtain ⟨hinv, _, _, _, _, _, hsz, hflags, t1', hsb, hwins1⟩ :=
    WinFlush.show_step encCell (snapshot t) t t'' win h2 hg.wfp hg.rootWin hg.nonempty hg.pos (invC_snapshot t)
  have hwf'' := show_wf hg.wf h2
  have hwinsf : t'.wins = t''.wins := by rw [← hh]; exact chainRestoreAfter_wins _ _ _ _
  have hwf' : wfB t' = true := by rw [wfB_wins hwinsf]; exact hwf''
  by_cases hrv : r0.isVisible = false
  · -- the root window is hidden: nothing is owned before; whatever is owned afterwards is damaged
    rw [cursorSpec_root_hidden hg.wf hr0 hrv]
    cases hc : cursorSpec t' with
    | none => exact .inr rfl
    | some v =>
      left
      obtain ⟨L, C, s⟩ := v
      obtain ⟨_, _, _, _, _, hat⟩ := (cursorSpec_some_iff hwf' L C s).mp hc
      rw [WinFlush.ownerAt_congr t' t'' hwinsf] at hat
      have hcov : Covered t''.root.damage L C := by
        rcases hinv L C _ _ _ hat with hcv | hcv
        · exact hcv
        · unfold snapshot at hcv; rw [ownerAt_root_hidden hr0 hrv] at hcv; simp [encCell] at hcv
      have hdne : t''.root.damage ≠ [] := by
        intro hd; rw [hd] at hcov; exact RectSet.covered_nil L C hcov
      have hpend'' : Pending t'' := by
        rcases hflags with hr | ⟨a, b, _⟩
        · have := hg.flagged (by rw [← hr]; exact hdne)
          exact ⟨.inr (by rw [hr]; exact this), by rw [hr]; exact hg.later (.inl this)⟩
        · exact ⟨.inr a, b⟩
      -- the repair can only add to what is pending
      rw [← hh]
      unfold chainRestoreAfter
      split
      · exact hpend''
      · split
        · split
          · unfold requestRestoreAbove; split
            · exact ⟨.inl rfl, rfl⟩
            · exact hpend''
          · exact hpend''
        · exact hpend''
  · have hrv' : r0.isVisible = true := by simpa using hrv
    have hroot'' : (t''.wins[0]?).map rootFace = (t.wins[0]?).map rootFace := by
      rw [hwins1]
      by_cases h0 : win = 0
      · subst h0
        have := hsb.self
        rw [hr0] at this ⊢
        cases h1 : t1'.wins[0]? with
        | none => rw [h1] at this; simp at this
        | some r1 =>
          rw [h1] at this
          simp [WinFlush.coreNoVis, rootFace] at this ⊢
          -- visibility: the store after `show` has the root visible, as before
          refine ⟨?_, this.1, this.2.1⟩
          rcases show_struct h2 hw with ⟨_, hw''⟩ | ⟨p, _, hp, _, _⟩
          · have h3 : t''.wins[0]? = some { w with isVisible := true } := by rw [hw'', set_lookup hw.1]; simp
            rw [hwins1, h1] at h3
            cases h3; exact hrv'.symm
          · have := hw.1.symm.trans hr0; simp at this; subst this
            rw [hr0p] at hp; cases hp
      · exact core_rootFace (hsb.other 0 (fun h => h0 h.symm))
    have hcs1 : ChainSame t (WinTree.set t win { w with isVisible := true }) :=
      chainSame_set hw (by exact hw.2) (.inr ⟨rfl, rfl, rfl⟩)
    have finish : ∀ tf : Tree, tf.wins = t''.wins → tf.root = t''.root → ChainSame t t'' →
        Pending tf ∨ cursorSpec tf = cursorSpec t := by
      intro tf hwf hrf hcs
      have hInv : WinFlush.InvC encCell tf (snapshot t) := by
        intro L C x l c ho
        rw [WinFlush.ownerAt_congr tf t'' hwf] at ho
        rw [hrf]; exact hinv L C x l c ho
      refine requests_of_step hg (by rw [wfB_wins hwf]; exact hwf'') hInv ?_ (by rw [hwf]; exact hroot'')
        (chainSame_trans hcs (chainSame_wins hwf))
      rcases hflags with h | ⟨a, b, _⟩
      · exact .inl ⟨by rw [hrf, h], by rw [hrf, h], by rw [hrf, h]⟩
      · exact .inr ⟨by rw [hrf]; exact a, by rw [hrf]; exact b⟩
    rcases show_struct h2 hw with ⟨hp, hw''⟩ | ⟨p, pw, hp, hpw, hwins⟩
    · subst hh
      simp only [hp, chainRestoreAfter]
      exact finish t'' rfl rfl (chainSame_trans hcs1 (chainSame_wins hw''))
    · have hpne : win ≠ p := by
        intro hc; subst hc
        have := (wf_parent hg.wf hw hp).1; omega
      have hpw0 : t.wins[p]? = some pw := by
        have := hpw.1; rw [set_lookup hw.1] at this; simpa [hpne] using this
      by_cases hc : (pw.focusedChild.isNone && (w.focusedChild.isSome || w.isFocused)) = true
      · simp only [hc, if_true] at hwins
        have hfcn : pw.focusedChild = none := by
          simp only [Bool.and_eq_true, Option.isNone_iff_eq_none] at hc; exact hc.1
        have ha : t''.wins[p]? = some { pw with focusedChild := some win } := by
          rw [hwins, set_lookup hpw.1]; simp
        subst hh
        simp only [hp, chainRestoreAfter, hpw0, ha, hfx2, hfcn, Bool.true_and]
        unfold requestRestoreAbove
        cases hgr : getRoot t'' (treeFuel t'') p with
        | ok r => exact .inl ⟨.inl rfl, rfl⟩
        | ub e =>
          simp only []
          have hoff : ¬ OnChain t p := by
            intro ho
            have h1 := getRoot_anc hg.wf (treeFuel t) p pw (Nat.lt_succ_of_lt (live_lt ⟨hpw0, hpw.2⟩)) ⟨hpw0, hpw.2⟩ (onChain_anc hg.wf ho)
            have hcongr : ∀ i : Nat, (t''.wins[i]?).map rootWalk = (t.wins[i]?).map rootWalk := by
              intro i
              rw [hwins, rootWalk_set (w' := { pw with focusedChild := some win }) hpw.1 rfl i,
                rootWalk_set (w' := { w with isVisible := true }) hw.1 rfl i]
            have hf : treeFuel t'' = treeFuel t := by unfold treeFuel; rw [hsz]
            have := (getRoot_congr hcongr (treeFuel t) p).mpr ⟨0, h1⟩
            rw [← hf, hgr] at this
            obtain ⟨_, h⟩ := this; cases h
          refine finish t'' rfl rfl ?_
          refine chainSame_trans hcs1 (chainSame_trans (chainSame_set hpw (by exact hpw.2) (.inl ?_)) (chainSame_wins hwins))
          intro ho
          exact hoff (onChain_kept_rev hg.wf (chainSame_kept hcs1 0) ho)
      · have hc' : (pw.focusedChild.isNone && (w.focusedChild.isSome || w.isFocused)) = false := by simpa using hc
        simp only [hc', Bool.false_eq_true, if_false] at hwins
        have ha : t''.wins[p]? = some pw := by rw [hwins]; exact hpw.1
        subst hh
        simp only [hp, chainRestoreAfter, hpw0, ha, ne_eq, not_true_eq_false, decide_false, Bool.and_false,
          Bool.false_eq_true, if_false]
        exact finish t'' rfl rfl (chainSame_trans hcs1 (chainSame_wins hwins))


/-! ### a geometry change with the exposes of the old and the new area (C01's proviso) -/

theorem setGeometryExposed_wins {t t' : Tree} {fuel win : Nat} {r : Rect} {w : Win}
    (h : WinFlush.setGeometryExposed t fuel win r = .ok t') (hw : Live t win w) :
    t'.wins = t.wins ∨ t'.wins = (WinTree.set t win { w with rect := r }).wins := by
  unfold WinFlush.setGeometryExposed at h
  simp only [bind_ok] at h
  obtain ⟨w0, hg, x, hx, h⟩ := h
  have := live_unique (get_ok.mp hg) hw; subst this
  have hx1 : x.1 = t ∨ x.1 = WinTree.set t win { w0 with rect := r } := by
    unfold setGeometry at hx
    simp only [bind_ok] at hx
    obtain ⟨w1, hg1, hx⟩ := hx
    have := live_unique (get_ok.mp hg1) hw; subst this
    split at hx
    · simp only [pure_ok] at hx; subst hx; exact .inr rfl
    · simp only [pure_ok] at hx; subst hx; exact .inl rfl
  have hwins : t'.wins = x.1.wins := by
    obtain ⟨t1, b⟩ := x
    simp only [] at h
    split at h
    · simp only [bind_ok] at h
      obtain ⟨t2, h2, h3⟩ := h
      obtain ⟨a1, _, _⟩ := expose_frame _ _ _ _ _ h2
      obtain ⟨a2, _, _⟩ := expose_frame _ _ _ _ _ h3
      exact a2.trans a1
    · simp only [pure_ok] at h; subst h; rfl
  rcases hx1 with hx1 | hx1
  · exact .inl (hwins.trans (by rw [hx1]))
  · exact .inr (hwins.trans (by rw [hx1]))

/-- `restore_requested` for a geometry change of any window but the root, followed by the exposes of the old and the
    new area in the parent. -/
theorem move_requests {t t' : Tree} {win : Nat} {r : Rect} (hg : Good15 t) (h0 : win ≠ 0)
    (hh : WinFlush.setGeometryExposed t (treeFuel t) win r = .ok t') (hwf' : wfB t' = true) :
    Pending t' ∨ cursorSpec t' = cursorSpec t := by
  obtain ⟨hinv, _, _, _, _, _, _, hflags, t1', hsb, hwins1⟩ :=
    WinFlush.geom_step encCell (snapshot t) t t' win r hh h0 hg.wfp hg.rootWin hg.onlyRoot hg.nonempty hg.pos
      (invC_snapshot t)
  have hroot : (t'.wins[0]?).map rootFace = (t.wins[0]?).map rootFace := by
    rw [hwins1]; exact core_rootFace (hsb.other 0 (fun h => h0 h.symm))
  have hw : ∃ w, Live t win w := by
    unfold WinFlush.setGeometryExposed at hh
    simp only [bind_ok] at hh
    obtain ⟨w0, hg0, _⟩ := hh
    exact ⟨w0, get_ok.mp hg0⟩
  obtain ⟨w, hw⟩ := hw
  have hcs : ChainSame t t' := by
    rcases setGeometryExposed_wins hh hw with hws | hws
    · exact chainSame_wins hws
    · exact chainSame_trans (chainSame_set (w' := { w with rect := r }) hw (by exact hw.2) (.inr ⟨rfl, rfl, rfl⟩))
        (chainSame_wins hws)
  refine requests_of_step hg hwf' hinv ?_ hroot hcs
  rcases hflags with h | ⟨a, b, _⟩
  · exact .inl ⟨by rw [h], by rw [h], by rw [h]⟩
  · exact .inr ⟨a, b⟩

theorem setGeometryExposed_wf {t t' : Tree} {fuel win : Nat} {r : Rect} (hwf : wfB t = true)
    (h : WinFlush.setGeometryExposed t fuel win r = .ok t') : wfB t' = true := by
  have hw : ∃ w, Live t win w := by
    unfold WinFlush.setGeometryExposed at h
    simp only [bind_ok] at h
    obtain ⟨w0, hg0, _⟩ := h
    exact ⟨w0, get_ok.mp hg0⟩
  obtain ⟨w, hw⟩ := hw
  rcases setGeometryExposed_wins h hw with hws | hws
  · rw [wfB_wins hws]; exact hwf
  · rw [wfB_wins hws]
    exact wfB_set_same (w' := { w with rect := r }) hwf hw.1 rfl rfl rfl


/-! ### `tickit_window_close`: what it does to the store, and that it keeps the store invariant -/

theorem winOk_intro {t : Tree} {j : Nat} {x : Win}
    (hp : ∀ p, x.parent = some p → p < j ∧ x.isRoot = false ∧ ∃ pw, t.wins[p]? = some pw ∧ pw.freed = false ∧ j ∈ pw.children)
    (hc : ∀ c ∈ x.children, ∃ cw, t.wins[c]? = some cw ∧ cw.freed = false ∧ cw.parent = some j)
    (hf : ∀ c, x.focusedChild = some c → ∃ cw, t.wins[c]? = some cw ∧ cw.freed = false ∧ cw.parent = some j ∧ cw.isVisible = true) :
    winOk t j x = true := by
  unfold winOk
  simp only [Bool.and_eq_true, List.all_eq_true]
  refine ⟨⟨?_, ?_⟩, ?_⟩
  · cases hpar : x.parent with
    | none => rfl
    | some p =>
      obtain ⟨h1, h2, pw, h3, h4, h5⟩ := hp p hpar
      simp [h1, h2, h3, h4, h5]
  · intro c hcm
    obtain ⟨cw, h1, h2, h3⟩ := hc c hcm
    simp [h1, h2, h3]
  · cases hfc : x.focusedChild with
    | none => rfl
    | some c =>
      obtain ⟨cw, h1, h2, h3, h4⟩ := hf c hfc
      simp [h1, h2, h3, h4]

/-- The parent's record after REMOVE. -/
def closedParent (pw : Win) (win : Nat) : Win :=
  { pw with children := pw.children.erase win,
            focusedChild := if pw.focusedChild = some win then none else pw.focusedChild }

/-- The store after `tickit_window_close(win)` of a window with a parent. -/
def closedStore (t : Tree) (win p : Nat) (w pw : Win) (i : Nat) : Option Win :=
  if i = win then some { w with parent := none, isClosed := true }
  else if i = p then some (closedParent pw win)
  else t.wins[i]?

theorem close_struct {t t' : Tree} {fuel win : Nat} {w : Win} (hh : WinTree.close t fuel win = .ok t') (hw : Live t win w)
    (hne : ∀ p, w.parent = some p → p ≠ win) :
    t'.wins.size = t.wins.size ∧
    ((w.parent = none ∧ t'.wins = (WinTree.set t win { w with isClosed := true }).wins ∧ t'.root = t.root) ∨
     (∃ p pw, w.parent = some p ∧ Live t p pw ∧ win ∈ pw.children ∧ ∀ i : Nat, t'.wins[i]? = closedStore t win p w pw i)) := by
  unfold WinTree.close at hh
  simp only [bind_ok] at hh
  obtain ⟨w0, hg, hh⟩ := hh
  have := live_unique (get_ok.mp hg) hw; subst this
  split at hh
  · next p hp =>
    simp only [bind_ok] at hh
    obtain ⟨t1, hpurge, t3, hrem, hmod⟩ := hh
    have hw1 : t1.wins = t.wins := (WinFlush.purge_spec t fuel win t1 hpurge).1
    have hpne := hne p hp
    unfold doHierarchyChange at hrem
    simp only [bind_ok, pure_ok] at hrem
    obtain ⟨pw, hgp, w1, _, cs, hcs, w2, hgw2, t2, ht2, hrem⟩ := hrem
    have hpw1 := get_ok.mp hgp
    have hpw : Live t p pw := ⟨by rw [← hw1]; exact hpw1.1, hpw1.2⟩
    obtain ⟨hin, _⟩ := listRemove_mem hcs
    have hcs' : cs = pw.children.erase win := by
      unfold listRemove at hcs; split at hcs
      · cases hcs; rfl
      · cases hcs
    have hw2 : w2 = w0 := by
      have := (get_ok.mp hgw2).1
      rw [set_lookup hpw1.1] at this
      simp only [hpne, if_false] at this
      rw [hw1, hw.1] at this; cases this; rfl
    subst hw2
    have hwins3 : t3.wins = t2.wins := by
      split at hrem
      · obtain ⟨a, _, _⟩ := expose_frame _ _ _ _ _ hrem; exact a
      · simp only [pure_ok] at hrem; subst hrem; rfl
    have hl2 : ∀ i : Nat, t2.wins[i]? =
        if i = win then some { w2 with parent := none }
        else if i = p then some { pw with children := cs, focusedChild := if pw.focusedChild = some win then none else pw.focusedChild }
        else t.wins[i]? := by
      intro i
      rw [← ht2]
      have hwin2 : (WinTree.set t1 p { pw with children := cs, focusedChild := if pw.focusedChild = some win then none else pw.focusedChild }).wins[win]? = some w2 := by
        rw [set_lookup hpw1.1]; simp only [hpne, if_false]; rw [hw1]; exact hw.1
      rw [set_lookup hwin2]
      by_cases hi : i = win
      · subst hi; simp
      · have h1 : ¬ win = i := fun h => hi h.symm
        simp only [h1, hi, if_false]
        rw [set_lookup hpw1.1]
        by_cases hip : i = p
        · subst hip; simp
        · have h2 : ¬ p = i := fun h => hip h.symm
          simp only [h2, hip, if_false]; rw [hw1]
    unfold WinTree.modify at hmod
    simp only [bind_ok, pure_ok] at hmod
    obtain ⟨w4, hg4, hmod⟩ := hmod
    have hw4 : w4 = { w2 with parent := none } := by
      have := (get_ok.mp hg4).1
      rw [hwins3, hl2 win] at this
      simp at this; exact this.symm
    subst hw4
    subst hmod
    have hsz2 : t2.wins.size = t.wins.size := by rw [← ht2]; simp [WinTree.set, hw1]
    refine ⟨?_, .inr ⟨p, pw, hp, hpw, hin, ?_⟩⟩
    · simp [WinTree.set, hwins3, hsz2]
    · intro i
      have hl3 : t3.wins[win]? = some { w2 with parent := none } := by rw [hwins3, hl2 win]; simp
      rw [set_lookup hl3]
      unfold closedStore
      by_cases hi : i = win
      · subst hi; simp
      · have h1 : ¬ win = i := fun h => hi h.symm
        simp only [h1, hi, if_false]
        rw [hwins3, hl2 i]
        simp only [hi, if_false, hcs', closedParent]
  · next hp =>
    simp only [bind_ok, pure_ok] at hh
    obtain ⟨t1, ht1, hmod⟩ := hh
    subst ht1
    unfold WinTree.modify at hmod
    simp only [bind_ok, pure_ok] at hmod
    obtain ⟨w4, hg4, hmod⟩ := hmod
    have := live_unique (get_ok.mp hg4) hw; subst this
    subst hmod
    exact ⟨by simp [WinTree.set], .inl ⟨hp, rfl, rfl⟩⟩


/-- `tickit_window_close` preserves the store invariant (child lists without repetitions). -/
theorem close_wf {t t' : Tree} {fuel win : Nat} (hwf : wfB t = true) (hnd : WinFlush.ChildrenNodup t)
    (hh : WinTree.close t fuel win = .ok t') : wfB t' = true := by
  have hw : ∃ w, Live t win w := by
    unfold WinTree.close at hh
    simp only [bind_ok] at hh
    obtain ⟨w0, hg0, _⟩ := hh
    exact ⟨w0, get_ok.mp hg0⟩
  obtain ⟨w, hw⟩ := hw
  have hne : ∀ p, w.parent = some p → p ≠ win := fun p hp hc => by
    have := (wf_parent hwf hw hp).1
    exact absurd (hc ▸ this) (Nat.lt_irrefl _)
  obtain ⟨_, hcase⟩ := close_struct hh hw hne
  rcases hcase with ⟨_, hwins, _⟩ | ⟨p, pw, hp, hpw, hin, hl⟩
  · rw [wfB_wins hwins]
    exact wfB_set_same (w' := { w with isClosed := true }) hwf hw.1 rfl rfl rfl
  · obtain ⟨hplt, _, _, _, _⟩ := wf_parent hwf hw hp
    have hpne : p ≠ win := hne p hp
    have hlo : ∀ i : Nat, i ≠ win → i ≠ p → t'.wins[i]? = t.wins[i]? := by
      intro i h1 h2; rw [hl i]; unfold closedStore; simp [h1, h2]
    have hlw : t'.wins[win]? = some { w with parent := none, isClosed := true } := by
      rw [hl win]; unfold closedStore; simp
    have hlp : t'.wins[p]? = some (closedParent pw win) := by
      rw [hl p]; unfold closedStore; simp [hpne]
    have hndp : pw.children.Nodup := hnd p pw hpw.1
    have hmem_erase : ∀ c, c ∈ pw.children.erase win ↔ (c ∈ pw.children ∧ c ≠ win) := by
      intro c
      constructor
      · intro hc
        exact ⟨List.mem_of_mem_erase hc, fun h => by subst h; exact (List.Nodup.not_mem_erase hndp) hc⟩
      · rintro ⟨h1, h2⟩; exact (List.mem_erase_of_ne h2).mpr h1
    -- a live window of `t` other than `win`, `p`, seen from the new store
    have look : ∀ (c : Nat) (cw : Win), t.wins[c]? = some cw → c ≠ win →
        ∃ cw', t'.wins[c]? = some cw' ∧ cw'.freed = cw.freed ∧ cw'.parent = cw.parent ∧ cw'.isVisible = cw.isVisible := by
      intro c cw hcw h1
      by_cases h2 : c = p
      · subst h2
        rw [hpw.1] at hcw; cases hcw
        exact ⟨_, hlp, rfl, rfl, rfl⟩
      · exact ⟨cw, by rw [hlo c h1 h2]; exact hcw, rfl, rfl, rfl⟩
    apply wfB_of
    · obtain ⟨r, hr0, h1, h2, h3⟩ := wf_root' hwf
      have h0w : (0 : Nat) ≠ win := by
        intro hc; subst hc
        have := hw.1; rw [hr0] at this; cases this
        rw [h3] at hp; cases hp
      by_cases h0p : (0 : Nat) = p
      · subst h0p
        have := hpw.1; rw [hr0] at this; cases this
        exact ⟨_, hlp, h1, h2, h3⟩
      · exact ⟨r, by rw [hlo 0 h0w h0p]; exact hr0, h1, h2, h3⟩
    · intro j x hx hf
      by_cases hjw : j = win
      · subst hjw
        rw [hlw] at hx; cases hx
        apply winOk_intro
        · intro q hq; cases hq
        · intro c hc
          obtain ⟨cw, hcw, hcp⟩ := wf_child hwf hw hc
          have hlt := (wf_parent hwf hcw hcp).1
          obtain ⟨cw', h1, h2, h3, _⟩ := look c cw hcw.1 (by omega)
          exact ⟨cw', h1, h2.trans hcw.2, h3.trans hcp⟩
        · intro c hc
          obtain ⟨cw, hcw, hcp, hcv⟩ := wf_focused hwf hw hc
          have hlt := (wf_parent hwf hcw hcp).1
          obtain ⟨cw', h1, h2, h3, h4⟩ := look c cw hcw.1 (by omega)
          exact ⟨cw', h1, h2.trans hcw.2, h3.trans hcp, h4.trans hcv⟩
      · by_cases hjp : j = p
        · subst hjp
          rw [hlp] at hx; cases hx
          apply winOk_intro
          · intro q hq
            obtain ⟨h1, h2, qw, hqw, hmem⟩ := wf_parent hwf hpw hq
            have hqne : q ≠ win := Nat.ne_of_lt (Nat.lt_trans h1 hplt)
            have hqnp : q ≠ j := Nat.ne_of_lt h1
            exact ⟨h1, h2, qw, by rw [hlo q hqne hqnp]; exact hqw.1, hqw.2, hmem⟩
          · intro c hc
            obtain ⟨hc1, hc2⟩ := (hmem_erase c).mp hc
            obtain ⟨cw, hcw, hcp⟩ := wf_child hwf hpw hc1
            obtain ⟨cw', h1, h2, h3, _⟩ := look c cw hcw.1 hc2
            exact ⟨cw', h1, h2.trans hcw.2, h3.trans hcp⟩
          · intro c hc
            unfold closedParent at hc
            by_cases hfw : pw.focusedChild = some win
            · simp [hfw] at hc
            · simp only [hfw, if_false] at hc
              obtain ⟨cw, hcw, hcp, hcv⟩ := wf_focused hwf hpw hc
              have hcne : c ≠ win := fun h => hfw (h ▸ hc)
              obtain ⟨cw', h1, h2, h3, h4⟩ := look c cw hcw.1 hcne
              exact ⟨cw', h1, h2.trans hcw.2, h3.trans hcp, h4.trans hcv⟩
        · rw [hlo j hjw hjp] at hx
          have hxl : Live t j x := ⟨hx, hf⟩
          apply winOk_intro
          · intro q hq
            obtain ⟨h1, h2, qw, hqw, hmem⟩ := wf_parent hwf hxl hq
            by_cases hqw' : q = win
            · subst hqw'
              have := live_unique hqw hw; subst this
              exact ⟨h1, h2, _, hlw, hw.2, hmem⟩
            · by_cases hqp : q = p
              · subst hqp
                have := live_unique hqw hpw; subst this
                exact ⟨h1, h2, _, hlp, hpw.2, (hmem_erase j).mpr ⟨hmem, hjw⟩⟩
              · exact ⟨h1, h2, qw, by rw [hlo q hqw' hqp]; exact hqw.1, hqw.2, hmem⟩
          · intro c hc
            obtain ⟨cw, hcw, hcp⟩ := wf_child hwf hxl hc
            have hcne : c ≠ win := by
              intro h; subst h
              have := live_unique hcw hw; subst this
              rw [hp] at hcp; cases hcp; exact hjp rfl
            obtain ⟨cw', h1, h2, h3, _⟩ := look c cw hcw.1 hcne
            exact ⟨cw', h1, h2.trans hcw.2, h3.trans hcp⟩
          · intro c hc
            obtain ⟨cw, hcw, hcp, hcv⟩ := wf_focused hwf hxl hc
            have hcne : c ≠ win := by
              intro h; subst h
              have := live_unique hcw hw; subst this
              rw [hp] at hcp; cases hcp; exact hjp rfl
            obtain ⟨cw', h1, h2, h3, h4⟩ := look c cw hcw.1 hcne
            exact ⟨cw', h1, h2.trans hcw.2, h3.trans hcp, h4.trans hcv⟩


/-- `tickit_window_expose` leaves the tree as it is, or flags an expose. -/
theorem expose_same_or_flagged : ∀ (fuel : Nat) (t : Tree) (win : Nat) (r : Option Rect) (t' : Tree),
    expose t fuel win r = .ok t' → t' = t ∨ (t'.root.needsExpose = true ∧ t'.root.needsLater = true) := by
  intro fuel
  induction fuel with
  | zero => intro t win r t' h; simp [expose] at h
  | succ f ih =>
    intro t win r t' h
    rw [expose] at h
    simp only [bind_ok] at h
    obtain ⟨w, _, h⟩ := h
    split at h
    · simp only [pure_ok] at h; exact .inl h.symm
    · split at h
      · simp only [pure_ok] at h; exact .inl h.symm
      · split at h
        · split at h
          · simp only [pure_ok] at h; exact .inl h.symm
          · exact ih _ _ _ _ h
        · split at h
          · cases h
          · simp only [pure_ok] at h; exact .inl h.symm
          · split at h
            · cases h
            · simp only [pure_ok] at h; subst h; exact .inr ⟨rfl, rfl⟩

theorem close_flags {t t' : Tree} {fuel win : Nat} (hh : WinTree.close t fuel win = .ok t') :
    (t'.root.damage = t.root.damage ∧ t'.root.needsExpose = t.root.needsExpose ∧ t'.root.needsLater = t.root.needsLater) ∨
    (t'.root.needsExpose = true ∧ t'.root.needsLater = true) := by
  unfold WinTree.close at hh
  simp only [bind_ok] at hh
  obtain ⟨w0, hg, hh⟩ := hh
  have hmodroot : ∀ (ta tb : Tree), WinTree.modify ta win (fun w => { w with isClosed := true }) = .ok tb → tb.root = ta.root := by
    intro ta tb hm
    unfold WinTree.modify at hm
    simp only [bind_ok, pure_ok] at hm
    obtain ⟨_, _, hm⟩ := hm
    subst hm; rfl
  split at hh
  · simp only [bind_ok] at hh
    obtain ⟨t1, hpurge, t3, hrem, hmod⟩ := hh
    obtain ⟨_, hd1, he1, hl1, _⟩ := WinFlush.purge_spec t fuel win t1 hpurge
    rw [hmodroot _ _ hmod]
    unfold doHierarchyChange at hrem
    simp only [bind_ok, pure_ok] at hrem
    obtain ⟨pw, _, w1, _, cs, _, w2, _, t2, ht2, hrem⟩ := hrem
    have hr2 : t2.root = t1.root := by rw [← ht2]; rfl
    split at hrem
    · rcases expose_same_or_flagged _ _ _ _ _ hrem with h | h
      · rw [h, hr2]; exact .inl ⟨hd1, he1, hl1⟩
      · exact .inr h
    · simp only [pure_ok] at hrem; subst hrem
      rw [hr2]; exact .inl ⟨hd1, he1, hl1⟩
  · simp only [bind_ok, pure_ok] at hh
    obtain ⟨t1, ht1, hmod⟩ := hh
    subst ht1
    rw [hmodroot _ _ hmod]; exact .inl ⟨rfl, rfl, rfl⟩

/-- Windows below the root stay below it when nothing above them is rewritten. -/
theorem anc_transfer_below {t t' : Tree} {win : Nat}
    (hlook : ∀ (c : Nat) (cw : Win), Live t c cw → c ≠ win → ∃ cw', Live t' c cw' ∧ cw'.parent = cw.parent)
    (hwf : wfB t = true) : ∀ {x : Nat}, x < win → Anc t x 0 → Anc t' x 0 := by
  intro x hx ha
  generalize hz : (0 : Nat) = z at ha
  induction ha with
  | refl => exact .refl _
  | @step o p y w hw hp _ ih =>
    have hlt := (wf_parent hwf hw hp).1
    obtain ⟨w', hw', hp'⟩ := hlook o w hw (Nat.ne_of_lt hx)
    exact .step hw' (hp'.trans hp) (ih (Nat.lt_trans hlt hx) hz)

/-- `restore_requested` for `tickit_window_close` (repaired source). -/
theorem close_requests {fx : Fixes} (hfx2 : fx.chainRestore = true) {t t' : Tree} {win : Nat}
    (hg : Good15 t) (hh : closeWin fx t win = .ok t') : Pending t' ∨ cursorSpec t' = cursorSpec t := by
  unfold closeWin at hh
  simp only [bind_ok, pure_ok] at hh
  obtain ⟨w, hgw, t'', h2, hh⟩ := hh
  have hw := get_ok.mp hgw
  obtain ⟨r0, hr0, hr0f, hr0r, hr0p, hr0t, hr0l⟩ := hg.rootWin.ex
  have hne : ∀ p, w.parent = some p → p ≠ win := fun p hp hc => by
    have := (wf_parent hg.wf hw hp).1
    exact absurd (hc ▸ this) (Nat.lt_irrefl _)
  obtain ⟨hsz, hcase⟩ := close_struct h2 hw hne
  have hwf'' := close_wf hg.wf hg.nodup h2
  have hwinsf : t'.wins = t''.wins := by rw [← hh]; exact chainRestoreAfter_wins _ _ _ _
  have hwf' : wfB t' = true := by rw [wfB_wins hwinsf]; exact hwf''
  rcases hcase with ⟨hp, hwins, hroot⟩ | ⟨p, pw, hp, hpw, hin, hl⟩
  · -- no parent: only the `closed` mark is written
    right
    subst hh
    simp only [hp, chainRestoreAfter]
    have hag : Agree t (WinTree.set t win { w with isClosed := true }) := agree_set hw.1 rfl
    rw [cursorSpec_wins hwins]
    apply cursorSpec_agree hag
    intro a a' ha ha'
    left
    rw [set_lookup hw.1] at ha'
    by_cases he : win = chainEnd t (treeFuel t) 0
    · simp only [he, if_true] at ha'
      rw [← he, hw.1] at ha; cases ha; cases ha'; exact ⟨rfl, rfl⟩
    · simp only [he, if_false] at ha'
      rw [ha] at ha'; cases ha'; exact ⟨rfl, rfl⟩
  · have hplt := (wf_parent hg.wf hw hp).1
    have hpne : p ≠ win := hne p hp
    have h0 : win ≠ 0 := fun h => by subst h; omega
    have hlo : ∀ i : Nat, i ≠ win → i ≠ p → t''.wins[i]? = t.wins[i]? := by
      intro i h1 h2'; rw [hl i]; unfold closedStore; simp [h1, h2']
    have hlw : t''.wins[win]? = some { w with parent := none, isClosed := true } := by
      rw [hl win]; unfold closedStore; simp
    have hlp : t''.wins[p]? = some (closedParent pw win) := by
      rw [hl p]; unfold closedStore; simp [hpne]
    have hface : (t''.wins[0]?).map rootFace = (t.wins[0]?).map rootFace := by
      by_cases h0p : (0 : Nat) = p
      · subst h0p
        have := hpw.1; rw [hr0] at this; cases this
        rw [hlp, hr0]; rfl
      · rw [hlo 0 (fun h => h0 h.symm) h0p]
    by_cases hrv : r0.isVisible = false
    · -- hidden root: nothing to show before or after
      right
      rw [cursorSpec_root_hidden hg.wf hr0 hrv]
      have : ∃ r', t'.wins[0]? = some r' ∧ r'.isVisible = false := by
        rw [hwinsf]
        have := hface
        rw [hr0] at this
        cases h1 : t''.wins[0]? with
        | none => rw [h1] at this; simp at this
        | some r' =>
          rw [h1] at this; simp [rootFace] at this
          exact ⟨r', rfl, this.1.trans hrv⟩
      obtain ⟨r', hr', hv'⟩ := this
      exact cursorSpec_root_hidden hwf' hr' hv'
    · have hrv' : r0.isVisible = true := by simpa using hrv
      obtain ⟨hinv, _, _, _, _, _, _, _⟩ :=
        WinFlush.close_step encCell (snapshot t) t t'' win h2 h0
          ⟨hg.wfp, hg.nodup, hg.noSelf, hg.onlyRoot, hg.rootWin⟩ ⟨⟨r0, hr0, hr0f, hrv', hr0t, hr0l⟩⟩
          hg.nonempty hg.pos (invC_snapshot t)
      have hflags := close_flags h2
      -- the chain: `win` keeps its link and flags; the parent's link may be cleared
      have chain_of : (pw.focusedChild = some win → ¬ OnChain t p) → ChainSame t t'' := by
        intro hoff
        refine ⟨hsz, fun y wy ho hwy => ?_⟩
        by_cases hyw : y = win
        · subst hyw
          have := live_unique hwy hw; subst this
          exact ⟨_, ⟨hlw, hw.2⟩, rfl, rfl, rfl⟩
        · by_cases hyp : y = p
          · subst hyp
            have := live_unique hwy hpw; subst this
            refine ⟨_, ⟨hlp, hpw.2⟩, ?_, rfl, rfl⟩
            unfold closedParent
            by_cases hfw : wy.focusedChild = some win
            · exact absurd ho (hoff hfw)
            · simp [hfw]
          · exact ⟨wy, ⟨by rw [hlo y hyw hyp]; exact hwy.1, hwy.2⟩, rfl, rfl, rfl⟩
      have finish : ∀ tf : Tree, tf.wins = t''.wins → tf.root = t''.root → ChainSame t t'' →
          Pending tf ∨ cursorSpec tf = cursorSpec t := by
        intro tf hwf hrf hcs
        have hInv : WinFlush.InvC encCell tf (snapshot t) := by
          intro L C x l c ho
          rw [WinFlush.ownerAt_congr tf t'' hwf] at ho
          rw [hrf]; exact hinv L C x l c ho
        refine requests_of_step hg (by rw [wfB_wins hwf]; exact hwf'') hInv ?_ (by rw [hwf]; exact hface)
          (chainSame_trans hcs (chainSame_wins hwf))
        rw [hrf]; exact hflags
      by_cases hfc : pw.focusedChild = some win
      · have ha : (closedParent pw win).focusedChild = none := by unfold closedParent; simp [hfc]
        subst hh
        simp only [hp, chainRestoreAfter, hpw.1, hlp, hfx2, hfc, ha, Bool.true_and]
        unfold requestRestoreAbove
        cases hgr : getRoot t'' (treeFuel t'') p with
        | ok r => exact .inl ⟨.inl rfl, rfl⟩
        | ub e =>
          simp only []
          have hoff : ¬ OnChain t p := by
            intro ho
            have hlook : ∀ (c : Nat) (cw : Win), Live t c cw → c ≠ win → ∃ cw', Live t'' c cw' ∧ cw'.parent = cw.parent := by
              intro c cw hcw h1
              by_cases h2' : c = p
              · subst h2'
                have := live_unique hcw hpw; subst this
                exact ⟨_, ⟨hlp, hpw.2⟩, rfl⟩
              · exact ⟨cw, ⟨by rw [hlo c h1 h2']; exact hcw.1, hcw.2⟩, rfl⟩
            have hanc := anc_transfer_below hlook hg.wf hplt (onChain_anc hg.wf ho)
            have hlt'' : p < treeFuel t'' := by
              unfold treeFuel; rw [hsz]; exact Nat.lt_succ_of_lt (live_lt hpw)
            have := getRoot_anc hwf'' (treeFuel t'') p _ hlt'' ⟨hlp, hpw.2⟩ hanc
            rw [hgr] at this; cases this
          exact finish t'' rfl rfl (chain_of (fun _ => hoff))
      · have ha : (closedParent pw win).focusedChild = pw.focusedChild := by unfold closedParent; simp [hfc]
        subst hh
        simp only [hp, chainRestoreAfter, hpw.1, hlp, ha, ne_eq, not_true_eq_false, decide_false, Bool.and_false,
          Bool.false_eq_true, if_false]
        exact finish t'' rfl rfl (chain_of (fun h => absurd h hfc))


/-! ### `take_focus` in `Requests` form: a restore is requested, or nothing the specification reads has changed -/

/-- What the composition reads of a window (`WinFlush.view`). -/
def vw (w : Win) : Bool × Bool × Rect × List Nat := (w.isVisible, w.freed, w.rect, w.children)

/-- Same composition-relevant fields, same root record. -/
def SameVW (t t' : Tree) : Prop := t'.root = t.root ∧ ∀ i : Nat, (t'.wins[i]?).map vw = (t.wins[i]?).map vw

theorem sameVW_refl (t : Tree) : SameVW t t := ⟨rfl, fun _ => rfl⟩
theorem sameVW_trans {a b c : Tree} (h1 : SameVW a b) (h2 : SameVW b c) : SameVW a c :=
  ⟨h2.1.trans h1.1, fun i => (h2.2 i).trans (h1.2 i)⟩

theorem sameVW_set {t : Tree} {i : Nat} {w w' : Win} (hw : t.wins[i]? = some w) (hs : vw w' = vw w) :
    SameVW t (WinTree.set t i w') := by
  refine ⟨rfl, fun j => ?_⟩
  simp only [WinTree.set, Array.getElem?_setIfInBounds]
  by_cases hij : i = j
  · subst hij
    have hi : i < t.wins.size := (Array.getElem?_eq_some_iff.mp hw).1
    rw [hw]; simp [hi, hs]
  · simp [hij]

theorem focusLostSelf_vw {t : Tree} {win : Nat} {evs : List Event} {r : Tree × List Event}
    (h : focusLostSelf t win evs = .ok r) : SameVW t r.1 := by
  simp only [focusLostSelf, bind_ok] at h
  obtain ⟨w, hg, h⟩ := h
  split at h
  · simp only [pure_ok] at h; subst h; exact sameVW_set (get_ok.mp hg).1 rfl
  · simp only [pure_ok] at h; subst h; exact sameVW_refl _

theorem focusLost_vw : ∀ (fuel : Nat) (t : Tree) (win : Nat) (r : Tree × List Event),
    focusLost fuel t win = .ok r → SameVW t r.1 := by
  intro fuel
  induction fuel with
  | zero => intro t win r h; simp [focusLost] at h
  | succ n ih =>
    intro t win r h
    simp only [focusLost, bind_ok] at h
    obtain ⟨r1, h1, h2⟩ := h
    have hs1 : SameVW t r1.1 := by
      simp only [focusLostChild, bind_ok] at h1
      obtain ⟨w, _, h1⟩ := h1
      split at h1
      · simp only [pure_ok] at h1; subst h1; exact sameVW_refl _
      · simp only [bind_ok, pure_ok] at h1
        obtain ⟨r0, h0, w', _, h1⟩ := h1
        subst h1
        exact ih _ _ r0 h0
    exact sameVW_trans hs1 (focusLostSelf_vw h2)

theorem gainLoseOld_vw {fx : Fixes} {t : Tree} {win : Nat} {child : Option Nat} {r : Tree × List Event}
    (h : gainLoseOld fx t win child = .ok r) : SameVW t r.1 := by
  simp only [gainLoseOld, bind_ok] at h
  obtain ⟨w, _, h⟩ := h
  split at h
  · simp only [pure_ok] at h; subst h; exact sameVW_refl _
  · split at h
    · simp only [bind_ok, pure_ok] at h
      obtain ⟨r0, h0, w', _, h⟩ := h
      subst h
      exact focusLost_vw _ _ _ r0 h0
    · simp only [pure_ok] at h; subst h; exact sameVW_refl _

theorem gainSelfOut_vw {fx : Fixes} {t : Tree} {win : Nat} {child : Option Nat} {evs : List Event}
    {r : Tree × List Event} (h : gainSelfOut fx t win child evs = .ok r) : SameVW t r.1 := by
  simp only [gainSelfOut, bind_ok] at h
  obtain ⟨w, hg, h⟩ := h
  split at h
  · simp only [pure_ok] at h; subst h; exact sameVW_set (get_ok.mp hg).1 rfl
  · simp only [pure_ok] at h; subst h; exact sameVW_refl _

theorem gainSelfIn_vw {t : Tree} {win : Nat} {child : Option Nat} {evs : List Event}
    {r : Tree × List Event} (h : gainSelfIn t win child evs = .ok r) : SameVW t r.1 := by
  simp only [gainSelfIn, bind_ok] at h
  obtain ⟨w, hg, h⟩ := h
  split at h
  · simp only [pure_ok] at h; subst h; exact sameVW_set (get_ok.mp hg).1 rfl
  · simp only [pure_ok] at h; subst h; exact sameVW_set (get_ok.mp hg).1 rfl

/-- The window part of `SameVW`, through a whole `_focus_gained` (which may write the root record). -/
theorem focusGained_vww (fx : Fixes) : ∀ (fuel : Nat) (t : Tree) (win : Nat) (child : Option Nat)
    (r : Tree × List Event), focusGained fx fuel t win child = .ok r →
    ∀ i : Nat, (r.1.wins[i]?).map vw = (t.wins[i]?).map vw := by
  intro fuel
  induction fuel with
  | zero => intro t win child r h; simp [focusGained] at h
  | succ n ih =>
    intro t win child r h i
    simp only [focusGained, bind_ok] at h
    obtain ⟨r1, h1, r2, h2, r3, h3, h4⟩ := h
    have hs2 : SameVW t r2.1 := sameVW_trans (gainLoseOld_vw h1) (gainSelfOut_vw h2)
    have hs3 : (r3.1.wins[i]?).map vw = (r2.1.wins[i]?).map vw := by
      simp only [gainClimb, bind_ok] at h3
      obtain ⟨w, _, h3⟩ := h3
      split at h3
      · split at h3
        · exact ih _ _ _ _ h3 i
        · simp only [pure_ok] at h3; subst h3; rfl
      · simp only [bind_ok, pure_ok] at h3
        obtain ⟨t', ht', h3⟩ := h3
        subst h3
        unfold requestRestoreOf at ht'
        simp only [bind_ok, pure_ok] at ht'
        obtain ⟨_, _, ht'⟩ := ht'
        subst ht'; rfl
    rw [(gainSelfIn_vw h4).2 i, hs3, hs2.2 i]


theorem onChain_parent {t : Tree} (h : wfB t = true) {x p : Nat} {w : Win} (ho : OnChain t x) (hw : Live t x w)
    (hp : w.parent = some p) : OnChain t p ∧ w.isVisible = true := by
  cases ho with
  | root =>
    obtain ⟨r, hr, _, hrp⟩ := wf_root h
    rw [live_unique hw hr] at hp; rw [hrp] at hp; cases hp
  | step hop hpw hfc =>
    obtain ⟨cw, hcw, hcp, hcv⟩ := wf_focused h hpw hfc
    have := live_unique hcw hw; subst this
    rw [hcp] at hp; cases hp
    exact ⟨hop, hcv⟩

theorem onChain_up {t : Tree} (h : wfB t = true) {z a : Nat} (ha : Anc t z a) (ho : OnChain t z) : OnChain t a := by
  induction ha with
  | refl => exact ho
  | step hw hp _ ih => exact ih (onChain_parent h ho hw hp).1

theorem fcChain_anc {t : Tree} (h : wfB t = true) {g z : Nat} (hc : FcChain t g z) : Anc t z g := by
  induction hc with
  | here => exact .refl _
  | down hw hfc _ ih =>
    obtain ⟨cw, hcw, hcp, _⟩ := wf_focused h hw hfc
    exact anc_snoc ih hcw hcp

/-- Rewriting a window that is not on the focus chain of `t`, in a store that still has that chain. -/
theorem chainSame_set_off {t ta : Tree} (hwf : wfB t = true) (hcs : ChainSame t ta) {x : Nat} {w w' : Win}
    (hoff : ¬ OnChain t x) (hw : Live ta x w) (hf : w'.freed = false) : ChainSame t (WinTree.set ta x w') :=
  chainSame_trans hcs (chainSame_set hw hf (.inl (fun ho => hoff (onChain_kept_rev hwf (chainSame_kept hcs 0) ho))))

/-- `_focus_lost` on a branch that is not part of the focus chain from the root leaves that chain alone. -/
theorem focusLost_chainSame {t : Tree} (hwf : wfB t = true) : ∀ (fuel : Nat) (g : Nat) (r : Tree × List Event),
    focusLost fuel t g = .ok r → (∀ z, FcChain t g z → ¬ OnChain t z) → ChainSame t r.1 ∧ r.1.root = t.root := by
  intro fuel
  induction fuel with
  | zero => intro g r h; simp [focusLost] at h
  | succ n ih =>
    intro g r h hoff
    simp only [focusLost, bind_ok] at h
    obtain ⟨r1, h1, h2⟩ := h
    have h1' : ChainSame t r1.1 ∧ r1.1.root = t.root := by
      simp only [focusLostChild, bind_ok] at h1
      obtain ⟨w, hg, h1⟩ := h1
      split at h1
      · simp only [pure_ok] at h1; subst h1; exact ⟨chainSame_refl _, rfl⟩
      · next c hfc =>
        simp only [bind_ok, pure_ok] at h1
        obtain ⟨r0, h0, w', _, h1⟩ := h1
        subst h1
        exact ih c r0 h0 (fun z hz => hoff z (.down (get_ok.mp hg) hfc hz))
    simp only [focusLostSelf, bind_ok] at h2
    obtain ⟨w, hg, h2⟩ := h2
    split at h2
    · simp only [pure_ok] at h2; subst h2
      exact ⟨chainSame_set_off hwf h1'.1 (hoff g (.here g)) (get_ok.mp hg) (by exact (get_ok.mp hg).2), h1'.2⟩
    · simp only [pure_ok] at h2; subst h2; exact h1'

/-- Once the climb of `_focus_gained` is on the focus chain it reaches the root window and requests the restore. -/
theorem gained_on_chain_requests (fx : Fixes) : ∀ (fuel : Nat) (t : Tree) (x : Nat) (child : Option Nat)
    (r : Tree × List Event), focusGained fx fuel t x child = .ok r → wfB t = true → OnChain t x →
    r.1.root.needsRestore = true ∧ r.1.root.needsLater = true := by
  intro fuel
  induction fuel with
  | zero => intro t x child r h; simp [focusGained] at h
  | succ n ih =>
    intro t x child r h hwf hon
    simp only [focusGained, bind_ok] at h
    obtain ⟨r1, h1, r2, h2, r3, h3, h4⟩ := h
    have s12 : SameLK t r2.1 := sameLK_trans (gainLoseOld_lk h1) (gainSelfOut_lk h2)
    have hwf2 := gainSelfOut_wf (gainLoseOld_wf hwf h1) h2
    have hon2 := onChain_lk s12 hon
    have hr3 : r3.1.root.needsRestore = true ∧ r3.1.root.needsLater = true := by
      simp only [gainClimb, bind_ok] at h3
      obtain ⟨w, hg, h3⟩ := h3
      have hw := get_ok.mp hg
      split at h3
      · next p hp =>
        obtain ⟨hop, hv⟩ := onChain_parent hwf2 hon2 hw hp
        simp only [hv, if_true] at h3
        exact ih _ _ _ _ h3 hwf2 hop
      · simp only [bind_ok, pure_ok] at h3
        obtain ⟨t', ht', h3⟩ := h3
        subst h3
        unfold requestRestoreOf at ht'
        simp only [bind_ok, pure_ok] at ht'
        obtain ⟨_, _, ht'⟩ := ht'
        subst ht'
        exact ⟨rfl, rfl⟩
    rw [(gainSelfIn_pv h4).1]; exact hr3

/-- `_focus_gained`: a restore is requested, or the focus chain from the root and the root record are untouched. -/
theorem gained_requests_or_same (fx : Fixes) : ∀ (fuel : Nat) (t : Tree) (x : Nat) (child : Option Nat)
    (r : Tree × List Event), focusGained fx fuel t x child = .ok r → wfB t = true →
    (r.1.root.needsRestore = true ∧ r.1.root.needsLater = true) ∨ (ChainSame t r.1 ∧ r.1.root = t.root) := by
  intro fuel
  induction fuel with
  | zero => intro t x child r h; simp [focusGained] at h
  | succ n ih =>
    intro t x child r h hwf
    by_cases hon : OnChain t x
    · exact .inl (gained_on_chain_requests fx _ t x child r h hwf hon)
    · simp only [focusGained, bind_ok] at h
      obtain ⟨r1, h1, r2, h2, r3, h3, h4⟩ := h
      have hwf1 := gainLoseOld_wf hwf h1
      have hwf2 := gainSelfOut_wf hwf1 h2
      -- the old branch below `x` is off the chain
      have c1 : ChainSame t r1.1 ∧ r1.1.root = t.root := by
        simp only [gainLoseOld, bind_ok] at h1
        obtain ⟨w, hg, h1⟩ := h1
        split at h1
        · simp only [pure_ok] at h1; subst h1; exact ⟨chainSame_refl _, rfl⟩
        · next fc hfc =>
          split at h1
          · simp only [bind_ok, pure_ok] at h1
            obtain ⟨r0, h0, w', _, h1⟩ := h1
            subst h1
            refine focusLost_chainSame hwf _ fc r0 h0 (fun z hz hoz => hon ?_)
            obtain ⟨cw, hcw, hcp, _⟩ := wf_focused hwf (get_ok.mp hg) hfc
            exact onChain_up hwf (anc_snoc (fcChain_anc hwf hz) hcw hcp) hoz
          · simp only [pure_ok] at h1; subst h1; exact ⟨chainSame_refl _, rfl⟩
      have c2 : ChainSame t r2.1 ∧ r2.1.root = t.root := by
        simp only [gainSelfOut, bind_ok] at h2
        obtain ⟨w, hg, h2⟩ := h2
        split at h2
        · simp only [pure_ok] at h2; subst h2
          exact ⟨chainSame_set_off hwf c1.1 hon (get_ok.mp hg) (by exact (get_ok.mp hg).2), c1.2⟩
        · simp only [pure_ok] at h2; subst h2; exact c1
      have c3 : (r3.1.root.needsRestore = true ∧ r3.1.root.needsLater = true) ∨ (ChainSame t r3.1 ∧ r3.1.root = t.root) := by
        simp only [gainClimb, bind_ok] at h3
        obtain ⟨w, hg, h3⟩ := h3
        split at h3
        · split at h3
          · rcases ih _ _ _ _ h3 hwf2 with hreq | ⟨hcs, hroot⟩
            · exact .inl hreq
            · exact .inr ⟨chainSame_trans c2.1 hcs, hroot.trans c2.2⟩
          · simp only [pure_ok] at h3; subst h3; exact .inr c2
        · simp only [bind_ok, pure_ok] at h3
          obtain ⟨t', ht', h3⟩ := h3
          subst h3
          unfold requestRestoreOf at ht'
          simp only [bind_ok, pure_ok] at ht'
          obtain ⟨_, _, ht'⟩ := ht'
          subst ht'
          exact .inl ⟨rfl, rfl⟩
      have hroot4 := (gainSelfIn_pv h4).1
      rcases c3 with hreq | ⟨hcs, hroot⟩
      · exact .inl (by rw [hroot4]; exact hreq)
      · right
        refine ⟨?_, hroot4.trans hroot⟩
        simp only [gainSelfIn, bind_ok] at h4
        obtain ⟨w, hg, h4⟩ := h4
        split at h4
        · simp only [pure_ok] at h4; subst h4
          exact chainSame_set_off hwf hcs hon (get_ok.mp hg) (by exact (get_ok.mp hg).2)
        · simp only [pure_ok] at h4; subst h4
          exact chainSame_set_off hwf hcs hon (get_ok.mp hg) (by exact (get_ok.mp hg).2)

/-- `restore_requested` for `take_focus` in full: also below an invisible ancestor, where nothing is requested and
    nothing the specification reads has changed. -/
theorem takeFocus_requests {fx : Fixes} {t : Tree} {win : Nat} {r : Tree × List Event} (hwf : wfB t = true)
    (h : takeFocus fx t win = .ok r) : Pending r.1 ∨ cursorSpec r.1 = cursorSpec t := by
  rcases gained_requests_or_same fx _ t win none r h hwf with ⟨a, b⟩ | ⟨hcs, hroot⟩
  · exact .inl ⟨.inl a, b⟩
  · right
    have hwf' := takeFocus_wf hwf h
    have hview := focusGained_vww fx _ _ _ _ _ h
    have hat : ∀ L C, ownerAt r.1 L C = ownerAt t L C :=
      fun L C => WinFlush.ownerAt_congr_view (fun x => hview x) hcs.1 L C
    have hce := chainSame_end hwf hcs
    have hoe : OnChain t (chainEnd t (treeFuel t) 0) := onChain_chainEnd hwf _ 0 .root
    obtain ⟨w, hw⟩ := onChain_live hwf hoe
    obtain ⟨w', hw', _, hf', hc'⟩ := hcs.2 _ w hoe hw
    apply cursorSpec_ext hwf hwf'
    intro L C s
    constructor
    · rintro ⟨w2, hw2, hf, hcv, hs, hown⟩
      rw [hce] at hw2 hown
      have := live_unique hw2 hw'; subst this
      rw [hat, hc'] at hown
      exact ⟨w, hw, hf'.symm.trans hf, by rw [← hc']; exact hcv, by rw [← hc']; exact hs, hown⟩
    · rintro ⟨w2, hw2, hf, hcv, hs, hown⟩
      have := live_unique hw2 hw; subst this
      refine ⟨w', by rw [hce]; exact hw', hf'.trans hf, by rw [hc']; exact hcv, by rw [hc']; exact hs, ?_⟩
      rw [hce, hat, hc']; exact hown

/-! ### the invariants, executably (for the driver's run-time check and the kernel-checked examples) -/

/-- What `Good15` asks of one slot of the store (freed slots included, as in the window engine's `WFp`). -/
def slotOk (t : Tree) (i : Nat) (w : Win) : Bool :=
  w.children.all (fun ch => match t.wins[ch]? with | some cw => cw.parent == some i && !cw.isRoot | none => false) &&
  decide w.children.Nodup && (w.parent != some i) && (!w.isRoot || i == 0) &&
  (!w.isRoot || (decide (0 < w.rect.lines) && decide (0 < w.rect.cols)))

def good15B (t : Tree) : Bool :=
  wfB t &&
  (List.range t.wins.size).all (fun i => match t.wins[i]? with | some w => slotOk t i w | none => true) &&
  (match t.wins[0]? with
   | some r => !r.freed && r.isRoot && r.parent.isNone && r.rect.top == 0 && r.rect.left == 0
   | none => false) &&
  t.root.damage.all (fun x => decide x.Nonempty) &&
  (t.root.damage.isEmpty || t.root.needsExpose) &&
  (!(t.root.needsExpose || t.root.needsRestore) || t.root.needsLater)

theorem good15_of_B {t : Tree} (h : good15B t = true) : Good15 t := by
  unfold good15B at h
  simp only [Bool.and_eq_true] at h
  obtain ⟨⟨⟨⟨⟨hwf, hslots⟩, hroot⟩, hdmg⟩, hflag⟩, hlater⟩ := h
  have hslot : ∀ (i : Nat) (w : Win), t.wins[i]? = some w → slotOk t i w = true := by
    intro i w hw
    have hi : i < t.wins.size := (Array.getElem?_eq_some_iff.mp hw).1
    have := (List.all_eq_true.mp hslots) i (List.mem_range.mpr hi)
    rw [hw] at this; exact this
  have hparts : ∀ (i : Nat) (w : Win), t.wins[i]? = some w →
      (∀ ch ∈ w.children, ∃ cw, t.wins[ch]? = some cw ∧ cw.parent = some i ∧ cw.isRoot = false) ∧
      w.children.Nodup ∧ w.parent ≠ some i ∧ (w.isRoot = true → i = 0) ∧
      (w.isRoot = true → 0 < w.rect.lines ∧ 0 < w.rect.cols) := by
    intro i w hw
    have := hslot i w hw
    unfold slotOk at this
    simp only [Bool.and_eq_true, List.all_eq_true, decide_eq_true_eq, bne_iff_ne, ne_eq, Bool.or_eq_true,
      Bool.not_eq_true', beq_iff_eq] at this
    obtain ⟨⟨⟨⟨h1, h2⟩, h3⟩, h4⟩, h5⟩ := this
    refine ⟨fun ch hch => ?_, h2, h3, fun hr => ?_, fun hr => ?_⟩
    · have := h1 ch hch
      cases hcw : t.wins[ch]? with
      | none => rw [hcw] at this; simp at this
      | some cw => rw [hcw] at this; simp at this; exact ⟨cw, rfl, this.1, this.2⟩
    · rcases h4 with h4 | h4
      · rw [hr] at h4; cases h4
      · exact h4
    · rcases h5 with h5 | h5
      · rw [hr] at h5; cases h5
      · exact h5
  refine { wf := hwf
           wfp := ⟨fun cur w hw ch hch => (hparts cur w hw).1 ch hch⟩
           rootWin := ?_
           onlyRoot := fun x w hw hr => (hparts x w hw).2.2.2.1 hr
           nodup := fun cur w hw => (hparts cur w hw).2.1
           noSelf := fun x w hw => (hparts x w hw).2.2.1
           pos := fun i w hw hr => (hparts i w hw).2.2.2.2 hr
           nonempty := fun x hx => by
             have := (List.all_eq_true.mp hdmg) x hx
             simpa using this
           flagged := fun hd => by
             rcases Bool.or_eq_true_iff.mp hflag with h | h
             · exact absurd (List.isEmpty_iff.mp h) hd
             · exact h
           later := fun hp => by
             rcases Bool.or_eq_true_iff.mp hlater with h | h
             · rcases hp with hp | hp <;> simp [hp] at h
             · exact h }
  cases hr : t.wins[0]? with
  | none => rw [hr] at hroot; cases hroot
  | some r =>
    rw [hr] at hroot
    simp only [Bool.and_eq_true, Bool.not_eq_true', Option.isNone_iff_eq_none, beq_iff_eq] at hroot
    exact ⟨⟨r, hr, hroot.1.1.1.1, hroot.1.1.1.2, hroot.1.1.2, hroot.1.2, hroot.2⟩⟩

end WinFocus
end Tickit
