import Tickit.Proof.WinFocus
import Tickit.Proof.WinSteps
import Tickit.Proof.WinGeom
import Tickit.Proof.WinClose
/-
  C15, `restore_requested` for the operations that change what the composition shows (show, hide, close, move,
  restack): built on the window engine's damage specification (C01: `hide_step`, `show_step`, `geom_step`,
  `close_step` — "every cell whose owner changes is covered by the damage the operation records").

  Part 1: `cursorSpec` in terms of the painter's model with local coordinates (`WinSpec.ownerAt`).
-/
namespace Tickit
namespace WinFocus
open WinTree WinSpec

/-! ### `WinTree.ownerIn` is `WinSpec.ownerLoc` without the local coordinates -/

theorem findSome_map {α β γ : Type} (f : α → Option β) (g : β → γ) : ∀ (cs : List α),
    cs.findSome? (fun x => (f x).map g) = (cs.findSome? f).map g := by
  intro cs
  induction cs with
  | nil => rfl
  | cons a rest ih =>
    simp only [List.findSome?_cons]
    cases f a with
    | some v => rfl
    | none => simpa using ih

theorem ownerIn_eq_loc (t : Tree) : ∀ (k x : Nat) (l c : Int),
    ownerIn t k x l c = (ownerLoc t k x l c).map (·.1) := by
  intro k
  induction k with
  | zero => intro x l c; rfl
  | succ k ih =>
    intro x l c
    rw [ownerIn, ownerLoc]
    cases t.wins[x]? with
    | none => rfl
    | some w =>
      simp only []
      by_cases h1 : (!w.isVisible || w.freed) = true
      · simp [h1]
      · simp only [h1, Bool.false_eq_true, if_false]
        by_cases h2 : (!w.rect.memb l c) = true
        · simp [h2]
        · simp only [h2, Bool.false_eq_true, if_false]
          have : (fun ch => ownerIn t k ch (l - w.rect.top) (c - w.rect.left)) =
                 (fun ch => (ownerLoc t k ch (l - w.rect.top) (c - w.rect.left)).map (·.1)) := by
            funext ch; exact ih ch _ _
          rw [this, findSome_map]
          cases List.findSome? (fun ch => ownerLoc t k ch (l - w.rect.top) (c - w.rect.left)) w.children <;> rfl

theorem owner_eq_at (t : Tree) (L C : Int) : owner t L C = (ownerAt t L C).map (·.1) :=
  ownerIn_eq_loc t _ 0 L C

/-! ### the local coordinates `ownerLoc` returns are the owner's own -/

theorem absCell_fuel {t : Tree} (h : wfB t = true) : ∀ (f f' x : Nat) (w : Win) (l c : Int), Live t x w → x < f → x < f' →
    absCell t f x l c = absCell t f' x l c := by
  intro f
  induction f with
  | zero => intro f' x w l c _ h1; omega
  | succ f ih =>
    intro f' x w l c hw h1 h2
    cases f' with
    | zero => omega
    | succ f' =>
      cases hp : w.parent with
      | none => rw [absCell_top hw hp, absCell_top hw hp]
      | some p =>
        rw [absCell_parent hw hp, absCell_parent hw hp]
        obtain ⟨hlt, _, pw, hpw, _⟩ := wf_parent h hw hp
        exact ih f' p pw _ _ hpw (by omega) (by omega)

/-- Terminal coordinates of a cell given in the frame of `x`'s parent. -/
def frameAbs (t : Tree) (x : Nat) (l c : Int) : Int × Int :=
  match t.wins[x]? with
  | some w => (match w.parent with
    | some p => absCell t (treeFuel t) p l c
    | none => (l, c))
  | none => (l, c)

theorem absCell_frame {t : Tree} (h : wfB t = true) {x : Nat} {w : Win} (hw : Live t x w) (l c : Int) :
    absCell t (treeFuel t) x l c = frameAbs t x (l + w.rect.top) (c + w.rect.left) := by
  unfold frameAbs
  rw [hw.1]
  cases hp : w.parent with
  | none =>
    simp only [hp]
    show absCell t (t.wins.size + 1) x l c = _
    exact absCell_top hw hp _ l c
  | some p =>
    simp only [hp]
    obtain ⟨hlt, _, pw, hpw, _⟩ := wf_parent h hw hp
    have hx := live_lt hw
    show absCell t (t.wins.size + 1) x l c = absCell t (t.wins.size + 1) p _ _
    rw [absCell_parent hw hp]
    exact absCell_fuel h _ _ p pw _ _ hpw (by omega) (by omega)

theorem findSome_mem' {α β : Type} {f : α → Option β} {b : β} : ∀ (cs : List α), cs.findSome? f = some b →
    ∃ x ∈ cs, f x = some b := findSome_mem

theorem ownerLoc_abs {t : Tree} (h : wfB t = true) : ∀ (k x : Nat) (w : Win) (l c : Int) (o : Nat) (lo co : Int),
    Live t x w → ownerLoc t k x l c = some (o, lo, co) →
    ∃ ow, Live t o ow ∧ absCell t (treeFuel t) o lo co = frameAbs t x l c := by
  intro k
  induction k with
  | zero => intro x w l c o lo co _ ho; simp [ownerLoc] at ho
  | succ k ih =>
    intro x w l c o lo co hw ho
    rw [ownerLoc, hw.1] at ho
    simp only [] at ho
    by_cases h1 : (!w.isVisible || w.freed) = true
    · simp [h1] at ho
    · simp only [h1, Bool.false_eq_true, if_false] at ho
      by_cases h2 : (!w.rect.memb l c) = true
      · simp [h2] at ho
      · simp only [h2, Bool.false_eq_true, if_false] at ho
        cases hf : List.findSome? (fun ch => ownerLoc t k ch (l - w.rect.top) (c - w.rect.left)) w.children with
        | none =>
          rw [hf] at ho
          simp at ho
          obtain ⟨rfl, rfl, rfl⟩ := ho
          refine ⟨w, hw, ?_⟩
          rw [absCell_frame h hw]
          congr 1 <;> omega
        | some v =>
          rw [hf] at ho
          simp at ho
          subst ho
          obtain ⟨ch, hch, hown⟩ := findSome_mem _ hf
          obtain ⟨cw, hcw, hcp⟩ := wf_child h hw hch
          obtain ⟨ow, how, habs⟩ := ih ch cw _ _ o lo co hcw hown
          refine ⟨ow, how, ?_⟩
          rw [habs]
          have : frameAbs t ch (l - w.rect.top) (c - w.rect.left) = absCell t (treeFuel t) x (l - w.rect.top) (c - w.rect.left) := by
            unfold frameAbs; rw [hcw.1]; simp only [hcp]
          rw [this, absCell_frame h hw]
          congr 1 <;> omega

theorem frameAbs_root {t : Tree} (h : wfB t = true) (L C : Int) : frameAbs t 0 L C = (L, C) := by
  obtain ⟨r, hr, _, hp⟩ := wf_root h
  unfold frameAbs; rw [hr.1]; simp only [hp]

/-- `ownerAt` names the owner and the cell in the owner's coordinates: translated back it is the terminal cell. -/
theorem ownerAt_abs {t : Tree} (h : wfB t = true) {L C : Int} {o : Nat} {lo co : Int}
    (ho : ownerAt t L C = some (o, lo, co)) : ∃ ow, Live t o ow ∧ absCell t (treeFuel t) o lo co = (L, C) := by
  obtain ⟨r, hr, _, _⟩ := wf_root h
  obtain ⟨ow, how, habs⟩ := ownerLoc_abs h _ 0 r L C o lo co hr ho
  exact ⟨ow, how, habs.trans (frameAbs_root h L C)⟩

theorem absCell_inj {t : Tree} (h : wfB t = true) {x : Nat} {w : Win} (hw : Live t x w) {l c l' c' : Int}
    (he : absCell t (treeFuel t) x l c = absCell t (treeFuel t) x l' c') : l = l' ∧ c = c' := by
  obtain ⟨g, hg, h1⟩ := absGeometry_spec h hw l c
  obtain ⟨g', hg', h2⟩ := absGeometry_spec h hw l' c'
  have : g = g' := by rw [hg] at hg'; cases hg'; rfl
  subst this
  rw [h1, h2] at he
  simp at he
  omega


/-! ### the owner's ancestors are visible -/

theorem own_path_vis {t : Tree} (h : wfB t = true) : ∀ (fuel a e : Nat) (aw : Win) (l c : Int),
    a < fuel → Live t a aw → Anc t a 0 → Anc t e a →
    own t 0 (absCell t fuel a l c).1 (absCell t fuel a l c).2 = some e →
    own t a (l + aw.rect.top) (c + aw.rect.left) = some e ∧ AncVis t a := by
  intro fuel
  induction fuel with
  | zero => intro a e aw l c hf; omega
  | succ f ih =>
    intro a e aw l c hf ha h0 hea ho
    have hvis_of : own t a (l + aw.rect.top) (c + aw.rect.left) = some e → aw.isVisible = true := by
      intro hown
      have := own_isSome h ha (l + aw.rect.top) (c + aw.rect.left)
      rw [hown] at this
      unfold claimB at this; rw [ha.1] at this
      simp at this; exact this.1.1
    cases hp : aw.parent with
    | none =>
      rw [absCell_top ha hp] at ho
      have := anc_parent_none ha hp h0
      subst this
      refine ⟨ho, ?_⟩
      intro x xw hax hx
      cases hax with
      | refl => rw [live_unique hx ha]; exact hvis_of ho
      | step hw' hp' _ => rw [live_unique hw' ha] at hp'; rw [hp] at hp'; cases hp'
    | some p =>
      rw [absCell_parent ha hp] at ho
      obtain ⟨hlt, _, pw, hpw, _⟩ := wf_parent h ha hp
      obtain ⟨hop, hvp⟩ := ih p e pw _ _ (by omega) hpw (anc_parent_some h ha hp h0) (anc_snoc hea ha hp) ho
      have hown := own_step_down h hpw ha hp hea _ _ hop
      exact ⟨hown, ancVis_child ha hp (hvis_of hown) hvp⟩

/-! ### `cursorSpec` through `ownerAt` -/

/-- The property's "visible at `(L, C)` with shape `s`", through the painter's model with local coordinates: the window
    at the end of the focus chain is focused, its cursor enabled, and the composition shows *its cursor cell* at
    `(L, C)`. -/
def ShownAt (t : Tree) (L C s : Int) : Prop :=
  ∃ w, Live t (chainEnd t (treeFuel t) 0) w ∧ w.isFocused = true ∧ w.cursor.visible = true ∧ s = w.cursor.shape ∧
    ownerAt t L C = some (chainEnd t (treeFuel t) 0, w.cursor.line, w.cursor.col)

theorem allVisible_live {t : Tree} {f x : Nat} {w : Win} (hw : t.wins[x]? = some w) (h : allVisible t f x = true) :
    w.freed = false := by
  cases f with
  | zero => simp [allVisible] at h
  | succ f =>
    rw [allVisible, hw] at h
    simp only [Bool.and_eq_true] at h
    simpa using h.1.2

theorem cursorSpec_some_iff {t : Tree} (h : wfB t = true) (L C s : Int) :
    cursorSpec t = some (L, C, s) ↔ ShownAt t L C s := by
  constructor
  · intro hc
    unfold cursorSpec at hc
    cases hw : t.wins[chainEnd t (treeFuel t) 0]? with
    | none => rw [hw] at hc; cases hc
    | some w =>
      rw [hw] at hc
      simp only [] at hc
      split at hc
      · next hcond =>
        simp only [Bool.and_eq_true, beq_iff_eq] at hcond
        obtain ⟨⟨⟨⟨hf, hall⟩, hcv⟩, _⟩, hown⟩ := hcond
        simp only [Option.some.injEq, Prod.mk.injEq] at hc
        obtain ⟨hL, hC, hs⟩ := hc
        have hlive : Live t (chainEnd t (treeFuel t) 0) w := ⟨hw, allVisible_live hw hall⟩
        rw [hL, hC, owner_eq_at] at hown
        cases hat : ownerAt t L C with
        | none => rw [hat] at hown; cases hown
        | some v =>
          obtain ⟨o, lo, co⟩ := v
          rw [hat] at hown
          simp at hown
          subst hown
          obtain ⟨ow, how, habs⟩ := ownerAt_abs h hat
          have hcell : absCell t (treeFuel t) (chainEnd t (treeFuel t) 0) w.cursor.line w.cursor.col = (L, C) := by
            rw [← hL, ← hC]
          obtain ⟨e1, e2⟩ := absCell_inj h hlive (habs.trans hcell.symm)
          exact ⟨w, hlive, hf, hcv, hs.symm, by rw [← e1, ← e2]; exact hat⟩
      · cases hc
  · rintro ⟨w, hw, hf, hcv, hs, hat⟩
    have hown : owner t L C = some (chainEnd t (treeFuel t) 0) := by rw [owner_eq_at, hat]; rfl
    obtain ⟨ow, how, habs⟩ := ownerAt_abs h hat
    have hef : chainEnd t (treeFuel t) 0 < treeFuel t := Nat.lt_succ_of_lt (live_lt hw)
    obtain ⟨r, hr, _, _⟩ := wf_root h
    have h0 : Anc t (chainEnd t (treeFuel t) 0) 0 :=
      own_within h t.wins.size 0 r L C _ (by omega) hr (by rw [← owner_eq_own]; exact hown)
    have hown' : own t 0 (absCell t (treeFuel t) (chainEnd t (treeFuel t) 0) w.cursor.line w.cursor.col).1
        (absCell t (treeFuel t) (chainEnd t (treeFuel t) 0) w.cursor.line w.cursor.col).2 =
        some (chainEnd t (treeFuel t) 0) := by
      rw [habs, ← owner_eq_own]; exact hown
    obtain ⟨_, hvis⟩ := own_path_vis h _ _ _ w _ _ hef hw h0 (.refl _) hown'
    have hall := (allVisible_iff h _ _ w hef hw h0).mpr hvis
    have hup := own_to_up h _ _ _ w none _ _ hef hw h0 hvis (.refl _) (fun _ => rfl) (fun q hq => by cases hq) hown'
    have hins := upB_insideAll h _ _ w none _ _ hef hw hup
    have := cursorSpec_some_of rfl hw (by
      rw [habs]; simp [hf, hall, hcv, hins, hown])
    rw [this, habs, hs]

/-- Two trees in which the composition shows the cursor cell of the focus holder at the same places specify the same
    terminal cursor. -/
theorem cursorSpec_ext {t t' : Tree} (h : wfB t = true) (h' : wfB t' = true)
    (hs : ∀ L C s, ShownAt t' L C s ↔ ShownAt t L C s) : cursorSpec t' = cursorSpec t := by
  cases h1 : cursorSpec t' with
  | none =>
    cases h2 : cursorSpec t with
    | none => rfl
    | some v =>
      obtain ⟨L, C, s⟩ := v
      have := (hs L C s).mpr ((cursorSpec_some_iff h L C s).mp h2)
      rw [(cursorSpec_some_iff h' L C s).mpr this] at h1; cases h1
  | some v =>
    obtain ⟨L, C, s⟩ := v
    have := (hs L C s).mp ((cursorSpec_some_iff h' L C s).mp h1)
    exact ((cursorSpec_some_iff h L C s).mpr this).symm

end WinFocus
end Tickit
