import Tickit.Model.TermPen
/-
  Proof/Sgr.lean — helper lemmas for C10.

  1. `%d` round trip: the VT parser reads back the number `showNat` printed.
  2. The parser on `ESC [ … m` as rendered by the xterm driver yields the groups `groupsOf colon comps`.
  3. The SGR interpreter on the groups of each attribute: the per-attribute effect.
-/
namespace Tickit.Proof.Sgr
open Tickit.Sgr Tickit.TermPen

/-! ### 1. digits -/

theorem digitsRev_lt (f n : Nat) : ∀ d ∈ digitsRev f n, d < 10 := by
  induction f generalizing n with
  | zero => intro d hd; simp [digitsRev] at hd
  | succ f ih =>
    intro d hd
    unfold digitsRev at hd
    split at hd
    · simp at hd; omega
    · simp at hd
      rcases hd with h | h
      · omega
      · exact ih _ _ h

theorem digitsRev_foldr (f n : Nat) (h : n < f) :
    (digitsRev f n).foldr (fun d acc => acc * 10 + d) 0 = n := by
  induction f generalizing n with
  | zero => omega
  | succ f ih =>
    unfold digitsRev
    split
    · simp
    · simp only [List.foldr_cons]
      rw [ih (n / 10) (by omega)]
      omega

theorem digitsRev_ne_nil (f n : Nat) : digitsRev (f + 1) n ≠ [] := by
  unfold digitsRev
  split <;> simp

/-- the number the parser holds after reading the digits `ds` -/
def accum (ds : List Nat) (num : Option Nat) : Option Nat :=
  ds.foldl (fun o d => some (o.getD 0 * 10 + d)) num

theorem accum_some (ds : List Nat) (x : Nat) :
    accum ds (some x) = some (ds.foldl (fun a d => a * 10 + d) x) := by
  induction ds generalizing x with
  | nil => rfl
  | cons d ds ih => simp [accum] at *; exact ih _

theorem accum_none (ds : List Nat) (h : ds ≠ []) :
    accum ds none = some (ds.foldl (fun a d => a * 10 + d) 0) := by
  cases ds with
  | nil => exact absurd rfl h
  | cons d ds =>
    have := accum_some ds (0 * 10 + d)
    simpa [accum] using this

theorem run_digits (ds : List Nat) (hd : ∀ d ∈ ds, d < 10) (priv : Bool) (gs : List Group) (cur : Group)
    (num : Option Nat) (inter : Bool) (a : Attrs) :
    run (ds.map (· + 48)) ⟨.csi priv gs cur num inter, a⟩ = ⟨.csi priv gs cur (accum ds num) inter, a⟩ := by
  induction ds generalizing num with
  | nil => rfl
  | cons d ds ih =>
    have hlt : d < 10 := hd d (by simp)
    simp only [List.map_cons, run, List.foldl_cons]
    have hfeed : feed ⟨.csi priv gs cur num inter, a⟩ (d + 48) =
        ⟨.csi priv gs cur (some (num.getD 0 * 10 + d)) inter, a⟩ := by
      simp only [feed]
      rw [if_pos (show 48 ≤ d + 48 ∧ d + 48 ≤ 57 by omega)]
      simp
    rw [hfeed]
    have := ih (fun x hx => hd x (by simp [hx])) (some (num.getD 0 * 10 + d))
    simpa [run, accum] using this

/-- The parser reads back what `%d` printed. -/
theorem run_showNat (n : Nat) (priv : Bool) (gs : List Group) (cur : Group) (inter : Bool) (a : Attrs) :
    run (showNat n) ⟨.csi priv gs cur none inter, a⟩ = ⟨.csi priv gs cur (some n) inter, a⟩ := by
  unfold showNat
  rw [run_digits _ (by
    intro d hd
    exact digitsRev_lt _ _ d (by simpa using hd))]
  congr
  rw [accum_none _ (by simpa using digitsRev_ne_nil n n)]
  rw [List.foldl_reverse]
  simpa using digitsRev_foldr (n + 1) n (by omega)

/-! ### 2. the parser on a rendered parameter vector -/

/-- What the parser has collected when it reaches the final byte, as a function of `params[]`. -/
def groupsFlat (colon : Bool) : List Param → List Group → Group → List Group
  | [], gs, cur => gs ++ [cur ++ [none]]
  | [p], gs, cur => gs ++ [cur ++ [some p.val]]
  | p :: q :: rest, gs, cur =>
    if p.more && colon then groupsFlat colon (q :: rest) gs (cur ++ [some p.val])
    else groupsFlat colon (q :: rest) (gs ++ [cur ++ [some p.val]]) []

theorem feed_colon (priv : Bool) (gs : List Group) (cur : Group) (num : Option Nat) (inter : Bool) (a : Attrs) :
    feed ⟨.csi priv gs cur num inter, a⟩ 58 = ⟨.csi priv gs (cur ++ [num]) none inter, a⟩ := by
  simp [feed]

theorem feed_semi (priv : Bool) (gs : List Group) (cur : Group) (num : Option Nat) (inter : Bool) (a : Attrs) :
    feed ⟨.csi priv gs cur num inter, a⟩ 59 = ⟨.csi priv (gs ++ [cur ++ [num]]) [] none inter, a⟩ := by
  simp [feed]

theorem run_renderBody (colon : Bool) (ps : List Param) (priv : Bool) (gs : List Group) (cur : Group)
    (inter : Bool) (a : Attrs) :
    ∃ gs' cur' num', run (renderBody colon ps) ⟨.csi priv gs cur none inter, a⟩ = ⟨.csi priv gs' cur' num' inter, a⟩ ∧
      gs' ++ [cur' ++ [num']] = groupsFlat colon ps gs cur := by
  induction ps generalizing gs cur with
  | nil => exact ⟨gs, cur, none, rfl, rfl⟩
  | cons p tl ih =>
    cases tl with
    | nil =>
      refine ⟨gs, cur, some p.val, ?_, rfl⟩
      simp only [renderBody]
      exact run_showNat _ _ _ _ _ _
    | cons q rest =>
      simp only [renderBody, run_append, run_showNat]
      by_cases h : (p.more && colon) = true
      · simp only [h, if_true, groupsFlat]
        have hf : run [58] ⟨.csi priv gs cur (some p.val) inter, a⟩ = ⟨.csi priv gs (cur ++ [some p.val]) none inter, a⟩ := by
          simp [run, feed_colon]
        rw [hf]
        exact ih gs (cur ++ [some p.val])
      · have h' : (p.more && colon) = false := by simpa using h
        simp only [h', groupsFlat]
        have hf : run [59] ⟨.csi priv gs cur (some p.val) inter, a⟩ = ⟨.csi priv (gs ++ [cur ++ [some p.val]]) [] none inter, a⟩ := by
          simp [run, feed_semi]
        simp only [Bool.false_eq_true, if_false]
        rw [hf]
        exact ih (gs ++ [cur ++ [some p.val]]) []

/-- `ESC [ params m` as the driver renders it, read by the terminal in ground state. -/
theorem run_renderSgr (colon : Bool) (ps : List Param) (a : Attrs) :
    run (renderSgr colon ps) ⟨.ground, a⟩ = ⟨.ground, sgrApply (groupsFlat colon ps [] []) a⟩ := by
  unfold renderSgr
  rw [run_append, run_append]
  have h1 : run [27, 91] ⟨.ground, a⟩ = ⟨.csi false [] [] none false, a⟩ := by
    simp [run, feed]
  rw [h1]
  obtain ⟨gs', cur', num', hrun, hg⟩ := run_renderBody colon ps false [] [] false a
  rw [hrun, ← hg]
  simp [run, feed]

/-! ### 3. from `params[]` to the groups of the components -/

/-- The groups a terminal sees for a list of components. -/
def groupsOf (colon : Bool) (cs : List Comp) : List Group :=
  if colon then cs.map (fun c => c.map some) else cs.flatMap (fun c => c.map (fun v => [some v]))

theorem groupsOf_append (colon : Bool) (xs ys : List Comp) :
    groupsOf colon (xs ++ ys) = groupsOf colon xs ++ groupsOf colon ys := by
  cases colon <;> simp [groupsOf]

theorem groupsOf_nil (colon : Bool) : groupsOf colon [] = [] := by
  cases colon <;> rfl

theorem groupsFlat_comp_true (c : Comp) (hc : c ≠ []) (rest : List Param) (gs : List Group) (cur : Group) :
    groupsFlat true (flattenComp c ++ rest) gs cur =
      if rest = [] then gs ++ [cur ++ c.map some] else groupsFlat true rest (gs ++ [cur ++ c.map some]) [] := by
  induction c generalizing cur with
  | nil => exact absurd rfl hc
  | cons v tl ih =>
    cases tl with
    | nil =>
      cases rest with
      | nil => simp [flattenComp, groupsFlat]
      | cons q r => simp [flattenComp, groupsFlat]
    | cons w tl' =>
      have ih' := ih (by simp) (cur ++ [some v])
      cases tl' with
      | nil =>
        simp only [flattenComp, List.cons_append, List.nil_append, groupsFlat, Bool.and_self, if_true] at ih' ⊢
        rw [ih']
        simp
      | cons t tl'' =>
        simp only [flattenComp, List.cons_append, groupsFlat, Bool.and_self, if_true] at ih' ⊢
        rw [ih']
        simp

theorem groupsFlat_comp_false (c : Comp) (hc : c ≠ []) (rest : List Param) (gs : List Group) :
    groupsFlat false (flattenComp c ++ rest) gs [] =
      if rest = [] then gs ++ c.map (fun v => [some v])
      else groupsFlat false rest (gs ++ c.map (fun v => [some v])) [] := by
  induction c generalizing gs with
  | nil => exact absurd rfl hc
  | cons v tl ih =>
    cases tl with
    | nil =>
      cases rest with
      | nil => simp [flattenComp, groupsFlat]
      | cons q r => simp [flattenComp, groupsFlat]
    | cons w tl' =>
      have ih' := ih (by simp) (gs ++ [[some v]])
      cases tl' with
      | nil =>
        simp only [flattenComp, List.cons_append, List.nil_append, groupsFlat, Bool.and_false] at ih' ⊢
        simp only [Bool.false_eq_true, if_false]
        rw [ih']
        simp
      | cons t tl'' =>
        simp only [flattenComp, List.cons_append, List.nil_append, groupsFlat, Bool.and_false] at ih' ⊢
        simp only [Bool.false_eq_true, if_false]
        rw [ih']
        simp

theorem flattenComp_ne_nil (c : Comp) (hc : c ≠ []) : flattenComp c ≠ [] := by
  cases c with
  | nil => exact absurd rfl hc
  | cons v tl => cases tl <;> simp [flattenComp]

theorem flatten_ne_nil (cs : List Comp) (hne : cs ≠ []) (hc : ∀ c ∈ cs, c ≠ []) : flatten cs ≠ [] := by
  cases cs with
  | nil => exact absurd rfl hne
  | cons c cs =>
    simp only [flatten]
    intro h
    have := flattenComp_ne_nil c (hc c (by simp))
    simp at h
    exact this h.1

theorem flatten_eq_nil (cs : List Comp) (hc : ∀ c ∈ cs, c ≠ []) : flatten cs = [] ↔ cs = [] := by
  constructor
  · intro h
    cases hcs : cs with
    | nil => rfl
    | cons c rest => exact absurd h (flatten_ne_nil cs (by simp [hcs]) hc)
  · intro h; subst h; rfl

/-- The groups the terminal collects from the rendered `params[]` are the components, one group per
    component when `:` is used and one group per element when everything is separated by `;`. -/
theorem groupsFlat_flatten (colon : Bool) (cs : List Comp) (hne : cs ≠ []) (hc : ∀ c ∈ cs, c ≠ [])
    (gs : List Group) :
    groupsFlat colon (flatten cs) gs [] = gs ++ groupsOf colon cs := by
  induction cs generalizing gs with
  | nil => exact absurd rfl hne
  | cons c rest ih =>
    have hcne : c ≠ [] := hc c (by simp)
    simp only [flatten]
    by_cases hrest : rest = []
    · subst hrest
      cases colon
      · rw [groupsFlat_comp_false c hcne]; simp [flatten, groupsOf]
      · rw [groupsFlat_comp_true c hcne]; simp [flatten, groupsOf]
    · have hfl : flatten rest ≠ [] := flatten_ne_nil rest hrest (fun x hx => hc x (by simp [hx]))
      have ih' := fun gs => ih hrest (fun x hx => hc x (by simp [hx])) gs
      cases colon
      · rw [groupsFlat_comp_false c hcne, if_neg hfl, ih']; simp [groupsOf]
      · rw [groupsFlat_comp_true c hcne, if_neg hfl, ih']; simp [groupsOf]

/-! ### 4. the SGR interpreter on the components of each attribute -/

theorem sgrSimple_fgLow (k : Nat) (h : k < 8) (a : Attrs) : sgrSimple (30 + k) a = { a with fg := .idx k } := by
  unfold sgrSimple
  repeat (first | rw [if_neg (by omega)] | rw [if_pos (by omega)])
  congr 2; omega

theorem sgrSimple_bgLow (k : Nat) (h : k < 8) (a : Attrs) : sgrSimple (40 + k) a = { a with bg := .idx k } := by
  unfold sgrSimple
  repeat (first | rw [if_neg (by omega)] | rw [if_pos (by omega)])
  congr 2; omega

theorem sgrSimple_fgHigh (k : Nat) (h : 8 ≤ k ∧ k < 16) (a : Attrs) :
    sgrSimple (30 + 60 + k - 8) a = { a with fg := .idx k } := by
  unfold sgrSimple
  repeat (first | rw [if_neg (by omega)] | rw [if_pos (by omega)])
  congr 2; omega

theorem sgrSimple_bgHigh (k : Nat) (h : 8 ≤ k ∧ k < 16) (a : Attrs) :
    sgrSimple (40 + 60 + k - 8) a = { a with bg := .idx k } := by
  unfold sgrSimple
  repeat (first | rw [if_neg (by omega)] | rw [if_pos (by omega)])
  congr 2; omega

theorem sgrSimple_font (k : Nat) (h : k < 10) (a : Attrs) : sgrSimple (10 + k) a = { a with font := k } := by
  unfold sgrSimple
  repeat (first | rw [if_neg (by omega)] | rw [if_pos (by omega)])
  congr 2; omega

theorem sgrGroup_simple (a : Attrs) (n : Nat) (h38 : n ≠ 38) (h48 : n ≠ 48) :
    sgrGroup (a, .none) [some n] = (sgrSimple n a, .none) := by
  simp [sgrGroup, h38, h48]

def ovColour (rgb8 : Bool) (o : Option Colour) (old : Colr) : Colr :=
  match o with
  | none => old
  | some _ => expectColour rgb8 o

/-- The rendering attributes after a request whose delta is `d`: every attribute present in `d` takes the
    value `d` asks for, every other attribute keeps its value. -/
def ovAttrs (caps : Caps) (d : Pen) (a : Attrs) : Attrs :=
  { fg := ovColour caps.rgb8 d.fg a.fg
    bg := ovColour caps.rgb8 d.bg a.bg
    bold := d.bold.getD a.bold
    faint := a.faint
    italic := d.italic.getD a.italic
    under := (d.under.map Int.toNat).getD a.under
    blink := d.blink.getD a.blink
    reverse := d.reverse.getD a.reverse
    strike := d.strike.getD a.strike
    font := (d.altfont.map expectFont).getD a.font
    sizepos := (d.sizepos.map expectSizepos).getD a.sizepos
    junk := a.junk }

theorem fold_colour_fg (colon rgb8 : Bool) (o : Option Colour) (a : Attrs) :
    (groupsOf colon (colourComps 1 rgb8 o)).foldl sgrGroup (a, .none) =
      ({ a with fg := ovColour rgb8 o a.fg }, .none) := by
  cases o with
  | none => simp [colourComps, groupsOf_nil, ovColour]
  | some c =>
    simp only [colourComps, ovColour, expectColour]
    by_cases h1 : c.idx < 0
    · simp only [h1, if_true]
      cases colon <;> simp [groupsOf, sgrGroup, Tickit.Gen.Sgr.sgrOff, sgrSimple]
    · simp only [h1, if_false]
      cases hr : c.rgb with
      | some x =>
        cases rgb8
        · simp only [Bool.false_and, Bool.false_eq_true, if_false]
          by_cases h8 : c.idx < 8
          · simp only [h8, if_true]
            have : sgrGroup (a, Pend.none) [some (Tickit.Gen.Sgr.sgrOn 1 + c.idx.toNat)] = (sgrSimple (30 + c.idx.toNat) a, Pend.none) :=
              sgrGroup_simple a _ (by simp [Tickit.Gen.Sgr.sgrOn]; omega) (by simp [Tickit.Gen.Sgr.sgrOn]; omega)
            cases colon <;> simp [groupsOf, this, sgrSimple_fgLow _ (by omega : c.idx.toNat < 8)]
          · simp only [h8, if_false]
            by_cases h16 : c.idx < 16
            · simp only [h16, if_true]
              have : sgrGroup (a, Pend.none) [some (Tickit.Gen.Sgr.sgrOn 1 + 60 + c.idx.toNat - 8)] =
                  (sgrSimple (30 + 60 + c.idx.toNat - 8) a, Pend.none) :=
                sgrGroup_simple a _ (by simp [Tickit.Gen.Sgr.sgrOn]; omega) (by simp [Tickit.Gen.Sgr.sgrOn]; omega)
              cases colon <;> simp [groupsOf, this, sgrSimple_fgHigh _ (by omega : 8 ≤ c.idx.toNat ∧ c.idx.toNat < 16)]
            · simp only [h16, if_false]
              cases colon <;> simp [groupsOf, sgrGroup, sgrSub, setColour, Tickit.Gen.Sgr.sgrOn]
        · simp only [Bool.true_and, Option.isSome_some, if_true, getRgb, hr, Option.getD_some]
          cases colon <;> simp [groupsOf, sgrGroup, sgrSub, setColour, Tickit.Gen.Sgr.sgrOn]
      | none =>
        simp only [Option.isSome_none, Bool.and_false, Bool.false_eq_true, if_false]
        by_cases h8 : c.idx < 8
        · simp only [h8, if_true]
          have : sgrGroup (a, Pend.none) [some (Tickit.Gen.Sgr.sgrOn 1 + c.idx.toNat)] = (sgrSimple (30 + c.idx.toNat) a, Pend.none) :=
            sgrGroup_simple a _ (by simp [Tickit.Gen.Sgr.sgrOn]; omega) (by simp [Tickit.Gen.Sgr.sgrOn]; omega)
          cases colon <;> simp [groupsOf, this, sgrSimple_fgLow _ (by omega : c.idx.toNat < 8)]
        · simp only [h8, if_false]
          by_cases h16 : c.idx < 16
          · simp only [h16, if_true]
            have : sgrGroup (a, Pend.none) [some (Tickit.Gen.Sgr.sgrOn 1 + 60 + c.idx.toNat - 8)] =
                (sgrSimple (30 + 60 + c.idx.toNat - 8) a, Pend.none) :=
              sgrGroup_simple a _ (by simp [Tickit.Gen.Sgr.sgrOn]; omega) (by simp [Tickit.Gen.Sgr.sgrOn]; omega)
            cases colon <;> simp [groupsOf, this, sgrSimple_fgHigh _ (by omega : 8 ≤ c.idx.toNat ∧ c.idx.toNat < 16)]
          · simp only [h16, if_false]
            cases colon <;> simp [groupsOf, sgrGroup, sgrSub, setColour, Tickit.Gen.Sgr.sgrOn]

theorem fold_colour_bg (colon rgb8 : Bool) (o : Option Colour) (a : Attrs) :
    (groupsOf colon (colourComps 2 rgb8 o)).foldl sgrGroup (a, .none) =
      ({ a with bg := ovColour rgb8 o a.bg }, .none) := by
  cases o with
  | none => simp [colourComps, groupsOf_nil, ovColour]
  | some c =>
    simp only [colourComps, ovColour, expectColour]
    by_cases h1 : c.idx < 0
    · simp only [h1, if_true]
      cases colon <;> simp [groupsOf, sgrGroup, Tickit.Gen.Sgr.sgrOff, sgrSimple]
    · simp only [h1, if_false]
      cases hr : c.rgb with
      | some x =>
        cases rgb8
        · simp only [Bool.false_and, Bool.false_eq_true, if_false]
          by_cases h8 : c.idx < 8
          · simp only [h8, if_true]
            have : sgrGroup (a, Pend.none) [some (Tickit.Gen.Sgr.sgrOn 2 + c.idx.toNat)] = (sgrSimple (40 + c.idx.toNat) a, Pend.none) :=
              sgrGroup_simple a _ (by simp [Tickit.Gen.Sgr.sgrOn]; omega) (by simp [Tickit.Gen.Sgr.sgrOn]; omega)
            cases colon <;> simp [groupsOf, this, sgrSimple_bgLow _ (by omega : c.idx.toNat < 8)]
          · simp only [h8, if_false]
            by_cases h16 : c.idx < 16
            · simp only [h16, if_true]
              have : sgrGroup (a, Pend.none) [some (Tickit.Gen.Sgr.sgrOn 2 + 60 + c.idx.toNat - 8)] =
                  (sgrSimple (40 + 60 + c.idx.toNat - 8) a, Pend.none) :=
                sgrGroup_simple a _ (by simp [Tickit.Gen.Sgr.sgrOn]; omega) (by simp [Tickit.Gen.Sgr.sgrOn]; omega)
              cases colon <;> simp [groupsOf, this, sgrSimple_bgHigh _ (by omega : 8 ≤ c.idx.toNat ∧ c.idx.toNat < 16)]
            · simp only [h16, if_false]
              cases colon <;> simp [groupsOf, sgrGroup, sgrSub, setColour, Tickit.Gen.Sgr.sgrOn]
        · simp only [Bool.true_and, Option.isSome_some, if_true, getRgb, hr, Option.getD_some]
          cases colon <;> simp [groupsOf, sgrGroup, sgrSub, setColour, Tickit.Gen.Sgr.sgrOn]
      | none =>
        simp only [Option.isSome_none, Bool.and_false, Bool.false_eq_true, if_false]
        by_cases h8 : c.idx < 8
        · simp only [h8, if_true]
          have : sgrGroup (a, Pend.none) [some (Tickit.Gen.Sgr.sgrOn 2 + c.idx.toNat)] = (sgrSimple (40 + c.idx.toNat) a, Pend.none) :=
            sgrGroup_simple a _ (by simp [Tickit.Gen.Sgr.sgrOn]; omega) (by simp [Tickit.Gen.Sgr.sgrOn]; omega)
          cases colon <;> simp [groupsOf, this, sgrSimple_bgLow _ (by omega : c.idx.toNat < 8)]
        · simp only [h8, if_false]
          by_cases h16 : c.idx < 16
          · simp only [h16, if_true]
            have : sgrGroup (a, Pend.none) [some (Tickit.Gen.Sgr.sgrOn 2 + 60 + c.idx.toNat - 8)] =
                (sgrSimple (40 + 60 + c.idx.toNat - 8) a, Pend.none) :=
              sgrGroup_simple a _ (by simp [Tickit.Gen.Sgr.sgrOn]; omega) (by simp [Tickit.Gen.Sgr.sgrOn]; omega)
            cases colon <;> simp [groupsOf, this, sgrSimple_bgHigh _ (by omega : 8 ≤ c.idx.toNat ∧ c.idx.toNat < 16)]
          · simp only [h16, if_false]
            cases colon <;> simp [groupsOf, sgrGroup, sgrSub, setColour, Tickit.Gen.Sgr.sgrOn]

theorem fold_bool (colon : Bool) (attr on off : Nat) (o : Option Bool) (a : Attrs) (f : Bool → Attrs → Attrs)
    (hon : Tickit.Gen.Sgr.sgrOn attr = on) (hoff : Tickit.Gen.Sgr.sgrOff attr = off)
    (h1 : on ≠ 38 ∧ on ≠ 48 ∧ off ≠ 38 ∧ off ≠ 48)
    (hson : sgrSimple on a = f true a) (hsoff : sgrSimple off a = f false a) :
    (groupsOf colon (boolComps attr o)).foldl sgrGroup (a, .none) =
      (match o with | none => a | some v => f v a, .none) := by
  cases o with
  | none => simp [boolComps, groupsOf_nil]
  | some v =>
    cases v
    · have := sgrGroup_simple a off h1.2.2.1 h1.2.2.2
      cases colon <;> simp [boolComps, groupsOf, hoff, this, hsoff]
    · have := sgrGroup_simple a on h1.1 h1.2.1
      cases colon <;> simp [boolComps, groupsOf, hon, this, hson]

theorem fold_bold (colon : Bool) (o : Option Bool) (a : Attrs) (hf : a.faint = false) :
    (groupsOf colon (boolComps 3 o)).foldl sgrGroup (a, .none) = ({ a with bold := o.getD a.bold }, .none) := by
  rw [fold_bool colon 3 1 22 o a (fun v a => { a with bold := v }) rfl rfl (by decide) rfl
    (by simp [sgrSimple, ← hf])]
  cases o <;> rfl

theorem fold_italic (colon : Bool) (o : Option Bool) (a : Attrs) :
    (groupsOf colon (boolComps 5 o)).foldl sgrGroup (a, .none) = ({ a with italic := o.getD a.italic }, .none) := by
  rw [fold_bool colon 5 3 23 o a (fun v a => { a with italic := v }) rfl rfl (by decide) rfl rfl]
  cases o <;> rfl

theorem fold_reverse (colon : Bool) (o : Option Bool) (a : Attrs) :
    (groupsOf colon (boolComps 6 o)).foldl sgrGroup (a, .none) = ({ a with reverse := o.getD a.reverse }, .none) := by
  rw [fold_bool colon 6 7 27 o a (fun v a => { a with reverse := v }) rfl rfl (by decide) rfl rfl]
  cases o <;> rfl

theorem fold_strike (colon : Bool) (o : Option Bool) (a : Attrs) :
    (groupsOf colon (boolComps 7 o)).foldl sgrGroup (a, .none) = ({ a with strike := o.getD a.strike }, .none) := by
  rw [fold_bool colon 7 9 29 o a (fun v a => { a with strike := v }) rfl rfl (by decide) rfl rfl]
  cases o <;> rfl

theorem fold_blink (colon : Bool) (o : Option Bool) (a : Attrs) :
    (groupsOf colon (boolComps 9 o)).foldl sgrGroup (a, .none) = ({ a with blink := o.getD a.blink }, .none) := by
  rw [fold_bool colon 9 5 25 o a (fun v a => { a with blink := v }) rfl rfl (by decide) rfl rfl]
  cases o <;> rfl

/-- What a delta must satisfy for the xterm encoding to mean what the pen says: an underline style ≥ 2
    needs `:` sub-parameters, and the size/position must be one that has an SGR code. -/
structure DeltaOk (caps : Caps) (d : Pen) : Prop where
  under : ∀ v, d.under = some v → 0 ≤ v ∧ (caps.colon = true ∨ v ≤ 1)
  sizepos : ∀ v, d.sizepos = some v →
    v = 0 ∨ v = Tickit.Gen.Sgr.sizeposSuperscript ∨ v = Tickit.Gen.Sgr.sizeposSubscript

theorem fold_under (colon : Bool) (o : Option Int) (a : Attrs)
    (h : ∀ v, o = some v → 0 ≤ v ∧ (colon = true ∨ v ≤ 1)) :
    (groupsOf colon (underComps o)).foldl sgrGroup (a, .none) =
      ({ a with under := (o.map Int.toNat).getD a.under }, .none) := by
  cases o with
  | none => simp [underComps, groupsOf_nil]
  | some v =>
    obtain ⟨h0, hc⟩ := h v rfl
    simp only [underComps, Option.map_some, Option.getD_some]
    by_cases hv0 : v = 0
    · subst hv0
      cases colon <;> simp [groupsOf, sgrGroup, sgrSimple, Tickit.Gen.Sgr.sgrOff]
    · simp only [hv0, if_false]
      by_cases hv1 : v = 1
      · subst hv1
        cases colon <;> simp [groupsOf, sgrGroup, sgrSimple, Tickit.Gen.Sgr.sgrOn]
      · simp only [hv1, if_false]
        have hcol : colon = true := by
          rcases hc with hc | hc
          · exact hc
          · omega
        subst hcol
        simp [groupsOf, sgrGroup, sgrSub, Tickit.Gen.Sgr.sgrOn]

theorem fold_altfont (colon : Bool) (o : Option Int) (a : Attrs) :
    (groupsOf colon (altfontComps o)).foldl sgrGroup (a, .none) =
      ({ a with font := (o.map expectFont).getD a.font }, .none) := by
  cases o with
  | none => simp [altfontComps, groupsOf_nil]
  | some v =>
    simp only [altfontComps, Option.map_some, Option.getD_some, expectFont]
    by_cases hv : v < 0 ∨ v ≥ 10
    · simp only [hv, if_true]
      rw [if_neg (by omega)]
      cases colon <;> simp [groupsOf, sgrGroup, sgrSimple, Tickit.Gen.Sgr.sgrOff]
    · simp only [hv, if_false]
      have hs : sgrGroup (a, Pend.none) [some (Tickit.Gen.Sgr.sgrOn 8 + v.toNat)] = (sgrSimple (10 + v.toNat) a, Pend.none) :=
        sgrGroup_simple a _ (by simp [Tickit.Gen.Sgr.sgrOn]; omega) (by simp [Tickit.Gen.Sgr.sgrOn]; omega)
      have hf : sgrSimple (10 + v.toNat) a = { a with font := v.toNat } := sgrSimple_font _ (by omega) a
      by_cases h19 : 1 ≤ v ∧ v ≤ 9
      · rw [if_pos h19]
        cases colon <;> simp [groupsOf, hs, hf]
      · rw [if_neg h19]
        have : v.toNat = 0 := by omega
        rw [this] at hs hf
        simp only [Nat.add_zero] at hs hf
        cases colon <;> simp [groupsOf, hs, hf, this]

theorem fold_sizepos (colon : Bool) (o : Option Int) (a : Attrs)
    (h : ∀ v, o = some v → v = 0 ∨ v = Tickit.Gen.Sgr.sizeposSuperscript ∨ v = Tickit.Gen.Sgr.sizeposSubscript) :
    (groupsOf colon (sizeposComps o)).foldl sgrGroup (a, .none) =
      ({ a with sizepos := (o.map expectSizepos).getD a.sizepos }, .none) := by
  cases o with
  | none => simp [sizeposComps, groupsOf_nil]
  | some v =>
    rcases h v rfl with h | h | h <;> subst h <;>
      cases colon <;>
      simp [sizeposComps, groupsOf, sgrGroup, sgrSimple, expectSizepos, Tickit.Gen.Sgr.sgrOff,
        Tickit.Gen.Sgr.sizeposSuperscript, Tickit.Gen.Sgr.sizeposSubscript, Tickit.Gen.Sgr.sizeposSmall]

/-- The SGR interpreter on everything the xterm driver sends for a delta: exactly the attributes present
    in the delta change, to the values the delta asks for. -/
theorem fold_comps (caps : Caps) (d : Pen) (a : Attrs) (hd : DeltaOk caps d) (hf : a.faint = false) :
    (groupsOf caps.colon (comps caps d)).foldl sgrGroup (a, .none) = (ovAttrs caps d a, .none) := by
  unfold comps
  simp only [groupsOf_append, List.foldl_append]
  rw [fold_colour_fg, fold_colour_bg, fold_bold _ _ _ (by exact hf), fold_under _ _ _ hd.under, fold_italic, fold_reverse,
    fold_strike, fold_altfont, fold_blink, fold_sizepos _ _ _ hd.sizepos]
  rfl

theorem sgrApply_comps (caps : Caps) (d : Pen) (a : Attrs) (hd : DeltaOk caps d) (hf : a.faint = false) :
    sgrApply (groupsOf caps.colon (comps caps d)) a = ovAttrs caps d a := by
  simp [sgrApply, fold_comps caps d a hd hf]

theorem comps_nonempty (caps : Caps) (d : Pen) : ∀ c ∈ comps caps d, c ≠ [] := by
  intro c hc
  simp only [comps, List.mem_append] at hc
  have hcol : ∀ attr rgb8 o, c ∈ colourComps attr rgb8 o → c ≠ [] := by
    intro attr rgb8 o h
    unfold colourComps at h
    split at h
    · simp at h
    · repeat' split at h
      all_goals (simp at h; subst h; simp)
  have hbool : ∀ attr o, c ∈ boolComps attr o → c ≠ [] := by
    intro attr o h
    unfold boolComps at h
    split at h
    · simp at h
    · simp at h; subst h; simp
  rcases hc with ((((((((h | h) | h) | h) | h) | h) | h) | h) | h) | h
  · exact hcol _ _ _ h
  · exact hcol _ _ _ h
  · exact hbool _ _ h
  · unfold underComps at h
    split at h
    · simp at h
    · repeat' split at h
      all_goals (simp at h; subst h; simp)
  · exact hbool _ _ h
  · exact hbool _ _ h
  · exact hbool _ _ h
  · unfold altfontComps at h
    split at h
    · simp at h
    · repeat' split at h
      all_goals (simp at h; subst h; simp)
  · exact hbool _ _ h
  · unfold sizeposComps at h
    split at h
    · simp at h
    · repeat' split at h
      all_goals (simp at h; try (subst h; simp))

end Tickit.Proof.Sgr
