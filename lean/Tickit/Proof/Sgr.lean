import Tickit.Model.TermPen
/-
  Proof/Sgr.lean — helper lemmas for C10.

  1. `%d` round trip: the VT parser reads back the number `showNat` printed.
  2. The parser on `ESC [ … m` as rendered by the xterm driver yields the groups `groupsOf colon comps`.
  3. The SGR interpreter on the groups of each attribute: the per-attribute effect.
-/
namespace Tickit.Proof.Sgr
open Tickit.Sgr Tickit.TermPen

/-! ### 1. digits -/

theorem digitsRev_lt (f n : Nat) : ∀ d ∈ digitsRev f n, d < 10 := by
  induction f generalizing n with
  | zero => intro d hd; simp [digitsRev] at hd
  | succ f ih =>
    intro d hd
    unfold digitsRev at hd
    split at hd
    · simp at hd; omega
    · simp at hd
      rcases hd with h | h
      · omega
      · exact ih _ _ h

theorem digitsRev_foldr (f n : Nat) (h : n < f) :
    (digitsRev f n).foldr (fun d acc => acc * 10 + d) 0 = n := by
  induction f generalizing n with
  | zero => omega
  | succ f ih =>
    unfold digitsRev
    split
    · simp
    · simp only [List.foldr_cons]
      rw [ih (n / 10) (by omega)]
      omega

theorem digitsRev_ne_nil (f n : Nat) : digitsRev (f + 1) n ≠ [] := by
  unfold digitsRev
  split <;> simp

/-- the number the parser holds after reading the digits `ds` -/
def accum (ds : List Nat) (num : Option Nat) : Option Nat :=
  ds.foldl (fun o d => some (o.getD 0 * 10 + d)) num

theorem accum_some (ds : List Nat) (x : Nat) :
    accum ds (some x) = some (ds.foldl (fun a d => a * 10 + d) x) := by
  induction ds generalizing x with
  | nil => rfl
  | cons d ds ih => simp [accum] at *; exact ih _

theorem accum_none (ds : List Nat) (h : ds ≠ []) :
    accum ds none = some (ds.foldl (fun a d => a * 10 + d) 0) := by
  cases ds with
  | nil => exact absurd rfl h
  | cons d ds =>
    have := accum_some ds (0 * 10 + d)
    simpa [accum] using this

theorem run_digits (ds : List Nat) (hd : ∀ d ∈ ds, d < 10) (priv : Bool) (gs : List Group) (cur : Group)
    (num : Option Nat) (inter : Bool) (a : Attrs) :
    run (ds.map (· + 48)) ⟨.csi priv gs cur num inter, a⟩ = ⟨.csi priv gs cur (accum ds num) inter, a⟩ := by
  induction ds generalizing num with
  | nil => rfl
  | cons d ds ih =>
    have hlt : d < 10 := hd d (by simp)
    simp only [List.map_cons, run, List.foldl_cons]
    have hfeed : feed ⟨.csi priv gs cur num inter, a⟩ (d + 48) =
        ⟨.csi priv gs cur (some (num.getD 0 * 10 + d)) inter, a⟩ := by
      simp only [feed]
      rw [if_pos (show 48 ≤ d + 48 ∧ d + 48 ≤ 57 by omega)]
      simp
    rw [hfeed]
    have := ih (fun x hx => hd x (by simp [hx])) (some (num.getD 0 * 10 + d))
    simpa [run, accum] using this

/-- The parser reads back what `%d` printed. -/
theorem run_showNat (n : Nat) (priv : Bool) (gs : List Group) (cur : Group) (inter : Bool) (a : Attrs) :
    run (showNat n) ⟨.csi priv gs cur none inter, a⟩ = ⟨.csi priv gs cur (some n) inter, a⟩ := by
  unfold showNat
  rw [run_digits _ (by
    intro d hd
    exact digitsRev_lt _ _ d (by simpa using hd))]
  congr
  rw [accum_none _ (by simpa using digitsRev_ne_nil n n)]
  rw [List.foldl_reverse]
  simpa using digitsRev_foldr (n + 1) n (by omega)

/-! ### 2. the parser on a rendered parameter vector -/

/-- What the parser has collected when it reaches the final byte, as a function of `params[]`. -/
def groupsFlat (colon : Bool) : List Param → List Group → Group → List Group
  | [], gs, cur => gs ++ [cur ++ [none]]
  | [p], gs, cur => gs ++ [cur ++ [some p.val]]
  | p :: q :: rest, gs, cur =>
    if p.more && colon then groupsFlat colon (q :: rest) gs (cur ++ [some p.val])
    else groupsFlat colon (q :: rest) (gs ++ [cur ++ [some p.val]]) []

theorem feed_colon (priv : Bool) (gs : List Group) (cur : Group) (num : Option Nat) (inter : Bool) (a : Attrs) :
    feed ⟨.csi priv gs cur num inter, a⟩ 58 = ⟨.csi priv gs (cur ++ [num]) none inter, a⟩ := by
  simp [feed]

theorem feed_semi (priv : Bool) (gs : List Group) (cur : Group) (num : Option Nat) (inter : Bool) (a : Attrs) :
    feed ⟨.csi priv gs cur num inter, a⟩ 59 = ⟨.csi priv (gs ++ [cur ++ [num]]) [] none inter, a⟩ := by
  simp [feed]

theorem run_renderBody (colon : Bool) (ps : List Param) (priv : Bool) (gs : List Group) (cur : Group)
    (inter : Bool) (a : Attrs) :
    ∃ gs' cur' num', run (renderBody colon ps) ⟨.csi priv gs cur none inter, a⟩ = ⟨.csi priv gs' cur' num' inter, a⟩ ∧
      gs' ++ [cur' ++ [num']] = groupsFlat colon ps gs cur := by
  induction ps generalizing gs cur with
  | nil => exact ⟨gs, cur, none, rfl, rfl⟩
  | cons p tl ih =>
    cases tl with
    | nil =>
      refine ⟨gs, cur, some p.val, ?_, rfl⟩
      simp only [renderBody]
      exact run_showNat _ _ _ _ _ _
    | cons q rest =>
      simp only [renderBody, run_append, run_showNat]
      by_cases h : (p.more && colon) = true
      · simp only [h, if_true, groupsFlat]
        have hf : run [58] ⟨.csi priv gs cur (some p.val) inter, a⟩ = ⟨.csi priv gs (cur ++ [some p.val]) none inter, a⟩ := by
          simp [run, feed_colon]
        rw [hf]
        exact ih gs (cur ++ [some p.val])
      · have h' : (p.more && colon) = false := by simpa using h
        simp only [h', groupsFlat]
        have hf : run [59] ⟨.csi priv gs cur (some p.val) inter, a⟩ = ⟨.csi priv (gs ++ [cur ++ [some p.val]]) [] none inter, a⟩ := by
          simp [run, feed_semi]
        simp only [Bool.false_eq_true, if_false]
        rw [hf]
        exact ih (gs ++ [cur ++ [some p.val]]) []

/-- `ESC [ params m` as the driver renders it, read by the terminal in ground state. -/
theorem run_renderSgr (colon : Bool) (ps : List Param) (a : Attrs) :
    run (renderSgr colon ps) ⟨.ground, a⟩ = ⟨.ground, sgrApply (groupsFlat colon ps [] []) a⟩ := by
  unfold renderSgr
  rw [run_append, run_append]
  have h1 : run [27, 91] ⟨.ground, a⟩ = ⟨.csi false [] [] none false, a⟩ := by
    simp [run, feed]
  rw [h1]
  obtain ⟨gs', cur', num', hrun, hg⟩ := run_renderBody colon ps false [] [] false a
  rw [hrun, ← hg]
  simp [run, feed]

/-! ### 3. from `params[]` to the groups of the components -/

/-- The groups a terminal sees for a list of components. -/
def groupsOf (colon : Bool) (cs : List Comp) : List Group :=
  if colon then cs.map (fun c => c.map some) else cs.flatMap (fun c => c.map (fun v => [some v]))

theorem groupsOf_append (colon : Bool) (xs ys : List Comp) :
    groupsOf colon (xs ++ ys) = groupsOf colon xs ++ groupsOf colon ys := by
  cases colon <;> simp [groupsOf]

theorem groupsOf_nil (colon : Bool) : groupsOf colon [] = [] := by
  cases colon <;> rfl

theorem groupsFlat_comp_true (c : Comp) (hc : c ≠ []) (rest : List Param) (gs : List Group) (cur : Group) :
    groupsFlat true (flattenComp c ++ rest) gs cur =
      if rest = [] then gs ++ [cur ++ c.map some] else groupsFlat true rest (gs ++ [cur ++ c.map some]) [] := by
  induction c generalizing cur with
  | nil => exact absurd rfl hc
  | cons v tl ih =>
    cases tl with
    | nil =>
      cases rest with
      | nil => simp [flattenComp, groupsFlat]
      | cons q r => simp [flattenComp, groupsFlat]
    | cons w tl' =>
      have ih' := ih (by simp) (cur ++ [some v])
      cases tl' with
      | nil =>
        simp only [flattenComp, List.cons_append, List.nil_append, groupsFlat, Bool.and_self, if_true] at ih' ⊢
        rw [ih']
        simp
      | cons t tl'' =>
        simp only [flattenComp, List.cons_append, groupsFlat, Bool.and_self, if_true] at ih' ⊢
        rw [ih']
        simp

theorem groupsFlat_comp_false (c : Comp) (hc : c ≠ []) (rest : List Param) (gs : List Group) :
    groupsFlat false (flattenComp c ++ rest) gs [] =
      if rest = [] then gs ++ c.map (fun v => [some v])
      else groupsFlat false rest (gs ++ c.map (fun v => [some v])) [] := by
  induction c generalizing gs with
  | nil => exact absurd rfl hc
  | cons v tl ih =>
    cases tl with
    | nil =>
      cases rest with
      | nil => simp [flattenComp, groupsFlat]
      | cons q r => simp [flattenComp, groupsFlat]
    | cons w tl' =>
      have ih' := ih (by simp) (gs ++ [[some v]])
      cases tl' with
      | nil =>
        simp only [flattenComp, List.cons_append, List.nil_append, groupsFlat, Bool.and_false] at ih' ⊢
        simp only [Bool.false_eq_true, if_false]
        rw [ih']
        simp
      | cons t tl'' =>
        simp only [flattenComp, List.cons_append, List.nil_append, groupsFlat, Bool.and_false] at ih' ⊢
        simp only [Bool.false_eq_true, if_false]
        rw [ih']
        simp

theorem flattenComp_ne_nil (c : Comp) (hc : c ≠ []) : flattenComp c ≠ [] := by
  cases c with
  | nil => exact absurd rfl hc
  | cons v tl => cases tl <;> simp [flattenComp]

theorem flatten_ne_nil (cs : List Comp) (hne : cs ≠ []) (hc : ∀ c ∈ cs, c ≠ []) : flatten cs ≠ [] := by
  cases cs with
  | nil => exact absurd rfl hne
  | cons c cs =>
    simp only [flatten]
    intro h
    have := flattenComp_ne_nil c (hc c (by simp))
    simp at h
    exact this h.1

theorem flatten_eq_nil (cs : List Comp) (hc : ∀ c ∈ cs, c ≠ []) : flatten cs = [] ↔ cs = [] := by
  constructor
  · intro h
    cases hcs : cs with
    | nil => rfl
    | cons c rest => exact absurd h (flatten_ne_nil cs (by simp [hcs]) hc)
  · intro h; subst h; rfl

/-- The groups the terminal collects from the rendered `params[]` are the components, one group per
    component when `:` is used and one group per element when everything is separated by `;`. -/
theorem groupsFlat_flatten (colon : Bool) (cs : List Comp) (hne : cs ≠ []) (hc : ∀ c ∈ cs, c ≠ [])
    (gs : List Group) :
    groupsFlat colon (flatten cs) gs [] = gs ++ groupsOf colon cs := by
  induction cs generalizing gs with
  | nil => exact absurd rfl hne
  | cons c rest ih =>
    have hcne : c ≠ [] := hc c (by simp)
    simp only [flatten]
    by_cases hrest : rest = []
    · subst hrest
      cases colon
      · rw [groupsFlat_comp_false c hcne]; simp [flatten, groupsOf]
      · rw [groupsFlat_comp_true c hcne]; simp [flatten, groupsOf]
    · have hfl : flatten rest ≠ [] := flatten_ne_nil rest hrest (fun x hx => hc x (by simp [hx]))
      have ih' := fun gs => ih hrest (fun x hx => hc x (by simp [hx])) gs
      cases colon
      · rw [groupsFlat_comp_false c hcne, if_neg hfl, ih']; simp [groupsOf]
      · rw [groupsFlat_comp_true c hcne, if_neg hfl, ih']; simp [groupsOf]

/-! ### 4. the SGR interpreter on the components of each attribute -/

theorem sgrSimple_fgLow (k : Nat) (h : k < 8) (a : Attrs) : sgrSimple (30 + k) a = { a with fg := .idx k } := by
  unfold sgrSimple
  repeat (first | rw [if_neg (by omega)] | rw [if_pos (by omega)])
  congr 2; omega

theorem sgrSimple_bgLow (k : Nat) (h : k < 8) (a : Attrs) : sgrSimple (40 + k) a = { a with bg := .idx k } := by
  unfold sgrSimple
  repeat (first | rw [if_neg (by omega)] | rw [if_pos (by omega)])
  congr 2; omega

theorem sgrSimple_fgHigh (k : Nat) (h : 8 ≤ k ∧ k < 16) (a : Attrs) :
    sgrSimple (30 + 60 + k - 8) a = { a with fg := .idx k } := by
  unfold sgrSimple
  repeat (first | rw [if_neg (by omega)] | rw [if_pos (by omega)])
  congr 2; omega

theorem sgrSimple_bgHigh (k : Nat) (h : 8 ≤ k ∧ k < 16) (a : Attrs) :
    sgrSimple (40 + 60 + k - 8) a = { a with bg := .idx k } := by
  unfold sgrSimple
  repeat (first | rw [if_neg (by omega)] | rw [if_pos (by omega)])
  congr 2; omega

theorem sgrSimple_font (k : Nat) (h : k < 10) (a : Attrs) : sgrSimple (10 + k) a = { a with font := k } := by
  unfold sgrSimple
  repeat (first | rw [if_neg (by omega)] | rw [if_pos (by omega)])
  congr 2; omega

theorem sgrGroup_simple (a : Attrs) (n : Nat) (h38 : n ≠ 38) (h48 : n ≠ 48) :
    sgrGroup (a, .none) [some n] = (sgrSimple n a, .none) := by
  simp [sgrGroup, h38, h48]

def ovColour (rgb8 : Bool) (o : Option Colour) (old : Colr) : Colr :=
  match o with
  | none => old
  | some _ => expectColour rgb8 o

/-- The rendering attributes after a request whose delta is `d`: every attribute present in `d` takes the
    value `d` asks for, every other attribute keeps its value. -/
def ovAttrs (caps : Caps) (d : Pen) (a : Attrs) : Attrs :=
  { fg := ovColour caps.rgb8 d.fg a.fg
    bg := ovColour caps.rgb8 d.bg a.bg
    bold := d.bold.getD a.bold
    faint := a.faint
    italic := d.italic.getD a.italic
    under := (d.under.map Int.toNat).getD a.under
    blink := d.blink.getD a.blink
    reverse := d.reverse.getD a.reverse
    strike := d.strike.getD a.strike
    font := (d.altfont.map expectFont).getD a.font
    sizepos := (d.sizepos.map expectSizepos).getD a.sizepos
    junk := a.junk }

theorem fold_colour_fg (colon rgb8 : Bool) (o : Option Colour) (a : Attrs) :
    (groupsOf colon (colourComps 1 rgb8 o)).foldl sgrGroup (a, .none) =
      ({ a with fg := ovColour rgb8 o a.fg }, .none) := by
  cases o with
  | none => simp [colourComps, groupsOf_nil, ovColour]
  | some c =>
    simp only [colourComps, ovColour, expectColour]
    by_cases h1 : c.idx < 0
    · simp only [h1, if_true]
      cases colon <;> simp [groupsOf, sgrGroup, Tickit.Gen.Sgr.sgrOff, sgrSimple]
    · simp only [h1, if_false]
      cases hr : c.rgb with
      | some x =>
        cases rgb8
        · simp only [Bool.false_and, Bool.false_eq_true, if_false]
          by_cases h8 : c.idx < 8
          · simp only [h8, if_true]
            have : sgrGroup (a, Pend.none) [some (Tickit.Gen.Sgr.sgrOn 1 + c.idx.toNat)] = (sgrSimple (30 + c.idx.toNat) a, Pend.none) :=
              sgrGroup_simple a _ (by simp [Tickit.Gen.Sgr.sgrOn]; omega) (by simp [Tickit.Gen.Sgr.sgrOn]; omega)
            cases colon <;> simp [groupsOf, this, sgrSimple_fgLow _ (by omega : c.idx.toNat < 8)]
          · simp only [h8, if_false]
            by_cases h16 : c.idx < 16
            · simp only [h16, if_true]
              have : sgrGroup (a, Pend.none) [some (Tickit.Gen.Sgr.sgrOn 1 + 60 + c.idx.toNat - 8)] =
                  (sgrSimple (30 + 60 + c.idx.toNat - 8) a, Pend.none) :=
                sgrGroup_simple a _ (by simp [Tickit.Gen.Sgr.sgrOn]; omega) (by simp [Tickit.Gen.Sgr.sgrOn]; omega)
              cases colon <;> simp [groupsOf, this, sgrSimple_fgHigh _ (by omega : 8 ≤ c.idx.toNat ∧ c.idx.toNat < 16)]
            · simp only [h16, if_false]
              cases colon <;> simp [groupsOf, sgrGroup, sgrSub, setColour, Tickit.Gen.Sgr.sgrOn]
        · simp only [Bool.true_and, Option.isSome_some, if_true, getRgb, hr, Option.getD_some]
          cases colon <;> simp [groupsOf, sgrGroup, sgrSub, setColour, Tickit.Gen.Sgr.sgrOn]
      | none =>
        simp only [Option.isSome_none, Bool.and_false, Bool.false_eq_true, if_false]
        by_cases h8 : c.idx < 8
        · simp only [h8, if_true]
          have : sgrGroup (a, Pend.none) [some (Tickit.Gen.Sgr.sgrOn 1 + c.idx.toNat)] = (sgrSimple (30 + c.idx.toNat) a, Pend.none) :=
            sgrGroup_simple a _ (by simp [Tickit.Gen.Sgr.sgrOn]; omega) (by simp [Tickit.Gen.Sgr.sgrOn]; omega)
          cases colon <;> simp [groupsOf, this, sgrSimple_fgLow _ (by omega : c.idx.toNat < 8)]
        · simp only [h8, if_false]
          by_cases h16 : c.idx < 16
          · simp only [h16, if_true]
            have : sgrGroup (a, Pend.none) [some (Tickit.Gen.Sgr.sgrOn 1 + 60 + c.idx.toNat - 8)] =
                (sgrSimple (30 + 60 + c.idx.toNat - 8) a, Pend.none) :=
              sgrGroup_simple a _ (by simp [Tickit.Gen.Sgr.sgrOn]; omega) (by simp [Tickit.Gen.Sgr.sgrOn]; omega)
            cases colon <;> simp [groupsOf, this, sgrSimple_fgHigh _ (by omega : 8 ≤ c.idx.toNat ∧ c.idx.toNat < 16)]
          · simp only [h16, if_false]
            cases colon <;> simp [groupsOf, sgrGroup, sgrSub, setColour, Tickit.Gen.Sgr.sgrOn]

theorem fold_colour_bg (colon rgb8 : Bool) (o : Option Colour) (a : Attrs) :
    (groupsOf colon (colourComps 2 rgb8 o)).foldl sgrGroup (a, .none) =
      ({ a with bg := ovColour rgb8 o a.bg }, .none) := by
  cases o with
  | none => simp [colourComps, groupsOf_nil, ovColour]
  | some c =>
    simp only [colourComps, ovColour, expectColour]
    by_cases h1 : c.idx < 0
    · simp only [h1, if_true]
      cases colon <;> simp [groupsOf, sgrGroup, Tickit.Gen.Sgr.sgrOff, sgrSimple]
    · simp only [h1, if_false]
      cases hr : c.rgb with
      | some x =>
        cases rgb8
        · simp only [Bool.false_and, Bool.false_eq_true, if_false]
          by_cases h8 : c.idx < 8
          · simp only [h8, if_true]
            have : sgrGroup (a, Pend.none) [some (Tickit.Gen.Sgr.sgrOn 2 + c.idx.toNat)] = (sgrSimple (40 + c.idx.toNat) a, Pend.none) :=
              sgrGroup_simple a _ (by simp [Tickit.Gen.Sgr.sgrOn]; omega) (by simp [Tickit.Gen.Sgr.sgrOn]; omega)
            cases colon <;> simp [groupsOf, this, sgrSimple_bgLow _ (by omega : c.idx.toNat < 8)]
          · simp only [h8, if_false]
            by_cases h16 : c.idx < 16
            · simp only [h16, if_true]
              have : sgrGroup (a, Pend.none) [some (Tickit.Gen.Sgr.sgrOn 2 + 60 + c.idx.toNat - 8)] =
                  (sgrSimple (40 + 60 + c.idx.toNat - 8) a, Pend.none) :=
                sgrGroup_simple a _ (by simp [Tickit.Gen.Sgr.sgrOn]; omega) (by simp [Tickit.Gen.Sgr.sgrOn]; omega)
              cases colon <;> simp [groupsOf, this, sgrSimple_bgHigh _ (by omega : 8 ≤ c.idx.toNat ∧ c.idx.toNat < 16)]
            · simp only [h16, if_false]
              cases colon <;> simp [groupsOf, sgrGroup, sgrSub, setColour, Tickit.Gen.Sgr.sgrOn]
        · simp only [Bool.true_and, Option.isSome_some, if_true, getRgb, hr, Option.getD_some]
          cases colon <;> simp [groupsOf, sgrGroup, sgrSub, setColour, Tickit.Gen.Sgr.sgrOn]
      | none =>
        simp only [Option.isSome_none, Bool.and_false, Bool.false_eq_true, if_false]
        by_cases h8 : c.idx < 8
        · simp only [h8, if_true]
          have : sgrGroup (a, Pend.none) [some (Tickit.Gen.Sgr.sgrOn 2 + c.idx.toNat)] = (sgrSimple (40 + c.idx.toNat) a, Pend.none) :=
            sgrGroup_simple a _ (by simp [Tickit.Gen.Sgr.sgrOn]; omega) (by simp [Tickit.Gen.Sgr.sgrOn]; omega)
          cases colon <;> simp [groupsOf, this, sgrSimple_bgLow _ (by omega : c.idx.toNat < 8)]
        · simp only [h8, if_false]
          by_cases h16 : c.idx < 16
          · simp only [h16, if_true]
            have : sgrGroup (a, Pend.none) [some (Tickit.Gen.Sgr.sgrOn 2 + 60 + c.idx.toNat - 8)] =
                (sgrSimple (40 + 60 + c.idx.toNat - 8) a, Pend.none) :=
              sgrGroup_simple a _ (by simp [Tickit.Gen.Sgr.sgrOn]; omega) (by simp [Tickit.Gen.Sgr.sgrOn]; omega)
            cases colon <;> simp [groupsOf, this, sgrSimple_bgHigh _ (by omega : 8 ≤ c.idx.toNat ∧ c.idx.toNat < 16)]
          · simp only [h16, if_false]
            cases colon <;> simp [groupsOf, sgrGroup, sgrSub, setColour, Tickit.Gen.Sgr.sgrOn]

theorem fold_bool (colon : Bool) (attr on off : Nat) (o : Option Bool) (a : Attrs) (f : Bool → Attrs → Attrs)
    (hon : Tickit.Gen.Sgr.sgrOn attr = on) (hoff : Tickit.Gen.Sgr.sgrOff attr = off)
    (h1 : on ≠ 38 ∧ on ≠ 48 ∧ off ≠ 38 ∧ off ≠ 48)
    (hson : sgrSimple on a = f true a) (hsoff : sgrSimple off a = f false a) :
    (groupsOf colon (boolComps attr o)).foldl sgrGroup (a, .none) =
      (match o with | none => a | some v => f v a, .none) := by
  cases o with
  | none => simp [boolComps, groupsOf_nil]
  | some v =>
    cases v
    · have := sgrGroup_simple a off h1.2.2.1 h1.2.2.2
      cases colon <;> simp [boolComps, groupsOf, hoff, this, hsoff]
    · have := sgrGroup_simple a on h1.1 h1.2.1
      cases colon <;> simp [boolComps, groupsOf, hon, this, hson]

theorem fold_bold (colon : Bool) (o : Option Bool) (a : Attrs) (hf : a.faint = false) :
    (groupsOf colon (boolComps 3 o)).foldl sgrGroup (a, .none) = ({ a with bold := o.getD a.bold }, .none) := by
  rw [fold_bool colon 3 1 22 o a (fun v a => { a with bold := v }) rfl rfl (by decide) rfl
    (by simp [sgrSimple, ← hf])]
  cases o <;> rfl

theorem fold_italic (colon : Bool) (o : Option Bool) (a : Attrs) :
    (groupsOf colon (boolComps 5 o)).foldl sgrGroup (a, .none) = ({ a with italic := o.getD a.italic }, .none) := by
  rw [fold_bool colon 5 3 23 o a (fun v a => { a with italic := v }) rfl rfl (by decide) rfl rfl]
  cases o <;> rfl

theorem fold_reverse (colon : Bool) (o : Option Bool) (a : Attrs) :
    (groupsOf colon (boolComps 6 o)).foldl sgrGroup (a, .none) = ({ a with reverse := o.getD a.reverse }, .none) := by
  rw [fold_bool colon 6 7 27 o a (fun v a => { a with reverse := v }) rfl rfl (by decide) rfl rfl]
  cases o <;> rfl

theorem fold_strike (colon : Bool) (o : Option Bool) (a : Attrs) :
    (groupsOf colon (boolComps 7 o)).foldl sgrGroup (a, .none) = ({ a with strike := o.getD a.strike }, .none) := by
  rw [fold_bool colon 7 9 29 o a (fun v a => { a with strike := v }) rfl rfl (by decide) rfl rfl]
  cases o <;> rfl

theorem fold_blink (colon : Bool) (o : Option Bool) (a : Attrs) :
    (groupsOf colon (boolComps 9 o)).foldl sgrGroup (a, .none) = ({ a with blink := o.getD a.blink }, .none) := by
  rw [fold_bool colon 9 5 25 o a (fun v a => { a with blink := v }) rfl rfl (by decide) rfl rfl]
  cases o <;> rfl

/-- What a delta must satisfy for the xterm encoding to mean what the pen says: an underline style ≥ 3
    (curly, …) needs `:` sub-parameters — there is no other way to say it —, and the size/position must
    be one that has an SGR code. -/
structure DeltaOk (caps : Caps) (d : Pen) : Prop where
  under : ∀ v, d.under = some v → 0 ≤ v ∧ (caps.colon = true ∨ v ≤ 2)
  sizepos : ∀ v, d.sizepos = some v →
    v = 0 ∨ v = Tickit.Gen.Sgr.sizeposSuperscript ∨ v = Tickit.Gen.Sgr.sizeposSubscript

theorem fold_under (colon : Bool) (o : Option Int) (a : Attrs)
    (h : ∀ v, o = some v → 0 ≤ v ∧ (colon = true ∨ v ≤ 2)) :
    (groupsOf colon (underComps colon o)).foldl sgrGroup (a, .none) =
      ({ a with under := (o.map Int.toNat).getD a.under }, .none) := by
  cases o with
  | none => simp [underComps, groupsOf_nil]
  | some v =>
    obtain ⟨h0, hc⟩ := h v rfl
    simp only [underComps, Option.map_some, Option.getD_some]
    by_cases hv0 : v = 0
    · subst hv0
      cases colon <;> simp [groupsOf, sgrGroup, sgrSimple, Tickit.Gen.Sgr.sgrOff]
    · simp only [hv0, if_false]
      by_cases hv1 : v = 1
      · subst hv1
        cases colon <;> simp [groupsOf, sgrGroup, sgrSimple, Tickit.Gen.Sgr.sgrOn]
      · simp only [hv1, if_false]
        cases colon with
        | true => simp [groupsOf, sgrGroup, sgrSub, Tickit.Gen.Sgr.sgrOn]
        | false =>
          have hv2 : v = 2 := by
            rcases hc with hc | hc
            · cases hc
            · omega
          subst hv2
          simp [groupsOf, sgrGroup, sgrSimple, Tickit.Gen.Sgr.underDouble]

theorem fold_altfont (colon : Bool) (o : Option Int) (a : Attrs) :
    (groupsOf colon (altfontComps o)).foldl sgrGroup (a, .none) =
      ({ a with font := (o.map expectFont).getD a.font }, .none) := by
  cases o with
  | none => simp [altfontComps, groupsOf_nil]
  | some v =>
    simp only [altfontComps, Option.map_some, Option.getD_some, expectFont]
    by_cases hv : v < 0 ∨ v ≥ 10
    · simp only [hv, if_true]
      rw [if_neg (by omega)]
      cases colon <;> simp [groupsOf, sgrGroup, sgrSimple, Tickit.Gen.Sgr.sgrOff]
    · simp only [hv, if_false]
      have hs : sgrGroup (a, Pend.none) [some (Tickit.Gen.Sgr.sgrOn 8 + v.toNat)] = (sgrSimple (10 + v.toNat) a, Pend.none) :=
        sgrGroup_simple a _ (by simp [Tickit.Gen.Sgr.sgrOn]; omega) (by simp [Tickit.Gen.Sgr.sgrOn]; omega)
      have hf : sgrSimple (10 + v.toNat) a = { a with font := v.toNat } := sgrSimple_font _ (by omega) a
      by_cases h19 : 1 ≤ v ∧ v ≤ 9
      · rw [if_pos h19]
        cases colon <;> simp [groupsOf, hs, hf]
      · rw [if_neg h19]
        have : v.toNat = 0 := by omega
        rw [this] at hs hf
        simp only [Nat.add_zero] at hs hf
        cases colon <;> simp [groupsOf, hs, hf, this]

theorem fold_sizepos (colon : Bool) (o : Option Int) (a : Attrs)
    (h : ∀ v, o = some v → v = 0 ∨ v = Tickit.Gen.Sgr.sizeposSuperscript ∨ v = Tickit.Gen.Sgr.sizeposSubscript) :
    (groupsOf colon (sizeposComps o)).foldl sgrGroup (a, .none) =
      ({ a with sizepos := (o.map expectSizepos).getD a.sizepos }, .none) := by
  cases o with
  | none => simp [sizeposComps, groupsOf_nil]
  | some v =>
    rcases h v rfl with h | h | h <;> subst h <;>
      cases colon <;>
      simp [sizeposComps, groupsOf, sgrGroup, sgrSimple, expectSizepos, Tickit.Gen.Sgr.sgrOff,
        Tickit.Gen.Sgr.sizeposSuperscript, Tickit.Gen.Sgr.sizeposSubscript, Tickit.Gen.Sgr.sizeposSmall]

/-- The SGR interpreter on everything the xterm driver sends for a delta: exactly the attributes present
    in the delta change, to the values the delta asks for. -/
theorem fold_comps (caps : Caps) (d : Pen) (a : Attrs) (hd : DeltaOk caps d) (hf : a.faint = false) :
    (groupsOf caps.colon (comps caps d)).foldl sgrGroup (a, .none) = (ovAttrs caps d a, .none) := by
  unfold comps
  simp only [groupsOf_append, List.foldl_append]
  rw [fold_colour_fg, fold_colour_bg, fold_bold _ _ _ (by exact hf), fold_under _ _ _ hd.under, fold_italic, fold_reverse,
    fold_strike, fold_altfont, fold_blink, fold_sizepos _ _ _ hd.sizepos]
  rfl

theorem sgrApply_comps (caps : Caps) (d : Pen) (a : Attrs) (hd : DeltaOk caps d) (hf : a.faint = false) :
    sgrApply (groupsOf caps.colon (comps caps d)) a = ovAttrs caps d a := by
  simp [sgrApply, fold_comps caps d a hd hf]

theorem comps_nonempty (caps : Caps) (d : Pen) : ∀ c ∈ comps caps d, c ≠ [] := by
  intro c hc
  simp only [comps, List.mem_append] at hc
  have hcol : ∀ attr rgb8 o, c ∈ colourComps attr rgb8 o → c ≠ [] := by
    intro attr rgb8 o h
    unfold colourComps at h
    split at h
    · simp at h
    · repeat' split at h
      all_goals (simp at h; subst h; simp)
  have hbool : ∀ attr o, c ∈ boolComps attr o → c ≠ [] := by
    intro attr o h
    unfold boolComps at h
    split at h
    · simp at h
    · simp at h; subst h; simp
  rcases hc with ((((((((h | h) | h) | h) | h) | h) | h) | h) | h) | h
  · exact hcol _ _ _ h
  · exact hcol _ _ _ h
  · exact hbool _ _ h
  · unfold underComps at h
    split at h
    · simp at h
    · repeat' split at h
      all_goals (simp at h; subst h; simp)
  · exact hbool _ _ h
  · exact hbool _ _ h
  · exact hbool _ _ h
  · unfold altfontComps at h
    split at h
    · simp at h
    · repeat' split at h
      all_goals (simp at h; subst h; simp)
  · exact hbool _ _ h
  · unfold sizeposComps at h
    split at h
    · simp at h
    · repeat' split at h
      all_goals (simp at h; try (subst h; simp))

/-! ### 5. term.c: cache and delta move together -/

theorem stepBool_expect (set : Bool) (c p : Option Bool) :
    getBool (stepBool set c p).1 = ((stepBool set c p).2).getD (getBool c) := by
  unfold stepBool
  split
  · rfl
  · split <;> rfl

theorem stepInt_expect {α : Type} (f : Int → α) (set : Bool) (c p : Option Int) :
    f (getInt (stepInt set c p).1) = (((stepInt set c p).2).map f).getD (f (getInt c)) := by
  unfold stepInt
  split
  · rfl
  · split <;> rfl

theorem stepColour_expect (rgb8 set : Bool) (colors : Int) (c p : Option Colour) :
    expectColour rgb8 (stepColour set colors c p).1 =
      ovColour rgb8 (stepColour set colors c p).2 (expectColour rgb8 c) := by
  unfold stepColour
  split
  · rfl
  · split
    · rfl
    · split
      · simp only
        split <;> rfl
      · rfl

/-- What the cached pen asks for after a request = what it asked for before, overlaid with the delta. -/
theorem expect_step (caps : Caps) (set : Bool) (colors : Int) (cache pen : Pen) :
    expectAttrs caps (termCache set colors cache pen) =
      ovAttrs caps (termDelta set colors cache pen) (expectAttrs caps cache) := by
  simp only [expectAttrs, ovAttrs, termCache, termDelta, Attrs.mk.injEq]
  refine ⟨stepColour_expect _ _ _ _ _, stepColour_expect _ _ _ _ _, stepBool_expect _ _ _, trivial, stepBool_expect _ _ _,
    stepInt_expect Int.toNat _ _ _, stepBool_expect _ _ _, stepBool_expect _ _ _, stepBool_expect _ _ _,
    stepInt_expect expectFont _ _ _, stepInt_expect expectSizepos _ _ _, trivial⟩

/-! ### 6. one request preserves "terminal = cached pen" -/

theorem deltaOk_termDelta (caps : Caps) (set : Bool) (colors : Int) (cache p : Pen) (h : DeltaOk caps p) :
    DeltaOk caps (termDelta set colors cache p) := by
  constructor
  · intro v hv
    simp only [termDelta, stepInt] at hv
    split at hv
    · cases hv
    · split at hv
      · cases hv
      · cases hu : p.under with
        | none => simp [hu, getInt] at hv; subst hv; exact ⟨by omega, Or.inr (by omega)⟩
        | some w => simp [hu, getInt] at hv; subst hv; exact h.under w hu
  · intro v hv
    simp only [termDelta, stepInt] at hv
    split at hv
    · cases hv
    · split at hv
      · cases hv
      · cases hu : p.sizepos with
        | none => simp [hu, getInt] at hv; subst hv; exact Or.inl rfl
        | some w => simp [hu, getInt] at hv; subst hv; exact h.sizepos w hu

theorem colourComps_eq_nil (attr : Nat) (rgb8 : Bool) (o : Option Colour) (h : colourComps attr rgb8 o = []) : o = none := by
  cases o with
  | none => rfl
  | some c =>
    unfold colourComps at h
    simp only at h
    repeat' split at h
    all_goals simp at h

theorem boolComps_eq_nil (attr : Nat) (o : Option Bool) (h : boolComps attr o = []) : o = none := by
  cases o with
  | none => rfl
  | some c => simp [boolComps] at h

theorem underComps_eq_nil (colon : Bool) (o : Option Int) (h : underComps colon o = []) : o = none := by
  cases o with
  | none => rfl
  | some c =>
    unfold underComps at h
    simp only at h
    repeat' split at h
    all_goals simp at h

theorem altfontComps_eq_nil (o : Option Int) (h : altfontComps o = []) : o = none := by
  cases o with
  | none => rfl
  | some c =>
    unfold altfontComps at h
    simp only at h
    repeat' split at h
    all_goals simp at h

theorem sizeposComps_eq_nil (o : Option Int)
    (hok : ∀ v, o = some v → v = 0 ∨ v = Tickit.Gen.Sgr.sizeposSuperscript ∨ v = Tickit.Gen.Sgr.sizeposSubscript)
    (h : sizeposComps o = []) : o = none := by
  cases o with
  | none => rfl
  | some c =>
    exfalso
    rcases hok c rfl with h0 | h0 | h0 <;> subst h0 <;>
      simp [sizeposComps, Tickit.Gen.Sgr.sizeposSuperscript, Tickit.Gen.Sgr.sizeposSubscript] at h

/-- Nothing to send ⇒ the delta is empty ⇒ nothing is asked to change. -/
theorem ovAttrs_of_comps_nil (caps : Caps) (d : Pen) (a : Attrs) (hd : DeltaOk caps d) (h : comps caps d = []) :
    ovAttrs caps d a = a := by
  simp only [comps, List.append_eq_nil_iff] at h
  obtain ⟨⟨⟨⟨⟨⟨⟨⟨⟨h1, h2⟩, h3⟩, h4⟩, h5⟩, h6⟩, h7⟩, h8⟩, h9⟩, h10⟩ := h
  have e1 := colourComps_eq_nil _ _ _ h1
  have e2 := colourComps_eq_nil _ _ _ h2
  have e3 := boolComps_eq_nil _ _ h3
  have e4 := underComps_eq_nil _ _ h4
  have e5 := boolComps_eq_nil _ _ h5
  have e6 := boolComps_eq_nil _ _ h6
  have e7 := boolComps_eq_nil _ _ h7
  have e8 := altfontComps_eq_nil _ h8
  have e9 := boolComps_eq_nil _ _ h9
  have e10 := sizeposComps_eq_nil _ hd.sizepos h10
  simp [ovAttrs, ovColour, e1, e2, e3, e4, e5, e6, e7, e8, e9, e10]

/-- A pen with nothing non-default asks for the default rendering. -/
theorem expect_of_not_nondefault (caps : Caps) (p : Pen) (h : isNondefault p = false) : expectAttrs caps p = {} := by
  simp only [isNondefault, Bool.or_eq_false_iff, Bool.and_eq_false_iff] at h
  obtain ⟨⟨⟨⟨⟨⟨⟨⟨⟨h1, h2⟩, h3⟩, h4⟩, h5⟩, h6⟩, h7⟩, h8⟩, h9⟩, h10⟩ := h
  have c1 : expectColour caps.rgb8 p.fg = .dflt := by
    cases hp : p.fg with
    | none => rfl
    | some c =>
      have : c.idx = -1 := by simpa [hp, getColour] using h1
      simp [expectColour, this]
  have c2 : expectColour caps.rgb8 p.bg = .dflt := by
    cases hp : p.bg with
    | none => rfl
    | some c =>
      have : c.idx = -1 := by simpa [hp, getColour] using h2
      simp [expectColour, this]
  have c4 : (getInt p.under).toNat = 0 := by
    cases hp : p.under with
    | none => rfl
    | some v =>
      have : ¬ (v > 0) := by simpa [hp, getInt] using h4
      simp [getInt]; omega
  have c8 : expectFont (getInt p.altfont) = 0 := by
    cases hp : p.altfont with
    | none => rfl
    | some v =>
      have : ¬ (v > 0) := by simpa [hp, getInt] using h8
      show expectFont v = 0
      unfold expectFont
      split
      · omega
      · rfl
  have c10 : expectSizepos (getInt p.sizepos) = .normal := by
    cases hp : p.sizepos with
    | none => rfl
    | some v =>
      have : ¬ (v > 0) := by simpa [hp, getInt] using h10
      show expectSizepos v = .normal
      unfold expectSizepos
      split
      · rename_i h; simp [Tickit.Gen.Sgr.sizeposSuperscript] at h; omega
      · split
        · rename_i h; simp [Tickit.Gen.Sgr.sizeposSubscript] at h; omega
        · split
          · rename_i h; simp [Tickit.Gen.Sgr.sizeposSmall] at h; omega
          · rfl
  simp [expectAttrs, c1, c2, h3, c4, h5, h6, h7, c8, h9, c10]

/-- "the terminal renders with what the cached pen says" -/
def Inv (caps : Caps) (st : TState) : Prop :=
  st.vt.st = .ground ∧ st.vt.attrs = expectAttrs caps st.cache

theorem inv_init (caps : Caps) : Inv caps {} := ⟨rfl, rfl⟩

theorem step_inv (cfg : Cfg) (st st' : TState) (op : Op) (hok : DeltaOk cfg.caps op.pen) (hinv : Inv cfg.caps st)
    (h : step cfg st op = some st') :
    Inv cfg.caps st' ∧ st'.cache = termCache op.isSet cfg.colors st.cache op.pen := by
  obtain ⟨hg, ha⟩ := hinv
  have hd := deltaOk_termDelta cfg.caps op.isSet cfg.colors st.cache op.pen hok
  have hexp := expect_step cfg.caps op.isSet cfg.colors st.cache op.pen
  have hne := comps_nonempty cfg.caps (termDelta op.isSet cfg.colors st.cache op.pen)
  have hvt : st.vt = ⟨.ground, expectAttrs cfg.caps st.cache⟩ := by
    cases hv : st.vt with
    | mk s a => simp [hv] at hg ha; simp [hg, ha]
  unfold step emit xtermChpen at h
  simp only at h
  split at h
  · cases h
  · rename_i bs hbs
    simp only [Option.some.injEq] at h
    subst h
    refine ⟨?_, rfl⟩
    split at hbs
    · cases hbs
    · split at hbs
      · -- nothing to send
        rename_i hlen
        simp only [Out.bytes.injEq] at hbs
        subst hbs
        have hfl : flatten (comps cfg.caps (termDelta op.isSet cfg.colors st.cache op.pen)) = [] :=
          List.eq_nil_of_length_eq_zero hlen
        have hc := (flatten_eq_nil _ hne).1 hfl
        have := ovAttrs_of_comps_nil cfg.caps _ (expectAttrs cfg.caps st.cache) hd hc
        refine ⟨by simpa [run] using hg, ?_⟩
        simp only [run, List.foldl_nil]
        rw [ha, hexp, this]
      · split at hbs
        · -- empty-SGR shortcut
          rename_i hnd
          simp only [Out.bytes.injEq] at hbs
          subst hbs
          have hnd' : isNondefault (termCache op.isSet cfg.colors st.cache op.pen) = false := by simpa using hnd
          rw [hvt, run_renderSgr]
          refine ⟨rfl, ?_⟩
          simp only [groupsFlat]
          rw [expect_of_not_nondefault _ _ hnd']
          simp [sgrApply, sgrGroup, sgrSimple, Attrs.reset, expectAttrs]
        · rename_i hlen hnd
          simp only [Out.bytes.injEq] at hbs
          subst hbs
          have hcs : comps cfg.caps (termDelta op.isSet cfg.colors st.cache op.pen) ≠ [] := by
            intro hc
            rw [hc] at hlen
            exact hlen rfl
          rw [hvt, run_renderSgr]
          refine ⟨rfl, ?_⟩
          simp only
          rw [groupsFlat_flatten _ _ hcs hne, List.nil_append, sgrApply_comps _ _ _ hd (by rfl), hexp]

theorem runOps_inv (cfg : Cfg) (ops : List Op) (st st' : TState) (hok : ∀ op ∈ ops, DeltaOk cfg.caps op.pen)
    (hinv : Inv cfg.caps st) (h : runOps cfg ops st = some st') : Inv cfg.caps st' := by
  induction ops generalizing st with
  | nil => simp [runOps] at h; subst h; exact hinv
  | cons op ops ih =>
    simp only [runOps] at h
    split at h
    · cases h
    · rename_i st1 hst
      exact ih st1 (fun o ho => hok o (by simp [ho])) (step_inv cfg st st1 op (hok op (by simp)) hinv hst).1 h

/-! ### 7. the palette and the link between cached and logical pen -/

theorem palette_entry (i : Nat) :
    Tickit.Gen.Palette.as16.getD i 0 < 16 ∧ Tickit.Gen.Palette.as8.getD i 0 < 8 := by
  have htab : Tickit.Gen.Palette.as16.size = 256 ∧ Tickit.Gen.Palette.as8.size = 256 ∧
      (∀ i : Fin 256, Tickit.Gen.Palette.as16.getD i.val 0 < 16 ∧ Tickit.Gen.Palette.as8.getD i.val 0 < 8) := by
    decide +kernel
  by_cases h : i < 256
  · exact htab.2.2 ⟨i, h⟩
  · have h16 : Tickit.Gen.Palette.as16.getD i 0 = 0 := by
      simp [Array.getD, htab.1]; omega
    have h8 : Tickit.Gen.Palette.as8.getD i 0 = 0 := by
      simp [Array.getD, htab.2.1]; omega
    omega

theorem convertColour_lt (index colors : Int) (h8 : 8 ≤ colors) : convertColour index colors < colors := by
  unfold convertColour
  have := palette_entry index.toNat
  split <;> omega

theorem convertColour_nonneg (index colors : Int) : 0 ≤ convertColour index colors := by
  unfold convertColour
  split <;> omega

theorem convColour_lt (colors : Int) (c : Colour) (h8 : 8 ≤ colors) : (convColour colors c).idx < colors := by
  unfold convColour
  split
  · exact convertColour_lt _ _ h8
  · omega

theorem convColour_of_lt (colors : Int) (c : Colour) (h : c.idx < colors) : convColour colors c = c := by
  unfold convColour
  rw [if_neg (by omega)]

theorem copyColour_some (x : Colour) : copyColour (some x) = x := by
  cases x with
  | mk idx rgb => cases rgb <;> rfl

theorem equivColour_refl (x : Colour) : equivColour (some x) (some x) = true := by
  cases x with
  | mk idx rgb => cases rgb <;> simp [equivColour, getColour, hasRgb, getRgb]

theorem equivColour_some_some (x y : Colour) (h : equivColour (some y) (some x) = true) : y = x := by
  cases x with
  | mk xi xr =>
    cases y with
    | mk yi yr =>
      cases xr with
      | none => cases yr <;> simp_all [equivColour, getColour, hasRgb]
      | some a =>
        cases yr with
        | none => simp_all [equivColour, getColour, hasRgb]
        | some b =>
          cases a; cases b
          simp_all [equivColour, getColour, hasRgb, getRgb]

theorem equivColour_some_none (y : Colour) (h : equivColour (some y) none = true) : y = ⟨-1, none⟩ := by
  cases y with
  | mk yi yr => cases yr <;> simp_all [equivColour, getColour, hasRgb]

theorem stepBool_link (set : Bool) (c p : Option Bool) :
    (stepBool set c p).1 = if set then some (getBool p) else ov p c := by
  cases set <;> cases c <;> cases p <;> simp [stepBool, ov, getBool] <;> split <;> simp_all

theorem stepInt_link (set : Bool) (c p : Option Int) :
    (stepInt set c p).1 = if set then some (getInt p) else ov p c := by
  cases set <;> cases c <;> cases p <;> simp [stepInt, ov, getInt] <;> split <;> simp_all

theorem stepColour_fresh (colors : Int) (x : Colour) :
    (if getColour (some x) ≥ colors then
        ((some ({ idx := convertColour (getColour (some x)) colors, rgb := none } : Colour)),
         (some ({ idx := convertColour (getColour (some x)) colors, rgb := none } : Colour)))
      else (some (copyColour (some x)), some (copyColour (some x)))).1 = some (convColour colors x) := by
  by_cases h : getColour (some x) ≥ colors
  · rw [if_pos h]
    have h' : x.idx ≥ colors := h
    unfold convColour
    rw [if_pos h']
    rfl
  · rw [if_neg h]
    have h' : ¬ x.idx ≥ colors := h
    unfold convColour
    rw [if_neg h', copyColour_some]

theorem colour_of_idx_noRgb (y : Colour) (i : Int)
    (h : (getColour (some y) == i && !hasRgb (some y)) = true) : y = ⟨i, none⟩ := by
  cases y with
  | mk yi yr => cases yr <;> simp_all [getColour, hasRgb]

theorem stepColour_fresh' (colors : Int) (x y : Colour) :
    (if getColour (some x) ≥ colors then
        if (getColour (some y) == convertColour (getColour (some x)) colors && !hasRgb (some y)) = true then
          (some y, (none : Option Colour))
        else
          ((some ({ idx := convertColour (getColour (some x)) colors, rgb := none } : Colour)),
           (some ({ idx := convertColour (getColour (some x)) colors, rgb := none } : Colour)))
      else (some (copyColour (some x)), some (copyColour (some x)))).1 = some (convColour colors x) := by
  by_cases h : getColour (some x) ≥ colors
  · rw [if_pos h]
    have h' : x.idx ≥ colors := h
    by_cases hy : (getColour (some y) == convertColour (getColour (some x)) colors && !hasRgb (some y)) = true
    · rw [if_pos hy, colour_of_idx_noRgb y _ hy]
      unfold convColour
      rw [if_pos h']
      rfl
    · rw [if_neg hy]
      unfold convColour
      rw [if_pos h']
      rfl
  · rw [if_neg h]
    have h' : ¬ x.idx ≥ colors := h
    unfold convColour
    rw [if_neg h', copyColour_some]

theorem stepColour_link (set : Bool) (colors : Int) (l p : Option Colour) (h8 : 8 ≤ colors) :
    (stepColour set colors (l.map (convColour colors)) p).1 =
      (if set then some (p.getD ⟨-1, none⟩) else ov p l).map (convColour colors) := by
  have hdef : convColour colors ⟨-1, none⟩ = ⟨-1, none⟩ := convColour_of_lt _ _ (by show (-1 : Int) < colors; omega)
  have hnone : ¬ (getColour none ≥ colors) := by show ¬ ((-1 : Int) ≥ colors); omega
  cases p with
  | none =>
    cases set
    · simp [stepColour, ov]
    · simp only [stepColour, Bool.not_true, Bool.false_and, Bool.false_eq_true, if_false, if_true, Option.getD_none,
        Option.map_some, hdef]
      cases l with
      | none =>
        simp only [Option.map_none, Option.isSome_none, Bool.false_and, Bool.false_eq_true, if_false]
        rw [if_neg hnone]
        rfl
      | some z =>
        simp only [Option.map_some, Option.isSome_some, Bool.true_and]
        split
        · rename_i he
          rw [equivColour_some_none _ he]
        · first
            | rfl
            | (rw [if_neg hnone]; rfl)
  | some x =>
    have hgoal : (stepColour set colors (l.map (convColour colors)) (some x)).1 = some (convColour colors x) := by
      simp only [stepColour, Option.isNone_some, Bool.and_false, Bool.false_eq_true, if_false]
      cases l with
      | none =>
        simp only [Option.map_none, Option.isSome_none, Bool.false_and, Bool.false_eq_true, if_false]
        exact stepColour_fresh colors x
      | some z =>
        simp only [Option.map_some, Option.isSome_some, Bool.true_and]
        split
        · rename_i he
          have hy := equivColour_some_some _ _ he
          have hlt := convColour_lt colors z h8
          rw [hy] at hlt ⊢
          rw [convColour_of_lt _ _ hlt]
        · exact stepColour_fresh' colors x (convColour colors z)
    rw [hgoal]
    cases set <;> simp [ov]

/-- The cached pen stays the palette-converted logical pen. -/
theorem termCache_conv (colors : Int) (h8 : 8 ≤ colors) (l : Pen) (op : Op) :
    termCache op.isSet colors (convPen colors l) op.pen = convPen colors (logicalStep l op) := by
  cases op with
  | set p =>
    simp only [Op.isSet, Op.pen, logicalStep, termCache, convPen, total, stepBool_link, stepInt_link,
      stepColour_link _ _ _ _ h8, if_true, Option.map_some]
  | ch p =>
    simp only [Op.isSet, Op.pen, logicalStep, termCache, convPen, overlay, stepBool_link, stepInt_link,
      stepColour_link _ _ _ _ h8, Bool.false_eq_true, if_false]

theorem runOps_cache (cfg : Cfg) (h8 : 8 ≤ cfg.colors) (ops : List Op) (st st' : TState) (l : Pen)
    (hl : st.cache = convPen cfg.colors l) (h : runOps cfg ops st = some st') :
    st'.cache = convPen cfg.colors (ops.foldl logicalStep l) := by
  induction ops generalizing st l with
  | nil => simp [runOps] at h; subst h; simpa using hl
  | cons op ops ih =>
    simp only [runOps] at h
    split at h
    · cases h
    · rename_i st1 hst
      have hc : st1.cache = termCache op.isSet cfg.colors st.cache op.pen := by
        unfold step at hst
        split at hst
        · cases hst
        · simp only [Option.some.injEq] at hst; subst hst; rfl
      simp only [List.foldl_cons]
      exact ih st1 (logicalStep l op) (by rw [hc, hl, termCache_conv _ h8]) h

/-! ### 8. overlay at the level of rendering attributes -/

theorem ovColour_ov (rgb8 : Bool) (q c : Option Colour) :
    expectColour rgb8 (ov q c) = ovColour rgb8 q (expectColour rgb8 c) := by
  cases q <;> rfl

theorem expect_overlay (caps : Caps) (c q : Pen) :
    expectAttrs caps (overlay c q) = ovAttrs caps q (expectAttrs caps c) := by
  simp only [expectAttrs, ovAttrs, overlay, Attrs.mk.injEq, ovColour_ov]
  refine ⟨trivial, trivial, ?_, trivial, ?_, ?_, ?_, ?_, ?_, ?_, ?_, trivial⟩ <;>
    first
    | (cases q.bold <;> rfl) | (cases q.italic <;> rfl) | (cases q.under <;> rfl) | (cases q.blink <;> rfl)
    | (cases q.reverse <;> rfl) | (cases q.strike <;> rfl) | (cases q.altfont <;> rfl) | (cases q.sizepos <;> rfl)

theorem convPen_overlay (colors : Int) (l p : Pen) :
    convPen colors (overlay l p) = overlay (convPen colors l) (convPen colors p) := by
  simp only [convPen, overlay, Pen.mk.injEq]
  refine ⟨?_, ?_, trivial, trivial, trivial, trivial, trivial, trivial, trivial, trivial⟩
  · cases p.fg <;> rfl
  · cases p.bg <;> rfl

/-! ### 9. how many parameters -/

theorem length_flattenComp (c : Comp) : (flattenComp c).length = c.length := by
  induction c with
  | nil => rfl
  | cons v tl ih =>
    cases tl with
    | nil => rfl
    | cons w tl' => simp only [flattenComp, List.length_cons] at ih ⊢; omega

theorem flatten_append (xs ys : List Comp) : flatten (xs ++ ys) = flatten xs ++ flatten ys := by
  induction xs with
  | nil => rfl
  | cons c cs ih => simp [flatten, ih]

theorem length_flatten_colour (attr : Nat) (rgb8 : Bool) (o : Option Colour) :
    (flatten (colourComps attr rgb8 o)).length ≤ 5 := by
  unfold colourComps
  split
  · simp [flatten]
  · repeat' split
    all_goals simp [flatten, flattenComp]

theorem length_flatten_bool (attr : Nat) (o : Option Bool) : (flatten (boolComps attr o)).length ≤ 1 := by
  cases o <;> simp [boolComps, flatten, flattenComp]

theorem length_flatten_under (colon : Bool) (o : Option Int) : (flatten (underComps colon o)).length ≤ 2 := by
  unfold underComps
  split
  · simp [flatten]
  · repeat' split
    all_goals simp [flatten, flattenComp]

theorem length_flatten_altfont (o : Option Int) : (flatten (altfontComps o)).length ≤ 1 := by
  unfold altfontComps
  split
  · simp [flatten]
  · repeat' split
    all_goals simp [flatten, flattenComp]

theorem length_flatten_sizepos (o : Option Int) : (flatten (sizeposComps o)).length ≤ 1 := by
  unfold sizeposComps
  split
  · simp [flatten]
  · repeat' split
    all_goals simp [flatten, flattenComp]

/-- No delta needs more than 19 elements of `params[]`. -/
theorem length_flatten_comps (caps : Caps) (d : Pen) : (flatten (comps caps d)).length ≤ 19 := by
  unfold comps
  simp only [flatten_append, List.length_append]
  have h1 := length_flatten_colour 1 caps.rgb8 d.fg
  have h2 := length_flatten_colour 2 caps.rgb8 d.bg
  have h3 := length_flatten_bool 3 d.bold
  have h4 := length_flatten_under caps.colon d.under
  have h5 := length_flatten_bool 5 d.italic
  have h6 := length_flatten_bool 6 d.reverse
  have h7 := length_flatten_bool 7 d.strike
  have h8 := length_flatten_altfont d.altfont
  have h9 := length_flatten_bool 9 d.blink
  have h10 := length_flatten_sizepos d.sizepos
  omega

/-! ### 10. a request that leaves the logical pen unchanged -/

theorem stepBool_noop (set : Bool) (l p : Option Bool) (h : (if set then some (getBool p) else ov p l) = l) :
    (stepBool set l p).2 = none := by
  cases set <;> cases l <;> cases p <;> simp_all [stepBool, ov, getBool]

theorem stepInt_noop (set : Bool) (l p : Option Int) (h : (if set then some (getInt p) else ov p l) = l) :
    (stepInt set l p).2 = none := by
  cases set <;> cases l <;> cases p <;> simp_all [stepInt, ov, getInt]

theorem stepColour_noop (set : Bool) (colors : Int) (h8 : 8 ≤ colors) (l p : Option Colour)
    (h : (if set then some (p.getD ⟨-1, none⟩) else ov p l) = l) :
    (stepColour set colors (l.map (convColour colors)) p).2 = none := by
  have hdef : convColour colors ⟨-1, none⟩ = ⟨-1, none⟩ := convColour_of_lt _ _ (by show (-1 : Int) < colors; omega)
  cases p with
  | none =>
    cases set
    · simp [stepColour]
    · simp only [if_true, Option.getD_none] at h
      subst h
      simp only [stepColour, Bool.not_true, Bool.false_and, Bool.false_eq_true, if_false, Option.map_some, hdef,
        Option.isSome_some, Bool.true_and]
      have : equivColour (some ⟨-1, none⟩) none = true := by simp [equivColour, getColour, hasRgb]
      rw [if_pos this]
  | some x =>
    have hl : l = some x := by
      cases set <;> simp_all [ov]
    subst hl
    by_cases hx : x.idx < colors
    · have hx' := convColour_of_lt _ _ hx
      simp only [stepColour, Option.isNone_some, Bool.and_false, Bool.false_eq_true, if_false, Option.map_some, hx',
        Option.isSome_some, Bool.true_and]
      rw [if_pos (equivColour_refl x)]
    · -- beyond the palette: the cached pen holds the converted index, which is what the repaired code compares with
      have hge : getColour (some x) ≥ colors := by show x.idx ≥ colors; omega
      have hconv : convColour colors x = ⟨convertColour (getColour (some x)) colors, none⟩ := by
        unfold convColour
        rw [if_pos (by omega)]
        rfl
      simp only [stepColour, Option.isNone_some, Bool.and_false, Bool.false_eq_true, if_false, Option.map_some,
        Option.isSome_some, Bool.true_and]
      split
      · rfl
      · first
          | (rw [hconv]; simp [getColour, hasRgb])
          | (rw [if_pos hge, hconv]; simp [getColour, hasRgb])
          | (rename_i hc; exact absurd hge hc)

/-- If the request does not change the logical pen, the delta is empty. -/
theorem termDelta_noop (colors : Int) (h8 : 8 ≤ colors) (l : Pen) (op : Op)
    (h : logicalStep l op = l) : termDelta op.isSet colors (convPen colors l) op.pen = {} := by
  cases op with
  | set p =>
    simp only [logicalStep, total] at h
    simp only [Op.isSet, Op.pen, termDelta, convPen, Pen.mk.injEq]
    refine ⟨stepColour_noop true colors h8 _ _ ?_, stepColour_noop true colors h8 _ _ ?_, stepBool_noop true _ _ ?_,
      stepInt_noop true _ _ ?_, stepBool_noop true _ _ ?_, stepBool_noop true _ _ ?_, stepBool_noop true _ _ ?_,
      stepInt_noop true _ _ ?_, stepBool_noop true _ _ ?_, stepInt_noop true _ _ ?_⟩
    · exact congrArg Pen.fg h
    · exact congrArg Pen.bg h
    · exact congrArg Pen.bold h
    · exact congrArg Pen.under h
    · exact congrArg Pen.italic h
    · exact congrArg Pen.reverse h
    · exact congrArg Pen.strike h
    · exact congrArg Pen.altfont h
    · exact congrArg Pen.blink h
    · exact congrArg Pen.sizepos h
  | ch p =>
    simp only [logicalStep, overlay] at h
    simp only [Op.isSet, Op.pen, termDelta, convPen, Pen.mk.injEq]
    refine ⟨stepColour_noop false colors h8 _ _ ?_, stepColour_noop false colors h8 _ _ ?_, stepBool_noop false _ _ ?_,
      stepInt_noop false _ _ ?_, stepBool_noop false _ _ ?_, stepBool_noop false _ _ ?_, stepBool_noop false _ _ ?_,
      stepInt_noop false _ _ ?_, stepBool_noop false _ _ ?_, stepInt_noop false _ _ ?_⟩
    · exact congrArg Pen.fg h
    · exact congrArg Pen.bg h
    · exact congrArg Pen.bold h
    · exact congrArg Pen.under h
    · exact congrArg Pen.italic h
    · exact congrArg Pen.reverse h
    · exact congrArg Pen.strike h
    · exact congrArg Pen.altfont h
    · exact congrArg Pen.blink h
    · exact congrArg Pen.sizepos h

theorem xtermChpen_empty (caps : Caps) (cap : Nat) (final : Pen) : xtermChpen caps cap {} final = .bytes [] := by
  simp [xtermChpen, comps, colourComps, boolComps, underComps, altfontComps, sizeposComps, flatten]

/-! ### 11. histories -/

theorem runOps_append (cfg : Cfg) (xs ys : List Op) (st : TState) :
    runOps cfg (xs ++ ys) st = (runOps cfg xs st).bind (runOps cfg ys) := by
  induction xs generalizing st with
  | nil => rfl
  | cons x xs ih =>
    simp only [List.cons_append, runOps]
    split
    · rfl
    · exact ih _

theorem logical_snoc (ops : List Op) (op : Op) : logical (ops ++ [op]) = logicalStep (logical ops) op := by
  simp [logical, List.foldl_append]

end Tickit.Proof.Sgr
