import Tickit.Proof.WinExpose
/-
  `flushRender` (the rendering half of `tickit_window_flush`) in terms of the invariants of `Proof/WinExpose.lean`.
-/
namespace Tickit
namespace WinFlush
open WinTree WinRB WinSpec

/-- What every reachable state satisfies of its root window: it exists, is at the origin and is visible. -/
structure RootOk (t : Tree) : Prop where
  ex : ∃ w, t.wins[0]? = some w ∧ w.freed = false ∧ w.isVisible = true ∧ w.rect.top = 0 ∧ w.rect.left = 0

/-- Ownership only depends on the window store. -/
theorem ownerLoc_congr (t1 t2 : Tree) (h : t1.wins = t2.wins) :
    ∀ (fuel : Nat) (id : Id) (l c : Int), ownerLoc t1 fuel id l c = ownerLoc t2 fuel id l c := by
  intro fuel
  induction fuel with
  | zero => intro id l c; rfl
  | succ n ih =>
    intro id l c
    simp only [ownerLoc, h, ih]

theorem ownerAt_congr (t1 t2 : Tree) (h : t1.wins = t2.wins) (L C : Int) : ownerAt t1 L C = ownerAt t2 L C := by
  unfold ownerAt
  rw [h]
  exact ownerLoc_congr t1 t2 h _ _ _ _

theorem rootOk_congr {t1 t2 : Tree} (h : t2.wins = t1.wins) (hr : RootOk t1) : RootOk t2 := by
  obtain ⟨w, hw⟩ := hr.ex
  exact ⟨⟨w, by rw [h]; exact hw⟩⟩

theorem rendered_wins (t : Tree) : (rendered t).wins = t.wins := rfl

/-- `flushRender` either has nothing to render or runs `exposeRects` on a fresh buffer of the root's size. -/
theorem flushRender_cases (beh : Id → Rect → List DrawOp) (st st' : St) (t : Tree) (shots : List Shot)
    (h : flushRender beh st t = .ok (st', shots)) :
    (shots = [] ∧ st'.screen = st.screen ∧ st'.tree = { t with root := { t.root with needsRestore := false } } ∧
      t.root.needsExpose = false) ∨
    (∃ root s', t.wins[0]? = some root ∧ root.freed = false ∧ t.root.needsExpose = true ∧
      exposeRects beh (rendered t) st.pens (t.wins.size + 1) ⟨0, 0, root.rect.lines, root.rect.cols⟩
        (if root.isVisible then t.root.damage else [])
        (RB.new root.rect.lines root.rect.cols, []) = .ok s' ∧
      shots = s'.2 ∧ st'.tree = rendered t ∧ st'.screen = s'.1.flushToGrid st.screen) := by
  unfold flushRender at h
  cases hne : t.root.needsExpose with
  | false =>
    simp only [hne, pure, Pure.pure] at h
    simp at h
    obtain ⟨h1, h2⟩ := h
    subst h1 h2
    exact Or.inl ⟨rfl, rfl, (by simp [hne]), rfl⟩
  | true =>
    simp only [hne, bind, Bind.bind] at h
    cases hg : WinTree.get t 0 with
    | ub w => rw [hg] at h; simp at h
    | ok root =>
      rw [hg] at h
      have hr := get_ok hg
      simp only [if_true] at h
      cases he : exposeRects beh (rendered t) st.pens (t.wins.size + 1) ⟨0, 0, root.rect.lines, root.rect.cols⟩
        (if root.isVisible then t.root.damage else [])
          (RB.new root.rect.lines root.rect.cols, []) with
      | ub w => rw [he] at h; simp at h
      | ok s' =>
        rw [he] at h
        simp only [pure, Pure.pure] at h
        simp at h
        obtain ⟨h1, h2⟩ := h
        subst h1 h2
        exact Or.inr ⟨root, s', hr.1, hr.2, rfl, he, rfl, rfl, rfl⟩

/-- Every handler finds a buffer whose masks were made at levels not above the current one: a `restore` that closes a
    level the handler opened itself leaves them alone. -/
theorem flushRender_shots_masksLe (beh : Id → Rect → List DrawOp) (st st' : St) (t : Tree) (shots : List Shot)
    (h : flushRender beh st t = .ok (st', shots)) : ∀ sh ∈ shots, MasksLe sh.rb := by
  rcases flushRender_cases beh st st' t shots h with ⟨h1, _, _, _⟩ | ⟨root, s', _, _, _, he, hs, _, _⟩
  · subst h1; intro sh hsh; cases hsh
  · subst hs
    have hok := exposeRects_ok (rendered t) beh st.pens (fun _ _ _ => Cell.never) (t.wins.size + 1)
      ⟨0, 0, root.rect.lines, root.rect.cols⟩ _ _ s' he (neutral_new _ _) rfl
    exact hok.shotsMasks (fun sh hsh => by cases hsh)

theorem flushRender_inB (beh : Id → Rect → List DrawOp) (st st' : St) (t : Tree) (shots : List Shot)
    (h : flushRender beh st t = .ok (st', shots)) :
    ∀ sh ∈ shots, InB st'.tree sh.win sh.rect := by
  rcases flushRender_cases beh st st' t shots h with ⟨h1, _⟩ | ⟨root, s', hroot, _, _, he, hs, ht, _⟩
  · subst h1; intro sh hsh; cases hsh
  · subst hs
    rw [ht]
    exact exposeRects_inB (rendered t) beh st.pens _ root (by rw [rendered_wins]; exact hroot) _ _ s' he
      (by intro sh hsh; cases hsh)

theorem covered_iff_memb (rs : List Rect) (L C : Int) : Covered rs L C ↔ ∃ ρ ∈ rs, ρ.memb L C = true := by
  unfold Covered
  constructor
  · rintro ⟨r, hr, hm⟩; exact ⟨r, hr, (memb_true_iff _ _ _).2 hm⟩
  · rintro ⟨r, hr, hm⟩; exact ⟨r, hr, (memb_true_iff _ _ _).1 hm⟩

/-- The owner of a terminal cell when the root window is in order. -/
theorem ownerAt_eq (t : Tree) (root : Win) (hroot : t.wins[0]? = some root) (hf : root.freed = false)
    (hv : root.isVisible = true) (htop : root.rect.top = 0) (hleft : root.rect.left = 0) (L C : Int) :
    ownerAt t L C =
      if (⟨0, 0, root.rect.lines, root.rect.cols⟩ : Rect).memb L C = true then some (ownerSub t (t.wins.size + 1) 0 L C)
      else none := by
  unfold ownerAt
  rw [ownerLoc_eq t _ 0 root hroot]
  have hm : root.rect.memb L C = (⟨0, 0, root.rect.lines, root.rect.cols⟩ : Rect).memb L C := by
    simp only [Rect.memb, Rect.bottom, Rect.right, htop, hleft]
    rfl
  rw [hm, htop, hleft]
  cases (⟨0, 0, root.rect.lines, root.rect.cols⟩ : Rect).memb L C <;> simp [hf, hv]

theorem flushRender_shots (beh : Id → Rect → List DrawOp) (st st' : St) (t : Tree) (shots : List Shot)
    (h : flushRender beh st t = .ok (st', shots)) (hroot : RootOk t) :
    (∀ sh ∈ shots, ∀ L C, sh.rb.writable L C = true →
      Covered t.root.damage L C ∧ ownerAt st'.tree L C = some (sh.win, L - sh.rb.xl, C - sh.rb.xc)) ∧
    (t.root.needsExpose = true →
      ∀ L C, Covered t.root.damage L C → (ownerAt st'.tree L C).isSome = true → ∃ sh ∈ shots, sh.rb.writable L C = true) := by
  obtain ⟨root0, hr0, hf0, hv0, htop0, hleft0⟩ := hroot.ex
  rcases flushRender_cases beh st st' t shots h with ⟨h1, _, _, hne⟩ | ⟨root, s', hr, _, _, he, hs, ht, _⟩
  · subst h1
    exact ⟨fun sh hsh => (by cases hsh), fun hflag => (by rw [hne] at hflag; cases hflag)⟩
  · have hrr : root = root0 := by rw [hr] at hr0; exact Option.some.inj hr0
    subst hrr
    subst hs
    simp only [hv0, if_true] at he
    have hok := exposeRects_ok (rendered t) beh st.pens (fun _ _ _ => Cell.never) (t.wins.size + 1)
      ⟨0, 0, root.rect.lines, root.rect.cols⟩ _ _ s' he (neutral_new _ _) rfl
    obtain ⟨new, hnew, hsound, hcomp⟩ := hok.shots
    simp only [List.nil_append] at hnew
    have hown : ∀ L C, ownerAt st'.tree L C =
        if (⟨0, 0, root.rect.lines, root.rect.cols⟩ : Rect).memb L C = true
        then some (ownerSub (rendered t) (t.wins.size + 1) 0 L C) else none := by
      intro L C
      rw [ht]
      exact ownerAt_eq (rendered t) root hr hf0 hv0 htop0 hleft0 L C
    constructor
    · intro sh hsh L C hw
      rw [hnew] at hsh
      obtain ⟨hb, hρ, ho⟩ := hsound sh hsh L C hw
      refine ⟨(covered_iff_memb _ _ _).2 hρ, ?_⟩
      rw [hown]
      have hb' : (⟨0, 0, root.rect.lines, root.rect.cols⟩ : Rect).memb L C = true := hb
      rw [if_pos hb', ho]
    · intro _ L C hc ho
      rw [hown] at ho
      have hb : (⟨0, 0, root.rect.lines, root.rect.cols⟩ : Rect).memb L C = true := by
        cases hh : (⟨0, 0, root.rect.lines, root.rect.cols⟩ : Rect).memb L C with
        | true => rfl
        | false => rw [hh] at ho; simp at ho
      obtain ⟨sh, hsh, hshw⟩ := hcomp L C hb ((covered_iff_memb _ _ _).1 hc)
      exact ⟨sh, by rw [hnew]; exact hsh, hshw⟩

/-- A terminal cell changed by the rendering is a damaged cell. -/
theorem flushRender_frame (beh : Id → Rect → List DrawOp) (st st' : St) (t : Tree) (shots : List Shot)
    (h : flushRender beh st t = .ok (st', shots)) :
    ∀ L C, st'.screen L C ≠ st.screen L C → Covered t.root.damage L C := by
  intro L C hne
  rcases flushRender_cases beh st st' t shots h with ⟨_, hs, _⟩ | ⟨root, s', hr, _, _, he, _, _, hscr⟩
  · rw [hs] at hne; exact absurd rfl hne
  · have hok := exposeRects_ok (rendered t) beh st.pens (fun _ _ _ => Cell.never) (t.wins.size + 1)
      ⟨0, 0, root.rect.lines, root.rect.cols⟩ _ _ s' he (neutral_new _ _) rfl
    apply Classical.byContradiction
    intro hnc
    have hall : ∀ ρ ∈ t.root.damage, ρ.memb L C = false := by
      intro ρ hρ
      cases hh : ρ.memb L C with
      | false => rfl
      | true => exact absurd ((covered_iff_memb _ _ _).2 ⟨ρ, hρ, hh⟩) hnc
    have := hok.frame L C (Or.inr (by
      intro ρ hρ
      split at hρ
      · exact hall ρ hρ
      · cases hρ))
    simp only [RB.new] at this
    rw [hscr] at hne
    simp only [RB.flushToGrid, resolve_none this] at hne
    exact absurd rfl hne

/-- When every handler invocation of the rendering repaints what it is asked to (in the buffer it finds), after the
    rendering every damaged cell inside the root window shows the content of its owner. -/
theorem flushRender_content_at (beh : Id → Rect → List DrawOp) (content : Id → Int → Int → Cell)
    (st st' : St) (t : Tree) (shots : List Shot)
    (h : flushRender beh st t = .ok (st', shots)) (hroot : RootOk t) (hflag : t.root.needsExpose = true)
    (hrep : ∀ sh ∈ shots, RepaintsAt content beh sh) :
    ∀ L C, Covered t.root.damage L C → ∀ w l c, ownerAt st'.tree L C = some (w, l, c) →
      st'.screen L C = content w l c := by
  obtain ⟨root0, hr0, hf0, hv0, htop0, hleft0⟩ := hroot.ex
  rcases flushRender_cases beh st st' t shots h with ⟨_, _, _, hne⟩ | ⟨root, s', hr, _, _, he, hsh, ht, hscr⟩
  · rw [hne] at hflag; cases hflag
  · have hrr : root = root0 := by rw [hr] at hr0; exact Option.some.inj hr0
    subst hrr
    subst hsh
    simp only [hv0, if_true] at he
    have hok := exposeRects_ok (rendered t) beh st.pens content (t.wins.size + 1)
      ⟨0, 0, root.rect.lines, root.rect.cols⟩ _ _ s' he (neutral_new _ _) rfl
    intro L C hc w l c ho
    rw [ht, ownerAt_eq (rendered t) root hr hf0 hv0 htop0 hleft0 L C] at ho
    have hb : (⟨0, 0, root.rect.lines, root.rect.cols⟩ : Rect).memb L C = true := by
      cases hh : (⟨0, 0, root.rect.lines, root.rect.cols⟩ : Rect).memb L C with
      | true => rfl
      | false => rw [hh] at ho; simp at ho
    rw [if_pos hb] at ho
    have := hok.contentAt hrep L C hb ((covered_iff_memb _ _ _).1 hc)
    rw [rendered_wins] at ho
    rw [Option.some.inj ho] at this
    rw [hscr]
    simp only [RB.flushToGrid, resolve_plain this]

/-- Under the proviso `Repaints`, after the rendering every damaged cell inside the root window shows the content of
    its owner, and every other cell is as before. -/
theorem flushRender_content (beh : Id → Rect → List DrawOp) (content : Id → Int → Int → Cell)
    (st st' : St) (t : Tree) (shots : List Shot)
    (h : flushRender beh st t = .ok (st', shots)) (hroot : RootOk t) (hflag : t.root.needsExpose = true)
    (hrep : Repaints content beh) :
    ∀ L C, Covered t.root.damage L C → ∀ w l c, ownerAt st'.tree L C = some (w, l, c) →
      st'.screen L C = content w l c :=
  flushRender_content_at beh content st st' t shots h hroot hflag (fun sh _ => repaintsAt_of_repaints hrep sh)

/-- The rendering half leaves the window store and the queue of restacking requests alone. -/
theorem flushRender_tree (beh : Id → Rect → List DrawOp) (st st' : St) (t : Tree) (shots : List Shot)
    (h : flushRender beh st t = .ok (st', shots)) :
    st'.tree.wins = t.wins ∧ st'.tree.root.changes = t.root.changes ∧ st'.pens = st.pens ∧
    st'.tlines = st.tlines ∧ st'.tcols = st.tcols := by
  unfold flushRender at h
  cases hne : t.root.needsExpose with
  | false =>
    simp only [hne, pure, Pure.pure] at h
    simp at h
    obtain ⟨h1, _⟩ := h
    subst h1
    exact ⟨rfl, rfl, rfl, rfl, rfl⟩
  | true =>
    simp only [hne, bind, Bind.bind] at h
    cases hg : WinTree.get t 0 with
    | ub w => rw [hg] at h; simp at h
    | ok root =>
      rw [hg] at h
      simp only [if_true] at h
      cases he : exposeRects beh (rendered t) st.pens (t.wins.size + 1) ⟨0, 0, root.rect.lines, root.rect.cols⟩
        (if root.isVisible then t.root.damage else [])
          (RB.new root.rect.lines root.rect.cols, []) with
      | ub w => rw [he] at h; simp at h
      | ok s' =>
        rw [he] at h
        simp only [pure, Pure.pure] at h
        simp at h
        obtain ⟨h1, _⟩ := h
        subst h1
        exact ⟨rfl, rfl, rfl, rfl, rfl⟩

/-- A hidden root window is not painted: no handler runs and the terminal keeps what it showed. -/
theorem flushRender_hidden_root (beh : Id → Rect → List DrawOp) (st st' : St) (t : Tree) (shots : List Shot)
    (h : flushRender beh st t = .ok (st', shots)) (root : Win) (hr : t.wins[0]? = some root)
    (hv : root.isVisible = false) : shots = [] ∧ st'.screen = st.screen := by
  rcases flushRender_cases beh st st' t shots h with ⟨h1, h2, _⟩ | ⟨root', s', hr', _, _, he, hs, _, hscr⟩
  · exact ⟨h1, h2⟩
  · have : root' = root := by rw [hr] at hr'; exact (Option.some.inj hr').symm
    subst this
    simp only [hv, Bool.false_eq_true, if_false, exposeRects] at he
    cases he
    refine ⟨hs, ?_⟩
    rw [hscr]
    funext L C
    simp [RB.flushToGrid, RB.new, RB.resolve]

end WinFlush
end Tickit
