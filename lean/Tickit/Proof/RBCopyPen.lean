import Tickit.Model.RBCopy
/-
  C13, pens of merged line cells: `tickit_pen_equiv` (`Pen.equiv`, what `linecell` asks before it replaces the pen of a
  line cell already there) holds exactly of pens with the same look (`penLook`: every getter of src/pen.c, the RGB8
  values included), so the cell a line is merged into always *looks* like the incoming pen.
-/
namespace Tickit.RBCopy
open Tickit Tickit.RB

theorem equivColour_iff_look (a b : Option Colour) :
    Pen.equivColour a b = true ↔ Pen.getColour a = Pen.getColour b ∧ Pen.getRgb a = Pen.getRgb b := by
  unfold Pen.equivColour
  by_cases h : Pen.getColour a = Pen.getColour b
  · rw [if_neg (fun hn => hn h)]
    cases ha : Pen.getRgb a with
    | none => cases hb : Pen.getRgb b <;> simp [h]
    | some x =>
      cases hb : Pen.getRgb b with
      | none => simp
      | some y =>
        cases x; cases y
        simp [h, and_assoc]
  · rw [if_pos h]; simp [h]

theorem equivBool_iff_look (a b : Option Bool) : Pen.equivBool a b = true ↔ Pen.getBool a = Pen.getBool b := by
  unfold Pen.equivBool; simp

theorem equivInt_iff_look (a b : Option Int) : Pen.equivInt a b = true ↔ Pen.getInt a = Pen.getInt b := by
  unfold Pen.equivInt; simp

theorem equiv_iff_penLook (a b : Pen) : Pen.equiv a b = true ↔ penLook a = penLook b := by
  unfold Pen.equiv penLook
  simp only [Bool.and_eq_true, equivColour_iff_look, equivBool_iff_look, equivInt_iff_look, PenLook.mk.injEq]
  constructor
  · intro h; simp_all
  · intro h; simp_all

/-- The segments a cell holds when `bits` are merged into it. -/
def mergedMask (bits : Nat) (old : Content) : Nat :=
  match old with
  | .line _ m => m ||| bits
  | _ => bits

theorem mergeLine_look (pen : Pen) (bits : Nat) (old : Content) :
    ∃ q, mergeLine pen bits old = .line q (mergedMask bits old) ∧ penLook q = penLook pen ∧
      (∀ p m, old = .line p m → Pen.equiv p pen = false → q = pen) ∧ ((∀ p m, old ≠ .line p m) → q = pen) := by
  unfold mergeLine mergedMask
  cases old with
  | line p m =>
    by_cases h : Pen.equiv p pen = true
    · refine ⟨p, by simp only [h, if_true], (equiv_iff_penLook p pen).1 h, ?_, fun hn => absurd rfl (hn p m)⟩
      intro p' m' he hf
      cases he
      rw [h] at hf; cases hf
    · exact ⟨pen, by simp [h], rfl, fun _ _ _ _ => rfl, fun _ => rfl⟩
  | skip => exact ⟨pen, rfl, rfl, fun _ _ h => (by cases h), fun _ => rfl⟩
  | text p s k => exact ⟨pen, rfl, rfl, fun _ _ h => (by cases h), fun _ => rfl⟩
  | erase p => exact ⟨pen, rfl, rfl, fun _ _ h => (by cases h), fun _ => rfl⟩
  | char p cp => exact ⟨pen, rfl, rfl, fun _ _ h => (by cases h), fun _ => rfl⟩

end Tickit.RBCopy
