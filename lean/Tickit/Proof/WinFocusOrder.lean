import Tickit.Proof.WinFocusRestack
/-
  C15 over histories, part 6: queued restacking requests take effect in the order they were made.
-/
namespace Tickit
namespace WinFocus
open WinTree WinSpec WinFlush

/-! ### the sibling-list surgery of `_do_hierarchy_change` is what a request asks for -/

theorem listRaise_spec : ∀ (cs : List Nat) (w : Nat) (cs' : List Nat), listRaise cs w = .ok cs' →
    cs' = swapPrev cs w ∧ w ∈ cs := by
  intro cs
  induction cs with
  | nil => intro w cs' h; simp [listRaise] at h
  | cons x rest ih =>
    intro w cs' h
    cases rest with
    | nil =>
      simp only [listRaise] at h
      split at h
      · next hx => cases h; subst hx; exact ⟨by simp [swapPrev], by simp⟩
      · cases h
    | cons y rest' =>
      simp only [listRaise] at h
      split at h
      · next hx => cases h; subst hx; exact ⟨by simp [swapPrev], by simp⟩
      · next hxw =>
        split at h
        · next hyw =>
          cases h; subst hyw
          exact ⟨by simp [swapPrev, hxw], by simp⟩
        · next hyw =>
          simp only [bind_ok, pure_ok] at h
          obtain ⟨r, hr, h⟩ := h
          subst h
          obtain ⟨he, hm⟩ := ih w r hr
          refine ⟨?_, List.mem_cons_of_mem _ hm⟩
          rw [he]; simp [swapPrev, hxw, hyw]

theorem listLower_spec : ∀ (cs : List Nat) (w : Nat), listLower cs w = swapNext cs w := by
  intro cs
  induction cs with
  | nil => intro w; simp [listLower, swapNext]
  | cons x rest ih =>
    intro w
    cases rest with
    | nil => simp [listLower, swapNext]
    | cons y rest' =>
      simp only [listLower, swapNext]
      split
      · rfl
      · rw [ih w]

theorem swapNext_notin : ∀ (cs : List Nat) (w : Nat), w ∉ cs → swapNext cs w = cs := by
  intro cs
  induction cs with
  | nil => intro w _; simp [swapNext]
  | cons x rest ih =>
    intro w hw
    cases rest with
    | nil => simp [swapNext]
    | cons y rest' =>
      have hx : x ≠ w := fun h => hw (by simp [h])
      simp only [swapNext, hx, if_false]
      rw [ih w (fun h => hw (List.mem_cons_of_mem _ h))]

theorem stackSpec_in {ch : Change} {cs : List Nat} {w : Nat} (hw : w ∈ cs) :
    stackSpec ch cs w = match ch with
      | .raise => swapPrev cs w
      | .raiseFront => w :: cs.erase w
      | .lower => swapNext cs w
      | .lowerBack => cs.erase w ++ [w]
      | _ => cs := by
  unfold stackSpec
  have : cs.contains w = true := by simpa using hw
  simp only [this, Bool.not_true, Bool.false_eq_true, if_false]
  cases ch <;> rfl

theorem stackSpec_notin {ch : Change} {cs : List Nat} {w : Nat} (hw : w ∉ cs) : stackSpec ch cs w = cs := by
  unfold stackSpec
  have : cs.contains w = false := by simpa using hw
  simp only [this, Bool.not_false, if_true]

theorem restack_tail {T t' : Tree} {F p : Nat} {v : Bool} {e : Option Rect}
    (h : (if v = true then expose T F p e else pure T) = .ok t') : t'.wins = T.wins := by
  cases v with
  | true => simp only [if_true] at h; exact (expose_frame _ _ _ _ _ h).1
  | false => simp only [Bool.false_eq_true, if_false, pure_ok] at h; subst h; rfl

/-- `_do_hierarchy_change` for one of the four restacking kinds does to the tree exactly what the request asks for
    (`stackSpec` on the parent's sibling list), and nothing else. -/
theorem restack_exact {t t' : Tree} {F p c : Nat} {ch : Change} (hch : ch.isRestack = true)
    (hd : doHierarchyChange t F ch p c = .ok t') :
    ∃ pw, t.wins[p]? = some pw ∧
      t'.wins = t.wins.setIfInBounds p { pw with children := stackSpec ch pw.children c } := by
  unfold doHierarchyChange at hd
  simp only [bind_ok] at hd
  obtain ⟨pw, hgp, cw, hgc, hd⟩ := hd
  have hpw := get_ok.mp hgp
  refine ⟨pw, hpw.1, ?_⟩
  cases ch with
  | insertFirst => cases hch
  | insertLast => cases hch
  | remove => cases hch
  | raise =>
    simp only [bind_ok, pure_ok] at hd
    obtain ⟨cs, hcs, t1, ht1, hd⟩ := hd
    subst ht1
    obtain ⟨a, b⟩ := listRaise_spec _ _ _ hcs
    rw [restack_tail hd, stackSpec_in b, a]; rfl
  | raiseFront =>
    simp only [bind_ok, pure_ok] at hd
    obtain ⟨cs, hcs, t1, ht1, hd⟩ := hd
    subst ht1
    have hin := listRemove_mem hcs
    have hcs' : cs = pw.children.erase c := by
      unfold listRemove at hcs; split at hcs
      · cases hcs; rfl
      · cases hcs
    subst hcs'
    rw [restack_tail hd, stackSpec_in hin.1]; rfl
  | lower =>
    simp only [bind_ok, pure_ok] at hd
    obtain ⟨t1, ht1, hd⟩ := hd
    subst ht1
    rw [restack_tail hd, listLower_spec]
    by_cases hin : c ∈ pw.children
    · rw [stackSpec_in hin]; rfl
    · rw [stackSpec_notin hin, swapNext_notin _ _ hin]; rfl
  | lowerBack =>
    simp only [bind_ok, pure_ok] at hd
    obtain ⟨cs, hcs, t1, ht1, hd⟩ := hd
    subst ht1
    have hin := listRemove_mem hcs
    have hcs' : cs = pw.children.erase c := by
      unfold listRemove at hcs; split at hcs
      · cases hcs; rfl
      · cases hcs
    subst hcs'
    rw [restack_tail hd, stackSpec_in hin.1]; rfl

/-! ### the queue loop of the flush applies the requests oldest first -/

/-- A queued request names the window's parent as the tree has it (windows are never reparented; `close` purges the
    requests of the windows it detaches). -/
def ParentIs (t : Tree) (r : Req) : Prop := ∃ w, t.wins[r.win]? = some w ∧ w.parent = some r.parent

/-- A queued request as the application made it: which restacking, of which window. -/
def _root_.Tickit.WinTree.Req.pair (r : Req) : Change × Nat := (r.change, r.win)

theorem applyStackReq_wins {t1 t2 : Tree} (h : t1.wins = t2.wins) (r : Change × Nat) :
    (applyStackReq t1 r).wins = (applyStackReq t2 r).wins := by
  unfold applyStackReq
  rw [h]
  split
  · exact h
  · split
    · exact h
    · split
      · exact h
      · rfl

theorem stackApplied_cons (t : Tree) (r : Change × Nat) (rs : List (Change × Nat)) :
    stackApplied t (r :: rs) = stackApplied (applyStackReq t r) rs := rfl

theorem stackApplied_wins : ∀ (rs : List (Change × Nat)) (t1 t2 : Tree), t1.wins = t2.wins →
    (stackApplied t1 rs).wins = (stackApplied t2 rs).wins := by
  intro rs
  induction rs with
  | nil => intro t1 t2 h; exact h
  | cons r rest ih =>
    intro t1 t2 h
    rw [stackApplied_cons, stackApplied_cons]
    exact ih _ _ (applyStackReq_wins h r)

theorem stackApplied_append (t : Tree) (a b : List (Change × Nat)) :
    stackApplied t (a ++ b) = stackApplied (stackApplied t a) b := by
  unfold stackApplied; rw [List.foldl_append]

/-- One queued request, applied by `_do_hierarchy_change`, is the specification's `applyStackReq`. -/
theorem restack_is_spec {t t' : Tree} {F : Nat} {r : Req} (hch : r.change.isRestack = true) (hp : ParentIs t r)
    (hd : doHierarchyChange t F r.change r.parent r.win = .ok t') : t'.wins = (applyStackReq t r.pair).wins := by
  obtain ⟨pw, hpw, hw'⟩ := restack_exact hch hd
  obtain ⟨w, hw, hpar⟩ := hp
  rw [hw']
  unfold applyStackReq
  simp only [Req.pair, hw, hpar, hpw]

theorem parentIs_step {t t' : Tree} {F : Nat} {r q : Req} (hch : r.change.isRestack = true)
    (hd : doHierarchyChange t F r.change r.parent r.win = .ok t') (hq : ParentIs t q) : ParentIs t' q := by
  obtain ⟨pw, hpw, hw'⟩ := restack_exact hch hd
  obtain ⟨w, hw, hpar⟩ := hq
  unfold ParentIs
  rw [hw', Array.getElem?_setIfInBounds]
  by_cases he : r.parent = q.win
  · have hi : r.parent < t.wins.size := (Array.getElem?_eq_some_iff.mp hpw).1
    rw [← he] at hw ⊢
    rw [hpw] at hw; cases hw
    exact ⟨{ pw with children := stackSpec r.change pw.children r.win }, by simp [hi], hpar⟩
  · exact ⟨w, by simp [he, hw], hpar⟩

/-- **The queue loop applies the requests in the order they were made**: after `applyChanges` the windows are those of
    the specification's `stackApplied` — the sibling lists found at the flush with the requests applied oldest first. -/
theorem applyChanges_order : ∀ (reqs : List Req) (t t' : Tree),
    (∀ r ∈ reqs, r.change.isRestack = true ∧ ParentIs t r) → applyChanges t reqs = .ok t' →
    t'.wins = (stackApplied t (reqs.map Req.pair)).wins := by
  intro reqs
  induction reqs with
  | nil => intro t t' _ h; simp only [applyChanges, pure_ok] at h; subst h; rfl
  | cons r rest ih =>
    intro t t' hq h
    simp only [applyChanges, bind_ok] at h
    obtain ⟨t1, h1, h2⟩ := h
    have hr := hq r (by simp)
    have e1 := restack_is_spec hr.1 hr.2 h1
    rw [List.map_cons, stackApplied_cons]
    rw [ih t1 t' (fun q hqm => ⟨(hq q (by simp [hqm])).1, parentIs_step hr.1 h1 (hq q (by simp [hqm])).2⟩) h2]
    exact stackApplied_wins _ _ _ e1

/-! ### the flush -/

theorem withStacking_self {t s : Tree} (h : s.wins = t.wins) : withStacking t s = t := by
  unfold withStacking
  rw [h]
  cases t with
  | mk ws rt =>
    simp only [Tree.mk.injEq, and_true]
    apply Array.ext
    · simp
    · intro i h1 h2
      simp only [Array.getElem_mapIdx]
      rw [Array.getElem?_eq_getElem h2]

theorem cursorSpecReq_of_wins {before after : Tree} {reqs : List (Change × Nat)}
    (h : after.wins = (stackApplied before reqs).wins) : cursorSpecReq before after reqs = cursorSpec after := by
  unfold cursorSpecReq
  rw [withStacking_self h.symm]

/-- **`tickit_window_flush` leaves the windows stacked as the queued requests, applied oldest first, say.** -/
theorem flush_order {fx : Fixes} {t : Tree} {out : FlushOut}
    (hq : ∀ q ∈ t.root.changes, q.change.isRestack = true ∧ ParentIs t q)
    (hl : t.root.changes ≠ [] → t.root.needsLater = true) (hf : flush fx t = .ok out) :
    out.tree.wins = (stackApplied t (t.root.changes.map Req.pair)).wins := by
  cases hn : t.root.needsLater with
  | false =>
    have he : t.root.changes = [] := by
      cases hc : t.root.changes with
      | nil => rfl
      | cons q qs => have := hl (by rw [hc]; simp); rw [hn] at this; cases this
    unfold flush at hf
    simp only [hn, Bool.not_false, if_true, pure_ok] at hf
    subst hf
    rw [he]; rfl
  | true =>
    obtain ⟨t1, h1, hwins, _⟩ := flush_pieces hf hn
    rw [hwins, applyChanges_order _ { t with root := { t.root with needsLater := false } } _ (fun q hqm => hq q hqm) h1]
    exact stackApplied_wins _ _ _ rfl

theorem flush_empties_queue {fx : Fixes} {t : Tree} {out : FlushOut}
    (hl : t.root.changes ≠ [] → t.root.needsLater = true) (hf : flush fx t = .ok out) : out.tree.root.changes = [] := by
  cases hn : t.root.needsLater with
  | false =>
    unfold flush at hf
    simp only [hn, Bool.not_false, if_true, pure_ok] at hf
    subst hf
    cases hc : t.root.changes with
    | nil => rfl
    | cons q qs => have := hl (by rw [hc]; simp); rw [hn] at this; cases this
  | true =>
    obtain ⟨t1, _, _, hq', _⟩ := flush_pieces hf hn
    exact hq'

/-! ### bursts of requests between two flushes -/

/-- The parent link of a window (`none`: no such slot). -/
def parentOf (t : Tree) (i : Nat) : Option (Option Nat) := (t.wins[i]?).map (·.parent)

theorem parentOf_wins {t t' : Tree} (h : t'.wins = t.wins) (i : Nat) : parentOf t' i = parentOf t i := by
  unfold parentOf; rw [h]

theorem parentIs_wins {t t' : Tree} (h : t'.wins = t.wins) {q : Req} (hq : ParentIs t q) : ParentIs t' q := by
  unfold ParentIs at hq ⊢; rw [h]; exact hq

/-- Restacking never touches a parent link. -/
theorem applyStackReq_parent (t : Tree) (r : Change × Nat) (i : Nat) : parentOf (applyStackReq t r) i = parentOf t i := by
  unfold applyStackReq
  split
  · rfl
  · split
    · rfl
    · split
      · rfl
      · next p _ _ pw hpw =>
        unfold parentOf
        simp only [Array.getElem?_setIfInBounds]
        by_cases he : p = i
        · have hi : p < t.wins.size := (Array.getElem?_eq_some_iff.mp hpw).1
          subst he
          have hg : t.wins[p] = pw := (Array.getElem?_eq_some_iff.mp hpw).2
          simp [hi, hg]
        · simp [he]

theorem stackApplied_parent : ∀ (rs : List (Change × Nat)) (t : Tree) (i : Nat),
    parentOf (stackApplied t rs) i = parentOf t i := by
  intro rs
  induction rs with
  | nil => intro t i; rfl
  | cons r rest ih => intro t i; rw [stackApplied_cons, ih, applyStackReq_parent]

/-- A request for a window without a parent asks for nothing. -/
theorem applyStackReq_noparent {t : Tree} {ch : Change} {w : Nat} (h : parentOf t w = some none) :
    applyStackReq t (ch, w) = t := by
  unfold parentOf at h
  unfold applyStackReq
  cases hw : t.wins[w]? with
  | none => rfl
  | some ww =>
    rw [hw] at h
    simp only [Option.map_some, Option.some.injEq] at h
    simp only [h]

/-- `_request_hierarchy_change`: the windows are untouched; a window without a parent gets nothing queued, any other gets
    its request appended *behind* those already waiting. -/
theorem request_step {t t' : Tree} {F : Nat} {ch : Change} {w : Nat} (h : requestHierarchyChange t F ch w = .ok t') :
    t'.wins = t.wins ∧
    ((parentOf t w = some none ∧ t'.root.changes = t.root.changes) ∨
     (∃ p, ParentIs t ⟨ch, p, w⟩ ∧ t'.root.changes = t.root.changes ++ [⟨ch, p, w⟩])) := by
  unfold requestHierarchyChange at h
  simp only [bind_ok] at h
  obtain ⟨w0, hw0, h⟩ := h
  have hw := get_ok.mp hw0
  split at h
  · next hp =>
    simp only [pure_ok] at h; subst h
    exact ⟨rfl, .inl ⟨by unfold parentOf; rw [hw.1]; simp [hp], rfl⟩⟩
  · next p hp =>
    simp only [bind_ok, pure_ok] at h
    obtain ⟨_, _, h⟩ := h
    subst h
    exact ⟨rfl, .inr ⟨p, ⟨w0, hw.1, hp⟩, rfl⟩⟩

/-- The requests of a burst as operations of a history. -/
def reqOps (rs : List (Change × Nat)) : List Op := rs.map fun r => Op.restack r.1 r.2

/-- What holds while the requests of a burst are made on top of the tree `base`: the windows are `base`'s, and the queue,
    applied oldest first, stacks them as the requests made so far (`done`), applied in the order they were made. -/
structure ReqInv (base : Tree) (s : HSt) (done : List (Change × Nat)) : Prop where
  wins : s.tree.wins = base.wins
  par : ∀ q ∈ s.tree.root.changes, ParentIs base q
  same : (stackApplied base (s.tree.root.changes.map Req.pair)).wins = (stackApplied base done).wins

theorem reqInv_step {fx : Fixes} {base : Tree} {s s' : HSt} {done : List (Change × Nat)} {ch : Change} {w : Nat}
    (hi : ReqInv base s done) (hs : stepOp fx s (.restack ch w) = .ok s') :
    ReqInv base s' (done ++ [(ch, w)]) ∧ s'.term = s.term := by
  simp only [stepOp, bind_ok, pure_ok] at hs
  obtain ⟨x, hx, hs⟩ := hs; subst hs
  obtain ⟨hwins, hcase⟩ := request_step hx
  refine ⟨?_, rfl⟩
  rcases hcase with ⟨hnp, hq⟩ | ⟨p, hpi, hq⟩
  · refine ⟨hwins.trans hi.wins, (by rw [hq]; exact hi.par), ?_⟩
    show (stackApplied base (x.root.changes.map Req.pair)).wins = _
    rw [hq, stackApplied_append, hi.same]
    have : parentOf (stackApplied base done) w = some none := by
      rw [stackApplied_parent, ← parentOf_wins hi.wins]; exact hnp
    show _ = (stackApplied (stackApplied base done) [(ch, w)]).wins
    rw [stackApplied_cons, applyStackReq_noparent this]; rfl
  · refine ⟨hwins.trans hi.wins, ?_, ?_⟩
    · show ∀ q ∈ x.root.changes, ParentIs base q
      rw [hq]
      intro q hqm
      simp only [List.mem_append, List.mem_singleton] at hqm
      rcases hqm with hqm | hqm
      · exact hi.par q hqm
      · subst hqm; exact parentIs_wins hi.wins.symm hpi
    · show (stackApplied base (x.root.changes.map Req.pair)).wins = _
      rw [hq, List.map_append, stackApplied_append, stackApplied_append]
      exact stackApplied_wins _ _ _ hi.same

theorem reqInv_run {fx : Fixes} {base : Tree} : ∀ (rs : List (Change × Nat)) (s s' : HSt) (done : List (Change × Nat)),
    ReqInv base s done → runOps fx s (reqOps rs) = .ok s' → ReqInv base s' (done ++ rs) ∧ s'.term = s.term := by
  intro rs
  induction rs with
  | nil =>
    intro s s' done hi h
    simp only [reqOps, List.map_nil, runOps, pure_ok] at h; subst h
    rw [List.append_nil]; exact ⟨hi, rfl⟩
  | cons r rest ih =>
    intro s s' done hi h
    simp only [reqOps, List.map_cons, runOps, bind_ok] at h
    obtain ⟨s1, h1, h2⟩ := h
    obtain ⟨hi1, ht1⟩ := reqInv_step hi h1
    obtain ⟨hi2, ht2⟩ := ih s1 s' _ hi1 h2
    rw [List.append_assoc] at hi2
    exact ⟨hi2, ht2.trans ht1⟩

/-- **Requests take effect in the order they were made.**  From any state a history reaches (`HInv`), with the requests
    already waiting naming their windows' parents: after a burst of restacking requests `rs` and a flush, the windows are
    those of the tree the burst started from with the waiting requests and then `rs` applied oldest first, and the
    terminal cursor is what the cursor clause says of the tree stacked that way (`cursorSpecReq`). -/
theorem restack_burst_order {fx : Fixes} (hfx1 : fx.hiddenRoot = true) (hfx2 : fx.chainRestore = true)
    {s1 : HSt} (hi : HInv s1) (hq0 : ∀ q ∈ s1.tree.root.changes, ParentIs s1.tree q)
    (rs : List (Change × Nat)) (hrs : ∀ r ∈ rs, r.1.isRestack = true) (s2 : HSt)
    (h : runOps fx s1 (reqOps rs ++ [.flush]) = .ok s2) :
    s2.tree.wins = (stackApplied s1.tree (s1.tree.root.changes.map Req.pair ++ rs)).wins ∧
    s2.term.matches (cursorSpecReq s1.tree s2.tree (s1.tree.root.changes.map Req.pair ++ rs)) = true ∧
    s2.tree.root.changes = [] := by
  obtain ⟨sm, hm, hfl⟩ := runOps_append fx (reqOps rs) [.flush] _ s2 h
  have hplain : ∀ op ∈ reqOps rs, op.plain := by
    intro op hop
    simp only [reqOps, List.mem_map] at hop
    obtain ⟨r, hr, rfl⟩ := hop
    exact hrs r hr
  have him := runOps_inv hfx1 hfx2 _ _ sm hplain hi hm
  obtain ⟨hri, _⟩ := reqInv_run (base := s1.tree) rs s1 sm (s1.tree.root.changes.map Req.pair) ⟨rfl, hq0, rfl⟩ hm
  simp only [runOps, bind_ok, pure_ok] at hfl
  obtain ⟨s3, hfl, h3⟩ := hfl
  subst h3
  have hcur := (flush_step hfx1 him hfl).2
  simp only [stepOp, bind_ok, pure_ok] at hfl
  obtain ⟨o, hf, hs3⟩ := hfl
  subst hs3
  have hw : o.tree.wins = (stackApplied s1.tree (s1.tree.root.changes.map Req.pair ++ rs)).wins := by
    rw [flush_order (fun q hq => ⟨him.queue q hq, parentIs_wins hri.wins (hri.par q hq)⟩) him.qlater hf]
    rw [stackApplied_wins _ _ _ hri.wins]
    exact hri.same
  refine ⟨hw, ?_, flush_empties_queue him.qlater hf⟩
  rw [cursorSpecReq_of_wins hw]
  exact hcur

/-- **C15 over histories with bursts of restacking requests** (repaired source): any history from a fresh root window
    that ends in a flush, then any number of restacking requests, then a flush.  The windows end up stacked as the
    requests, applied to the tree of the first flush in the order they were made, say; and the terminal cursor is the
    cursor clause read on the tree stacked that way. -/
theorem history_restack_order {fx : Fixes} (hfx1 : fx.hiddenRoot = true) (hfx2 : fx.chainRestore = true)
    (l c : Int) (hl : 0 < l) (hc : 0 < c) (ops : List Op) (hplain : ∀ op ∈ ops, op.plain) (s1 : HSt)
    (h1 : runOps fx { tree := newRoot l c } (ops ++ [.flush]) = .ok s1)
    (rs : List (Change × Nat)) (hrs : ∀ r ∈ rs, r.1.isRestack = true) (s2 : HSt)
    (h2 : runOps fx s1 (reqOps rs ++ [.flush]) = .ok s2) :
    s2.tree.wins = (stackApplied s1.tree rs).wins ∧ s2.term.matches (cursorSpecReq s1.tree s2.tree rs) = true := by
  obtain ⟨s0, h0, hfl⟩ := runOps_append fx ops [.flush] _ s1 h1
  have hi0 := runOps_inv hfx1 hfx2 ops _ s0 hplain (hinv_newRoot l c hl hc) h0
  simp only [runOps, bind_ok, pure_ok] at hfl
  obtain ⟨s1', hfl, h3⟩ := hfl
  subst h3
  have hi1 := (flush_step hfx1 hi0 hfl).1
  have hq1 : s1'.tree.root.changes = [] := by
    simp only [stepOp, bind_ok, pure_ok] at hfl
    obtain ⟨o, hf, hs⟩ := hfl
    subst hs
    exact flush_empties_queue hi0.qlater hf
  obtain ⟨a, b, _⟩ := restack_burst_order hfx1 hfx2 hi1 (by rw [hq1]; intro q hq; cases hq) rs hrs s2 h2
  rw [hq1] at a b
  exact ⟨a, b⟩

end WinFocus
end Tickit
