import Tickit.Proof.RBOps
/-
  The refinement between the concrete render buffer (`Tickit.RB`) and the specification (`Tickit.RBAbs`).
-/
namespace Tickit.RB
open Tickit.RBAbs

/-- A saved concrete frame against a saved abstract frame; `d` is the depth at which it was pushed. -/
def FrameRel (rb : RB) (d : Int) (f : Frame) (g : AFrame) : Prop :=
  f.penOnly = g.penOnly ∧ f.pen = g.pen ∧ (∀ L C, g.masked L C = absMaskedAt rb d L C) ∧
  (f.penOnly = false → f.xlLine = g.xlLine ∧ f.xlCol = g.xlCol ∧ (∀ L C, g.clip L C = absClipRect f.clip L C) ∧
    g.vc = (if f.vcPosSet then some (f.vcLine, f.vcCol) else none))

/-- The stacks, newest first; `d` is the depth above the first frame. -/
def FramesRel (rb : RB) : Int → List Frame → List AFrame → Prop
  | _, [], [] => True
  | d, f :: fs, g :: gs => FrameRel rb (d - 1) f g ∧ FramesRel rb (d - 1) fs gs
  | _, _, _ => False

/-- `rb` implements `a`. -/
structure Refines (rb : RB) (a : AState) : Prop where
  lines : a.lines = rb.lines
  cols : a.cols = rb.cols
  content : ∀ L C, a.content L C = absContent rb L C
  masked : ∀ L C, a.masked L C = absMasked rb L C
  vc : a.vc = getCursor rb
  xlLine : a.xlLine = rb.xlLine
  xlCol : a.xlCol = rb.xlCol
  clip : ∀ L C, a.clip L C = absClipRect rb.clip L C
  pen : a.pen = rb.pen
  stack : FramesRel rb rb.depth rb.stack a.stack

theorem absMaskedAt_congr {rb rb' : RB} (h1 : rb'.lines = rb.lines) (h2 : rb'.cols = rb.cols)
    (hmd : ∀ L C, (rb'.cell L C).maskdepth = (rb.cell L C).maskdepth) (d L C : Int) :
    absMaskedAt rb' d L C = absMaskedAt rb d L C := by
  unfold absMaskedAt absMasked; rw [h1, h2, hmd]

theorem absMasked_congr {rb rb' : RB} (h1 : rb'.lines = rb.lines) (h2 : rb'.cols = rb.cols)
    (hmd : ∀ L C, (rb'.cell L C).maskdepth = (rb.cell L C).maskdepth) (L C : Int) :
    absMasked rb' L C = absMasked rb L C := by
  unfold absMasked; rw [h1, h2, hmd]

theorem FramesRel_congr {rb rb' : RB} (h : ∀ d L C, absMaskedAt rb' d L C = absMaskedAt rb d L C) :
    ∀ (fs : List Frame) (gs : List AFrame) (d : Int), FramesRel rb d fs gs → FramesRel rb' d fs gs := by
  intro fs
  induction fs with
  | nil => intro gs d x; cases gs <;> simpa [FramesRel] using x
  | cons f fs ih =>
    intro gs d x
    cases gs with
    | nil => simp [FramesRel] at x
    | cons g gs =>
      unfold FramesRel at x ⊢
      refine ⟨⟨x.1.1, x.1.2.1, fun L C => ?_, x.1.2.2.2⟩, ih gs (d - 1) x.2⟩
      rw [h]; exact x.1.2.2.1 L C

/-- A drawing operation (same auxiliary state, same mask depths, content changed cell-wise as `paint` says)
    refines `paint`. -/
theorem refines_paint {rb rb' : RB} {a : AState} (R : Refines rb a)
    (haux : rb'.aux = rb.aux) (hmd : ∀ L C, (rb'.cell L C).maskdepth = (rb.cell L C).maskdepth)
    (covers : Int → Int → Bool) (what : Int → Int → Content → Content)
    (hcontent : ∀ L C, absContent rb' L C =
      if covers (L - rb.xlLine) (C - rb.xlCol) && (absClipRect rb.clip L C && !absMasked rb L C)
      then what (L - rb.xlLine) (C - rb.xlCol) (absContent rb L C) else absContent rb L C) :
    Refines rb' (paint a covers what) := by
  have e1 : rb'.lines = rb.lines := congrArg Aux.lines haux
  have e2 : rb'.cols = rb.cols := congrArg Aux.cols haux
  have e3 : rb'.depth = rb.depth := congrArg Aux.depth haux
  have e4 : rb'.stack = rb.stack := congrArg Aux.stack haux
  have e5 : rb'.clip = rb.clip := congrArg Aux.clip haux
  have e6 : rb'.vcSet = rb.vcSet := congrArg Aux.vcSet haux
  have e7 : rb'.vcLine = rb.vcLine := congrArg Aux.vcLine haux
  have e8 : rb'.vcCol = rb.vcCol := congrArg Aux.vcCol haux
  have e9 : rb'.xlLine = rb.xlLine := congrArg Aux.xlLine haux
  have e10 : rb'.xlCol = rb.xlCol := congrArg Aux.xlCol haux
  have e11 : rb'.pen = rb.pen := congrArg Aux.pen haux
  refine ⟨?_, ?_, ?_, ?_, ?_, ?_, ?_, ?_, ?_, ?_⟩
  · show a.lines = _; rw [e1]; exact R.lines
  · show a.cols = _; rw [e2]; exact R.cols
  · intro L C
    show (if covers (L - a.xlLine) (C - a.xlCol) && a.writable L C then _ else _) = _
    unfold AState.writable
    rw [hcontent, R.xlLine, R.xlCol, R.clip, R.masked, R.content]
  · intro L C
    show a.masked L C = _
    rw [absMasked_congr e1 e2 hmd]; exact R.masked L C
  · show a.vc = _
    unfold getCursor
    rw [e6, e7, e8]; exact R.vc
  · show a.xlLine = _; rw [e9]; exact R.xlLine
  · show a.xlCol = _; rw [e10]; exact R.xlCol
  · intro L C; show a.clip L C = _; rw [e5]; exact R.clip L C
  · show a.pen = _; rw [e11]; exact R.pen
  · show FramesRel rb' rb'.depth rb'.stack a.stack
    rw [e3, e4]
    exact FramesRel_congr (fun d L C => absMaskedAt_congr e1 e2 hmd d L C) _ _ _ R.stack

theorem inRun_iff (line col cols l c : Int) : inRun line col cols l c = true ↔ (l = line ∧ col ≤ c ∧ c < col + cols) := by
  unfold inRun; simp only [Bool.and_eq_true, decide_eq_true_eq]
  constructor
  · rintro ⟨⟨a, b⟩, c⟩; exact ⟨a, b, c⟩
  · rintro ⟨a, b, c⟩; exact ⟨⟨a, b⟩, c⟩

/-- `runOp_spec` in the vocabulary of `paint`. -/
theorem runOp_paint {fill : Cell → Int → Cell} {fc : Int → Content} (hf : FillSpec fill fc) {rb : RB} (wf : WF rb)
    {a : AState} (R : Refines rb a) (line col cols : Int) (sc : Clipped → Int) (g : Int → Content)
    (hg : ∀ r, xlateAndClip rb line col cols = some r → ∀ C, fc (sc r + (C - r.col)) = g (C - (col + rb.xlCol))) :
    WF (runOp fill sc rb line col cols) ∧
    Refines (runOp fill sc rb line col cols) (paint a (inRun line col cols) (fun _ c _ => g (c - col))) := by
  obtain ⟨w, haux, hmd, hc⟩ := runOp_spec hf wf line col cols sc g hg
  refine ⟨w, refines_paint R haux hmd _ _ ?_⟩
  intro L C
  rw [hc]
  by_cases p : L = line + rb.xlLine ∧ col + rb.xlCol ≤ C ∧ C < col + rb.xlCol + cols ∧
      absClipRect rb.clip L C = true ∧ absMasked rb L C = false
  · rw [if_pos p, if_pos]
    · congr 1; omega
    · simp only [Bool.and_eq_true, inRun_iff, Bool.not_eq_true']
      exact ⟨⟨by omega, by omega, by omega⟩, p.2.2.2.1, p.2.2.2.2⟩
  · rw [if_neg p, if_neg]
    intro x
    simp only [Bool.and_eq_true, inRun_iff, Bool.not_eq_true'] at x
    exact p ⟨by omega, by omega, by omega, x.2.1, x.2.2⟩

/-! ## The run operations -/

theorem eraseAt_refines {rb : RB} {a : AState} (wf : WF rb) (R : Refines rb a) (l c n : Int) :
    WF (RB.eraseAt rb l c n) ∧ Refines (RB.eraseAt rb l c n) (RBAbs.eraseAt a l c n) := by
  unfold RB.eraseAt RBAbs.eraseAt
  rw [eraseRun_eq, R.pen]
  exact runOp_paint (fillErase_spec rb.pen) wf R l c n _ (fun _ => .erase rb.pen) (fun _ _ _ => rfl)

theorem skipAt_refines {rb : RB} {a : AState} (wf : WF rb) (R : Refines rb a) (l c n : Int) :
    WF (RB.skipAt rb l c n) ∧ Refines (RB.skipAt rb l c n) (RBAbs.skipAt a l c n) := by
  unfold RB.skipAt RBAbs.skipAt
  rw [skipRun_eq]
  exact runOp_paint fillSkip_spec wf R l c n _ (fun _ => .skip) (fun _ _ _ => rfl)

theorem textAt_refines {rb : RB} {a : AState} (wf : WF rb) (R : Refines rb a) (l c : Int) (s : List UInt8) :
    WF (RB.textAt rb l c s) ∧ Refines (RB.textAt rb l c s) (RBAbs.textAt a l c s) := by
  unfold RB.textAt RBAbs.textAt putString
  cases Utf8.stringColumns s with
  | none => exact ⟨wf, R⟩
  | some n =>
    simp only
    rw [putStringCols_eq, R.pen]
    refine runOp_paint (fillText_spec rb.pen s) wf R l c n _ (fun x => .text rb.pen s x) ?_
    intro r hx C
    have := (xlateAndClip_some wf.clip hx).2.2.2.2.2.2.1
    show Content.text _ _ _ = Content.text _ _ _
    congr 1; omega

/-! ## The virtual cursor -/

/-- Changing only the cursor fields of a buffer changes only the cursor of what it implements. -/
theorem refines_setvc {rb : RB} {a : AState} (R : Refines rb a) (s : Bool) (l c : Int) :
    Refines { rb with vcSet := s, vcLine := l, vcCol := c } { a with vc := if s then some (l, c) else none } := by
  refine ⟨R.lines, R.cols, R.content, R.masked, ?_, R.xlLine, R.xlCol, R.clip, R.pen, ?_⟩
  · show (if s then some (l, c) else none) = getCursor _
    unfold getCursor
    cases s <;> rfl
  · refine FramesRel_congr (rb := rb) ?_ _ _ _ R.stack
    intro d L C; rfl

theorem refines_setcol {rb : RB} {a : AState} (R : Refines rb a) (hs : rb.vcSet = true) (l c : Int)
    (hl : rb.vcLine = l) : Refines { rb with vcCol := c } { a with vc := some (l, c) } := by
  refine ⟨R.lines, R.cols, R.content, R.masked, ?_, R.xlLine, R.xlCol, R.clip, R.pen, ?_⟩
  · show some (l, c) = getCursor _
    unfold getCursor
    simp only [hs, if_true, hl]
  · refine FramesRel_congr (rb := rb) ?_ _ _ _ R.stack
    intro d L C; rfl

theorem wf_setcol {rb : RB} (wf : WF rb) (c : Int) : WF { rb with vcCol := c } :=
  ⟨wf.size, wf.rows, wf.maskLB, wf.maskUB, wf.depth, wf.clip, wf.frames, wf.aborted, wf.fuelOut⟩

theorem wf_setvc {rb : RB} (wf : WF rb) (s : Bool) (l c : Int) : WF { rb with vcSet := s, vcLine := l, vcCol := c } :=
  ⟨wf.size, wf.rows, wf.maskLB, wf.maskUB, wf.depth, wf.clip, wf.frames, wf.aborted, wf.fuelOut⟩

theorem goto_refines {rb : RB} {a : AState} (wf : WF rb) (R : Refines rb a) (l c : Int) :
    WF (RB.goto rb l c) ∧ Refines (RB.goto rb l c) (RBAbs.goto a l c) :=
  ⟨wf_setvc wf true l c, refines_setvc R true l c⟩

theorem ungoto_refines {rb : RB} {a : AState} (wf : WF rb) (R : Refines rb a) :
    WF (RB.ungoto rb) ∧ Refines (RB.ungoto rb) (RBAbs.ungoto a) :=
  ⟨wf_setvc wf false rb.vcLine rb.vcCol, refines_setvc R false rb.vcLine rb.vcCol⟩

/-- A cursor-relative operation built from an absolute one that leaves the auxiliary state alone. -/
theorem atCursor_refines {rb : RB} {a : AState} (wf : WF rb) (R : Refines rb a)
    (opC : RB → Int → Int → RB) (opA : AState → Int → Int → AState) (adv : Int)
    (hop : ∀ l c, WF (opC rb l c) ∧ Refines (opC rb l c) (opA a l c))
    (haux : ∀ l c, (opC rb l c).aux = rb.aux) :
    WF (if !rb.vcSet then rb else { opC rb rb.vcLine rb.vcCol with vcCol := rb.vcCol + adv }) ∧
    Refines (if !rb.vcSet then rb else { opC rb rb.vcLine rb.vcCol with vcCol := rb.vcCol + adv }) (atCursor a opA adv) := by
  unfold atCursor
  have hv := R.vc
  unfold getCursor at hv
  cases hs : rb.vcSet with
  | false =>
    rw [hs] at hv; simp only [Bool.false_eq_true, if_false] at hv
    rw [hv]; simp only [Bool.not_false, if_true]
    exact ⟨wf, R⟩
  | true =>
    rw [hs] at hv; simp only [if_true] at hv
    rw [hv]; simp only [Bool.not_true, Bool.false_eq_true, if_false]
    obtain ⟨w1, r1⟩ := hop rb.vcLine rb.vcCol
    have e1 : (opC rb rb.vcLine rb.vcCol).vcSet = true := (congrArg Aux.vcSet (haux _ _)).trans hs
    have e2 : (opC rb rb.vcLine rb.vcCol).vcLine = rb.vcLine := congrArg Aux.vcLine (haux _ _)
    have w2 := wf_setcol w1 (rb.vcCol + adv)
    exact ⟨w2, refines_setcol r1 e1 rb.vcLine (rb.vcCol + adv) e2⟩

theorem erase_refines {rb : RB} {a : AState} (wf : WF rb) (R : Refines rb a) (n : Int) :
    WF (RB.erase rb n) ∧ Refines (RB.erase rb n) (RBAbs.erase a n) :=
  atCursor_refines wf R (fun r l c => eraseRun r l c n) (fun a l c => RBAbs.eraseAt a l c n) n
    (fun l c => eraseAt_refines wf R l c n) (fun l c => eraseRun_aux rb l c n)

theorem skip_refines {rb : RB} {a : AState} (wf : WF rb) (R : Refines rb a) (n : Int) :
    WF (RB.skip rb n) ∧ Refines (RB.skip rb n) (RBAbs.skip a n) :=
  atCursor_refines wf R (fun r l c => skipRun r l c n) (fun a l c => RBAbs.skipAt a l c n) n
    (fun l c => skipAt_refines wf R l c n) (fun l c => skipRun_aux rb l c n)

theorem text_refines {rb : RB} {a : AState} (wf : WF rb) (R : Refines rb a) (s : List UInt8) :
    WF (RB.text rb s) ∧ Refines (RB.text rb s) (RBAbs.text a s) :=
  atCursor_refines wf R (fun r l c => putString r l c s) (fun a l c => RBAbs.textAt a l c s) (putStringRet s)
    (fun l c => textAt_refines wf R l c s) (fun l c => putString_aux rb l c s)

theorem refines_paint_none {rb : RB} {a : AState} (R : Refines rb a) (covers : Int → Int → Bool)
    (what : Int → Int → Content → Content) (h : ∀ l c, covers l c = false) : Refines rb (paint a covers what) := by
  refine refines_paint R rfl (fun _ _ => rfl) covers what ?_
  intro L C; rw [h]; simp

theorem toOp_refines {rb : RB} {a : AState} (wf : WF rb) (R : Refines rb a) (col : Int)
    (opC : RB → Int → Int → Int → RB) (opA : AState → Int → Int → Int → AState)
    (hop : ∀ l c n, WF (opC rb l c n) ∧ Refines (opC rb l c n) (opA a l c n))
    (haux : ∀ l c n, (opC rb l c n).aux = rb.aux)
    (hnone : ∀ l c n, n ≤ 0 → Refines rb (opA a l c n)) :
    WF (if !rb.vcSet then rb else
        { (if rb.vcCol < col then opC rb rb.vcLine rb.vcCol (col - rb.vcCol) else rb) with vcCol := col }) ∧
    Refines (if !rb.vcSet then rb else
        { (if rb.vcCol < col then opC rb rb.vcLine rb.vcCol (col - rb.vcCol) else rb) with vcCol := col })
      (match a.vc with
       | none => a
       | some (l, c) => { opA a l c (col - c) with vc := some (l, col) }) := by
  have hv := R.vc
  unfold getCursor at hv
  cases hs : rb.vcSet with
  | false =>
    rw [hs] at hv; simp only [Bool.false_eq_true, if_false] at hv
    rw [hv]; simp only [Bool.not_false, if_true]
    exact ⟨wf, R⟩
  | true =>
    rw [hs] at hv; simp only [if_true] at hv
    rw [hv]; simp only [Bool.not_true, Bool.false_eq_true, if_false]
    by_cases hlt : rb.vcCol < col
    · simp only [hlt, if_true]
      obtain ⟨w1, r1⟩ := hop rb.vcLine rb.vcCol (col - rb.vcCol)
      have e1 : (opC rb rb.vcLine rb.vcCol (col - rb.vcCol)).vcSet = true := (congrArg Aux.vcSet (haux _ _ _)).trans hs
      have e2 : (opC rb rb.vcLine rb.vcCol (col - rb.vcCol)).vcLine = rb.vcLine := congrArg Aux.vcLine (haux _ _ _)
      exact ⟨wf_setcol w1 col, refines_setcol r1 e1 rb.vcLine col e2⟩
    · simp only [hlt, if_false]
      exact ⟨wf_setcol wf col, refines_setcol (hnone rb.vcLine rb.vcCol (col - rb.vcCol) (by omega)) hs rb.vcLine col rfl⟩

theorem inRun_empty (line col cols : Int) (h : cols ≤ 0) (l c : Int) : inRun line col cols l c = false := by
  cases hx : inRun line col cols l c
  · rfl
  · have := (inRun_iff _ _ _ _ _).1 hx; omega

theorem eraseTo_refines {rb : RB} {a : AState} (wf : WF rb) (R : Refines rb a) (col : Int) :
    WF (RB.eraseTo rb col) ∧ Refines (RB.eraseTo rb col) (RBAbs.eraseTo a col) :=
  toOp_refines wf R col (fun r l c n => eraseRun r l c n) (fun a l c n => RBAbs.eraseAt a l c n)
    (fun l c n => eraseAt_refines wf R l c n) (fun l c n => eraseRun_aux rb l c n)
    (fun l c n hn => refines_paint_none R _ _ (inRun_empty l c n hn))

theorem skipTo_refines {rb : RB} {a : AState} (wf : WF rb) (R : Refines rb a) (col : Int) :
    WF (RB.skipTo rb col) ∧ Refines (RB.skipTo rb col) (RBAbs.skipTo a col) :=
  toOp_refines wf R col (fun r l c n => skipRun r l c n) (fun a l c n => RBAbs.skipAt a l c n)
    (fun l c n => skipAt_refines wf R l c n) (fun l c n => skipRun_aux rb l c n)
    (fun l c n hn => refines_paint_none R _ _ (inRun_empty l c n hn))

/-! ## Translation, clip -/

theorem translate_refines {rb : RB} {a : AState} (wf : WF rb) (R : Refines rb a) (d r : Int) :
    WF (RB.translate rb d r) ∧ Refines (RB.translate rb d r) (RBAbs.translate a d r) := by
  refine ⟨⟨wf.size, wf.rows, wf.maskLB, wf.maskUB, wf.depth, wf.clip, wf.frames, wf.aborted, wf.fuelOut⟩,
    ⟨R.lines, R.cols, R.content, R.masked, R.vc, ?_, ?_, R.clip, R.pen, ?_⟩⟩
  · show a.xlLine + d = rb.xlLine + d; rw [R.xlLine]
  · show a.xlCol + r = rb.xlCol + r; rw [R.xlCol]
  · refine FramesRel_congr (rb := rb) ?_ _ _ _ R.stack
    intro d L C; rfl

theorem intersect_cases (a b : Rect) :
    (Rect.intersect a b = none ∧ ∀ l c, ¬ (a.Mem l c ∧ b.Mem l c)) ∨
    (∃ r, Rect.intersect a b = some r ∧ 0 < r.lines ∧ 0 < r.cols ∧ ∀ l c, r.Mem l c ↔ (a.Mem l c ∧ b.Mem l c)) := by
  unfold Rect.intersect
  simp only
  by_cases h1 : max a.top b.top ≥ min a.bottom b.bottom
  · left; rw [if_pos h1]; refine ⟨rfl, ?_⟩
    intro l c; unfold Rect.Mem Rect.bottom Rect.right at *; omega
  · rw [if_neg h1]
    by_cases h2 : max a.left b.left ≥ min a.right b.right
    · left; rw [if_pos h2]; refine ⟨rfl, ?_⟩
      intro l c; unfold Rect.Mem Rect.bottom Rect.right at *; omega
    · right; rw [if_neg h2]
      refine ⟨_, rfl, ?_, ?_, ?_⟩
      · unfold Rect.initBounded; simp only; omega
      · unfold Rect.initBounded; simp only; omega
      · intro l c; unfold Rect.Mem Rect.initBounded Rect.bottom Rect.right at *; simp only; omega

theorem absClipRect_mem (r : Rect) (L C : Int) : absClipRect r L C = true ↔ (r.lines ≠ 0 ∧ r.Mem L C) := by
  rw [absClipRect_iff]; unfold Rect.Mem Rect.bottom Rect.right
  constructor
  · rintro ⟨a, b, c, d, e⟩; exact ⟨a, b, c, d, e⟩
  · rintro ⟨a, b, c, d, e⟩; exact ⟨a, b, c, d, e⟩

theorem memb_iff (r : Rect) (l c : Int) : r.memb l c = true ↔ r.Mem l c := by
  unfold Rect.memb Rect.Mem; simp only [Bool.and_eq_true, decide_eq_true_eq]
  constructor
  · rintro ⟨⟨⟨a, b⟩, c⟩, d⟩; exact ⟨a, b, c, d⟩
  · rintro ⟨a, b, c, d⟩; exact ⟨⟨⟨a, b⟩, c⟩, d⟩

theorem bool_ext {x y : Bool} (h : x = true ↔ y = true) : x = y := by cases x <;> cases y <;> simp_all

theorem clip_refines {rb : RB} {a : AState} (wf : WF rb) (R : Refines rb a) (rect : Rect) :
    WF (Tickit.RB.clip rb rect) ∧ Refines (Tickit.RB.clip rb rect) (RBAbs.clip a rect) := by
  have hmemT : ∀ L C, (rect.translate rb.xlLine rb.xlCol).Mem L C ↔ rect.Mem (L - rb.xlLine) (C - rb.xlCol) := by
    intro L C; unfold Rect.translate Rect.Mem Rect.bottom Rect.right; simp only; omega
  have key : ∀ L C, absClipRect (Tickit.RB.clip rb rect).clip L C = (absClipRect rb.clip L C && rect.memb (L - rb.xlLine) (C - rb.xlCol)) := by
    intro L C
    apply bool_ext
    rw [Bool.and_eq_true, absClipRect_mem, absClipRect_mem, memb_iff, ← hmemT]
    unfold Tickit.RB.clip
    simp only
    rcases intersect_cases rb.clip (rect.translate rb.xlLine rb.xlCol) with ⟨h1, h2⟩ | ⟨r, h1, h2, h3, h4⟩
    · rw [h1]; simp only
      constructor
      · intro x; exact absurd rfl x.1
      · intro x; exact absurd ⟨x.1.2, x.2⟩ (h2 L C)
    · rw [h1]; simp only
      rw [h4]
      constructor
      · intro x
        refine ⟨⟨?_, x.2.1⟩, x.2.2⟩
        have := x.2.1; unfold Rect.Mem Rect.bottom at this; omega
      · intro x; exact ⟨by omega, x.1.2, x.2⟩
  have hclip : ClipOK rb.lines rb.cols (Tickit.RB.clip rb rect).clip := by
    have hc := wf.clip
    unfold ClipOK at hc ⊢
    unfold Tickit.RB.clip
    simp only
    rcases intersect_cases rb.clip (rect.translate rb.xlLine rb.xlCol) with ⟨h1, h2⟩ | ⟨r, h1, h2, h3, h4⟩
    · rw [h1]; left; rfl
    · rw [h1]; simp only
      right
      have m1 := (h4 r.top r.left).1 (by unfold Rect.Mem Rect.bottom Rect.right; omega)
      have m2 := (h4 (r.top + r.lines - 1) (r.left + r.cols - 1)).1 (by unfold Rect.Mem Rect.bottom Rect.right; omega)
      unfold Rect.Mem Rect.bottom Rect.right at m1 m2
      unfold Rect.bottom Rect.right at *
      omega
  have hcells : (Tickit.RB.clip rb rect).cells = rb.cells := by unfold Tickit.RB.clip; simp only; split <;> rfl
  have haux : (Tickit.RB.clip rb rect).lines = rb.lines ∧ (Tickit.RB.clip rb rect).cols = rb.cols ∧
      (Tickit.RB.clip rb rect).depth = rb.depth ∧ (Tickit.RB.clip rb rect).stack = rb.stack ∧
      (Tickit.RB.clip rb rect).vcSet = rb.vcSet ∧ (Tickit.RB.clip rb rect).vcLine = rb.vcLine ∧ (Tickit.RB.clip rb rect).vcCol = rb.vcCol ∧
      (Tickit.RB.clip rb rect).xlLine = rb.xlLine ∧ (Tickit.RB.clip rb rect).xlCol = rb.xlCol ∧ (Tickit.RB.clip rb rect).pen = rb.pen ∧
      (Tickit.RB.clip rb rect).aborted = rb.aborted ∧ (Tickit.RB.clip rb rect).fuelOut = rb.fuelOut := by
    unfold Tickit.RB.clip; simp only; split <;> simp
  obtain ⟨a1, a2, a3, a4, a5, a6, a7, a8, a9, a10, a11, a12⟩ := haux
  have hcell : ∀ L C, (Tickit.RB.clip rb rect).cell L C = rb.cell L C := by intro L C; unfold RB.cell; rw [hcells]
  have hcont : ∀ L C, absContent (Tickit.RB.clip rb rect) L C = absContent rb L C := by
    intro L C; unfold absContent; simp only [a1, a2, hcell]
  have hmask : ∀ L C, absMasked (Tickit.RB.clip rb rect) L C = absMasked rb L C := by
    intro L C; unfold absMasked; simp only [a1, a2, hcell]
  refine ⟨⟨?_, ?_, ?_, ?_, ?_, ?_, ?_, ?_, ?_⟩, ⟨?_, ?_, ?_, ?_, ?_, ?_, ?_, ?_, ?_, ?_⟩⟩
  · rw [a1, a2]; exact wf.size
  · intro l x y; rw [a2, hcells]; exact wf.rows l x (by omega)
  · intro l c; rw [hcell]; exact wf.maskLB l c
  · intro l c x y z w; rw [hcell, a3]; exact wf.maskUB l c x (by omega) z (by omega)
  · rw [a3, a4]; exact wf.depth
  · rw [a1, a2]; exact hclip
  · rw [a1, a2, a4]; exact wf.frames
  · rw [a11]; exact wf.aborted
  · rw [a12]; exact wf.fuelOut
  · show a.lines = _; rw [a1]; exact R.lines
  · show a.cols = _; rw [a2]; exact R.cols
  · intro L C; show a.content L C = _; rw [hcont]; exact R.content L C
  · intro L C; show a.masked L C = _; rw [hmask]; exact R.masked L C
  · show a.vc = _; unfold getCursor; rw [a5, a6, a7]; exact R.vc
  · show a.xlLine = _; rw [a8]; exact R.xlLine
  · show a.xlCol = _; rw [a9]; exact R.xlCol
  · intro L C
    show (a.clip L C && rect.memb (L - a.xlLine) (C - a.xlCol)) = _
    rw [key, R.clip, R.xlLine, R.xlCol]
  · show a.pen = _; rw [a10]; exact R.pen
  · show FramesRel _ _ _ a.stack
    rw [a3, a4]
    refine FramesRel_congr (rb := rb) ?_ _ _ _ R.stack
    intro d L C
    unfold absMaskedAt; rw [hmask, hcell]

/-! ## Operations that only change mask depths: `mask`, `restore` -/

/-- Two cells that differ at most in their mask depth. -/
def SameButMask (c c' : Cell) : Prop :=
  c'.state = c.state ∧ c'.cols = c.cols ∧ c'.pen = c.pen ∧ c'.text = c.text ∧ c'.offs = c.offs ∧ c'.lmask = c.lmask ∧ c'.cp = c.cp

theorem RowWF_congr {n : Int} {row row' : Row} (h : RowWF n row) (hs : ∀ k, SameButMask (row.get k) (row'.get k)) :
    RowWF n row' := by
  have s : ∀ k, (row'.get k).state = (row.get k).state := fun k => (hs k).1
  have c : ∀ k, (row'.get k).cols = (row.get k).cols := fun k => (hs k).2.1
  refine ⟨?_, ?_, ?_, ?_, ?_, ?_⟩
  · intro k a b x; rw [c]; rw [s] at x; exact h.cont_lo k a b x
  · intro k a b x; rw [c, s]; rw [s] at x; exact h.cont_start k a b x
  · intro k a b x; rw [c, c]; rw [s] at x; exact h.cont_in k a b x
  · intro k a b x; rw [c]; rw [s] at x; exact h.start_len k a b x
  · intro k j a b x y z; rw [s, c]; rw [s] at x; rw [c] at z; exact h.start_run k j a b x y z
  · intro k a b x; rw [c]; rw [s] at x; exact h.one k a b x

theorem rowContent_congr {row row' : Row} (hs : ∀ k, SameButMask (row.get k) (row'.get k)) (k : Int) :
    rowContent row' k = rowContent row k := by
  unfold rowContent cellContent
  obtain ⟨a1, a2, a3, a4, a5, a6, a7⟩ := hs k
  obtain ⟨b1, b2, b3, b4, b5, b6, b7⟩ := hs (row.get k).cols
  rw [a1, a2, b1, b3, b4, b5, b6, b7, a3, a4, a5, a6, a7]

/-- Everything about an operation that changes nothing but mask depths, except the masks themselves. -/
theorem maskonly_facts {rb rb' : RB} (hl : rb'.lines = rb.lines) (hc : rb'.cols = rb.cols)
    (hs : ∀ L C, SameButMask (rb.cell L C) (rb'.cell L C)) :
    (∀ L C, absContent rb' L C = absContent rb L C) ∧
    (∀ l, RowWF rb.cols (rb.cells l) → RowWF rb'.cols (rb'.cells l)) := by
  refine ⟨fun L C => ?_, fun l h => ?_⟩
  · rw [absContent_eq, absContent_eq, hl, hc, rowContent_congr (fun k => hs L k)]
  · rw [hc]; exact RowWF_congr h (fun k => hs l k)

theorem FramesRel_congr_lt {rb rb' : RB} :
    ∀ (fs : List Frame) (gs : List AFrame) (d : Int),
      (∀ d', d' < d → ∀ L C, absMaskedAt rb' d' L C = absMaskedAt rb d' L C) →
      FramesRel rb d fs gs → FramesRel rb' d fs gs := by
  intro fs
  induction fs with
  | nil => intro gs d _ x; cases gs <;> simpa [FramesRel] using x
  | cons f fs ih =>
    intro gs d h x
    cases gs with
    | nil => simp [FramesRel] at x
    | cons g gs =>
      unfold FramesRel at x ⊢
      refine ⟨⟨x.1.1, x.1.2.1, fun L C => ?_, x.1.2.2.2⟩, ih gs (d - 1) (fun d' hd => h d' (by omega)) x.2⟩
      rw [h (d - 1) (by omega)]; exact x.1.2.2.1 L C

theorem maskHole_bounds (rb : RB) (m : Rect) :
    (maskHole rb m).top = max 0 (m.top + rb.xlLine) ∧ (maskHole rb m).bottom = m.top + rb.xlLine + m.lines ∧
    (maskHole rb m).left = max 0 (m.left + rb.xlCol) ∧ (maskHole rb m).right = m.left + rb.xlCol + m.cols := by
  unfold maskHole Rect.translate Rect.bottom Rect.right
  simp only
  by_cases h1 : m.top + rb.xlLine < 0 <;> by_cases h2 : m.left + rb.xlCol < 0 <;> simp [h1, h2] <;> omega

theorem maskHole_iff (rb : RB) (m : Rect) (L C : Int) :
    ((maskHole rb m).top ≤ L ∧ L < (maskHole rb m).bottom ∧ L < rb.lines ∧ (maskHole rb m).left ≤ C ∧
      C < (maskHole rb m).right ∧ C < rb.cols) ↔
    (inBuf rb.lines rb.cols L C = true ∧ m.memb (L - rb.xlLine) (C - rb.xlCol) = true) := by
  rw [inBuf_iff, memb_iff]
  obtain ⟨a, b, c, d⟩ := maskHole_bounds rb m
  rw [a, b, c, d]
  unfold Rect.Mem Rect.bottom Rect.right
  omega

theorem mask_refines {rb : RB} {a : AState} (wf : WF rb) (R : Refines rb a) (m : Rect) :
    WF (Tickit.RB.mask rb m) ∧ Refines (Tickit.RB.mask rb m) (RBAbs.mask a m) := by
  have hd : 0 ≤ rb.depth := by rw [wf.depth]; omega
  have hcell : ∀ L C, (Tickit.RB.mask rb m).cell L C =
      if (inBuf rb.lines rb.cols L C = true ∧ m.memb (L - rb.xlLine) (C - rb.xlCol) = true) ∧ (rb.cell L C).maskdepth = -1
      then { rb.cell L C with maskdepth := rb.depth } else rb.cell L C := by
    intro L C
    show (if _ then _ else _) = _
    have := maskHole_iff rb m L C
    by_cases x : (inBuf rb.lines rb.cols L C = true ∧ m.memb (L - rb.xlLine) (C - rb.xlCol) = true) ∧ (rb.cell L C).maskdepth = -1
    · rw [if_pos x, if_pos]
      have y := this.2 x.1
      exact ⟨y.1, y.2.1, y.2.2.1, y.2.2.2.1, y.2.2.2.2.1, y.2.2.2.2.2, x.2⟩
    · rw [if_neg x, if_neg]
      intro y
      exact x ⟨this.1 ⟨y.1, y.2.1, y.2.2.1, y.2.2.2.1, y.2.2.2.2.1, y.2.2.2.2.2.1⟩, y.2.2.2.2.2.2⟩
  have hs : ∀ L C, SameButMask (rb.cell L C) ((Tickit.RB.mask rb m).cell L C) := by
    intro L C; rw [hcell]; split <;> simp [SameButMask]
  obtain ⟨hcont, hrows⟩ := maskonly_facts (rb := rb) (rb' := Tickit.RB.mask rb m) rfl rfl hs
  have hmd : ∀ L C, ((Tickit.RB.mask rb m).cell L C).maskdepth =
      if (inBuf rb.lines rb.cols L C = true ∧ m.memb (L - rb.xlLine) (C - rb.xlCol) = true) ∧ (rb.cell L C).maskdepth = -1
      then rb.depth else (rb.cell L C).maskdepth := by
    intro L C; rw [hcell]; split <;> rfl
  refine ⟨⟨wf.size, fun l x y => hrows l (wf.rows l x y), ?_, ?_, wf.depth, wf.clip, wf.frames, wf.aborted, wf.fuelOut⟩,
    ⟨R.lines, R.cols, fun L C => (R.content L C).trans (hcont L C).symm, ?_, R.vc, R.xlLine, R.xlCol, R.clip, R.pen, ?_⟩⟩
  · intro l c; rw [hmd]; have := wf.maskLB l c; split <;> omega
  · intro l c x y z w; rw [hmd]; have := wf.maskUB l c x y z w; show _ ≤ rb.depth; split <;> omega
  · intro L C
    show (a.masked L C || (inBuf a.lines a.cols L C && m.memb (L - a.xlLine) (C - a.xlCol))) = absMasked (Tickit.RB.mask rb m) L C
    rw [R.masked, R.lines, R.cols, R.xlLine, R.xlCol]
    unfold absMasked
    show _ = (inBuf rb.lines rb.cols L C && decide (((Tickit.RB.mask rb m).cell L C).maskdepth > -1))
    rw [hmd]
    have lb := wf.maskLB L C
    apply bool_ext
    simp only [Bool.or_eq_true, Bool.and_eq_true, decide_eq_true_eq]
    constructor
    · rintro (x | x)
      · refine ⟨x.1, ?_⟩; split <;> omega
      · refine ⟨x.1, ?_⟩
        by_cases y : (rb.cell L C).maskdepth = -1
        · rw [if_pos ⟨x, y⟩]; omega
        · rw [if_neg (fun z => y z.2)]; omega
    · intro x
      by_cases y : (inBuf rb.lines rb.cols L C = true ∧ m.memb (L - rb.xlLine) (C - rb.xlCol) = true) ∧ (rb.cell L C).maskdepth = -1
      · right; exact y.1
      · rw [if_neg y] at x; left; exact x
  · show FramesRel (Tickit.RB.mask rb m) rb.depth rb.stack a.stack
    refine FramesRel_congr_lt _ _ _ ?_ R.stack
    intro d' hd' L C
    unfold absMaskedAt absMasked
    show (inBuf rb.lines rb.cols L C && _ && _) = _
    rw [hmd]
    have lb := wf.maskLB L C
    apply bool_ext
    simp only [Bool.and_eq_true, decide_eq_true_eq]
    constructor
    · rintro ⟨⟨x, y⟩, z⟩; refine ⟨⟨x, ?_⟩, ?_⟩ <;> (split at y <;> split at z <;> omega)
    · rintro ⟨⟨x, y⟩, z⟩; refine ⟨⟨x, ?_⟩, ?_⟩ <;> (split <;> omega)

/-! ## Pen and stack -/

theorem copyAttr_empty {α : Type} (eqv : Option α → Option α → Bool) (src : Option α) :
    Pen.copyAttr eqv true none src = src := by
  unfold Pen.copyAttr; cases src <;> simp

theorem copyAttr_noow {α : Type} (eqv : Option α → Option α → Bool) (dst src : Option α) :
    Pen.copyAttr eqv false dst src = orElse dst src := by
  unfold Pen.copyAttr orElse; cases src <;> cases dst <;> simp

/-- `tickit_pen_copy(new, p, 1)` into a fresh pen is `p`. -/
theorem Pen.copy_empty (p : Pen) : Pen.copy Pen.empty p true = p := by
  unfold Pen.copy Pen.empty; simp only [copyAttr_empty]

/-- `tickit_pen_copy(dst, src, 0)`: attribute-wise "keep what is there, else take from `src`". -/
theorem Pen.copy_noow (p q : Pen) : Pen.copy p q false = mergePen p q := by
  unfold Pen.copy mergePen; simp only [copyAttr_noow]

theorem setpen_refines {rb : RB} {a : AState} (wf : WF rb) (R : Refines rb a) (pen : Option Pen) :
    WF (RB.setpen rb pen) ∧ Refines (RB.setpen rb pen) (RBAbs.setpen a pen) := by
  refine ⟨⟨wf.size, wf.rows, wf.maskLB, wf.maskUB, wf.depth, wf.clip, wf.frames, wf.aborted, wf.fuelOut⟩, ?_⟩
  have hpen : (RBAbs.setpen a pen).pen = (RB.setpen rb pen).pen := by
    have hs := R.stack
    unfold RBAbs.setpen RB.setpen
    cases hrs : rb.stack with
    | nil =>
      rw [hrs] at hs
      cases has : a.stack with
      | nil => cases pen <;> simp [Pen.copy_empty]
      | cons g gs => rw [has] at hs; simp [FramesRel] at hs
    | cons f fs =>
      rw [hrs] at hs
      cases has : a.stack with
      | nil => rw [has] at hs; simp [FramesRel] at hs
      | cons g gs =>
        rw [has] at hs
        unfold FramesRel at hs
        have := hs.1.2.1
        cases pen <;> simp [Pen.copy_empty, Pen.copy_noow, this]
  have hrest : (RBAbs.setpen a pen) = { a with pen := (RBAbs.setpen a pen).pen } := by
    unfold RBAbs.setpen; cases a.stack <;> rfl
  rw [hrest, hpen]
  refine ⟨R.lines, R.cols, R.content, R.masked, R.vc, R.xlLine, R.xlCol, R.clip, rfl, ?_⟩
  refine FramesRel_congr (rb := rb) ?_ _ _ _ R.stack
  intro d L C; rfl

theorem absMaskedAt_depth {rb : RB} (wf : WF rb) (L C : Int) : absMaskedAt rb rb.depth L C = absMasked rb L C := by
  unfold absMaskedAt
  by_cases hb : inBuf rb.lines rb.cols L C = true
  · have hb' := (inBuf_iff _ _ _ _).1 hb
    have := wf.maskUB L C hb'.1 hb'.2.1 hb'.2.2.1 hb'.2.2.2
    simp [this]
  · unfold absMasked; simp [hb]

theorem getCursor_some {rb : RB} {p : Int × Int} (h : getCursor rb = some p) : rb.vcSet = true ∧ p = (rb.vcLine, rb.vcCol) := by
  unfold getCursor at h
  cases hs : rb.vcSet with
  | false => rw [hs] at h; simp at h
  | true => rw [hs] at h; simp at h; exact ⟨rfl, h.symm⟩

theorem save_refines {rb : RB} {a : AState} (wf : WF rb) (R : Refines rb a) :
    WF (RB.save rb) ∧ Refines (RB.save rb) (RBAbs.save a) := by
  refine ⟨⟨wf.size, wf.rows, wf.maskLB, ?_, ?_, wf.clip, ?_, wf.aborted, wf.fuelOut⟩,
    ⟨R.lines, R.cols, R.content, R.masked, R.vc, R.xlLine, R.xlCol, R.clip, R.pen, ?_⟩⟩
  · intro l c x y z w; have := wf.maskUB l c x y z w; show (rb.cell l c).maskdepth ≤ rb.depth + 1; omega
  · show rb.depth + 1 = ((_ :: rb.stack).length : Int); rw [wf.depth]; simp
  · intro f hf hp
    rcases List.mem_cons.1 hf with rfl | hf
    · exact wf.clip
    · exact wf.frames f hf hp
  · show FramesRel (RB.save rb) (rb.depth + 1) (_ :: rb.stack) (_ :: a.stack)
    unfold FramesRel
    have e : rb.depth + 1 - 1 = rb.depth := by omega
    rw [e]
    refine ⟨⟨rfl, R.pen.symm, fun L C => ?_, fun _ => ⟨R.xlLine.symm, R.xlCol.symm, R.clip, ?_⟩⟩, ?_⟩
    · show a.masked L C = absMaskedAt (RB.save rb) rb.depth L C
      rw [R.masked]; exact (absMaskedAt_depth wf L C).symm
    · show a.vc = if rb.vcSet then some (rb.vcLine, rb.vcCol) else none
      exact R.vc
    · refine FramesRel_congr (rb := rb) ?_ _ _ _ R.stack
      intro d L C; rfl

theorem savepen_refines {rb : RB} {a : AState} (wf : WF rb) (R : Refines rb a) :
    WF (RB.savepen rb) ∧ Refines (RB.savepen rb) (RBAbs.savepen a) := by
  refine ⟨⟨wf.size, wf.rows, wf.maskLB, ?_, ?_, wf.clip, ?_, wf.aborted, wf.fuelOut⟩,
    ⟨R.lines, R.cols, R.content, R.masked, R.vc, R.xlLine, R.xlCol, R.clip, R.pen, ?_⟩⟩
  · intro l c x y z w; have := wf.maskUB l c x y z w; show (rb.cell l c).maskdepth ≤ rb.depth + 1; omega
  · show rb.depth + 1 = ((_ :: rb.stack).length : Int); rw [wf.depth]; simp
  · intro f hf hp
    rcases List.mem_cons.1 hf with rfl | hf
    · simp at hp
    · exact wf.frames f hf hp
  · show FramesRel (RB.savepen rb) (rb.depth + 1) (_ :: rb.stack) (_ :: a.stack)
    unfold FramesRel
    have e : rb.depth + 1 - 1 = rb.depth := by omega
    rw [e]
    refine ⟨⟨rfl, R.pen.symm, fun L C => ?_, fun h => by simp at h⟩, ?_⟩
    · show a.masked L C = absMaskedAt (RB.savepen rb) rb.depth L C
      rw [R.masked]; exact (absMaskedAt_depth wf L C).symm
    · refine FramesRel_congr (rb := rb) ?_ _ _ _ R.stack
      intro d L C; rfl

theorem restore_fields {rb : RB} {f : Frame} {prev : List Frame} (h : rb.stack = f :: prev) :
    (RB.restore rb).lines = rb.lines ∧ (RB.restore rb).cols = rb.cols ∧
    (∀ l c, (RB.restore rb).cell l c =
      if 0 ≤ l ∧ l < rb.lines ∧ 0 ≤ c ∧ c < rb.cols ∧ (rb.cell l c).maskdepth > rb.depth - 1
      then { rb.cell l c with maskdepth := -1 } else rb.cell l c) ∧
    (RB.restore rb).vcSet = (if f.penOnly then rb.vcSet else f.vcPosSet) ∧
    (RB.restore rb).vcLine = (if f.penOnly then rb.vcLine else f.vcLine) ∧
    (RB.restore rb).vcCol = (if f.penOnly then rb.vcCol else f.vcCol) ∧
    (RB.restore rb).xlLine = (if f.penOnly then rb.xlLine else f.xlLine) ∧
    (RB.restore rb).xlCol = (if f.penOnly then rb.xlCol else f.xlCol) ∧
    (RB.restore rb).clip = (if f.penOnly then rb.clip else f.clip) ∧
    (RB.restore rb).pen = f.pen ∧ (RB.restore rb).depth = rb.depth - 1 ∧ (RB.restore rb).stack = prev ∧
    (RB.restore rb).aborted = rb.aborted ∧ (RB.restore rb).fuelOut = rb.fuelOut := by
  unfold RB.restore
  rw [h]
  cases hp : f.penOnly <;> simp [hp, RB.cell]

theorem restore_refines {rb : RB} {a : AState} (wf : WF rb) (R : Refines rb a) :
    WF (RB.restore rb) ∧ Refines (RB.restore rb) (RBAbs.restore a) := by
  have hs := R.stack
  cases hrs : rb.stack with
  | nil =>
    rw [hrs] at hs
    cases has : a.stack with
    | cons g gs => rw [has] at hs; simp [FramesRel] at hs
    | nil =>
      have e1 : RB.restore rb = rb := by unfold RB.restore; rw [hrs]
      have e2 : RBAbs.restore a = a := by unfold RBAbs.restore; rw [has]
      rw [e1, e2]; exact ⟨wf, R⟩
  | cons f prev =>
    rw [hrs] at hs
    cases has : a.stack with
    | nil => rw [has] at hs; simp [FramesRel] at hs
    | cons g rest =>
      rw [has] at hs
      unfold FramesRel at hs
      obtain ⟨⟨fr1, fr2, fr3, fr4⟩, hrest⟩ := hs
      obtain ⟨r1, r2, r3, r4, r5, r6, r7, r8, r9, r10, r11, r12, r13, r14⟩ := restore_fields hrs
      have hsame : ∀ L C, SameButMask (rb.cell L C) ((RB.restore rb).cell L C) := by
        intro L C; rw [r3]; split <;> simp [SameButMask]
      obtain ⟨hcont, hrows⟩ := maskonly_facts (rb := rb) (rb' := RB.restore rb) r1 r2 hsame
      have hmd : ∀ L C, ((RB.restore rb).cell L C).maskdepth =
          if 0 ≤ L ∧ L < rb.lines ∧ 0 ≤ C ∧ C < rb.cols ∧ (rb.cell L C).maskdepth > rb.depth - 1 then -1
          else (rb.cell L C).maskdepth := by
        intro L C; rw [r3]; split <;> rfl
      have hdlen : rb.depth = (prev.length : Int) + 1 := by rw [wf.depth, hrs]; simp
      have hmaskedAt : ∀ d', d' ≤ rb.depth - 1 → ∀ L C, absMaskedAt (RB.restore rb) d' L C = absMaskedAt rb d' L C := by
        intro d' hd' L C
        unfold absMaskedAt absMasked
        rw [r1, r2, hmd]
        have lb := wf.maskLB L C
        apply bool_ext
        simp only [Bool.and_eq_true, decide_eq_true_eq, inBuf_iff]
        constructor
        · rintro ⟨⟨x, y⟩, z⟩
          by_cases q : 0 ≤ L ∧ L < rb.lines ∧ 0 ≤ C ∧ C < rb.cols ∧ (rb.cell L C).maskdepth > rb.depth - 1
          · rw [if_pos q] at y; omega
          · rw [if_neg q] at y z; exact ⟨⟨x, y⟩, z⟩
        · rintro ⟨⟨x, y⟩, z⟩
          rw [if_neg (by omega)]; exact ⟨⟨x, y⟩, z⟩
      have hmasked : ∀ L C, absMasked (RB.restore rb) L C = absMaskedAt rb (rb.depth - 1) L C := by
        intro L C
        rw [← hmaskedAt (rb.depth - 1) (by omega) L C]
        unfold absMaskedAt absMasked
        rw [r1, r2, hmd]
        have lb := wf.maskLB L C
        apply bool_ext
        simp only [Bool.and_eq_true, decide_eq_true_eq]
        constructor
        · rintro ⟨x, y⟩; refine ⟨⟨x, y⟩, ?_⟩
          have hb' := (inBuf_iff _ _ _ _).1 x
          have ub := wf.maskUB L C hb'.1 hb'.2.1 hb'.2.2.1 hb'.2.2.2
          split at y <;> split <;> omega
        · rintro ⟨⟨x, y⟩, _⟩; exact ⟨x, y⟩
      have hwf : WF (RB.restore rb) := by
        refine ⟨?_, ?_, ?_, ?_, ?_, ?_, ?_, ?_, ?_⟩
        · rw [r1, r2]; exact wf.size
        · intro l x y; exact hrows l (wf.rows l x (by omega))
        · intro l c; rw [hmd]; have := wf.maskLB l c; split <;> omega
        · intro l c x y z w
          rw [hmd, r11]
          rw [r1] at y; rw [r2] at w
          have ub := wf.maskUB l c x y z w
          have lb := wf.maskLB l c
          split <;> omega
        · rw [r11, r12, hdlen]; omega
        · rw [r1, r2, r9]
          cases hp : f.penOnly with
          | true => simp only [if_true]; exact wf.clip
          | false => simp only [Bool.false_eq_true, if_false]; exact wf.frames f (by rw [hrs]; simp) hp
        · rw [r1, r2, r12]; intro f' hf'; exact wf.frames f' (by rw [hrs]; exact List.mem_cons_of_mem _ hf')
        · rw [r13]; exact wf.aborted
        · rw [r14]; exact wf.fuelOut
      refine ⟨hwf, ?_⟩
      have hstack : FramesRel (RB.restore rb) (rb.depth - 1) prev rest :=
        FramesRel_congr_lt _ _ _ (fun d' hd' L C => hmaskedAt d' (by omega) L C) hrest
      have hv := R.vc
      unfold RBAbs.restore
      rw [has]
      simp only
      cases hp : g.penOnly with
      | true =>
        have hpf : f.penOnly = true := fr1.trans hp
        simp only [if_true]
        rw [hpf] at r4 r5 r6 r7 r8 r9
        simp only [if_true] at r4 r5 r6 r7 r8 r9
        refine ⟨R.lines.trans r1.symm, R.cols.trans r2.symm, fun L C => (R.content L C).trans (hcont L C).symm,
          fun L C => (fr3 L C).trans (hmasked L C).symm, ?_, R.xlLine.trans r7.symm, R.xlCol.trans r8.symm,
          fun L C => by rw [r9]; exact R.clip L C, fr2.symm.trans r10.symm, ?_⟩
        · show a.vc = getCursor _
          unfold getCursor; rw [r4, r5, r6]; exact hv
        · show FramesRel (RB.restore rb) (RB.restore rb).depth (RB.restore rb).stack rest
          rw [r11, r12]; exact hstack
      | false =>
        have hpf : f.penOnly = false := fr1.trans hp
        simp only [Bool.false_eq_true, if_false]
        rw [hpf] at r4 r5 r6 r7 r8 r9
        simp only [Bool.false_eq_true, if_false] at r4 r5 r6 r7 r8 r9
        obtain ⟨x1, x2, x3, x4⟩ := fr4 hpf
        refine ⟨R.lines.trans r1.symm, R.cols.trans r2.symm, fun L C => (R.content L C).trans (hcont L C).symm,
          fun L C => (fr3 L C).trans (hmasked L C).symm, ?_, x1.symm.trans r7.symm, x2.symm.trans r8.symm,
          fun L C => by rw [r9]; exact x3 L C, fr2.symm.trans r10.symm, ?_⟩
        · show g.vc = getCursor _
          unfold getCursor; rw [r4, r5, r6]; exact x4
        · show FramesRel (RB.restore rb) (RB.restore rb).depth (RB.restore rb).stack rest
          rw [r11, r12]; exact hstack

/-! ## `reset` -/

theorem reset_cell (rb : RB) (l c : Int) :
    (RB.reset rb).cell l c =
      if 0 ≤ l ∧ l < rb.lines ∧ 0 ≤ c ∧ c < rb.cols then
        (if c = 0 then { contCell (rb.cell l c) 0 with state := .skip, maskdepth := -1, cols := rb.cols }
         else contCell (rb.cell l c) 0)
      else rb.cell l c := rfl

theorem reset_refines {rb : RB} {a : AState} (wf : WF rb) (R : Refines rb a) :
    WF (RB.reset rb) ∧ Refines (RB.reset rb) (RBAbs.reset a) := by
  have hst : ∀ l c, 0 ≤ l → l < rb.lines → 0 ≤ c → c < rb.cols →
      ((RB.reset rb).cell l c).state = (if c = 0 then .skip else .cont) ∧
      ((RB.reset rb).cell l c).cols = (if c = 0 then rb.cols else 0) ∧ ((RB.reset rb).cell l c).maskdepth = -1 := by
    intro l c h1 h2 h3 h4
    rw [reset_cell, if_pos ⟨h1, h2, h3, h4⟩]
    split <;> simp
  have hmdall : ∀ l c, -1 ≤ ((RB.reset rb).cell l c).maskdepth ∧
      (0 ≤ l → l < rb.lines → 0 ≤ c → c < rb.cols → ((RB.reset rb).cell l c).maskdepth = -1) := by
    intro l c
    refine ⟨?_, fun h1 h2 h3 h4 => (hst l c h1 h2 h3 h4).2.2⟩
    rw [reset_cell]
    split
    · split <;> simp
    · exact wf.maskLB l c
  have hsz := wf.size
  have hrow : ∀ l, 0 ≤ l → l < rb.lines → RowWF rb.cols ((RB.reset rb).cells l) := by
    intro l h1 h2
    have S : ∀ k, 0 ≤ k → k < rb.cols →
        (((RB.reset rb).cells l).get k).state = (if k = 0 then .skip else .cont) ∧
        (((RB.reset rb).cells l).get k).cols = (if k = 0 then rb.cols else 0) :=
      fun k a b => ⟨(hst l k h1 h2 a b).1, (hst l k h1 h2 a b).2.1⟩
    have S0 := S 0 (by omega) hsz.2
    simp only [if_true] at S0
    refine ⟨?_, ?_, ?_, ?_, ?_, ?_⟩
    · intro k a b x
      obtain ⟨s1, s2⟩ := S k a b
      by_cases hk : k = 0
      · rw [s1, if_pos hk] at x; cases x
      · rw [s2, if_neg hk]; omega
    · intro k a b x
      obtain ⟨s1, s2⟩ := S k a b
      by_cases hk : k = 0
      · rw [s1, if_pos hk] at x; cases x
      · rw [s2, if_neg hk, S0.1]; simp
    · intro k a b x
      obtain ⟨s1, s2⟩ := S k a b
      by_cases hk : k = 0
      · rw [s1, if_pos hk] at x; cases x
      · rw [s2, if_neg hk, S0.2]; omega
    · intro k a b x
      obtain ⟨s1, s2⟩ := S k a b
      by_cases hk : k = 0
      · rw [s2, if_pos hk]; omega
      · rw [s1, if_neg hk] at x; exact absurd rfl x
    · intro k j a b x y z
      obtain ⟨s1, s2⟩ := S k a b
      by_cases hk : k = 0
      · rw [s2, if_pos hk] at z
        obtain ⟨t1, t2⟩ := S j (by omega) (by omega)
        rw [t1, t2, if_neg (by omega), if_neg (by omega)]; exact ⟨rfl, hk.symm⟩
      · rw [s1, if_neg hk] at x; exact absurd rfl x
    · intro k a b x
      obtain ⟨s1, s2⟩ := S k a b
      by_cases hk : k = 0
      · rw [s1, if_pos hk] at x; rcases x with x | x <;> cases x
      · rw [s1, if_neg hk] at x; rcases x with x | x <;> cases x
  have hdepth : (RB.reset rb).depth = 0 := by
    show (if rb.stack.isEmpty then rb.depth else 0) = 0
    cases hs : rb.stack with
    | nil => simp; rw [wf.depth, hs]; rfl
    | cons f fs => simp
  refine ⟨⟨wf.size, hrow, fun l c => (hmdall l c).1, ?_, ?_, ?_, ?_, wf.aborted, wf.fuelOut⟩, ?_⟩
  · intro l c h1 h2 h3 h4
    rw [(hmdall l c).2 h1 h2 h3 h4, hdepth]; omega
  · rw [hdepth]; rfl
  · show ClipOK rb.lines rb.cols ⟨0, 0, rb.lines, rb.cols⟩
    unfold ClipOK Rect.bottom Rect.right
    simp only
    by_cases h : rb.lines = 0
    · left; exact h
    · right; omega
  · intro f hf; cases hf
  · unfold RBAbs.reset AState.new
    refine ⟨R.lines, R.cols, ?_, ?_, rfl, rfl, rfl, ?_, rfl, ?_⟩
    · intro L C
      show Content.skip = absContent (RB.reset rb) L C
      rw [absContent_eq]
      show _ = if inBuf rb.lines rb.cols L C = true then _ else _
      by_cases hb : inBuf rb.lines rb.cols L C = true
      · rw [if_pos hb]
        have hb' := (inBuf_iff _ _ _ _).1 hb
        obtain ⟨s1, s2, _⟩ := hst L C hb'.1 hb'.2.1 hb'.2.2.1 hb'.2.2.2
        obtain ⟨t1, t2, _⟩ := hst L 0 hb'.1 hb'.2.1 (by omega) hsz.2
        simp only [if_true] at t1 t2
        unfold RB.cell at s1 s2 t1 t2
        unfold rowContent cellContent
        by_cases hc : C = 0
        · rw [if_pos hc] at s1
          rw [if_neg (by rw [s1]; simp), s1]
        · rw [if_neg hc] at s1 s2
          rw [if_pos s1, s2, t1]
      · rw [if_neg hb]
    · intro L C
      show false = absMasked (RB.reset rb) L C
      unfold absMasked
      show _ = (inBuf rb.lines rb.cols L C && _)
      by_cases hb : inBuf rb.lines rb.cols L C = true
      · have hb' := (inBuf_iff _ _ _ _).1 hb
        rw [(hmdall L C).2 hb'.1 hb'.2.1 hb'.2.2.1 hb'.2.2.2]; simp
      · simp [hb]
    · intro L C
      show inBuf a.lines a.cols L C = absClipRect ⟨0, 0, rb.lines, rb.cols⟩ L C
      rw [R.lines, R.cols]
      apply bool_ext
      rw [inBuf_iff, absClipRect_iff]
      simp only
      omega
    · show FramesRel (RB.reset rb) (RB.reset rb).depth [] []
      simp [FramesRel]

/-! ## Single-cell operations: `put_char`, `linecell` -/

theorem RowWF_congr' {n : Int} {row row' : Row} (h : RowWF n row)
    (s : ∀ k, (row'.get k).state = (row.get k).state) (c : ∀ k, (row'.get k).cols = (row.get k).cols) : RowWF n row' := by
  refine ⟨?_, ?_, ?_, ?_, ?_, ?_⟩
  · intro k a b x; rw [c]; rw [s] at x; exact h.cont_lo k a b x
  · intro k a b x; rw [c, s]; rw [s] at x; exact h.cont_start k a b x
  · intro k a b x; rw [c, c]; rw [s] at x; exact h.cont_in k a b x
  · intro k a b x; rw [c]; rw [s] at x; exact h.start_len k a b x
  · intro k j a b x y z; rw [s, c]; rw [s] at x; rw [c] at z; exact h.start_run k j a b x y z
  · intro k a b x; rw [c]; rw [s] at x; exact h.one k a b x

/-- Everything a single-row change has to establish, packaged: the new buffer differs from `rb` only in row
    `line`, which is well-formed, has the same mask depths, and the same content except at column `col`. -/
theorem rowchange_spec {rb rb' : RB} (wf : WF rb) (line col : Int) (hl0 : 0 ≤ line) (hl1 : line < rb.lines)
    (hc0 : 0 ≤ col) (hc1 : col < rb.cols) (x : Content)
    (haux : rb'.aux = rb.aux) (hother : ∀ l, l ≠ line → rb'.cells l = rb.cells l)
    (hwf : RowWF rb.cols (rb'.cells line))
    (hmd : ∀ k, ((rb'.cells line).get k).maskdepth = ((rb.cells line).get k).maskdepth)
    (hcont : ∀ k, 0 ≤ k → k < rb.cols → rowContent (rb'.cells line) k = if k = col then x else rowContent (rb.cells line) k)
    (ha : rb'.aborted = rb.aborted) (hfo : rb'.fuelOut = rb.fuelOut) :
    WF rb' ∧ (∀ L C, (rb'.cell L C).maskdepth = (rb.cell L C).maskdepth) ∧
    (∀ L C, absContent rb' L C = if L = line ∧ C = col then x else absContent rb L C) := by
  have hmd' : ∀ L C, (rb'.cell L C).maskdepth = (rb.cell L C).maskdepth := by
    intro L C; unfold RB.cell
    by_cases h : L = line
    · rw [h]; exact hmd C
    · rw [hother L h]
  refine ⟨?_, hmd', ?_⟩
  · apply wf.transfer haux _ hmd' ha hfo
    intro l a b
    by_cases h : l = line
    · rw [h]; exact hwf
    · rw [hother l h]; exact wf.rows l a b
  · intro L C
    have e1 : rb'.lines = rb.lines := congrArg Aux.lines haux
    have e2 : rb'.cols = rb.cols := congrArg Aux.cols haux
    rw [absContent_eq, absContent_eq, e1, e2]
    by_cases hb : inBuf rb.lines rb.cols L C = true
    · rw [if_pos hb, if_pos hb]
      have hb' := (inBuf_iff _ _ _ _).1 hb
      by_cases h : L = line
      · rw [h, hcont C hb'.2.2.1 hb'.2.2.2]
        by_cases hk : C = col
        · rw [if_pos hk, if_pos ⟨rfl, hk⟩]
        · rw [if_neg hk, if_neg (fun z => hk z.2)]
      · rw [hother L h, if_neg (fun z => h z.1)]
    · rw [if_neg hb, if_neg hb, if_neg]
      intro z; apply hb; rw [inBuf_iff, z.1, z.2]; exact ⟨hl0, hl1, hc0, hc1⟩

/-- `make_span` of one column followed by assignments to the returned cell. -/
theorem cellOp_spec {rb : RB} (wf : WF rb) (line col : Int) (hl0 : 0 ≤ line) (hl1 : line < rb.lines)
    (hc0 : 0 ≤ col) (hc1 : col < rb.cols) (hun : (rb.cell line col).maskdepth = -1)
    (f : Cell → Cell) (hf1 : ∀ c, (f c).state ≠ .cont) (hf2 : ∀ c, c.cols = 1 → (f c).cols = 1)
    (hf3 : ∀ c, (f c).maskdepth = c.maskdepth) :
    WF ((makeSpan rb line col 1).updCell line col f) ∧
    ((makeSpan rb line col 1).updCell line col f).aux = rb.aux ∧
    (∀ L C, (((makeSpan rb line col 1).updCell line col f).cell L C).maskdepth = (rb.cell L C).maskdepth) ∧
    (∀ L C, absContent ((makeSpan rb line col 1).updCell line col f) L C =
      if L = line ∧ C = col then cellContent (f ((makeSpanRow rb.cols (rb.cells line) col 1).get col)) 0
      else absContent rb L C) ∧
    ((makeSpan rb line col 1).updCell line col f).cell line col = f ((makeSpanRow rb.cols (rb.cells line) col 1).get col) := by
  let v := f ((makeSpanRow rb.cols (rb.cells line) col 1).get col)
  have hrow : ((makeSpan rb line col 1).updCell line col f).cells line = spanRow rb.cols (rb.cells line) col 1 v := by
    show (if line = line then _ else _) = _
    rw [if_pos rfl]
    show rowSet (if line = line then _ else _) _ _ = _
    rw [if_pos rfl]
    unfold spanRow RB.cell
    show rowSet _ _ (f ((if line = line then _ else _ : Row).get _)) = _
    rw [if_pos rfl]
  have hother : ∀ l, l ≠ line → ((makeSpan rb line col 1).updCell line col f).cells l = rb.cells l := by
    intro l hl
    show (if l = line then _ else (if l = line then _ else _)) = _
    rw [if_neg hl, if_neg hl]
  have hrw := wf.rows line hl0 hl1
  have hv1 : v.state ≠ .cont := hf1 _
  have hhead : (makeSpanRow rb.cols (rb.cells line) col 1).get col =
      spanHead ((shortenBefore (splitAfter rb.cols (rb.cells line) (col + 1)) col).get col) col 1 := by
    rw [makeSpanRow_get _ _ _ _ _ (by omega), if_pos rfl]
  have hvmd : v.maskdepth = -1 := by
    show (f _).maskdepth = _
    rw [hf3, hhead, spanHead_maskdepth]
  have hv2 : v.cols = 1 := hf2 _ (by rw [hhead, spanHead_cols])
  have R := rowchange_spec (rb' := (makeSpan rb line col 1).updCell line col f) wf line col hl0 hl1 hc0 hc1
    (cellContent v 0) rfl hother
    (by rw [hrow]; exact spanRow_wf v hrw hc0 (by omega) (by omega) hv1 hv2 (fun _ => rfl))
    (by
      intro k; rw [hrow]; unfold spanRow; rw [rowSet_get]
      split
      · rename_i x; rw [x, hvmd]; exact hun.symm
      · rw [makeSpanRow_maskdepth _ _ _ _ _ (by omega)]
        split
        · rename_i x y; exact absurd (by omega) x
        · rfl)
    (by
      intro k hk0 hk1
      rw [hrow, spanRow_content v hrw hc0 (by omega) (by omega) hv1 k hk0 hk1]
      by_cases hk : k = col
      · rw [if_pos (by omega), if_pos hk, hk]; simp
      · rw [if_neg (by omega), if_neg hk])
    (by
      show (rb.aborted || makeSpanAborts rb.cols (rb.cells line) col 1) = rb.aborted
      rw [makeSpanAborts_false hrw hc0 (by omega) (by omega), Bool.or_false])
    rfl
  refine ⟨R.1, rfl, R.2.1, R.2.2, ?_⟩
  unfold RB.cell; rw [hrow]; unfold spanRow; simp only [rowSet_get, if_true]; rfl

theorem updCell_cell (rb : RB) (l c : Int) (g : Cell → Cell) : (rb.updCell l c g).cell l c = g (rb.cell l c) := by
  unfold RB.updCell RB.setRow RB.cell; simp

/-- Changing attributes (not state, columns or mask depth) of a one-column start cell. -/
theorem updAttr_spec {rb : RB} (wf : WF rb) (line col : Int) (hl0 : 0 ≤ line) (hl1 : line < rb.lines)
    (hc0 : 0 ≤ col) (hc1 : col < rb.cols) (hst : (rb.cell line col).state ≠ .cont) (hone : (rb.cell line col).cols = 1)
    (g : Cell → Cell) (hg1 : ∀ c, (g c).state = c.state) (hg2 : ∀ c, (g c).cols = c.cols)
    (hg3 : ∀ c, (g c).maskdepth = c.maskdepth) :
    WF (rb.updCell line col g) ∧ (rb.updCell line col g).aux = rb.aux ∧
    (∀ L C, ((rb.updCell line col g).cell L C).maskdepth = (rb.cell L C).maskdepth) ∧
    (∀ L C, absContent (rb.updCell line col g) L C =
      if L = line ∧ C = col then cellContent (g (rb.cell line col)) 0 else absContent rb L C) := by
  have hrow : (rb.updCell line col g).cells line = rowSet (rb.cells line) col (g (rb.cell line col)) := by
    show (if line = line then _ else _) = _; rw [if_pos rfl]
  have hother : ∀ l, l ≠ line → (rb.updCell line col g).cells l = rb.cells l := by
    intro l hl; show (if l = line then _ else _) = _; rw [if_neg hl]
  have hrw := wf.rows line hl0 hl1
  unfold RB.cell at hst hone
  have R := rowchange_spec (rb' := rb.updCell line col g) wf line col hl0 hl1 hc0 hc1
    (cellContent (g (rb.cell line col)) 0) rfl hother
    (by
      rw [hrow]
      refine RowWF_congr' hrw (fun k => ?_) (fun k => ?_)
      · rw [rowSet_get]; split
        · rename_i x; rw [x, hg1]; rfl
        · rfl
      · rw [rowSet_get]; split
        · rename_i x; rw [x, hg2]; rfl
        · rfl)
    (by
      intro k; rw [hrow, rowSet_get]; split
      · rename_i x; rw [x, hg3]; rfl
      · rfl)
    (by
      intro k hk0 hk1
      rw [hrow]
      unfold rowContent
      by_cases hk : k = col
      · rw [if_pos hk, rowSet_get, if_pos hk, if_neg (by rw [hg1]; exact hst)]
      · rw [if_neg hk, rowSet_get, if_neg hk]
        by_cases hkc : ((rb.cells line).get k).state = .cont
        · rw [if_pos hkc, if_pos hkc, rowSet_get, if_neg]
          intro x
          have a := hrw.cont_lo k hk0 hk1 hkc
          have b := hrw.cont_in k hk0 hk1 hkc
          rw [x] at a b; rw [hone] at b; omega
        · rw [if_neg hkc, if_neg hkc])
    rfl rfl
  exact ⟨R.1, rfl, R.2.1, R.2.2⟩

theorem xlateAndClip_one {rb : RB} (hclip : ClipOK rb.lines rb.cols rb.clip) {line col : Int} {r : Clipped}
    (h : xlateAndClip rb line col 1 = some r) :
    r.line = line + rb.xlLine ∧ r.col = col + rb.xlCol ∧ r.cols = 1 ∧ 0 ≤ r.line ∧ r.line < rb.lines ∧
    0 ≤ r.col ∧ r.col < rb.cols ∧ absClipRect rb.clip r.line r.col = true := by
  obtain ⟨r1, r2, r3, r4, r5, r6, r7, r8⟩ := xlateAndClip_some hclip h
  have a := (r8 r.col).1 ⟨by omega, by omega⟩
  have hc1 : r.cols = 1 := by
    apply Classical.byContradiction; intro x
    have b := (r8 (r.col + 1)).1 ⟨by omega, by omega⟩
    omega
  exact ⟨r1, by omega, hc1, r2, r3, r4, by omega, a.2.2⟩

/-- The shape shared by `put_char` and `linecell`: at most the one cell `(line + xl, col + xc)` changes. -/
theorem refines_cell {rb rb' : RB} {a : AState} (wf : WF rb) (R : Refines rb a) (line col : Int)
    (what : Int → Int → Content → Content)
    (haux : rb'.aux = rb.aux) (hmd : ∀ L C, (rb'.cell L C).maskdepth = (rb.cell L C).maskdepth)
    (hc : ∀ L C, absContent rb' L C =
      if L = line + rb.xlLine ∧ C = col + rb.xlCol ∧ absClipRect rb.clip L C = true ∧ absMasked rb L C = false
      then what line col (absContent rb L C) else absContent rb L C) :
    Refines rb' (paint a (inRun line col 1) what) := by
  refine refines_paint R haux hmd _ _ ?_
  intro L C
  rw [hc]
  by_cases p : L = line + rb.xlLine ∧ C = col + rb.xlCol ∧ absClipRect rb.clip L C = true ∧ absMasked rb L C = false
  · rw [if_pos p, if_pos]
    · have e1 : L - rb.xlLine = line := by omega
      have e2 : C - rb.xlCol = col := by omega
      rw [e1, e2]
    · simp only [Bool.and_eq_true, inRun_iff, Bool.not_eq_true']
      exact ⟨⟨by omega, by omega, by omega⟩, p.2.2.1, p.2.2.2⟩
  · rw [if_neg p, if_neg]
    intro x
    simp only [Bool.and_eq_true, inRun_iff, Bool.not_eq_true'] at x
    exact p ⟨by omega, by omega, x.2.1, x.2.2⟩

theorem charAt_refines {rb : RB} {a : AState} (wf : WF rb) (R : Refines rb a) (l c cp : Int) :
    WF (RB.charAt rb l c cp) ∧ Refines (RB.charAt rb l c cp) (RBAbs.charAt a l c cp) := by
  unfold RB.charAt RBAbs.charAt putChar
  rw [R.pen]
  cases hx : xlateAndClip rb l c 1 with
  | none =>
    refine ⟨wf, refines_cell wf R l c _ rfl (fun _ _ => rfl) ?_⟩
    intro L C
    rw [if_neg]
    intro x
    have := xlateAndClip_none hx C
    rw [← x.1] at this
    exact this ⟨by omega, by omega, x.2.2.1⟩
  | some r =>
    simp only
    obtain ⟨r1, r2, r3, r4, r5, r6, r7, r8⟩ := xlateAndClip_one wf.clip hx
    have hb : inBuf rb.lines rb.cols r.line r.col = true := (inBuf_iff _ _ _ _).2 ⟨r4, r5, r6, r7⟩
    by_cases hm : (rb.cell r.line r.col).maskdepth > -1
    · rw [if_pos hm]
      refine ⟨wf, refines_cell wf R l c _ rfl (fun _ _ => rfl) ?_⟩
      intro L C
      rw [if_neg]
      intro x
      have := (absMasked_false_iff wf hb).1 (by rw [r1, r2, ← x.1, ← x.2.1]; exact x.2.2.2)
      omega
    · rw [if_neg hm, r3]
      have hun : (rb.cell r.line r.col).maskdepth = -1 := by have := wf.maskLB r.line r.col; omega
      obtain ⟨w, haux, hmd, hc, _⟩ := cellOp_spec wf r.line r.col r4 r5 r6 r7 hun
        (fun c => { c with state := .char, pen := rb.pen, cp := cp }) (fun _ => by simp) (fun _ h => h) (fun _ => rfl)
      refine ⟨w, refines_cell wf R l c _ haux hmd ?_⟩
      intro L C
      rw [hc]
      by_cases p : L = r.line ∧ C = r.col
      · rw [if_pos p, if_pos]
        · rfl
        · refine ⟨by omega, by omega, by rw [p.1, p.2]; exact r8, ?_⟩
          rw [p.1, p.2]; exact (absMasked_false_iff wf hb).2 hun
      · rw [if_neg p, if_neg]
        intro x; exact p ⟨by omega, by omega⟩

theorem char_refines {rb : RB} {a : AState} (wf : WF rb) (R : Refines rb a) (cp : Int) :
    WF (RB.char rb cp) ∧ Refines (RB.char rb cp) (RBAbs.char a cp) :=
  atCursor_refines wf R (fun r l c => putChar r l c cp) (fun a l c => RBAbs.charAt a l c cp) 1
    (fun l c => charAt_refines wf R l c cp) (fun l c => putChar_aux rb l c cp)

theorem absContent_cell {rb : RB} (wf : WF rb) (L C : Int) (hb : inBuf rb.lines rb.cols L C = true) :
    ((rb.cell L C).state = .line → absContent rb L C = .line (rb.cell L C).pen (rb.cell L C).lmask) ∧
    ((rb.cell L C).state ≠ .line → ∀ p m, absContent rb L C ≠ .line p m) := by
  have hb' := (inBuf_iff _ _ _ _).1 hb
  rw [absContent_eq, if_pos hb]
  unfold rowContent cellContent RB.cell
  constructor
  · intro h; rw [if_neg (by rw [h]; simp), h]
  · intro h p m
    by_cases hc : ((rb.cells L).get C).state = .cont
    · rw [if_pos hc]
      have := (wf.rows L hb'.1 hb'.2.1).start_isSTE C hb'.2.2.1 hb'.2.2.2 hc
      cases hs : ((rb.cells L).get ((rb.cells L).get C).cols).state <;> simp_all [CState.isSTE]
    · rw [if_neg hc]
      cases hs : ((rb.cells L).get C).state <;> simp_all

theorem linecell_refines {rb : RB} {a : AState} (wf : WF rb) (R : Refines rb a) (l c : Int) (bits : Nat) :
    WF (RB.linecell rb l c bits) ∧ Refines (RB.linecell rb l c bits) (RBAbs.linecell a l c bits) := by
  unfold RB.linecell RBAbs.linecell
  rw [R.pen]
  cases hx : xlateAndClip rb l c 1 with
  | none =>
    refine ⟨wf, refines_cell wf R l c _ rfl (fun _ _ => rfl) ?_⟩
    intro L C
    rw [if_neg]
    intro x
    have := xlateAndClip_none hx C
    rw [← x.1] at this
    exact this ⟨by omega, by omega, x.2.2.1⟩
  | some r =>
    simp only
    obtain ⟨r1, r2, r3, r4, r5, r6, r7, r8⟩ := xlateAndClip_one wf.clip hx
    have hb : inBuf rb.lines rb.cols r.line r.col = true := (inBuf_iff _ _ _ _).2 ⟨r4, r5, r6, r7⟩
    by_cases hm : (rb.cell r.line r.col).maskdepth > -1
    · rw [if_pos hm]
      refine ⟨wf, refines_cell wf R l c _ rfl (fun _ _ => rfl) ?_⟩
      intro L C
      rw [if_neg]
      intro x
      have := (absMasked_false_iff wf hb).1 (by rw [r1, r2, ← x.1, ← x.2.1]; exact x.2.2.2)
      omega
    · rw [if_neg hm, r3]
      have hun : (rb.cell r.line r.col).maskdepth = -1 := by have := wf.maskLB r.line r.col; omega
      have hcell := absContent_cell wf r.line r.col hb
      -- the intermediate buffer: the cell is a LINE cell with pen `p'` and mask `m'`
      have step1 : ∃ (rb1 : RB) (p' : Pen) (m' : Nat),
          (if (rb.cell r.line r.col).state ≠ .line then
            (makeSpan rb r.line r.col 1).updCell r.line r.col (fun c => { c with state := .line, cols := 1, pen := rb.pen, lmask := 0 })
          else if (!Pen.equiv (rb.cell r.line r.col).pen rb.pen) = true then
            rb.updCell r.line r.col (fun c => { c with pen := rb.pen })
          else rb) = rb1 ∧
          WF rb1 ∧ rb1.aux = rb.aux ∧ (∀ L C, (rb1.cell L C).maskdepth = (rb.cell L C).maskdepth) ∧
          (∀ L C, absContent rb1 L C = if L = r.line ∧ C = r.col then .line p' m' else absContent rb L C) ∧
          (rb1.cell r.line r.col).state = .line ∧ (rb1.cell r.line r.col).cols = 1 ∧
          (rb1.cell r.line r.col).pen = p' ∧ (rb1.cell r.line r.col).lmask = m' ∧
          mergeLine rb.pen bits (absContent rb r.line r.col) = .line p' (m' ||| bits) := by
        by_cases hst : (rb.cell r.line r.col).state ≠ .line
        · rw [if_pos hst]
          obtain ⟨w, haux, hmd, hc, hcl⟩ := cellOp_spec wf r.line r.col r4 r5 r6 r7 hun
            (fun c => { c with state := .line, cols := 1, pen := rb.pen, lmask := 0 }) (fun _ => by simp) (fun _ _ => rfl) (fun _ => rfl)
          refine ⟨_, rb.pen, 0, rfl, w, haux, hmd, hc, by rw [hcl], by rw [hcl], by rw [hcl], by rw [hcl], ?_⟩
          have := hcell.2 hst
          unfold mergeLine
          cases hh : absContent rb r.line r.col with
          | line p m => exact absurd hh (this p m)
          | skip => simp
          | text _ _ _ => simp
          | erase _ => simp
          | char _ _ => simp
        · have hst' : (rb.cell r.line r.col).state = .line := by
            apply Classical.byContradiction; intro x; exact hst x
          rw [if_neg hst]
          have hone := (wf.rows r.line r4 r5).one r.col r6 r7 (Or.inl hst')
          have hold := hcell.1 hst'
          by_cases heq : (!Pen.equiv (rb.cell r.line r.col).pen rb.pen) = true
          · rw [if_pos heq]
            obtain ⟨w, haux, hmd, hc⟩ := updAttr_spec wf r.line r.col r4 r5 r6 r7 (by rw [hst']; simp) hone
              (fun c => { c with pen := rb.pen }) (fun _ => rfl) (fun _ => rfl) (fun _ => rfl)
            have hcl := updCell_cell rb r.line r.col (fun c => { c with pen := rb.pen })
            refine ⟨_, rb.pen, (rb.cell r.line r.col).lmask, rfl, w, haux, hmd, ?_, by rw [hcl]; exact hst',
              by rw [hcl]; exact hone, by rw [hcl], by rw [hcl], ?_⟩
            · intro L C; rw [hc]
              split
              · show cellContent _ 0 = _
                unfold cellContent; simp only [hst']
              · rfl
            · rw [hold]; unfold mergeLine
              simp only [Bool.not_eq_true'] at heq
              simp [heq]
          · rw [if_neg heq]
            refine ⟨rb, (rb.cell r.line r.col).pen, (rb.cell r.line r.col).lmask, rfl, wf, rfl, fun _ _ => rfl, ?_, hst', hone, rfl, rfl, ?_⟩
            · intro L C
              by_cases p : L = r.line ∧ C = r.col
              · rw [if_pos p, p.1, p.2]; exact hold
              · rw [if_neg p]
            · rw [hold]; unfold mergeLine
              simp only [Bool.not_eq_true', Bool.not_eq_false] at heq
              simp [heq]
      obtain ⟨rb1, p', m', e1, w1, aux1, md1, c1, s1, s2, s3, s4, hmerge⟩ := step1
      rw [e1]
      have e1l : rb1.lines = rb.lines := congrArg Aux.lines aux1
      have e1c : rb1.cols = rb.cols := congrArg Aux.cols aux1
      obtain ⟨w2, aux2, md2, c2⟩ := updAttr_spec w1 r.line r.col r4 (by omega) r6 (by omega) (by rw [s1]; simp) s2
        (fun c => { c with lmask := c.lmask ||| bits }) (fun _ => rfl) (fun _ => rfl) (fun _ => rfl)
      refine ⟨w2, refines_cell wf R l c _ (aux2.trans aux1) (fun L C => (md2 L C).trans (md1 L C)) ?_⟩
      intro L C
      rw [c2, c1]
      by_cases p : L = r.line ∧ C = r.col
      · rw [if_pos p, if_pos]
        · show cellContent _ 0 = _
          rw [p.1, p.2, hmerge]
          unfold cellContent
          simp only [s1, s3, s4]
        · refine ⟨by omega, by omega, by rw [p.1, p.2]; exact r8, ?_⟩
          rw [p.1, p.2]; exact (absMasked_false_iff wf hb).2 hun
      · rw [if_neg p, if_neg p, if_neg]
        intro x; exact p ⟨by omega, by omega⟩

theorem lineLoop_refines (cellAt : Int → Int × Int) (bits : Nat) (n : Nat) :
    ∀ {rb : RB} {a : AState} (_ : WF rb) (_ : Refines rb a) (from_ : Int),
      WF (RB.lineLoop cellAt bits rb from_ n) ∧ Refines (RB.lineLoop cellAt bits rb from_ n) (RBAbs.lineLoop cellAt bits a from_ n) := by
  induction n with
  | zero => intro rb a wf R from_; exact ⟨wf, R⟩
  | succ n ih =>
    intro rb a wf R from_
    unfold RB.lineLoop RBAbs.lineLoop
    obtain ⟨w, r⟩ := linecell_refines wf R (cellAt from_).1 (cellAt from_).2 bits
    exact ih w r (from_ + 1)

theorem hlineAt_refines {rb : RB} {a : AState} (wf : WF rb) (R : Refines rb a) (l c1 c2 : Int) (st caps : Nat) :
    WF (RB.hlineAt rb l c1 c2 st caps) ∧ Refines (RB.hlineAt rb l c1 c2 st caps) (RBAbs.hlineAt a l c1 c2 st caps) := by
  unfold RB.hlineAt RBAbs.hlineAt
  simp only
  obtain ⟨w1, q1⟩ := linecell_refines wf R l c1 (st <<< Gen.RBWidth.c_EAST_SHIFT ||| if caps &&& Gen.RBWidth.c_TICKIT_LINECAP_START ≠ 0 then st <<< Gen.RBWidth.c_WEST_SHIFT else 0)
  obtain ⟨w2, q2⟩ := lineLoop_refines (fun col => (l, col)) (st <<< Gen.RBWidth.c_EAST_SHIFT ||| st <<< Gen.RBWidth.c_WEST_SHIFT) (c2 - 1 - c1).toNat w1 q1 (c1 + 1)
  exact linecell_refines w2 q2 l c2 _

theorem vlineAt_refines {rb : RB} {a : AState} (wf : WF rb) (R : Refines rb a) (l1 l2 c : Int) (st caps : Nat) :
    WF (RB.vlineAt rb l1 l2 c st caps) ∧ Refines (RB.vlineAt rb l1 l2 c st caps) (RBAbs.vlineAt a l1 l2 c st caps) := by
  unfold RB.vlineAt RBAbs.vlineAt
  simp only
  obtain ⟨w1, q1⟩ := linecell_refines wf R l1 c (st <<< Gen.RBWidth.c_SOUTH_SHIFT ||| if caps &&& Gen.RBWidth.c_TICKIT_LINECAP_START ≠ 0 then st <<< Gen.RBWidth.c_NORTH_SHIFT else 0)
  obtain ⟨w2, q2⟩ := lineLoop_refines (fun line => (line, c)) (st <<< Gen.RBWidth.c_SOUTH_SHIFT ||| st <<< Gen.RBWidth.c_NORTH_SHIFT) (l2 - 1 - l1).toNat w1 q1 (l1 + 1)
  exact linecell_refines w2 q2 l2 c _

/-! ## Rectangle operations -/

theorem refines_ext {rb : RB} {a a' : AState} (R : Refines rb a) (h1 : a'.lines = a.lines) (h2 : a'.cols = a.cols)
    (h3 : ∀ L C, a'.content L C = a.content L C) (h4 : ∀ L C, a'.masked L C = a.masked L C) (h5 : a'.vc = a.vc)
    (h6 : a'.xlLine = a.xlLine) (h7 : a'.xlCol = a.xlCol) (h8 : ∀ L C, a'.clip L C = a.clip L C)
    (h9 : a'.pen = a.pen) (h10 : a'.stack = a.stack) : Refines rb a' :=
  ⟨h1.trans R.lines, h2.trans R.cols, fun L C => (h3 L C).trans (R.content L C), fun L C => (h4 L C).trans (R.masked L C),
   h5.trans R.vc, h6.trans R.xlLine, h7.trans R.xlCol, fun L C => (h8 L C).trans (R.clip L C), h9.trans R.pen, h10 ▸ R.stack⟩

/-- `n` lines from `from_`, columns `[left, left + cols)`. -/
def inLines (from_ : Int) (n : Nat) (left cols : Int) (l c : Int) : Bool :=
  decide (from_ ≤ l) && decide (l < from_ + n) && decide (left ≤ c) && decide (c < left + cols)

theorem inLines_iff (from_ : Int) (n : Nat) (left cols l c : Int) :
    inLines from_ n left cols l c = true ↔ (from_ ≤ l ∧ l < from_ + n ∧ left ≤ c ∧ c < left + cols) := by
  unfold inLines; simp only [Bool.and_eq_true, decide_eq_true_eq]
  constructor
  · rintro ⟨⟨⟨a, b⟩, c⟩, d⟩; exact ⟨a, b, c, d⟩
  · rintro ⟨a, b, c, d⟩; exact ⟨⟨⟨a, b⟩, c⟩, d⟩

/-- A `for` loop over lines, each iteration painting one run with the same constant content. -/
theorem forLines_refines (f : RB → Int → RB) (P : RB → Prop) (left cols : Int) (x : Content)
    (hop : ∀ (rb : RB) (a : AState), WF rb → Refines rb a → P rb → ∀ line,
      WF (f rb line) ∧ Refines (f rb line) (paint a (inRun line left cols) (fun _ _ _ => x)) ∧ P (f rb line))
    (n : Nat) :
    ∀ {rb : RB} {a : AState} (_ : WF rb) (_ : Refines rb a) (_ : P rb) (from_ : Int),
      WF (forLines f rb from_ n) ∧ Refines (forLines f rb from_ n) (paint a (inLines from_ n left cols) (fun _ _ _ => x)) := by
  induction n with
  | zero =>
    intro rb a wf R _ from_
    refine ⟨wf, refines_paint_none R _ _ ?_⟩
    intro l c
    cases h : inLines from_ 0 left cols l c
    · rfl
    · have := (inLines_iff _ _ _ _ _ _).1 h; omega
  | succ n ih =>
    intro rb a wf R hP from_
    unfold forLines
    obtain ⟨w1, q1, p1⟩ := hop rb a wf R hP from_
    obtain ⟨w2, q2⟩ := ih w1 q1 p1 (from_ + 1)
    refine ⟨w2, refines_ext q2 rfl rfl ?_ (fun _ _ => rfl) rfl rfl rfl (fun _ _ => rfl) rfl rfl⟩
    intro L C
    show (if inLines from_ (n + 1) left cols (L - a.xlLine) (C - a.xlCol) && a.writable L C then x else a.content L C) =
      (if inLines (from_ + 1) n left cols (L - a.xlLine) (C - a.xlCol) && a.writable L C then x
       else (if inRun from_ left cols (L - a.xlLine) (C - a.xlCol) && a.writable L C then x else a.content L C))
    by_cases hw : a.writable L C = true
    · rw [hw]; simp only [Bool.and_true]
      by_cases h1 : inLines (from_ + 1) n left cols (L - a.xlLine) (C - a.xlCol) = true
      · rw [if_pos h1, if_pos]
        have := (inLines_iff _ _ _ _ _ _).1 h1
        rw [inLines_iff]; omega
      · rw [if_neg h1]
        by_cases h2 : inRun from_ left cols (L - a.xlLine) (C - a.xlCol) = true
        · rw [if_pos h2, if_pos]
          have := (inRun_iff _ _ _ _ _).1 h2
          rw [inLines_iff]; omega
        · rw [if_neg h2, if_neg]
          intro h3
          have h3' := (inLines_iff _ _ _ _ _ _).1 h3
          rw [inLines_iff] at h1
          rw [inRun_iff] at h2
          omega
    · have : a.writable L C = false := by cases h : a.writable L C <;> simp_all
      rw [this]; simp

theorem inLines_memb (r : Rect) (l c : Int) : inLines r.top (r.bottom - r.top).toNat r.left r.cols l c = r.memb l c := by
  apply bool_ext
  rw [inLines_iff, memb_iff]
  unfold Rect.Mem Rect.bottom Rect.right
  omega

theorem paint_congr_cov {rb : RB} {a : AState} {cov cov' : Int → Int → Bool} {what : Int → Int → Content → Content}
    (R : Refines rb (paint a cov what)) (h : ∀ l c, cov l c = cov' l c) : Refines rb (paint a cov' what) := by
  refine refines_ext R rfl rfl ?_ (fun _ _ => rfl) rfl rfl rfl (fun _ _ => rfl) rfl rfl
  intro L C
  show (if cov' _ _ && _ then _ else _) = (if cov _ _ && _ then _ else _)
  rw [h]

theorem eraserect_refines {rb : RB} {a : AState} (wf : WF rb) (R : Refines rb a) (r : Rect) :
    WF (RB.eraserect rb r) ∧ Refines (RB.eraserect rb r) (RBAbs.eraserect a r) := by
  unfold RB.eraserect RBAbs.eraserect
  rw [R.pen]
  obtain ⟨w, q⟩ := forLines_refines (fun r' line => eraseRun r' line r.left r.cols) (fun r' => r'.pen = rb.pen) r.left r.cols
    (.erase rb.pen)
    (fun rb' a' wf' R' hp line => by
      obtain ⟨w1, q1⟩ := eraseAt_refines wf' R' line r.left r.cols
      unfold RB.eraseAt at w1 q1
      unfold RBAbs.eraseAt at q1
      rw [R'.pen, hp] at q1
      exact ⟨w1, q1, (congrArg Aux.pen (eraseRun_aux rb' line r.left r.cols)).trans hp⟩)
    (r.bottom - r.top).toNat wf R rfl r.top
  exact ⟨w, paint_congr_cov q (inLines_memb r)⟩

theorem skiprect_refines {rb : RB} {a : AState} (wf : WF rb) (R : Refines rb a) (r : Rect) :
    WF (RB.skiprect rb r) ∧ Refines (RB.skiprect rb r) (RBAbs.skiprect a r) := by
  unfold RB.skiprect RBAbs.skiprect
  obtain ⟨w, q⟩ := forLines_refines (fun r' line => skipRun r' line r.left r.cols) (fun _ => True) r.left r.cols .skip
    (fun rb' a' wf' R' _ line => by
      obtain ⟨w1, q1⟩ := skipAt_refines wf' R' line r.left r.cols
      exact ⟨w1, q1, trivial⟩)
    (r.bottom - r.top).toNat wf R trivial r.top
  exact ⟨w, paint_congr_cov q (inLines_memb r)⟩

theorem forLines_congr (f g : RB → Int → RB) (P : RB → Prop) (hfg : ∀ rb l, P rb → f rb l = g rb l)
    (hP : ∀ rb l, P rb → P (g rb l)) (n : Nat) :
    ∀ (rb : RB) (from_ : Int), P rb → forLines f rb from_ n = forLines g rb from_ n := by
  induction n with
  | zero => intro rb from_ _; rfl
  | succ n ih =>
    intro rb from_ hp
    unfold forLines
    rw [hfg rb from_ hp]
    exact ih _ _ (hP rb from_ hp)

theorem clear_refines {rb : RB} {a : AState} (wf : WF rb) (R : Refines rb a) :
    WF (RB.clear rb) ∧ Refines (RB.clear rb) (RBAbs.clear a) := by
  have e : RB.clear rb = RB.eraserect rb ⟨0, 0, rb.lines, rb.cols⟩ := by
    unfold RB.clear RB.eraserect
    show forLines _ rb 0 rb.lines.toNat = forLines _ rb 0 ((0 + rb.lines) - 0).toNat
    have : (0 + rb.lines - 0) = rb.lines := by omega
    rw [this]
    exact forLines_congr _ _ (fun r => r.cols = rb.cols) (fun r l h => by simp only [h])
      (fun r l h => (congrArg Aux.cols (eraseRun_aux r l 0 rb.cols)).trans h) _ rb 0 rfl
  rw [e]
  unfold RBAbs.clear
  rw [R.lines, R.cols]
  exact eraserect_refines wf R _

/-! ## Programs -/

/-- `restore` keeps a buffer well-formed (no hypothesis about the cursor is needed for that). -/
theorem restore_wf {rb : RB} (wf : WF rb) : WF (RB.restore rb) := by
  cases hrs : rb.stack with
  | nil =>
    have e1 : RB.restore rb = rb := by unfold RB.restore; rw [hrs]
    rw [e1]; exact wf
  | cons f prev =>
    obtain ⟨r1, r2, r3, r4, r5, r6, r7, r8, r9, r10, r11, r12, r13, r14⟩ := restore_fields hrs
    have hsame : ∀ L C, SameButMask (rb.cell L C) ((RB.restore rb).cell L C) := by
      intro L C; rw [r3]; split <;> simp [SameButMask]
    obtain ⟨_, hrows⟩ := maskonly_facts (rb := rb) (rb' := RB.restore rb) r1 r2 hsame
    have hmd : ∀ L C, ((RB.restore rb).cell L C).maskdepth =
        if 0 ≤ L ∧ L < rb.lines ∧ 0 ≤ C ∧ C < rb.cols ∧ (rb.cell L C).maskdepth > rb.depth - 1 then -1
        else (rb.cell L C).maskdepth := by
      intro L C; rw [r3]; split <;> rfl
    have hdlen : rb.depth = (prev.length : Int) + 1 := by rw [wf.depth, hrs]; simp
    refine ⟨?_, ?_, ?_, ?_, ?_, ?_, ?_, ?_, ?_⟩
    · rw [r1, r2]; exact wf.size
    · intro l x y; exact hrows l (wf.rows l x (by omega))
    · intro l c; rw [hmd]; have := wf.maskLB l c; split <;> omega
    · intro l c x y z w
      rw [hmd, r11]
      rw [r1] at y; rw [r2] at w
      have ub := wf.maskUB l c x y z w
      have lb := wf.maskLB l c
      split <;> omega
    · rw [r11, r12, hdlen]; omega
    · rw [r1, r2, r9]
      cases hp : f.penOnly with
      | true => simp only [if_true]; exact wf.clip
      | false => simp only [Bool.false_eq_true, if_false]; exact wf.frames f (by rw [hrs]; simp) hp
    · rw [r1, r2, r12]; intro f' hf'; exact wf.frames f' (by rw [hrs]; exact List.mem_cons_of_mem _ hf')
    · rw [r13]; exact wf.aborted
    · rw [r14]; exact wf.fuelOut

/-- **One step of the refinement**: every operation keeps the buffer well-formed and does to it what the
    specification says. -/
theorem step_refines {rb : RB} {a : AState} (wf : WF rb) (R : Refines rb a) (o : Op) :
    WF (RB.step rb o) ∧ Refines (RB.step rb o) (RBAbs.step a o) := by
  cases o with
  | textAt l c s => exact textAt_refines wf R l c s
  | text s => exact text_refines wf R s
  | eraseAt l c n => exact eraseAt_refines wf R l c n
  | erase n => exact erase_refines wf R n
  | eraseTo c => exact eraseTo_refines wf R c
  | skipAt l c n => exact skipAt_refines wf R l c n
  | skip n => exact skip_refines wf R n
  | skipTo c => exact skipTo_refines wf R c
  | charAt l c cp => exact charAt_refines wf R l c cp
  | char cp => exact char_refines wf R cp
  | hlineAt l c1 c2 st caps => exact hlineAt_refines wf R l c1 c2 st caps
  | vlineAt l1 l2 c st caps => exact vlineAt_refines wf R l1 l2 c st caps
  | clear => exact clear_refines wf R
  | eraserect r => exact eraserect_refines wf R r
  | skiprect r => exact skiprect_refines wf R r
  | goto l c => exact goto_refines wf R l c
  | ungoto => exact ungoto_refines wf R
  | translate d r => exact translate_refines wf R d r
  | clip r => exact clip_refines wf R r
  | mask r => exact mask_refines wf R r
  | setpen p => exact setpen_refines wf R p
  | save => exact save_refines wf R
  | savepen => exact savepen_refines wf R
  | restore => exact restore_refines wf R
  | reset => exact reset_refines wf R

theorem run_refines : ∀ (prog : List Op) {rb : RB} {a : AState}, WF rb → Refines rb a →
    WF (RB.run rb prog) ∧ Refines (RB.run rb prog) (RBAbs.run a prog) := by
  intro prog
  induction prog with
  | nil => intro rb a wf R; exact ⟨wf, R⟩
  | cons o rest ih =>
    intro rb a wf R
    obtain ⟨w, q⟩ := step_refines wf R o
    exact ih w q

/-- A fresh buffer is well-formed and implements the fresh abstract buffer. -/
theorem new_refines (lines cols g1 g2 : Int) (hl : 0 ≤ lines) (hc : 0 < cols) :
    WF (RB.new lines cols g1 g2) ∧ Refines (RB.new lines cols g1 g2) (AState.new lines cols) := by
  have hcell : ∀ l c, (RB.new lines cols g1 g2).cell l c =
      if c = 0 then { state := .skip, maskdepth := -1, cols := cols } else { state := .cont, maskdepth := -1, cols := 0 } := fun _ _ => rfl
  have hrow : ∀ l, RowWF cols ((RB.new lines cols g1 g2).cells l) := by
    intro l
    have S : ∀ k, (((RB.new lines cols g1 g2).cells l).get k).state = (if k = 0 then .skip else .cont) ∧
        (((RB.new lines cols g1 g2).cells l).get k).cols = (if k = 0 then cols else 0) := by
      intro k
      have := hcell l k
      unfold RB.cell at this
      rw [this]; split <;> simp
    have S0 := S 0
    simp only [if_true] at S0
    refine ⟨?_, ?_, ?_, ?_, ?_, ?_⟩
    · intro k a b x
      obtain ⟨s1, s2⟩ := S k
      by_cases hk : k = 0
      · rw [s1, if_pos hk] at x; cases x
      · rw [s2, if_neg hk]; omega
    · intro k a b x
      obtain ⟨s1, s2⟩ := S k
      by_cases hk : k = 0
      · rw [s1, if_pos hk] at x; cases x
      · rw [s2, if_neg hk, S0.1]; simp
    · intro k a b x
      obtain ⟨s1, s2⟩ := S k
      by_cases hk : k = 0
      · rw [s1, if_pos hk] at x; cases x
      · rw [s2, if_neg hk, S0.2]; omega
    · intro k a b x
      obtain ⟨s1, s2⟩ := S k
      by_cases hk : k = 0
      · rw [s2, if_pos hk]; omega
      · rw [s1, if_neg hk] at x; exact absurd rfl x
    · intro k j a b x y z
      obtain ⟨s1, s2⟩ := S k
      by_cases hk : k = 0
      · rw [s2, if_pos hk] at z
        obtain ⟨t1, t2⟩ := S j
        rw [t1, t2, if_neg (by omega), if_neg (by omega)]; exact ⟨rfl, hk.symm⟩
      · rw [s1, if_neg hk] at x; exact absurd rfl x
    · intro k a b x
      obtain ⟨s1, s2⟩ := S k
      by_cases hk : k = 0
      · rw [s1, if_pos hk] at x; rcases x with x | x <;> cases x
      · rw [s1, if_neg hk] at x; rcases x with x | x <;> cases x
  have hmd : ∀ l c, ((RB.new lines cols g1 g2).cell l c).maskdepth = -1 := by
    intro l c; rw [hcell]; split <;> rfl
  have hlb : ∀ l c, -1 ≤ ((RB.new lines cols g1 g2).cell l c).maskdepth := by intro l c; rw [hmd]; omega
  have hub : ∀ l c, 0 ≤ l → l < lines → 0 ≤ c → c < cols → ((RB.new lines cols g1 g2).cell l c).maskdepth ≤ 0 := by
    intro l c _ _ _ _; rw [hmd]; omega
  have hfr : ∀ f, f ∈ ([] : List Frame) → f.penOnly = false → ClipOK lines cols f.clip := by intro f hf; cases hf
  refine ⟨⟨⟨hl, hc⟩, fun l _ _ => hrow l, hlb, hub, rfl, ?_, hfr, rfl, rfl⟩, ⟨rfl, rfl, ?_, ?_, rfl, rfl, rfl, ?_, rfl, ?_⟩⟩
  · show ClipOK lines cols ⟨0, 0, lines, cols⟩
    unfold ClipOK Rect.bottom Rect.right
    simp only
    by_cases h : lines = 0
    · left; exact h
    · right; omega
  · intro L C
    show Content.skip = absContent (RB.new lines cols g1 g2) L C
    rw [absContent_eq]
    show _ = if inBuf lines cols L C = true then _ else _
    by_cases hb : inBuf lines cols L C = true
    · rw [if_pos hb]
      have s := hcell L C
      have s0 := hcell L 0
      unfold RB.cell at s s0
      unfold rowContent cellContent
      by_cases hc0 : C = 0
      · rw [s, if_pos hc0]; simp
      · rw [s, if_neg hc0]; simp [s0]
    · rw [if_neg hb]
  · intro L C
    show false = absMasked (RB.new lines cols g1 g2) L C
    unfold absMasked; rw [hmd]; simp
  · intro L C
    show inBuf lines cols L C = absClipRect ⟨0, 0, lines, cols⟩ L C
    apply bool_ext
    rw [inBuf_iff, absClipRect_iff]
    simp only
    omega
  · show FramesRel _ 0 [] []
    simp [FramesRel]

/-! ## Reading a concrete buffer as an abstract state -/

/-- The abstract frames of a concrete stack (`d` = depth above the first frame). -/
def absFrames (rb : RB) : Int → List Frame → List AFrame
  | _, [] => []
  | d, f :: fs =>
    { penOnly := f.penOnly, vc := (if f.vcPosSet then some (f.vcLine, f.vcCol) else none), xlLine := f.xlLine, xlCol := f.xlCol, clip := absClipRect f.clip,
      pen := f.pen, masked := absMaskedAt rb (d - 1) } :: absFrames rb (d - 1) fs

/-- `abs : RB → AState`. -/
def absOf (rb : RB) : AState :=
  { lines := rb.lines, cols := rb.cols, content := absContent rb, masked := absMasked rb, vc := getCursor rb,
    xlLine := rb.xlLine, xlCol := rb.xlCol, clip := absClipRect rb.clip, pen := rb.pen,
    stack := absFrames rb rb.depth rb.stack }

theorem absFrames_rel (rb : RB) : ∀ (fs : List Frame) (d : Int), FramesRel rb d fs (absFrames rb d fs) := by
  intro fs
  induction fs with
  | nil => intro d; simp [absFrames, FramesRel]
  | cons f fs ih =>
    intro d
    unfold absFrames FramesRel
    exact ⟨⟨rfl, rfl, fun _ _ => rfl, fun _ => ⟨rfl, rfl, fun _ _ => rfl, rfl⟩⟩, ih (d - 1)⟩

theorem refines_absOf (rb : RB) : Refines rb (absOf rb) :=
  ⟨rfl, rfl, fun _ _ => rfl, fun _ _ => rfl, rfl, rfl, rfl, fun _ _ => rfl, rfl, absFrames_rel rb _ _⟩

/-- **`WF` is an invariant of every operation.** -/
theorem step_wf {rb : RB} (wf : WF rb) (o : Op) : WF (RB.step rb o) := by
  cases o with
  | restore => exact restore_wf wf
  | textAt l c s => exact (step_refines wf (refines_absOf rb) (.textAt l c s)).1
  | text s => exact (step_refines wf (refines_absOf rb) (.text s)).1
  | eraseAt l c n => exact (step_refines wf (refines_absOf rb) (.eraseAt l c n)).1
  | erase n => exact (step_refines wf (refines_absOf rb) (.erase n)).1
  | eraseTo c => exact (step_refines wf (refines_absOf rb) (.eraseTo c)).1
  | skipAt l c n => exact (step_refines wf (refines_absOf rb) (.skipAt l c n)).1
  | skip n => exact (step_refines wf (refines_absOf rb) (.skip n)).1
  | skipTo c => exact (step_refines wf (refines_absOf rb) (.skipTo c)).1
  | charAt l c cp => exact (step_refines wf (refines_absOf rb) (.charAt l c cp)).1
  | char cp => exact (step_refines wf (refines_absOf rb) (.char cp)).1
  | hlineAt l c1 c2 st caps => exact (step_refines wf (refines_absOf rb) (.hlineAt l c1 c2 st caps)).1
  | vlineAt l1 l2 c st caps => exact (step_refines wf (refines_absOf rb) (.vlineAt l1 l2 c st caps)).1
  | clear => exact (step_refines wf (refines_absOf rb) .clear).1
  | eraserect r => exact (step_refines wf (refines_absOf rb) (.eraserect r)).1
  | skiprect r => exact (step_refines wf (refines_absOf rb) (.skiprect r)).1
  | goto l c => exact (step_refines wf (refines_absOf rb) (.goto l c)).1
  | ungoto => exact (step_refines wf (refines_absOf rb) .ungoto).1
  | translate d r => exact (step_refines wf (refines_absOf rb) (.translate d r)).1
  | clip r => exact (step_refines wf (refines_absOf rb) (.clip r)).1
  | mask r => exact (step_refines wf (refines_absOf rb) (.mask r)).1
  | setpen p => exact (step_refines wf (refines_absOf rb) (.setpen p)).1
  | save => exact (step_refines wf (refines_absOf rb) .save).1
  | savepen => exact (step_refines wf (refines_absOf rb) .savepen).1
  | reset => exact (step_refines wf (refines_absOf rb) .reset).1

theorem run_wf : ∀ (prog : List Op) {rb : RB}, WF rb → WF (RB.run rb prog) := by
  intro prog
  induction prog with
  | nil => intro rb wf; exact wf
  | cons o rest ih => intro rb wf; exact ih (step_wf wf o)

end Tickit.RB
