import Tickit.Proof.RBOps
/-
  The refinement between the concrete render buffer (`Tickit.RB`) and the specification (`Tickit.RBAbs`).
-/
namespace Tickit.RB
open Tickit.RBAbs

/-- A saved concrete frame against a saved abstract frame; `d` is the depth at which it was pushed.
    The concrete frame has no record of whether the cursor was set: it only has to hold the position if
    the abstract frame says it was. -/
def FrameRel (rb : RB) (d : Int) (f : Frame) (g : AFrame) : Prop :=
  f.penOnly = g.penOnly ∧ f.pen = g.pen ∧ (∀ L C, g.masked L C = absMaskedAt rb d L C) ∧
  (f.penOnly = false → f.xlLine = g.xlLine ∧ f.xlCol = g.xlCol ∧ (∀ L C, g.clip L C = absClipRect f.clip L C) ∧
    (∀ p, g.vc = some p → p = (f.vcLine, f.vcCol)))

/-- The stacks, newest first; `d` is the depth above the first frame. -/
def FramesRel (rb : RB) : Int → List Frame → List AFrame → Prop
  | _, [], [] => True
  | d, f :: fs, g :: gs => FrameRel rb (d - 1) f g ∧ FramesRel rb (d - 1) fs gs
  | _, _, _ => False

/-- `rb` implements `a`. -/
structure Refines (rb : RB) (a : AState) : Prop where
  lines : a.lines = rb.lines
  cols : a.cols = rb.cols
  content : ∀ L C, a.content L C = absContent rb L C
  masked : ∀ L C, a.masked L C = absMasked rb L C
  vc : a.vc = getCursor rb
  xlLine : a.xlLine = rb.xlLine
  xlCol : a.xlCol = rb.xlCol
  clip : ∀ L C, a.clip L C = absClipRect rb.clip L C
  pen : a.pen = rb.pen
  stack : FramesRel rb rb.depth rb.stack a.stack

theorem absMaskedAt_congr {rb rb' : RB} (h1 : rb'.lines = rb.lines) (h2 : rb'.cols = rb.cols)
    (hmd : ∀ L C, (rb'.cell L C).maskdepth = (rb.cell L C).maskdepth) (d L C : Int) :
    absMaskedAt rb' d L C = absMaskedAt rb d L C := by
  unfold absMaskedAt absMasked; rw [h1, h2, hmd]

theorem absMasked_congr {rb rb' : RB} (h1 : rb'.lines = rb.lines) (h2 : rb'.cols = rb.cols)
    (hmd : ∀ L C, (rb'.cell L C).maskdepth = (rb.cell L C).maskdepth) (L C : Int) :
    absMasked rb' L C = absMasked rb L C := by
  unfold absMasked; rw [h1, h2, hmd]

theorem FramesRel_congr {rb rb' : RB} (h : ∀ d L C, absMaskedAt rb' d L C = absMaskedAt rb d L C) :
    ∀ (fs : List Frame) (gs : List AFrame) (d : Int), FramesRel rb d fs gs → FramesRel rb' d fs gs := by
  intro fs
  induction fs with
  | nil => intro gs d x; cases gs <;> simpa [FramesRel] using x
  | cons f fs ih =>
    intro gs d x
    cases gs with
    | nil => simp [FramesRel] at x
    | cons g gs =>
      unfold FramesRel at x ⊢
      refine ⟨⟨x.1.1, x.1.2.1, fun L C => ?_, x.1.2.2.2⟩, ih gs (d - 1) x.2⟩
      rw [h]; exact x.1.2.2.1 L C

/-- A drawing operation (same auxiliary state, same mask depths, content changed cell-wise as `paint` says)
    refines `paint`. -/
theorem refines_paint {rb rb' : RB} {a : AState} (R : Refines rb a)
    (haux : rb'.aux = rb.aux) (hmd : ∀ L C, (rb'.cell L C).maskdepth = (rb.cell L C).maskdepth)
    (covers : Int → Int → Bool) (what : Int → Int → Content → Content)
    (hcontent : ∀ L C, absContent rb' L C =
      if covers (L - rb.xlLine) (C - rb.xlCol) && (absClipRect rb.clip L C && !absMasked rb L C)
      then what (L - rb.xlLine) (C - rb.xlCol) (absContent rb L C) else absContent rb L C) :
    Refines rb' (paint a covers what) := by
  have e1 : rb'.lines = rb.lines := congrArg Aux.lines haux
  have e2 : rb'.cols = rb.cols := congrArg Aux.cols haux
  have e3 : rb'.depth = rb.depth := congrArg Aux.depth haux
  have e4 : rb'.stack = rb.stack := congrArg Aux.stack haux
  have e5 : rb'.clip = rb.clip := congrArg Aux.clip haux
  have e6 : rb'.vcSet = rb.vcSet := congrArg Aux.vcSet haux
  have e7 : rb'.vcLine = rb.vcLine := congrArg Aux.vcLine haux
  have e8 : rb'.vcCol = rb.vcCol := congrArg Aux.vcCol haux
  have e9 : rb'.xlLine = rb.xlLine := congrArg Aux.xlLine haux
  have e10 : rb'.xlCol = rb.xlCol := congrArg Aux.xlCol haux
  have e11 : rb'.pen = rb.pen := congrArg Aux.pen haux
  refine ⟨?_, ?_, ?_, ?_, ?_, ?_, ?_, ?_, ?_, ?_⟩
  · show a.lines = _; rw [e1]; exact R.lines
  · show a.cols = _; rw [e2]; exact R.cols
  · intro L C
    show (if covers (L - a.xlLine) (C - a.xlCol) && a.writable L C then _ else _) = _
    unfold AState.writable
    rw [hcontent, R.xlLine, R.xlCol, R.clip, R.masked, R.content]
  · intro L C
    show a.masked L C = _
    rw [absMasked_congr e1 e2 hmd]; exact R.masked L C
  · show a.vc = _
    unfold getCursor
    rw [e6, e7, e8]; exact R.vc
  · show a.xlLine = _; rw [e9]; exact R.xlLine
  · show a.xlCol = _; rw [e10]; exact R.xlCol
  · intro L C; show a.clip L C = _; rw [e5]; exact R.clip L C
  · show a.pen = _; rw [e11]; exact R.pen
  · show FramesRel rb' rb'.depth rb'.stack a.stack
    rw [e3, e4]
    exact FramesRel_congr (fun d L C => absMaskedAt_congr e1 e2 hmd d L C) _ _ _ R.stack

theorem inRun_iff (line col cols l c : Int) : inRun line col cols l c = true ↔ (l = line ∧ col ≤ c ∧ c < col + cols) := by
  unfold inRun; simp only [Bool.and_eq_true, decide_eq_true_eq]
  constructor
  · rintro ⟨⟨a, b⟩, c⟩; exact ⟨a, b, c⟩
  · rintro ⟨a, b, c⟩; exact ⟨⟨a, b⟩, c⟩

/-- `runOp_spec` in the vocabulary of `paint`. -/
theorem runOp_paint {fill : Cell → Int → Cell} {fc : Int → Content} (hf : FillSpec fill fc) {rb : RB} (wf : WF rb)
    {a : AState} (R : Refines rb a) (line col cols : Int) (sc : Clipped → Int) (g : Int → Content)
    (hg : ∀ r, xlateAndClip rb line col cols = some r → ∀ C, fc (sc r + (C - r.col)) = g (C - (col + rb.xlCol))) :
    WF (runOp fill sc rb line col cols) ∧
    Refines (runOp fill sc rb line col cols) (paint a (inRun line col cols) (fun _ c _ => g (c - col))) := by
  obtain ⟨w, haux, hmd, hc⟩ := runOp_spec hf wf line col cols sc g hg
  refine ⟨w, refines_paint R haux hmd _ _ ?_⟩
  intro L C
  rw [hc]
  by_cases p : L = line + rb.xlLine ∧ col + rb.xlCol ≤ C ∧ C < col + rb.xlCol + cols ∧
      absClipRect rb.clip L C = true ∧ absMasked rb L C = false
  · rw [if_pos p, if_pos]
    · congr 1; omega
    · simp only [Bool.and_eq_true, inRun_iff, Bool.not_eq_true']
      exact ⟨⟨by omega, by omega, by omega⟩, p.2.2.2.1, p.2.2.2.2⟩
  · rw [if_neg p, if_neg]
    intro x
    simp only [Bool.and_eq_true, inRun_iff, Bool.not_eq_true'] at x
    exact p ⟨by omega, by omega, by omega, x.2.1, x.2.2⟩

/-! ## The run operations -/

theorem eraseAt_refines {rb : RB} {a : AState} (wf : WF rb) (R : Refines rb a) (l c n : Int) :
    WF (RB.eraseAt rb l c n) ∧ Refines (RB.eraseAt rb l c n) (RBAbs.eraseAt a l c n) := by
  unfold RB.eraseAt RBAbs.eraseAt
  rw [eraseRun_eq, R.pen]
  exact runOp_paint (fillErase_spec rb.pen) wf R l c n _ (fun _ => .erase rb.pen) (fun _ _ _ => rfl)

theorem skipAt_refines {rb : RB} {a : AState} (wf : WF rb) (R : Refines rb a) (l c n : Int) :
    WF (RB.skipAt rb l c n) ∧ Refines (RB.skipAt rb l c n) (RBAbs.skipAt a l c n) := by
  unfold RB.skipAt RBAbs.skipAt
  rw [skipRun_eq]
  exact runOp_paint fillSkip_spec wf R l c n _ (fun _ => .skip) (fun _ _ _ => rfl)

theorem textAt_refines {rb : RB} {a : AState} (wf : WF rb) (R : Refines rb a) (l c : Int) (s : List UInt8) :
    WF (RB.textAt rb l c s) ∧ Refines (RB.textAt rb l c s) (RBAbs.textAt a l c s) := by
  unfold RB.textAt RBAbs.textAt putString
  cases Utf8.stringColumns s with
  | none => exact ⟨wf, R⟩
  | some n =>
    simp only
    rw [putStringCols_eq, R.pen]
    refine runOp_paint (fillText_spec rb.pen s) wf R l c n _ (fun x => .text rb.pen s x) ?_
    intro r hx C
    have := (xlateAndClip_some wf.clip hx).2.2.2.2.2.2.1
    show Content.text _ _ _ = Content.text _ _ _
    congr 1; omega

/-! ## The virtual cursor -/

/-- Changing only the cursor fields of a buffer changes only the cursor of what it implements. -/
theorem refines_setvc {rb : RB} {a : AState} (R : Refines rb a) (s : Bool) (l c : Int) :
    Refines { rb with vcSet := s, vcLine := l, vcCol := c } { a with vc := if s then some (l, c) else none } := by
  refine ⟨R.lines, R.cols, R.content, R.masked, ?_, R.xlLine, R.xlCol, R.clip, R.pen, ?_⟩
  · show (if s then some (l, c) else none) = getCursor _
    unfold getCursor
    cases s <;> rfl
  · refine FramesRel_congr (rb := rb) ?_ _ _ _ R.stack
    intro d L C; rfl

theorem refines_setcol {rb : RB} {a : AState} (R : Refines rb a) (hs : rb.vcSet = true) (l c : Int)
    (hl : rb.vcLine = l) : Refines { rb with vcCol := c } { a with vc := some (l, c) } := by
  refine ⟨R.lines, R.cols, R.content, R.masked, ?_, R.xlLine, R.xlCol, R.clip, R.pen, ?_⟩
  · show some (l, c) = getCursor _
    unfold getCursor
    simp only [hs, if_true, hl]
  · refine FramesRel_congr (rb := rb) ?_ _ _ _ R.stack
    intro d L C; rfl

theorem wf_setcol {rb : RB} (wf : WF rb) (c : Int) : WF { rb with vcCol := c } :=
  ⟨wf.size, wf.rows, wf.maskLB, wf.maskUB, wf.depth, wf.clip, wf.frames, wf.aborted, wf.fuelOut⟩

theorem wf_setvc {rb : RB} (wf : WF rb) (s : Bool) (l c : Int) : WF { rb with vcSet := s, vcLine := l, vcCol := c } :=
  ⟨wf.size, wf.rows, wf.maskLB, wf.maskUB, wf.depth, wf.clip, wf.frames, wf.aborted, wf.fuelOut⟩

theorem goto_refines {rb : RB} {a : AState} (wf : WF rb) (R : Refines rb a) (l c : Int) :
    WF (RB.goto rb l c) ∧ Refines (RB.goto rb l c) (RBAbs.goto a l c) :=
  ⟨wf_setvc wf true l c, refines_setvc R true l c⟩

theorem ungoto_refines {rb : RB} {a : AState} (wf : WF rb) (R : Refines rb a) :
    WF (RB.ungoto rb) ∧ Refines (RB.ungoto rb) (RBAbs.ungoto a) :=
  ⟨wf_setvc wf false rb.vcLine rb.vcCol, refines_setvc R false rb.vcLine rb.vcCol⟩

/-- A cursor-relative operation built from an absolute one that leaves the auxiliary state alone. -/
theorem atCursor_refines {rb : RB} {a : AState} (wf : WF rb) (R : Refines rb a)
    (opC : RB → Int → Int → RB) (opA : AState → Int → Int → AState) (adv : Int)
    (hop : ∀ l c, WF (opC rb l c) ∧ Refines (opC rb l c) (opA a l c))
    (haux : ∀ l c, (opC rb l c).aux = rb.aux) :
    WF (if !rb.vcSet then rb else { opC rb rb.vcLine rb.vcCol with vcCol := rb.vcCol + adv }) ∧
    Refines (if !rb.vcSet then rb else { opC rb rb.vcLine rb.vcCol with vcCol := rb.vcCol + adv }) (atCursor a opA adv) := by
  unfold atCursor
  have hv := R.vc
  unfold getCursor at hv
  cases hs : rb.vcSet with
  | false =>
    rw [hs] at hv; simp only [Bool.false_eq_true, if_false] at hv
    rw [hv]; simp only [Bool.not_false, if_true]
    exact ⟨wf, R⟩
  | true =>
    rw [hs] at hv; simp only [if_true] at hv
    rw [hv]; simp only [Bool.not_true, Bool.false_eq_true, if_false]
    obtain ⟨w1, r1⟩ := hop rb.vcLine rb.vcCol
    have e1 : (opC rb rb.vcLine rb.vcCol).vcSet = true := (congrArg Aux.vcSet (haux _ _)).trans hs
    have e2 : (opC rb rb.vcLine rb.vcCol).vcLine = rb.vcLine := congrArg Aux.vcLine (haux _ _)
    have w2 := wf_setcol w1 (rb.vcCol + adv)
    exact ⟨w2, refines_setcol r1 e1 rb.vcLine (rb.vcCol + adv) e2⟩

theorem erase_refines {rb : RB} {a : AState} (wf : WF rb) (R : Refines rb a) (n : Int) :
    WF (RB.erase rb n) ∧ Refines (RB.erase rb n) (RBAbs.erase a n) :=
  atCursor_refines wf R (fun r l c => eraseRun r l c n) (fun a l c => RBAbs.eraseAt a l c n) n
    (fun l c => eraseAt_refines wf R l c n) (fun l c => eraseRun_aux rb l c n)

theorem skip_refines {rb : RB} {a : AState} (wf : WF rb) (R : Refines rb a) (n : Int) :
    WF (RB.skip rb n) ∧ Refines (RB.skip rb n) (RBAbs.skip a n) :=
  atCursor_refines wf R (fun r l c => skipRun r l c n) (fun a l c => RBAbs.skipAt a l c n) n
    (fun l c => skipAt_refines wf R l c n) (fun l c => skipRun_aux rb l c n)

theorem text_refines {rb : RB} {a : AState} (wf : WF rb) (R : Refines rb a) (s : List UInt8) :
    WF (RB.text rb s) ∧ Refines (RB.text rb s) (RBAbs.text a s) :=
  atCursor_refines wf R (fun r l c => putString r l c s) (fun a l c => RBAbs.textAt a l c s) (putStringRet s)
    (fun l c => textAt_refines wf R l c s) (fun l c => putString_aux rb l c s)

end Tickit.RB
