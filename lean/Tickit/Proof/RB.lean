import Tickit.Model.RB
import Tickit.Model.RBAbs
import Tickit.Proof.Rect
/-
  Helper lemmas for C03 (render buffer).  Part 1: the auxiliary state is untouched by the drawing primitives.
-/
namespace Tickit.RB

/-- Everything of a render buffer except the cells and the two fault flags. -/
structure Aux where
  lines : Int
  cols : Int
  vcSet : Bool
  vcLine : Int
  vcCol : Int
  xlLine : Int
  xlCol : Int
  clip : Rect
  pen : Pen
  depth : Int
  stack : List Frame

def RB.aux (rb : RB) : Aux :=
  ⟨rb.lines, rb.cols, rb.vcSet, rb.vcLine, rb.vcCol, rb.xlLine, rb.xlCol, rb.clip, rb.pen, rb.depth, rb.stack⟩

@[simp] theorem setRow_aux (rb : RB) (l : Int) (row : Row) : (rb.setRow l row).aux = rb.aux := rfl
@[simp] theorem makeSpan_aux (rb : RB) (l c n : Int) : (makeSpan rb l c n).aux = rb.aux := rfl
@[simp] theorem updCell_aux (rb : RB) (l c : Int) (f : Cell → Cell) : (rb.updCell l c f).aux = rb.aux := rfl

theorem placeRuns_aux (fill : Cell → Int → Cell) (line : Int) (fuel : Nat) :
    ∀ (rb : RB) (col cols startcol : Int), (placeRuns fill line fuel rb col cols startcol).aux = rb.aux := by
  induction fuel with
  | zero => intro rb col cols startcol; unfold placeRuns; split <;> rfl
  | succ n ih =>
    intro rb col cols startcol
    unfold placeRuns
    simp only
    split
    · rfl
    · split
      · rfl
      · split
        · rfl
        · rw [ih]; rfl

@[simp] theorem putStringCols_aux (rb : RB) (l c : Int) (s : List UInt8) (n : Int) :
    (putStringCols rb l c s n).aux = rb.aux := by
  unfold putStringCols; split
  · rfl
  · exact placeRuns_aux _ _ _ _ _ _ _

@[simp] theorem putString_aux (rb : RB) (l c : Int) (s : List UInt8) : (putString rb l c s).aux = rb.aux := by
  unfold putString; split
  · rfl
  · exact putStringCols_aux _ _ _ _ _

@[simp] theorem skipRun_aux (rb : RB) (l c n : Int) : (skipRun rb l c n).aux = rb.aux := by
  unfold skipRun; split
  · rfl
  · exact placeRuns_aux _ _ _ _ _ _ _

@[simp] theorem eraseRun_aux (rb : RB) (l c n : Int) : (eraseRun rb l c n).aux = rb.aux := by
  unfold eraseRun; split
  · rfl
  · exact placeRuns_aux _ _ _ _ _ _ _

@[simp] theorem putChar_aux (rb : RB) (l c cp : Int) : (putChar rb l c cp).aux = rb.aux := by
  unfold putChar; split
  · rfl
  · split <;> rfl

@[simp] theorem linecell_aux (rb : RB) (l c : Int) (bits : Nat) : (linecell rb l c bits).aux = rb.aux := by
  unfold linecell; split
  · rfl
  · split
    · rfl
    · simp only [updCell_aux]
      split
      · rfl
      · split <;> rfl

theorem forLines_aux (f : RB → Int → RB) (hf : ∀ rb l, (f rb l).aux = rb.aux) (n : Nat) :
    ∀ (rb : RB) (from_ : Int), (forLines f rb from_ n).aux = rb.aux := by
  induction n with
  | zero => intro rb from_; rfl
  | succ n ih => intro rb from_; unfold forLines; rw [ih, hf]

theorem lineLoop_aux (cellAt : Int → Int × Int) (bits : Nat) (n : Nat) :
    ∀ (rb : RB) (from_ : Int), (lineLoop cellAt bits rb from_ n).aux = rb.aux := by
  induction n with
  | zero => intro rb from_; rfl
  | succ n ih => intro rb from_; unfold lineLoop; rw [ih, linecell_aux]

@[simp] theorem clear_aux (rb : RB) : (clear rb).aux = rb.aux := by
  unfold clear; exact forLines_aux _ (fun r l => eraseRun_aux r l 0 r.cols) _ _ _

@[simp] theorem eraserect_aux (rb : RB) (r : Rect) : (eraserect rb r).aux = rb.aux := by
  unfold eraserect; exact forLines_aux _ (fun r' l => eraseRun_aux r' l _ _) _ _ _

@[simp] theorem skiprect_aux (rb : RB) (r : Rect) : (skiprect rb r).aux = rb.aux := by
  unfold skiprect; exact forLines_aux _ (fun r' l => skipRun_aux r' l _ _) _ _ _

@[simp] theorem hlineAt_aux (rb : RB) (l c1 c2 : Int) (st caps : Nat) : (hlineAt rb l c1 c2 st caps).aux = rb.aux := by
  unfold hlineAt; simp only [linecell_aux, lineLoop_aux]

@[simp] theorem vlineAt_aux (rb : RB) (l1 l2 c : Int) (st caps : Nat) : (vlineAt rb l1 l2 c st caps).aux = rb.aux := by
  unfold vlineAt; simp only [linecell_aux, lineLoop_aux]


/-! ## Part 2: `make_span` on one line -/

@[simp] theorem rowSet_get (row : Row) (i : Int) (v : Cell) (k : Int) :
    (rowSet row i v).get k = if k = i then v else row.get k := rfl

@[simp] theorem contCell_state (c : Cell) (s : Int) : (contCell c s).state = .cont := rfl
@[simp] theorem contCell_cols (c : Cell) (s : Int) : (contCell c s).cols = s := rfl
@[simp] theorem contCell_maskdepth (c : Cell) (s : Int) : (contCell c s).maskdepth = -1 := rfl

/-- The cell `make_span` leaves at `col`: CONT-ed, carrying the span length (the caller sets the state). -/
def spanHead (c : Cell) (col cols : Int) : Cell := { contCell c col with cols := cols }

@[simp] theorem spanHead_state (c : Cell) (a b : Int) : (spanHead c a b).state = .cont := rfl
@[simp] theorem spanHead_cols (c : Cell) (a b : Int) : (spanHead c a b).cols = b := rfl
@[simp] theorem spanHead_maskdepth (c : Cell) (a b : Int) : (spanHead c a b).maskdepth = -1 := rfl

/-- skip, text or erase: the states of a run that may be longer than one column. -/
def CState.isSTE : CState → Bool
  | .skip | .text | .erase => true
  | _ => false

theorem makeSpanRow_get (n : Int) (row : Row) (col cols k : Int) (hc : 0 < cols) :
    (makeSpanRow n row col cols).get k =
      if k = col then spanHead ((shortenBefore (splitAfter n row (col + cols)) col).get col) col cols
      else if col ≤ k ∧ k < col + cols then contCell ((shortenBefore (splitAfter n row (col + cols)) col).get k) col
      else (shortenBefore (splitAfter n row (col + cols)) col).get k := by
  unfold makeSpanRow spanHead
  simp only [rowSet_get]
  split
  · rename_i h; subst h
    rw [if_pos (by omega)]
  · rfl

theorem shortenBefore_get (r : Row) (col k : Int) :
    (shortenBefore r col).get k =
      if (r.get col).state = .cont ∧ k = (r.get col).cols ∧ (r.get (r.get col).cols).state.isSTE = true
      then { r.get k with cols := col - k } else r.get k := by
  unfold shortenBefore
  by_cases hc : (r.get col).state = .cont
  · simp only [hc, true_and, if_true]
    by_cases hk : k = (r.get col).cols
    · subst hk
      cases hs : (r.get (r.get col).cols).state <;> simp [CState.isSTE, rowSet_get]
    · cases hs : (r.get (r.get col).cols).state <;> simp [CState.isSTE, rowSet_get, hk]
  · simp [hc]

/-- The new start cell that the first block of `make_span` writes at `e`. -/
def endCell (row : Row) (e : Int) : Cell :=
  let spanstart := (row.get e).cols
  let spancell := row.get spanstart
  let afterlen := spanstart + spancell.cols - e
  match spancell.state with
  | .skip => { row.get e with state := .skip, cols := afterlen }
  | .text => { row.get e with state := .text, cols := afterlen, pen := spancell.pen,
                              text := spancell.text, offs := spancell.offs + e - spanstart }
  | .erase => { row.get e with state := .erase, cols := afterlen, pen := spancell.pen }
  | _ => row.get e

theorem splitAfter_get (n : Int) (row : Row) (e k : Int) :
    (splitAfter n row e).get k =
      if e < n ∧ (row.get e).state = .cont then
        (if k = e then endCell row e
         else if e + 1 ≤ k ∧ k < (row.get e).cols + (row.get (row.get e).cols).cols then { row.get k with cols := e }
         else row.get k)
      else row.get k := by
  unfold splitAfter endCell
  split <;> rfl

theorem splitAfter_get_lt (n : Int) (row : Row) (e k : Int) (h : k < e) :
    (splitAfter n row e).get k = row.get k := by
  rw [splitAfter_get]
  split
  · rw [if_neg (by omega), if_neg (by omega)]
  · rfl

theorem endCell_maskdepth (row : Row) (e : Int) : (endCell row e).maskdepth = (row.get e).maskdepth := by
  unfold endCell; simp only; split <;> rfl

theorem endCell_state (row : Row) (e : Int) (h : (row.get (row.get e).cols).state.isSTE = true) :
    (endCell row e).state = (row.get (row.get e).cols).state := by
  unfold endCell; simp only
  cases hs : (row.get (row.get e).cols).state <;> simp_all [CState.isSTE]

theorem endCell_cols (row : Row) (e : Int) (h : (row.get (row.get e).cols).state.isSTE = true) :
    (endCell row e).cols = (row.get e).cols + (row.get (row.get e).cols).cols - e := by
  unfold endCell; simp only
  cases hs : (row.get (row.get e).cols).state <;> simp_all [CState.isSTE]

theorem splitAfter_maskdepth (n : Int) (row : Row) (e k : Int) :
    ((splitAfter n row e).get k).maskdepth = (row.get k).maskdepth := by
  rw [splitAfter_get]
  split
  · split
    · rename_i h; subst h; exact endCell_maskdepth _ _
    · split <;> rfl
  · rfl

theorem shortenBefore_maskdepth (row : Row) (col k : Int) :
    ((shortenBefore row col).get k).maskdepth = (row.get k).maskdepth := by
  rw [shortenBefore_get]; split <;> rfl

/-- `make_span` resets the mask depth of the cells of the span and leaves every other mask depth alone. -/
theorem makeSpanRow_maskdepth (n : Int) (row : Row) (col cols k : Int) (hc : 0 < cols) :
    ((makeSpanRow n row col cols).get k).maskdepth =
      if col ≤ k ∧ k < col + cols then -1 else (row.get k).maskdepth := by
  rw [makeSpanRow_get _ _ _ _ _ hc]
  split
  · rename_i h; subst h
    simp only [spanHead_maskdepth]
    rw [if_pos (by omega)]
  · split
    · simp
    · simp only [shortenBefore_maskdepth, splitAfter_maskdepth]


/-! ## Part 3: the run structure (`RowWF`) and `make_span` -/

/-- The run structure of one line of `n` cells. -/
structure RowWF (n : Int) (row : Row) : Prop where
  cont_lo : ∀ k, 0 ≤ k → k < n → (row.get k).state = .cont → 0 ≤ (row.get k).cols ∧ (row.get k).cols < k
  cont_start : ∀ k, 0 ≤ k → k < n → (row.get k).state = .cont → (row.get (row.get k).cols).state ≠ .cont
  cont_in : ∀ k, 0 ≤ k → k < n → (row.get k).state = .cont → k < (row.get k).cols + (row.get (row.get k).cols).cols
  start_len : ∀ k, 0 ≤ k → k < n → (row.get k).state ≠ .cont → 1 ≤ (row.get k).cols ∧ k + (row.get k).cols ≤ n
  start_run : ∀ k j, 0 ≤ k → k < n → (row.get k).state ≠ .cont → k < j → j < k + (row.get k).cols →
    (row.get j).state = .cont ∧ (row.get j).cols = k
  one : ∀ k, 0 ≤ k → k < n → ((row.get k).state = .line ∨ (row.get k).state = .char) → (row.get k).cols = 1

theorem isSTE_of (c : Cell) (h1 : c.state ≠ .cont) (h2 : (c.state = .line ∨ c.state = .char) → c.cols = 1) (h3 : 2 ≤ c.cols) :
    c.state.isSTE = true := by
  cases hs : c.state <;> simp_all [CState.isSTE] <;> omega

/-- The start of a CONT cell is skip, text or erase. -/
theorem RowWF.start_isSTE {n : Int} {row : Row} (h : RowWF n row) (k : Int) (h0 : 0 ≤ k) (hn : k < n)
    (hc : (row.get k).state = .cont) : (row.get (row.get k).cols).state.isSTE = true := by
  have a := h.cont_lo k h0 hn hc
  have b := h.cont_start k h0 hn hc
  have c := h.cont_in k h0 hn hc
  exact isSTE_of _ b (h.one _ a.1 (by omega)) (by omega)

section span
variable {n : Int} {row : Row} {col cols : Int} (v : Cell)
  (h : RowWF n row) (h0 : 0 ≤ col) (hc : 0 < cols) (he : col + cols ≤ n)

/-- `make_span` followed by the caller's assignments to the returned cell. -/
def spanRow (n : Int) (row : Row) (col cols : Int) (v : Cell) : Row := rowSet (makeSpanRow n row col cols) col v

include h h0 hc he in
theorem spanRow_lt (k : Int) (hk : k < col) :
    (spanRow n row col cols v).get k =
      if (row.get col).state = .cont ∧ k = (row.get col).cols then { row.get k with cols := col - k } else row.get k := by
  unfold spanRow
  rw [rowSet_get, if_neg (by omega), makeSpanRow_get _ _ _ _ _ hc, if_neg (by omega), if_neg (by omega), shortenBefore_get]
  rw [splitAfter_get_lt _ _ _ _ (by omega : col < col + cols), splitAfter_get_lt _ _ _ _ (by omega : k < col + cols)]
  by_cases hct : (row.get col).state = .cont
  · have a := h.cont_lo col h0 (by omega) hct
    rw [splitAfter_get_lt _ _ _ _ (by omega : (row.get col).cols < col + cols)]
    simp only [hct, true_and, h.start_isSTE col h0 (by omega) hct, and_true]
  · simp [hct]

theorem spanRow_col : (spanRow n row col cols v).get col = v := by
  unfold spanRow; simp

include hc in
theorem spanRow_mid (k : Int) (h1 : col < k) (h2 : k < col + cols) :
    ((spanRow n row col cols v).get k).state = .cont ∧ ((spanRow n row col cols v).get k).cols = col ∧
    ((spanRow n row col cols v).get k).maskdepth = -1 := by
  unfold spanRow
  rw [rowSet_get, if_neg (by omega), makeSpanRow_get _ _ _ _ _ hc, if_neg (by omega), if_pos (by omega)]
  simp

include h h0 hc he in
theorem spanRow_ge (k : Int) (hk : col + cols ≤ k) :
    (spanRow n row col cols v).get k = (splitAfter n row (col + cols)).get k := by
  unfold spanRow
  rw [rowSet_get, if_neg (by omega), makeSpanRow_get _ _ _ _ _ hc, if_neg (by omega), if_neg (by omega), shortenBefore_get]
  rw [splitAfter_get_lt _ _ _ _ (by omega : col < col + cols)]
  by_cases hct : (row.get col).state = .cont
  · have a := h.cont_lo col h0 (by omega) hct
    rw [if_neg (by omega)]
  · simp [hct]

include h h0 hc he in
theorem spanRow_state (k : Int) (hk0 : 0 ≤ k) (hkn : k < n) :
    ((spanRow n row col cols v).get k).state =
      if k = col then v.state
      else if col < k ∧ k < col + cols then .cont
      else if k = col + cols ∧ (row.get (col + cols)).state = .cont then (row.get (row.get (col + cols)).cols).state
      else (row.get k).state := by
  by_cases h1 : k < col
  · rw [if_neg (by omega), if_neg (by omega), if_neg (fun hh => by omega)]
    rw [spanRow_lt v h h0 hc he k h1]
    split <;> rfl
  · by_cases h2 : k = col
    · rw [if_pos h2, h2, spanRow_col]
    · by_cases h3 : k < col + cols
      · rw [if_neg h2, if_pos (by omega)]
        exact (spanRow_mid v hc k (by omega) h3).1
      · rw [if_neg h2, if_neg (by omega)]
        rw [spanRow_ge v h h0 hc he k (by omega), splitAfter_get]
        by_cases h4 : k = col + cols
        · subst h4
          by_cases h5 : (row.get (col + cols)).state = .cont
          · simp only [hkn, h5, and_self, if_true]
            exact endCell_state _ _ (h.start_isSTE _ (by omega) (by omega) h5)
          · simp only [h5, and_false, if_false]
        · simp only [h4, false_and, if_false]
          split
          · split <;> rfl
          · rfl

include h h0 hc he in
theorem spanRow_cols (k : Int) (hk0 : 0 ≤ k) (hkn : k < n) :
    ((spanRow n row col cols v).get k).cols =
      if k = col then v.cols
      else if col < k ∧ k < col + cols then col
      else if k < col then (if (row.get col).state = .cont ∧ k = (row.get col).cols then col - k else (row.get k).cols)
      else if col + cols < n ∧ (row.get (col + cols)).state = .cont then
        (if k = col + cols then (row.get (col + cols)).cols + (row.get (row.get (col + cols)).cols).cols - (col + cols)
         else if k < (row.get (col + cols)).cols + (row.get (row.get (col + cols)).cols).cols then col + cols
         else (row.get k).cols)
      else (row.get k).cols := by
  by_cases h1 : k < col
  · rw [if_neg (by omega), if_neg (by omega), if_pos h1]
    rw [spanRow_lt v h h0 hc he k h1]
    split <;> rfl
  · by_cases h2 : k = col
    · rw [if_pos h2, h2, spanRow_col]
    · by_cases h3 : k < col + cols
      · rw [if_neg h2, if_pos (by omega)]
        exact (spanRow_mid v hc k (by omega) h3).2.1
      · rw [if_neg h2, if_neg (by omega), if_neg h1]
        rw [spanRow_ge v h h0 hc he k (by omega), splitAfter_get]
        split
        · rename_i hsp
          split
          · rename_i h4
            exact endCell_cols _ _ (h.start_isSTE _ (by omega) hsp.1 hsp.2)
          · rename_i h4
            split
            · rename_i h5; rw [if_pos h5.2]
            · rename_i h5; rw [if_neg (fun hh => h5 ⟨by omega, hh⟩)]
        · rfl

include h h0 hc he in
theorem spanRow_at_lt (k : Int) (hk0 : 0 ≤ k) (hk : k < col) :
    ((spanRow n row col cols v).get k).state = (row.get k).state ∧
    ((spanRow n row col cols v).get k).cols =
      (if (row.get col).state = .cont ∧ k = (row.get col).cols then col - k else (row.get k).cols) := by
  rw [spanRow_state v h h0 hc he k hk0 (by omega), spanRow_cols v h h0 hc he k hk0 (by omega)]
  refine ⟨?_, ?_⟩
  · rw [if_neg (by omega), if_neg (by omega), if_neg (fun hh => by omega)]
  · rw [if_neg (by omega), if_neg (by omega), if_pos hk]

include h h0 hc he in
theorem spanRow_at_end (hen : col + cols < n) :
    ((spanRow n row col cols v).get (col + cols)).state =
      (if (row.get (col + cols)).state = .cont then (row.get (row.get (col + cols)).cols).state else (row.get (col + cols)).state) ∧
    ((spanRow n row col cols v).get (col + cols)).cols =
      (if (row.get (col + cols)).state = .cont then (row.get (col + cols)).cols + (row.get (row.get (col + cols)).cols).cols - (col + cols)
       else (row.get (col + cols)).cols) := by
  rw [spanRow_state v h h0 hc he _ (by omega) hen, spanRow_cols v h h0 hc he _ (by omega) hen]
  refine ⟨?_, ?_⟩
  · rw [if_neg (by omega), if_neg (by omega)]
    simp only [true_and]
  · rw [if_neg (by omega), if_neg (by omega), if_neg (by omega)]
    simp only [hen, true_and, if_true]

include h h0 hc he in
theorem spanRow_at_gt (k : Int) (hk : col + cols < k) (hkn : k < n) :
    ((spanRow n row col cols v).get k).state = (row.get k).state ∧
    ((spanRow n row col cols v).get k).cols =
      (if (row.get (col + cols)).state = .cont ∧ k < (row.get (col + cols)).cols + (row.get (row.get (col + cols)).cols).cols
       then col + cols else (row.get k).cols) := by
  rw [spanRow_state v h h0 hc he k (by omega) hkn, spanRow_cols v h h0 hc he k (by omega) hkn]
  refine ⟨?_, ?_⟩
  · rw [if_neg (by omega), if_neg (by omega), if_neg (fun hh => by omega)]
  · rw [if_neg (by omega), if_neg (by omega), if_neg (by omega)]
    have : col + cols < n := by omega
    simp only [this, true_and]
    rw [if_neg (by omega : ¬ k = col + cols)]
    by_cases h5 : (row.get (col + cols)).state = .cont
    · simp only [h5, if_true, true_and]
    · simp only [h5, if_false, false_and]

end span

/-! Arithmetic indicators, so that `omega` can reason about states. -/
def cI (c : Cell) : Int := if c.state = .cont then 1 else 0
def lI (c : Cell) : Int := if c.state = .line ∨ c.state = .char then 1 else 0

theorem cI_one {c : Cell} : cI c = 1 ↔ c.state = .cont := by unfold cI; split <;> simp_all
theorem cI_zero {c : Cell} : cI c = 0 ↔ c.state ≠ .cont := by unfold cI; split <;> simp_all
theorem lI_one {c : Cell} : lI c = 1 ↔ (c.state = .line ∨ c.state = .char) := by unfold lI; split <;> simp_all
theorem cI_lI (c : Cell) : 0 ≤ cI c ∧ cI c ≤ 1 ∧ 0 ≤ lI c ∧ lI c ≤ 1 ∧ cI c + lI c ≤ 1 := by
  unfold cI lI; cases c.state <;> simp
theorem isSTE_iff (c : Cell) : c.state.isSTE = true ↔ (cI c = 0 ∧ lI c = 0) := by
  unfold cI lI CState.isSTE; cases c.state <;> simp

/-- All the facts `RowWF` gives about index `k`, in arithmetic form (guards included, for `omega`). -/
theorem RowWF.facts {n : Int} {row : Row} (h : RowWF n row) (k : Int) :
    0 ≤ k → k < n →
      (cI (row.get k) = 1 → 0 ≤ (row.get k).cols ∧ (row.get k).cols < k ∧ cI (row.get (row.get k).cols) = 0 ∧
          k < (row.get k).cols + (row.get (row.get k).cols).cols) ∧
      (cI (row.get k) = 0 → 1 ≤ (row.get k).cols ∧ k + (row.get k).cols ≤ n) ∧
      (lI (row.get k) = 1 → (row.get k).cols = 1) := by
  intro hk0 hkn
  refine ⟨fun hc => ?_, fun hc => ?_, fun hl => ?_⟩
  · have hc' := cI_one.1 hc
    exact ⟨(h.cont_lo k hk0 hkn hc').1, (h.cont_lo k hk0 hkn hc').2, cI_zero.2 (h.cont_start k hk0 hkn hc'), h.cont_in k hk0 hkn hc'⟩
  · exact h.start_len k hk0 hkn (cI_zero.1 hc)
  · exact h.one k hk0 hkn (lI_one.1 hl)

theorem RowWF.runfact {n : Int} {row : Row} (h : RowWF n row) (k j : Int) :
    0 ≤ k → k < n → cI (row.get k) = 0 → k < j → j < k + (row.get k).cols →
      cI (row.get j) = 1 ∧ (row.get j).cols = k := by
  intro hk0 hkn hc h1 h2
  have := h.start_run k j hk0 hkn (cI_zero.1 hc) h1 h2
  exact ⟨cI_one.2 this.1, this.2⟩

theorem RowWF.of_arith {n : Int} {R : Row}
    (H1 : ∀ k, 0 ≤ k → k < n → cI (R.get k) = 1 → 0 ≤ (R.get k).cols ∧ (R.get k).cols < k ∧
        cI (R.get (R.get k).cols) = 0 ∧ k < (R.get k).cols + (R.get (R.get k).cols).cols)
    (H2 : ∀ k, 0 ≤ k → k < n → cI (R.get k) = 0 → 1 ≤ (R.get k).cols ∧ k + (R.get k).cols ≤ n)
    (H3 : ∀ k j, 0 ≤ k → k < n → cI (R.get k) = 0 → k < j → j < k + (R.get k).cols →
        cI (R.get j) = 1 ∧ (R.get j).cols = k)
    (H4 : ∀ k, 0 ≤ k → k < n → lI (R.get k) = 1 → (R.get k).cols = 1) : RowWF n R where
  cont_lo k a b c := ⟨(H1 k a b (cI_one.2 c)).1, (H1 k a b (cI_one.2 c)).2.1⟩
  cont_start k a b c := cI_zero.1 (H1 k a b (cI_one.2 c)).2.2.1
  cont_in k a b c := (H1 k a b (cI_one.2 c)).2.2.2
  start_len k a b c := H2 k a b (cI_zero.2 c)
  start_run k j a b c d e := ⟨cI_one.1 (H3 k j a b (cI_zero.2 c) d e).1, (H3 k j a b (cI_zero.2 c) d e).2⟩
  one k a b c := H4 k a b (lI_one.2 c)

section span2
variable {n : Int} {row : Row} {col cols : Int} (v : Cell)
  (h : RowWF n row) (h0 : 0 ≤ col) (hc : 0 < cols) (he : col + cols ≤ n)

include h h0 hc he in
/-- Indicator form of `spanRow_state`/`spanRow_cols` (guards inside, for `omega`). -/
theorem spanRow_facts (k : Int) :
    0 ≤ k → k < n →
      cI ((spanRow n row col cols v).get k) =
        (if k = col then cI v else if col < k ∧ k < col + cols then 1 else if k = col + cols then 0 else cI (row.get k)) ∧
      lI ((spanRow n row col cols v).get k) =
        (if k = col then lI v else if col < k ∧ k < col + cols then 0
         else if k = col + cols then (if cI (row.get (col + cols)) = 1 then 0 else lI (row.get k)) else lI (row.get k)) ∧
      ((spanRow n row col cols v).get k).cols =
        (if k = col then v.cols
         else if col < k ∧ k < col + cols then col
         else if k < col then (if cI (row.get col) = 1 ∧ k = (row.get col).cols then col - k else (row.get k).cols)
         else if col + cols < n ∧ cI (row.get (col + cols)) = 1 then
           (if k = col + cols then (row.get (col + cols)).cols + (row.get (row.get (col + cols)).cols).cols - (col + cols)
            else if k < (row.get (col + cols)).cols + (row.get (row.get (col + cols)).cols).cols then col + cols
            else (row.get k).cols)
         else (row.get k).cols) := by
  intro hk0 hkn
  have hs := spanRow_state v h h0 hc he k hk0 hkn
  have hcl := spanRow_cols v h h0 hc he k hk0 hkn
  refine ⟨?_, ?_, ?_⟩
  · unfold cI; rw [hs]
    by_cases h1 : k = col
    · simp [h1]
    · by_cases h2 : col < k ∧ k < col + cols
      · simp [h1, h2]
      · by_cases h3 : k = col + cols
        · subst h3
          by_cases h4 : (row.get (col + cols)).state = .cont
          · have := h.cont_start _ hk0 hkn h4
            simp [h1, h2, h4, this]
          · simp [h1, h2, h4]
        · simp [h1, h2, h3]
  · unfold lI cI; rw [hs]
    by_cases h1 : k = col
    · simp [h1]
    · by_cases h2 : col < k ∧ k < col + cols
      · simp [h1, h2]
      · by_cases h3 : k = col + cols
        · subst h3
          by_cases h4 : (row.get (col + cols)).state = .cont
          · have := (isSTE_iff _).1 (h.start_isSTE _ hk0 hkn h4)
            have l1 := lI_one (c := row.get (row.get (col + cols)).cols)
            have : ¬ ((row.get (row.get (col + cols)).cols).state = .line ∨ (row.get (row.get (col + cols)).cols).state = .char) := by
              intro hh; have := l1.2 hh; omega
            simp [h1, h2, h4, this]
          · simp [h1, h2, h4]
        · simp [h1, h2, h3]
  · rw [hcl]; simp only [cI_one]

include h h0 hc he in
theorem spanRow_F_lt (k : Int) (hk0 : 0 ≤ k) (hk : k < col) :
    cI ((spanRow n row col cols v).get k) = cI (row.get k) ∧ lI ((spanRow n row col cols v).get k) = lI (row.get k) ∧
    ((cI (row.get col) = 1 ∧ k = (row.get col).cols) → ((spanRow n row col cols v).get k).cols = col - k) ∧
    (¬ (cI (row.get col) = 1 ∧ k = (row.get col).cols) → ((spanRow n row col cols v).get k).cols = (row.get k).cols) := by
  obtain ⟨a, b, c⟩ := spanRow_facts v h h0 hc he k hk0 (by omega)
  rw [if_neg (by omega), if_neg (by omega)] at a b c
  rw [if_neg (by omega)] at a b
  rw [if_pos hk] at c
  refine ⟨a, b, fun hh => ?_, fun hh => ?_⟩
  · rw [c, if_pos hh]
  · rw [c, if_neg hh]

include h h0 hc he in
theorem spanRow_F_mid (k : Int) (hk1 : col < k) (hk2 : k < col + cols) :
    cI ((spanRow n row col cols v).get k) = 1 ∧ lI ((spanRow n row col cols v).get k) = 0 ∧
    ((spanRow n row col cols v).get k).cols = col := by
  obtain ⟨a, b, c⟩ := spanRow_facts v h h0 hc he k (by omega) (by omega)
  rw [if_neg (by omega), if_pos (by omega)] at a b c
  exact ⟨a, b, c⟩

include h h0 hc he in
theorem spanRow_F_end (hen : col + cols < n) :
    cI ((spanRow n row col cols v).get (col + cols)) = 0 ∧
    (cI (row.get (col + cols)) = 1 → lI ((spanRow n row col cols v).get (col + cols)) = 0 ∧
      ((spanRow n row col cols v).get (col + cols)).cols =
        (row.get (col + cols)).cols + (row.get (row.get (col + cols)).cols).cols - (col + cols)) ∧
    (cI (row.get (col + cols)) = 0 → lI ((spanRow n row col cols v).get (col + cols)) = lI (row.get (col + cols)) ∧
      ((spanRow n row col cols v).get (col + cols)).cols = (row.get (col + cols)).cols) := by
  obtain ⟨a, b, c⟩ := spanRow_facts v h h0 hc he (col + cols) (by omega) hen
  rw [if_neg (by omega), if_neg (by omega)] at a b c
  rw [if_pos rfl] at a b
  rw [if_neg (by omega)] at c
  have i := cI_lI (row.get (col + cols))
  refine ⟨a, fun hh => ?_, fun hh => ?_⟩
  · rw [if_pos hh] at b; rw [if_pos ⟨hen, hh⟩, if_pos rfl] at c; exact ⟨b, c⟩
  · rw [if_neg (by omega)] at b; rw [if_neg (fun x => by omega)] at c; exact ⟨b, c⟩

include h h0 hc he in
theorem spanRow_F_gt (k : Int) (hk : col + cols < k) (hkn : k < n) :
    cI ((spanRow n row col cols v).get k) = cI (row.get k) ∧ lI ((spanRow n row col cols v).get k) = lI (row.get k) ∧
    ((cI (row.get (col + cols)) = 1 ∧ k < (row.get (col + cols)).cols + (row.get (row.get (col + cols)).cols).cols) →
        ((spanRow n row col cols v).get k).cols = col + cols) ∧
    (¬ (cI (row.get (col + cols)) = 1 ∧ k < (row.get (col + cols)).cols + (row.get (row.get (col + cols)).cols).cols) →
        ((spanRow n row col cols v).get k).cols = (row.get k).cols) := by
  obtain ⟨a, b, c⟩ := spanRow_facts v h h0 hc he k (by omega) hkn
  rw [if_neg (by omega), if_neg (by omega)] at a b c
  rw [if_neg (by omega)] at a b c
  refine ⟨a, b, fun hh => ?_, fun hh => ?_⟩
  · rw [c, if_pos ⟨by omega, hh.1⟩, if_neg (by omega), if_pos hh.2]
  · rw [c]
    by_cases x : cI (row.get (col + cols)) = 1
    · rw [if_pos ⟨by omega, x⟩, if_neg (by omega), if_neg (fun y => hh ⟨x, y⟩)]
    · rw [if_neg (fun y => x y.2)]

include h h0 hc he in
/-- **`make_span` preserves the run structure** (once the caller has put a non-CONT state into the returned cell). -/
theorem spanRow_wf (hv1 : v.state ≠ .cont) (hv2 : v.cols = cols)
    (hv3 : (v.state = .line ∨ v.state = .char) → cols = 1) : RowWF n (spanRow n row col cols v) := by
  have hv1' : cI v = 0 := cI_zero.2 hv1
  have hv3' : lI v = 1 → cols = 1 := fun hh => hv3 (lI_one.1 hh)
  have Flt := spanRow_F_lt v h h0 hc he
  have Fmid := spanRow_F_mid v h h0 hc he
  have Fend := spanRow_F_end v h h0 hc he
  have Fgt := spanRow_F_gt v h h0 hc he
  have Fcol : (spanRow n row col cols v).get col = v := spanRow_col v
  have W := h.facts
  have Wr := h.runfact
  apply RowWF.of_arith
  · -- CONT cells: the start lies to the left, is a start, and reaches the cell
    intro k hk0 hkn hk
    have Wk := W k hk0 hkn
    have ik := cI_lI (row.get k)
    by_cases r1 : k < col
    · obtain ⟨f1, _, f3, f4⟩ := Flt k hk0 r1
      rw [f1] at hk
      by_cases hcond : cI (row.get col) = 1 ∧ k = (row.get col).cols
      · have := ((W col h0 (by omega)).1 hcond.1).2.2.1
        rw [← hcond.2] at this; omega
      · rw [f4 hcond]
        have Ft := Flt (row.get k).cols
        omega
    · by_cases r2 : k = col
      · rw [r2, Fcol] at hk; omega
      · by_cases r3 : k < col + cols
        · obtain ⟨_, _, f3⟩ := Fmid k (by omega) r3
          rw [f3, Fcol]; omega
        · by_cases r4 : k = col + cols
          · rw [r4] at hk hkn; have := (Fend hkn).1; omega
          · obtain ⟨f1, _, f3, f4⟩ := Fgt k (by omega) hkn
            rw [f1] at hk
            by_cases sp : cI (row.get (col + cols)) = 1 ∧ k < (row.get (col + cols)).cols + (row.get (row.get (col + cols)).cols).cols
            · rw [f3 sp]
              have Fe := Fend (by omega)
              omega
            · rw [f4 sp]
              have ⟨t0, t1, t2, t3⟩ := Wk.1 hk
              by_cases q1 : (row.get k).cols < col + cols
              · -- the run of `k` would contain the end of the span
                exfalso
                have rf := Wr (row.get k).cols (col + cols) t0 (by omega) t2 q1 (by omega)
                apply sp
                rw [rf.2]; exact ⟨rf.1, t3⟩
              · by_cases q2 : (row.get k).cols = col + cols
                · rw [q2] at t2 ⊢
                  have Fe := Fend (by omega)
                  rw [q2] at t3
                  omega
                · obtain ⟨g1, _, g3, g4⟩ := Fgt (row.get k).cols (by omega) (by omega)
                  rw [g1]
                  by_cases sp2 : cI (row.get (col + cols)) = 1 ∧ (row.get k).cols < (row.get (col + cols)).cols + (row.get (row.get (col + cols)).cols).cols
                  · exfalso
                    have We := (W (col + cols) (by omega) (by omega)).1 sp2.1
                    have rf := Wr (row.get (col + cols)).cols (row.get k).cols We.1 (by omega) We.2.2.1 (by omega) sp2.2
                    omega
                  · rw [g4 sp2]; omega
  · -- starts: positive length inside the line
    intro k hk0 hkn hk
    have Wk := W k hk0 hkn
    have ik := cI_lI (row.get k)
    by_cases r1 : k < col
    · obtain ⟨f1, _, f3, f4⟩ := Flt k hk0 r1
      rw [f1] at hk
      by_cases hcond : cI (row.get col) = 1 ∧ k = (row.get col).cols
      · rw [f3 hcond]; omega
      · rw [f4 hcond]; omega
    · by_cases r2 : k = col
      · rw [r2, Fcol]; omega
      · by_cases r3 : k < col + cols
        · obtain ⟨f1, _, _⟩ := Fmid k (by omega) r3
          omega
        · by_cases r4 : k = col + cols
          · rw [r4] at hkn ⊢
            obtain ⟨_, f2, f3⟩ := Fend hkn
            have ie := cI_lI (row.get (col + cols))
            have We := W (col + cols) (by omega) hkn
            by_cases sp : cI (row.get (col + cols)) = 1
            · rw [(f2 sp).2]
              have Ws := W (row.get (col + cols)).cols
              omega
            · rw [(f3 (by omega)).2]; omega
          · obtain ⟨f1, _, f3, f4⟩ := Fgt k (by omega) hkn
            rw [f1] at hk
            by_cases sp : cI (row.get (col + cols)) = 1 ∧ k < (row.get (col + cols)).cols + (row.get (row.get (col + cols)).cols).cols
            · exfalso
              have We := (W (col + cols) (by omega) (by omega)).1 sp.1
              have rf := Wr (row.get (col + cols)).cols k We.1 (by omega) We.2.2.1 (by omega) sp.2
              omega
            · rw [f4 sp]; omega
  · -- runs: the cells after a start are CONT cells pointing at it
    intro k j hk0 hkn hk hj1 hj2
    have Wk := W k hk0 hkn
    have ik := cI_lI (row.get k)
    by_cases r1 : k < col
    · obtain ⟨f1, _, f3, f4⟩ := Flt k hk0 r1
      rw [f1] at hk
      have Wc := W col h0 (by omega)
      by_cases hcond : cI (row.get col) = 1 ∧ k = (row.get col).cols
      · rw [f3 hcond] at hj2
        have Wc1 := Wc.1 hcond.1
        rw [← hcond.2] at Wc1
        obtain ⟨g1, _, g3, g4⟩ := Flt j (by omega) (by omega)
        have rf := Wr k j hk0 hkn hk hj1 (by omega)
        rw [g1, g4 (by omega)]; exact rf
      · rw [f4 hcond] at hj2
        have hle : k + (row.get k).cols ≤ col := by
          apply Classical.byContradiction; intro hh
          have rf := Wr k col hk0 hkn hk r1 (by omega)
          exact hcond ⟨rf.1, rf.2.symm⟩
        have rf := Wr k j hk0 hkn hk hj1 hj2
        obtain ⟨g1, _, g3, g4⟩ := Flt j (by omega) (by omega)
        rw [g1]
        by_cases hj : cI (row.get col) = 1 ∧ j = (row.get col).cols
        · exfalso
          have := (Wc.1 hj.1).2.2.1
          rw [← hj.2] at this; omega
        · rw [g4 hj]; exact rf
    · by_cases r2 : k = col
      · rw [r2, Fcol] at hj2
        rw [r2] at hj1 ⊢
        obtain ⟨g1, _, g3⟩ := Fmid j hj1 (by omega)
        exact ⟨g1, g3⟩
      · by_cases r3 : k < col + cols
        · obtain ⟨f1, _, _⟩ := Fmid k (by omega) r3
          omega
        · by_cases r4 : k = col + cols
          · rw [r4] at hkn hj1 hj2 ⊢
            obtain ⟨_, f2, f3⟩ := Fend hkn
            have ie := cI_lI (row.get (col + cols))
            have We := W (col + cols) (by omega) hkn
            by_cases sp : cI (row.get (col + cols)) = 1
            · rw [(f2 sp).2] at hj2
              have We1 := We.1 sp
              have Ws := W (row.get (col + cols)).cols We1.1 (by omega)
              obtain ⟨g1, _, g3, g4⟩ := Fgt j hj1 (by omega)
              have rf := Wr (row.get (col + cols)).cols j We1.1 (by omega) We1.2.2.1 (by omega) (by omega)
              rw [g1, g3 ⟨sp, by omega⟩]; exact ⟨rf.1, rfl⟩
            · have sp0 : cI (row.get (col + cols)) = 0 := by omega
              rw [(f3 sp0).2] at hj2
              have We0 := We.2.1 sp0
              obtain ⟨g1, _, g3, g4⟩ := Fgt j hj1 (by omega)
              have rf := Wr (col + cols) j (by omega) hkn sp0 hj1 hj2
              rw [g1, g4 (fun x => sp x.1)]; exact rf
          · obtain ⟨f1, _, f3, f4⟩ := Fgt k (by omega) hkn
            rw [f1] at hk
            by_cases sp : cI (row.get (col + cols)) = 1 ∧ k < (row.get (col + cols)).cols + (row.get (row.get (col + cols)).cols).cols
            · exfalso
              have We := (W (col + cols) (by omega) (by omega)).1 sp.1
              have rf := Wr (row.get (col + cols)).cols k We.1 (by omega) We.2.2.1 (by omega) sp.2
              omega
            · rw [f4 sp] at hj2
              have Wk0 := Wk.2.1 hk
              have rf := Wr k j hk0 hkn hk hj1 hj2
              obtain ⟨g1, _, g3, g4⟩ := Fgt j (by omega) (by omega)
              rw [g1]
              by_cases sp2 : cI (row.get (col + cols)) = 1 ∧ j < (row.get (col + cols)).cols + (row.get (row.get (col + cols)).cols).cols
              · exfalso
                have We := (W (col + cols) (by omega) (by omega)).1 sp2.1
                have rf2 := Wr (row.get (col + cols)).cols j We.1 (by omega) We.2.2.1 (by omega) sp2.2
                omega
              · rw [g4 sp2]; exact rf
  · -- LINE and CHAR cells are one column wide
    intro k hk0 hkn hk
    have Wk := W k hk0 hkn
    have ik := cI_lI (row.get k)
    by_cases r1 : k < col
    · obtain ⟨_, f2, f3, f4⟩ := Flt k hk0 r1
      rw [f2] at hk
      by_cases hcond : cI (row.get col) = 1 ∧ k = (row.get col).cols
      · exfalso
        have Wc1 := (W col h0 (by omega)).1 hcond.1
        rw [← hcond.2] at Wc1
        omega
      · rw [f4 hcond]; omega
    · by_cases r2 : k = col
      · rw [r2, Fcol] at hk ⊢; omega
      · by_cases r3 : k < col + cols
        · obtain ⟨_, f2, _⟩ := Fmid k (by omega) r3
          omega
        · by_cases r4 : k = col + cols
          · rw [r4] at hkn hk ⊢
            obtain ⟨_, f2, f3⟩ := Fend hkn
            have ie := cI_lI (row.get (col + cols))
            have We := W (col + cols) (by omega) hkn
            by_cases sp : cI (row.get (col + cols)) = 1
            · have := (f2 sp).1; omega
            · have sp0 : cI (row.get (col + cols)) = 0 := by omega
              rw [(f3 sp0).1] at hk
              rw [(f3 sp0).2]; omega
          · obtain ⟨_, f2, f3, f4⟩ := Fgt k (by omega) hkn
            rw [f2] at hk
            by_cases sp : cI (row.get (col + cols)) = 1 ∧ k < (row.get (col + cols)).cols + (row.get (row.get (col + cols)).cols).cols
            · exfalso
              have We := (W (col + cols) (by omega) (by omega)).1 sp.1
              have rf := Wr (row.get (col + cols)).cols k We.1 (by omega) We.2.2.1 (by omega) sp.2
              omega
            · rw [f4 sp]; omega

end span2

/-! ## Part 4: content of a line and the frame property of `make_span` -/

open Tickit.RBAbs

/-- What a start cell shows at offset `off` of its run. -/
def cellContent (start : Cell) (off : Int) : Content :=
  match start.state with
  | .skip => .skip
  | .text => .text start.pen start.text (start.offs + off)
  | .erase => .erase start.pen
  | .line => .line start.pen start.lmask
  | .char => .char start.pen start.cp
  | .cont => .skip

/-- The content of column `C` of a line: look up the start of the run. -/
def rowContent (row : Row) (C : Int) : Content :=
  if (row.get C).state = .cont then cellContent (row.get (row.get C).cols) (C - (row.get C).cols)
  else cellContent (row.get C) 0

theorem absContent_eq (rb : RB) (L C : Int) :
    absContent rb L C = if inBuf rb.lines rb.cols L C then rowContent (rb.cells L) C else .skip := by
  unfold absContent rowContent cellContent RB.cell
  by_cases hb : inBuf rb.lines rb.cols L C = true
  · simp only [hb, if_true]
    by_cases hc : ((rb.cells L).get C).state = .cont
    · simp only [hc, if_true]
      cases ((rb.cells L).get ((rb.cells L).get C).cols).state <;> rfl
    · simp only [hc, if_false]
      cases ((rb.cells L).get C).state <;> rfl
  · simp only [hb]; rfl

@[simp] theorem cellContent_setCols (c : Cell) (x off : Int) : cellContent { c with cols := x } off = cellContent c off := rfl

theorem cellContent_endCell (row : Row) (e off : Int) (hs : (row.get (row.get e).cols).state.isSTE = true) :
    cellContent (endCell row e) off = cellContent (row.get (row.get e).cols) (e - (row.get e).cols + off) := by
  unfold endCell cellContent
  simp only
  cases h : (row.get (row.get e).cols).state <;> simp_all [CState.isSTE]
  omega


section span3
variable {n : Int} {row : Row} {col cols : Int} (v : Cell)
  (h : RowWF n row) (h0 : 0 ≤ col) (hc : 0 < cols) (he : col + cols ≤ n)

include h h0 hc he in
/-- **`make_span` changes the content of exactly the cells of the span.** -/
theorem spanRow_content (hv1 : v.state ≠ .cont) (k : Int) (hk0 : 0 ≤ k) (hkn : k < n) :
    rowContent (spanRow n row col cols v) k =
      if col ≤ k ∧ k < col + cols then cellContent v (k - col) else rowContent row k := by
  have W := h.facts
  have Wr := h.runfact
  have Fcol : (spanRow n row col cols v).get col = v := spanRow_col v
  by_cases r2 : k = col
  · rw [if_pos (by omega), r2]
    unfold rowContent
    rw [Fcol, if_neg hv1]; simp
  · by_cases r1 : k < col
    · rw [if_neg (by omega)]
      have e := spanRow_lt v h h0 hc he k r1
      have st : ((spanRow n row col cols v).get k).state = (row.get k).state := by rw [e]; split <;> rfl
      unfold rowContent
      rw [st]
      by_cases hkc : (row.get k).state = .cont
      · rw [if_pos hkc, if_pos hkc]
        have Wk := (W k hk0 hkn).1 (cI_one.2 hkc)
        have hne : ¬ ((row.get col).state = .cont ∧ k = (row.get col).cols) := by
          intro hh
          have := (W col h0 (by omega)).1 (cI_one.2 hh.1)
          have x := this.2.2.1
          rw [← hh.2] at x
          have := cI_one.2 hkc; omega
        rw [e, if_neg hne]
        rw [spanRow_lt v h h0 hc he (row.get k).cols (by omega)]
        split <;> rfl
      · rw [if_neg hkc, if_neg hkc, e]
        split <;> rfl
    · by_cases r3 : k < col + cols
      · rw [if_pos (by omega)]
        obtain ⟨m1, m2, _⟩ := spanRow_mid v hc k (by omega) r3
        unfold rowContent
        rw [if_pos m1, m2, Fcol]
      · rw [if_neg (by omega)]
        have e := spanRow_ge v h h0 hc he k (by omega)
        rw [splitAfter_get] at e
        by_cases r4 : k = col + cols
        · rw [r4] at hkn e ⊢
          by_cases sp : (row.get (col + cols)).state = .cont
          · rw [if_pos ⟨hkn, sp⟩, if_pos rfl] at e
            have ste := h.start_isSTE _ (by omega) hkn sp
            unfold rowContent
            rw [e, if_pos sp, if_neg (by rw [endCell_state _ _ ste]; exact h.cont_start _ (by omega) hkn sp),
                cellContent_endCell _ _ _ ste]
            simp
          · rw [if_neg (fun x => sp x.2)] at e
            unfold rowContent
            rw [e, if_neg sp, if_neg sp]
        · -- to the right of the end of the span
          have hk : col + cols < k := by omega
          have hen : col + cols < n := by omega
          by_cases sp : (row.get (col + cols)).state = .cont ∧ k < (row.get (col + cols)).cols + (row.get (row.get (col + cols)).cols).cols
          · rw [if_pos ⟨hen, sp.1⟩, if_neg r4, if_pos ⟨by omega, sp.2⟩] at e
            have We := (W _ (by omega) hen).1 (cI_one.2 sp.1)
            have rf := Wr _ k We.1 (by omega) We.2.2.1 (by omega) sp.2
            have ste := h.start_isSTE _ (by omega) hen sp.1
            have eE := spanRow_ge v h h0 hc he (col + cols) (by omega)
            rw [splitAfter_get, if_pos ⟨hen, sp.1⟩, if_pos rfl] at eE
            unfold rowContent
            rw [e, if_pos (cI_one.1 rf.1), if_pos (cI_one.1 rf.1)]
            simp only
            rw [eE, cellContent_endCell _ _ _ ste, rf.2]
            congr 1; omega
          · have e' : (spanRow n row col cols v).get k = row.get k := by
              rw [e]
              by_cases x : col + cols < n ∧ (row.get (col + cols)).state = .cont
              · rw [if_pos x, if_neg r4, if_neg (fun y => sp ⟨x.2, y.2⟩)]
              · rw [if_neg x]
            unfold rowContent
            rw [e']
            by_cases hkc : (row.get k).state = .cont
            · rw [if_pos hkc, if_pos hkc]
              have Wk := (W k hk0 hkn).1 (cI_one.2 hkc)
              -- where is the start `t` of `k`?
              by_cases q1 : (row.get k).cols < col + cols
              · exfalso
                have rf := Wr (row.get k).cols (col + cols) Wk.1 (by omega) Wk.2.2.1 q1 (by omega)
                apply sp
                refine ⟨cI_one.1 rf.1, ?_⟩
                rw [rf.2]; exact Wk.2.2.2
              · have eT := spanRow_ge v h h0 hc he (row.get k).cols (by omega)
                rw [splitAfter_get] at eT
                have eT' : (spanRow n row col cols v).get (row.get k).cols = row.get (row.get k).cols := by
                  rw [eT]
                  by_cases x : col + cols < n ∧ (row.get (col + cols)).state = .cont
                  · rw [if_pos x]
                    by_cases q2 : (row.get k).cols = col + cols
                    · exfalso
                      have := Wk.2.2.1; rw [q2] at this
                      have := cI_one.2 x.2; omega
                    · rw [if_neg q2]
                      by_cases y : col + cols + 1 ≤ (row.get k).cols ∧ (row.get k).cols < (row.get (col + cols)).cols + (row.get (row.get (col + cols)).cols).cols
                      · exfalso
                        have We := (W _ (by omega) hen).1 (cI_one.2 x.2)
                        have rf := Wr _ (row.get k).cols We.1 (by omega) We.2.2.1 (by omega) y.2
                        omega
                      · rw [if_neg y]
                  · rw [if_neg x]
                rw [eT']
            · rw [if_neg hkc, if_neg hkc]

end span3

end Tickit.RB
