import Tickit.Model.SgrBuf
import Tickit.Model.Sgr
import Tickit.Proof.TermBuf
/-
  C10 over the output buffer: whatever the size of the buffer of `tickit_term_set_output_buffer`, after
  `tickit_term_flush` the output function has received the bytes of the pen requests in the order the requests
  emitted them — so the terminal's rendering attributes are those the unbuffered history yields.
  Everything about `write_str`/`flush` is C11's (`Proof/TermBuf.lean`: `writeStr_ext`, `flush_ext`); here it is
  only composed over a list of writes and converted to the byte type of the SGR interpreter.
-/
namespace Tickit.Proof.SgrBuf
open Tickit.TermBuf Tickit.SgrBuf

def enc (bs : List Nat) : Bytes := bs.map UInt8.ofNat

/-- one write of the driver is accepted in full, in order -/
theorem write_ext {st : State} (hwf : WF st) (bs : List Nat) : Ext st (write st bs) (enc bs) := by
  unfold write
  by_cases he : bs.isEmpty = true
  · have : bs = [] := List.isEmpty_iff.1 he
    subst this
    simpa [enc] using Ext.refl hwf
  · simp only [he]
    have hlen : (enc bs).length = bs.length := by simp [enc]
    obtain ⟨st', hst'⟩ := writeStr_total (st := st) (mem := enc bs ++ [0]) (len := (enc bs).length) hwf (reqOK_store (enc bs))
    have hx := writeStr_ext hwf hst'
    rw [effective_store] at hx
    rw [hlen] at hst'
    show Ext st (match writeStr st (List.map UInt8.ofNat bs ++ [0]) bs.length with | .ok st' => st' | _ => st) (enc bs)
    have : writeStr st (List.map UInt8.ofNat bs ++ [0]) bs.length = .ok st' := hst'
    rw [this]
    exact hx

/-- the strings of a sequence of requests, one `write_str` each -/
def writeAll (st : State) (l : List (List Nat)) : State := l.foldl write st

theorem writeAll_ext : ∀ (l : List (List Nat)) {st : State}, WF st → Ext st (writeAll st l) (enc l.flatten)
  | [], st, hwf => by simpa [writeAll, enc] using Ext.refl hwf
  | bs :: r, st, hwf => by
    have h1 := write_ext hwf bs
    have h2 := writeAll_ext r (st := write st bs) h1.wf
    have := Ext.trans h1 h2
    simpa [writeAll, enc, List.map_append] using this

theorem received_eq (st : State) : received st = (stream st.out).map (·.toNat) := by
  unfold received stream
  induction st.out with
  | nil => rfl
  | cons c cs ih =>
    cases c <;> simp [List.flatMap_cons, chunkBytes, Chunk.bytes, ih]

theorem dec_enc (bs : List Nat) (h : ∀ b ∈ bs, b < 256) : (enc bs).map (·.toNat) = bs := by
  induction bs with
  | nil => rfl
  | cons b r ih =>
    have hb : b < 256 := h b (by simp)
    have hr := ih (fun x hx => h x (by simp [hx]))
    simp only [enc, List.map_cons] at hr ⊢
    rw [hr]
    congr 1
    show (UInt8.ofNat b).toNat = b
    simp [Nat.mod_eq_of_lt hb]

/-- **In order, whatever the buffer.**  From a state with an output function (any buffer size, `pending` bytes in the
    buffer), the strings `l` written one after the other and then `tickit_term_flush`: the output function has received
    exactly the pending bytes followed by the strings in the order written, and nothing is left in the buffer. -/
theorem flush_in_order {st : State} (hwf : WF st) (hf : st.hasFunc = true) (l : List (List Nat)) :
    stream (flush (writeAll st l)).out = stream st.out ++ st.buf ++ enc l.flatten ∧ (flush (writeAll st l)).buf = [] := by
  have h1 := writeAll_ext l hwf
  have h2 := flush_ext_wf h1.wf
  have h := Ext.trans h1 h2
  have hat : Attached st := Or.inl hf
  have he := h.eqn hat
  rw [flush_buf] at he
  exact ⟨by simpa using he, flush_buf _⟩

/-- the same read by the terminal: on the harness's terminal (`init`: output function, no descriptor) with a buffer of
    any size `n`, after the requests' strings and a flush the terminal has been fed the strings in the order emitted, so
    its state is the one the unbuffered history gives. -/
theorem buffered_reads_in_order (n : Nat) (l : List (List Nat)) (h : ∀ b ∈ l.flatten, b < 256) (vt : Tickit.Sgr.VT) :
    Tickit.Sgr.run (received (flush (writeAll (setOutputBuffer Tickit.SgrBuf.init n) l))) vt = l.foldl (fun v bs => Tickit.Sgr.run bs v) vt := by
  have hwf : WF (setOutputBuffer Tickit.SgrBuf.init n) := by
    unfold WF setOutputBuffer Tickit.SgrBuf.init
    exact ⟨fun _ => rfl, fun h => by simpa using h⟩
  have := (flush_in_order hwf (by rfl) l).1
  rw [received_eq, this]
  have h0 : stream (setOutputBuffer Tickit.SgrBuf.init n).out = [] := rfl
  have h1 : (setOutputBuffer Tickit.SgrBuf.init n).buf = [] := rfl
  rw [h0, h1]
  simp only [List.nil_append]
  rw [dec_enc _ h]
  unfold Tickit.Sgr.run
  clear this h
  induction l generalizing vt with
  | nil => rfl
  | cons a r ih => simp [List.foldl_append, ih]

end Tickit.Proof.SgrBuf
