import Tickit.Model.Modes
/-
  Helper lemmas for C12: how the VT interpreter reads the byte strings the driver model writes.
-/
namespace Tickit.Modes
open Tickit.Gen

/-! ### feeding -/

theorem feed_append (vt : VT) (a b : List Nat) : VT.feed vt (a ++ b) = VT.feed (VT.feed vt a) b := by
  simp [VT.feed, List.foldl_append]

@[simp] theorem feed_nil (vt : VT) : VT.feed vt [] = vt := rfl

theorem feed_cons (vt : VT) (b : Nat) (bs : List Nat) : VT.feed vt (b :: bs) = VT.feed (vt.step b) bs := rfl

/-! ### the fixed strings, read from the ground state -/

section literals
variable (m : VModes) (a : Attrs)

theorem feed_altOn : VT.feed ⟨.ground, m, a⟩ altOn = ⟨.ground, { m with altscreen := true }, a⟩ := rfl
theorem feed_altOff : VT.feed ⟨.ground, m, a⟩ altOff = ⟨.ground, { m with altscreen := false }, a⟩ := rfl
theorem feed_visOn : VT.feed ⟨.ground, m, a⟩ visOn = ⟨.ground, { m with cursorVisible := true }, a⟩ := rfl
theorem feed_visOff : VT.feed ⟨.ground, m, a⟩ visOff = ⟨.ground, { m with cursorVisible := false }, a⟩ := rfl
theorem feed_blinkOn : VT.feed ⟨.ground, m, a⟩ blinkOn = ⟨.ground, { m with cursorBlink := true }, a⟩ := rfl
theorem feed_blinkOff : VT.feed ⟨.ground, m, a⟩ blinkOff = ⟨.ground, { m with cursorBlink := false }, a⟩ := rfl
theorem feed_keypadOn : VT.feed ⟨.ground, m, a⟩ keypadOn = ⟨.ground, { m with keypadApp := true }, a⟩ := rfl
theorem feed_keypadOff : VT.feed ⟨.ground, m, a⟩ keypadOff = ⟨.ground, { m with keypadApp := false }, a⟩ := rfl
theorem feed_sgrReset : VT.feed ⟨.ground, m, a⟩ sgrReset = ⟨.ground, m, Attrs.default⟩ := rfl
theorem feed_clearScreen : VT.feed ⟨.ground, m, a⟩ clearScreen = ⟨.ground, m, a⟩ := rfl
set_option maxRecDepth 4000 in
theorem feed_startBytes : VT.feed ⟨.ground, m, a⟩ startBytes = ⟨.ground, { m with declrmm := true }, Attrs.default⟩ := by rfl

end literals

/-! ### `%d` -/

theorem showNatAux_digits : ∀ (f n : Nat), ∀ d ∈ showNatAux f n, 48 ≤ d ∧ d ≤ 57
  | 0, n => by intro d hd; simp [showNatAux] at hd; omega
  | f + 1, n => by
    intro d hd
    simp only [showNatAux] at hd
    split at hd
    · simp at hd; omega
    · simp at hd
      rcases hd with hd | hd
      · exact showNatAux_digits f _ d hd
      · omega

theorem showNat_digits (n : Nat) : ∀ d ∈ showNat n, 48 ≤ d ∧ d ≤ 57 := showNatAux_digits n n

theorem showNat_ne_nil (n : Nat) : showNat n ≠ [] := by
  unfold showNat
  cases n with
  | zero => simp [showNatAux]
  | succ k => simp only [showNatAux]; split <;> simp

/-- The number a terminal reads from a digit string. -/
def accDigits (cur : Option Nat) (ds : List Nat) : Option Nat :=
  ds.foldl (fun c d => some (pv c * 10 + (d - 48))) cur

theorem accDigits_append (cur : Option Nat) (a b : List Nat) :
    accDigits cur (a ++ b) = accDigits (accDigits cur a) b := by simp [accDigits, List.foldl_append]

theorem accDigits_showNatAux : ∀ (f n : Nat), n ≤ f → accDigits none (showNatAux f n) = some n
  | 0, n, h => by
    have : n = 0 := by omega
    subst this; simp [showNatAux, accDigits, pv]
  | f + 1, n, h => by
    simp only [showNatAux]
    split
    · simp [accDigits, pv]
    · rw [accDigits_append, accDigits_showNatAux f (n / 10) (by omega)]
      simp [accDigits, pv]; omega

theorem accDigits_showNat (n : Nat) : accDigits none (showNat n) = some n :=
  accDigits_showNatAux n n (Nat.le_refl n)

/-- Digits are accumulated by a CSI without intermediates. -/
theorem feed_digits (p : Nat) (gs : List PGroup) (g : PGroup) (m : VModes) (a : Attrs) :
    ∀ (ds : List Nat) (cur : Option Nat), (∀ d ∈ ds, 48 ≤ d ∧ d ≤ 57) →
      VT.feed ⟨.csi p gs g cur [], m, a⟩ ds = ⟨.csi p gs g (accDigits cur ds) [], m, a⟩
  | [], cur, _ => rfl
  | d :: ds, cur, h => by
    have hd := h d (by simp)
    rw [feed_cons]
    have : VT.step ⟨.csi p gs g cur [], m, a⟩ d = ⟨.csi p gs g (some (pv cur * 10 + (d - 48))) [], m, a⟩ := by
      simp [VT.step, hd.1, hd.2]
    rw [this, feed_digits p gs g m a ds _ (fun x hx => h x (by simp [hx]))]
    rfl

/-- A CSI being ignored swallows parameter and intermediate bytes. -/
theorem feed_ignore (m : VModes) (a : Attrs) :
    ∀ (bs : List Nat), (∀ b ∈ bs, 32 ≤ b ∧ b ≤ 63) → VT.feed ⟨.csiIgnore, m, a⟩ bs = ⟨.csiIgnore, m, a⟩
  | [], _ => rfl
  | b :: bs, h => by
    have hb := h b (by simp)
    rw [feed_cons]
    have : VT.step ⟨.csiIgnore, m, a⟩ b = ⟨.csiIgnore, m, a⟩ := by
      simp only [VT.step]
      rw [if_neg (by omega), if_neg (by omega), if_neg (by omega)]
    rw [this, feed_ignore m a bs (fun x hx => h x (by simp [hx]))]

/-- Text (no control bytes) leaves the ground state alone. -/
theorem feed_text_ground (m : VModes) (a : Attrs) :
    ∀ (bs : List Nat), textOnly bs = true → VT.feed ⟨.ground, m, a⟩ bs = ⟨.ground, m, a⟩
  | [], _ => rfl
  | b :: bs, h => by
    simp [textOnly] at h
    rw [feed_cons]
    have : VT.step ⟨.ground, m, a⟩ b = ⟨.ground, m, a⟩ := by
      simp only [VT.step]; rw [if_neg (by omega)]
    rw [this, feed_text_ground m a bs (by simp [textOnly]; exact h.2)]

/-- Text inside an OSC string stays inside it. -/
theorem feed_text_str (m : VModes) (a : Attrs) :
    ∀ (bs : List Nat), textOnly bs = true → VT.feed ⟨.str, m, a⟩ bs = ⟨.str, m, a⟩
  | [], _ => rfl
  | b :: bs, h => by
    simp [textOnly] at h
    rw [feed_cons]
    have : VT.step ⟨.str, m, a⟩ b = ⟨.str, m, a⟩ := by
      simp only [VT.step]; rw [if_neg (by omega), if_neg (by omega)]
    rw [this, feed_text_str m a bs (by simp [textOnly]; exact h.2)]

/-! ### sequences with a number in them -/

theorem mouseOn_eq (k : Nat) (h : 1 ≤ k ∧ k ≤ 3) :
    mouseOn (modeForMouse k) = [27, 91, 63, 49, 48, 48, 48 + (if k = 1 then 0 else k), 104, 27, 91, 63, 49, 48, 48, 54, 104] := by
  have : k = 1 ∨ k = 2 ∨ k = 3 := by omega
  rcases this with rfl | rfl | rfl <;> rfl

theorem mouseOff_eq (k : Nat) (h : 1 ≤ k ∧ k ≤ 3) :
    mouseOff (modeForMouse k) = [27, 91, 63, 49, 48, 48, 48 + (if k = 1 then 0 else k), 108, 27, 91, 63, 49, 48, 48, 54, 108] := by
  have : k = 1 ∨ k = 2 ∨ k = 3 := by omega
  rcases this with rfl | rfl | rfl <;> rfl

theorem feed_mouseOn (m : VModes) (a : Attrs) (k : Nat) (h : 1 ≤ k ∧ k ≤ 3) :
    VT.feed ⟨.ground, m, a⟩ (mouseOn (modeForMouse k)) =
      ⟨.ground, { m with mouse := (modeForMouse k).toNat, sgrMouse := true }, a⟩ := by
  have : k = 1 ∨ k = 2 ∨ k = 3 := by omega
  rcases this with rfl | rfl | rfl <;> (rw [mouseOn_eq _ (by omega)]; rfl)

theorem feed_mouseOff (m : VModes) (a : Attrs) (k : Nat) (h : 1 ≤ k ∧ k ≤ 3) :
    VT.feed ⟨.ground, m, a⟩ (mouseOff (modeForMouse k)) =
      ⟨.ground, { m with mouse := 0, sgrMouse := false }, a⟩ := by
  have : k = 1 ∨ k = 2 ∨ k = 3 := by omega
  rcases this with rfl | rfl | rfl <;> (rw [mouseOff_eq _ (by omega)]; rfl)

/-- `setctl_str`: an OSC string with a text payload is skipped. -/
theorem feed_osc (m : VModes) (a : Attrs) (k : Nat) (payload : List Nat) (h : textOnly payload = true)
    (hk : 32 ≤ k ∧ k ≠ 127) :
    VT.feed ⟨.ground, m, a⟩ ([27, 93, k, 59] ++ payload ++ [27, 92]) = ⟨.ground, m, a⟩ := by
  have h1 : VT.feed ⟨.ground, m, a⟩ [27, 93, k, 59] = ⟨.str, m, a⟩ := by
    simp only [VT.feed, List.foldl, VT.step, escByte]
    simp
    rw [if_neg (by omega), if_neg (by omega)]
  rw [feed_append, feed_append, h1, feed_text_str m a payload h]
  rfl

/-- DECSCUSR with any number: only the cursor's shape and blink can change. -/
theorem feed_shapeSeq (m : VModes) (a : Attrs) (n : Int) :
    ∃ sh bl, VT.feed ⟨.ground, m, a⟩ (shapeSeq n) = ⟨.ground, { m with cursorShape := sh, cursorBlink := bl }, a⟩ := by
  unfold shapeSeq showInt
  split
  · -- negative: `-` is an intermediate, the digit after it makes the sequence void
    rename_i hneg
    obtain ⟨d, ds, hds⟩ := List.exists_cons_of_ne_nil (showNat_ne_nil n.natAbs)
    have hdig := showNat_digits n.natAbs
    rw [hds] at hdig
    have hd := hdig d (by simp)
    refine ⟨m.cursorShape, m.cursorBlink, ?_⟩
    rw [hds]
    have h1 : VT.feed ⟨.ground, m, a⟩ [27, 91, 45, d] = ⟨.csiIgnore, m, a⟩ := by
      simp only [VT.feed, List.foldl, VT.step, escByte]
      simp [hd.1, hd.2]
    have : [27, 91] ++ 45 :: d :: ds ++ [32, 113] = [27, 91, 45, d] ++ (ds ++ [32]) ++ [113] := by simp
    rw [this, feed_append, feed_append, h1, feed_ignore]
    · rfl
    · intro b hb
      simp at hb
      rcases hb with hb | hb
      · have := hdig b (by simp [hb]); omega
      · omega
  · refine ⟨if n.toNat ≤ 6 then n.toNat else m.cursorShape,
             if n.toNat ≤ 6 then decide (n.toNat = 0 ∨ n.toNat % 2 = 1) else m.cursorBlink, ?_⟩
    have h1 : VT.feed ⟨.ground, m, a⟩ [27, 91] = ⟨.csi 0 [] [] none [], m, a⟩ := rfl
    rw [feed_append, feed_append, h1, feed_digits _ _ _ _ _ _ _ (showNat_digits _), accDigits_showNat]
    simp only [VT.feed, List.foldl, VT.step, csiDispatch]
    simp [firstOf, pv]
    split <;> rfl

/-! ### SGR: what the terminal's tokenizer makes of `chpen`'s parameter list -/

/-- The parameter groups the tokenizer has when the final byte arrives, having started with the
    finished groups `gs` and the finished sub-parameters `g` of the current group. -/
def groupsAcc (colon : Bool) : List PGroup → PGroup → List Param → List PGroup
  | gs, g, [] => gs ++ [g ++ [none]]
  | gs, g, [p] => gs ++ [g ++ [some p.val.toNat]]
  | gs, g, p :: q :: rest =>
    if p.sub && colon then groupsAcc colon gs (g ++ [some p.val.toNat]) (q :: rest)
    else groupsAcc colon (gs ++ [g ++ [some p.val.toNat]]) [] (q :: rest)

theorem showInt_nonneg (v : Int) (h : 0 ≤ v) : showInt v = showNat v.toNat := by
  unfold showInt; rw [if_neg (by omega)]

theorem step_final_m (gs : List PGroup) (g : PGroup) (cur : Option Nat) (m : VModes) (a : Attrs) :
    VT.step ⟨.csi 0 gs g cur [], m, a⟩ 109 = ⟨.ground, m, sgrRun (gs ++ [g ++ [cur]]) a⟩ := by
  simp [VT.step, csiDispatch]

theorem feed_render (colon : Bool) (m : VModes) (a : Attrs) :
    ∀ (ps : List Param) (gs : List PGroup) (g : PGroup), (∀ p ∈ ps, 0 ≤ p.val) →
      VT.feed ⟨.csi 0 gs g none [], m, a⟩ (renderParams colon ps ++ [109]) =
        ⟨.ground, m, sgrRun (groupsAcc colon gs g ps) a⟩
  | [], gs, g, _ => by
    simp only [renderParams, List.nil_append, groupsAcc]
    rw [feed_cons, step_final_m]; rfl
  | [p], gs, g, h => by
    have hp := h p (by simp)
    simp only [renderParams, groupsAcc]
    rw [showInt_nonneg _ hp, feed_append, feed_digits _ _ _ _ _ _ _ (showNat_digits _), accDigits_showNat,
      feed_cons, step_final_m]; rfl
  | p :: q :: rest, gs, g, h => by
    have hp := h p (by simp)
    have hrest : ∀ x ∈ q :: rest, 0 ≤ x.val := fun x hx => h x (List.mem_cons_of_mem _ hx)
    simp only [renderParams, groupsAcc]
    rw [showInt_nonneg _ hp, List.append_assoc, List.append_assoc, feed_append,
      feed_digits _ _ _ _ _ _ _ (showNat_digits _), accDigits_showNat, List.singleton_append, feed_cons]
    by_cases hs : (p.sub && colon) = true
    · rw [if_pos hs, if_pos hs]
      have : VT.step ⟨.csi 0 gs g (some p.val.toNat) [], m, a⟩ 58 = ⟨.csi 0 gs (g ++ [some p.val.toNat]) none [], m, a⟩ := by
        simp [VT.step]
      rw [this]
      exact feed_render colon m a (q :: rest) gs _ hrest
    · rw [if_neg hs, if_neg hs]
      have : VT.step ⟨.csi 0 gs g (some p.val.toNat) [], m, a⟩ 59 = ⟨.csi 0 (gs ++ [g ++ [some p.val.toNat]]) [] none [], m, a⟩ := by
        simp [VT.step]
      rw [this]
      exact feed_render colon m a (q :: rest) _ _ hrest

/-! ### the control interface against the terminal -/

theorem wrapU1_bool (v : Int) : wrapU 1 (bool01 v) = if v = 0 then 0 else 1 := by
  unfold wrapU bool01; split <;> simp

theorem wrapU2_small (v : Int) (h : 0 ≤ v ∧ v ≤ 3) : wrapU 2 v = v.toNat := by
  unfold wrapU
  have : ((2:Int)^2) = 4 := by decide
  rw [this]
  omega

theorem modeForMouse_toNat (k : Nat) : ((modeForMouse k).toNat : Int) = modeForMouse k := by
  unfold modeForMouse; split <;> (try split) <;> (try split) <;> simp

/-- The terminal's listed modes show what the driver's shadow holds. -/
structure Shown (sh : Shadow) (m : VModes) : Prop where
  alt : m.altscreen = decide (sh.altscreen ≠ 0)
  vis : m.cursorVisible = decide (sh.cursorvis ≠ 0)
  mouse : (m.mouse : Int) = modeForMouse sh.mouse
  sgr : m.sgrMouse = decide (sh.mouse ≠ 0)
  keypad : m.keypadApp = decide (sh.keypad ≠ 0)

/-- `setctl_int` keeps the terminal and the shadow in step. -/
theorem setctl_shown (cfg : Cfg) (d : XDrv) (c : Option Ctl) (v : Int) (m : VModes) (A : Attrs)
    (hsh : Shown d.mode m) (hm : d.mode.mouse ≤ 3)
    (hkz : cfg.keypadRecorded = false → d.mode.keypad = 0)
    (hmouse : c = some .mouse → 0 ≤ v ∧ v ≤ 3)
    (hkp : c = some .keypadApp → cfg.keypadRecorded = true ∨ v = 0) :
    ∃ m', VT.feed ⟨.ground, m, A⟩ (setctlInt cfg d c v).2.1 = ⟨.ground, m', A⟩ ∧
      Shown (setctlInt cfg d c v).1.mode m' ∧ (setctlInt cfg d c v).1.mode.mouse ≤ 3 ∧
      (cfg.keypadRecorded = false → (setctlInt cfg d c v).1.mode.keypad = 0) := by
  obtain ⟨halt, hvis, hmo, hsgr, hkey⟩ := hsh
  have same : ∃ m', VT.feed ⟨.ground, m, A⟩ ([] : List Nat) = ⟨.ground, m', A⟩ ∧ Shown d.mode m' ∧ d.mode.mouse ≤ 3 ∧
      (cfg.keypadRecorded = false → d.mode.keypad = 0) := ⟨m, rfl, ⟨halt, hvis, hmo, hsgr, hkey⟩, hm, hkz⟩
  cases c with
  | none => exact same
  | some c =>
    cases c
    case altscreen =>
      unfold setctlInt
      simp only
      split
      · exact same
      · by_cases hv : v = 0
        · subst hv
          refine ⟨{ m with altscreen := false }, ?_, ?_, hm, hkz⟩
          · simp [feed_altOff]
          · constructor <;> simp_all [ModeLayout.w_mode_altscreen, wrapU1_bool]
        · refine ⟨{ m with altscreen := true }, ?_, ?_, hm, hkz⟩
          · simp [hv, feed_altOn]
          · constructor <;> simp_all [ModeLayout.w_mode_altscreen, wrapU1_bool]
    case cursorvis =>
      unfold setctlInt
      simp only
      split
      · exact same
      · by_cases hv : v = 0
        · subst hv
          refine ⟨{ m with cursorVisible := false }, ?_, ?_, hm, hkz⟩
          · simp [feed_visOff]
          · constructor <;> simp_all [ModeLayout.w_mode_cursorvis, wrapU1_bool]
        · refine ⟨{ m with cursorVisible := true }, ?_, ?_, hm, hkz⟩
          · simp [hv, feed_visOn]
          · constructor <;> simp_all [ModeLayout.w_mode_cursorvis, wrapU1_bool]
    case cursorblink =>
      unfold setctlInt
      simp only
      split
      · exact same
      · by_cases hv : v = 0
        · subst hv
          exact ⟨{ m with cursorBlink := false }, by simp [feed_blinkOff], ⟨halt, hvis, hmo, hsgr, hkey⟩, hm, hkz⟩
        · exact ⟨{ m with cursorBlink := true }, by simp [hv, feed_blinkOn], ⟨halt, hvis, hmo, hsgr, hkey⟩, hm, hkz⟩
    case mouse =>
      have hv := hmouse rfl
      unfold setctlInt
      simp only
      split
      · exact same
      · rename_i hne
        by_cases hv0 : v = 0
        · subst hv0
          have hk : 1 ≤ d.mode.mouse ∧ d.mode.mouse ≤ 3 := by omega
          refine ⟨{ m with mouse := 0, sgrMouse := false }, ?_, ?_, ?_, hkz⟩
          · simp [feed_mouseOff _ _ _ hk]
          · constructor <;> simp_all [ModeLayout.w_mode_mouse, wrapU, modeForMouse]
          · simp [ModeLayout.w_mode_mouse, wrapU]
        · obtain ⟨k, rfl⟩ : ∃ k : Nat, v = k := ⟨v.toNat, by omega⟩
          have hk : 1 ≤ k ∧ k ≤ 3 := by omega
          have hw : wrapU ModeLayout.w_mode_mouse (k : Int) = k := by
            rw [show ModeLayout.w_mode_mouse = 2 from rfl, wrapU2_small _ (by omega)]; simp
          refine ⟨{ m with mouse := (modeForMouse k).toNat, sgrMouse := true }, ?_, ?_, ?_, hkz⟩
          · have hk0 : k ≠ 0 := by omega
            simp [hk0, feed_mouseOn _ _ _ hk]
          · constructor
            · simpa using halt
            · simpa using hvis
            · simp only [hw]; exact modeForMouse_toNat k
            · simp only [hw]; simp; omega
            · simpa using hkey
          · simp only [hw]; omega
    case cursorshape =>
      unfold setctlInt
      simp only
      split
      · exact same
      · by_cases hc : d.cap.cursorshape ≠ 0
        · obtain ⟨sh, bl, hf⟩ := feed_shapeSeq m A (v * 2 + (if d.mode.cursorblink ≠ 0 then -1 else 0))
          exact ⟨{ m with cursorShape := sh, cursorBlink := bl }, by simp only [if_pos hc]; exact hf, ⟨halt, hvis, hmo, hsgr, hkey⟩, hm, hkz⟩
        · exact ⟨m, by simp only [if_neg hc]; rfl, ⟨halt, hvis, hmo, hsgr, hkey⟩, hm, hkz⟩
    case keypadApp =>
      unfold setctlInt
      simp only
      split
      · exact same
      · rename_i hne
        by_cases hrec : cfg.keypadRecorded = true
        · simp only [hrec, if_true]
          by_cases hv : v = 0
          · subst hv
            refine ⟨{ m with keypadApp := false }, ?_, ?_, hm, by simp [hrec]⟩
            · simp [feed_keypadOff]
            · constructor <;> simp_all [ModeLayout.w_mode_keypad, wrapU1_bool]
          · refine ⟨{ m with keypadApp := true }, ?_, ?_, hm, by simp [hrec]⟩
            · simp [hv, feed_keypadOn]
            · constructor <;> simp_all [ModeLayout.w_mode_keypad, wrapU1_bool]
        · have hrf : cfg.keypadRecorded = false := by simpa using hrec
          have hz := hkz hrf
          rcases hkp rfl with h | hv0
          · simp [hrf] at h
          · subst hv0
            simp [hz] at hne
    all_goals exact same

/-- `teardown` (stop / pause) read by the terminal, whatever it showed before. -/
theorem feed_drvTeardown (d : XDrv) (m : VModes) (A : Attrs) (hm : d.mode.mouse ≤ 3) :
    VT.feed ⟨.ground, m, A⟩ (drvTeardown d) =
      ⟨.ground, { m with
          mouse := if d.mode.mouse ≠ 0 then 0 else m.mouse
          sgrMouse := if d.mode.mouse ≠ 0 then false else m.sgrMouse
          cursorVisible := if d.mode.cursorvis = 0 then true else m.cursorVisible
          altscreen := if d.mode.altscreen ≠ 0 then false else m.altscreen
          keypadApp := if d.mode.keypad ≠ 0 then false else m.keypadApp }, Attrs.default⟩ := by
  unfold drvTeardown
  rw [feed_append, feed_append, feed_append, feed_append]
  by_cases h1 : d.mode.mouse ≠ 0
  · have hk : 1 ≤ d.mode.mouse ∧ d.mode.mouse ≤ 3 := by omega
    rw [if_pos h1, feed_mouseOff _ _ _ hk]
    by_cases h2 : d.mode.cursorvis = 0 <;> by_cases h3 : d.mode.altscreen ≠ 0 <;> by_cases h4 : d.mode.keypad ≠ 0 <;>
      simp [h1, h2, h3, h4, feed_visOn, feed_altOff, feed_keypadOff, feed_sgrReset]
  · rw [if_neg h1, feed_nil]
    by_cases h2 : d.mode.cursorvis = 0 <;> by_cases h3 : d.mode.altscreen ≠ 0 <;> by_cases h4 : d.mode.keypad ≠ 0 <;>
      simp [h1, h2, h3, h4, feed_visOn, feed_altOff, feed_keypadOff, feed_sgrReset]


/-- `resume` read by the terminal. -/
theorem feed_drvResume (d : XDrv) (m : VModes) (A : Attrs) (hm : d.mode.mouse ≤ 3) :
    VT.feed ⟨.ground, m, A⟩ (drvResume d) =
      ⟨.ground, { m with
          keypadApp := if d.mode.keypad ≠ 0 then true else m.keypadApp
          altscreen := if d.mode.altscreen ≠ 0 then true else m.altscreen
          cursorVisible := if d.mode.cursorvis = 0 then false else m.cursorVisible
          mouse := if d.mode.mouse ≠ 0 then (modeForMouse d.mode.mouse).toNat else m.mouse
          sgrMouse := if d.mode.mouse ≠ 0 then true else m.sgrMouse }, A⟩ := by
  unfold drvResume
  rw [feed_append, feed_append, feed_append]
  by_cases h1 : d.mode.mouse ≠ 0
  · have hk : 1 ≤ d.mode.mouse ∧ d.mode.mouse ≤ 3 := by omega
    by_cases h2 : d.mode.cursorvis = 0 <;> by_cases h3 : d.mode.altscreen ≠ 0 <;> by_cases h4 : d.mode.keypad ≠ 0 <;>
      simp [h1, h2, h3, h4, feed_visOff, feed_altOn, feed_keypadOn, feed_mouseOn _ _ _ hk]
  · by_cases h2 : d.mode.cursorvis = 0 <;> by_cases h3 : d.mode.altscreen ≠ 0 <;> by_cases h4 : d.mode.keypad ≠ 0 <;>
      simp [h1, h2, h3, h4, feed_visOff, feed_altOn, feed_keypadOn]

/-- The listed modes in their initial (off) state. -/
structure Off (m : VModes) : Prop where
  alt : m.altscreen = false
  vis : m.cursorVisible = true
  mouse : m.mouse = 0
  sgr : m.sgrMouse = false
  keypad : m.keypadApp = false

theorem teardown_off (d : XDrv) (m : VModes) (A : Attrs) (hm : d.mode.mouse ≤ 3) (h : Shown d.mode m ∨ Off m) :
    ∃ m', VT.feed ⟨.ground, m, A⟩ (drvTeardown d) = ⟨.ground, m', Attrs.default⟩ ∧ Off m' := by
  refine ⟨_, feed_drvTeardown d m A hm, ?_⟩
  rcases h with h | h
  · obtain ⟨h1, h2, h3, h4, h5⟩ := h
    constructor
    · simp only; split <;> simp_all
    · simp only; split <;> simp_all
    · simp only; split
      · rfl
      · rename_i hz; have : d.mode.mouse = 0 := by omega
        rw [this] at h3; simp [modeForMouse] at h3; exact h3
    · simp only; split <;> simp_all
    · simp only; split <;> simp_all
  · obtain ⟨h1, h2, h3, h4, h5⟩ := h
    constructor <;> simp only <;> split <;> simp_all

theorem resume_shown (d : XDrv) (m : VModes) (A : Attrs) (hm : d.mode.mouse ≤ 3) (h : Off m) :
    ∃ m', VT.feed ⟨.ground, m, A⟩ (drvResume d) = ⟨.ground, m', A⟩ ∧ Shown d.mode m' := by
  refine ⟨_, feed_drvResume d m A hm, ?_⟩
  obtain ⟨h1, h2, h3, h4, h5⟩ := h
  constructor
  · simp only; split <;> simp_all
  · simp only; split <;> simp_all
  · simp only; split
    · exact modeForMouse_toNat _
    · rename_i hz; have : d.mode.mouse = 0 := by omega
      rw [this, h3]; simp [modeForMouse]
  · simp only; split <;> simp_all
  · simp only; split <;> simp_all


/-! ### colour values -/

/-- The colour values with an exact encoding: a palette index, or a palette index with an RGB8 refinement. -/
def ColDom (v : Int) : Prop := (-1 ≤ v ∧ v ≤ 255) ∨ (1000 ≤ v ∧ v < 1000 + 257 * 16777216)

theorem colIndex_range (v : Int) (h : ColDom v) : -1 ≤ colIndex v ∧ colIndex v ≤ 255 := by
  unfold colIndex ColDom at *
  split <;> omega

theorem colIndex_palette (v : Int) (h : v < 1000) : colIndex v = v := by
  unfold colIndex; rw [if_pos h]

theorem colRGB_range (v : Int) : (0 ≤ colR v ∧ colR v ≤ 255) ∧ (0 ≤ colG v ∧ colG v ≤ 255) ∧ (0 ≤ colB v ∧ colB v ≤ 255) := by
  unfold colR colG colB; omega

theorem paletteParams_nonneg (on off i : Int) (hon : 0 ≤ on) (hoff : 0 ≤ off) (hi : -1 ≤ i) :
    ∀ p ∈ paletteParams on off i, 0 ≤ p.val := by
  intro p hp
  unfold paletteParams at hp
  split at hp
  · simp at hp; subst hp; exact hoff
  · split at hp
    · simp at hp; subst hp; simp only; omega
    · split at hp
      · simp at hp; subst hp; simp only; omega
      · simp at hp
        rcases hp with hp | hp | hp <;> subst hp <;> simp only <;> omega

theorem colourParams_nonneg (rgb8 : Bool) (on off v : Int) (hon : 0 ≤ on) (hoff : 0 ≤ off) (h : ColDom v) :
    ∀ p ∈ colourParams rgb8 on off v, 0 ≤ p.val := by
  intro p hp
  have hr := colIndex_range v h
  have hc := colRGB_range v
  unfold colourParams at hp
  split at hp
  · simp at hp; subst hp; exact hoff
  · split at hp
    · simp at hp
      rcases hp with hp | hp | hp | hp | hp <;> subst hp <;> simp <;> omega
    · exact paletteParams_nonneg on off _ hon hoff hr.1 p hp

theorem attrParams_nonneg (rgb8 : Bool) (a : Attr) (v : Int) (h : inDomain a v = true) : ∀ p ∈ attrParams rgb8 a v, 0 ≤ p.val := by
  intro p hp
  cases a
  case fg => exact colourParams_nonneg rgb8 30 39 v (by omega) (by omega) (by simpa [inDomain, ColDom] using h) p hp
  case bg => exact colourParams_nonneg rgb8 40 49 v (by omega) (by omega) (by simpa [inDomain, ColDom] using h) p hp
  all_goals (simp [inDomain] at h; simp only [attrParams] at hp)
  all_goals (repeat' split at hp) <;> simp at hp <;> (try (rcases hp with hp | hp | hp)) <;> (try subst hp) <;> (try simp) <;> (try omega)

theorem deltaParams_nonneg (rgb8 : Bool) (delta : PenMap) (h : ∀ a v, delta a = some v → inDomain a v = true) :
    ∀ p ∈ deltaParams rgb8 delta, 0 ≤ p.val := by
  intro p hp
  simp only [deltaParams, List.mem_flatMap] at hp
  obtain ⟨a, _, hpa⟩ := hp
  cases hd : delta a with
  | none => simp [hd] at hpa
  | some v => simp only [hd] at hpa; exact attrParams_nonneg rgb8 a v (h a v hd) p hpa

theorem attrParams'_eq (single rgb8 : Bool) (a : Attr) (v : Int) (h : inDomain a v = true) :
    attrParams' single rgb8 a v = attrParams rgb8 a v := by
  unfold attrParams'
  split
  · rename_i hc
    obtain ⟨_, ha, h0, h1⟩ := hc
    subst ha
    simp [inDomain] at h
    omega
  · rfl

theorem deltaParams'_eq (single rgb8 : Bool) (delta : PenMap) (h : ∀ a v, delta a = some v → inDomain a v = true) :
    deltaParams' single rgb8 delta = deltaParams rgb8 delta := by
  unfold deltaParams' deltaParams
  congr 1
  funext a
  cases hd : delta a with
  | none => rfl
  | some v => exact attrParams'_eq single rgb8 a v (h a v hd)

/-- `chpen` read by the terminal: an SGR, or nothing. -/
theorem feed_drvChpen (cfg : Cfg) (d : XDrv) (delta final : PenMap) (m : VModes) (A : Attrs)
    (h : ∀ a v, delta a = some v → inDomain a v = true) :
    VT.feed ⟨.ground, m, A⟩ (drvChpen cfg d delta final) =
      ⟨.ground, m, if (deltaParams d.rgbOn delta).isEmpty then A
        else sgrRun (groupsAcc (decide (d.cap.csiSubColon ≠ 0)) [] [] (if isNondefault final then deltaParams d.rgbOn delta else [])) A⟩ := by
  unfold drvChpen
  rw [deltaParams'_eq _ _ delta h]
  simp only
  split
  · rfl
  · have h1 : VT.feed ⟨.ground, m, A⟩ [27, 91] = ⟨.csi 0 [] [] none [], m, A⟩ := rfl
    rw [List.append_assoc, feed_append, h1, feed_render]
    intro p hp
    split at hp
    · exact deltaParams_nonneg _ delta h p hp
    · simp at hp

/-- The ghost (values last set) and the driver's shadow agree; with guarded replies, a value that
    has been set explicitly is marked `initialised`. -/
structure GhostOk (cfg : Cfg) (d : XDrv) (g : Ghost) : Prop where
  alt : g.alt = d.mode.altscreen
  vis : g.vis = d.mode.cursorvis
  mouse : g.mouse = d.mode.mouse
  keypad : g.keypad = d.mode.keypad
  blink : ∀ v, g.blink = some v → v = d.mode.cursorblink ∧ (cfg.repliesGuarded = true → d.init.cursorblink ≠ 0)
  shape : ∀ v, g.shape = some v → v = d.mode.cursorshape ∧ (cfg.repliesGuarded = true → d.init.cursorshape ≠ 0)
  visInit : cfg.repliesGuarded = true → d.mode.cursorvis = 0 → d.init.cursorvis ≠ 0
  le1 : d.mode.altscreen ≤ 1 ∧ d.mode.cursorvis ≤ 1 ∧ d.mode.keypad ≤ 1 ∧ d.mode.cursorblink ≤ 1
  rgb8 : ∀ v, g.rgb8 = some v → v = d.cap.rgb8 ∧ (v = 0 ∨ v = 1) ∧ (cfg.rgb8Guarded = true → d.init.rgb8 ≠ 0)

theorem bool01_cases (v : Int) : (v = 0 ∧ bool01 v = 0) ∨ (v ≠ 0 ∧ bool01 v = 1) := by
  unfold bool01; by_cases h : v = 0 <;> simp [h]

theorem wrapU1_bool_int (v : Int) : ((wrapU 1 (bool01 v) : Nat) : Int) = bool01 v := by
  rcases bool01_cases v with ⟨_, h⟩ | ⟨_, h⟩ <;> rw [h] <;> decide

theorem setctl_ghost (cfg : Cfg) (d : XDrv) (g : Ghost) (c : Option Ctl) (v : Int)
    (hg : GhostOk cfg d g)
    (hkz : cfg.keypadRecorded = false → d.mode.keypad = 0)
    (hmouse : c = some .mouse → 0 ≤ v ∧ v ≤ 3)
    (hkp : c = some .keypadApp → cfg.keypadRecorded = true ∨ v = 0) :
    GhostOk cfg (setctlInt cfg d c v).1 (if (setctlInt cfg d c v).2.2 = true then g.set c v else g) := by
  obtain ⟨h1, h2, h3, h4, h5, h6, h7, h8, h9⟩ := hg
  cases c with
  | none => simp [setctlInt]; exact ⟨h1, h2, h3, h4, h5, h6, h7, h8, h9⟩
  | some c =>
    cases c
    case altscreen =>
      unfold setctlInt; simp only
      split
      · rename_i heq
        simp only [if_true, Ghost.set]
        refine ⟨?_, h2, h3, h4, h5, h6, h7, h8, h9⟩
        show bool01 v = (d.mode.altscreen : Int)
        rcases bool01_cases v with ⟨hv, hb⟩ | ⟨hv, hb⟩ <;> simp [hv] at heq <;> rw [hb] <;> omega
      · simp only [if_true, Ghost.set]
        refine ⟨?_, h2, h3, h4, h5, h6, h7, ?_, h9⟩
        · simp only [ModeLayout.w_mode_altscreen]; exact (wrapU1_bool_int v).symm
        · simp only [ModeLayout.w_mode_altscreen]
          rcases bool01_cases v with ⟨_, hb⟩ | ⟨_, hb⟩ <;> rw [hb] <;> simp [wrapU] <;> omega
    case cursorvis =>
      unfold setctlInt; simp only
      split
      · rename_i heq
        simp only [if_true, Ghost.set]
        refine ⟨h1, ?_, h3, h4, h5, h6, h7, h8, h9⟩
        show bool01 v = (d.mode.cursorvis : Int)
        rcases bool01_cases v with ⟨hv, hb⟩ | ⟨hv, hb⟩ <;> simp [hv] at heq <;> rw [hb] <;> omega
      · simp only [if_true, Ghost.set]
        refine ⟨h1, ?_, h3, h4, h5, h6, ?_, ?_, h9⟩
        · simp only [ModeLayout.w_mode_cursorvis]; exact (wrapU1_bool_int v).symm
        · intro hgd _
          simp only [hgd, if_true, ModeLayout.w_initialised_cursorvis]; decide
        · simp only [ModeLayout.w_mode_cursorvis]
          rcases bool01_cases v with ⟨_, hb⟩ | ⟨_, hb⟩ <;> rw [hb] <;> simp [wrapU] <;> omega
    case cursorblink =>
      unfold setctlInt; simp only
      split
      · rename_i heq
        simp only [if_true, Ghost.set]
        refine ⟨h1, h2, h3, h4, ?_, h6, h7, h8, h9⟩
        intro x hx
        simp only [Option.some.injEq] at hx
        subst hx
        refine ⟨?_, fun _ => heq.1⟩
        have := heq.2
        rcases bool01_cases v with ⟨hv, hb⟩ | ⟨hv, hb⟩ <;> simp [hv] at this <;> rw [hb] <;> omega
      · simp only [if_true, Ghost.set]
        refine ⟨h1, h2, h3, h4, ?_, h6, h7, ?_, h9⟩
        · intro x hx
          simp only [Option.some.injEq] at hx
          subst hx
          refine ⟨?_, ?_⟩
          · simp only [ModeLayout.w_mode_cursorblink]; exact (wrapU1_bool_int v).symm
          · intro hgd; simp only [hgd, if_true, ModeLayout.w_initialised_cursorblink]; decide
        · simp only [ModeLayout.w_mode_cursorblink]
          rcases bool01_cases v with ⟨_, hb⟩ | ⟨_, hb⟩ <;> rw [hb] <;> simp [wrapU] <;> omega
    case mouse =>
      have hv := hmouse rfl
      unfold setctlInt; simp only
      split
      · rename_i heq
        simp only [if_true, Ghost.set]
        exact ⟨h1, h2, heq.symm, h4, h5, h6, h7, h8, h9⟩
      · simp only [if_true, Ghost.set]
        refine ⟨h1, h2, ?_, h4, h5, h6, h7, h8, h9⟩
        show v = ((wrapU ModeLayout.w_mode_mouse v : Nat) : Int)
        rw [show ModeLayout.w_mode_mouse = 2 from rfl, wrapU2_small _ hv]; omega
    case cursorshape =>
      unfold setctlInt; simp only
      split
      · rename_i heq
        simp only [if_true, Ghost.set]
        refine ⟨h1, h2, h3, h4, h5, ?_, h7, h8, h9⟩
        intro x hx
        show (x : Int) = _ ∧ _
        split at hx
        · simp only [Option.some.injEq] at hx; subst hx
          exact ⟨heq.2.symm, fun _ => heq.1⟩
        · cases hx
      · simp only [if_true, Ghost.set]
        refine ⟨h1, h2, h3, h4, h5, ?_, h7, h8, h9⟩
        intro x hx
        split at hx
        · rename_i hr
          simp only [Option.some.injEq] at hx; subst hx
          refine ⟨?_, ?_⟩
          · show v = ((wrapU ModeLayout.w_mode_cursorshape v : Nat) : Int)
            rw [show ModeLayout.w_mode_cursorshape = 2 from rfl, wrapU2_small _ hr]; omega
          · intro hgd; simp only [hgd, if_true, ModeLayout.w_initialised_cursorshape]; decide
        · cases hx
    case keypadApp =>
      unfold setctlInt; simp only
      split
      · rename_i heq
        simp only [if_true, Ghost.set]
        refine ⟨h1, h2, h3, ?_, h5, h6, h7, h8, h9⟩
        show bool01 v = (d.mode.keypad : Int)
        rcases bool01_cases v with ⟨hv, hb⟩ | ⟨hv, hb⟩ <;> simp [hv] at heq <;> rw [hb] <;> omega
      · rename_i hne
        simp only [if_true, Ghost.set]
        by_cases hrec : cfg.keypadRecorded = true
        · simp only [hrec, if_true]
          refine ⟨h1, h2, h3, ?_, h5, h6, h7, ?_, h9⟩
          · simp only [ModeLayout.w_mode_keypad]; exact (wrapU1_bool_int v).symm
          · simp only [ModeLayout.w_mode_keypad]
            rcases bool01_cases v with ⟨_, hb⟩ | ⟨_, hb⟩ <;> rw [hb] <;> simp [wrapU] <;> omega
        · have hrf : cfg.keypadRecorded = false := by simpa using hrec
          have hz := hkz hrf
          rcases hkp rfl with h | hv0
          · simp [hrf] at h
          · subst hv0; simp [hz] at hne
    case capRgb8 =>
      simp only [setctlInt, if_true, Ghost.set]
      refine ⟨h1, h2, h3, h4, h5, h6, h7, h8, ?_⟩
      intro x hx
      simp only [Option.some.injEq] at hx
      subst hx
      refine ⟨?_, ?_, fun hgd => by simp [hgd]⟩
      · simp only [ModeLayout.w_cap_rgb8]; exact (wrapU1_bool_int v).symm
      · rcases bool01_cases v with ⟨_, hb⟩ | ⟨_, hb⟩ <;> simp [hb]
    all_goals (simp [setctlInt]; exact ⟨h1, h2, h3, h4, h5, h6, h7, h8, h9⟩)


/-! ### the invariant of the mode life cycle -/

/-- The operations that trigger one of the defects of the unrepaired tree. -/
def trigger (cfg : Cfg) (s : Sys) (g : Ghost) : Op → Bool
  | .ctl (some .keypadApp) v => !cfg.keypadRecorded && decide (v ≠ 0)
  | .tick nosetup => !cfg.keypadRecorded && !nosetup && (match s.top with
      | some top => !top.doneSetup
      | none => false)
  | .replyMode mode value =>
    !cfg.repliesGuarded && decide (value = 1) &&
      ((decide (mode = 25) && decide (s.term.drv.mode.cursorvis = 0)) || (decide (mode = 12) && g.blink == some 0))
  | .replyShape _ => !cfg.repliesGuarded && g.shape.isSome
  | .replySgr _ rgb => !cfg.rgb8Guarded && rgb && g.rgb8 == some 0
  | _ => false

/-- Every value of the cached pen has an exact encoding. -/
def PenDom (p : PenMap) : Prop := ∀ a v, p a = some v → inDomain a v = true

/-- The invariant of the mode life cycle. -/
structure MInv (cfg : Cfg) (s : Sys) (vt : VT) (ph : Phase) (g : Ghost) : Prop where
  ground : vt.ps = .ground
  mouseLe : s.term.drv.mode.mouse ≤ 3
  kz : cfg.keypadRecorded = false → s.term.drv.mode.keypad = 0
  st : ph = .stopped ↔ s.term.state = .unstarted
  shown : ph = .running → Shown s.term.drv.mode vt.modes
  off : ph ≠ .running → Off vt.modes ∧ vt.attrs = Attrs.default
  ghost : GhostOk cfg s.term.drv g
  setup : ∀ top, s.top = some top → g.doneSetup = top.doneSetup
  penDom : PenDom s.term.pen

theorem inDomain_dflt (a : Attr) : inDomain a (dflt a) = true := by
  cases a <;> simp [inDomain, dflt, Attr.kind]

theorem penNext_dom (isSet : Bool) (cur pen : PenMap) (hc : PenDom cur) (hp : penInDomain pen = true) :
    PenDom (penNext isSet cur pen) ∧ PenDom (penDelta isSet cur pen) := by
  have hp' : ∀ a v, pen a = some v → inDomain a v = true := by
    intro a v h
    simp only [penInDomain, List.all_eq_true] at hp
    have := hp a (by cases a <;> simp [Attr.all])
    simpa [h] using this
  have hget : ∀ a, inDomain a (pen.getD a) = true := by
    intro a
    unfold PenMap.getD
    cases h : pen a with
    | none => simpa using inDomain_dflt a
    | some v => simpa using hp' a v h
  constructor
  · intro a v h
    simp only [penNext] at h
    split at h
    · exact hc a v h
    · simp only [Option.some.injEq] at h; subst h; exact hget a
  · intro a v h
    simp only [penDelta] at h
    split at h
    · cases h
    · simp only [Option.some.injEq] at h; subst h; exact hget a


/-! ### libtermkey is running whenever the terminal is, and nothing waits in its buffer -/

/-- Inside the contract replies are only pushed while the terminal runs; then libtermkey (if it exists)
    is started and its buffer holds no earlier reply. -/
structure TkInv (s : Sys) (ph : Phase) : Prop where
  tk : ph = .running → s.term.tk ≠ some false
  pend : s.term.pending = []

theorem Term.reply_running (cfg : Cfg) (t : Term) (r : Reply) (h1 : t.tk ≠ some false) (h2 : t.pending = []) :
    Term.reply cfg t r = { t with drv := applyReply cfg t.drv r, tk := some true, pending := [] } := by
  unfold Term.reply
  have : t.tk.getD true = true := by
    cases h : t.tk with
    | none => rfl
    | some b => cases b; exact absurd h h1; rfl
  rw [if_pos this, h2]; rfl

theorem Term.await_fields (t : Term) (msec : Int) :
    (Term.await t msec).drv = t.drv ∧ (Term.await t msec).pen = t.pen ∧ (Term.await t msec).pending = t.pending ∧
    (Term.await t msec).state = .started ∧ (t.tk ≠ some false → (Term.await t msec).tk ≠ some false) := by
  unfold Term.await
  split
  · rename_i h; exact ⟨rfl, rfl, rfl, h, id⟩
  · refine ⟨rfl, rfl, rfl, rfl, ?_⟩
    intro h
    simp only
    split
    · cases ht : t.tk with
      | none => simp
      | some b => cases b; exact absurd ht h; simp
    · exact h

theorem setupterm_tk (cfg : Cfg) (top : Top) (t : Term) :
    (setupterm cfg top t).2.1.pending = t.pending ∧ (t.tk ≠ some false → (setupterm cfg top t).2.1.tk ≠ some false) := by
  obtain ⟨_, _, h3, _, h5⟩ := Term.await_fields t ModeLayout.setup_await_msec
  unfold setupterm
  simp only [Term.setctl]
  split <;> exact ⟨h3, h5⟩

theorem tk_step (cfg : Cfg) (s : Sys) (ph ph' : Phase) (op : Op) (h : TkInv s ph)
    (hph : phaseNext ph op = some ph') : TkInv (s.step cfg op).sys ph' := by
  obtain ⟨h1, h2⟩ := h
  cases op
  case pause =>
    cases ph <;> simp [phaseNext] at hph
    subst hph
    exact ⟨(fun hc => by cases hc), h2⟩
  case resume =>
    cases ph <;> simp [phaseNext] at hph
    subst hph
    refine ⟨fun _ => ?_, h2⟩
    simp only [Sys.step, Term.resume]
    cases s.term.tk <;> simp
  case teardown =>
    have hph' : ph' = .stopped := by
      cases ph <;> simp [phaseNext] at hph <;> exact hph.symm
    subst hph'
    refine ⟨(fun hc => by cases hc), ?_⟩
    simp only [Sys.step, Term.teardown]
    split <;> exact h2
  case replyMode m v =>
    cases ph <;> simp [phaseNext] at hph
    subst hph
    simp only [Sys.step]
    rw [Term.reply_running cfg _ _ (h1 rfl) h2]
    exact ⟨fun _ => by simp, rfl⟩
  case replyShape v =>
    cases ph <;> simp [phaseNext] at hph
    subst hph
    simp only [Sys.step]
    rw [Term.reply_running cfg _ _ (h1 rfl) h2]
    exact ⟨fun _ => by simp, rfl⟩
  case replySgr c r =>
    cases ph <;> simp [phaseNext] at hph
    subst hph
    simp only [Sys.step]
    rw [Term.reply_running cfg _ _ (h1 rfl) h2]
    exact ⟨fun _ => by simp, rfl⟩
  case await msec =>
    cases ph <;> simp [phaseNext] at hph
    subst hph
    obtain ⟨_, _, e3, _, e5⟩ := Term.await_fields s.term msec
    exact ⟨fun _ => e5 (h1 rfl), by simp only [Sys.step]; rw [e3]; exact h2⟩
  case tick nosetup =>
    cases ph <;> simp [phaseNext] at hph
    subst hph
    simp only [Sys.step]
    cases htop : s.top with
    | none => exact ⟨h1, h2⟩
    | some top =>
      simp only
      split
      · obtain ⟨e1, e2⟩ := setupterm_tk cfg top s.term
        exact ⟨fun _ => e2 (h1 rfl), by simp only; rw [e1]; exact h2⟩
      · exact ⟨h1, h2⟩
  case usealt v =>
    cases ph <;> simp [phaseNext] at hph
    subst hph
    simp only [Sys.step]
    cases htop : s.top <;> exact ⟨h1, h2⟩
  all_goals
    cases ph <;> simp [phaseNext] at hph
    subst hph
    exact ⟨h1, h2⟩

theorem Ghost.set_doneSetup (g : Ghost) (c : Option Ctl) (v : Int) : (g.set c v).doneSetup = g.doneSetup := by
  cases c with
  | none => rfl
  | some c => cases c <;> rfl

theorem Ghost.step_ctl_doneSetup (g : Ghost) (c : Option Ctl) (v : Int) (r : Option Bool) (ua : Option Int) :
    (g.step (.ctl c v) r ua).doneSetup = g.doneSetup := by
  simp only [Ghost.step]; split
  · exact Ghost.set_doneSetup g c v
  · rfl

theorem wrapU_w1 : wrapU 1 1 = 1 := by decide
theorem wrapU_w2 : wrapU 2 1 = 1 := by decide

/-- A mode report, when it is not a late one (or replies are guarded), leaves every recorded value alone
    except an unset blink. -/
theorem onModereport_ok (cfg : Cfg) (d : XDrv) (g : Ghost) (mode value : Int) (hg : GhostOk cfg d g)
    (hnt : (!cfg.repliesGuarded && decide (value = 1) &&
      ((decide (mode = 25) && decide (d.mode.cursorvis = 0)) || (decide (mode = 12) && g.blink == some 0))) = false) :
    GhostOk cfg (onModereport cfg d mode value) g ∧
    (onModereport cfg d mode value).mode.altscreen = d.mode.altscreen ∧
    (onModereport cfg d mode value).mode.cursorvis = d.mode.cursorvis ∧
    (onModereport cfg d mode value).mode.mouse = d.mode.mouse ∧
    (onModereport cfg d mode value).mode.keypad = d.mode.keypad := by
  obtain ⟨h1, h2, h3, h4, h5, h6, h7, h8, h9⟩ := hg
  unfold onModereport
  by_cases hm12 : mode = 12
  · subst hm12
    simp only [if_true]
    by_cases hc : value = 1 ∧ (!cfg.repliesGuarded || decide (d.init.cursorblink = 0)) = true
    · rw [if_pos hc]
      refine ⟨⟨h1, h2, h3, h4, ?_, h6, h7, ⟨h8.1, h8.2.1, h8.2.2.1, by simp [ModeLayout.w_mode_cursorblink, wrapU_w1]⟩, h9⟩, rfl, rfl, rfl, rfl⟩
      intro x hx
      obtain ⟨hx1, hx2⟩ := h5 x hx
      refine ⟨?_, fun _ => by simp [ModeLayout.w_initialised_cursorblink, wrapU_w1]⟩
      simp only [ModeLayout.w_mode_cursorblink, wrapU_w1]
      cases hgd : cfg.repliesGuarded
      · -- unguarded: the trigger excludes a ghost blink of 0
        simp [hgd, hc.1, hx] at hnt
        have : d.mode.cursorblink ≤ 1 := h8.2.2.2
        omega
      · have := hx2 hgd
        simp [hgd, this] at hc
    · rw [if_neg hc]
      refine ⟨⟨h1, h2, h3, h4, ?_, h6, h7, h8, h9⟩, rfl, rfl, rfl, rfl⟩
      intro x hx
      exact ⟨(h5 x hx).1, fun _ => by simp [ModeLayout.w_initialised_cursorblink, wrapU_w1]⟩
  · simp only [hm12, if_false]
    by_cases hm25 : mode = 25
    · subst hm25
      simp only [if_true]
      have hi : ∀ (md : Shadow), GhostOk cfg { d with mode := md, init := { d.init with cursorvis := wrapU ModeLayout.w_initialised_cursorvis 1 } } g
          → md = d.mode → True := fun _ _ _ => trivial
      by_cases hc : value = 1 ∧ (!cfg.repliesGuarded || decide (d.init.cursorvis = 0)) = true
      · rw [if_pos hc]
        have hv1 : d.mode.cursorvis = 1 := by
          have hle : d.mode.cursorvis ≤ 1 := h8.2.1
          by_cases hz : d.mode.cursorvis = 0
          · exfalso
            cases hgd : cfg.repliesGuarded
            · simp [hgd, hc.1, hz] at hnt
            · have := h7 hgd hz
              simp [hgd, this] at hc
          · omega
        have hw : wrapU ModeLayout.w_mode_cursorvis 1 = d.mode.cursorvis := by
          rw [hv1]; simp [ModeLayout.w_mode_cursorvis, wrapU_w1]
        refine ⟨⟨h1, ?_, h3, h4, h5, h6, ?_, ⟨h8.1, ?_, h8.2.2⟩, h9⟩, rfl, ?_, rfl, rfl⟩
        · show g.vis = ((wrapU ModeLayout.w_mode_cursorvis 1 : Nat) : Int); rw [hw]; exact h2
        · intro _ _; simp [ModeLayout.w_initialised_cursorvis, wrapU_w1]
        · show wrapU ModeLayout.w_mode_cursorvis 1 ≤ 1; rw [hw]; exact h8.2.1
        · exact hw
      · rw [if_neg hc]
        refine ⟨⟨h1, h2, h3, h4, h5, h6, ?_, h8, h9⟩, rfl, rfl, rfl, rfl⟩
        intro _ _; simp [ModeLayout.w_initialised_cursorvis, wrapU_w1]
    · simp only [hm25, if_false]
      by_cases hm69 : mode = 69
      · rw [if_pos hm69]
        refine ⟨⟨h1, h2, h3, h4, h5, h6, h7, h8, ?_⟩, rfl, rfl, rfl, rfl⟩
        intro x hx
        obtain ⟨hx1, hx2⟩ := h9 x hx
        refine ⟨?_, hx2⟩
        show x = ((if _ then _ else d.cap : Caps).rgb8 : Int)
        split <;> exact hx1
      · rw [if_neg hm69]
        exact ⟨⟨h1, h2, h3, h4, h5, h6, h7, h8, h9⟩, rfl, rfl, rfl, rfl⟩

theorem setctl_ret (cfg : Cfg) (d : XDrv) (c : Ctl) (v : Int)
    (hc : c = .altscreen ∨ c = .cursorvis ∨ c = .mouse ∨ c = .keypadApp) :
    (setctlInt cfg d (some c) v).2.2 = true := by
  rcases hc with rfl | rfl | rfl | rfl <;> (unfold setctlInt; simp only; split <;> rfl)

/-- One `setctl_int` of the four `setupterm` makes, on terminal, shadow and ghost at once. -/
theorem setctl_all (cfg : Cfg) (hrec : cfg.keypadRecorded = true) (d : XDrv) (g : Ghost) (c : Ctl) (v : Int)
    (m : VModes) (A : Attrs)
    (hc : c = .altscreen ∨ c = .cursorvis ∨ c = .mouse ∨ c = .keypadApp)
    (hv : c = .mouse → 0 ≤ v ∧ v ≤ 3)
    (hsh : Shown d.mode m) (hml : d.mode.mouse ≤ 3) (hgh : GhostOk cfg d g) :
    ∃ m', VT.feed ⟨.ground, m, A⟩ (setctlInt cfg d (some c) v).2.1 = ⟨.ground, m', A⟩ ∧
      Shown (setctlInt cfg d (some c) v).1.mode m' ∧ (setctlInt cfg d (some c) v).1.mode.mouse ≤ 3 ∧
      GhostOk cfg (setctlInt cfg d (some c) v).1 (g.set (some c) v) := by
  have hkz : cfg.keypadRecorded = false → d.mode.keypad = 0 := by simp [hrec]
  have hmouse : some c = some Ctl.mouse → 0 ≤ v ∧ v ≤ 3 := fun h => hv (by simpa using h)
  have hkp : some c = some Ctl.keypadApp → cfg.keypadRecorded = true ∨ v = 0 := fun _ => Or.inl hrec
  obtain ⟨m', hf, hs', hm', _⟩ := setctl_shown cfg d (some c) v m A hsh hml hkz hmouse hkp
  have hg' := setctl_ghost cfg d g (some c) v hgh hkz hmouse hkp
  rw [setctl_ret cfg d c v hc] at hg'
  exact ⟨m', hf, hs', hm', by simpa using hg'⟩

theorem setupterm_inv (cfg : Cfg) (hrec : cfg.keypadRecorded = true) (top : Top) (t : Term) (g : Ghost)
    (m : VModes) (A : Attrs) (hsh : Shown t.drv.mode m) (hml : t.drv.mode.mouse ≤ 3) (hgh : GhostOk cfg t.drv g) :
    ∃ m', VT.feed ⟨.ground, m, A⟩ (setupterm cfg top t).2.2 = ⟨.ground, m', A⟩ ∧
      Shown (setupterm cfg top t).2.1.drv.mode m' ∧ (setupterm cfg top t).2.1.drv.mode.mouse ≤ 3 ∧
      GhostOk cfg (setupterm cfg top t).2.1.drv
        { g with doneSetup := true, alt := if (top.useAlt : Int) ≠ 0 then 1 else g.alt, vis := 0, mouse := 2, keypad := 1 } ∧
      (setupterm cfg top t).2.1.state = .started ∧ (setupterm cfg top t).2.1.pen = t.pen ∧
      (setupterm cfg top t).1 = { top with doneSetup := true } := by
  obtain ⟨e1, e2, _, e4, _⟩ := Term.await_fields t ModeLayout.setup_await_msec
  unfold setupterm
  simp only [Term.setctl]
  generalize Term.await t ModeLayout.setup_await_msec = t0 at e1 e2 e4 ⊢
  rw [← e1] at hsh hml hgh
  -- first control: the alternate screen, if wanted
  by_cases hua : top.useAlt ≠ 0
  · simp only [if_pos hua]
    obtain ⟨m1, f1, s1, l1, g1⟩ := setctl_all cfg hrec t0.drv g .altscreen 1 m A (by simp) (by simp) hsh hml hgh
    obtain ⟨m2, f2, s2, l2, g2⟩ := setctl_all cfg hrec _ _ .cursorvis 0 m1 A (by simp) (by simp) s1 l1 g1
    obtain ⟨m3, f3, s3, l3, g3⟩ := setctl_all cfg hrec _ _ .mouse 2 m2 A (by simp) (by simp) s2 l2 g2
    obtain ⟨m4, f4, s4, l4, g4⟩ := setctl_all cfg hrec _ _ .keypadApp 1 m3 A (by simp) (by simp) s3 l3 g3
    refine ⟨m4, ?_, s4, l4, ?_, e4, e2, ?_⟩ <;> try (first | rfl | trivial)
    · rw [feed_append, feed_append, feed_append, feed_append, f1, f2, f3, f4, feed_clearScreen]
    · have hua' : (top.useAlt : Int) ≠ 0 := by omega
      obtain ⟨a1, a2, a3, a4, a5, a6, a7, a8, a9⟩ := g4
      exact ⟨by simpa [Ghost.set, bool01, hua', hua] using a1, by simpa [Ghost.set, bool01] using a2, by simpa [Ghost.set] using a3,
        by simpa [Ghost.set, bool01] using a4, by simpa [Ghost.set] using a5, by simpa [Ghost.set] using a6, a7, a8,
        by simpa [Ghost.set] using a9⟩
  · simp only [if_neg hua]
    obtain ⟨m2, f2, s2, l2, g2⟩ := setctl_all cfg hrec t0.drv g .cursorvis 0 m A (by simp) (by simp) hsh hml hgh
    obtain ⟨m3, f3, s3, l3, g3⟩ := setctl_all cfg hrec _ _ .mouse 2 m2 A (by simp) (by simp) s2 l2 g2
    obtain ⟨m4, f4, s4, l4, g4⟩ := setctl_all cfg hrec _ _ .keypadApp 1 m3 A (by simp) (by simp) s3 l3 g3
    refine ⟨m4, ?_, s4, l4, ?_, e4, e2, ?_⟩ <;> try (first | rfl | trivial)
    · rw [feed_append, feed_append, feed_append, feed_append, feed_nil, f2, f3, f4, feed_clearScreen]
    · have hua' : ¬ (top.useAlt : Int) ≠ 0 := by omega
      obtain ⟨a1, a2, a3, a4, a5, a6, a7, a8, a9⟩ := g4
      exact ⟨by simpa [Ghost.set, bool01, hua', hua] using a1, by simpa [Ghost.set, bool01] using a2, by simpa [Ghost.set] using a3,
        by simpa [Ghost.set, bool01] using a4, by simpa [Ghost.set] using a5, by simpa [Ghost.set] using a6, a7, a8,
        by simpa [Ghost.set] using a9⟩

theorem step_inv (cfg : Cfg) (s : Sys) (vt : VT) (ph ph' : Phase) (g : Ghost) (op : Op)
    (h : MInv cfg s vt ph g) (htk : TkInv s ph) (hok : opOk op = true) (hph : phaseNext ph op = some ph')
    (hnt : trigger cfg s g op = false) :
    MInv cfg (s.step cfg op).sys (VT.feed vt (s.step cfg op).out) ph' (g.step op (s.step cfg op).ret s.ua) := by
  obtain ⟨ps, m, A⟩ := vt
  obtain ⟨hgr, hml, hkz, hst, hsh, hoff, hgh, hsu, hpd⟩ := h
  simp only at hgr; subst hgr
  cases op with
  | ctl c v =>
    cases ph <;> simp [phaseNext] at hph
    subst hph
    have hmouse : c = some .mouse → 0 ≤ v ∧ v ≤ 3 := by
      intro hc; subst hc; simpa [opOk] using hok
    have hkp : c = some .keypadApp → cfg.keypadRecorded = true ∨ v = 0 := by
      intro hc; subst hc
      simp only [trigger, Bool.and_eq_false_iff, Bool.not_eq_false', decide_eq_false_iff_not, ne_eq, Decidable.not_not] at hnt
      exact hnt
    obtain ⟨m', hf, hs', hm', hk'⟩ := setctl_shown cfg s.term.drv c v m A (hsh rfl) hml hkz hmouse hkp
    have hg' := setctl_ghost cfg s.term.drv g c v hgh hkz hmouse hkp
    simp only [Sys.step, Term.setctl]
    rw [hf]
    refine ⟨rfl, hm', hk', ?_, fun _ => hs', fun hne => absurd rfl hne, ?_, ?_, hpd⟩
    · simpa using hst
    · simpa [Ghost.step] using hg'
    · intro top ht; rw [Ghost.step_ctl_doneSetup]; exact hsu top ht
  | setstr c payload =>
    cases ph <;> simp [phaseNext] at hph
    subst hph
    have htxt : textOnly payload = true := by simpa [opOk] using hok
    have hf : VT.feed ⟨.ground, m, A⟩ (setctlStr c payload).1 = ⟨.ground, m, A⟩ := by
      cases c with
      | none => rfl
      | some c => cases c <;> first | rfl | exact feed_osc m A _ payload htxt (by decide)
    simp only [Sys.step]
    rw [hf]
    exact ⟨rfl, hml, hkz, hst, hsh, hoff, hgh, hsu, hpd⟩
  | setpen p =>
    cases ph <;> simp [phaseNext] at hph
    subst hph
    have hp : penInDomain p = true := by simpa [opOk] using hok
    obtain ⟨hd1, hd2⟩ := penNext_dom true s.term.pen p hpd hp
    simp only [Sys.step, Term.putpen]
    rw [feed_drvChpen _ _ _ _ _ _ hd2]
    exact ⟨rfl, hml, hkz, hst, hsh, fun hne => absurd rfl hne, ⟨hgh.alt, hgh.vis, hgh.mouse, hgh.keypad, hgh.blink, hgh.shape, hgh.visInit, hgh.le1, hgh.rgb8⟩, hsu, hd1⟩
  | chpen p =>
    cases ph <;> simp [phaseNext] at hph
    subst hph
    have hp : penInDomain p = true := by simpa [opOk] using hok
    obtain ⟨hd1, hd2⟩ := penNext_dom false s.term.pen p hpd hp
    simp only [Sys.step, Term.putpen]
    rw [feed_drvChpen _ _ _ _ _ _ hd2]
    exact ⟨rfl, hml, hkz, hst, hsh, fun hne => absurd rfl hne, ⟨hgh.alt, hgh.vis, hgh.mouse, hgh.keypad, hgh.blink, hgh.shape, hgh.visInit, hgh.le1, hgh.rgb8⟩, hsu, hd1⟩
  | print bytes =>
    cases ph <;> simp [phaseNext] at hph
    subst hph
    have htxt : textOnly bytes = true := by simpa [opOk] using hok
    simp only [Sys.step]
    rw [feed_text_ground m A bytes htxt]
    exact ⟨rfl, hml, hkz, hst, hsh, hoff, hgh, hsu, hpd⟩
  | clear =>
    cases ph <;> simp [phaseNext] at hph
    subst hph
    simp only [Sys.step]
    rw [feed_clearScreen]
    exact ⟨rfl, hml, hkz, hst, hsh, hoff, hgh, hsu, hpd⟩
  | flush =>
    cases ph <;> simp [phaseNext] at hph
    subst hph
    exact ⟨rfl, hml, hkz, hst, hsh, hoff, hgh, hsu, hpd⟩
  | await msec =>
    cases ph <;> simp [phaseNext] at hph
    subst hph
    obtain ⟨e1, e2, _, e4, _⟩ := Term.await_fields s.term msec
    simp only [Sys.step, feed_nil]
    refine ⟨rfl, by rw [e1]; exact hml, by rw [e1]; exact hkz, by simp [e4], fun _ => by rw [e1]; exact hsh rfl,
      fun hne => absurd rfl hne, by rw [e1]; exact hgh, hsu, by rw [e2]; exact hpd⟩
  | replyMode mode value =>
    cases ph <;> simp [phaseNext] at hph
    subst hph
    have hnt' : (!cfg.repliesGuarded && decide (value = 1) &&
      ((decide (mode = 25) && decide (s.term.drv.mode.cursorvis = 0)) || (decide (mode = 12) && g.blink == some 0))) = false := by
      simpa [trigger] using hnt
    obtain ⟨hg', e1, e2, e3, e4⟩ := onModereport_ok cfg s.term.drv g mode value hgh hnt'
    have hs := hsh rfl
    simp only [Sys.step, feed_nil]
    rw [Term.reply_running cfg _ _ (htk.tk rfl) htk.pend]
    refine ⟨rfl, ?_, ?_, ?_, fun _ => ⟨?_, ?_, ?_, ?_, ?_⟩, fun hne => absurd rfl hne, hg', hsu, hpd⟩
    · show (onModereport cfg s.term.drv mode value).mode.mouse ≤ 3; rw [e3]; exact hml
    · intro hk; show (onModereport cfg s.term.drv mode value).mode.keypad = 0; rw [e4]; exact hkz hk
    · simpa using hst
    · show m.altscreen = decide ((onModereport cfg s.term.drv mode value).mode.altscreen ≠ 0); rw [e1]; exact hs.alt
    · show m.cursorVisible = decide ((onModereport cfg s.term.drv mode value).mode.cursorvis ≠ 0); rw [e2]; exact hs.vis
    · show (m.mouse : Int) = modeForMouse (onModereport cfg s.term.drv mode value).mode.mouse; rw [e3]; exact hs.mouse
    · show m.sgrMouse = decide ((onModereport cfg s.term.drv mode value).mode.mouse ≠ 0); rw [e3]; exact hs.sgr
    · show m.keypadApp = decide ((onModereport cfg s.term.drv mode value).mode.keypad ≠ 0); rw [e4]; exact hs.keypad
  | replyShape value =>
    cases ph <;> simp [phaseNext] at hph
    subst hph
    have hs := hsh rfl
    simp only [Sys.step, feed_nil]
    rw [Term.reply_running cfg _ _ (htk.tk rfl) htk.pend]
    refine ⟨rfl, hml, hkz, ?_, fun _ => ⟨hs.alt, hs.vis, hs.mouse, hs.sgr, hs.keypad⟩, fun hne => absurd rfl hne, ?_, hsu, hpd⟩
    · simpa using hst
    · refine ⟨hgh.alt, hgh.vis, hgh.mouse, hgh.keypad, hgh.blink, ?_, hgh.visInit, hgh.le1, hgh.rgb8⟩
      intro x hx
      have hx : g.shape = some x := hx
      obtain ⟨hx1, hx2⟩ := hgh.shape x hx
      cases hgd : cfg.repliesGuarded
      · simp [trigger, hgd, hx] at hnt
      · have hi := hx2 hgd
        refine ⟨?_, fun _ => by simp [applyReply, onDecrqssShape, ModeLayout.w_initialised_cursorshape, wrapU_w2]⟩
        simp only [applyReply, onDecrqssShape, hgd, true_and]
        rw [if_pos hi]; exact hx1
  | replySgr colon rgb =>
    cases ph <;> simp [phaseNext] at hph
    subst hph
    have hs := hsh rfl
    simp only [Sys.step, feed_nil]
    rw [Term.reply_running cfg _ _ (htk.tk rfl) htk.pend]
    refine ⟨rfl, hml, hkz, ?_, fun _ => ⟨hs.alt, hs.vis, hs.mouse, hs.sgr, hs.keypad⟩, fun hne => absurd rfl hne, ?_, hsu, hpd⟩
    · simpa using hst
    · refine ⟨hgh.alt, hgh.vis, hgh.mouse, hgh.keypad, hgh.blink, hgh.shape, hgh.visInit, hgh.le1, ?_⟩
      intro x hx
      have hx : g.rgb8 = some x := hx
      obtain ⟨hx1, hx01, hx2⟩ := hgh.rgb8 x hx
      refine ⟨?_, hx01, hx2⟩
      show x = ((onDecrqssSgr cfg s.term.drv colon rgb).cap.rgb8 : Int)
      simp only [onDecrqssSgr]
      split
      · rename_i hc
        cases hgd : cfg.rgb8Guarded
        · -- unguarded: the trigger excludes a forced "off"
          have hr : rgb = true := hc.1
          simp only [trigger, hgd, hr, hx, Bool.not_false, Bool.true_and, beq_eq_false_iff_ne, ne_eq, Option.some.injEq] at hnt
          rcases hx01 with h0 | h1
          · exact absurd h0 hnt
          · rw [h1]; simp [ModeLayout.w_cap_rgb8, wrapU_w1]
        · have := hx2 hgd
          simp [hgd, this] at hc
      · exact hx1
  | pause =>
    cases ph <;> simp [phaseNext] at hph
    subst hph
    obtain ⟨m', hf, ho⟩ := teardown_off s.term.drv m A hml (Or.inl (hsh rfl))
    simp only [Sys.step, Term.pause]
    rw [hf]
    refine ⟨rfl, hml, hkz, ?_, (fun hc => by cases hc), fun _ => ⟨ho, rfl⟩, hgh, hsu, hpd⟩
    have : s.term.state ≠ .unstarted := fun hc => by simpa using hst.2 hc
    simp [this]
  | resume =>
    cases ph <;> simp [phaseNext] at hph
    subst hph
    obtain ⟨ho, ha⟩ := hoff (by simp)
    obtain ⟨m', hf, hs'⟩ := resume_shown s.term.drv m A hml ho
    simp only [Sys.step, Term.resume]
    rw [feed_append, hf]
    have hst' : (Phase.running = Phase.stopped ↔ s.term.state = TState.unstarted) := by
      have : s.term.state ≠ .unstarted := fun hc => by simpa using hst.2 hc
      simp [this]
    split
    · rw [feed_drvChpen _ _ _ _ _ _ hpd]
      exact ⟨rfl, hml, hkz, hst', fun _ => hs', fun hne => absurd rfl hne, hgh, hsu, hpd⟩
    · exact ⟨rfl, hml, hkz, hst', fun _ => hs', fun hne => absurd rfl hne, hgh, hsu, hpd⟩
  | teardown =>
    have hns : s.term.state ≠ .unstarted := by
      intro hc
      have := hst.2 hc
      subst this
      simp [phaseNext] at hph
    have hsrc : Shown s.term.drv.mode m ∨ Off m := by
      cases ph
      · exact Or.inl (hsh rfl)
      · exact Or.inr (hoff (by simp)).1
      · simp [phaseNext] at hph
    have hph' : ph' = .stopped := by
      cases ph <;> simp [phaseNext] at hph <;> exact hph.symm
    subst hph'
    obtain ⟨m', hf, ho⟩ := teardown_off s.term.drv m A hml hsrc
    simp only [Sys.step, Term.teardown, if_pos hns]
    rw [hf]
    exact ⟨rfl, hml, hkz, by simp, (fun hc => by cases hc), fun _ => ⟨ho, rfl⟩, hgh, hsu, hpd⟩
  | usealt v =>
    cases ph <;> simp [phaseNext] at hph
    subst hph
    simp only [Sys.step]
    cases htop : s.top with
    | none =>
      simp only
      exact ⟨rfl, hml, hkz, hst, hsh, hoff, hgh, fun top ht => hsu top (by rw [htop] at ht; cases ht), hpd⟩
    | some top =>
      simp only
      refine ⟨rfl, hml, hkz, hst, hsh, hoff, hgh, ?_, hpd⟩
      intro top' ht
      simp only [Option.some.injEq] at ht
      subst ht
      exact hsu top htop
  | tick nosetup =>
    cases ph <;> simp [phaseNext] at hph
    subst hph
    simp only [Sys.step]
    cases htop : s.top with
    | none =>
      simp only [Sys.ua, htop, Option.map_none, Ghost.step]
      exact ⟨rfl, hml, hkz, hst, hsh, hoff, hgh, fun top ht => hsu top (by rw [htop] at ht; cases ht), hpd⟩
    | some top =>
      have hds := hsu top htop
      simp only [Sys.ua, htop, Option.map_some, Ghost.step, hds]
      by_cases hcond : (!top.doneSetup && !nosetup) = true
      · rw [if_pos hcond, if_pos hcond]
        have hrec : cfg.keypadRecorded = true := by
          cases hr : cfg.keypadRecorded
          · simp only [Bool.and_eq_true, Bool.not_eq_true'] at hcond
            simp [trigger, hr, htop, hcond.1, hcond.2] at hnt
          · rfl
        obtain ⟨m', hf, hs', hm', hg', hstate, hpen, htop'⟩ := setupterm_inv cfg hrec top s.term g m A (hsh rfl) hml hgh
        simp only
        rw [hf]
        refine ⟨rfl, hm', by simp [hrec], ?_, fun _ => hs', fun hne => absurd rfl hne, hg', ?_, ?_⟩
        · simp [hstate]
        · intro top2 ht2
          simp only [Option.some.injEq] at ht2
          rw [← ht2, htop']
        · rw [hpen]; exact hpd
      · rw [if_neg hcond, if_neg hcond]
        simp only
        exact ⟨rfl, hml, hkz, hst, hsh, hoff, hgh, fun top' ht => by rw [htop] at ht; cases ht; exact hds, hpd⟩


/-! ### histories -/

/-- Ghost after a history (run along the model, which supplies return values and the toplevel's
    `use_altscreen`). -/
def ghostRun (cfg : Cfg) : Sys → Ghost → List Op → Ghost
  | _, g, [] => g
  | s, g, op :: rest => ghostRun cfg (s.step cfg op).sys (g.step op (s.step cfg op).ret s.ua) rest

/-- No operation of the history triggers one of the three recorded defects. -/
def noTrigger (cfg : Cfg) : Sys → Ghost → List Op → Bool
  | _, _, [] => true
  | s, g, op :: rest =>
    !trigger cfg s g op && noTrigger cfg (s.step cfg op).sys (g.step op (s.step cfg op).ret s.ua) rest

theorem run_inv (cfg : Cfg) : ∀ (ops : List Op) (s : Sys) (vt : VT) (ph ph' : Phase) (g : Ghost),
    MInv cfg s vt ph g → TkInv s ph → validFrom ph ops = some ph' → noTrigger cfg s g ops = true →
    MInv cfg (Sys.run cfg s ops).1 (VT.feed vt (Sys.run cfg s ops).2) ph' (ghostRun cfg s g ops)
  | [], s, vt, ph, ph', g, h, _, hv, _ => by
    simp only [validFrom, Option.some.injEq] at hv
    subst hv
    simpa [Sys.run, ghostRun] using h
  | op :: rest, s, vt, ph, ph', g, h, htk, hv, hnt => by
    simp only [validFrom] at hv
    split at hv
    · rename_i hok
      cases hp : phaseNext ph op with
      | none => simp [hp] at hv
      | some ph1 =>
        simp only [hp, Option.bind_some] at hv
        simp only [noTrigger, Bool.and_eq_true, Bool.not_eq_true'] at hnt
        have h1 := step_inv cfg s vt ph ph1 g op h htk hok hp hnt.1
        have h2 := run_inv cfg rest _ _ ph1 ph' _ h1 (tk_step cfg s ph ph1 op htk hp) hv hnt.2
        simpa [Sys.run, ghostRun, feed_append] using h2
    · cases hv

/-! ### from the invariant to the specification's predicates -/

theorem off_of_standard (m0 : VModes) (h : m0.standard = true) : Off m0 := by
  simp only [VModes.standard, Bool.and_eq_true, Bool.not_eq_true', beq_iff_eq] at h
  exact ⟨h.1.1.1.1, h.1.1.1.2, h.1.1.2, h.1.2, h.2⟩

/-- The invariant holds when the terminal has been built. -/
theorem build_inv (cfg : Cfg) (toplevel : Bool) (m0 : VModes) (h : m0.standard = true) :
    MInv cfg (Sys.build toplevel).1 (VT.feed ⟨.ground, m0, Attrs.default⟩ (Sys.build toplevel).2) .running {} := by
  obtain ⟨h1, h2, h3, h4, h5⟩ := off_of_standard m0 h
  simp only [Sys.build, Term.build]
  rw [feed_startBytes]
  refine ⟨rfl, Nat.zero_le 3, fun _ => rfl, by simp, fun _ => ⟨?_, ?_, ?_, ?_, ?_⟩, fun hne => absurd rfl hne, ?_, ?_, ?_⟩
  · simpa using h1
  · simpa using h2
  · simp [h3, modeForMouse]
  · simpa using h4
  · simpa using h5
  · exact ⟨rfl, rfl, rfl, rfl, (fun _ hx => by cases hx), (fun _ hx => by cases hx), (fun _ hz => by cases hz), ⟨Nat.zero_le 1, Nat.le_refl 1, Nat.zero_le 1, Nat.zero_le 1⟩, (fun _ hx => by cases hx)⟩
  · intro top ht
    cases toplevel <;> simp at ht
    subst ht; rfl
  · intro a v hx; cases hx

theorem modesShown_of (cfg : Cfg) (d : XDrv) (g : Ghost) (m : VModes) (hs : Shown d.mode m) (hg : GhostOk cfg d g) :
    modesShown m g = true := by
  obtain ⟨a1, a2, a3, a4, a5⟩ := hs
  obtain ⟨g1, g2, g3, g4, _, _, _, _, _⟩ := hg
  simp only [modesShown, Bool.and_eq_true, beq_iff_eq, decide_eq_true_eq]
  refine ⟨⟨⟨⟨?_, ?_⟩, ?_⟩, ?_⟩, ?_⟩
  · rw [a1, g1]; simp
  · rw [a2, g2]; simp
  · rw [a3, g3]
  · rw [a4, g3]; simp
  · rw [a5, g4]; simp

theorem getctlOk_of (cfg : Cfg) (d : XDrv) (g : Ghost) (hg : GhostOk cfg d g) : getctlOk d g = true := by
  obtain ⟨g1, g2, g3, g4, g5, g6, _, _, g9⟩ := hg
  simp only [getctlOk, getctlInt, Bool.and_eq_true, beq_iff_eq, Bool.or_eq_true, Option.isNone_iff_eq_none]
  refine ⟨⟨⟨⟨⟨⟨?_, ?_⟩, ?_⟩, ?_⟩, ?_⟩, ?_⟩, ?_⟩
  · rw [g1]
  · rw [g2]
  · rw [g3]
  · rw [g4]
  · cases hb : g.blink with
    | none => left; rfl
    | some x => right; rw [(g5 x hb).1]
  · cases hb : g.shape with
    | none => left; rfl
    | some x => right; rw [(g6 x hb).1]
  · cases hb : g.rgb8 with
    | none => left; rfl
    | some x => right; rw [(g9 x hb).1]

theorem restoredOk_of (vt : VT) (m0 : VModes) (h0 : Off m0) (h : Off vt.modes) (ha : vt.attrs = Attrs.default) :
    restoredOk vt m0 = true := by
  obtain ⟨a1, a2, a3, a4, a5⟩ := h
  obtain ⟨b1, b2, b3, b4, b5⟩ := h0
  simp only [restoredOk, Bool.and_eq_true, beq_iff_eq, List.all_eq_true]
  refine ⟨⟨⟨⟨⟨?_, ?_⟩, ?_⟩, ?_⟩, ?_⟩, ?_⟩
  · rw [a1, b1]
  · rw [a2, b2]
  · rw [a3, b3]
  · rw [a4, b4]
  · rw [a5, b5]
  · intro k _; rw [ha]; rfl

/-- Destruction from any phase leaves the terminal in its initial modes. -/
theorem destroy_off (cfg : Cfg) (s : Sys) (vt : VT) (ph : Phase) (g : Ghost) (h : MInv cfg s vt ph g) :
    Off (VT.feed vt s.destroy).modes ∧ (VT.feed vt s.destroy).attrs = Attrs.default := by
  obtain ⟨ps, m, A⟩ := vt
  obtain ⟨hgr, hml, hkz, hst, hsh, hoff, hgh, hsu, hpd⟩ := h
  simp only at hgr; subst hgr
  unfold Sys.destroy
  by_cases hs : s.term.state = .unstarted
  · have hph := hst.2 hs
    subst hph
    simp only [Term.teardown, hs, ne_eq, not_true_eq_false, if_false, List.append_nil, feed_nil]
    exact hoff (by simp)
  · have hsrc : Shown s.term.drv.mode m ∨ Off m := by
      cases ph
      · exact Or.inl (hsh rfl)
      · exact Or.inr (hoff (by simp)).1
      · exact absurd (hst.1 rfl) hs
    obtain ⟨m', hf, ho⟩ := teardown_off s.term.drv m A hml hsrc
    simp only [Term.teardown, ne_eq, hs, not_false_eq_true, if_true, not_true_eq_false, if_false, List.append_nil]
    rw [hf]
    exact ⟨ho, rfl⟩


/-! ### SGR: the meaning of `chpen`'s parameters on the terminal -/

/-- The parameter groups of a parameter list, as a function of the list alone. -/
def toGroups (colon : Bool) : List Param → List PGroup
  | [] => []
  | p :: rest =>
    if p.sub && colon then
      match toGroups colon rest with
      | g :: gs => (some p.val.toNat :: g) :: gs
      | [] => [[some p.val.toNat]]
    else [some p.val.toNat] :: toGroups colon rest

/-- Put finished sub-parameters in front of the first group. -/
def attach (g : PGroup) : List PGroup → List PGroup
  | [] => [g]
  | h :: t => (g ++ h) :: t

theorem toGroups_ne_nil (colon : Bool) : ∀ (ps : List Param), ps ≠ [] → toGroups colon ps ≠ []
  | [], h => absurd rfl h
  | p :: rest, _ => by
    simp only [toGroups]
    split
    · split <;> simp
    · simp

theorem groupsAcc_eq (colon : Bool) : ∀ (ps : List Param) (gs : List PGroup) (g : PGroup), ps ≠ [] →
    groupsAcc colon gs g ps = gs ++ attach g (toGroups colon ps)
  | [], _, _, h => absurd rfl h
  | [p], gs, g, _ => by
    simp only [groupsAcc, toGroups]
    split <;> simp [attach]
  | p :: q :: rest, gs, g, _ => by
    have ih1 := groupsAcc_eq colon (q :: rest) gs (g ++ [some p.val.toNat]) (by simp)
    have ih2 := groupsAcc_eq colon (q :: rest) (gs ++ [g ++ [some p.val.toNat]]) [] (by simp)
    have hne := toGroups_ne_nil colon (q :: rest) (by simp)
    have e := toGroups.eq_2 colon p (q :: rest)
    rw [groupsAcc, e]
    by_cases hs : (p.sub && colon) = true
    · rw [if_pos hs, if_pos hs, ih1]
      cases htg : toGroups colon (q :: rest) with
      | nil => exact absurd htg hne
      | cons h t => simp [attach]
    · rw [if_neg hs, if_neg hs, ih2]
      cases htg : toGroups colon (q :: rest) with
      | nil => exact absurd htg hne
      | cons h t => simp [attach]

/-- Chunks whose last parameter is not marked "more sub-parameters" are tokenized independently. -/
theorem toGroups_append (colon : Bool) : ∀ (as bs : List Param),
    (∀ p, as.getLast? = some p → p.sub = false) → toGroups colon (as ++ bs) = toGroups colon as ++ toGroups colon bs
  | [], bs, _ => rfl
  | [p], bs, h => by
    have hp := h p rfl
    simp [toGroups, hp]
  | p :: q :: rest, bs, h => by
    have ih := toGroups_append colon (q :: rest) bs (fun x hx => h x (by simpa [List.getLast?_cons_cons] using hx))
    have e1 := toGroups.eq_2 colon p (q :: rest ++ bs)
    have e2 := toGroups.eq_2 colon p (q :: rest)
    simp only [List.cons_append] at ih e1 ⊢
    rw [e1, e2, ih]
    have hne := toGroups_ne_nil colon (q :: rest) (by simp)
    cases htg : toGroups colon (q :: rest) with
    | nil => exact absurd htg hne
    | cons hd t => split <;> simp

theorem fg_chunk (colon : Bool) (v : Int) (more : List PGroup) (A : Attrs) (h : -1 ≤ v ∧ v ≤ 255) :
    sgrRun (toGroups colon (paletteParams 30 39 v) ++ more) A = sgrRun more (A.set .fg v) := by
  have hv : v = -1 ∨ v = 0 ∨ v = 1 ∨ v = 2 ∨ v = 3 ∨ v = 4 ∨ v = 5 ∨ v = 6 ∨ v = 7 ∨ v = 8 ∨ v = 9 ∨ v = 10 ∨
      v = 11 ∨ v = 12 ∨ v = 13 ∨ v = 14 ∨ v = 15 ∨ 16 ≤ v := by omega
  rcases hv with rfl | rfl | rfl | rfl | rfl | rfl | rfl | rfl | rfl | rfl | rfl | rfl | rfl | rfl | rfl | rfl | rfl | hv
  iterate 17 (cases colon <;> simp [paletteParams, toGroups, sgrRun, sgrSingle, pv])
  have e : paletteParams 30 39 v = [⟨38, true⟩, ⟨5, true⟩, ⟨v, false⟩] := by
    unfold paletteParams; rw [if_neg (by omega), if_neg (by omega), if_neg (by omega)]; rfl
  have hcast : ((v.toNat : Nat) : Int) = v := by omega
  rw [e]
  cases colon
  · simp [toGroups, sgrRun, pv, hcast]
  · simp [toGroups, sgrRun, pv, colourOfSubs, hcast]

theorem bg_chunk (colon : Bool) (v : Int) (more : List PGroup) (A : Attrs) (h : -1 ≤ v ∧ v ≤ 255) :
    sgrRun (toGroups colon (paletteParams 40 49 v) ++ more) A = sgrRun more (A.set .bg v) := by
  have hv : v = -1 ∨ v = 0 ∨ v = 1 ∨ v = 2 ∨ v = 3 ∨ v = 4 ∨ v = 5 ∨ v = 6 ∨ v = 7 ∨ v = 8 ∨ v = 9 ∨ v = 10 ∨
      v = 11 ∨ v = 12 ∨ v = 13 ∨ v = 14 ∨ v = 15 ∨ 16 ≤ v := by omega
  rcases hv with rfl | rfl | rfl | rfl | rfl | rfl | rfl | rfl | rfl | rfl | rfl | rfl | rfl | rfl | rfl | rfl | rfl | hv
  iterate 17 (cases colon <;> simp [paletteParams, toGroups, sgrRun, sgrSingle, pv])
  have e : paletteParams 40 49 v = [⟨48, true⟩, ⟨5, true⟩, ⟨v, false⟩] := by
    unfold paletteParams; rw [if_neg (by omega), if_neg (by omega), if_neg (by omega)]; rfl
  have hcast : ((v.toNat : Nat) : Int) = v := by omega
  rw [e]
  cases colon
  · simp [toGroups, sgrRun, pv, hcast]
  · simp [toGroups, sgrRun, pv, colourOfSubs, hcast]

/-- The 24-bit form `38;2;r;g;b` / `38:2:r:g:b`, read by the terminal. -/
theorem fg_rgb_chunk (colon : Bool) (r g b : Int) (more : List PGroup) (A : Attrs) :
    sgrRun (toGroups colon [⟨38, true⟩, ⟨2, true⟩, ⟨r, true⟩, ⟨g, true⟩, ⟨b, false⟩] ++ more) A =
      sgrRun more (A.set .fg (rgbCode r.toNat g.toNat b.toNat)) := by
  cases colon
  · simp [toGroups, sgrRun, pv]
  · simp [toGroups, sgrRun, pv, colourOfSubs]

theorem bg_rgb_chunk (colon : Bool) (r g b : Int) (more : List PGroup) (A : Attrs) :
    sgrRun (toGroups colon [⟨48, true⟩, ⟨2, true⟩, ⟨r, true⟩, ⟨g, true⟩, ⟨b, false⟩] ++ more) A =
      sgrRun more (A.set .bg (rgbCode r.toNat g.toNat b.toNat)) := by
  cases colon
  · simp [toGroups, sgrRun, pv]
  · simp [toGroups, sgrRun, pv, colourOfSubs]

/-- The colour arm in two cases: the RGB8 form, or the palette form of the index. -/
theorem colourParams_cases (rgb8 : Bool) (on off v : Int) :
    colourParams rgb8 on off v =
      if 0 ≤ colIndex v ∧ (rgb8 && hasRgb v) = true then
        [⟨on + 8, true⟩, ⟨2, true⟩, ⟨colR v, true⟩, ⟨colG v, true⟩, ⟨colB v, false⟩]
      else paletteParams on off (colIndex v) := by
  unfold colourParams
  by_cases h0 : colIndex v < 0
  · rw [if_pos h0, if_neg (by omega)]
    unfold paletteParams; rw [if_pos h0]
  · rw [if_neg h0]
    by_cases h1 : (rgb8 && hasRgb v) = true
    · rw [if_pos h1, if_pos ⟨by omega, h1⟩]
    · rw [if_neg h1, if_neg (fun hc => h1 hc.2)]

theorem sem_colour (rgb8 : Bool) (a : Attr) (ha : a = .fg ∨ a = .bg) (v : Int) (h : ColDom v) :
    sem rgb8 a v = if 0 ≤ colIndex v ∧ (rgb8 && hasRgb v) = true then rgbCode (colR v).toNat (colG v).toNat (colB v).toNat
      else colIndex v := by
  have hr := colIndex_range v h
  rcases ha with rfl | rfl <;> simp only [sem]
  all_goals
    by_cases h0 : colIndex v < 0
    · rw [if_pos h0, if_neg (by omega)]; omega
    · rw [if_neg h0]
      by_cases h1 : (rgb8 && hasRgb v) = true
      · rw [if_pos h1, if_pos ⟨by omega, h1⟩]
      · rw [if_neg h1, if_neg (fun hc => h1 hc.2)]

/-- One attribute's parameters, read by the terminal: the attribute takes the pen's value. -/
theorem chunk_sem (colon rgb8 : Bool) (a : Attr) (v : Int) (h : inDomain a v = true) (more : List PGroup) (A : Attrs) :
    sgrRun (toGroups colon (attrParams rgb8 a v) ++ more) A = sgrRun more (A.set a (sem rgb8 a v)) := by
  cases a <;> simp only [inDomain, decide_eq_true_eq] at h
  case fg =>
    have hr := colIndex_range v h
    simp only [attrParams]
    rw [colourParams_cases, sem_colour rgb8 .fg (Or.inl rfl) v h]
    split
    · exact fg_rgb_chunk colon _ _ _ more A
    · exact fg_chunk colon _ more A hr
  case bg =>
    have hr := colIndex_range v h
    simp only [attrParams]
    rw [colourParams_cases, sem_colour rgb8 .bg (Or.inr rfl) v h]
    split
    · exact bg_rgb_chunk colon _ _ _ more A
    · exact bg_chunk colon _ more A hr
  case altfont =>
    have hv : v = -1 ∨ v = 0 ∨ v = 1 ∨ v = 2 ∨ v = 3 ∨ v = 4 ∨ v = 5 ∨ v = 6 ∨ v = 7 ∨ v = 8 ∨ v = 9 ∨ v = 10 := by omega
    rcases hv with rfl | rfl | rfl | rfl | rfl | rfl | rfl | rfl | rfl | rfl | rfl | rfl <;>
      simp [attrParams, toGroups, sgrRun, sgrSingle, pv, sem]
  case sizepos =>
    rcases h with rfl | rfl | rfl <;> simp [attrParams, toGroups, sgrRun, sgrSingle, pv, sem]
  all_goals (rcases h with rfl | rfl <;> simp [attrParams, toGroups, sgrRun, sgrSingle, pv, sem])

/-! ### the whole `delta` -/

/-- The parameters one attribute contributes. -/
def chunkOf (rgb8 : Bool) (delta : PenMap) (a : Attr) : List Param :=
  match delta a with
  | none => []
  | some v => attrParams rgb8 a v

theorem deltaParams_eq (rgb8 : Bool) (delta : PenMap) : deltaParams rgb8 delta = Attr.all.flatMap (chunkOf rgb8 delta) := rfl

/-- What `delta` does to the terminal's attributes, attribute by attribute. -/
def applyDelta (rgb8 : Bool) (delta : PenMap) (as : List Attr) (A : Attrs) : Attrs :=
  as.foldl (fun acc a => match delta a with
    | some v => acc.set a (sem rgb8 a v)
    | none => acc) A

theorem paletteParams_last (on off i : Int) : ∀ p, (paletteParams on off i).getLast? = some p → p.sub = false := by
  intro p hp
  unfold paletteParams at hp
  (repeat' split at hp) <;> simp at hp <;> subst hp <;> rfl

theorem colourParams_last (rgb8 : Bool) (on off v : Int) : ∀ p, (colourParams rgb8 on off v).getLast? = some p → p.sub = false := by
  intro p hp
  rw [colourParams_cases] at hp
  split at hp
  · simp at hp; subst hp; rfl
  · exact paletteParams_last on off _ p hp

theorem attrParams_last (rgb8 : Bool) (a : Attr) (v : Int) : ∀ p, (attrParams rgb8 a v).getLast? = some p → p.sub = false := by
  intro p hp
  cases a
  case fg => exact colourParams_last rgb8 30 39 v p hp
  case bg => exact colourParams_last rgb8 40 49 v p hp
  all_goals simp only [attrParams] at hp
  all_goals (repeat' split at hp) <;> simp at hp <;> (try subst hp) <;> rfl

theorem chunkOf_last (rgb8 : Bool) (delta : PenMap) (a : Attr) : ∀ p, (chunkOf rgb8 delta a).getLast? = some p → p.sub = false := by
  intro p hp
  unfold chunkOf at hp
  cases hd : delta a with
  | none => simp [hd] at hp
  | some v => simp only [hd] at hp; exact attrParams_last rgb8 a v p hp

theorem sgrRun_chunks (colon rgb8 : Bool) (delta : PenMap) (hdom : PenDom delta) :
    ∀ (as : List Attr) (more : List PGroup) (A : Attrs),
      sgrRun (toGroups colon (as.flatMap (chunkOf rgb8 delta)) ++ more) A = sgrRun more (applyDelta rgb8 delta as A)
  | [], more, A => rfl
  | a :: rest, more, A => by
    simp only [List.flatMap_cons]
    rw [toGroups_append colon _ _ (chunkOf_last rgb8 delta a), List.append_assoc]
    cases hd : delta a with
    | none =>
      have : chunkOf rgb8 delta a = [] := by simp [chunkOf, hd]
      rw [this]
      simp only [toGroups, List.nil_append, applyDelta, List.foldl_cons, hd]
      exact sgrRun_chunks colon rgb8 delta hdom rest more A
    | some v =>
      have : chunkOf rgb8 delta a = attrParams rgb8 a v := by simp [chunkOf, hd]
      rw [this, chunk_sem colon rgb8 a v (hdom a v hd)]
      simp only [applyDelta, List.foldl_cons, hd]
      exact sgrRun_chunks colon rgb8 delta hdom rest more _

theorem applyDelta_get (rgb8 : Bool) (delta : PenMap) : ∀ (as : List Attr) (A : Attrs) (a : Attr), as.Nodup →
    applyDelta rgb8 delta as A a = if a ∈ as then (match delta a with
      | some v => sem rgb8 a v
      | none => A a) else A a
  | [], A, a, _ => by simp [applyDelta]
  | x :: rest, A, a, hnd => by
    have hx : x ∉ rest := (List.nodup_cons.mp hnd).1
    have hr : rest.Nodup := (List.nodup_cons.mp hnd).2
    simp only [applyDelta, List.foldl_cons]
    have ih := applyDelta_get rgb8 delta rest (match delta x with
      | some v => A.set x (sem rgb8 x v)
      | none => A) a hr
    simp only [applyDelta] at ih
    rw [ih]
    by_cases hax : a = x
    · subst hax
      simp only [hx, if_false, List.mem_cons, true_or, if_true]
      cases delta a <;> simp [Attrs.set]
    · have hset : (match delta x with
          | some v => A.set x (sem rgb8 x v)
          | none => A) a = A a := by
        cases delta x <;> simp [Attrs.set, hax]
      simp only [List.mem_cons, hax, false_or, hset]

theorem Attr.all_nodup : Attr.all.Nodup := by decide
theorem Attr.mem_all (a : Attr) : a ∈ Attr.all := by cases a <;> simp [Attr.all]

/-- The terminal's attributes after `chpen(delta, final)` when an SGR with parameters is sent. -/
theorem sgrRun_deltaParams (colon rgb8 : Bool) (delta : PenMap) (hdom : PenDom delta) (A : Attrs) (a : Attr)
    (hne : deltaParams rgb8 delta ≠ []) :
    sgrRun (groupsAcc colon [] [] (deltaParams rgb8 delta)) A a = match delta a with
      | some v => sem rgb8 a v
      | none => A a := by
  rw [groupsAcc_eq colon _ [] [] hne]
  have hg : attach [] (toGroups colon (deltaParams rgb8 delta)) = toGroups colon (deltaParams rgb8 delta) := by
    cases h : toGroups colon (deltaParams rgb8 delta) with
    | nil => exact absurd h (toGroups_ne_nil colon _ hne)
    | cons x t => simp [attach]
  rw [List.nil_append, hg, deltaParams_eq]
  have := sgrRun_chunks colon rgb8 delta hdom Attr.all [] A
  rw [List.append_nil] at this
  rw [this]
  simp only [sgrRun]
  rw [applyDelta_get rgb8 delta Attr.all A a Attr.all_nodup, if_pos (Attr.mem_all a)]


/-! ### every operation writes complete sequences (whatever the shadow holds) -/

theorem feed_mouseOff_any (m : VModes) (A : Attrs) (k : Int) :
    ∃ m', VT.feed ⟨.ground, m, A⟩ (mouseOff (modeForMouse k)) = ⟨.ground, m', A⟩ := by
  unfold modeForMouse
  split
  · exact ⟨_, rfl⟩
  · split
    · exact ⟨_, rfl⟩
    · split
      · exact ⟨_, rfl⟩
      · exact ⟨_, rfl⟩

theorem feed_mouseOn_any (m : VModes) (A : Attrs) (k : Int) :
    ∃ m', VT.feed ⟨.ground, m, A⟩ (mouseOn (modeForMouse k)) = ⟨.ground, m', A⟩ := by
  unfold modeForMouse
  split
  · exact ⟨_, rfl⟩
  · split
    · exact ⟨_, rfl⟩
    · split
      · exact ⟨_, rfl⟩
      · exact ⟨_, rfl⟩

theorem feed_ite (vt : VT) (A : Attrs) (c : Prop) [Decidable c] (x y : List Nat)
    (hx : ∃ m', VT.feed vt x = ⟨.ground, m', A⟩) (hy : ∃ m', VT.feed vt y = ⟨.ground, m', A⟩) :
    ∃ m', VT.feed vt (if c then x else y) = ⟨.ground, m', A⟩ := by
  split; exact hx; exact hy

/-- Whatever the shadow holds, `setctl_int` writes complete sequences that leave the rendition alone. -/
theorem setctl_ground (cfg : Cfg) (d : XDrv) (c : Option Ctl) (v : Int) (m : VModes) (A : Attrs) :
    ∃ m', VT.feed ⟨.ground, m, A⟩ (setctlInt cfg d c v).2.1 = ⟨.ground, m', A⟩ := by
  cases c with
  | none => exact ⟨m, rfl⟩
  | some c =>
    cases c <;> unfold setctlInt <;> simp only
    case altscreen => split; exact ⟨m, rfl⟩; exact feed_ite _ A _ _ _ ⟨_, feed_altOn m A⟩ ⟨_, feed_altOff m A⟩
    case cursorvis => split; exact ⟨m, rfl⟩; exact feed_ite _ A _ _ _ ⟨_, feed_visOn m A⟩ ⟨_, feed_visOff m A⟩
    case cursorblink => split; exact ⟨m, rfl⟩; exact feed_ite _ A _ _ _ ⟨_, feed_blinkOn m A⟩ ⟨_, feed_blinkOff m A⟩
    case keypadApp => split; exact ⟨m, rfl⟩; exact feed_ite _ A _ _ _ ⟨_, feed_keypadOn m A⟩ ⟨_, feed_keypadOff m A⟩
    case mouse => split; exact ⟨m, rfl⟩; exact feed_ite _ A _ _ _ (feed_mouseOff_any m A _) (feed_mouseOn_any m A _)
    case cursorshape =>
      split
      · exact ⟨m, rfl⟩
      · refine feed_ite _ A _ _ _ ?_ ⟨m, rfl⟩
        obtain ⟨sh, bl, hf⟩ := feed_shapeSeq m A (v * 2 + (if d.mode.cursorblink ≠ 0 then -1 else 0))
        exact ⟨_, hf⟩
    all_goals exact ⟨m, rfl⟩

theorem teardown_ground (d : XDrv) (m : VModes) (A : Attrs) :
    ∃ m', VT.feed ⟨.ground, m, A⟩ (drvTeardown d) = ⟨.ground, m', Attrs.default⟩ := by
  unfold drvTeardown
  rw [feed_append, feed_append, feed_append, feed_append]
  have h1 : ∃ m1, VT.feed ⟨.ground, m, A⟩ (if d.mode.mouse ≠ 0 then mouseOff (modeForMouse d.mode.mouse) else []) = ⟨.ground, m1, A⟩ := by
    split; exact feed_mouseOff_any m A _; exact ⟨m, rfl⟩
  obtain ⟨m1, e1⟩ := h1
  have h2 : ∃ m2, VT.feed ⟨.ground, m1, A⟩ (if d.mode.cursorvis = 0 then visOn else []) = ⟨.ground, m2, A⟩ := by
    split; exact ⟨_, feed_visOn m1 A⟩; exact ⟨m1, rfl⟩
  obtain ⟨m2, e2⟩ := h2
  have h3 : ∃ m3, VT.feed ⟨.ground, m2, A⟩ (if d.mode.altscreen ≠ 0 then altOff else []) = ⟨.ground, m3, A⟩ := by
    split; exact ⟨_, feed_altOff m2 A⟩; exact ⟨m2, rfl⟩
  obtain ⟨m3, e3⟩ := h3
  have h4 : ∃ m4, VT.feed ⟨.ground, m3, A⟩ (if d.mode.keypad ≠ 0 then keypadOff else []) = ⟨.ground, m4, A⟩ := by
    split; exact ⟨_, feed_keypadOff m3 A⟩; exact ⟨m3, rfl⟩
  obtain ⟨m4, e4⟩ := h4
  rw [e1, e2, e3, e4, feed_sgrReset]
  exact ⟨m4, rfl⟩

theorem resume_ground (d : XDrv) (m : VModes) (A : Attrs) :
    ∃ m', VT.feed ⟨.ground, m, A⟩ (drvResume d) = ⟨.ground, m', A⟩ := by
  unfold drvResume
  rw [feed_append, feed_append, feed_append]
  have h1 : ∃ m1, VT.feed ⟨.ground, m, A⟩ (if d.mode.keypad ≠ 0 then keypadOn else []) = ⟨.ground, m1, A⟩ := by
    split; exact ⟨_, feed_keypadOn m A⟩; exact ⟨m, rfl⟩
  obtain ⟨m1, e1⟩ := h1
  have h2 : ∃ m2, VT.feed ⟨.ground, m1, A⟩ (if d.mode.altscreen ≠ 0 then altOn else []) = ⟨.ground, m2, A⟩ := by
    split; exact ⟨_, feed_altOn m1 A⟩; exact ⟨m1, rfl⟩
  obtain ⟨m2, e2⟩ := h2
  have h3 : ∃ m3, VT.feed ⟨.ground, m2, A⟩ (if d.mode.cursorvis = 0 then visOff else []) = ⟨.ground, m3, A⟩ := by
    split; exact ⟨_, feed_visOff m2 A⟩; exact ⟨m2, rfl⟩
  obtain ⟨m3, e3⟩ := h3
  have h4 : ∃ m4, VT.feed ⟨.ground, m3, A⟩ (if d.mode.mouse ≠ 0 then mouseOn (modeForMouse d.mode.mouse) else []) = ⟨.ground, m4, A⟩ := by
    split; exact feed_mouseOn_any m3 A _; exact ⟨m3, rfl⟩
  obtain ⟨m4, e4⟩ := h4
  rw [e1, e2, e3, e4]
  exact ⟨m4, rfl⟩

theorem setupterm_ground (cfg : Cfg) (top : Top) (t : Term) (m : VModes) (A : Attrs) :
    ∃ m', VT.feed ⟨.ground, m, A⟩ (setupterm cfg top t).2.2 = ⟨.ground, m', A⟩ ∧
      (setupterm cfg top t).2.1.pen = t.pen ∧ (setupterm cfg top t).2.1.state = .started := by
  obtain ⟨_, e2, _, e4, _⟩ := Term.await_fields t ModeLayout.setup_await_msec
  unfold setupterm
  simp only [Term.setctl]
  generalize Term.await t ModeLayout.setup_await_msec = t0 at e2 e4 ⊢
  rw [feed_append, feed_append, feed_append, feed_append]
  split
  · obtain ⟨m1, e1⟩ := setctl_ground cfg t0.drv (some .altscreen) 1 m A
    simp only
    rw [e1]
    obtain ⟨m2, f2⟩ := setctl_ground cfg (setctlInt cfg t0.drv (some .altscreen) 1).1 (some .cursorvis) 0 m1 A
    rw [f2]
    obtain ⟨m3, f3⟩ := setctl_ground cfg (setctlInt cfg (setctlInt cfg t0.drv (some .altscreen) 1).1 (some .cursorvis) 0).1 (some .mouse) 2 m2 A
    rw [f3]
    obtain ⟨m4, f4⟩ := setctl_ground cfg (setctlInt cfg (setctlInt cfg (setctlInt cfg t0.drv (some .altscreen) 1).1 (some .cursorvis) 0).1 (some .mouse) 2).1 (some .keypadApp) 1 m3 A
    rw [f4, feed_clearScreen]
    exact ⟨m4, rfl, e2, e4⟩
  · simp only
    rw [feed_nil]
    obtain ⟨m2, f2⟩ := setctl_ground cfg t0.drv (some .cursorvis) 0 m A
    rw [f2]
    obtain ⟨m3, f3⟩ := setctl_ground cfg (setctlInt cfg t0.drv (some .cursorvis) 0).1 (some .mouse) 2 m2 A
    rw [f3]
    obtain ⟨m4, f4⟩ := setctl_ground cfg (setctlInt cfg (setctlInt cfg t0.drv (some .cursorvis) 0).1 (some .mouse) 2).1 (some .keypadApp) 1 m3 A
    rw [f4, feed_clearScreen]
    exact ⟨m4, rfl, e2, e4⟩

theorem paletteParams_ne_nil (on off i : Int) : paletteParams on off i ≠ [] := by
  unfold paletteParams
  (repeat' split) <;> simp

theorem attrParams_ne_nil (rgb8 : Bool) (a : Attr) (v : Int) (h : inDomain a v = true) : attrParams rgb8 a v ≠ [] := by
  cases a
  case fg => simp only [attrParams]; rw [colourParams_cases]; split; simp; exact paletteParams_ne_nil _ _ _
  case bg => simp only [attrParams]; rw [colourParams_cases]; split; simp; exact paletteParams_ne_nil _ _ _
  all_goals (simp only [inDomain, decide_eq_true_eq] at h; simp only [attrParams])
  all_goals (repeat' split) <;> simp
  all_goals omega

theorem deltaParams_nil (rgb8 : Bool) (delta : PenMap) (hdom : PenDom delta) (h : deltaParams rgb8 delta = []) : ∀ a, delta a = none := by
  intro a
  rw [deltaParams_eq] at h
  have := (List.flatMap_eq_nil_iff.mp h) a (Attr.mem_all a)
  cases hd : delta a with
  | none => rfl
  | some v =>
    simp only [chunkOf, hd] at this
    exact absurd this (attrParams_ne_nil rgb8 a v (hdom a v hd))

/-- A value that `tickit_pen_nondefault_attr` does not count means the default rendition. -/
theorem sem_of_not_nondefault (rgb8 : Bool) (p : PenMap) (a : Attr) (v : Int) (hp : p a = some v) (hd : inDomain a v = true)
    (h : nondefaultAttr p a = false) : sem rgb8 a v = dflt a := by
  simp only [nondefaultAttr, hp] at h
  cases a
  case fg =>
    have h1 : colIndex v = -1 := by simpa [Attr.kind] using h
    simp [sem, dflt, Attr.kind, h1]
  case bg =>
    have h1 : colIndex v = -1 := by simpa [Attr.kind] using h
    simp [sem, dflt, Attr.kind, h1]
  all_goals (simp only [inDomain, decide_eq_true_eq] at hd <;> simp [Attr.kind] at h <;> simp [sem, dflt, Attr.kind] <;> omega)

theorem sgrRun_reset (A : Attrs) : sgrRun (groupsAcc c [] [] []) A = Attrs.default := by
  simp [groupsAcc, sgrRun, sgrSingle, pv]

/-- `chpen(delta, next)` on a terminal that shows `cur` makes it show `next`. -/
theorem chpen_establishes (d : XDrv) (cur next delta : PenMap) (A : Attrs)
    (hdd : PenDom delta) (hdn : PenDom next)
    (h0 : ∀ a, delta a = none → next a = cur a) (h1 : ∀ a v, delta a = some v → next a = some v)
    (ih : ∀ a v, cur a = some v → A a = sem d.rgbOn a v) :
    ∀ a v, next a = some v →
      (if (deltaParams d.rgbOn delta).isEmpty then A
        else sgrRun (groupsAcc (decide (d.cap.csiSubColon ≠ 0)) [] []
          (if isNondefault next then deltaParams d.rgbOn delta else [])) A) a
        = sem d.rgbOn a v := by
  intro a v hn
  generalize d.rgbOn = rgb8 at *
  by_cases he : (deltaParams rgb8 delta).isEmpty = true
  · rw [if_pos he]
    have hnil : deltaParams rgb8 delta = [] := by simpa using he
    have := deltaParams_nil rgb8 delta hdd hnil a
    rw [h0 a this] at hn
    exact ih a v hn
  · rw [if_neg he]
    have hne : deltaParams rgb8 delta ≠ [] := by simpa using he
    by_cases hnd : isNondefault next = true
    · rw [if_pos hnd, sgrRun_deltaParams _ rgb8 delta hdd A a hne]
      cases hd : delta a with
      | none =>
        simp only
        rw [h0 a hd] at hn
        exact ih a v hn
      | some w =>
        simp only
        have := h1 a w hd
        rw [this] at hn
        cases hn; rfl
    · rw [if_neg hnd, sgrRun_reset]
      have hall : nondefaultAttr next a = false := by
        simp only [isNondefault, List.any_eq_true, not_exists, not_and, Bool.not_eq_true] at hnd
        exact hnd a (Attr.mem_all a)
      exact (sem_of_not_nondefault rgb8 next a v hn (hdn a v hn) hall).symm


/-! ### the invariant of the rendition -/

/-- Every value of the pen means the default rendition (whatever the terminal's colour capability). -/
def allDefault (p : PenMap) : Bool := Attr.all.all fun a => match p a with
  | some v => sem false a v == dflt a
  | none => true

theorem sem_dflt_any (rgb8 : Bool) (a : Attr) (v : Int) (h : sem false a v = dflt a) : sem rgb8 a v = dflt a := by
  cases a
  case fg =>
    simp only [sem, dflt, Attr.kind, Bool.false_and] at h ⊢
    by_cases h0 : colIndex v < 0
    · rw [if_pos h0]
    · rw [if_neg h0] at h; simp at h; omega
  case bg =>
    simp only [sem, dflt, Attr.kind, Bool.false_and] at h ⊢
    by_cases h0 : colIndex v < 0
    · rw [if_pos h0]
    · rw [if_neg h0] at h; simp at h; omega
  all_goals exact h

/-- The capability only matters for colours with an RGB8 refinement of a non-default index. -/
theorem sem_cap (p : PenMap) (r1 r2 : Bool) (h : capSensitive p = false ∨ r1 = r2) (a : Attr) (v : Int)
    (hp : p a = some v) : sem r1 a v = sem r2 a v := by
  rcases h with h | h
  · simp only [capSensitive, List.any_cons, List.any_nil, Bool.or_false, Bool.or_eq_false_iff] at h
    cases a
    case fg =>
      have h1 := h.1
      simp only [hp, Bool.and_eq_false_imp, decide_eq_false_iff_not] at h1
      simp only [sem]
      by_cases h0 : colIndex v < 0
      · rw [if_pos h0, if_pos h0]
      · rw [if_neg h0, if_neg h0]
        have : hasRgb v = false := by
          cases hh : hasRgb v
          · rfl
          · exact absurd (by omega) (h1 hh)
        simp [this]
    case bg =>
      have h1 := h.2
      simp only [hp, Bool.and_eq_false_imp, decide_eq_false_iff_not] at h1
      simp only [sem]
      by_cases h0 : colIndex v < 0
      · rw [if_pos h0, if_pos h0]
      · rw [if_neg h0, if_neg h0]
        have : hasRgb v = false := by
          cases hh : hasRgb v
          · rfl
          · exact absurd (by omega) (h1 hh)
        simp [this]
    all_goals rfl
  · rw [h]

/-- The operation that triggers the pen defect of the unrepaired tree: a resume while a visible pen is cached. -/
def penTrigger (cfg : Cfg) (s : Sys) : Op → Bool
  | .resume => !cfg.resumeResendsPen && !allDefault s.term.pen
  | _ => false

/-- The invariant of the rendition: the cached pen is the pen asked for, and while running the terminal
    renders every attribute of it. -/
structure PInv (s : Sys) (vt : VT) (ph : Phase) (g : Ghost) : Prop where
  ground : vt.ps = .ground
  pen : s.term.pen = g.pen
  dom : PenDom s.term.pen
  shown : ph = .running → ∀ a v, s.term.pen a = some v → vt.attrs a = sem s.term.drv.rgbOn a v
  off : ph ≠ .running → vt.attrs = Attrs.default
  st : ph = .stopped ↔ s.term.state = .unstarted

theorem penNext_logical_aux (isSet : Bool) (c p : Option Int) (dv : Int) :
    (if ((!isSet && p.isNone) || (c.isSome && c.getD dv == p.getD dv)) = true then c else some (p.getD dv)) =
      (if isSet = true then some (p.getD dv) else (match p with
        | some v => some v
        | none => c)) := by
  cases isSet <;> cases p <;> cases c <;> simp
  all_goals (intro h; rw [h])

/-- The cached pen after `setpen`/`chpen` is the pen the program asked for. -/
theorem penNext_eq_logical (isSet : Bool) (cur pen : PenMap) : penNext isSet cur pen = logicalPen isSet cur pen := by
  funext a
  exact penNext_logical_aux isSet (cur a) (pen a) (dflt a)

theorem penDelta_none (isSet : Bool) (cur pen : PenMap) (a : Attr) (h : penDelta isSet cur pen a = none) :
    penNext isSet cur pen a = cur a := by
  simp only [penDelta, penNext] at h ⊢
  split at h
  · rename_i hs; rw [if_pos hs]
  · cases h

theorem penDelta_some (isSet : Bool) (cur pen : PenMap) (a : Attr) (v : Int) (h : penDelta isSet cur pen a = some v) :
    penNext isSet cur pen a = some v := by
  simp only [penDelta, penNext] at h ⊢
  split at h
  · cases h
  · rename_i hs; rw [if_neg hs]; exact h

theorem allDefault_sem (rgb8 : Bool) (p : PenMap) (h : allDefault p = true) : ∀ a v, p a = some v → dflt a = sem rgb8 a v := by
  intro a v hp
  simp only [allDefault, List.all_eq_true] at h
  have := h a (Attr.mem_all a)
  simp only [hp, beq_iff_eq] at this
  exact (sem_dflt_any rgb8 a v this).symm

theorem Ghost.set_pen (g : Ghost) (c : Option Ctl) (v : Int) : (g.set c v).pen = g.pen := by
  cases c with
  | none => rfl
  | some c => cases c <;> rfl

theorem pstep_inv (cfg : Cfg) (s : Sys) (vt : VT) (ph ph' : Phase) (g : Ghost) (op : Op)
    (h : PInv s vt ph g) (htk : TkInv s ph) (hok : opOk op = true) (hph : phaseNext ph op = some ph')
    (hnt : penTrigger cfg s op = false) (hcap : capKept cfg s op = true) :
    PInv (s.step cfg op).sys (VT.feed vt (s.step cfg op).out) ph' (g.step op (s.step cfg op).ret s.ua) := by
  obtain ⟨ps, m, A⟩ := vt
  obtain ⟨hgr, hpen, hdom, hsh, hoff, hst⟩ := h
  simp only at hgr; subst hgr
  have hsem : ∀ a v, s.term.pen a = some v →
      sem (s.step cfg op).sys.term.drv.rgbOn a v = sem s.term.drv.rgbOn a v := by
    intro a v hp
    apply sem_cap s.term.pen _ _ _ a v hp
    simp only [capKept, Bool.or_eq_true, Bool.not_eq_true', beq_iff_eq] at hcap
    exact hcap
  have hsh' : ph = .running → ∀ a v, s.term.pen a = some v →
      A a = sem (s.step cfg op).sys.term.drv.rgbOn a v :=
    fun hr a v hp => (hsh hr a v hp).trans (hsem a v hp).symm
  clear hsem hcap
  cases op with
  | ctl c v =>
    cases ph <;> simp [phaseNext] at hph
    subst hph
    obtain ⟨m', hf⟩ := setctl_ground cfg s.term.drv c v m A
    simp only [Sys.step, Term.setctl] at hsh' ⊢
    rw [hf]
    refine ⟨rfl, ?_, hdom, fun _ => hsh' trivial, fun hne => absurd rfl hne, by simpa using hst⟩
    simp only [Ghost.step]
    split
    · rw [Ghost.set_pen]; exact hpen
    · exact hpen
  | setstr c payload =>
    cases ph <;> simp [phaseNext] at hph
    subst hph
    have htxt : textOnly payload = true := by simpa [opOk] using hok
    have hf : VT.feed ⟨.ground, m, A⟩ (setctlStr c payload).1 = ⟨.ground, m, A⟩ := by
      cases c with
      | none => rfl
      | some c => cases c <;> first | rfl | exact feed_osc m A _ payload htxt (by decide)
    simp only [Sys.step]
    rw [hf]
    exact ⟨rfl, hpen, hdom, hsh, hoff, hst⟩
  | setpen p =>
    cases ph <;> simp [phaseNext] at hph
    subst hph
    have hp : penInDomain p = true := by simpa [opOk] using hok
    obtain ⟨hd1, hd2⟩ := penNext_dom true s.term.pen p hdom hp
    simp only [Sys.step, Term.putpen]
    rw [feed_drvChpen _ _ _ _ _ _ hd2]
    refine ⟨rfl, ?_, hd1, fun _ => ?_, fun hne => absurd rfl hne, hst⟩
    · show penNext true s.term.pen p = logicalPen true g.pen p
      rw [penNext_eq_logical, hpen]
    · exact chpen_establishes s.term.drv s.term.pen _ _ A hd2 hd1 (penDelta_none true _ _) (penDelta_some true _ _) (hsh rfl)
  | chpen p =>
    cases ph <;> simp [phaseNext] at hph
    subst hph
    have hp : penInDomain p = true := by simpa [opOk] using hok
    obtain ⟨hd1, hd2⟩ := penNext_dom false s.term.pen p hdom hp
    simp only [Sys.step, Term.putpen]
    rw [feed_drvChpen _ _ _ _ _ _ hd2]
    refine ⟨rfl, ?_, hd1, fun _ => ?_, fun hne => absurd rfl hne, hst⟩
    · show penNext false s.term.pen p = logicalPen false g.pen p
      rw [penNext_eq_logical, hpen]
    · exact chpen_establishes s.term.drv s.term.pen _ _ A hd2 hd1 (penDelta_none false _ _) (penDelta_some false _ _) (hsh rfl)
  | print bytes =>
    cases ph <;> simp [phaseNext] at hph
    subst hph
    have htxt : textOnly bytes = true := by simpa [opOk] using hok
    simp only [Sys.step]
    rw [feed_text_ground m A bytes htxt]
    exact ⟨rfl, hpen, hdom, hsh, hoff, hst⟩
  | clear =>
    cases ph <;> simp [phaseNext] at hph
    subst hph
    simp only [Sys.step]
    rw [feed_clearScreen]
    exact ⟨rfl, hpen, hdom, hsh, hoff, hst⟩
  | flush =>
    cases ph <;> simp [phaseNext] at hph
    subst hph
    exact ⟨rfl, hpen, hdom, hsh, hoff, hst⟩
  | await msec =>
    cases ph <;> simp [phaseNext] at hph
    subst hph
    obtain ⟨_, e2, _, e4, _⟩ := Term.await_fields s.term msec
    simp only [Sys.step, feed_nil] at hsh' ⊢
    exact ⟨rfl, by rw [e2]; exact hpen, by rw [e2]; exact hdom, fun _ => by rw [e2]; exact hsh' trivial, hoff, by simp [e4]⟩
  | replyMode mode value =>
    cases ph <;> simp [phaseNext] at hph
    subst hph
    simp only [Sys.step, feed_nil] at hsh' ⊢
    rw [Term.reply_running cfg _ _ (htk.tk rfl) htk.pend] at hsh' ⊢
    exact ⟨rfl, hpen, hdom, fun _ => hsh' trivial, hoff, by simpa using hst⟩
  | replyShape value =>
    cases ph <;> simp [phaseNext] at hph
    subst hph
    simp only [Sys.step, feed_nil] at hsh' ⊢
    rw [Term.reply_running cfg _ _ (htk.tk rfl) htk.pend] at hsh' ⊢
    exact ⟨rfl, hpen, hdom, fun _ => hsh' trivial, hoff, by simpa using hst⟩
  | replySgr colon rgb =>
    cases ph <;> simp [phaseNext] at hph
    subst hph
    simp only [Sys.step, feed_nil] at hsh' ⊢
    rw [Term.reply_running cfg _ _ (htk.tk rfl) htk.pend] at hsh' ⊢
    exact ⟨rfl, hpen, hdom, fun _ => hsh' trivial, hoff, by simpa using hst⟩
  | pause =>
    cases ph <;> simp [phaseNext] at hph
    subst hph
    obtain ⟨m', hf⟩ := teardown_ground s.term.drv m A
    simp only [Sys.step, Term.pause]
    rw [hf]
    refine ⟨rfl, hpen, hdom, (fun hc => by cases hc), fun _ => rfl, ?_⟩
    have : s.term.state ≠ .unstarted := fun hc => by simpa using hst.2 hc
    simp [this]
  | resume =>
    cases ph <;> simp [phaseNext] at hph
    subst hph
    have hA : A = Attrs.default := hoff (by simp)
    obtain ⟨m', hf⟩ := resume_ground s.term.drv m A
    simp only [Sys.step, Term.resume]
    rw [feed_append, hf]
    have hst' : (Phase.running = Phase.stopped ↔ s.term.state = TState.unstarted) := by
      have : s.term.state ≠ .unstarted := fun hc => by simpa using hst.2 hc
      simp [this]
    by_cases hr : cfg.resumeResendsPen = true
    · rw [if_pos hr, feed_drvChpen _ _ _ _ _ _ hdom]
      refine ⟨rfl, hpen, hdom, fun _ => ?_, fun hne => absurd rfl hne, hst'⟩
      exact chpen_establishes s.term.drv PenMap.empty s.term.pen s.term.pen A hdom hdom
        (fun a ha => ha) (fun a v ha => ha) (fun a v ha => by cases ha)
    · rw [if_neg hr, feed_nil]
      refine ⟨rfl, hpen, hdom, fun _ => ?_, fun hne => absurd rfl hne, hst'⟩
      have hall : allDefault s.term.pen = true := by
        have hrf : cfg.resumeResendsPen = false := by simpa using hr
        simpa [penTrigger, hrf] using hnt
      intro a v hp
      show A a = sem _ a v
      rw [hA]
      exact allDefault_sem _ _ hall a v hp
  | teardown =>
    have hns : s.term.state ≠ .unstarted := by
      intro hc
      have := hst.2 hc
      subst this
      simp [phaseNext] at hph
    have hph' : ph' = .stopped := by
      cases ph <;> simp [phaseNext] at hph <;> exact hph.symm
    subst hph'
    obtain ⟨m', hf⟩ := teardown_ground s.term.drv m A
    simp only [Sys.step, Term.teardown, if_pos hns]
    rw [hf]
    exact ⟨rfl, hpen, hdom, (fun hc => by cases hc), fun _ => rfl, by simp⟩
  | usealt v =>
    cases ph <;> simp [phaseNext] at hph
    subst hph
    simp only [Sys.step]
    cases htop : s.top <;> exact ⟨rfl, hpen, hdom, hsh, hoff, hst⟩
  | tick nosetup =>
    cases ph <;> simp [phaseNext] at hph
    subst hph
    simp only [Sys.step] at hsh' ⊢
    cases htop : s.top with
    | none =>
      simp only [Sys.ua, htop, Option.map_none, Ghost.step]
      exact ⟨rfl, hpen, hdom, hsh, hoff, hst⟩
    | some top =>
      simp only [Sys.ua, htop, Option.map_some, Ghost.step]
      have hgp : ∀ (c : Prop) [Decidable c] (x : Ghost), x.pen = g.pen → (if c then x else g).pen = g.pen := by
        intro c _ x hx; split; exact hx; rfl
      by_cases hcond : (!top.doneSetup && !nosetup) = true
      · rw [if_pos hcond]
        simp only [htop, if_pos hcond] at hsh'
        obtain ⟨m', hf, hp', hs'⟩ := setupterm_ground cfg top s.term m A
        simp only
        rw [hf]
        refine ⟨rfl, ?_, by rw [hp']; exact hdom, fun _ => by rw [hp']; exact hsh' trivial, fun hne => absurd rfl hne, by simp [hs']⟩
        rw [hp', hpen]
        symm; apply hgp; rfl
      · rw [if_neg hcond]
        simp only
        refine ⟨rfl, ?_, hdom, hsh, hoff, hst⟩
        rw [hpen]
        symm; apply hgp; rfl


/-- No resume of the history happens while a visible pen is cached (the trigger of the pen defect). -/
def noPenTrigger (cfg : Cfg) : Sys → List Op → Bool
  | _, [] => true
  | s, op :: rest => !penTrigger cfg s op && noPenTrigger cfg (s.step cfg op).sys rest

/-- The contract about the RGB8 capability along a history (`capKept` for every operation). -/
def capKeptRun (cfg : Cfg) : Sys → List Op → Bool
  | _, [] => true
  | s, op :: rest => capKept cfg s op && capKeptRun cfg (s.step cfg op).sys rest

theorem prun_inv (cfg : Cfg) : ∀ (ops : List Op) (s : Sys) (vt : VT) (ph ph' : Phase) (g : Ghost),
    PInv s vt ph g → TkInv s ph → validFrom ph ops = some ph' → noPenTrigger cfg s ops = true →
    capKeptRun cfg s ops = true →
    PInv (Sys.run cfg s ops).1 (VT.feed vt (Sys.run cfg s ops).2) ph' (ghostRun cfg s g ops)
  | [], s, vt, ph, ph', g, h, _, hv, _, _ => by
    simp only [validFrom, Option.some.injEq] at hv
    subst hv
    simpa [Sys.run, ghostRun] using h
  | op :: rest, s, vt, ph, ph', g, h, htk, hv, hnt, hck => by
    simp only [validFrom] at hv
    split at hv
    · rename_i hok
      cases hp : phaseNext ph op with
      | none => simp [hp] at hv
      | some ph1 =>
        simp only [hp, Option.bind_some] at hv
        simp only [noPenTrigger, Bool.and_eq_true, Bool.not_eq_true'] at hnt
        simp only [capKeptRun, Bool.and_eq_true] at hck
        have h1 := pstep_inv cfg s vt ph ph1 g op h htk hok hp hnt.1 hck.1
        have h2 := prun_inv cfg rest _ _ ph1 ph' _ h1 (tk_step cfg s ph ph1 op htk hp) hv hnt.2 hck.2
        simpa [Sys.run, ghostRun, feed_append] using h2
    · cases hv

theorem build_pinv (toplevel : Bool) (m0 : VModes) :
    PInv (Sys.build toplevel).1 (VT.feed ⟨.ground, m0, Attrs.default⟩ (Sys.build toplevel).2) .running {} := by
  simp only [Sys.build, Term.build]
  rw [feed_startBytes]
  exact ⟨rfl, rfl, (fun a v hx => by cases hx), (fun _ a v hx => by cases hx), fun hne => absurd rfl hne, by simp⟩

theorem penShown_of (s : Sys) (vt : VT) (g : Ghost) (h : PInv s vt .running g) :
    penShown s.term.drv.rgbOn vt.attrs g.pen = true := by
  simp only [penShown, List.all_eq_true]
  intro k _
  cases hk : g.pen k with
  | none => rfl
  | some v =>
    simp only [Bool.or_eq_true, Bool.not_eq_true', beq_iff_eq]
    right
    exact h.shown rfl k v (by rw [h.pen]; exact hk)

theorem noPenTrigger_of_repaired (cfg : Cfg) (hr : cfg.resumeResendsPen = true) : ∀ (ops : List Op) (s : Sys),
    noPenTrigger cfg s ops = true
  | [], _ => rfl
  | op :: rest, s => by
    simp only [noPenTrigger, Bool.and_eq_true, Bool.not_eq_true']
    refine ⟨?_, noPenTrigger_of_repaired cfg hr rest _⟩
    cases op <;> simp [penTrigger, hr]

/-! ### the terminal after a history -/

/-- The system after building and performing `ops`. -/
def sysAfter (cfg : Cfg) (toplevel : Bool) (ops : List Op) : Sys := (Sys.run cfg (Sys.build toplevel).1 ops).1

/-- The terminal (started in modes `m0`, default rendition) having read every byte written by building
    and by `ops`. -/
def vtAfter (cfg : Cfg) (toplevel : Bool) (m0 : VModes) (ops : List Op) : VT :=
  VT.feed (VT.feed ⟨.ground, m0, Attrs.default⟩ (Sys.build toplevel).2) (Sys.run cfg (Sys.build toplevel).1 ops).2

/-- What the program last set successfully, and the pen it asked for. -/
def ghostAfter (cfg : Cfg) (toplevel : Bool) (ops : List Op) : Ghost := ghostRun cfg (Sys.build toplevel).1 {} ops

/-- No operation of the history triggers one of the recorded defects of an unrepaired `cfg`. -/
def TriggerFree (cfg : Cfg) (toplevel : Bool) (ops : List Op) : Prop := noTrigger cfg (Sys.build toplevel).1 {} ops = true

instance (cfg : Cfg) (toplevel : Bool) (ops : List Op) : Decidable (TriggerFree cfg toplevel ops) := by
  unfold TriggerFree; infer_instance

theorem build_tk (toplevel : Bool) : TkInv (Sys.build toplevel).1 .running :=
  ⟨fun _ => by simp [Sys.build, Term.build], rfl⟩

theorem after_inv (cfg : Cfg) (toplevel : Bool) (m0 : VModes) (ops : List Op) (ph : Phase)
    (hm0 : m0.standard = true) (hv : validFrom .running ops = some ph) (hnt : TriggerFree cfg toplevel ops) :
    MInv cfg (sysAfter cfg toplevel ops) (vtAfter cfg toplevel m0 ops) ph (ghostAfter cfg toplevel ops) :=
  run_inv cfg ops _ _ .running ph {} (build_inv cfg toplevel m0 hm0) (build_tk toplevel) hv hnt

/-- With the keypad recorded and the replies guarded (cursor controls and forced RGB8) nothing is a trigger. -/
theorem triggerFree_of_repaired (cfg : Cfg) (hk : cfg.keypadRecorded = true) (hr : cfg.repliesGuarded = true)
    (hq : cfg.rgb8Guarded = true) (toplevel : Bool) (ops : List Op) : TriggerFree cfg toplevel ops := by
  unfold TriggerFree
  generalize (Sys.build toplevel).1 = s
  generalize ({} : Ghost) = g
  induction ops generalizing s g with
  | nil => rfl
  | cons op rest ih =>
    simp only [noTrigger, Bool.and_eq_true, Bool.not_eq_true']
    refine ⟨?_, ih _ _⟩
    cases op <;> simp [trigger, hk, hr, hq]
    rename_i c v
    cases c with
    | none => rfl
    | some c => cases c <;> simp [trigger, hk]


theorem ghostRun_append (cfg : Cfg) (a b : List Op) : ∀ (s : Sys) (g : Ghost),
    ghostRun cfg s g (a ++ b) = ghostRun cfg (Sys.run cfg s a).1 (ghostRun cfg s g a) b := by
  induction a with
  | nil => intro s g; rfl
  | cons op rest ih => intro s g; simp only [List.cons_append, ghostRun, Sys.run]; exact ih _ _

theorem validFrom_append (a b : List Op) : ∀ (ph : Phase),
    validFrom ph (a ++ b) = (validFrom ph a).bind (validFrom · b) := by
  induction a with
  | nil => intro ph; rfl
  | cons op rest ih =>
    intro ph
    simp only [List.cons_append, validFrom]
    split
    · cases phaseNext ph op with
      | none => rfl
      | some p => simp only [Option.bind_some]; exact ih p
    · rfl

theorem noTrigger_append_pause_resume (cfg : Cfg) (ops : List Op) : ∀ (s : Sys) (g : Ghost),
    noTrigger cfg s g ops = true → noTrigger cfg s g (ops ++ [.pause, .resume]) = true := by
  induction ops with
  | nil => intro s g _; rfl
  | cons op rest ih =>
    intro s g h
    simp only [List.cons_append, noTrigger, Bool.and_eq_true] at h ⊢
    exact ⟨h.1, ih _ _ h.2⟩


/-- No resume of the history happens while a visible (non-default) pen is cached. -/
def PenTriggerFree (cfg : Cfg) (toplevel : Bool) (ops : List Op) : Prop := noPenTrigger cfg (Sys.build toplevel).1 ops = true

instance (cfg : Cfg) (toplevel : Bool) (ops : List Op) : Decidable (PenTriggerFree cfg toplevel ops) := by
  unfold PenTriggerFree; infer_instance


/-- The RGB8 capability is not changed while the pen holds a colour that depends on it. -/
def CapKept (cfg : Cfg) (toplevel : Bool) (ops : List Op) : Prop := capKeptRun cfg (Sys.build toplevel).1 ops = true

instance (cfg : Cfg) (toplevel : Bool) (ops : List Op) : Decidable (CapKept cfg toplevel ops) := by
  unfold CapKept; infer_instance

/-! ### the output buffer -/

theorem OBuf.write_stream (b : OBuf) (bytes : Out) :
    (b.write bytes).2 ++ (b.write bytes).1.pend = b.pend ++ bytes ∧ (b.write bytes).1.cap = b.cap := by
  unfold OBuf.write
  split
  · simp
  · simp only [List.take_append_drop, and_self]

/-- Whatever the buffer's size and content: what a call delivers followed by what it leaves in the buffer is
    what was in the buffer followed by what the call wrote; a call that ends with a flush leaves nothing. -/
theorem OBuf.call_stream (b : OBuf) (bytes : Out) (fl : Bool) :
    (b.call bytes fl).2 ++ (b.call bytes fl).1.pend = b.pend ++ bytes ∧ (b.call bytes fl).1.cap = b.cap ∧
      (fl = true → (b.call bytes fl).1.pend = [] ∧ (b.call bytes fl).2 = b.pend ++ bytes) := by
  obtain ⟨h1, h2⟩ := OBuf.write_stream b bytes
  unfold OBuf.call
  cases fl
  · simp only [Bool.false_eq_true, if_false, false_imp_iff, and_true]; exact ⟨h1, h2⟩
  · simp only [if_true, OBuf.flush, List.append_nil, forall_const, true_and]
    rw [h1]; exact ⟨rfl, h2, rfl⟩

/-- One operation on a terminal with output buffer `b`: new system, new buffer, bytes delivered to the
    output function during the call. -/
def Sys.stepB (cfg : Cfg) (s : Sys) (b : OBuf) (op : Op) : Sys × OBuf × Out :=
  let r := s.step cfg op
  let c := b.call r.out r.flush
  (r.sys, c.1, c.2)

/-- A history on a terminal with an output buffer: the bytes delivered. -/
def Sys.runB (cfg : Cfg) : Sys → OBuf → List Op → Sys × OBuf × Out
  | s, b, [] => (s, b, [])
  | s, b, op :: rest =>
    let r := s.stepB cfg b op
    let q := Sys.runB cfg r.1 r.2.1 rest
    (q.1, q.2.1, r.2.2 ++ q.2.2)

/-- Buffering only delays: delivered bytes followed by the buffer's content are the bytes written. -/
theorem runB_stream (cfg : Cfg) : ∀ (ops : List Op) (s : Sys) (b : OBuf),
    (Sys.runB cfg s b ops).1 = (Sys.run cfg s ops).1 ∧
    (Sys.runB cfg s b ops).2.2 ++ (Sys.runB cfg s b ops).2.1.pend = b.pend ++ (Sys.run cfg s ops).2
  | [], s, b => by simp [Sys.runB, Sys.run]
  | op :: rest, s, b => by
    obtain ⟨h1, _, _⟩ := OBuf.call_stream b (s.step cfg op).out (s.step cfg op).flush
    obtain ⟨i1, i2⟩ := runB_stream cfg rest (s.step cfg op).sys (b.call (s.step cfg op).out (s.step cfg op).flush).1
    simp only [Sys.runB, Sys.stepB, Sys.run]
    refine ⟨i1, ?_⟩
    rw [List.append_assoc, i2, ← List.append_assoc, h1, List.append_assoc]

theorem runB_append (cfg : Cfg) (b1 : List Op) : ∀ (a : List Op) (s : Sys) (b : OBuf),
    Sys.runB cfg s b (a ++ b1) =
      ((Sys.runB cfg (Sys.runB cfg s b a).1 (Sys.runB cfg s b a).2.1 b1).1,
       (Sys.runB cfg (Sys.runB cfg s b a).1 (Sys.runB cfg s b a).2.1 b1).2.1,
       (Sys.runB cfg s b a).2.2 ++ (Sys.runB cfg (Sys.runB cfg s b a).1 (Sys.runB cfg s b a).2.1 b1).2.2)
  | [], s, b => by simp [Sys.runB]
  | op :: rest, s, b => by
    simp only [List.cons_append, Sys.runB]
    rw [runB_append cfg b1 rest]
    simp [List.append_assoc]

/-- `tickit_term_pause` and `tickit_term_teardown` end with a flush. -/
theorem step_flush_pause_teardown (cfg : Cfg) (s : Sys) (op : Op) (h : op = .pause ∨ op = .teardown) :
    (s.step cfg op).flush = true := by
  rcases h with rfl | rfl <;> rfl

/-- A history inside the contract that does not leave the terminal running ends with pause or teardown. -/
theorem ends_with_pause_or_teardown : ∀ (ops : List Op) (ph ph' : Phase), validFrom ph ops = some ph' → ph' ≠ .running →
    (ops = [] ∧ ph = ph') ∨ ∃ init last, ops = init ++ [last] ∧ (last = .pause ∨ last = .teardown)
  | [], ph, ph', hv, _ => by
    simp only [validFrom, Option.some.injEq] at hv
    exact Or.inl ⟨rfl, hv⟩
  | op :: rest, ph, ph', hv, hne => by
    right
    simp only [validFrom] at hv
    split at hv
    · cases hp : phaseNext ph op with
      | none => simp [hp] at hv
      | some ph1 =>
        simp only [hp, Option.bind_some] at hv
        rcases ends_with_pause_or_teardown rest ph1 ph' hv hne with ⟨rfl, rfl⟩ | ⟨init, last, rfl, hl⟩
        · refine ⟨[], op, rfl, ?_⟩
          cases ph <;> cases op <;> simp [phaseNext] at hp <;> first | exact absurd hp.symm hne | simp
        · exact ⟨op :: init, last, rfl, hl⟩
    · cases hv

/-- After a history inside the contract that ends paused or torn down, nothing is left in the output buffer,
    whatever its size: every byte written has reached the output function when the last call returns. -/
theorem runB_nothing_pending (cfg : Cfg) (ops : List Op) (ph : Phase) (s : Sys) (cap : Nat)
    (hv : validFrom .running ops = some ph) (hne : ph ≠ .running) :
    (Sys.runB cfg s { cap := cap } ops).2.1.pend = [] ∧ (Sys.runB cfg s { cap := cap } ops).2.2 = (Sys.run cfg s ops).2 := by
  have hpend : (Sys.runB cfg s { cap := cap } ops).2.1.pend = [] := by
    rcases ends_with_pause_or_teardown ops .running ph hv hne with ⟨_, rfl⟩ | ⟨init, last, rfl, hl⟩
    · exact absurd rfl hne
    · rw [runB_append]
      simp only [Sys.runB, Sys.stepB]
      rw [step_flush_pause_teardown cfg _ last hl]
      exact ((OBuf.call_stream _ _ true).2.2 rfl).1
  refine ⟨hpend, ?_⟩
  have := (runB_stream cfg ops s { cap := cap }).2
  rw [hpend] at this
  simpa using this

/-! ### a terminal shared with another holder -/

theorem Term.teardown_twice (t : Term) : (Term.teardown (Term.teardown t).1).2 = [] ∧ (Term.teardown t).1.state = .unstarted := by
  unfold Term.teardown
  split <;> simp_all

/-- Destroying the toplevel instance writes the same bytes whether or not the terminal survives it. -/
theorem dropOwner_top (s : Sys) (extra : Nat) (h : s.top.isSome = true) : (s.dropOwner extra).2 = s.destroy := by
  unfold Sys.dropOwner Sys.destroy
  cases ht : s.top with
  | none => simp [ht] at h
  | some top =>
    simp only
    split
    · rfl
    · rw [(Term.teardown_twice s.term).1, List.append_nil]

/-- The terminal that survives its toplevel instance is torn down, and its own destruction writes nothing more. -/
theorem dropOwner_left (s : Sys) (extra : Nat) (h : s.top.isSome = true) (left : Sys) (hl : (s.dropOwner extra).1 = some left) :
    left.term.state = .unstarted ∧ left.destroy = [] ∧ left.top = none := by
  unfold Sys.dropOwner at hl
  cases ht : s.top with
  | none => simp [ht] at h
  | some top =>
    simp only [ht] at hl
    split at hl
    · cases hl
    · simp only [Option.some.injEq] at hl
      subst hl
      have h2 := (Term.teardown_twice s.term).2
      refine ⟨h2, ?_, rfl⟩
      simp only [Sys.destroy]
      have : ∀ t : Term, t.state = .unstarted → (Term.teardown t).2 = [] ∧ (Term.teardown t).1.state = .unstarted := by
        intro t ht; unfold Term.teardown; simp [ht]
      obtain ⟨a1, a2⟩ := this _ h2
      rw [a1, (this _ a2).1]; rfl

theorem step_top (cfg : Cfg) (s : Sys) (op : Op) : (s.step cfg op).sys.top.isSome = s.top.isSome := by
  cases op <;> simp only [Sys.step] <;> try rfl
  all_goals (cases ht : s.top <;> simp only [] <;> (try split) <;> simp [ht])

theorem run_top (cfg : Cfg) : ∀ (ops : List Op) (s : Sys), (Sys.run cfg s ops).1.top.isSome = s.top.isSome
  | [], _ => rfl
  | op :: rest, s => by
    simp only [Sys.run]
    rw [run_top cfg rest, step_top]

theorem capKeptRun_append_pause_resume (cfg : Cfg) (ops : List Op) : ∀ (s : Sys),
    capKeptRun cfg s ops = true → capKeptRun cfg s (ops ++ [.pause, .resume]) = true := by
  induction ops with
  | nil => intro s _; simp [capKeptRun, capKept, Sys.step, Term.pause, Term.resume]
  | cons op rest ih =>
    intro s h
    simp only [List.cons_append, capKeptRun, Bool.and_eq_true] at h ⊢
    exact ⟨h.1, ih _ h.2⟩

theorem noPenTrigger_append_pause_resume (cfg : Cfg) (hr : cfg.resumeResendsPen = true) (ops : List Op) (s : Sys) :
    noPenTrigger cfg s (ops ++ [.pause, .resume]) = true := noPenTrigger_of_repaired cfg hr _ s

end Tickit.Modes
