import Tickit.Proof.WinVisible
import Tickit.Proof.WinScroll
/-
  The invariant step of `_scroll` (`tickit_window_scroll`, `tickit_window_scrollrect`): for every rectangle of the visible
  region — whose cells all belong to the scrolled window (`Proof/WinVisible.lean`) — either the whole rectangle is
  exposed (shift too large, or the terminal refuses), or the terminal moves its cells, the pending damage moves with
  them (`shiftDamage_spec`) and the vacated strips are exposed.  Induction over the rectangles of the visible region,
  which are pairwise disjoint (C05's `Inv`).
-/
namespace Tickit
namespace WinFlush
open WinTree WinRB WinSpec

def stripV (t : Tree) (fuel : Nat) (win : Id) (o : Rect) (cols d : Int) : Res Tree :=
  if d > 0 then expose t fuel win (some ⟨o.bottom - d, o.left, d, cols⟩)
  else if d < 0 then expose t fuel win (some ⟨o.top, o.left, -d, cols⟩) else .ok t

def stripH (t : Tree) (fuel : Nat) (win : Id) (o : Rect) (lines r : Int) : Res Tree :=
  if r > 0 then expose t fuel win (some ⟨o.top, o.right - r, lines, r⟩)
  else if r < 0 then expose t fuel win (some ⟨o.top, o.left, lines, -r⟩) else .ok t

/-- `scrollOne` with the two strip exposes named. -/
def scrollOne' (oracle : Oracle) (win : Id) (absTop absLeft d r : Int) (pen : Pen)
    (acc : St × Bool × Bool) (ρ : Rect) : Res (St × Bool × Bool) :=
  if (d.natAbs : Int) ≥ ρ.lines ∨ (r.natAbs : Int) ≥ ρ.cols then do
    let t ← expose acc.1.tree acc.1.fuel win (some (ρ.translate (-absTop) (-absLeft)))
    pure ({ acc.1 with tree := t }, acc.2.1, acc.2.2)
  else do
    let dmg ← shiftDamage ρ d r acc.1.tree.root.damage []
    if oracle acc.1.tlines acc.1.tcols ρ d r then do
      let t2 ← stripV { acc.1.tree with root := { acc.1.tree.root with damage := dmg } } acc.1.fuel win
            (ρ.translate (-absTop) (-absLeft)) ρ.cols d
      let t3 ← stripH t2 acc.1.fuel win (ρ.translate (-absTop) (-absLeft)) ρ.lines r
      pure ({ acc.1 with tree := t3, screen := termScroll acc.1.tlines acc.1.tcols acc.1.screen ρ d r (Cell.blank pen) },
              acc.2.1, true)
    else do
      let t ← expose { acc.1.tree with root := { acc.1.tree.root with damage := dmg } } acc.1.fuel win
            (some (ρ.translate (-absTop) (-absLeft)))
      pure ({ acc.1 with tree := t }, false, true)

theorem scrollOne_eq (oracle : Oracle) (win : Id) (absTop absLeft d r : Int) (pen : Pen)
    (acc : St × Bool × Bool) (ρ : Rect) :
    scrollOne oracle win absTop absLeft d r pen acc ρ = scrollOne' oracle win absTop absLeft d r pen acc ρ := by
  unfold scrollOne scrollOne' stripV stripH
  simp only [bind, Bind.bind, pure, Pure.pure, St.fuel]
  by_cases h0 : (d.natAbs : Int) ≥ ρ.lines ∨ (r.natAbs : Int) ≥ ρ.cols
  · simp only [h0, if_true]
  · simp only [h0, if_false]
    cases shiftDamage ρ d r acc.1.tree.root.damage [] with
    | ub e => rfl
    | ok dmg =>
      simp only
      by_cases ho : oracle acc.1.tlines acc.1.tcols ρ d r = true
      · simp only [ho, if_true]
        by_cases hd1 : d > 0 <;> by_cases hd2 : d < 0 <;> by_cases hr1 : r > 0 <;> by_cases hr2 : r < 0 <;>
          simp only [hd1, hd2, hr1, hr2, if_true, if_false]
      · simp only [ho, if_false, Bool.false_eq_true]


/-! ### exposes that only add damage -/

theorem expose_grow (t t' : Tree) (fuel : Nat) (id : Id) (e : Rect) (h : expose t fuel id (some e) = .ok t')
    (hne : ∀ x ∈ t.root.damage, x.Nonempty) (hpos : RootsPositive t) :
    t'.wins = t.wins ∧ (∀ x ∈ t'.root.damage, x.Nonempty) ∧ (RectSet.Inv t.root.damage → RectSet.Inv t'.root.damage) ∧
    RootStep t t' ∧ (∀ L C, Covered t.root.damage L C → Covered t'.root.damage L C) ∧
    (∀ L C l c, e.Mem l c → ExposedAt t fuel id l c L C → Covered t'.root.damage L C) := by
  obtain ⟨h1, h2, h3, h4, h5⟩ := expose_spec fuel t id _ t' h hne hpos
  refine ⟨h1, h2, h3, ?_, fun L C hc => (h5 L C).2 (Or.inl hc), fun L C l c hm hex => (h5 L C).2 (Or.inr ⟨l, c, ?_, hex⟩)⟩
  · rcases h4 with rfl | h4
    · exact RootStep.refl _
    · exact Or.inr h4
  · intro r hr; cases hr; exact hm

theorem rootsPositive_wins {t t' : Tree} (h : t'.wins = t.wins) (hp : RootsPositive t) : RootsPositive t' := by
  intro x w hx hr; rw [h] at hx; exact hp x w hx hr

/-- One optional strip expose (`if c1 then expose A else if c2 then expose B else nothing`). -/
theorem strip_step (t t' : Tree) (fuel : Nat) (win : Id) (c1 c2 : Prop) [Decidable c1] [Decidable c2] (A B : Rect)
    (h : (if c1 then expose t fuel win (some A) else if c2 then expose t fuel win (some B) else .ok t) = .ok t')
    (hne : ∀ x ∈ t.root.damage, x.Nonempty) (hpos : RootsPositive t) :
    t'.wins = t.wins ∧ (∀ x ∈ t'.root.damage, x.Nonempty) ∧ (RectSet.Inv t.root.damage → RectSet.Inv t'.root.damage) ∧
    RootStep t t' ∧ (∀ L C, Covered t.root.damage L C → Covered t'.root.damage L C) ∧
    (c1 → ∀ L C l c, A.Mem l c → ExposedAt t fuel win l c L C → Covered t'.root.damage L C) ∧
    (¬ c1 → c2 → ∀ L C l c, B.Mem l c → ExposedAt t fuel win l c L C → Covered t'.root.damage L C) := by
  by_cases h1 : c1
  · rw [if_pos h1] at h
    obtain ⟨a1, a2, a3, a4, a5, a6⟩ := expose_grow t t' fuel win A h hne hpos
    exact ⟨a1, a2, a3, a4, a5, fun _ => a6, fun hn => absurd h1 hn⟩
  · rw [if_neg h1] at h
    by_cases h2 : c2
    · rw [if_pos h2] at h
      obtain ⟨a1, a2, a3, a4, a5, a6⟩ := expose_grow t t' fuel win B h hne hpos
      exact ⟨a1, a2, a3, a4, a5, fun hx => absurd hx h1, fun _ _ => a6⟩
    · rw [if_neg h2] at h
      cases h
      exact ⟨rfl, hne, fun hi => hi, RootStep.refl _, fun _ _ hc => hc, fun hx => absurd hx h1, fun _ hx => absurd hx h2⟩

/-! ### the terminal scroll on the grid -/

theorem termScroll_outside (tl tc : Int) (g : Int → Int → Cell) (ρ : Rect) (d r : Int) (fill : Cell) (L C : Int)
    (h : ¬ ρ.Mem L C) : termScroll tl tc g ρ d r fill L C = g L C := by
  unfold termScroll
  have : ρ.memb L C = false := (memb_false_iff _ _ _).2 h
  simp [this]

theorem termScroll_inside (tl tc : Int) (g : Int → Int → Cell) (ρ : Rect) (d r : Int) (fill : Cell) (L C : Int)
    (h1 : ρ.Mem L C) (b1 : 0 ≤ L ∧ L < tl ∧ 0 ≤ C ∧ C < tc)
    (h2 : ρ.Mem (L + d) (C + r)) (b2 : 0 ≤ L + d ∧ L + d < tl ∧ 0 ≤ C + r ∧ C + r < tc) :
    termScroll tl tc g ρ d r fill L C = g (L + d) (C + r) := by
  unfold termScroll
  have e1 : ρ.memb L C = true := (memb_true_iff _ _ _).2 h1
  have e2 : ρ.memb (L + d) (C + r) = true := (memb_true_iff _ _ _).2 h2
  simp [e1, e2, b1.1, b1.2.1, b1.2.2.1, b1.2.2.2, b2.1, b2.2.1, b2.2.2.1, b2.2.2.2]

theorem shiftDamage_nil (ρ : Rect) (d r : Int) (acc : List Rect) : shiftDamage ρ d r [] acc = .ok acc := rfl

/-! ### the loop invariant -/

/-- What the loop keeps of the state. -/
structure SLoopOk (t0 : Tree) (st0 st : St) : Prop where
  wins : st.tree.wins = t0.wins
  changes : st.tree.root.changes = st0.tree.root.changes
  tl : st.tlines = st0.tlines
  tc : st.tcols = st0.tcols
  pens : st.pens = st0.pens
  nonempty : ∀ x ∈ st.tree.root.damage, x.Nonempty
  dinv : RectSet.Inv st.tree.root.damage
  flags : Flags st.tree
  later : st0.tree.root.needsLater = true → st.tree.root.needsLater = true

/-- "Damaged or already right", with the new content inside the region `D` scrolled so far and the old one elsewhere. -/
def Mixed (content content' : Id → Int → Int → Cell) (t0 : Tree) (D : Int → Int → Prop) (st : St) : Prop :=
  ∀ L C w l c, ownerAt t0 L C = some (w, l, c) →
    Covered st.tree.root.damage L C ∨ (D L C ∧ st.screen L C = content' w l c) ∨ (¬ D L C ∧ st.screen L C = content w l c)

theorem sLoopOk_expose {t0 : Tree} {st0 st : St} {t' : Tree} (hl : SLoopOk t0 st0 st) (hw : t'.wins = st.tree.wins)
    (hne : ∀ x ∈ t'.root.damage, x.Nonempty) (hdi : RectSet.Inv t'.root.damage) (hs : RootStep st.tree t')
    (scr : Int → Int → Cell) : SLoopOk t0 st0 { st with tree := t', screen := scr } :=
  { wins := hw.trans hl.wins
    changes := hs.changes.trans hl.changes
    tl := hl.tl, tc := hl.tc, pens := hl.pens
    nonempty := hne
    dinv := hdi
    flags := hs.flags hl.flags
    later := fun h => by
      have := hl.later h
      rcases hs with hs | ⟨_, y, _⟩
      · show t'.root.needsLater = true
        rw [hs]; exact this
      · exact y }

theorem mixed_grow (content content' : Id → Int → Int → Cell) (t0 : Tree) (D : Int → Int → Prop) (ρ : Rect) (st st' : St)
    (hM : Mixed content content' t0 D st)
    (hscr : ∀ L C, ¬ ρ.Mem L C → st'.screen L C = st.screen L C)
    (hgrow : ∀ L C, ¬ ρ.Mem L C → Covered st.tree.root.damage L C → Covered st'.tree.root.damage L C)
    (hin : ∀ L C w l c, ρ.Mem L C → ownerAt t0 L C = some (w, l, c) →
      Covered st'.tree.root.damage L C ∨ st'.screen L C = content' w l c) :
    Mixed content content' t0 (fun L C => ρ.Mem L C ∨ D L C) st' := by
  intro L C w l c ho
  by_cases hm : ρ.Mem L C
  · rcases hin L C w l c hm ho with h1 | h1
    · exact Or.inl h1
    · exact Or.inr (Or.inl ⟨Or.inl hm, h1⟩)
  · rcases hM L C w l c ho with h1 | ⟨h1, h2⟩ | ⟨h1, h2⟩
    · exact Or.inl (hgrow L C hm h1)
    · exact Or.inr (Or.inl ⟨Or.inr h1, by rw [hscr L C hm]; exact h2⟩)
    · exact Or.inr (Or.inr ⟨fun hx => by rcases hx with hx | hx; exact hm hx; exact h1 hx, by rw [hscr L C hm]; exact h2⟩)

/-- **One rectangle of the visible region**: whichever way `_scrollrectset` deals with it, the invariant moves on with
    the new content inside it. -/
theorem scrollOne_step (oracle : Oracle) (content content' : Id → Int → Int → Cell) (t0 : Tree) (st0 : St) (win : Id)
    (T' L' d r : Int) (pen : Pen) (D : Int → Int → Prop) (acc acc' : St × Bool × Bool) (ρ : Rect)
    (h : scrollOne oracle win T' L' d r pen acc ρ = .ok acc')
    (hok : TreeOk t0) (hpos : RootsPositive t0) (hl : SLoopOk t0 st0 acc.1) (hρ : ρ.Nonempty)
    (hown : ∀ L C, ρ.Mem L C → ownerAt t0 L C = some (win, L - T', C - L') ∧ ¬ D L C ∧
      0 ≤ L ∧ L < st0.tlines ∧ 0 ≤ C ∧ C < st0.tcols)
    (hca : ∀ L C, ρ.Mem L C → content' win (L - T') (C - L') = content win (L - T' + d) (C - L' + r))
    (hM : Mixed content content' t0 D acc.1) :
    SLoopOk t0 st0 acc'.1 ∧ Mixed content content' t0 (fun L C => ρ.Mem L C ∨ D L C) acc'.1 := by
  rw [scrollOne_eq] at h
  unfold scrollOne' at h
  simp only [bind, Bind.bind, pure, Pure.pure, St.fuel] at h
  have hfuel : acc.1.tree.wins.size + 1 = t0.wins.size + 1 := by rw [hl.wins]
  -- every cell of the rectangle is exposed from the scrolled window, in any tree with this store
  have hex : ∀ L C, ρ.Mem L C → ∀ t : Tree, t.wins = t0.wins → ExposedAt t (t0.wins.size + 1) win (L - T') (C - L') L C := by
    intro L C hm t ht
    exact exposedAt_congr ht _ _ _ _ _ _ (owner_exposedAt t0 hok L C win _ _ (hown L C hm).1)
  have hom : ∀ L C, ρ.Mem L C → (ρ.translate (-T') (-L')).Mem (L - T') (C - L') := by
    intro L C hm
    simp only [Rect.translate, Rect.Mem, Rect.bottom, Rect.right] at hm ⊢
    omega
  -- the whole rectangle exposed: common to "shift too large" and "terminal refuses"
  have whole : ∀ (st1 : St) (t' : Tree) (ret' dp' : Bool), SLoopOk t0 st0 st1 → st1.screen = acc.1.screen →
      (∀ L C, ¬ ρ.Mem L C → Covered acc.1.tree.root.damage L C → Covered st1.tree.root.damage L C) →
      expose st1.tree (t0.wins.size + 1) win (some (ρ.translate (-T') (-L'))) = .ok t' →
      SLoopOk t0 st0 ({ st1 with tree := t' }, ret', dp').1 ∧
        Mixed content content' t0 (fun L C => ρ.Mem L C ∨ D L C) ({ st1 with tree := t' }, ret', dp').1 := by
    intro st1 t' ret' dp' hl1 hscr hout he
    obtain ⟨a1, a2, a3, a4, a5, a6⟩ := expose_grow st1.tree t' _ win _ he hl1.nonempty (rootsPositive_wins hl1.wins hpos)
    have := sLoopOk_expose hl1 a1 a2 (a3 hl1.dinv) a4 st1.screen
    refine ⟨this, mixed_grow content content' t0 D ρ acc.1 _ hM (fun L C _ => by show st1.screen L C = _; rw [hscr])
      (fun L C hm hc => a5 L C (hout L C hm hc)) (fun L C w l c hm _ => Or.inl ?_)⟩
    exact a6 L C _ _ (hom L C hm) (hex L C hm st1.tree hl1.wins)
  split at h
  · -- shift too large
    rw [hfuel] at h
    cases he : expose acc.1.tree (t0.wins.size + 1) win (some (ρ.translate (-T') (-L'))) with
    | ub e => rw [he] at h; cases h
    | ok t' =>
      rw [he] at h
      simp only [Res.ok.injEq] at h
      subst h
      exact whole acc.1 t' _ _ hl rfl (fun _ _ _ hc => hc) he
  · cases hsd : shiftDamage ρ d r acc.1.tree.root.damage [] with
    | ub e => rw [hsd] at h; cases h
    | ok dmg1 =>
      rw [hsd] at h
      simp only at h
      obtain ⟨s1, s2⟩ := shiftDamage_spec ρ d r hρ _ [] dmg1 hsd hl.nonempty RectSet.invS_nil
      generalize ht1 : ({ acc.1.tree with root := { acc.1.tree.root with damage := dmg1 } } : Tree) = t1 at h
      have h1w : t1.wins = acc.1.tree.wins := by rw [← ht1]
      have h1d : t1.root.damage = dmg1 := by rw [← ht1]
      have hl1 : SLoopOk t0 st0 { acc.1 with tree := t1 } :=
        { wins := h1w.trans hl.wins
          changes := by rw [← ht1]; exact hl.changes
          tl := hl.tl, tc := hl.tc, pens := hl.pens
          nonempty := by rw [h1d]; exact s1.1
          dinv := by rw [h1d]; exact (RectSet.inv_iff _).2 s1
          flags := by
            intro hd
            rw [h1d] at hd
            have hne0 : acc.1.tree.root.damage ≠ [] := by
              intro h0
              rw [h0, shiftDamage_nil] at hsd
              cases hsd
              exact hd rfl
            have := hl.flags hne0
            rw [← ht1]
            exact this
          later := by rw [← ht1]; exact hl.later }
      have hout : ∀ L C, ¬ ρ.Mem L C → Covered acc.1.tree.root.damage L C → Covered t1.root.damage L C := by
        intro L C hm hc
        rw [h1d]
        obtain ⟨rj, hrj, hmem⟩ := hc
        exact (s2 L C).2 (Or.inr ⟨rj, hrj, Or.inl ⟨hmem, hm⟩⟩)
      rw [hfuel] at h
      split at h
      · -- the terminal scrolls
        cases hv : stripV t1 (t0.wins.size + 1) win (ρ.translate (-T') (-L')) ρ.cols d with
        | ub e => rw [hv] at h; cases h
        | ok t2 =>
          rw [hv] at h
          simp only at h
          cases hh : stripH t2 (t0.wins.size + 1) win (ρ.translate (-T') (-L')) ρ.lines r with
          | ub e => rw [hh] at h; cases h
          | ok t3 =>
            rw [hh] at h
            simp only [Res.ok.injEq] at h
            subst h
            unfold stripV at hv
            unfold stripH at hh
            obtain ⟨a1, a2, a3, a4, a5, a6, a7⟩ := strip_step t1 t2 _ win _ _ _ _ hv hl1.nonempty (rootsPositive_wins hl1.wins hpos)
            have hw2 : t2.wins = t0.wins := a1.trans hl1.wins
            obtain ⟨b1, b2, b3, b4, b5, b6, b7⟩ := strip_step t2 t3 _ win _ _ _ _ hh a2 (rootsPositive_wins hw2 hpos)
            have hl2 := sLoopOk_expose hl1 a1 a2 (a3 hl1.dinv) a4 acc.1.screen
            have hl3 := sLoopOk_expose hl2 b1 b2 (b3 (a3 hl1.dinv)) b4
              (termScroll acc.1.tlines acc.1.tcols acc.1.screen ρ d r (Cell.blank pen))
            refine ⟨hl3, mixed_grow content content' t0 D ρ acc.1 _ hM
              (fun L C hm => termScroll_outside _ _ _ _ _ _ _ L C hm)
              (fun L C hm hc => b5 L C (a5 L C (hout L C hm hc))) ?_⟩
            intro L C w l c hm ho
            obtain ⟨ho', hnd, q1, q2, q3, q4⟩ := hown L C hm
            rw [ho'] at ho
            simp only [Option.some.injEq, Prod.mk.injEq] at ho
            obtain ⟨rfl, rfl, rfl⟩ := ho
            have hmm := hm
            simp only [Rect.Mem, Rect.bottom, Rect.right] at hmm
            by_cases hin : ρ.Mem (L + d) (C + r)
            · -- the cell receives the cell `(d, r)` away, which belongs to the window too
              obtain ⟨ho2, hnd2, p1, p2, p3, p4⟩ := hown _ _ hin
              have hscr : termScroll acc.1.tlines acc.1.tcols acc.1.screen ρ d r (Cell.blank pen) L C =
                  acc.1.screen (L + d) (C + r) :=
                termScroll_inside _ _ _ _ _ _ _ L C hm (by rw [hl.tl, hl.tc]; exact ⟨q1, q2, q3, q4⟩) hin
                  (by rw [hl.tl, hl.tc]; exact ⟨p1, p2, p3, p4⟩)
              rcases hM _ _ _ _ _ ho2 with hc | ⟨hd', _⟩ | ⟨_, hs⟩
              · left
                apply b5; apply a5
                rw [h1d]
                obtain ⟨rj, hrj, hmem⟩ := hc
                exact (s2 L C).2 (Or.inr ⟨rj, hrj, Or.inr ⟨hm, hmem, hin⟩⟩)
              · exact absurd hd' hnd2
              · right
                show termScroll acc.1.tlines acc.1.tcols acc.1.screen ρ d r (Cell.blank pen) L C = _
                rw [hscr, hs, hca L C hm]
                have e1 : L + d - T' = L - T' + d := by omega
                have e2 : C + r - L' = C - L' + r := by omega
                rw [e1, e2]
            · -- a vacated cell: inside one of the exposed strips
              left
              have hex1 := hex L C hm t1 hl1.wins
              have hex2 := hex L C hm t2 hw2
              simp only [Rect.Mem, Rect.bottom, Rect.right] at hin
              by_cases hv1 : L + d ≥ ρ.top + ρ.lines
              · apply b5
                refine a6 (by omega) L C _ _ ?_ hex1
                simp only [Rect.translate, Rect.Mem, Rect.bottom, Rect.right]
                omega
              · by_cases hv2 : L + d < ρ.top
                · apply b5
                  refine a7 (by omega) (by omega) L C _ _ ?_ hex1
                  simp only [Rect.translate, Rect.Mem, Rect.bottom, Rect.right]
                  omega
                · by_cases hh1 : C + r ≥ ρ.left + ρ.cols
                  · refine b6 (by omega) L C _ _ ?_ hex2
                    simp only [Rect.translate, Rect.Mem, Rect.bottom, Rect.right]
                    omega
                  · refine b7 (by omega) (by omega) L C _ _ ?_ hex2
                    simp only [Rect.translate, Rect.Mem, Rect.bottom, Rect.right]
                    omega
      · -- the terminal refuses: the whole rectangle is exposed
        cases he : expose t1 (t0.wins.size + 1) win (some (ρ.translate (-T') (-L'))) with
        | ub e => rw [he] at h; cases h
        | ok t' =>
          rw [he] at h
          simp only [Res.ok.injEq] at h
          subst h
          exact whole { acc.1 with tree := t1 } t' _ _ hl1 rfl hout he

theorem mixed_congr (content content' : Id → Int → Int → Cell) (t0 : Tree) (D D' : Int → Int → Prop) (st : St)
    (h : ∀ L C, D L C ↔ D' L C) (hM : Mixed content content' t0 D st) : Mixed content content' t0 D' st := by
  intro L C w l c ho
  rcases hM L C w l c ho with h1 | ⟨h1, h2⟩ | ⟨h1, h2⟩
  · exact Or.inl h1
  · exact Or.inr (Or.inl ⟨(h L C).1 h1, h2⟩)
  · exact Or.inr (Or.inr ⟨fun hx => h1 ((h L C).2 hx), h2⟩)

/-- **The loop over the visible region.** -/
theorem scrollLoop_step (oracle : Oracle) (content content' : Id → Int → Int → Cell) (t0 : Tree) (st0 : St) (win : Id)
    (T' L' d r : Int) (pen : Pen) (hok : TreeOk t0) (hpos : RootsPositive t0) :
    ∀ (rest : List Rect) (D : Int → Int → Prop) (acc acc' : St × Bool × Bool),
    scrollLoop oracle win T' L' d r pen rest acc = .ok acc' →
    SLoopOk t0 st0 acc.1 → (∀ ρ ∈ rest, ρ.Nonempty) → rest.Pairwise Rect.Disjoint →
    (∀ ρ ∈ rest, ∀ L C, ρ.Mem L C → ownerAt t0 L C = some (win, L - T', C - L') ∧ ¬ D L C ∧
      0 ≤ L ∧ L < st0.tlines ∧ 0 ≤ C ∧ C < st0.tcols) →
    (∀ ρ ∈ rest, ∀ L C, ρ.Mem L C → content' win (L - T') (C - L') = content win (L - T' + d) (C - L' + r)) →
    Mixed content content' t0 D acc.1 →
    SLoopOk t0 st0 acc'.1 ∧ Mixed content content' t0 (fun L C => Covered rest L C ∨ D L C) acc'.1 := by
  intro rest
  induction rest with
  | nil =>
    intro D acc acc' h hl _ _ _ _ hM
    simp only [scrollLoop] at h
    cases h
    exact ⟨hl, mixed_congr content content' t0 D _ _ (fun L C => ⟨Or.inr, fun hx => by
      rcases hx with hx | hx
      · exact absurd hx (RectSet.covered_nil L C)
      · exact hx⟩) hM⟩
  | cons ρ rest ih =>
    intro D acc acc' h hl hne hdis hown hca hM
    simp only [scrollLoop, bind, Bind.bind] at h
    cases h1 : scrollOne oracle win T' L' d r pen acc ρ with
    | ub e => rw [h1] at h; cases h
    | ok acc1 =>
      rw [h1] at h
      simp only at h
      obtain ⟨a1, a2⟩ := scrollOne_step oracle content content' t0 st0 win T' L' d r pen D acc acc1 ρ h1 hok hpos hl
        (hne ρ List.mem_cons_self) (hown ρ List.mem_cons_self) (hca ρ List.mem_cons_self) hM
      have hdis' := List.pairwise_cons.1 hdis
      obtain ⟨b1, b2⟩ := ih (fun L C => ρ.Mem L C ∨ D L C) acc1 acc' h a1 (fun q hq => hne q (List.mem_cons_of_mem _ hq)) hdis'.2
        (fun q hq L C hm => by
          obtain ⟨c1, c2, c3⟩ := hown q (List.mem_cons_of_mem _ hq) L C hm
          refine ⟨c1, ?_, c3⟩
          rintro (hx | hx)
          · exact hdis'.1 q hq L C ⟨hx, hm⟩
          · exact c2 hx)
        (fun q hq => hca q (List.mem_cons_of_mem _ hq)) a2
      refine ⟨b1, mixed_congr content content' t0 _ _ _ (fun L C => ?_) b2⟩
      rw [RectSet.covered_cons]
      constructor
      · rintro (hx | hx | hx)
        · exact Or.inl (Or.inr hx)
        · exact Or.inl (Or.inl hx)
        · exact Or.inr hx
      · rintro ((hx | hx) | hx)
        · exact Or.inr (Or.inl hx)
        · exact Or.inl hx
        · exact Or.inr (Or.inr hx)

/-! ### the visible region is what the window owns inside the rectangle -/

theorem clip_nonempty (t : Tree) : ∀ (k : Nat) (a : Id) (aT aL : Int) (r r' : Rect),
    clipToAncestors t k a aT aL r = .ok (some r') → r.Nonempty → r'.Nonempty := by
  intro k
  induction k with
  | zero => intro a aT aL r r' h; simp [clipToAncestors] at h
  | succ n ih =>
    intro a aT aL r r' h hr
    simp only [clipToAncestors, bind, Bind.bind] at h
    cases hg : WinTree.get t a with
    | ub e => rw [hg] at h; cases h
    | ok aw =>
      rw [hg] at h
      simp only at h
      cases hp : aw.parent with
      | none =>
        simp only [hp, pure, Pure.pure, Res.ok.injEq, Option.some.injEq] at h
        subst h; exact hr
      | some p =>
        simp only [hp] at h
        cases hgp : WinTree.get t p with
        | ub e => rw [hgp] at h; cases h
        | ok pw =>
          rw [hgp] at h
          simp only at h
          cases hi : Rect.intersect r ⟨-(aT + aw.rect.top), -(aL + aw.rect.left), pw.rect.lines, pw.rect.cols⟩ with
          | none => rw [hi] at h; simp only [pure, Pure.pure] at h; cases h
          | some r1 =>
            rw [hi] at h
            simp only at h
            exact ih p _ _ r1 r' h (Props.C06.intersect_some _ _ _ hi).1

theorem visible_spec (t : Tree) (pens : Array (Option Pen)) (hok : TreeOk t) (ho : Ordered t) (hpl : ParentListed t)
    (win : Id) (w : Win) (hw : t.wins[win]? = some w) (origrect rect0 rect : Rect)
    (h0 : Rect.intersect ⟨0, 0, w.rect.lines, w.rect.cols⟩ origrect = some rect0)
    (h1 : clipToAncestors t (t.wins.size + 1) win 0 0 rect0 = .ok (some rect))
    (vis0 vis1 : List Rect) (h2 : rsAdd [] rect = .ok vis0) (h3 : subtractChildren t w.children vis0 = .ok vis1)
    (pen : Pen) (top : Id) (vis' : List Rect) (T' L' : Int) (pen' : Pen)
    (h4 : scrollWalk t pens (t.wins.size + 1) win vis1 0 0 pen = .ok (some (top, vis', T', L', pen')))
    (tw : Win) (htw : t.wins[top]? = some tw) (hroot : tw.isRoot = true) :
    RectSet.Inv vis' ∧
    (∀ L C, Covered vis' L C → ownerAt t L C = some (win, L - T', C - L') ∧ origrect.Mem (L - T') (C - L')) ∧
    (∀ L C l c, ownerAt t L C = some (win, l, c) → origrect.Mem l c → Covered vis' L C) := by
  obtain ⟨hne0, hm0⟩ := Props.C06.intersect_some _ _ _ h0
  have hrne := clip_nonempty t _ win 0 0 rect0 rect h1 hne0
  have hinvnil : RectSet.Inv ([] : List Rect) := (RectSet.inv_iff _).2 RectSet.invS_nil
  have hinv0 := Props.C05.add_inv rsFuel [] vis0 rect (rsAdd_ok h2) hrne hinvnil
  have hcov0 := (Props.C05.add_spec rsFuel [] vis0 rect (rsAdd_ok h2) hrne (fun _ h => by cases h)).2
  obtain ⟨hinv1, hlive, hcov1⟩ := subtractChildren_spec t w.children vis0 vis1 h3 hinv0
  have hclip := clip_sub t _ win 0 0 rect0 rect h1
  -- the level of the scrolled window itself
  have hall_none : ∀ x y, NoneCovers t w.children x y → w.children.findSome? (fun ch => own t ch x y) = none :=
    fun x y hn => List.findSome?_eq_none_iff.2 (own_none_of_noneCovers t ho w.children x y hn)
  obtain ⟨hinv', tw', htw', htp, htv, htf, hbt, hv1, hv2⟩ := scrollWalk_spec t pens hok ho hpl win (fun l c => rect.Mem l c)
    _ win vis1 0 0 pen top vis' T' L' pen' h4 hinv1 (Anc.refl win)
    (fun l c ht => (hclip l c ht).2)
    (fun l c ht aw haw => by
      rw [hw] at haw; cases haw
      have := ((hm0 l c).1 (hclip l c ht).1).1
      simp only [Rect.Mem, Rect.bottom, Rect.right] at this
      omega)
    (fun x y hc aw haw => by
      rw [hw] at haw; cases haw
      obtain ⟨c1, c2⟩ := (hcov1 x y).1 hc
      have hr : rect.Mem x y := by
        rcases (hcov0 x y).1 c1 with hx | hx
        · exact absurd hx (RectSet.covered_nil x y)
        · exact hx
      simp only [Int.sub_zero]
      refine ⟨hr, ?_⟩
      unfold subOwn
      rw [hall_none x y c2])
    (fun x y l c aw haw hs ht => by
      rw [hw] at haw; cases haw
      unfold subOwn at hs
      cases hfs : w.children.findSome? (fun ch => own t ch x y) with
      | none =>
        rw [hfs] at hs
        simp only [Prod.mk.injEq] at hs
        obtain ⟨_, rfl, rfl⟩ := hs
        refine ⟨(hcov1 x y).2 ⟨(hcov0 x y).2 (Or.inr ht), ?_⟩, by omega, by omega⟩
        intro ch hch cw hcw hv
        exact not_mem_of_own_none t ho ch x y (hlive ch hch) (List.findSome?_eq_none_iff.1 hfs ch hch) cw hcw hv
      | some o =>
        rw [hfs] at hs
        simp only at hs
        subst hs
        obtain ⟨ch, hch, hown⟩ := List.exists_of_findSome?_eq_some hfs
        have h1' := anc_le t ho hpl (ownerLoc_anc t hok.wf _ ch x y win l c hown)
        have h2' : @LT.lt Nat _ win ch := ho win w hw ch hch
        omega)
  rw [htw] at htw'; cases htw'
  have htop0 : top = 0 := hok.onlyRoot top tw htw hroot
  subst htop0
  obtain ⟨rw0, hrw0, _, _, _, hrt, hrl⟩ := hok.rootWin.ex
  rw [htw] at hrw0; cases hrw0
  have hown0 : ∀ L C, 0 ≤ L → L < tw.rect.lines → 0 ≤ C → C < tw.rect.cols →
      ownerAt t L C = some (subOwn t 0 tw.children L C) := by
    intro L C b1 b2 b3 b4
    rw [ownerAt_own, own_eq_sub t ho 0 tw htw, if_pos, hrt, hrl]
    · simp only [Int.sub_zero]
    · refine ⟨htv, htf, (memb_true_iff _ _ _).2 ?_⟩
      simp only [Rect.Mem, Rect.bottom, Rect.right]
      omega
  refine ⟨hinv', ?_, ?_⟩
  · intro L C hc
    obtain ⟨ht, hs⟩ := hv1 L C hc
    have hb := hbt _ _ ht
    rw [hown0 L C (by omega) (by omega) (by omega) (by omega), hs]
    exact ⟨rfl, ((hm0 _ _).1 (hclip _ _ ht).1).2⟩
  · intro L C l c hown horig
    have hex := owner_exposedAt t hok L C win l c hown
    -- the cell is inside the window, hence in `rect0`, and inside every ancestor, hence in `rect`
    have hself : (⟨0, 0, w.rect.lines, w.rect.cols⟩ : Rect).Mem l c := by
      simp only [ExposedAt] at hex
      obtain ⟨w', hw', _, b1, b2, b3, b4, _⟩ := hex
      rw [hw] at hw'; cases hw'
      simp only [Rect.Mem, Rect.bottom, Rect.right]
      omega
    have hr0 : rect0.Mem l c := (hm0 l c).2 ⟨hself, horig⟩
    obtain ⟨r', hr', hmr⟩ := clip_keep t hok _ win 0 0 rect0 (some rect) (t.wins.size + 1) l c L C h1 hr0
      (by simpa using hex)
    cases hr'
    obtain ⟨wr, hwr, b1, b2, b3, b4⟩ := ownerAt_some_memb t ⟨⟨tw, htw, htf, htv, hrt, hrl⟩⟩ L C _ hown
    rw [htw] at hwr; cases hwr
    rw [hown0 L C b1 b2 b3 b4] at hown
    simp only [Option.some.injEq] at hown
    exact (hv2 L C l c hown hmr).1

/-! ### the step of `_scroll` on the state invariant -/

/-- The invariant only reads the content of owned cells. -/
theorem goodQ_content_congr (content content' : Id → Int → Int → Cell) (st : St) (hg : GoodQ content st)
    (h : ∀ L C w l c, ownerAt st.tree L C = some (w, l, c) → content' w l c = content w l c) : GoodQ content' st :=
  { tinv := ⟨hg.tinv.ok, hg.tinv.ord, hg.tinv.pos, hg.tinv.nonempty, hg.tinv.dinv, fun L C w l c ho => by
      rcases hg.tinv.inv L C w l c ho with hc | hc
      · exact Or.inl hc
      · exact Or.inr (by rw [h L C w l c ho]; exact hc)⟩
    flags := hg.flags, queue := hg.queue, queueLater := hg.queueLater, term := hg.term, pc := hg.pc }

/-- Raising `needs_restore` and `needs_later_processing` keeps the invariant. -/
theorem goodQ_reroot (content : Id → Int → Int → Cell) (st : St) (t' : Tree) (hg : GoodQ content st)
    (hw : t'.wins = st.tree.wins) (hd : t'.root.damage = st.tree.root.damage) (hc : t'.root.changes = st.tree.root.changes)
    (he : t'.root.needsExpose = st.tree.root.needsExpose) (hl : t'.root.needsLater = true) :
    GoodQ content { st with tree := t' } := by
  have hcore : ∀ x : Id, (t'.wins[x]?).map core = (st.tree.wins[x]?).map core := by intro x; rw [hw]
  exact
  { tinv := ⟨treeOk_congr_core hcore hg.tinv.ok, ordered_congr hw hg.tinv.ord,
             rootsPositive_congr_core hcore hg.tinv.pos,
             (by rw [hd]; exact hg.tinv.nonempty), (by rw [hd]; exact hg.tinv.dinv), fun L C w l c ho => by
               rw [ownerAt_congr t' st.tree hw] at ho
               rw [hd]
               exact hg.tinv.inv L C w l c ho⟩
    flags := fun hdd => ⟨by rw [he]; exact (hg.flags (by rw [← hd]; exact hdd)).1, hl⟩
    queue := (by intro q hq; rw [hc] at hq; exact hg.queue q hq)
    queueLater := fun _ => hl
    term := (by
      obtain ⟨w, a, b, c⟩ := hg.term
      exact ⟨w, by show t'.wins[0]? = some w; rw [hw]; exact a, b, c⟩)
    pc := parentListed_congr hw hg.pc }

/-- When the walk to the root meets a hidden window, the scrolled window shows nowhere. -/
theorem scrollWalk_none (t : Tree) (pens : Array (Option Pen)) (hok : TreeOk t) : ∀ (k : Nat) (a : Id) (vis : List Rect)
    (aT aL : Int) (pen : Pen), scrollWalk t pens k a vis aT aL pen = .ok none →
    ∀ (k' : Nat) (x y L C : Int), ¬ ExposedAt t k' a x y L C := by
  intro k
  induction k with
  | zero => intro a vis aT aL pen h; simp [scrollWalk] at h
  | succ n ih =>
    intro a vis aT aL pen h k' x y L C hex
    simp only [scrollWalk, bind, Bind.bind] at h
    cases hg : WinTree.get t a with
    | ub e => rw [hg] at h; cases h
    | ok aw =>
      rw [hg] at h
      have haw := get_ok hg
      simp only at h
      cases k' with
      | zero => simp [ExposedAt] at hex
      | succ k2 =>
        simp only [ExposedAt] at hex
        obtain ⟨aw', haw', _, _, _, _, _, hv, hrest⟩ := hex
        rw [haw.1] at haw'; cases haw'
        simp only [hv, Bool.not_true, Bool.false_eq_true, if_false] at h
        cases hp : aw.parent with
        | none => simp only [hp, pure, Pure.pure] at h; cases h
        | some p =>
          simp only [hp] at h
          cases hgp : WinTree.get t p with
          | ub e => rw [hgp] at h; cases h
          | ok pw =>
            rw [hgp] at h
            simp only at h
            cases hss : subtractSiblings t a pw.children (RectSet.translate vis aw.rect.top aw.rect.left) with
            | ub e => rw [hss] at h; cases h
            | ok v2 =>
              rw [hss] at h
              simp only at h
              rcases hrest with ⟨hr, _⟩ | ⟨_, p', hp', hexp⟩
              · have hx := hok.onlyRoot a aw haw.1 hr
                obtain ⟨rw0, hrw0, _, _, hrp, _⟩ := hok.rootWin.ex
                rw [hx] at haw
                rw [haw.1] at hrw0; cases hrw0
                rw [hp] at hrp; cases hrp
              · rw [hp] at hp'; cases hp'
                exact ih p _ _ _ _ h _ _ _ _ _ hexp

/-- **`scroll_step`**: `_scroll` with the children masked (`tickit_window_scroll`, `tickit_window_scrollrect`), under
    every scroll oracle, keeps the state invariant when the content of the scrolled window moves with the scroll inside
    the rectangle. -/
theorem scroll_step (oracle : Oracle) (content content' : Id → Int → Int → Cell) (st st' : St) (win : Id) (rect : Rect)
    (d r : Int) (pen : Option Pen) (ret : Bool) (hg : GoodQ content st)
    (h : scroll oracle st win rect d r pen true = .ok (st', ret))
    (hc : ∀ w l c, content' w l c =
      if w = win ∧ rect.memb l c = true then content w (l + d) (c + r) else content w l c) :
    GoodQ content' st' := by
  have hI := hg.tinv
  have hok := hI.ok
  -- where nothing of the window inside the rectangle shows, the two contents agree on every owned cell
  have trivial_case : (∀ L C l c, ownerAt st.tree L C = some (win, l, c) → ¬ rect.Mem l c) → GoodQ content' st := by
    intro hno
    apply goodQ_content_congr content content' st hg
    intro L C w l c ho
    rw [hc w l c]
    split
    · rename_i hx
      obtain ⟨rfl, hm⟩ := hx
      exact absurd ((memb_true_iff _ _ _).1 hm) (hno L C l c ho)
    · rfl
  unfold scroll at h
  simp only [bind, Bind.bind, pure, Pure.pure, if_true] at h
  cases hgw : WinTree.get st.tree win with
  | ub e => rw [hgw] at h; cases h
  | ok w =>
    rw [hgw] at h
    have hw := get_ok hgw
    simp only at h
    -- an owned cell of the window lies inside the window
    have hself : ∀ L C l c, ownerAt st.tree L C = some (win, l, c) →
        ExposedAt st.tree (st.tree.wins.size + 1) win l c L C ∧ (⟨0, 0, w.rect.lines, w.rect.cols⟩ : Rect).Mem l c := by
      intro L C l c ho
      have hex := owner_exposedAt st.tree hok L C win l c ho
      refine ⟨hex, ?_⟩
      simp only [ExposedAt] at hex
      obtain ⟨w', hw', _, b1, b2, b3, b4, _⟩ := hex
      rw [hw.1] at hw'; cases hw'
      simp only [Rect.Mem, Rect.bottom, Rect.right]
      omega
    cases h0 : Rect.intersect ⟨0, 0, w.rect.lines, w.rect.cols⟩ rect with
    | none =>
      rw [h0] at h
      simp only [Res.ok.injEq, Prod.mk.injEq] at h
      obtain ⟨rfl, _⟩ := h
      exact trivial_case (fun L C l c ho hm => Props.C06.intersect_none _ _ h0 l c ⟨(hself L C l c ho).2, hm⟩)
    | some rect0 =>
      rw [h0] at h
      simp only at h
      have hm0 := (Props.C06.intersect_some _ _ _ h0).2
      cases h1 : clipToAncestors st.tree st.fuel win 0 0 rect0 with
      | ub e => rw [h1] at h; cases h
      | ok cr =>
        rw [h1] at h
        simp only at h
        cases cr with
        | none =>
          simp only [Res.ok.injEq, Prod.mk.injEq] at h
          obtain ⟨rfl, _⟩ := h
          refine trivial_case (fun L C l c ho hm => ?_)
          obtain ⟨hex, hs⟩ := hself L C l c ho
          obtain ⟨r', hr', _⟩ := clip_keep st.tree hok _ win 0 0 rect0 none _ l c L C h1 ((hm0 l c).2 ⟨hs, hm⟩)
            (by simpa using hex)
          cases hr'
        | some crect =>
          simp only at h
          cases h2 : rsAdd [] crect with
          | ub e => rw [h2] at h; cases h
          | ok vis0 =>
            rw [h2] at h
            simp only at h
            cases h3 : subtractChildren st.tree w.children vis0 with
            | ub e => rw [h3] at h; cases h
            | ok vis1 =>
              rw [h3] at h
              simp only at h
              unfold scrollRectSet at h
              simp only [bind, Bind.bind, pure, Pure.pure] at h
              cases h4 : scrollWalk st.tree st.pens st.fuel win vis1 0 0 (pen.getD {}) with
              | ub e => rw [h4] at h; cases h
              | ok res =>
                rw [h4] at h
                simp only at h
                cases res with
                | none =>
                  simp only [Res.ok.injEq, Prod.mk.injEq] at h
                  obtain ⟨rfl, _⟩ := h
                  exact trivial_case (fun L C l c ho _ =>
                    scrollWalk_none st.tree st.pens hok _ win _ _ _ _ h4 _ _ _ _ _ (hself L C l c ho).1)
                | some quint =>
                  obtain ⟨top, vis', T', L', pen'⟩ := quint
                  simp only at h
                  cases hgt : WinTree.get st.tree top with
                  | ub e => rw [hgt] at h; cases h
                  | ok tw =>
                    rw [hgt] at h
                    have htw := get_ok hgt
                    simp only at h
                    cases hir : tw.isRoot with
                    | false => simp [hir] at h
                    | true =>
                      simp only [hir, Bool.not_true, Bool.false_eq_true, if_false] at h
                      cases hlp : scrollLoop oracle win T' L' d r pen' vis' (st, true, false) with
                      | ub e => rw [hlp] at h; cases h
                      | ok acc' =>
                        rw [hlp] at h
                        simp only [Res.ok.injEq, Prod.mk.injEq] at h
                        obtain ⟨hst', _⟩ := h
                        -- the visible region
                        obtain ⟨vinv, v1, v2⟩ := visible_spec st.tree st.pens hok hI.ord hg.pc win w hw.1 rect rect0 crect h0 h1
                          vis0 vis1 h2 h3 _ top vis' T' L' pen' h4 tw htw.1 hir
                        obtain ⟨rootw, hrootw, hrl, hrc⟩ := hg.term
                        have hl0 : SLoopOk st.tree st (st, true, false).1 :=
                          { wins := rfl, changes := rfl, tl := rfl, tc := rfl, pens := rfl, nonempty := hI.nonempty,
                            dinv := hI.dinv, flags := hg.flags, later := fun hx => hx }
                        have hM0 : Mixed content content' st.tree (fun _ _ => False) (st, true, false).1 := by
                          intro L C w' l c ho
                          rcases hI.inv L C w' l c ho with hcv | hr
                          · exact Or.inl hcv
                          · exact Or.inr (Or.inr ⟨fun hx => hx, hr⟩)
                        obtain ⟨a1, a2⟩ := scrollLoop_step oracle content content' st.tree st win T' L' d r pen' hok hI.pos vis'
                          (fun _ _ => False) (st, true, false) acc' hlp hl0 vinv.1 vinv.2.1
                          (fun ρ hρ L C hm => by
                            obtain ⟨o1, _⟩ := v1 L C ⟨ρ, hρ, hm⟩
                            have hro : RootOk st.tree := by
                              rcases root_vis_cases st.tree hI.ok with hv | ⟨wh, hwh, hvh⟩
                              · exact rootOk_of_visible hI.ok hv
                              · rw [ownerAt_none_of_hidden st.tree wh hwh hvh] at o1; cases o1
                            obtain ⟨wr, hwr, b1, b2, b3, b4⟩ := ownerAt_some_memb st.tree hro L C _ o1
                            rw [hrootw] at hwr; cases hwr
                            exact ⟨o1, fun hx => hx, b1, by omega, b3, by omega⟩)
                          (fun ρ hρ L C hm => by
                            obtain ⟨_, o2⟩ := v1 L C ⟨ρ, hρ, hm⟩
                            rw [hc win _ _, if_pos ⟨rfl, (memb_true_iff _ _ _).2 o2⟩])
                          hM0
                        -- "damaged or already right" for the new content
                        have hinv' : InvC content' acc'.1.tree acc'.1.screen := by
                          intro L C w' l c ho
                          rw [ownerAt_congr acc'.1.tree st.tree a1.wins] at ho
                          rcases a2 L C w' l c ho with hcv | ⟨_, hr⟩ | ⟨hnd, hr⟩
                          · exact Or.inl hcv
                          · exact Or.inr hr
                          · right
                            rw [hr, hc w' l c]
                            split
                            · rename_i hx
                              obtain ⟨rfl, hmm⟩ := hx
                              exact absurd (Or.inl (v2 L C l c ho ((memb_true_iff _ _ _).1 hmm))) hnd
                            · rfl
                        have hcore : ∀ x : Id, (acc'.1.tree.wins[x]?).map core = (st.tree.wins[x]?).map core := by
                          intro x; rw [a1.wins]
                        have hgl : GoodQ content' acc'.1 :=
                          { tinv := ⟨treeOk_congr_core hcore hok, ordered_congr a1.wins hI.ord,
                                     rootsPositive_congr_core hcore hI.pos,
                                     a1.nonempty, a1.dinv, hinv'⟩
                            flags := a1.flags
                            queue := (by intro q hq; rw [a1.changes] at hq; exact hg.queue q hq)
                            queueLater := (by
                              intro hq
                              rw [a1.changes] at hq
                              exact a1.later (hg.queueLater hq))
                            term := ⟨rootw, by rw [a1.wins]; exact hrootw, by rw [a1.tl]; exact hrl, by rw [a1.tc]; exact hrc⟩
                            pc := parentListed_congr a1.wins hg.pc }
                        rw [← hst']
                        split
                        · -- `needs_restore`, `needs_later_processing` raised
                          exact goodQ_reroot content' acc'.1 _ hgl rfl rfl rfl rfl rfl
                        · exact hgl

end WinFlush
end Tickit
